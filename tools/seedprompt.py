#!/usr/bin/env python3
"""Prepare an independent seeding task: creates a scratch worktree of /repo (outside /repo and /verif) and prints the
prompt for a fresh sub-agent.  The prompt carries ONLY the property's text and the titles of changes already taken for
that property (so that the new one differs); nothing about /verif's checks.
usage: tools/seedprompt.py <PID> <X>"""
import json, os, subprocess, sys

V = os.path.dirname(os.path.dirname(os.path.abspath(__file__)))


def main():
    pid, x = sys.argv[1], sys.argv[2]
    prop = None
    for l in open(os.path.join(V, "properties.jsonl")):
        p = json.loads(l)
        if p["id"] == pid:
            prop = p
    wt = "/tmp/seedwt/%s_%s" % (pid, x)
    out = "/tmp/seed/%s/%s" % (pid, x)
    os.makedirs("/tmp/seedwt", exist_ok=True)
    os.makedirs(out, exist_ok=True)
    if not os.path.exists(wt):
        subprocess.run(["git", "-C", "/repo", "worktree", "add", "-q", "--detach", wt, "HEAD"], check=True)
    taken = []
    for d in sorted(os.listdir(os.path.join(V, "seeded"))):
        mp = os.path.join(V, "seeded", d, "meta.json")
        if os.path.exists(mp):
            m = json.load(open(mp))
            if m.get("property") == pid:
                taken.append(m.get("title", ""))
    text = json.dumps({k: prop[k] for k in ("id", "title", "statement", "quantifier", "why_tests_cant", "anchors")}, indent=1)
    print(PROMPT % dict(pid=pid, x=x, wt=wt, out=out, prop=text, taken="\n".join("  - " + t for t in taken) or "  (none)"))


PROMPT = """You are helping to evaluate a verification effort for the Go project ObolNetwork/charon (Ethereum distributed-validator
middleware). Your job: produce ONE realistic source change ("seeded defect") that BREAKS the semantic property below
while the project still compiles and its existing test suite still passes, plus a small demonstration test that fails
with your change and passes without it.

Your private scratch git worktree of the repository is: %(wt)s
Work ONLY there (never touch /repo or /verif; do not read /verif). The sandbox is offline. Go settings for every shell
command: `export GOFLAGS=-mod=mod GOPROXY=off` (do NOT set GOTOOLCHAIN or GOSUMDB). Prefix long commands with `timeout`.

The property (id %(pid)s):
%(prop)s

Requirements for the change:
1. It must look like something a developer could plausibly commit: an optimisation, a refactoring, a "simplification",
   a resilience tweak, a caching layer, a narrowed lock, a reordered step, an off-by-one in a boundary, two cooperating
   edits that each look fine alone. No sabotage-looking code, no comments that give it away, no test-only behaviour.
2. It must need something SPECIFIC to manifest - a particular interleaving, a crash or fault at a particular point, a
   multi-step sequence of operations, an unusual-but-legal input or configuration, or two cooperating sites - NOT
   something ordinary use or the existing tests would expose at once.
3. `go build ./...` must succeed and the existing tests of every package you touched and of its direct dependants must
   still pass (`go test -count=1 ./<pkg>/...`; tests needing network may be pre-existing failures - compare with the
   unchanged tree by `git diff > /tmp/x.diff; git apply -R /tmp/x.diff; ...; git apply /tmp/x.diff` - NEVER use `git stash`:
   the stash is shared with other people's worktrees of the same repository).
4. It must differ from these changes that were already made for this property (pick another mechanism / site / trigger):
%(taken)s
5. Keep it small (typically < 60 changed lines), confined to non-test source files of the repository.

Deliverables, written to %(out)s/ :
- patch.diff : `git diff` of your change against HEAD (source files only, must apply with `git apply` on a clean tree).
- demo_test.go : ONE Go test file (package of your choice inside the repository; it is copied into that package's
  directory) that FAILS with the change and PASSES without it, deterministic, < 60 s. It may use internal (same-package)
  access and the repository's test utilities. It must demonstrate the PROPERTY being violated (not just that code differs).
- meta.json with the keys: "property": "%(pid)s", "title" (one line naming the change), "what_breaks" (a paragraph),
  "needs_to_manifest" (a paragraph: what exactly is needed to see it), "existing_tests_run" (list of commands you ran
  and that passed), "demo_cmd" of the exact form
  "cp demo_test.go <repo>/<pkg dir>/<name>_demo_test.go && go test -count=1 -run <TestName> ./<pkg dir>/".
Before finishing, verify yourself: (a) clean tree + demo => pass, (b) patched tree + demo => fail, (c) patched tree
without the demo: build ok and the touched packages' tests pass. Leave the worktree clean of the demo file and with the
patch applied or not - it will be discarded. Finally reply with a short summary (title, files touched, how it manifests).
"""

if __name__ == "__main__":
    main()
