#!/usr/bin/env python3
"""Regenerates /verif/MANIFEST.json from the table below (single source of truth for the registered checks)."""
import json, os, subprocess
V = os.path.dirname(os.path.dirname(os.path.abspath(__file__)))
props = [json.loads(l) for l in open(os.path.join(V, "properties.jsonl"))]

MC = "model_checking"
EX = "exploration"
CHECKS = {
 "C16": dict(level=MC, design="6/C16", engine="Deadliner",
   text="TLC exhausts every interleaving of registrations (with repeats), clock ticks, timer fires and consumer reads of specs/Deadliner over a small duty universe (equal deadlines, deadline 0, an exempt duty) for 10 safety invariants, 2 action properties and liveness under fairness; TLC-generated and seeded random schedules are executed on the real core.Deadliner under a fake clock and every recorded trace is validated step by step against the same spec (invariants evaluated at every step).",
   note="Trusted: TLC, clockwork.FakeClock as the time source, the executor's quiescence protocol (sentinel Add + waiter accounting). Exhaustive only within the stated constants.",
   technique="TLA+ spec (Deadliner.tla) model-checked with TLC; TLC-generated + random schedules replayed on core.Deadliner; trace validation with TLC"),
 "C19": dict(level=MC, design="6/C19", engine="MultiClient",
   text="TLC exhausts all outcome vectors (ok / each unavailability class / other errors / unsuccessful output / hang) and all completion orders of P<=3 primaries and B<=2 fallbacks for provide- and submit-style calls with caller cancellation anywhere (safety invariants plus SuccessIfAny/CancelPrompt/Terminates under fairness, two control configs that must fail); enumerated, TLC-simulated and random schedules are executed on the real eth2wrap multi client over gated mock nodes inside a testing/synctest bubble (exact quiescence, fake time) and every trace is validated against the spec.",
   note="Trusted: TLC; testing/synctest quiescence; mock nodes honour their context; error values are built as go-eth2-client produces them. Fallback decision on mixed failure classes is left nondeterministic (the statement is silent).",
   technique="TLA+ spec (MultiClient.tla) model-checked with TLC incl. liveness; schedules replayed on eth2wrap.NewMultiForT; TLC trace validation"),
 "C02": dict(level=MC, design="6/C02", engine="QBFT",
   text="QBFT.tla transcribes core/qbft/qbft.go rule by rule (incl. the compare-failure deviations, decided-resend rate limit, Go-map nondeterminism of the justification producers) with a Byzantine adversary bounded only by unforgeability; TLC checks Agreement and 8 further invariants exhaustively in micro-configurations (all delivery orders, N=3) plus a scripted control that must violate Agreement with quorum floor(2n/3); behaviours simulated by TLC (adversary repertoire included) and a seeded online adversary (n=3..7, up to f Byzantine members, almost-valid justifications with one defect each, loss/dup/reorder/timeouts/lagging members) drive the REAL qbft.Run of every honest member step by step and TLC validates every step's complete output (rule fired, unjust verdict, broadcast with justification, round, timer, decision) against the spec, evaluating the invariants after every step.",
   note="Trusted: TLC; the hook-free driver (unbuffered receive channel + double sentinel barrier); assumptions A1-A3 of QBFT.tla on adversarial justification lists. Exhaustive only inside the stated micro-configurations; Byzantine breadth comes from simulation and the random adversary.",
   technique="TLA+ spec of QBFT model-checked with TLC; TLC-simulated + adversarial random schedules replayed on the real qbft.Run; TLC trace validation of every step"),
 "C03": dict(level=MC, design="6/C03", engine="QBFT",
   text="Same specification and binding as C02, with DecideOnce, NonZero, LeaderProposed, Validity (no Byzantine member), QuorumBacked and DecisionFrozen evaluated after every step of every validated trace; schedules emphasise members that never or late obtain a proposal (pre-prepare justification cache), compare failures, re-proposal of prepared values and adversarial DECIDED messages; the Decide callback's (value, round, qcommit) is logged verbatim and must equal the spec's.",
   note="Trusted: as C02. The compare-timeout arm of UponJustifiedPrePrepare is not exercised (Compare answers immediately).",
   technique="TLA+ spec of QBFT model-checked with TLC; schedules replayed on the real qbft.Run; TLC trace validation incl. the Decide callback payload"),
 "C04": dict(level=MC, design="6/C04", engine="QBFT",
   text="Fault enumeration in virtual time around the real qbft.Run with the REAL round timers (eager double-linear and increasing) on a fake clock: for n=4 every crashed member x crash point (silent, or inside its k-th broadcast) x recipient subset x leader rotation, sampled for n=5..7 with up to f crashes, start offsets < 1 round, per-link latencies < 1/3 of the shortest timeout; each timed trace is validated step by step against QBFT.tla and the trace spec evaluates BoundedDecision (every running member decides in a round <= r0 + n) and NoHonestUnjust; NoHonestUnjust is also model-checked exhaustively in the untimed micro-configurations.",
   note="Trusted: TLC; clockwork.FakeClock as time source; the discrete-event scheduler of the executor (50 ms ticks). The timed behaviour is explored by enumeration in the executor, not by an exhaustive timed TLA+ model (see DESIGN.md).",
   technique="TLA+ spec of QBFT (untimed legality + timed trace invariants) checked with TLC; crash-point enumeration executed on real qbft.Run + real round timers; TLC trace validation"),
 "C17": dict(level=MC, design="6/C17", engine="AggSigDB",
   text="TLC exhausts all interleavings of reader calls over overlapping keys, one- and two-entry Store calls (equal and conflicting re-stores, both map orders), cancellations, expiries and the internal steps of both implementations (actor loop / RWMutex + broadcast) for ReadsStored, CancelSound, NoLostWakeup, ValueStable, MismatchNoChange and liveness under fairness, with control configs (as-coded capacity-1 notify, no notify on failed store) that must fail; TLC-generated and seeded random schedules (up to 8, thorough 14, concurrent readers) are executed on aggsigdb.NewMemDB and NewMemDBV2 and every trace is validated step by step against the same spec.",
   note="Trusted: TLC, the scripted deadliner stub, the 5 s must-return wait (a 50 ms probe affects detection only). Exhaustive only within the stated constants (2-3 readers, 2x2 keys, 2-3 stores).",
   technique="TLA+ spec (AggSigDB.tla, both implementations) model-checked with TLC incl. liveness; schedules replayed on both MemDB implementations; TLC trace validation"),
 "C15": dict(level=MC, design="6/C15", engine="Scheduler",
   text="Scheduler.tla transcribes scheduleSlot, resolveDuties, resolve*Duties, setDutyDefinition, newSlotTicker and delaySlotOffset goroutine by goroutine; TLC exhausts 3 epochs of 3 slots with validators that activate, exit or are foreign, all clock-jump (missed tick) patterns and up to 1 (3 in one config) failing beacon calls for AtMostOnce, OnlyAssigned, NotEarly, Complete and the ticker invariants, with six control variants that must each violate the invariant they target; traces of the real scheduler (direct, through the real DutiesCache, and with the cache disabled) inside a testing/synctest bubble with a fake clock are validated against the spec.",
   note="Trusted: TLC; testing/synctest quiescence; fake clock; beacon requests and subscribers take no time; 'not early' is judged on the deadline handed to the delay function; one set of assignments per schedule; reorg handling is out of scope.",
   technique="TLA+ spec (Scheduler.tla) model-checked with TLC; schedules replayed on scheduler.NewForT under synctest; TLC trace validation"),
 "C10": dict(level=EX, design="6/C10", engine="Admission",
   text="Admission.tla transcribes the admission checks of every signed-input endpoint of validatorapi and of the parsigex handler; TLC proves on the model that the transcription implies the property and that five check-dropped variants do not, and enumerates every abstract case (both paths, 12 object kinds, all data versions, all share indices and validators, every single alteration: 24,528 cases in 591 classes); each case is instantiated with real objects and real threshold-BLS shares and run through the real validatorapi endpoints and the real parsigex handler, Eth2 verifier and duty gater; TLC validates every recorded outcome against the model. New endpoints taking signed input are detected by reflection and fail the run as unmodelled.",
   note="Trusted: TLC; crypto abstraction (no forgery attempted); beaconmock fork schedule; stubbed scheduler/DutyDB/AggSigDB inputs; the verif hook core/parsigex/verif_export.go; the executor's alteration table. Model-based test generation with a spec oracle, not state-space exploration of the implementation.",
   technique="TLA+ case-analysis spec (Admission.tla) checked and enumerated with TLC; every case executed on real validatorapi/parsigex with real BLS; TLC validation of outcomes"),
 "C13": dict(level=MC, design="6/C13", engine="BcastDKG",
   text="BcastDKG.tla has one action per handler call of dkg/bcast (server: sign request with per-peer+id dedup, message delivery with the all-members signature check bound to session, id and payload; honest client; faulty member); TLC exhausts n=3,4 with one faulty member at every position, 2 sessions, 2 ids, 2-3 payloads (equivocation, relay, cross-session and cross-id replay, permuted / truncated / extended / substituted signature lists) for 9 invariants and 1 action property, with 5 controls that must fail; TLC-generated and scenario schedules (n in 3..6) are executed on real bcast.New components with real secp256k1 keys and every trace is validated against the same spec. The statement's agreement clause is checked as written (per transport sender and id); the one way it fails today is the recorded known finding C13-relay-foreign-payload.",
   note="Trusted: TLC; the crypto abstraction; libp2p peer authentication; the verif hook dkg/bcast/verif_export.go (synchronous handlers and in-process transport). One faulty member (two colluding ones are a documented control outside the statement).",
   technique="TLA+ spec (BcastDKG.tla) model-checked with TLC; adversarial schedules replayed on real dkg/bcast components; TLC trace validation; known-finding deviation cfg"),
 "C20": dict(level=MC, design="6/C20", engine="DutiesCache",
   text="DutiesCache.tla models one request as Call, ReadGen, Lookup, Fetch, Deliver, StoreOrAmend, Return for all three duty kinds, with Reorg, InvalidateCache, Trim and caller mutation of returned answers (heap-style identities); TLC exhausts all interleavings over 2-3 validators with none/one/two duties, 2 epochs, up to 3-4 requests with 2 in flight for AnswerEqualsBN, FreshAfterInvalidate, PrivateCopies, CacheSound, CacheFresh, NoDirtyCache, FetchExactlyMissing and DropsAffected; the two as-coded variants (stale store after invalidation, shared slices) must violate their invariants; TLC-generated, seeded random, concurrent and fixed probe schedules are executed on the real eth2wrap.DutiesCache over a gated versioned beacon mock and every trace, including the beacon call log, is validated step by step against the same spec.",
   note="Trusted: TLC; the gated mock as the beacon node; call-before / ret-after event bracketing for concurrent requests; the encoding of model duties in real fields. Exhaustive only within the stated constants; beacon errors and duplicate index lists are not exercised.",
   technique="TLA+ spec (DutiesCache.tla) model-checked with TLC; gated-mock schedules replayed on eth2wrap.DutiesCache; TLC trace validation incl. the beacon call log"),
 "C06": dict(level=MC, design="6/C06", engine="DutyDB",
   text="DutyDB.tla transcribes core/dutydb/memory.go for all four keyspaces (attestation with its four inserts and clash rules incl. the committee-0 alias and the pubkey index; proposal; aggregate; sync contribution), both Go map orders of a set, failed stores that leave earlier entries and do not resolve waiters, lazy expiry inside Store; TLC checks UniquePerKey, AnswerKeyed, ExpiredRefused, Prompt, AttIndexed, NeverReplaced, OnlyStored per keyspace and mixed, plus liveness (a resolved or cancelled query returns), with two as-coded controls that must fail; sequential TLC-generated and random schedules and concurrent call/ret histories (3-4 goroutines, linearisation inferred by TLC) are executed on the real MemDB and validated against the spec. The aggregate replace behaviour is the recorded known finding C06-agg-replace (dedicated probe on every run).",
   note="Trusted: TLC; a scripted deadliner that answers Expired exactly after the schedule expired the duty; model data differ only in the modelled fields; 5 s must-return waits. Pointer aliasing of returned values is C18's subject, answers are compared by content.",
   technique="TLA+ spec (DutyDB.tla) model-checked with TLC incl. liveness; sequential and concurrent histories replayed on dutydb.MemDB; TLC trace validation; known-finding deviation cfg"),
 "C08": dict(level=EX, design="6/C08", engine="ThresholdBLS",
   text="ThresholdBLS.tla writes Shamir sharing and Lagrange recovery over GF(p) out in TLA+ (BLS abstracted in the exponent); TLC proves, for every polynomial, subset and single substitution with p in {5,7,11} and n <= 6, that a combination verifies iff every presented point lies on the polynomial (with the exact count of small-field coincidences) and that two running-index / deserialisation-only control variants fail; TLC enumerates every scenario (n, t, subset, substitution kind/position) for n <= 5 (quick) or n <= 7 (thorough), n = 8..10 sampled; every case is executed on the real herumi tbls package (split, recover, sign, aggregate, verify, tblsconv round trips; map-ranging calls repeated under different insertion orders) and only the observed relations are logged and validated against the model.",
   note="Trusted: TLC; BLS abstracted in the exponent; small-field coincidences (a 1/p fraction, enumerated exactly by the spec) do not occur in the 255-bit field. Model-based test generation with an algebraic spec oracle.",
   technique="TLA+ algebra spec (ThresholdBLS.tla) checked and enumerated with TLC; cases executed on real tbls/herumi; TLC validation of observed relations"),
 "C09": dict(level=EX, design="6/C09", engine="SigAgg",
   text="SigAgg.tla transcribes core/sigagg/sigagg.go and states the property (GroupValid, NothingOnFault, AllOrNothing, PublishOnOK, ErrMeansNothing); TLC checks the transcription against it exhaustively under the C08 crypto abstraction (controls: verification skipped / partial publication must fail) and enumerates 11 object types x data versions x fork versions x corruption and duplicate scenarios x 1-3 validators; every case is executed on the real aggregator with real objects and real threshold-BLS shares, signing and re-verification follow the spec's own type -> (domain, epoch source) table rather than core's methods, and the recorded relations (published / error, verifies under the group key, content equals the partials' content) are validated in a mode that allows exactly what the statement allows.",
   note="Trusted: TLC; the spec's domain/epoch table (from the consensus and builder specs); beaconmock as chain configuration; the Lagrange validity fact from C08. A partial carrying other content than it signs is accepted when not first in the list (observation, upstream verification prevents it).",
   technique="TLA+ case-analysis spec (SigAgg.tla) checked and enumerated with TLC; cases executed on real sigagg with real BLS; TLC validation of observed relations"),
}
NA = {
 "C14": "byte-level codec fidelity / crash-freedom on arbitrary bytes: no state machine, interleaving or protocol for a TLA+ specification to enumerate; the family's own guidance places encode/decode fidelity outside its reach (DESIGN.md section 7)",
}

def main():
    hooks = []
    try:
        out = subprocess.run(["git", "-C", "/repo", "log", "--format=%h %s"], capture_output=True, text=True).stdout
        hooks = [l.split()[0] for l in out.splitlines() if l.split(" ", 1)[1].startswith("verif-hook:")]
    except Exception:
        pass
    m = {"version": 1,
         "setup_cmd": "./check --setup",
         "hooks": {"guard": "verif", "enable": "go test -tags verif in /verif/harness (module verifharness, replace github.com/obolnetwork/charon => /repo)",
                   "baseline_off_cmd": "cd /repo && go test -mod=mod -json -vet=off -count=1 -timeout 25m ./...",
                   "source_commits": hooks, "add_only": True},
         "engines": [], "checks": [], "not_applicable": [],
         "notes": "All checks: ./check <ID> --tier quick|thorough; exit 0 held / 1 VIOLATION / 2 infrastructure. See DESIGN.md."}
    engines = {}
    for p in props:
        pid = p["id"]
        if pid in CHECKS:
            c = CHECKS[pid]
            m["checks"].append({
                "property_id": pid,
                "quick_cmd": "./check %s --tier quick" % pid,
                "thorough_cmd": "./check %s --tier thorough" % pid,
                "evidence_file": "/verif/evidence/%s.json" % pid,
                "replay_cmd_template": "./check %s --replay {path}" % pid,
                "engine": c["engine"],
                "level_claimed": {"category": c["level"], "text": c["text"], "design_ref": c["design"]},
                "level_note": c["note"], "technique": c["technique"]})
            engines.setdefault(c["engine"], []).append(pid)
        else:
            m["not_applicable"].append({"property_id": pid, "reason": NA.get(pid, "check not built yet (build in progress)")})
    for e, ps in engines.items():
        m["engines"].append({"name": e, "path": "specs/%s + harness + checks" % e, "serves_properties": ps,
                             "kind_free_text": "TLA+ specification, TLC model checking, schedule replay on the Go implementation, TLC trace validation"})
    json.dump(m, open(os.path.join(V, "MANIFEST.json"), "w"), indent=1)
    print("manifest: %d checks, %d not applicable" % (len(m["checks"]), len(m["not_applicable"])))

if __name__ == "__main__":
    main()
