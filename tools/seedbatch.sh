#!/bin/bash
# usage: tools/seedbatch.sh "C09 A" "C09 B" ... : run the property's quick check against each seeded patch, then confirm + keep it
cd /verif
for s in "$@"; do
  set -- $s; P=$1; X=$2
  echo "== $P $X"; timeout 1500 tools/muttest.sh $P /tmp/seed/$P/$X/patch.diff 2>&1 | grep -v WARNING | tail -4 | cut -c1-300
  echo "=== confirm $P $X"; timeout 3000 tools/confirm_seed.py $P $X 2>&1 | grep -v WARNING
done
