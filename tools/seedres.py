#!/usr/bin/env python3
"""usage: tools/seedres.py <seed> <caught_by,comma separated or -> <how...> : record which check catches a kept seeded change"""
import json, os, subprocess, sys
V = os.path.dirname(os.path.dirname(os.path.abspath(__file__)))
p = os.path.join(V, "seeded", "results.json")
r = json.load(open(p))
r[sys.argv[1]] = {"caught_by": [] if sys.argv[2] == "-" else sys.argv[2].split(","), "how": " ".join(sys.argv[3:])}
json.dump(r, open(p, "w"), indent=1)
subprocess.run([sys.executable, os.path.join(V, "tools", "mkseedreadme.py")])
