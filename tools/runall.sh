#!/bin/bash
# usage: tools/runall.sh [tier] [seeds...]  : run every registered check once per seed, summarise exit codes
cd "$(dirname "$0")/.."
TIER=${1:-quick}; shift
SEEDS=${@:-1}
IDS=$(python3 -c "import json; print(' '.join(c['property_id'] for c in json.load(open('MANIFEST.json'))['checks']))")
for s in $SEEDS; do
  for id in $IDS; do
    t0=$(date +%s)
    VERIF_SEED=$s VERIF_TIER=$TIER timeout 7200 ./check $id --tier $TIER > ${RUNALL_OUT:-/tmp}/runall_${id}_$s.log 2>&1
    rc=$?
    echo "$id seed=$s tier=$TIER rc=$rc $(( $(date +%s) - t0 ))s  $(grep -c KNOWN-FINDING ${RUNALL_OUT:-/tmp}/runall_${id}_$s.log) known  $(grep -E 'VIOLATION|INFRA' ${RUNALL_OUT:-/tmp}/runall_${id}_$s.log | head -1 | cut -c1-160)"
  done
done
