#!/usr/bin/env python3
"""Regenerates /verif/seeded/README.md from the kept seeds' meta.json and seeded/results.json."""
import json, os
V = os.path.dirname(os.path.dirname(os.path.abspath(__file__)))
res = json.load(open(os.path.join(V, "seeded", "results.json")))
rows = []
for d in sorted(os.listdir(os.path.join(V, "seeded"))):
    mp = os.path.join(V, "seeded", d, "meta.json")
    if not os.path.exists(mp):
        continue
    m = json.load(open(mp))
    r = res.get(d, {})
    rows.append((d, m.get("property"), m.get("title", "")[:110], m.get("needs_to_manifest", "")[:160],
                 ", ".join(r.get("caught_by", [])) or "-", r.get("how", "")))
with open(os.path.join(V, "seeded", "README.md"), "w") as f:
    f.write("# Seeded changes (independent sub-agents; each confirmed in a scratch worktree with tools/confirm_seed.py)\n\n")
    f.write("Each directory holds patch.diff (the change), demo_test.go (fails with it, passes without) and meta.json (what it breaks, "
            "what it needs to manifest, what was run to confirm it). `tools/muttest.sh <ID> seeded/<dir>/patch.diff` applies a change in a "
            "scratch worktree and runs the quick check against it.\n\n")
    f.write("| seed | property | change | needs | caught by | how / what was strengthened |\n|---|---|---|---|---|---|\n")
    for r in rows:
        f.write("| %s | %s | %s | %s | %s | %s |\n" % tuple(str(x).replace("|", "/").replace("\n", " ") for x in r))
print("seeded/README.md: %d seeds" % len(rows))
