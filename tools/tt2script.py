#!/usr/bin/env python3
"""Convert a TLC counterexample/behaviour dump (-dumpTrace json) of QBFTTimedMC into a script schedule for the C04
executor (replay of a timed model behaviour on the real qbft.Run with the real round timers)."""
import json, sys


def key(x):
    return json.dumps(x, sort_keys=True)


def convert(path, n, inst, timer):
    t = json.load(open(path))
    st = [s for _, s in t["counterexample"]["state"]]
    steps = [{"ev": "Script", "n": n, "inst": inst, "timer": timer}]
    for a, b in zip(st, st[1:]):
        if b["now"] > a["now"]:
            steps.append({"ev": "Tick"})
            continue
        newcr = [p for p in b["crashed"] if p not in a["crashed"]]
        o = b["out"]
        if o == a["out"] and newcr and key(a["st"]) == key(b["st"]):
            steps.append({"ev": "Silent", "p": newcr[0]})
            continue
        k, p = o.get("kind"), o.get("p")
        if k == "Start":
            steps.append({"ev": "Start", "p": p})
        elif k == "Input":
            sts = b["st"]
            v = (sts[str(p)] if isinstance(sts, dict) else sts[p])["input"]
            steps.append({"ev": "Input", "p": p, "v": v})
        elif k == "Timeout":
            steps.append({"ev": "Timeout", "p": p})
        elif k == "Deliver":
            pa = {key(x) for x in a["pend"]}
            pb = {key(x) for x in b["pend"]}
            gone = [json.loads(x) for x in pa - pb]
            gone = [x for x in gone if x[0] == p]
            m = gone[0][1]
            steps.append({"ev": "DeliverSel", "p": p, "t": m["type"], "s": m["src"], "r": m["round"]})
        if newcr:
            steps.append({"ev": "Crash", "p": newcr[0]})
    return steps


if __name__ == "__main__":
    print(json.dumps(convert(sys.argv[1], int(sys.argv[2]), int(sys.argv[3]), sys.argv[4])))
