#!/bin/bash
# usage: tools/muttest.sh <PID> <patch.diff | -e 'sed-expr' file> : apply a mutation in a scratch worktree, run the quick check with VERIF_REPO
set -u
PID=$1; shift
WT=/tmp/mutwt_$$
git -C /repo worktree add -q --detach $WT HEAD || exit 3
if [ "$1" = "-e" ]; then
  sed -i -E "$2" $WT/$3 || { echo "sed failed"; }
  (cd $WT && git diff --stat | tail -1)
else
  (cd $WT && git apply "$1") || { echo "patch failed"; git -C /repo worktree remove --force $WT
rm -rf /verif/.work/mut_$$; exit 3; }
fi
if [ -z "$(cd $WT && git status --short)" ]; then echo "MUTATION DID NOT APPLY"; git -C /repo worktree remove --force $WT
rm -rf /verif/.work/mut_$$; exit 3; fi
(cd $WT && go build ./... 2>&1 | head -5)
VERIF_WORK=/verif/.work/mut_$$ VERIF_REPO=$WT env ${MUT_TIER:+VERIF_TIER=$MUT_TIER} timeout ${MUT_TIMEOUT:-1100} /verif/check $PID 2>&1 | grep -E "VIOLATION|KNOWN-FINDING|INFRA|OK tier|^  " | head -12
echo "exit=${PIPESTATUS[0]}"
git -C /repo worktree remove --force $WT
rm -rf /verif/.work/mut_$$
