"""Common machinery for the /verif checks: running TLC, running Go executors against /repo,
trace validation (spec as the only oracle), evidence files, known findings.

Exit-code discipline (DESIGN.md section 8/10):
  0  property held on everything explored (KNOWN-FINDING lines allowed)
  1  reproduced, unlisted violation -> "VIOLATION property=<id> replay=<path>"
  2  infrastructure problem (build failure, TLC error/timeout, vacuous coverage, unreproducible rejection)
"""
import json, os, re, shutil, subprocess, sys, time, random, hashlib

VERIF = os.path.dirname(os.path.dirname(os.path.abspath(__file__)))
REPO = os.environ.get("VERIF_REPO", "/repo")
WORK = os.environ.get("VERIF_WORK") or os.path.join(VERIF, ".work")
SPECS = os.path.join(VERIF, "specs")
HARNESS = os.path.join(VERIF, "harness")
TLA_JAR = "/opt/veriftools/tla/tla2tools.jar:/opt/veriftools/tla/CommunityModules-deps.jar"
NCPU = os.cpu_count() or 4


class Infra(Exception):
    """Infrastructure failure: never a violation (exit 2)."""


def log(*a):
    print(*a, flush=True)


# ----------------------------------------------------------------------------------------------
# work directories
# ----------------------------------------------------------------------------------------------
def workdir(pid, fresh=False):
    d = os.path.join(WORK, pid)
    if fresh and os.path.isdir(d):
        shutil.rmtree(d, ignore_errors=True)
    os.makedirs(d, exist_ok=True)
    return d


_scratch_n = [0]


def scratch(pid, family, extra_files=()):
    """Fresh scratch copy of specs/<family> + specs/Common inside .work/<pid>/tlc<n>."""
    _scratch_n[0] += 1
    d = os.path.join(workdir(pid), "tlc%03d" % _scratch_n[0])
    if os.path.isdir(d):
        shutil.rmtree(d)
    os.makedirs(d)
    for src in (os.path.join(SPECS, "Common"), os.path.join(SPECS, family)):
        if os.path.isdir(src):
            for f in os.listdir(src):
                if f.endswith((".tla", ".cfg")):
                    shutil.copy(os.path.join(src, f), d)
    for f in extra_files:
        shutil.copy(f, d)
    return d


# ----------------------------------------------------------------------------------------------
# TLC
# ----------------------------------------------------------------------------------------------
class TLCResult:
    def __init__(self):
        self.rc = None
        self.out = ""
        self.generated = 0
        self.distinct = 0
        self.depth = 0
        self.violation = None      # name of violated invariant/property, or "deadlock", ...
        self.error = None          # TLC-level error text (parse/semantic/runtime)
        self.timed_out = False
        self.wall = 0.0
        self.prints = []           # lines printed via PrintT that look like <<"TAG", ...>>
        self.dir = None
        self.coverage_zero = []

    @property
    def ok(self):
        return self.rc == 0 and not self.violation and not self.error and not self.timed_out

    def summary(self):
        return "rc=%s gen=%d distinct=%d depth=%d viol=%s err=%s to=%s %.1fs" % (
            self.rc, self.generated, self.distinct, self.depth, self.violation,
            (self.error or "")[:200], self.timed_out, self.wall)


def tlc(pid, family, module, cfg=None, *, workers=None, simulate=None, depth=None, seed=None,
        timeout=600, dfs=False, extra_files=(), extra_args=(), coverage=False, heap=None,
        keep_out=True, env_extra=None, sdir=None, stop_after=None):
    """Run TLC on specs/<family>/<module>.tla with <cfg> in a scratch copy. Never raises on a
    violation; raises Infra only when TLC could not be started."""
    d = sdir or scratch(pid, family, extra_files)
    cfg = cfg or (module + ".cfg")
    meta = os.path.join(d, "meta")
    java = ["java", "-XX:+UseParallelGC", "-Xss64m"]
    java.append("-Xmx%s" % (heap or os.environ.get("VERIF_TLC_HEAP", "8g")))
    if dfs:
        java.append("-Dtlc2.tool.queue.IStateQueue=StateDeque")
    if stop_after:
        java.append("-Dtlc2.TLC.stopAfter=%d" % int(stop_after))
    cmd = java + ["-cp", TLA_JAR, "tlc2.TLC", "-metadir", meta, "-config", cfg]
    if simulate is not None:
        cmd += ["-simulate", simulate]
        if depth:
            cmd += ["-depth", str(depth)]
        if seed is not None:
            cmd += ["-seed", str(seed)]
    cmd += ["-workers", str(workers or (1 if simulate is not None else NCPU))]
    if coverage:
        cmd += ["-coverage", "1"]
    cmd += list(extra_args) + [module]
    env = dict(os.environ)
    env.pop("JAVA_TOOL_OPTIONS", None)
    if env_extra:
        env.update(env_extra)
    r = TLCResult()
    r.dir = d
    t0 = time.time()
    outp = os.path.join(d, module + "." + os.path.splitext(os.path.basename(cfg))[0] + ".out")
    for attempt in range(3):
        try:
            with open(outp, "w") as fo:
                p = subprocess.run(["timeout", "-s", "KILL", str(int(timeout)), *cmd], cwd=d, stdout=fo,
                                   stderr=subprocess.STDOUT, env=env)
            r.rc = p.returncode
        except Exception as e:  # pragma: no cover
            raise Infra("cannot start TLC: %s" % e)
        if r.rc not in (143, -15, 130):   # killed by a foreign SIGTERM/SIGINT (shared machine): run it again
            break
        shutil.rmtree(meta, ignore_errors=True)
    r.wall = time.time() - t0
    with open(outp, errors="replace") as f:
        r.out = f.read()
    if r.rc in (137, -9, 124):
        r.timed_out = True
    _parse_tlc(r)
    shutil.rmtree(meta, ignore_errors=True)
    return r


_re_states = re.compile(r"(\d+) states generated, (\d+) distinct states found")
_re_depth = re.compile(r"The depth of the complete state graph search is (\d+)")
_re_inv = re.compile(r"Error: Invariant (\S+) is violated")
_re_prop = re.compile(r"Error: (Action property|Temporal properties|Property) (\S+)?")


def _parse_tlc(r):
    for m in _re_states.finditer(r.out):
        r.generated, r.distinct = int(m.group(1)), int(m.group(2))
    m = _re_depth.search(r.out)
    if m:
        r.depth = int(m.group(1))
    m = _re_inv.search(r.out)
    if m:
        r.violation = m.group(1)
    elif "Action property" in r.out and "is violated" in r.out:
        mm = re.search(r"Action property (\S+) is violated", r.out)
        r.violation = mm.group(1) if mm else "action-property"
    elif "Temporal properties were violated" in r.out:
        r.violation = "temporal"
    elif "Deadlock reached" in r.out:
        r.violation = "deadlock"
    elif re.search(r"Postcondition .* is false|POSTCONDITION .* violated|Error: .*postcondition", r.out, re.I):
        r.violation = "postcondition"
    elif "Assumption" in r.out and "is false" in r.out:
        r.violation = "assumption"
    if not r.violation and r.rc not in (0, None) and not r.timed_out:
        errs = [l for l in r.out.splitlines() if l.startswith("Error:") or "Exception" in l or "***Parse Error***" in l]
        r.error = " | ".join(errs[:6]) or ("TLC exit code %s" % r.rc)
    for line in r.out.splitlines():
        if line.startswith('"@@'):
            r.prints.append(line)
    if "-coverage" in r.out or True:
        for line in r.out.splitlines():
            mm = re.match(r"^<(\w+) line \d+, col \d+ to line \d+, col \d+ of module (\w+)>: 0:0\s*$", line)
            if mm:
                r.coverage_zero.append(mm.group(1))


def simulate_timeboxed(o, family, module, cfg, seconds, *, depth=120, seed=1, workers=4):
    """TLC -simulate of a design spec for a fixed wall time; every invariant is evaluated in every visited state.
    A violation is a problem of the design spec (exit 2), never a verdict about the implementation."""
    r = tlc(o.pid, family, module, cfg, simulate="num=1000000000", depth=depth, seed=seed, workers=workers,
            timeout=seconds + 120, stop_after=seconds)
    if r.violation or r.error:
        raise Infra("simulation of %s/%s found a design-spec problem: %s\n%s" % (module, cfg, r.summary(), r.out[-3000:]))
    st = tr = 0
    for m in re.finditer(r"Progress: (\d+) states checked, (\d+) traces generated", r.out):
        st, tr = int(m.group(1)), int(m.group(2))
    m = re.search(r"The number of states generated: (\d+)", r.out)
    if m:
        st = max(st, int(m.group(1)))
    if st == 0:
        raise Infra("simulation of %s/%s made no progress: %s" % (module, cfg, r.out[-1500:]))
    o.add_sim(cfg, st, tr, r.wall)
    return st, tr


def tagged_prints(r, tag):
    """Lines printed by PrintT("@@TAG@@" \\o json): a TLA+ string literal on one line."""
    out = []
    pre = '"@@%s@@' % tag
    for line in r.prints:
        if line.startswith(pre) and line.endswith('"'):
            body = line[len(pre):-1]
            out.append(body.replace('\\"', '"').replace("\\\\", "\\"))
    return out


def require_mc_ok(r, what):
    """A design-spec model-checking run must complete without violation; anything else is an
    infrastructure/spec problem for me (exit 2), never a VIOLATION of the implementation."""
    if r.timed_out:
        raise Infra("%s: TLC timed out (%s)" % (what, r.summary()))
    if r.violation or r.error or r.rc != 0:
        raise Infra("%s: design-spec check failed: %s\n%s" % (what, r.summary(), r.out[-3000:]))
    return r


# ----------------------------------------------------------------------------------------------
# schedule generation by TLC simulation (history variable `hist`, printed as JSON on Emit)
# ----------------------------------------------------------------------------------------------
def gen_schedules(pid, family, module, cfg, *, num, depth, seed, timeout=300, tag="SCHED", limit=None):
    r = tlc(pid, family, module, cfg, simulate="num=%d" % num, depth=depth, seed=seed, workers=1,
            timeout=timeout)
    if r.error or r.timed_out or (r.violation and r.violation != "deadlock"):
        raise Infra("schedule generation failed: %s\n%s" % (r.summary(), r.out[-2000:]))
    seen, out = set(), []
    for p in tagged_prints(r, tag):
        if p in seen:
            continue
        seen.add(p)
        try:
            out.append(json.loads(p))
        except Exception as e:
            raise Infra("cannot parse generated schedule: %s: %s" % (e, p[:200]))
        if limit and len(out) >= limit:
            break
    return out, r


# ----------------------------------------------------------------------------------------------
# Go executors
# ----------------------------------------------------------------------------------------------
def go_env():
    env = dict(os.environ)
    env["GOFLAGS"] = "-mod=mod"
    env["GOPROXY"] = "off"
    env.pop("GOTOOLCHAIN", None)
    env.pop("GOSUMDB", None)
    env["VERIF_REPO"] = REPO
    return env


_harness_dir = [None]


def prepare_harness():
    """Returns the harness directory to build in.  go.sum is copied from the repository on every run.  When
    VERIF_REPO points at a scratch worktree (mutation experiments) a private copy of the harness with its own
    replace line is used, so concurrent runs against different trees do not disturb each other."""
    if _harness_dir[0]:
        return _harness_dir[0]
    if os.path.realpath(REPO) == "/repo":
        h = HARNESS
    else:
        h = os.path.join(WORK, "_harness_%s" % hashlib.sha1(REPO.encode()).hexdigest()[:10])
        if os.path.isdir(h):
            shutil.rmtree(h)
        shutil.copytree(HARNESS, h)
        gm = os.path.join(h, "go.mod")
        txt = open(gm).read()
        open(gm, "w").write(re.sub(r"replace github.com/obolnetwork/charon => \S+",
                                   "replace github.com/obolnetwork/charon => " + REPO, txt))
    shutil.copy(os.path.join(REPO, "go.sum"), os.path.join(h, "go.sum"))
    _harness_dir[0] = h
    return h


def go_exec(pkg, test, env_vars, timeout=900, tags="verif", race=False):
    """Run one executor (a Go test in the harness module, built against REPO's working tree)."""
    hdir = prepare_harness()
    env = go_env()
    env.update({k: str(v) for k, v in env_vars.items()})
    cmd = ["go", "test", "-tags", tags, "-count=1", "-vet=off", "-timeout", "%ds" % int(timeout), "-run", "^%s$" % test]
    if race:
        cmd.append("-race")
    cmd.append("./" + pkg)
    t0 = time.time()
    logp = os.path.join(workdir("_go"), "%s_%d.log" % (pkg.replace("/", "_"), os.getpid()))
    with open(logp, "w") as fo:
        p = subprocess.run(["timeout", "-s", "KILL", str(int(timeout) + 120), *cmd], cwd=hdir, env=env,
                           stdout=fo, stderr=subprocess.STDOUT)
    with open(logp, "rb") as fi:
        fi.seek(0, 2)
        size = fi.tell()
        fi.seek(max(0, size - 200000))
        out = fi.read().decode("utf-8", "replace")
    if "[build failed]" in out or "cannot find package" in out or "no required module" in out or "[setup failed]" in out:
        raise Infra("executor %s does not build against %s:\n%s" % (pkg, REPO, out[-4000:]))
    return p.returncode, out, time.time() - t0


# ----------------------------------------------------------------------------------------------
# trace validation
# ----------------------------------------------------------------------------------------------
def write_ndjson(path, events):
    with open(path, "w") as f:
        for e in events:
            f.write(json.dumps(e, sort_keys=True, separators=(",", ":")) + "\n")


def read_ndjson(path):
    out = []
    with open(path) as f:
        for line in f:
            line = line.strip()
            if line:
                out.append(json.loads(line))
    return out


def split_traces(events):
    """Executor output: traces separated by {"ev":"Reset",...} events (each trace starts with one)."""
    traces, cur = [], None
    for e in events:
        if e.get("ev") == "Reset":
            if cur is not None:
                traces.append(cur)
            cur = [e]
        else:
            if cur is None:
                cur = []
            cur.append(e)
    if cur is not None:
        traces.append(cur)
    return traces


class TraceVerdict:
    def __init__(self):
        self.accepted = []   # indices
        self.rejected = []   # (index, 0-based position of the first event that could not be consumed, reason)
        self.states = 0
        self.tlc_runs = 0
        self.wall = 0.0


_tvn = [0]


def _validate_chunk(args):
    pid, family, module, cfg, chunk_traces, timeout, dfs, n = args
    _tvn[0] += 1
    d = os.path.join(workdir(pid), "tv_%s_%d_%d_%d" % (module, os.getpid(), n, _tvn[0]))
    if os.path.isdir(d):
        shutil.rmtree(d)
    os.makedirs(d)
    for src in (os.path.join(SPECS, "Common"), os.path.join(SPECS, family)):
        for f in os.listdir(src):
            if f.endswith((".tla", ".cfg")):
                shutil.copy(os.path.join(src, f), d)
    if isinstance(cfg, tuple):       # (file name, cfg text): configuration generated per trace group
        with open(os.path.join(d, cfg[0]), "w") as f:
            f.write(cfg[1])
        cfg = cfg[0]
    with open(os.path.join(d, "traces.ndjson"), "w") as f:
        for t in chunk_traces:
            f.write(json.dumps(t, sort_keys=True, separators=(",", ":")) + "\n")
    r = tlc(pid, family, module, cfg, workers=1, timeout=timeout, dfs=dfs, sdir=d)
    hw = fails = None
    vp = os.path.join(d, "verdict.json")
    if os.path.exists(vp):
        try:
            vd = json.load(open(vp))
            hw, fails = vd["hw"], vd["fails"]
        except Exception:
            hw = fails = None
    if r.timed_out or r.error or r.violation or hw is None or fails is None or len(hw) != len(chunk_traces):
        return ("infra", "%s\n%s" % (r.summary(), r.out[-3000:]), 0)
    shutil.rmtree(d, ignore_errors=True)
    return ("ok", list(zip(hw, fails)), r.distinct)


def validate_traces(pid, family, module, cfg, traces, *, dfs=False, timeout=900, chunk=250, procs=None):
    """Validate every trace (a list of events) against the trace spec in one pass: traces are independent
    initial states of the trace spec; per-trace high-water marks come back through TLC registers.
    cfg may be a cfg file name, a (name, text) pair, or a function trace -> (name, text) (traces are then
    grouped by configuration and each group is validated with its own constants)."""
    from concurrent.futures import ThreadPoolExecutor
    v = TraceVerdict()
    t0 = time.time()
    if not traces:
        return v
    groups = {}
    for i, t in enumerate(traces):
        groups.setdefault(cfg(t) if callable(cfg) else cfg, []).append(i)
    jobs = []
    for g, idx in groups.items():
        for a in range(0, len(idx), chunk):
            part = idx[a:a + chunk]
            jobs.append((pid, family, module, g, [traces[i] for i in part], timeout, dfs, len(jobs), part))
    with ThreadPoolExecutor(max_workers=procs or min(NCPU, len(jobs))) as ex:
        results = list(ex.map(lambda j: _validate_chunk(j[:8]), jobs))
    # a TLC process that was KILLED (memory pressure with many JVMs side by side, timeout under load) says nothing about the
    # traces: those chunks are run once more, two at a time, with a doubled time limit
    again = [k for k, (st, payload, _) in enumerate(results) if st != "ok" and ("rc=-9" in str(payload) or "to=True" in str(payload))]
    if again:
        log("[%s] trace validation: %d of %d TLC processes were killed / timed out, running them again" % (pid, len(again), len(jobs)))
        with ThreadPoolExecutor(max_workers=2) as ex:
            redo = list(ex.map(lambda k: _validate_chunk(jobs[k][:5] + (jobs[k][5] * 2,) + jobs[k][6:8]), again))
        for k, r in zip(again, redo):
            results[k] = r
    for job, (st, payload, distinct) in zip(jobs, results):
        g, part = job[3], job[8]
        if st != "ok":
            raise Infra("trace validation could not run (%s %s): %s" % (module, g if not isinstance(g, tuple) else g[0], payload))
        v.tlc_runs += 1
        v.states += distinct
        for k, (hw, fail) in enumerate(payload):
            n = len(job[4][k])
            if hw == n + 1:
                v.accepted.append(part[k])
            elif fail != "-":
                v.rejected.append((part[k], max(hw - 1, 0), "invariant %s violated after this event" % fail))
            else:
                v.rejected.append((part[k], max(hw - 1, 0), "no spec step matches this event"))
    v.accepted.sort()
    v.rejected.sort()
    v.wall = time.time() - t0
    return v


# ----------------------------------------------------------------------------------------------
# evidence / findings / verdict
# ----------------------------------------------------------------------------------------------
def load_known_findings(pid):
    p = os.path.join(VERIF, "known_findings.json")
    if not os.path.exists(p):
        return []
    return [f for f in json.load(open(p)).get("findings", []) if f.get("property") == pid]


def write_evidence(pid, tier, seed, level, coverage, wall, violations=0, assumptions=None):
    edir = os.path.join(WORK, "evidence") if os.environ.get("VERIF_WORK") else os.path.join(VERIF, "evidence")
    if pid.startswith("G-"):
        edir = os.path.join(edir, "growth")      # growth families (no listed property)
    os.makedirs(edir, exist_ok=True)
    ev = {"property_id": pid, "tier": tier, "seed": int(seed), "level": level, "coverage": coverage,
          "assumptions": assumptions or [], "wall_s": round(wall, 2), "violations": int(violations)}
    with open(os.path.join(edir, pid + ".json"), "w") as f:
        json.dump(ev, f, indent=1, sort_keys=True)
    return ev


def save_replay(pid, name, obj):
    d = os.path.join(workdir(pid), "violations")
    os.makedirs(d, exist_ok=True)
    p = os.path.join(d, name + ".json")
    with open(p, "w") as f:
        json.dump(obj, f, indent=1)
    return p


def digest(obj):
    return hashlib.sha1(json.dumps(obj, sort_keys=True).encode()).hexdigest()[:12]


def rng(seed, salt=""):
    return random.Random("%s/%s" % (seed, salt))


# ----------------------------------------------------------------------------------------------
# the generate -> execute -> validate loop with verdict handling
# ----------------------------------------------------------------------------------------------
class Violation(Exception):
    def __init__(self, pid, replay, msg):
        super().__init__(msg)
        self.pid, self.replay, self.msg = pid, replay, msg


class Outcome:
    """Accumulates what a check run covered and found."""
    def __init__(self, pid, tier, seed):
        self.pid, self.tier, self.seed = pid, tier, int(seed)
        self.t0 = time.time()
        self.states = 0
        self.transitions = 0
        self.mc_runs = []          # dicts: cfg, distinct, generated, depth, wall, complete
        self.traces = 0
        self.trace_events = 0
        self.trace_states = 0
        self.schedules = 0
        self.samples = []
        self.known = []            # (finding id, text)
        self.violations = []       # (replay path, text)
        self.notes = []
        self.selftests = []
        self.distinct_keys = set()
        self.extra = {}

    def add_mc(self, cfg, r, complete=True):
        self.states += r.distinct
        self.transitions += r.generated
        self.mc_runs.append({"config": cfg, "mode": "bfs", "distinct": r.distinct, "generated": r.generated, "depth": r.depth,
                             "wall_s": round(r.wall, 1), "complete": bool(complete)})

    def add_sim(self, cfg, states, traces, wall):
        self.states += states
        self.transitions += states
        self.mc_runs.append({"config": cfg, "mode": "simulate (time-boxed, every invariant evaluated in every visited state)",
                             "states_checked": states, "behaviours": traces, "wall_s": round(wall, 1), "complete": False})


def run_schedules(pid, pkg, test, schedules, *, tag="main", env=None, timeout=1800, race=False):
    """Execute schedules on the real code; returns (traces, sids): one or more traces per schedule, each trace's
    Reset event carries the schedule index in "sid"."""
    w = workdir(pid)
    sp = os.path.join(w, "sched_%s.ndjson" % tag)
    tp = os.path.join(w, "trace_%s.ndjson" % tag)
    with open(sp, "w") as f:
        for s in schedules:
            f.write(json.dumps(s, separators=(",", ":")) + "\n")
    if os.path.exists(tp):
        os.remove(tp)
    e = {"VERIF_SCHED": sp, "VERIF_OUT": tp}
    e.update(env or {})
    rc, out, wall = go_exec(pkg, test, e, timeout=timeout, race=race)
    if rc != 0 or not os.path.exists(tp):
        raise Infra("executor %s/%s failed (rc=%s):\n%s" % (pkg, test, rc, out[-4000:]))
    traces = split_traces(read_ndjson(tp))
    sids = []
    for k, t in enumerate(traces):
        sid = t[0].get("sid", k) if t and t[0].get("ev") == "Reset" else k
        sids.append(sid)
    return traces, sids, wall


def conformance(o, family, module, cfg, pkg, schedules, *, test="TestExec", tag="main", env=None,
                dev_cfgs=(), max_report=3, chunk=250, exec_timeout=1800, tv_timeout=900, dfs=False,
                key=None, sample=2, replay_of=None):
    """Execute `schedules` on the implementation, validate every recorded trace against the trace spec `cfg`.
    A rejected trace is re-executed in a fresh process; only a reproduced rejection counts.  A reproduced
    rejection that a deviation configuration (known finding) accepts is reported as KNOWN-FINDING."""
    pid = o.pid
    if not schedules:
        return
    traces, sids, wall = run_schedules(pid, pkg, test, schedules, tag=tag, env=env, timeout=exec_timeout)
    v = validate_traces(pid, family, module, cfg, traces, chunk=chunk, timeout=tv_timeout, dfs=dfs)
    o.schedules += len(schedules)
    o.traces += len(traces)
    o.trace_events += sum(len(t) for t in traces)
    o.trace_states += v.states
    for t in traces:
        o.distinct_keys.add(digest(t if key is None else key(t)))
    for t in traces[:sample]:
        if len(o.samples) < 6:
            o.samples.append({"family": family, "tag": tag, "trace": t[:40]})
    log("[%s] %s/%s: %d schedules -> %d traces (%d events) executed in %.1fs, validated in %.1fs: %d accepted, %d rejected"
        % (pid, family, tag, len(schedules), len(traces), sum(len(t) for t in traces), wall, v.wall,
           len(v.accepted), len(v.rejected)))
    if not v.rejected:
        return
    # group rejections by schedule, re-execute the first few
    seen_sched = []
    for (ti, pos, reason) in v.rejected:
        sid = sids[ti]
        if sid not in [s for s, _, _, _ in seen_sched]:
            seen_sched.append((sid, ti, pos, reason))
    reported = 0
    known_hit = {}
    unreproduced = []
    for (sid, ti, pos, reason) in seen_sched:
        if reported >= max_report and len(known_hit) > 0 and reported >= max_report:
            break
        sched = schedules[sid]
        # reproduce: the schedule is re-executed 8 times in a fresh process (unlogged Go-side choices such as map
        # iteration order may need several attempts); only a reproduced rejection counts
        rep = None
        t2, s2, _ = run_schedules(pid, pkg, test, [sched] * 8, tag=tag + "_re", env=env, timeout=exec_timeout)
        v2 = validate_traces(pid, family, module, cfg, t2, timeout=tv_timeout, dfs=dfs)
        if v2.rejected:
            rep = (t2, v2)
        elif replay_of is not None:
            # the schedule is not repeatable from its seed (online scheduler): replay the RECORDED trace's stimuli
            rs = replay_of(traces[ti], pos)
            t2, s2, _ = run_schedules(pid, pkg, test, [rs] * 8, tag=tag + "_re", env=env, timeout=exec_timeout)
            v2 = validate_traces(pid, family, module, cfg, t2, timeout=tv_timeout, dfs=dfs)
            if v2.rejected:
                rep = (t2, v2)
                sched = rs
        context = None
        if rep is None and sid > 0:
            # The rejection may depend on what EARLIER schedules of the batch left behind in the process (package-level
            # caches, pools): re-execute the schedule after its predecessors, as in the run that showed it.  Reproduced
            # this way, the violating history is the sequence; the replay file carries it as "context".
            ctxs = schedules[max(0, sid - 40):sid + 1]
            for _ in range(2):
                t2, s2, _ = run_schedules(pid, pkg, test, ctxs, tag=tag + "_rectx", env=env, timeout=exec_timeout)
                v2 = validate_traces(pid, family, module, cfg, t2, timeout=tv_timeout, dfs=dfs)
                if v2.rejected:
                    rep = (t2, v2)
                    context = ctxs
                    break
        if rep is None and sid > 40 and sid < 6000:
            # ... or on what the WHOLE batch before it left behind (a process-wide cache that only wraps after thousands of
            # keys): once more after every predecessor of the batch
            ctxs = schedules[:sid + 1]
            t2, s2, _ = run_schedules(pid, pkg, test, ctxs, tag=tag + "_reall", env=env, timeout=exec_timeout)
            v2 = validate_traces(pid, family, module, cfg, t2, timeout=tv_timeout, dfs=dfs)
            if v2.rejected:
                rep = (t2, v2)
                context = ctxs
        if rep is None:
            unreproduced.append((sid, pos, reason, traces[ti]))
            if len(unreproduced) >= 6 or len(unreproduced) >= len(seen_sched):
                u = unreproduced[0]
                raise Infra("%d rejected schedule(s) did not reproduce on re-execution (first: schedule %d, %s at event %d): %s"
                            % (len(unreproduced), u[0], u[2], u[1], json.dumps(u[3])[:1500]))
            continue
        t2, v2 = rep
        bad = t2[v2.rejected[0][0]]
        bpos, breason = v2.rejected[0][1], v2.rejected[0][2]
        # known finding?
        matched = None
        for fid, dcfg in dev_cfgs:
            v3 = validate_traces(pid, family, module, dcfg, [bad], timeout=tv_timeout, dfs=dfs)
            if not v3.rejected:
                matched = fid
                break
        if matched:
            known_hit.setdefault(matched, (sched, bad, bpos, breason))
            continue
        reported += 1
        path = save_replay(pid, "%s_%s_%d" % (family, tag, sid),
                           {"property": pid, "family": family, "trace_module": module,
                            "trace_cfg": cfg if isinstance(cfg, str) else "(per-trace configuration)", "pkg": pkg,
                            "test": test, "env": env or {}, "schedule": sched, "context": context, "trace": bad,
                            "rejected_at_event": bpos, "event": bad[bpos] if bpos < len(bad) else None,
                            "reason": breason})
        o.violations.append((path, "%s: %s at event %d: %s" % (family, breason, bpos,
                                                                json.dumps(bad[bpos] if bpos < len(bad) else None)[:300])))
        if reported >= max_report:
            break
    for fid, (sched, bad, bpos, breason) in known_hit.items():
        o.known.append((fid, "%s at event %d %s" % (breason, bpos, json.dumps(bad[bpos] if bpos < len(bad) else None)[:200])))


def finish(o, level, rule, assumptions, extra_cov=None):
    """Write evidence, print the verdict lines, return the exit code."""
    wall = time.time() - o.t0
    cov = {
        "states": o.states, "transitions": o.transitions,
        "traces_validated_against_impl": o.traces,
        "trace_events": o.trace_events, "trace_spec_states": o.trace_states,
        "schedules_executed": o.schedules,
        "evaluations": o.traces, "distinct_nontrivial": len(o.distinct_keys),
        "rule": rule, "samples": o.samples[:6] or [{"note": "no samples"}],
        "mc_runs": o.mc_runs,
        "exhaustive": bool([m for m in o.mc_runs if m.get("mode") == "bfs"]) and all(m["complete"] for m in o.mc_runs if m.get("mode") == "bfs"),
        "known_findings_reported": [k for k, _ in o.known], "selftests": o.selftests, "notes": o.notes,
    }
    cov.update(o.extra)
    if extra_cov:
        cov.update(extra_cov)
    write_evidence(o.pid, o.tier, o.seed, level, cov, wall, violations=len(o.violations), assumptions=assumptions)
    for fid, txt in o.known:
        log("KNOWN-FINDING: property=%s %s: %s" % (o.pid, fid, txt))
    if o.violations:
        for path, txt in o.violations:
            log("VIOLATION property=%s replay=%s" % (o.pid, path))
            log("  " + txt)
        return 1
    log("[%s] OK tier=%s seed=%d: %d MC states, %d traces validated, %.0fs" % (o.pid, o.tier, o.seed, o.states, o.traces, wall))
    return 0


def binding_selftest(o, family, module, cfg, traces, mutators, *, timeout=600, candidates=8):
    """Negative controls for the binding: each mutator corrupts one recorded field / drops one event of an
    accepted trace; the corrupted trace must be rejected by the trace spec.  A mutator is applied to up to
    `candidates` different recorded traces (a corruption of one particular trace can happen to be another valid
    behaviour); the control passes when at least one of them is rejected.  A control for which EVERY corrupted
    candidate is accepted means the trace spec constrains too little -> infrastructure failure (exit 2)."""
    bad, owner = [], []
    for k, (name, fn) in enumerate(mutators):
        n = 0
        for t in traces:
            m = fn(json.loads(json.dumps(t)))
            if m is not None:
                bad.append(m)
                owner.append(k)
                n += 1
                if n >= candidates:
                    break
    if not bad:
        return
    v = validate_traces(o.pid, family, module, cfg, bad, timeout=timeout)
    rejected = {i for i, _, _ in v.rejected}
    for k, (name, _) in enumerate(mutators):
        mine = [i for i, ow in enumerate(owner) if ow == k]
        if not mine:
            continue
        nrej = sum(1 for i in mine if i in rejected)
        o.selftests.append({"control": name, "candidates": len(mine), "rejected": nrej, "rejected_as_required": nrej > 0})
        if nrej == 0:
            raise Infra("binding self-test failed: %d corrupted traces (%s) were all accepted by %s/%s"
                        % (len(mine), name, module, cfg if isinstance(cfg, str) else "(per-trace cfg)"))
