#!/usr/bin/env python3
"""Confirm a seeded change (from an independent sub-agent) in a scratch worktree and, if confirmed, keep it under
/verif/seeded/<PID>-<X>/ (patch.diff, demonstration, meta.json with what was run).
usage: tools/confirm_seed.py <PID> <X> [<srcdir=/tmp/seed/PID/X>]"""
import json, os, re, shutil, subprocess, sys, time

def sh(cmd, cwd, timeout=1800):
    env = dict(os.environ, GOFLAGS="-mod=mod", GOPROXY="off")
    env.pop("GOTOOLCHAIN", None); env.pop("GOSUMDB", None)
    p = subprocess.run(["timeout", str(timeout), "bash", "-c", cmd], cwd=cwd, env=env, stdout=subprocess.PIPE, stderr=subprocess.STDOUT, text=True)
    return p.returncode, p.stdout

def main():
    pid, x = sys.argv[1], sys.argv[2]
    src = sys.argv[3] if len(sys.argv) > 3 else "/tmp/seed/%s/%s" % (pid, x)
    meta = json.load(open(os.path.join(src, "meta.json")))
    demo_cmd = meta["demo_cmd"]
    m = re.search(r"<repo>/(\S+_test\.go)", demo_cmd) or re.search(r"cp\s+\S*demo_test\.go\s+(\S+_test\.go)", demo_cmd)
    if not m:
        print("cannot find demo target in demo_cmd"); return 2
    target = m.group(1).lstrip("./")
    run = re.search(r"(go test .*)$", demo_cmd).group(1)
    wt = "/tmp/confirm_%s_%s_%d" % (pid, x, os.getpid())
    subprocess.run(["git", "-C", "/repo", "worktree", "add", "-q", "--detach", wt, "HEAD"], check=True)
    res = {}
    try:
        demos = [f for f in os.listdir(src) if f.endswith("_test.go") or (f.endswith(".go") and f.startswith("demo"))]
        shutil.copy(os.path.join(src, "demo_test.go"), os.path.join(wt, target))
        rc, out = sh(run, wt); res["demo_without_patch"] = "pass" if rc == 0 else "FAIL"
        print("demo without patch:", res["demo_without_patch"]); 
        if rc != 0: print(out[-1500:])
        rc, out = sh("git apply %s" % os.path.join(src, "patch.diff"), wt)
        if rc != 0:
            print("patch does not apply:", out); return 2
        files = [l.split()[-1] for l in subprocess.run(["git", "-C", wt, "diff", "--stat", "--name-only"], capture_output=True, text=True).stdout.split("\n") if l.strip()]
        files = [f for f in files if f != target]
        rc, out = sh("go build ./...", wt); res["build"] = "ok" if rc == 0 else "FAIL"
        print("build:", res["build"])
        rc, out = sh(run, wt); res["demo_with_patch"] = "fail (as required)" if rc != 0 else "PASSES"
        print("demo with patch:", res["demo_with_patch"])
        os.remove(os.path.join(wt, target))
        pkgs = sorted({"./" + os.path.dirname(f) + "/" for f in files})
        cmd = "go test -count=1 " + " ".join(pkgs)
        rc, out = sh(cmd, wt, timeout=2400)
        fails = [l for l in out.splitlines() if l.startswith("--- FAIL") or l.startswith("FAIL")]
        res["existing_tests"] = {"cmd": cmd, "result": "pass" if rc == 0 else "FAIL: " + "; ".join(fails[:5])}
        if rc != 0:
            # tests that are not in the pinned baseline's stable_pass set (environment / network dependent or flaky in
            # this sandbox) do not count; a failing test that IS in stable_pass does
            stable = set(json.load(open("/root/.vp/BASELINE.json"))["stable_pass"])
            cur, bad = [], []
            for l in out.splitlines():
                if l.startswith("--- FAIL:"):
                    cur.append(l.split()[2])
                elif l.startswith("FAIL\t") or l.startswith("ok  \t"):
                    pkg = l.split("\t")[1].strip()
                    bad += [pkg + "::" + t for t in cur if pkg + "::" + t in stable]
                    cur = []
            if not bad:
                res["existing_tests"] = {"cmd": cmd, "result": "pass", "note": "only tests outside the baseline's stable_pass set failed: " + "; ".join(fails[:6])}
            else:
                # one retry for load-induced flakiness of stable tests
                rc1, out1 = sh(cmd, wt, timeout=2400)
                if rc1 == 0 or not any(("--- FAIL: " + b.split("::")[1]) in out1 for b in bad):
                    res["existing_tests"] = {"cmd": cmd, "result": "pass", "note": "stable tests failed once and passed on retry: " + "; ".join(bad[:6])}
    finally:
        subprocess.run(["git", "-C", "/repo", "worktree", "remove", "--force", wt])
    ok = res.get("demo_without_patch") == "pass" and res.get("build") == "ok" and res.get("demo_with_patch", "").startswith("fail") and res.get("existing_tests", {}).get("result") == "pass"
    res["confirmed"] = ok
    if ok:
        dst = os.path.join("/verif/seeded", "%s-%s" % (pid, x))
        os.makedirs(dst, exist_ok=True)
        shutil.copy(os.path.join(src, "patch.diff"), dst)
        shutil.copy(os.path.join(src, "demo_test.go"), dst)
        meta["confirmation"] = res
        meta["confirmation"]["at_commit"] = subprocess.run(["git", "-C", "/repo", "rev-parse", "--short", "HEAD"], capture_output=True, text=True).stdout.strip()
        json.dump(meta, open(os.path.join(dst, "meta.json"), "w"), indent=1)
        print("kept as", dst)
    else:
        print("NOT confirmed:", res)
    return 0 if ok else 1

if __name__ == "__main__":
    sys.exit(main())
