SPECIFICATION MCSpec
CONSTANTS
 N = 3
 T = 2
 NV = 1
 Comp = FALSE
 Cmds = {1, 2, 3, 4}
 CredsVerbatim = TRUE
 Defect = "posIdx"
 Honest = {1, 2}
 Args <- ArgsCore
 ByzBlobs <- ByzNone
 MaxByz = 0
 PostCodes <- CAll
 MaxFault = 1
 Tampers <- TAll
 MaxTamper = 1
 Policy = "free"
 Sequential = FALSE
INVARIANTS Robust
CHECK_DEADLOCK FALSE
