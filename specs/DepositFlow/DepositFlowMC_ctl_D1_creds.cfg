SPECIFICATION MCSpec
CONSTANTS
 N = 3
 T = 2
 NV = 1
 Comp = FALSE
 Cmds = {1, 2}
 CredsVerbatim = TRUE
 Defect = "none"
 Honest = {1, 2}
 Args <- ArgsRefuse
 ByzBlobs <- ByzNone
 MaxByz = 0
 PostCodes <- CAll
 MaxFault = 1
 Tampers <- TNone
 MaxTamper = 0
 Policy = "free"
 Sequential = FALSE
INVARIANTS CredsMatchLock
CHECK_DEADLOCK FALSE
