SPECIFICATION MCSpec
CONSTANTS
 N = 4
 T = 3
 NV = 1
 Comp = FALSE
 Cmds = {1, 2, 3, 4, 5}
 CredsVerbatim = TRUE
 Defect = "none"
 Honest = {1, 2, 3}
 Args <- ArgsLive
 ByzBlobs <- Byz4
 MaxByz = 1
 PostCodes <- COk
 MaxFault = 0
 Tampers <- TAll
 MaxTamper = 1
 Policy = "free"
 Sequential = FALSE
INVARIANTS Safety Robust
CHECK_DEADLOCK FALSE
