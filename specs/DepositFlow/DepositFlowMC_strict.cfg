SPECIFICATION MCSpec
CONSTANTS
 N = 3
 T = 2
 NV = 1
 Comp = FALSE
 Cmds = {1, 2, 3}
 CredsVerbatim = FALSE
 Defect = "none"
 Honest = {1, 2}
 Args <- ArgsRefuse
 ByzBlobs <- ByzNone
 MaxByz = 0
 PostCodes <- COk
 MaxFault = 0
 Tampers <- TNone
 MaxTamper = 0
 Policy = "free"
 Sequential = FALSE
INVARIANTS Safety Robust CredsMatchLock
CHECK_DEADLOCK FALSE
