---- MODULE DepositFlowGen ----
(* Schedule generation: behaviours of the design spec under the bounds of DepositFlowMC (Sequential = TRUE: the executor
   runs one command at a time); the ENVIRONMENT's moves are recorded in the history variable `hist`: the command lines,
   the code the API answers a POST with, the code and the response it answers a full-deposit request with, what the
   Byzantine operator posts.  Run with -simulate; checks/grow_depositflow.py turns a history into a schedule. *)
EXTENDS DepositFlowMC, Json
CONSTANTS GenLen
VARIABLES hist
Rec(e) == hist' = Append(hist, e)
GenInit == MCInit /\ hist = <<>>
GenNext ==
  \/ /\ Quiet /\ UNCHANGED Budget
     /\ \E c \in Cmds : First(c) /\ \E o \in Honest : \E a \in Args :
          /\ StartOK(o, a) /\ Start(c, o, a)
          /\ Rec([ev |-> "Start", c |-> c, op |-> o, kind |-> a.kind, vals |-> a.vals, ws |-> a.ws, amts |-> a.amts, dir |-> a.dir])
  \/ \E c \in Cmds : Finish(c) /\ UNCHANGED <<Budget, hist>>
  \/ \E c \in Cmds : UNCHANGED Budget /\
        \/ Post(c, 201) /\ Rec([ev |-> "Post", c |-> c, code |-> 201])
        \/ /\ cmd[c].pc = "get"
           /\ IF Deliverable(c) = {} THEN Get(c, 401, NoResp) /\ Rec([ev |-> "Get", c |-> c, code |-> 401])
              ELSE \E R \in Deliverable(c) : Get(c, 200, R) /\ Rec([ev |-> "Get", c |-> c, code |-> 200, resp |-> R])
  \/ /\ nfault < MaxFault /\ nfault' = nfault + 1 /\ UNCHANGED <<nbyz, ntamper>>
     /\ \E c \in Cmds : \/ \E code \in PostCodes \ {201} : Post(c, code) /\ Rec([ev |-> "Post", c |-> c, code |-> code])
                        \/ \E code \in {500, 404} : Get(c, code, NoResp) /\ Rec([ev |-> "Get", c |-> c, code |-> code])
  \/ /\ ntamper < MaxTamper /\ ntamper' = ntamper + 1 /\ UNCHANGED <<nbyz, nfault>>
     /\ \E c \in Cmds : cmd[c].pc = "get" /\ \E R \in Deliverable(c) : \E k \in Tampers :
          Get(c, 200, Tamper(k, R)) /\ Rec([ev |-> "Get", c |-> c, code |-> 200, resp |-> Tamper(k, R), tamper |-> k])
  \/ /\ nbyz < MaxByz /\ nbyz' = nbyz + 1 /\ UNCHANGED <<nfault, ntamper>> /\ Quiet
     /\ \E b \in ByzBlobs : Byz(b) /\ Rec([ev |-> "Byz", share |-> b[1].k, blobs |-> b])
GenSpec == GenInit /\ [][GenNext]_<<mcvars, hist>>
Emit == Len(hist) < GenLen \/ PrintT("@@SCHED@@" \o ToJson([n |-> N, t |-> T, nv |-> NV, comp |-> Comp, steps |-> hist]))
Stop == Len(hist) <= GenLen
====
