SPECIFICATION GenSpec
CONSTANTS
 N = 3
 T = 2
 NV = 1
 Comp = FALSE
 Cmds = {1, 2, 3, 4, 5, 6, 7, 8}
 CredsVerbatim = TRUE
 Defect = "none"
 Honest = {1, 2}
 Args <- ArgsRefuse
 ByzBlobs <- Byz3
 MaxByz = 2
 PostCodes <- CAll
 MaxFault = 2
 Tampers <- TAll
 MaxTamper = 3
 Policy = "free"
 Sequential = TRUE
 GenLen = 12
INVARIANTS Emit
CONSTRAINT Stop
CHECK_DEADLOCK FALSE
