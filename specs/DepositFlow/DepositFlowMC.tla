---- MODULE DepositFlowMC ----
(* Exhaustive design check of DepositFlow: every interleaving, at request granularity, of the commands the honest
   operators may start (Args), the partials a Byzantine operator posts (ByzBlobs, at most MaxByz), an API that answers a
   POST with any code of PostCodes and fails a GET (at most MaxFault faults), hands out any credentials that were
   posted for the validator with the amounts that reached the threshold, and tampers with a response (Tampers, at most
   MaxTamper).  Commands are started in the order of their identifiers (symmetry).  All bounds are here. *)
EXTENDS DepositFlow
CONSTANTS Honest, Args, ByzBlobs, MaxByz, PostCodes, MaxFault, Tampers, MaxTamper, Policy, Sequential
VARIABLES nbyz, nfault, ntamper
mcvars == <<vars, nbyz, nfault, ntamper>>
Budget == <<nbyz, nfault, ntamper>>

S(vals, ws, amts) == [kind |-> "sign", vals |-> vals, ws |-> ws, amts |-> amts, dir |-> 0]
F(vals, dir) == [kind |-> "fetch", vals |-> vals, ws |-> <<>>, amts |-> <<>>, dir |-> dir]
ArgsCore == {S(<<1>>, <<1>>, <<32>>), F(<<1>>, 1)}
ArgsMsg == {S(<<1>>, <<1>>, <<32>>), S(<<1>>, <<3>>, <<32>>), S(<<1>>, <<1>>, <<8>>), F(<<1>>, 1)}
ArgsAmts == {S(<<1>>, <<1>>, <<32, 8>>), S(<<1>>, <<1>>, <<8>>), F(<<1>>, 1)}
ArgsMulti == {S(<<1, 2>>, <<1>>, <<32>>), S(<<1, 2>>, <<1, 3>>, <<32>>), S(<<2>>, <<1>>, <<32>>), F(<<1, 2>>, 1), F(<<2>>, 1), F(<<2, 0>>, 1)}
ArgsRefuse == {S(<<1>>, <<1>>, <<32>>), S(<<1>>, <<1>>, <<33>>), S(<<1>>, <<1>>, <<32, 0>>), S(<<0>>, <<1>>, <<32>>), S(<<1, 2>>, <<1, 3, 1>>, <<32>>),
               S(<<1>>, <<6>>, <<32>>), S(<<1>>, <<2>>, <<32>>), S(<<1>>, <<5>>, <<32>>), S(<<1>>, <<7>>, <<32>>), S(<<-2>>, <<1>>, <<32>>),
               F(<<0>>, 1), F(<<1, 0>>, 1), F(<<1>>, 2)}
ArgsComp == {S(<<1>>, <<2>>, <<2048>>), S(<<1>>, <<2>>, <<2049>>), S(<<1>>, <<1>>, <<32>>), S(<<1>>, <<6>>, <<64>>), F(<<1>>, 1)}
ArgsLive == {S(<<1>>, <<1>>, <<32>>), F(<<1>>, 1)}

\* what Byzantine operator b can make: its partial over other credentials / another amount, its share of another validator
\* over this validator's message, a partial for a validator that is not in the lock
B(v, w, a, sv, k) == [v |-> v, w |-> w, a |-> a, sv |-> sv, k |-> k]
ByzOf(b) == {<<B(1, 1, 32, 1, b)>>, <<B(1, 3, 32, 1, b)>>, <<B(1, 1, 8, 1, b)>>, <<B(1, 1, 32, 2, b)>>, <<B(0, 1, 32, 1, b)>>,
             <<B(1, 3, 32, 1, b), B(1, 1, 64, 1, b)>>}
Byz3 == ByzOf(3)
Byz4 == ByzOf(4)
ByzNone == {}

---------------------------------------------------------------------------------------------------
(* an API that stores what was posted and hands out, for one of the credentials posted for the validator, the amounts
   that have at least threshold many distinct shares *)
\* `deposit sign` allows exactly the amounts (whole ETH) NewMessage allows; the functions on small arguments
ASSUME \A a \in 0..2050 : InRange(a) <=> NewMessageOK(TRUE, <<a, 0>>, Comp)
E(a) == <<a, 0>>
ASSUME /\ Dedup(<<E(8), E(32), E(8), E(1), <<32, -1>>>>) = <<E(1), E(8), <<32, -1>>, E(32)>> /\ Dedup(<<>>) = <<>>
       /\ VerifyAmountsOK(<<>>, FALSE) /\ VerifyAmountsOK(<<E(1), E(31)>>, FALSE) /\ ~VerifyAmountsOK(<<E(1), <<31, -1>>>>, FALSE)
       /\ ~VerifyAmountsOK(<<E(33)>>, FALSE) /\ VerifyAmountsOK(<<E(33)>>, TRUE) /\ ~VerifyAmountsOK(<<E(32), <<1, -1>>>>, TRUE)
       /\ ~VerifyAmountsOK(<<<<32, 1>>>>, FALSE) /\ VerifyAmountsOK(<<<<32, 1>>>>, TRUE) /\ ~VerifyAmountsOK(<<<<2048, 1>>>>, TRUE)
Mine(v) == {t \in produced : t.v = v /\ t.sv = v}
SharesFor(v, w, a) == {k \in Ops : Tok(v, k, v, w, a) \in produced}
AmtsFor(v, w) == {t.a : t \in {u \in Mine(v) : u.w = w /\ Cardinality(SharesFor(v, w, u.a)) >= T}}
Resp(v, w) == LET as == AscSeq(AmtsFor(v, w)) IN
  [garbage |-> FALSE, w |-> w,
   amounts |-> [j \in DOMAIN as |-> LET ks == AscSeq(SharesFor(v, w, as[j])) IN
                  [a |-> as[j], parts |-> [i \in DOMAIN ks |-> [pk |-> <<v, ks[i]>>, tok |-> Tok(v, ks[i], v, w, as[j])]]]]]
Deliverable(c) == LET v == cmd[c].vals[cmd[c].k] IN {Resp(v, w) : w \in {t.w : t \in {u \in Mine(v) : AmtsFor(v, u.w) # {}}}}

DropAt(s, m) == [j \in 1..(Len(s) - 1) |-> IF j < m THEN s[j] ELSE s[j + 1]]
Blank == Tok(0, -1, 0, 0, 0)
Junk == Tok(0, 0, 0, 0, 0)
OtherW(w) == IF w = 1 THEN 3 ELSE 1
OtherA(a) == IF a = 32 THEN 8 ELSE 32
\* all tampering is with the first amount of the response
Tamper(kind, R) ==
  LET g == R.amounts[1]
      n == Len(g.parts)
      P(ps) == [R EXCEPT !.amounts[1].parts = ps]
      p1 == g.parts[1] IN
  CASE kind = "blank" -> P([g.parts EXCEPT ![1].tok = Blank])
    [] kind = "blankadd" -> P(Append(g.parts, [pk |-> <<-1, -1>>, tok |-> Blank]))
    [] kind = "drop" -> P(DropAt(g.parts, 1))
    [] kind = "dup" -> P([g.parts EXCEPT ![n] = p1])
    [] kind = "dupadd" -> P(Append(g.parts, p1))
    [] kind = "rev" -> P([j \in 1..n |-> g.parts[n + 1 - j]])
    [] kind = "junk" -> P([g.parts EXCEPT ![1].tok = Junk])
    [] kind = "trunc" -> P([g.parts EXCEPT ![1].tok = Tok(0, -2, 0, 0, 0)])
    [] kind = "swappk" -> P([g.parts EXCEPT ![1].pk = g.parts[n].pk, ![n].pk = p1.pk])
    [] kind = "nopk" -> P([g.parts EXCEPT ![1].pk = <<-1, -1>>])
    [] kind = "unkpk" -> P([g.parts EXCEPT ![1].pk = <<0, 0>>])
    [] kind = "otherw" -> [R EXCEPT !.w = OtherW(R.w)]
    [] kind = "badw" -> [R EXCEPT !.w = WBad]
    [] kind = "addrw" -> [R EXCEPT !.w = WAddr]
    [] kind = "othera" -> [R EXCEPT !.amounts[1].a = OtherA(g.a)]
    [] kind = "bada" -> [R EXCEPT !.amounts[1].a = -2]
    [] kind = "mixw" -> P([g.parts EXCEPT ![1].tok.w = OtherW(p1.tok.w)])
    [] kind = "mixa" -> P([g.parts EXCEPT ![1].tok.a = OtherA(p1.tok.a)])
    [] kind = "otherv" -> P([g.parts EXCEPT ![1] = [pk |-> <<3 - p1.pk[1], p1.pk[2]>>, tok |-> [p1.tok EXCEPT !.sv = 3 - p1.tok.sv]]])
    [] kind = "lowgroup" -> [R EXCEPT !.amounts = Append(@, [a |-> 1, parts |-> <<[p1 EXCEPT !.tok.a = 1]>>])]
    [] kind = "dupgroup" -> [R EXCEPT !.amounts = Append(@, g)]
    [] kind = "empty" -> [R EXCEPT !.amounts = <<>>]
    [] kind = "garbage" -> [R EXCEPT !.garbage = TRUE]
    [] OTHER -> R
TAll == {"blank", "blankadd", "drop", "dup", "dupadd", "rev", "junk", "trunc", "swappk", "nopk", "unkpk", "otherw", "badw", "addrw", "othera",
         "bada", "mixw", "mixa", "otherv", "lowgroup", "dupgroup", "empty", "garbage"}
TSome == {"blank", "drop", "rev", "junk", "swappk", "otherw", "othera", "mixw", "dupgroup", "lowgroup"}
TNone == {}
CAll == {201, 409, 500, 400}
COk == {201}

HasOK(o, kind) == \E c \in Cmds : cmd[c].op = o /\ cmd[c].kind = kind /\ cmd[c].pc \in {"fin", "done"} /\ cmd[c].ok
\* Policy "live": an operator signs until it succeeded once; operator 1 fetches once every honest operator has signed
StartOK(o, a) == CASE Policy = "free" -> TRUE
                   [] Policy = "live" -> IF a.kind = "sign" THEN ~HasOK(o, "sign")
                                         ELSE o = 1 /\ (\A p \in Honest : HasOK(p, "sign")) /\ ~HasOK(1, "fetch")
Quiet == \A c \in Cmds : cmd[c].pc \in {"idle", "done"}

MCInit == Init /\ nbyz = 0 /\ nfault = 0 /\ ntamper = 0
First(c) == \A d \in Cmds : d < c => cmd[d].pc # "idle"
EnvStart == /\ Sequential => Quiet
            /\ \E c \in Cmds : First(c) /\ \E o \in Honest : \E a \in Args : StartOK(o, a) /\ Start(c, o, a)
\* what a command does when nothing interferes
Step(c) == \/ Finish(c) \/ Post(c, 201)
           \/ (cmd[c].pc = "get" /\ IF Deliverable(c) = {} THEN Get(c, 401, NoResp) ELSE \E R \in Deliverable(c) : Get(c, 200, R))
Steps == (\E c \in Cmds : Step(c)) /\ UNCHANGED Budget
Faulty == /\ nfault < MaxFault /\ nfault' = nfault + 1 /\ UNCHANGED <<nbyz, ntamper>>
          /\ \E c \in Cmds : (\E code \in PostCodes \ {201} : Post(c, code)) \/ Get(c, 500, NoResp) \/ Get(c, 404, NoResp)
Tampering == /\ ntamper < MaxTamper /\ ntamper' = ntamper + 1 /\ UNCHANGED <<nbyz, nfault>>
             /\ \E c \in Cmds : cmd[c].pc = "get" /\ \E R \in Deliverable(c) : \E k \in Tampers : Get(c, 200, Tamper(k, R))
Byzantine == /\ nbyz < MaxByz /\ nbyz' = nbyz + 1 /\ UNCHANGED <<nfault, ntamper>>
             /\ Sequential => Quiet
             /\ \E b \in ByzBlobs : Byz(b)
MCNext == (EnvStart /\ UNCHANGED Budget) \/ Steps \/ Faulty \/ Tampering \/ Byzantine
MCSpec == MCInit /\ [][MCNext]_mcvars

\* GetFullDeposit's promise, over every response the tampering can make of every response the API can give
Robust == \A c \in Cmds : cmd[c].pc = "get" => \A R \in Deliverable(c) : \A k \in TAll \cup {"-"} : AggRobust(cmd[c].vals[cmd[c].k], Tamper(k, R))

(* Liveness (Policy = "live", no Byzantine operator, finitely many faults): the deposit data file gets written. *)
Fair == /\ \A c \in Cmds : WF_mcvars(Step(c) /\ UNCHANGED Budget)
        /\ WF_mcvars(EnvStart /\ UNCHANGED Budget)
FairSpec == MCSpec /\ Fair
Written == <>(\E f \in disk[1][1] : f.a = 32 /\ Len(f.es) = 1)
Terminates == \A c \in Cmds : (cmd[c].pc \notin {"idle", "done"}) ~> (cmd[c].pc = "done")
====
