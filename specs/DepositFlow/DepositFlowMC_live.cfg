SPECIFICATION FairSpec
CONSTANTS
 N = 3
 T = 2
 NV = 1
 Comp = FALSE
 Cmds = {1, 2, 3, 4, 5}
 CredsVerbatim = TRUE
 Defect = "none"
 Honest = {1, 2}
 Args <- ArgsLive
 ByzBlobs <- ByzNone
 MaxByz = 0
 PostCodes <- CAll
 MaxFault = 1
 Tampers <- TNone
 MaxTamper = 0
 Policy = "live"
 Sequential = FALSE
PROPERTIES Written Terminates
CHECK_DEADLOCK FALSE
