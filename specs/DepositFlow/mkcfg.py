#!/usr/bin/env python3
"""Writes the DepositFlowMC_*.cfg and DepositFlowGen_*.cfg files of this directory (run it here after changing a bound)."""
OV = {"Args", "ByzBlobs", "PostCodes", "Tampers"}
BASE = dict(N=3, T=2, NV=1, Comp="FALSE", Cmds="{1, 2, 3, 4}", CredsVerbatim="TRUE", Defect='"none"', Honest="{1, 2}", Args="ArgsCore",
            ByzBlobs="Byz3", MaxByz=1, PostCodes="CAll", MaxFault=1, Tampers="TAll", MaxTamper=1, Policy='"free"', Sequential="FALSE")


def mc(name, inv="Safety Robust", spec="MCSpec", props="", **kw):
    d = dict(BASE)
    d.update(kw)
    out = ["SPECIFICATION " + spec, "CONSTANTS"] + [" %s %s %s" % (k, "<-" if k in OV else "=", v) for k, v in d.items()]
    if inv:
        out.append("INVARIANTS " + inv)
    if props:
        out.append("PROPERTIES " + props)
    out.append("CHECK_DEADLOCK FALSE")
    open("DepositFlowMC_%s.cfg" % name, "w").write("\n".join(out) + "\n")


STRICT = "Safety Robust CredsMatchLock"
NOBYZ = dict(ByzBlobs="ByzNone", MaxByz=0)
NOTAMP = dict(Tampers="TNone", MaxTamper=0)
NOFAULT = dict(PostCodes="COk", MaxFault=0)
mc("core", Cmds="{1, 2, 3}")
mc("strict", inv=STRICT, CredsVerbatim="FALSE", Args="ArgsRefuse", Cmds="{1, 2, 3}", **NOTAMP, **NOBYZ, **NOFAULT)
mc("strict_thorough", inv=STRICT, CredsVerbatim="FALSE", Args="ArgsRefuse", Cmds="{1, 2, 3}", **NOTAMP)
mc("msg", Args="ArgsMsg", Cmds="{1, 2, 3, 4}", Tampers="TSome", **NOFAULT, **NOBYZ)
mc("amts", Args="ArgsAmts", Tampers="TSome", **NOBYZ)
mc("multi", NV=2, Args="ArgsMulti", Cmds="{1, 2, 3}", Tampers="TSome", **NOBYZ, **NOFAULT)
mc("refuse", Args="ArgsRefuse", Cmds="{1, 2, 3}", **NOTAMP, **NOBYZ, **NOFAULT)
mc("refuse_thorough", Args="ArgsRefuse", Cmds="{1, 2, 3}", **NOTAMP)
mc("comp", Comp="TRUE", Args="ArgsComp", Cmds="{1, 2, 3}", **NOTAMP, **NOBYZ)
mc("four", N=4, T=3, Honest="{1, 2, 3}", Cmds="{1, 2, 3, 4}", Args="ArgsLive", ByzBlobs="Byz4", **NOFAULT)
mc("four_thorough", N=4, T=3, Honest="{1, 2, 3}", Cmds="{1, 2, 3, 4, 5}", Args="ArgsLive", ByzBlobs="Byz4", **NOFAULT)
mc("core_thorough", Cmds="{1, 2, 3, 4}", MaxByz=2)
mc("msg_thorough", Args="ArgsMsg", Cmds="{1, 2, 3, 4, 5}", Tampers="TSome", **NOFAULT, **NOBYZ)
mc("multi_thorough", NV=2, Args="ArgsMulti", Cmds="{1, 2, 3, 4}", Tampers="TSome", **NOBYZ)
LIVE = dict(inv="", props="Written Terminates", spec="FairSpec", Policy='"live"', Args="ArgsLive", Cmds="{1, 2, 3, 4, 5}", **NOBYZ, **NOTAMP)
mc("live", **LIVE)
mc("ctl_noVerify", inv="FetchSound", Defect='"noVerify"')
mc("ctl_posIdx", inv="Robust", Defect='"posIdx"', **NOBYZ)
mc("ctl_noRange", inv="SignedInRange", Defect='"noRange"', Args="ArgsRefuse", **NOTAMP)
mc("ctl_writeEarly", inv="FetchAtomic", Defect='"writeEarly"', NV=2, Args="ArgsMulti", Tampers="TSome", **NOBYZ)
mc("ctl_mixExisting", inv="FetchAtomic", Defect='"mixExisting"', **NOBYZ)
mc("ctl_okOn4xx", inv="SignReport", Defect='"okOn4xx"', **NOBYZ, **NOTAMP)
mc("ctl_D1_creds", inv="CredsMatchLock", Args="ArgsRefuse", Cmds="{1, 2}", **NOBYZ, **NOTAMP)

GBASE = dict(BASE, N=4, T=3, Cmds="{1, 2, 3, 4, 5, 6, 7, 8}", Honest="{1, 2, 3}", ByzBlobs="Byz4", MaxByz=2, MaxFault=2, MaxTamper=3,
             Sequential="TRUE", GenLen=16)


def gen(name, **kw):
    d = dict(GBASE)
    d.update(kw)
    out = ["SPECIFICATION GenSpec", "CONSTANTS"] + [" %s %s %s" % (k, "<-" if k in OV else "=", v) for k, v in d.items()]
    out += ["INVARIANTS Emit", "CONSTRAINT Stop", "CHECK_DEADLOCK FALSE"]
    open("DepositFlowGen_%s.cfg" % name, "w").write("\n".join(out) + "\n")


gen("core")
gen("small", N=3, T=2, Honest="{1, 2}", ByzBlobs="Byz3", GenLen=12)
gen("msg", Args="ArgsMsg", GenLen=18)
gen("amts", Args="ArgsAmts", **NOBYZ)
gen("multi", NV=2, N=3, T=2, Honest="{1, 2}", ByzBlobs="Byz3", Args="ArgsMulti")
gen("refuse", N=3, T=2, Honest="{1, 2}", ByzBlobs="Byz3", Args="ArgsRefuse", GenLen=12)
gen("comp", N=3, T=2, Honest="{1, 2}", Comp="TRUE", Args="ArgsComp", GenLen=12, **NOBYZ)
