---- MODULE DepositFlow ----
(* The partial-deposit flow through the Obol API: cmd/depositsign.go (runDepositSign), cmd/depositfetch.go
   (runDepositFetch), cmd/deposit.go (flags), app/obolapi/deposit.go + deposit_model.go (PostPartialDeposits,
   GetFullDeposit: share-index lookup by public share, verification of every partial signature, threshold aggregation,
   verification of the aggregate under the validator's group key) and eth2util/deposit (GetMessageSigningRoot,
   MarshalDepositData, WriteDepositDataFile / GetDepositFilePath: one deposit-data-<amount>eth.json per amount).

   Cryptography is abstract.  A DEPOSIT MESSAGE is (v, w, a): validator v (1..NV: the lock's validators, 0: a key that
   is not in the lock, -1: a key that is too short, -2: not hex), withdrawal credentials w, amount a in ETH.  What an
   operator may type for --withdrawal-addresses: 1..5 are 32-byte values (1, 3: prefix 0x01 for addresses A, B; 2, 4:
   prefix 0x02 for A, B; 5: prefix 0x00), 6 is the 20-byte address A, 7 is not hex.  A PARTIAL SIGNATURE is the token
   [sv, k, v, w, a]: made with key share k of validator sv over the message (v, w, a) under the deposit domain of the
   lock's fork version; k = 0 a well-formed signature nobody's share verifies, k = -1 a blank entry, k = -2 a truncated
   one.  A FULL DEPOSIT is [v, w, a, by]: `by` is the cluster validator whose group key verifies it (0: none).

   One action per request on the wire; everything a command does between two requests happens within the step of the
   request before it.  pc:  sign: (refused at the command line -> fin) | post -> fin;   fetch: get per validator in
   command-line order (a validator that is not in the lock ends the command before its request) -> after the last one
   the files are written -> fin;   fin -Finish-> done.

   The API is the ENVIRONMENT: it answers a POST with any code and a full-deposit request with ANY response R = [garbage,
   w, amounts: <<[a, parts: <<[pk, tok]>>]>>] (pk = <<validator, share>> of the public share the entry names, <<0,0>>
   unknown, <<-1,-1>> empty).  A Byzantine operator posts partials assembled by itself (Byz).

   Contract (help texts of cmd/deposit*, doc comment of GetFullDeposit, eth2util/deposit): invariants below.
   CredsVerbatim = TRUE is deviation D1 of runDepositSign as coded: what the operator types for --withdrawal-addresses
   is signed verbatim as the 32-byte withdrawal credentials (a 20-byte address is refused, any prefix is accepted whatever
   the lock's compounding flag).  Deviation D2 (a validator public key shorter than 48 bytes makes `deposit sign` panic
   instead of returning an error) only concerns how the refusal surfaces: constant AllowPanic of DepositFlowTrace.
   Defect switches plausible defects on for the control configurations.

   Deliberately left open: the order in which the files of one fetch are written (Go map order), the order of the entries
   within a file (compared as bags), what the API does with what is posted (it is the environment), the result of
   ReadDepositDataFiles on a directory without files. *)
EXTENDS Integers, Sequences, FiniteSets, TLC

CONSTANTS N, T, NV,        \* operators 1..N (share index = operator index), threshold, validators 1..NV
          Comp,            \* the lock's compounding flag
          Cmds,            \* command identifiers
          CredsVerbatim,   \* D1, as coded
          Defect           \* "none" | "noVerify" | "posIdx" | "noRange" | "writeEarly" | "mixExisting" | "okOn4xx" | "countAll"

Ops == 1..N
Vals == 1..NV
Dirs == 1..2
WCreds == 1..5
WAddr == 6
WBad == 7
Prefix(w) == CASE w \in {1, 3} -> 1 [] w \in {2, 4} -> 2 [] OTHER -> 0
WantPrefix == IF Comp THEN 2 ELSE 1
MaxAmt == IF Comp THEN 2048 ELSE 32
InRange(a) == a >= 1 /\ a <= MaxAmt      \* = NewMessageOK(TRUE, <<a, 0>>, Comp), see the ASSUME in DepositFlowMC

VARIABLES produced,  \* ghost: the partial-signature tokens that exist (made by a sign command or by a Byzantine operator)
          disk,      \* per operator, per output directory: the deposit-data files, a set of [a, es: sequence of deposits]
          cmd        \* the commands
vars == <<produced, disk, cmd>>

Tok(sv, k, v, w, a) == [sv |-> sv, k |-> k, v |-> v, w |-> w, a |-> a]
SeqToSet(s) == {s[j] : j \in DOMAIN s}

---------------------------------------------------------------------------------------------------
(* eth2util/deposit, the functions without state: NewMessage (the message `create cluster` / `dkg` sign:
   the credentials are the withdrawal ADDRESS with the prefix of the compounding flag), MaxDepositAmount,
   VerifyDepositAmounts (every partial amount within [1 ETH, maximum], together at least 32 ETH; none given: the default),
   DedupAmounts (distinct, ascending). *)
\* TLC's integers have 32 bits: an amount of g Gwei is the pair <<e, d>> with g = e * 10^9 + d, |d| < 5 * 10^8
GE(x, e) == x[1] > e \/ (x[1] = e /\ x[2] >= 0)
LE(x, e) == x[1] < e \/ (x[1] = e /\ x[2] <= 0)
Less(x, y) == x[1] < y[1] \/ (x[1] = y[1] /\ x[2] < y[2])
MaxEth(comp) == IF comp THEN 2048 ELSE 32
NewMessageOK(addrValid, g, comp) == addrValid /\ GE(g, 1) /\ LE(g, MaxEth(comp))
CredsOfAddr(addr, comp) == CASE addr = "A" -> (IF comp THEN 2 ELSE 1) [] addr = "B" -> (IF comp THEN 4 ELSE 3) [] OTHER -> 0
RECURSIVE SumPair(_)
SumPair(s) == IF s = <<>> THEN <<0, 0>> ELSE LET r == SumPair(Tail(s)) IN <<Head(s)[1] + r[1], Head(s)[2] + r[2]>>
VerifyAmountsOK(amts, comp) == amts = <<>> \/ ((\A j \in DOMAIN amts : GE(amts[j], 1) /\ LE(amts[j], MaxEth(comp))) /\ GE(SumPair(amts), 32))
RECURSIVE AscSeq(_)
AscSeq(X) == IF X = {} THEN <<>> ELSE LET m == CHOOSE x \in X : \A y \in X : x <= y IN <<m>> \o AscSeq(X \ {m})
RECURSIVE AscPairs(_)
AscPairs(X) == IF X = {} THEN <<>> ELSE LET m == CHOOSE x \in X : \A y \in X \ {x} : Less(x, y) IN <<m>> \o AscPairs(X \ {m})
Dedup(amts) == AscPairs({amts[j] : j \in DOMAIN amts})

---------------------------------------------------------------------------------------------------
(* deposit sign *)
\* the credentials that go into the message for what the operator typed; -1: refused
EffW(w) == IF CredsVerbatim THEN (IF w \in WCreds THEN w ELSE -1)
           ELSE IF w = WAddr THEN WantPrefix                                      \* address A with the lock's prefix
           ELSE IF w \in WCreds /\ Prefix(w) = WantPrefix THEN w ELSE -1
WOf(a, i) == IF Len(a.ws) = 1 THEN a.ws[1] ELSE a.ws[i]
SignRefused(a) ==
  \/ (Len(a.ws) # 1 /\ Len(a.ws) # Len(a.vals))                                   \* one address for all keys or one per key
  \/ \E i \in DOMAIN a.vals : a.vals[i] \notin Vals                               \* not hex / no key share: not in the lock
  \/ \E i \in DOMAIN a.ws : a.ws[i] = WBad
  \/ (Len(a.ws) = 1 \/ Len(a.ws) = Len(a.vals)) /\ \E i \in DOMAIN a.vals : EffW(WOf(a, i)) = -1
  \/ (Defect # "noRange" /\ \E j \in DOMAIN a.amts : ~InRange(a.amts[j]))
\* all validators x all amounts, validators outermost, in ONE request
SignBlobs(op, a) ==
  LET L == Len(a.amts) IN
  [p \in 1..(Len(a.vals) * L) |->
     LET i == ((p - 1) \div L) + 1
         j == ((p - 1) % L) + 1 IN
     [v |-> a.vals[i], w |-> EffW(WOf(a, i)), a |-> a.amts[j], sv |-> a.vals[i], k |-> op]]
BlobTok(b) == Tok(b.sv, b.k, b.v, b.w, b.a)
\* httpPost: 2xx and 409 are success
PostOK(code) == code \in 200..299 \/ code = 409 \/ (Defect = "okOn4xx" /\ code \in 400..499)

---------------------------------------------------------------------------------------------------
(* deposit fetch: obolapi.Client.GetFullDeposit on a response R for validator v *)
NoResp == [garbage |-> FALSE, w |-> 0, amounts |-> <<>>]
Live(g) == {j \in DOMAIN g.parts : g.parts[j].tok.k # -1}                         \* "" entries are skipped
\* what the doc comment promises: the share index is resolved from the public share the entry names, the partial
\* signature is verified against that share over the message (v, R.w, amount)
PartGood(v, w, a, p) == p.pk[1] = v /\ p.pk[2] \in Ops /\ p.tok = Tok(v, p.pk[2], v, w, a)
GroupGood(v, w, g) == /\ w \in WCreds /\ g.a >= 0
                      /\ \A j \in Live(g) : PartGood(v, w, g.a, g.parts[j])
                      /\ \A j, h \in Live(g) : j # h => g.parts[j].pk # g.parts[h].pk
                      /\ Cardinality(Live(g)) >= T
GoodResp(v, R) == ~R.garbage /\ R.w # WBad /\ \A j \in DOMAIN R.amounts : GroupGood(v, R.w, R.amounts[j])
\* as coded (and the variants of the control configurations)
PartOK(v, w, a, p, j) ==
  CASE Defect = "noVerify" -> p.tok.k # -2 /\ p.pk[1] = v
    [] Defect = "posIdx" -> p.tok = Tok(v, j, v, w, a)
    [] OTHER -> PartGood(v, w, a, p)
GroupOK(v, w, g) == /\ w \in WCreds /\ g.a >= 0
                    /\ \A j \in Live(g) : PartOK(v, w, g.a, g.parts[j], j)
                    /\ (Defect = "posIdx" \/ \A j, h \in Live(g) : j # h => g.parts[j].pk # g.parts[h].pk)
                    /\ (IF Defect = "countAll" THEN Len(g.parts) ELSE Cardinality(Live(g))) >= T
                    /\ (Defect \in {"noVerify"} \/ GroupGood(v, w, g))               \* the aggregate is verified under the group key
AggOK(v, R) == ~R.garbage /\ R.w # WBad /\ \A j \in DOMAIN R.amounts : GroupOK(v, R.w, R.amounts[j])
Deposits(v, R) == [j \in DOMAIN R.amounts |-> [v |-> v, w |-> R.w, a |-> R.amounts[j].a,
                                               by |-> IF GroupGood(v, R.w, R.amounts[j]) THEN v ELSE 0]]

AmtsOf(got) == {got[j].a : j \in DOMAIN got}
Sel(got, a) == SelectSeq(got, LAMBDA g : g.a = a)
OldEs(dir, a) == IF \E f \in dir : f.a = a THEN (CHOOSE f \in dir : f.a = a).es ELSE <<>>
\* os.WriteFile per amount: a file of that amount is replaced as a whole, files of other amounts stay
Expected(before, got) == {f \in before : f.a \notin AmtsOf(got)} \cup {[a |-> a, es |-> Sel(got, a)] : a \in AmtsOf(got)}
NewDir(old, got) == IF Defect = "mixExisting"
                      THEN {f \in old : f.a \notin AmtsOf(got)} \cup {[a |-> a, es |-> OldEs(old, a) \o Sel(got, a)] : a \in AmtsOf(got)}
                      ELSE Expected(old, got)

---------------------------------------------------------------------------------------------------
IdleCmd == [op |-> 0, kind |-> "-", vals |-> <<>>, ws |-> <<>>, amts |-> <<>>, dir |-> 0, pc |-> "idle", k |-> 0,
            got |-> <<>>, ok |-> FALSE, wrote |-> FALSE, before |-> {}, code |-> 0]

Init == /\ produced = {}
        /\ disk = [o \in Ops |-> [d \in Dirs |-> {}]]
        /\ cmd = [c \in Cmds |-> IdleCmd]

Fin(r, ok) == [r EXCEPT !.pc = "fin", !.ok = ok]
Busy(o) == \E d \in Cmds : cmd[d].op = o /\ cmd[d].pc \notin {"idle", "done"}

\* the command line: kind ("sign" | "fetch"), vals, ws, amts, dir
Begin(o, a) ==
  LET b == [IdleCmd EXCEPT !.op = o, !.kind = a.kind, !.vals = a.vals, !.ws = a.ws, !.amts = a.amts, !.dir = a.dir] IN
  IF a.kind = "sign" THEN (IF SignRefused(a) THEN Fin(b, FALSE) ELSE [b EXCEPT !.pc = "post"])
  ELSE IF a.vals[1] \in Vals THEN [b EXCEPT !.pc = "get", !.k = 1, !.before = disk[o][a.dir]]
  ELSE Fin([b EXCEPT !.before = disk[o][a.dir]], FALSE)                           \* validator public key not found in cluster lock

Start(c, o, a) == /\ cmd[c].pc = "idle" /\ o \in Ops /\ ~Busy(o)
                  /\ a.vals # <<>> /\ (a.kind = "fetch" => a.dir \in Dirs)
                  /\ cmd' = [cmd EXCEPT ![c] = Begin(o, a)]
                  /\ UNCHANGED <<produced, disk>>

Finish(c) == /\ cmd[c].pc = "fin"
             /\ cmd' = [cmd EXCEPT ![c].pc = "done"]
             /\ UNCHANGED <<produced, disk>>

Blobs(c) == SignBlobs(cmd[c].op, cmd[c])
\* the one request of `deposit sign`; the API answers with `code`
Post(c, code) == /\ cmd[c].pc = "post"
                 /\ produced' = produced \cup {BlobTok(Blobs(c)[j]) : j \in DOMAIN Blobs(c)}
                 /\ cmd' = [cmd EXCEPT ![c] = Fin([@ EXCEPT !.code = code], PostOK(code))]
                 /\ UNCHANGED disk

\* a request of `deposit fetch` for validator vals[k]; the API answers with `code` and (2xx) the response R
Get(c, code, R) ==
  /\ cmd[c].pc = "get"
  /\ LET r == cmd[c]
         v == r.vals[r.k]
         good == code \in 200..299 /\ AggOK(v, R)
         x == [r EXCEPT !.got = @ \o Deposits(v, R)]
         last == r.k = Len(r.vals)
         early == Defect = "writeEarly" /\ good IN
     /\ cmd' = [cmd EXCEPT ![c] =
          IF ~good THEN Fin(r, FALSE)
          ELSE IF last THEN Fin([x EXCEPT !.wrote = x.got # <<>>], TRUE)
          ELSE IF r.vals[r.k + 1] \in Vals THEN [x EXCEPT !.k = r.k + 1, !.wrote = early /\ x.got # <<>>]
          ELSE Fin([x EXCEPT !.wrote = early /\ x.got # <<>>], FALSE)]
     /\ disk' = IF good /\ (last \/ early) THEN [disk EXCEPT ![r.op][r.dir] = NewDir(@, x.got)] ELSE disk
  /\ UNCHANGED produced

\* a Byzantine operator makes partial signatures with its own key shares (over anything) and posts them
Byz(blobs) == /\ produced' = produced \cup {BlobTok(blobs[j]) : j \in {h \in DOMAIN blobs : blobs[h].sv \in Vals /\ blobs[h].k \in Ops}}
              /\ UNCHANGED <<disk, cmd>>

---------------------------------------------------------------------------------------------------
(* Contract *)
TypeOK == \A c \in Cmds : cmd[c].pc \in {"idle", "post", "get", "fin", "done"}

\* "a full deposit comes out of `deposit fetch` only if at least THRESHOLD distinct operators signed THAT SAME deposit
\* message with their own share for that validator": wherever a deposit shows up it verifies under the group key of the
\* lock validator it is for, threshold many of that validator's shares signed exactly its message, and it sits in the
\* file of its amount
Backed(e) == Cardinality({k \in Ops : Tok(e.v, k, e.v, e.w, e.a) \in produced}) >= T
Sound(e) == e.v \in Vals /\ e.by = e.v /\ Backed(e)
FetchSound == /\ \A o \in Ops : \A d \in Dirs : \A f \in disk[o][d] : \A j \in DOMAIN f.es : Sound(f.es[j]) /\ f.es[j].a = f.a
              /\ \A c \in Cmds : \A j \in DOMAIN cmd[c].got : Sound(cmd[c].got[j])
\* an operator's command only ever signs, with its own share, for validators of the lock, amounts in the allowed range
SignedInRange == \A c \in Cmds : cmd[c].pc = "post" =>
                   \A j \in DOMAIN Blobs(c) : LET b == Blobs(c)[j] IN InRange(b.a) /\ b.v \in Vals /\ b.sv = b.v /\ b.k = cmd[c].op /\ b.w \in WCreds
\* the credentials signed carry the prefix of the lock's compounding flag (0x01 / 0x02)  -- NOT as coded (D1)
CredsMatchLock == \A c \in Cmds : cmd[c].pc = "post" => \A j \in DOMAIN Blobs(c) : Prefix(Blobs(c)[j].w) = WantPrefix
\* a failed fetch writes nothing; a successful one has replaced exactly the files of the amounts it fetched, each with
\* exactly the deposits it fetched (an existing file is never mixed with new entries), other files are untouched
FetchAtomic == \A c \in Cmds : LET r == cmd[c] IN (r.kind = "fetch" /\ r.pc = "fin") =>
                 /\ ~r.ok => (~r.wrote /\ disk[r.op][r.dir] = r.before)
                 /\ r.ok => disk[r.op][r.dir] = Expected(r.before, r.got)
\* a sign command reports success only when the API took the request (2xx) or said it already had it (409)
SignReport == \A c \in Cmds : LET r == cmd[c] IN (r.kind = "sign" /\ r.pc \in {"fin", "done"}) =>
                (r.ok <=> (r.code \in 200..299 \/ r.code = 409))
Safety == TypeOK /\ FetchSound /\ SignedInRange /\ FetchAtomic /\ SignReport

\* the promise of GetFullDeposit: >= threshold verifying partial signatures of distinct shares per amount (and nothing
\* else) give the full deposits, whatever the order and the spelling of the public shares; anything else is refused
AggRobust(v, R) == AggOK(v, R) <=> GoodResp(v, R)
====
