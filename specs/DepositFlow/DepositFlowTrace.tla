---- MODULE DepositFlowTrace ----
(* Trace validation for the deposit flow.  harness/depositflow runs the real CLI commands one at a time against a
   scripted API; the log is the linearisation.  Events (all in the abstract terms of DepositFlow.tla, computed by
   observation functions that do not use the code under test):

     Reset {sid, n, t, nv, comp}                         cluster shape
     Start {c, op, kind, vals, ws, amts, dir}            an operator's command line
     Post  {op, lock, share, code, blobs: [{v, w, a, sv, k, id}]}
                                                         a partial-deposit request at the API (op = 0: the Byzantine operator's);
                                                         id names the signature's bytes
     Get   {op, lock, v, code, resp}                     a full-deposit request and what the API answered
     Fn    {f: "newmsg" | "verify" | "dedup" | "max" | "readback", arguments, result}
                                                         a call of a function of eth2util/deposit / a directory read back
     Done  {c, ok, panic, lockSame, files: [{fa, wellformed, entries: [{v, w, a, by, roots, fork}]}]}
                                                         the command returned; its output directory afterwards
     End

   Start, the codes, the responses and the Byzantine posts are the environment's; everything else is bound to the design
   spec: the request must be the one the command has to make in the state the spec is in, the result and the files must
   be the spec's.  There is no unlogged choice: validation is linear. *)
EXTENDS DepositFlow, TraceCommon
CONSTANTS AllowPanic      \* as coded: a validator public key that is too short makes `deposit sign` panic
VARIABLES ids             \* <<token, id>>: the bytes of the partial signatures seen
tvars == <<vars, ids, tr, l>>
TraceInit == TrInit /\ Init /\ ids = {}

Named(name, p) == IF p THEN TRUE ELSE InvFail(name)
Running(o) == {c \in Cmds : cmd[c].op = o /\ cmd[c].pc \notin {"idle", "done", "fin"}}
TheCmd(o) == CHOOSE c \in Running(o) : TRUE

ArgOf(e) == [kind |-> e.kind, vals |-> e.vals, ws |-> e.ws, amts |-> e.amts, dir |-> e.dir]
BlobOf(b) == [v |-> b.v, w |-> b.w, a |-> b.a, sv |-> b.sv, k |-> b.k]
TokOf(t) == Tok(t.sv, t.k, t.v, t.w, t.a)
PartOf(p) == [pk |-> <<p.pk[1], p.pk[2]>>, tok |-> TokOf(p.tok)]
RespOf(r) == [garbage |-> r.garbage, w |-> r.w,
              amounts |-> [j \in DOMAIN r.amounts |-> [a |-> r.amounts[j].a, parts |-> [i \in DOMAIN r.amounts[j].parts |-> PartOf(r.amounts[j].parts[i])]]]]
RespToks(R) == UNION {{R.amounts[j].parts[i].tok : i \in DOMAIN R.amounts[j].parts} : j \in DOMAIN R.amounts}

TReset == IsEvent("Reset") /\ l = 1 /\ UNCHANGED <<vars, ids>>
TStart == IsEvent("Start") /\ Ev.c \in Cmds /\ Start(Ev.c, Ev.op, ArgOf(Ev)) /\ UNCHANGED ids

\* the same share over the same message gives the same bytes (re-running `deposit sign` posts the very same partials),
\* different tokens are different bytes
Pairs(e) == {<<TokOf(e.blobs[j]), e.blobs[j].id>> : j \in {h \in DOMAIN e.blobs : e.blobs[h].k >= 1}}
IdsOK(P) == \A p \in P : \A q \in ids \cup P : (p[1] = q[1]) <=> (p[2] = q[2])

TPostCmd == /\ IsEvent("Post") /\ Ev.op # 0
            /\ Named("UnexpectedRequest", Running(Ev.op) # {})
            /\ LET c == TheCmd(Ev.op) IN
               /\ Named("UnexpectedPost", cmd[c].pc = "post")
               /\ Named("ReqLock", Ev.lock)
               /\ Named("ReqShareIndex", Ev.share = Ev.op)
               /\ Named("ReqBlobs", [j \in DOMAIN Ev.blobs |-> BlobOf(Ev.blobs[j])] = Blobs(c))
               /\ Named("SignatureBytes", IdsOK(Pairs(Ev)))
               /\ Post(c, Ev.code)
            /\ ids' = ids \cup Pairs(Ev)
TPostByz == /\ IsEvent("Post") /\ Ev.op = 0
            /\ Named("SignatureBytes", IdsOK(Pairs(Ev)))
            /\ Byz([j \in DOMAIN Ev.blobs |-> BlobOf(Ev.blobs[j])])
            /\ ids' = ids \cup Pairs(Ev)

TGet == /\ IsEvent("Get")
        /\ Named("UnexpectedRequest", Running(Ev.op) # {})
        /\ LET c == TheCmd(Ev.op)
               R == IF Has(Ev, "resp") THEN RespOf(Ev.resp) ELSE NoResp IN
           /\ Named("UnexpectedGet", cmd[c].pc = "get")
           /\ Named("ReqLock", Ev.lock)
           /\ Named("ReqValidator", Ev.v = cmd[c].vals[cmd[c].k])
           /\ Named("EnvResponseFromPool", \A t \in RespToks(R) : t.k >= 1 => t \in produced)
           /\ Get(c, Ev.code, R)
        /\ UNCHANGED ids

Count(s, x) == Cardinality({j \in DOMAIN s : s[j] = x})
BagEq(s, t) == Len(s) = Len(t) /\ \A x \in SeqToSet(s) \cup SeqToSet(t) : Count(s, x) = Count(t, x)
EntryOf(e) == [v |-> e.v, w |-> e.w, a |-> e.a, by |-> e.by]
FilesMatch(files, dir) ==
  /\ Len(files) = Cardinality(dir)
  /\ \A j \in DOMAIN files : \E f \in dir : f.a = files[j].fa /\ BagEq([i \in DOMAIN files[j].entries |-> EntryOf(files[j].entries[i])], f.es)
\* GetDepositFilePath: deposit-data-<amount>eth.json, the 32 ETH file keeps the old name
FileName(a) == IF a = 32 THEN "deposit-data.json" ELSE "deposit-data-" \o ToString(a) \o "eth.json"
FilesSane(files) == \A j \in DOMAIN files : files[j].wellformed /\ files[j].name = FileName(files[j].fa) /\ \A i \in DOMAIN files[j].entries : files[j].entries[i].roots /\ files[j].entries[i].fork
MayPanic(r) == AllowPanic /\ r.kind = "sign" /\ \E i \in DOMAIN r.vals : r.vals[i] = -1
TDone == /\ IsEvent("Done") /\ Ev.c \in Cmds
         /\ LET r == cmd[Ev.c] IN
            /\ Named("EarlyReturn", r.pc = "fin")
            /\ Named("Panic", Ev.panic => MayPanic(r))
            /\ Named("Result", Ev.ok = r.ok)
            /\ Named("LockFileTouched", Ev.lockSame)
            /\ Named("Files", IF r.kind = "fetch" THEN FilesMatch(Ev.files, disk[r.op][r.dir]) ELSE Len(Ev.files) = 0)
            /\ Named("FileContents", FilesSane(Ev.files))
         /\ Finish(Ev.c) /\ UNCHANGED ids
\* a call of one of the functions of eth2util/deposit; a written directory read back with ReadDepositDataFiles
P(x) == <<x[1], x[2]>>
Ps(s) == [j \in DOMAIN s |-> P(s[j])]
ReadEntries(f) == [i \in DOMAIN f.entries |-> EntryOf(f.entries[i])]
TFn == /\ IsEvent("Fn") /\ UNCHANGED <<vars, ids>>
       /\ CASE Ev.f = "newmsg" -> /\ Named("NewMessage", Ev.ok = NewMessageOK(Ev.addr \in {"A", "B"}, P(Ev.gwei), Ev.comp))
                                   /\ Named("NewMessageCreds", Ev.ok => (Ev.creds = CredsOfAddr(Ev.addr, Ev.comp) /\ Ev.outgwei = Ev.gwei /\ Ev.outv = Ev.v))
            [] Ev.f = "verify" -> Named("VerifyDepositAmounts", Ev.ok = VerifyAmountsOK(Ps(Ev.amts), Ev.comp))
            [] Ev.f = "dedup" -> Named("DedupAmounts", Ps(Ev.out) = Dedup(Ps(Ev.amts)) /\ Ev.inputKept)
            [] Ev.f = "max" -> Named("MaxDepositAmount", P(Ev.out) = <<MaxEth(Ev.comp), 0>>)
            [] Ev.f = "readback" -> LET dir == disk[Ev.op][Ev.dir] IN
                                    /\ Named("ReadBackResult", dir # {} => Ev.ok)
                                    /\ Named("ReadBack", /\ Len(Ev.files) = Cardinality(dir)
                                                          /\ \A j \in DOMAIN Ev.files : \E f \in dir : f.a = Ev.files[j].a /\ BagEq(ReadEntries(Ev.files[j]), f.es))
            [] OTHER -> FALSE
TEnd == /\ IsEvent("End") /\ UNCHANGED <<vars, ids>>
        /\ Named("AllReturned", \A c \in Cmds : cmd[c].pc \in {"idle", "done"})

TraceNext == TReset \/ TStart \/ TPostCmd \/ TPostByz \/ TGet \/ TDone \/ TFn \/ TEnd
TraceSpec == TraceInit /\ [][TraceNext]_tvars
Mark == /\ CheckInv("TypeOK", TypeOK) /\ CheckInv("FetchSound", FetchSound) /\ CheckInv("SignedInRange", SignedInRange)
        /\ CheckInv("FetchAtomic", FetchAtomic) /\ CheckInv("SignReport", SignReport)
        /\ CheckInv("CredsMatchLock", CredsVerbatim \/ CredsMatchLock)
        /\ HWMark
====
