SPECIFICATION MCSpec
CONSTANTS
 N = 3
 T = 2
 NV = 2
 Comp = FALSE
 Cmds = {1, 2, 3}
 CredsVerbatim = TRUE
 Defect = "none"
 Honest = {1, 2}
 Args <- ArgsMulti
 ByzBlobs <- ByzNone
 MaxByz = 0
 PostCodes <- COk
 MaxFault = 0
 Tampers <- TSome
 MaxTamper = 1
 Policy = "free"
 Sequential = FALSE
INVARIANTS Safety Robust
CHECK_DEADLOCK FALSE
