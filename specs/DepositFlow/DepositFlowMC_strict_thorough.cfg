SPECIFICATION MCSpec
CONSTANTS
 N = 3
 T = 2
 NV = 1
 Comp = FALSE
 Cmds = {1, 2, 3}
 CredsVerbatim = FALSE
 Defect = "none"
 Honest = {1, 2}
 Args <- ArgsRefuse
 ByzBlobs <- Byz3
 MaxByz = 1
 PostCodes <- CAll
 MaxFault = 1
 Tampers <- TNone
 MaxTamper = 0
 Policy = "free"
 Sequential = FALSE
INVARIANTS Safety Robust CredsMatchLock
CHECK_DEADLOCK FALSE
