---- MODULE ConsensusCtl ----
(* core/consensus: the consensus controller (controller.go), the consensusWrapper behind CurrentConsensus (wrapper.go),
   the per-duty instance IO and the start protocol core/consensus/qbft builds on it (instance/instance_io.go, the first
   lines of Participate / propose / runInstance / handle / deleteInstanceIO of qbft/qbft.go), the debugger's byte-bounded
   fifo (debugger.go) and the protocol-id helpers (protocols/protocols.go) together with the way app/app.go turns a
   priority result into SetCurrentConsensusForProtocol.  Four parts with disjoint variables:

   CTL  threads call the wrapper / the controller.  One action per critical section of the RWMutex of the wrapper:
          reader ops (wrapper.Participate / Propose hold the READ lock for the whole call of the implementation)
            called -Enter-> in -Exit(res)-> out -Ret-> done            Exit is the ENVIRONMENT's (the implementation returns)
          sub / pid / wstart: one critical section (DoSub / ReadPID / DoWStart), then Ret
          setimpl (wrapper.SetImpl, what a protocol switch calls): called -WApply-> out -Ret-> done; WApply needs the
            WRITE lock: no reader is `in`
          set (controller.SetCurrentConsensusForProtocol(id)):
            called -SRead-> (id = protocol of the current impl: out/ok) | s2 -SReadD-> (id = default's: s3 | Template: x1 |
            out/err) ; s3 -SApply (SetImpl(default))-> out/ok
          Template = TRUE additionally models the switch to a non-default protocol as SKETCHED in the TODO comment of
            controller.go (x1: lock f.mutable, cancel the previous wrapped context, remember the new cancel; x2: SetImpl(new);
            x3: new.Start(cctx)) -- design level only, the tree has no second protocol.
          controller.Start: CtlStart (default.Start(ctx)); AppCancel (ENVIRONMENT) ; CtlStop: the goroutine of Start calls
            mutable.cancelWrappedCtx if there is one.
        Only mutual exclusion is taken from sync.RWMutex (a pending writer MAY or MAY NOT hold back new readers: Go does,
        the contract of the wrapper does not say).
        Subscribers: isubs[i] is what implementation i holds (qbft: c.subs); Decide(i, d) calls them in order.
        WrapperSubs = "forward": wrapper.Subscribe hands the callback to the CURRENT implementation only (as coded);
        "replay": the wrapper remembers its subscribers and hands each to every implementation once (the repair).

   IO   the start protocol of one qbft component, per call c (Participate or Propose of a duty):
          start -QStart-> ret | wait | r_log      getInstanceIO; MarkParticipated / MarkProposed; (Propose: value into
                                                   ValueCh, HashCh); MaybeStart -- these touch only the IO the call got, so
                                                   one atomic step is observationally equivalent
          r_log -RunLog-> r_look                  runInstance is entered (log.WithTopic: the first use of the context)
          r_look -RLook-> r_add                   inst := c.getInstanceIO(duty)  -- Relookup = TRUE: a SECOND lookup (as
                                                   coded: a fresh IO if the first one was deleted meanwhile)
          r_add -DlAdd(st)-> r_buf | r_err        deadliner.Add: expired/exempt duty is skipped (nil)
          r_buf -RBuf-> r_run                     getRecvBuffer(duty): a third lookup (repaired: the caller's IO)
          r_run -Forward / TakeValue-> r_run ; -RunCancel-> r_sniff ; -Decided-> r_dec     qbft.Run (Solo: a cluster of one)
          r_dec -Deliver(s)-> ... -> r_sniff      Decide: subscribers in order
          r_sniff -Sniff-> r_err -RErr-> ret      snifferFunc(instance); inst.ErrCh <- err (capacity 1: blocks when full)
          wait -Wake-> ret                        Propose that lost MaybeStart: <-inst.ErrCh (NO ctx alternative)
          ret -QRet-> done
        Msg: handle (deadliner.Add, getRecvBuffer <- msg); Deadline(d) + DeleteIO(d): the deadliner emits the duty, the loop
        of Start deletes the IO; Cancel(c): the call's context.  `gate`: points where the harness holds a goroutine.

   DBG  debugger: AddInstance / ServeHTTP are one critical section each (DApply / DSnap).

   PROTO pure operators.

   Contract (doc comments of core.Consensus / core.ConsensusController / IO / debugger, needs of core.Wire) = the
   invariants of the section "Contract".  Defect switches seed plausible defects for the control configurations. *)
EXTENDS Integers, Sequences, FiniteSets, TLC

CONSTANTS Threads,      \* CTL: thread identifiers
          Impls,        \* CTL: implementations that exist ("D" the default; "X", "X2" speak protocol x, "Y" protocol y)
          WrapperSubs,  \* "forward" (as coded) | "replay" (repaired wrapper)
          Template,     \* TRUE: model the sketched switch to a non-default protocol (design level)
          TemplateFix,  \* TRUE: switching back to the default also cancels the wrapped context (repair of the sketch)
          QCalls,       \* IO: call identifiers
          Duties, NoPart,   \* duties; those of type aggregator / sync contribution (Participate is a no-op)
          Solo,         \* IO: the cluster has one node (an instance decides as soon as it has a value)
          Relookup,     \* IO: TRUE as coded (runInstance looks the IO up again), FALSE repaired (uses the caller's IO)
          BufCap,       \* IO: RecvBufferSize
          DThreads,     \* DBG: thread identifiers
          MaxBytes,     \* DBG: maxDebuggerBuffer
          Defect        \* "none" | name of a seeded defect

Last(q) == q[Len(q)]
ToSet(q) == {q[i] : i \in DOMAIN q}
NoDup(q) == \A i, j \in DOMAIN q : q[i] = q[j] => i = j
RECURSIVE SumSz(_)
SumSz(q) == IF q = <<>> THEN 0 ELSE q[1].sz + SumSz(Tail(q))
Suffix(q, n) == SubSeq(q, Len(q) - n + 1, Len(q))       \* the last n elements

---------------------------------------------------------------------------------------------------
(* PROTO: a protocol id is [k, n, v]: k = "cons": the string "/charon/consensus/" \o n \o "/" \o v (n without "/");
   k = "other": any string n that does not start with "/charon/consensus/". *)
Cons(n, v) == [k |-> "cons", n |-> n, v |-> v]
Other(s) == [k |-> "other", n |-> s, v |-> ""]
QBFT == Cons("qbft", "2.0.0")
NoPid == Other("-")
Protocols == <<QBFT>>                                        \* protocols.Protocols()
FirstCons(l) == LET I == {i \in DOMAIN l : l[i].k = "cons"} IN IF I = {} THEN 0 ELSE CHOOSE i \in I : \A j \in I : i <= j
MostPreferred(l) == IF FirstCons(l) = 0 THEN QBFT ELSE l[FirstCons(l)]      \* MostPreferredConsensusProtocol
\* strings.ToLower on the names the generators use (TLC has no string functions)
Lower(s) == CASE s \in {"qbft", "QBFT", "Qbft", "qBFT"} -> "qbft" [] s \in {"abft", "ABFT"} -> "abft" [] OTHER -> s
SupportedName(s) == \E i \in DOMAIN Protocols : Protocols[i].n = Lower(s)       \* IsSupportedProtocolName
\* PrioritizeProtocolsByName: HasPrefix(id, "/charon/consensus/" \o name \o "/"); Defect "foldName": compared case-blind
Bumped(name, p) == p.k = "cons" /\ (IF Defect = "foldName" THEN Lower(p.n) = Lower(name) ELSE p.n = name)
SelectIdx(l, Test(_)) == LET I == {i \in DOMAIN l : Test(l[i])} IN
  [k \in 1..Cardinality(I) |-> CHOOSE i \in I : Cardinality({j \in I : j < i}) = k - 1]
\* the permutation (as indices into l) PrioritizeProtocolsByName returns
PrioritizeIdx(name, l) == LET B(p) == Bumped(name, p) NB(p) == ~Bumped(name, p) IN SelectIdx(l, B) \o SelectIdx(l, NB)
Prioritize(name, l) == [k \in DOMAIN l |-> l[PrioritizeIdx(name, l)[k]]]

---------------------------------------------------------------------------------------------------
(* CTL *)
Default == "D"
ProtoOf(i) == CASE i = "D" -> QBFT [] i \in {"X", "X2"} -> Cons("x", "1.0.0") [] OTHER -> Cons("y", "1.0.0")
Supported == {ProtoOf(Default)}           \* what SetCurrentConsensusForProtocol can switch to in this tree

VARIABLES cur,        \* w.impl
          th,         \* per thread, see IdleT
          isubs,      \* per implementation: the subscribers it was handed, in order
          wsubs,      \* the subscribers registered through the wrapper, in order
          fed,        \* repaired wrapper: per implementation, how many of wsubs it was handed
          started,    \* Start calls received by implementations: sequence of [i, ctx]
          app,        \* controller.Start: "idle" | "started" | "cancelled" (its context ended) | "stopped" (goroutine done)
          cancelK,    \* mutable.cancelWrappedCtx: "-" or the token of a wrapped context
          cancelled,  \* token -> number of times its cancel function was called by the controller
          dlv,        \* history of Decide: sequence of [i, d, got, cur, want]
          used        \* Template: implementations the controller has created so far
cvars == <<cur, th, isubs, wsubs, fed, started, app, cancelK, cancelled, dlv, used>>

IdleT == [pc |-> "idle", op |-> "-", impl |-> "-", pid |-> NoPid, sub |-> "-", d |-> 0, v |-> 0, ctx |-> "-",
          at |-> "-", seen |-> NoPid, res |-> "-", wrote |-> FALSE]
CtlInit == /\ cur = Default /\ th = [t \in Threads |-> IdleT] /\ isubs = [i \in Impls |-> <<>>] /\ wsubs = <<>>
           /\ fed = [i \in Impls |-> 0] /\ started = <<>> /\ app = "idle" /\ cancelK = "-"
           /\ cancelled = [x \in {} |-> 0] /\ dlv = <<>> /\ used = {Default}
UpdT(t, r) == th' = [th EXCEPT ![t] = r]
InFlight == {t \in Threads : th[t].pc = "in"}
ReaderOps == {"part", "prop"}
CancelCount(k) == IF k \in DOMAIN cancelled THEN cancelled[k] ELSE 0
BumpCancel(k) == [x \in DOMAIN cancelled \cup {k} |-> IF x = k THEN CancelCount(k) + 1 ELSE cancelled[x]]

\* ENVIRONMENT: thread t calls an operation (r: the fields of IdleT that describe it)
Call(t, r) == /\ th[t].pc = "idle" /\ UpdT(t, [r EXCEPT !.pc = "called"])
              /\ UNCHANGED <<cur, isubs, wsubs, fed, started, app, cancelK, cancelled, dlv, used>>
\* wrapper.Participate / Propose: RLock, w.impl.X(...) entered
Enter(t) == /\ th[t].pc = "called" /\ th[t].op \in ReaderOps
            /\ UpdT(t, [th[t] EXCEPT !.pc = "in", !.at = IF Defect = "staleImpl" THEN Default ELSE cur])
            /\ UNCHANGED <<cur, isubs, wsubs, fed, started, app, cancelK, cancelled, dlv, used>>
\* ENVIRONMENT: the implementation returns res; RUnlock
Exit(t, res) == /\ th[t].pc = "in" /\ UpdT(t, [th[t] EXCEPT !.pc = "out", !.res = res])
                /\ UNCHANGED <<cur, isubs, wsubs, fed, started, app, cancelK, cancelled, dlv, used>>
Ret(t) == /\ th[t].pc = "out" /\ UpdT(t, [th[t] EXCEPT !.pc = "done"])
          /\ UNCHANGED <<cur, isubs, wsubs, fed, started, app, cancelK, cancelled, dlv, used>>
\* wrapper.Subscribe
DoSub(t) == /\ th[t].pc = "called" /\ th[t].op = "sub"
            /\ UpdT(t, [th[t] EXCEPT !.pc = "out", !.at = cur])
            /\ isubs' = [isubs EXCEPT ![cur] = Append(@, th[t].sub)]
            /\ wsubs' = Append(wsubs, th[t].sub)
            /\ fed' = IF WrapperSubs = "replay" THEN [fed EXCEPT ![cur] = @ + 1] ELSE fed
            /\ UNCHANGED <<cur, started, app, cancelK, cancelled, dlv, used>>
\* wrapper.ProtocolID
ReadPID(t) == /\ th[t].pc = "called" /\ th[t].op = "pid"
              /\ UpdT(t, [th[t] EXCEPT !.pc = "out", !.at = cur, !.seen = ProtoOf(cur)])
              /\ UNCHANGED <<cur, isubs, wsubs, fed, started, app, cancelK, cancelled, dlv, used>>
\* wrapper.Start(ctx)
DoWStart(t) == /\ th[t].pc = "called" /\ th[t].op = "wstart"
               /\ UpdT(t, [th[t] EXCEPT !.pc = "out", !.at = cur])
               /\ started' = Append(started, [i |-> cur, ctx |-> th[t].ctx])
               /\ UNCHANGED <<cur, isubs, wsubs, fed, app, cancelK, cancelled, dlv, used>>
\* the write critical section of SetImpl(i): the repaired wrapper hands i the subscribers it has not seen yet
Feed(i) == IF WrapperSubs = "replay"
             THEN /\ isubs' = [isubs EXCEPT ![i] = @ \o SubSeq(wsubs, fed[i] + 1, Len(wsubs))]
                  /\ fed' = [fed EXCEPT ![i] = Len(wsubs)]
             ELSE UNCHANGED <<isubs, fed>>
WLockFree == InFlight = {} \/ Defect = "noLock"
WApply(t) == /\ th[t].pc = "called" /\ th[t].op = "setimpl" /\ WLockFree
             /\ cur' = th[t].impl /\ Feed(th[t].impl)
             /\ UpdT(t, [th[t] EXCEPT !.pc = "out", !.wrote = TRUE])
             /\ UNCHANGED <<wsubs, started, app, cancelK, cancelled, dlv, used>>
\* SetCurrentConsensusForProtocol: f.wrappedConsensus.ProtocolID() == protocol ?
SRead(t) == /\ th[t].pc = "called" /\ th[t].op = "set"
            /\ UpdT(t, [th[t] EXCEPT !.seen = ProtoOf(cur), !.at = cur,
                                     !.pc = IF ProtoOf(cur) = th[t].pid /\ Defect # "noEqualCheck" THEN "out" ELSE "s2",
                                     !.res = IF ProtoOf(cur) = th[t].pid /\ Defect # "noEqualCheck" THEN "ok" ELSE "-"])
            /\ UNCHANGED <<cur, isubs, wsubs, fed, started, app, cancelK, cancelled, dlv, used>>
\* the implementation the sketched switch would create for a protocol id
NewImplFor(p) == LET C == {i \in Impls \ used : ProtoOf(i) = p} IN IF C = {} THEN "-" ELSE CHOOSE i \in C : TRUE
\* protocol == f.defaultConsensus.ProtocolID() ?
SReadD(t) == /\ th[t].pc = "s2"
             /\ UpdT(t, [th[t] EXCEPT
                   !.pc = IF th[t].pid = ProtoOf(Default) THEN "s3"
                          ELSE IF Template /\ NewImplFor(th[t].pid) # "-" THEN "x1"
                          ELSE IF Defect = "unknownOk" THEN "s3" ELSE "out",
                   !.res = IF th[t].pid = ProtoOf(Default) \/ (Template /\ NewImplFor(th[t].pid) # "-") \/ Defect = "unknownOk"
                             THEN "-" ELSE "err"])
             /\ UNCHANGED <<cur, isubs, wsubs, fed, started, app, cancelK, cancelled, dlv, used>>
\* f.wrappedConsensus.SetImpl(f.defaultConsensus); the sketch leaves the wrapped context alone (TemplateFix: cancels it)
SApply(t) == /\ th[t].pc = "s3" /\ WLockFree
             /\ cur' = Default /\ Feed(Default)
             /\ UpdT(t, [th[t] EXCEPT !.pc = "out", !.res = "ok", !.wrote = TRUE])
             /\ IF (TemplateFix \/ Defect = "cancelTwice") /\ cancelK # "-"
                  THEN cancelled' = BumpCancel(cancelK) /\ cancelK' = IF Defect = "cancelTwice" THEN cancelK ELSE "-"
                  ELSE UNCHANGED <<cancelled, cancelK>>
             /\ UNCHANGED <<wsubs, started, app, dlv, used>>
\* the sketched switch: under f.mutable -- cancel the previous wrapped context, remember the new one ...
XCancel(t) == /\ th[t].pc = "x1" /\ \A u \in Threads : th[u].pc \notin {"x2", "x3"}
              /\ LET i == NewImplFor(th[t].pid) IN
                   /\ UpdT(t, [th[t] EXCEPT !.pc = "x2", !.impl = i])
                   /\ used' = used \cup {i}
                   /\ cancelled' = IF cancelK # "-" THEN BumpCancel(cancelK) ELSE cancelled
                   /\ cancelK' = i
              /\ UNCHANGED <<cur, isubs, wsubs, fed, started, app, dlv>>
\* ... f.wrappedConsensus.SetImpl(new) ...
XApply(t) == /\ th[t].pc = "x2" /\ WLockFree
             /\ cur' = th[t].impl /\ Feed(th[t].impl)
             /\ UpdT(t, [th[t] EXCEPT !.pc = "x3", !.wrote = TRUE])
             /\ UNCHANGED <<wsubs, started, app, cancelK, cancelled, dlv, used>>
\* ... new.Start(cctx)
XStart(t) == /\ th[t].pc = "x3"
             /\ started' = Append(started, [i |-> th[t].impl, ctx |-> th[t].impl])
             /\ UpdT(t, [th[t] EXCEPT !.pc = "out", !.res = "ok"])
             /\ UNCHANGED <<cur, isubs, wsubs, fed, app, cancelK, cancelled, dlv, used>>

\* controller.Start(ctx): f.defaultConsensus.Start(ctx), the shutdown goroutine
CtlStart == /\ app = "idle" /\ app' = "started"
            /\ started' = Append(started, [i |-> Default, ctx |-> "app"])
            /\ UNCHANGED <<cur, th, isubs, wsubs, fed, cancelK, cancelled, dlv, used>>
AppCancel == /\ app = "started" /\ app' = "cancelled"       \* ENVIRONMENT
             /\ UNCHANGED <<cur, th, isubs, wsubs, fed, started, cancelK, cancelled, dlv, used>>
CtlStop == /\ app = "cancelled" /\ app' = "stopped"
           /\ cancelled' = IF cancelK # "-" THEN BumpCancel(cancelK)
                           ELSE IF Defect = "cancelDefault" THEN BumpCancel("app") ELSE cancelled
           /\ UNCHANGED <<cur, th, isubs, wsubs, fed, started, cancelK, dlv, used>>
\* HOOK (state injection, stands for what a protocol switch leaves behind): mutable.cancelWrappedCtx = cancel of token k
SetCancel(k) == /\ app # "stopped" /\ cancelK' = k
                /\ UNCHANGED <<cur, th, isubs, wsubs, fed, started, app, cancelled, dlv, used>>
\* ENVIRONMENT: implementation i reaches consensus on duty d and calls its subscribers
Got(i) == IF Defect = "deliverTwice" THEN isubs[i] \o isubs[i] ELSE isubs[i]
Decide(i, d) == /\ dlv' = Append(dlv, [i |-> i, d |-> d, got |-> Got(i), cur |-> cur, want |-> wsubs])
                /\ UNCHANGED <<cur, th, isubs, wsubs, fed, started, app, cancelK, cancelled, used>>

CtlInternal(t) == \/ Enter(t) \/ Ret(t) \/ DoSub(t) \/ ReadPID(t) \/ DoWStart(t) \/ WApply(t) \/ SRead(t) \/ SReadD(t)
                  \/ SApply(t) \/ XCancel(t) \/ XApply(t) \/ XStart(t)

---------------------------------------------------------------------------------------------------
(* IO *)
VARIABLES imap,     \* Consensus.mutable.instances: duty -> index into ios (0: none)
          ios,      \* every IO ever created: [d, part, prop, running, hash, err, buf, rres]
          qc,       \* per call, see IdleQ
          dl,       \* the deadliner: duty -> "none" | "sched" | "expired"
          delq,     \* duties emitted by the deadliner, not yet handled by the loop of Start
          qsubs,    \* subscribers (registered before Start)
          qdlv,     \* history: deliveries [s, d, v, c]
          eff,      \* history: runs that passed deadliner.Add, <<c, d>>
          gate      \* closed gates of the harness, subset of {"log", "add", "dlv", "sniff"}
qvars == <<imap, ios, qc, dl, delq, qsubs, qdlv, eff, gate>>

IdleQ == [pc |-> "idle", kind |-> "-", d |-> 0, v |-> 0, io |-> 0, rio |-> 0, bio |-> 0, ctx |-> "live", res |-> "-",
          hasval |-> 0, k |-> 0, fw |-> 0]
NewIO(d) == [d |-> d, part |-> FALSE, prop |-> FALSE, running |-> FALSE, hash |-> 0, err |-> "-", buf |-> 0, rres |-> "-"]
IoInit(subs) == /\ imap = [d \in Duties |-> 0] /\ ios = <<>> /\ qc = [c \in QCalls |-> IdleQ] /\ dl = [d \in Duties |-> "none"]
                /\ delq = {} /\ qsubs = subs /\ qdlv = <<>> /\ eff = {} /\ gate = {}
UpdQ(c, r) == qc' = [qc EXCEPT ![c] = r]
\* getInstanceIO / getRecvBuffer: the index of the duty's IO and the IO table after the lookup
Look(d) == IF imap[d] # 0 THEN imap[d] ELSE Len(ios) + 1
IosAfterLook(d) == IF imap[d] # 0 THEN ios ELSE Append(ios, NewIO(d))
ImapAfterLook(d) == IF imap[d] # 0 THEN imap ELSE [imap EXCEPT ![d] = Len(ios) + 1]

\* ENVIRONMENT: Participate(ctx, d) / Propose(ctx, d, v) is called
QCall(c, kind, d, v) == /\ qc[c].pc = "idle" /\ UpdQ(c, [IdleQ EXCEPT !.pc = "start", !.kind = kind, !.d = d, !.v = v])
                        /\ UNCHANGED <<imap, ios, dl, delq, qsubs, qdlv, eff, gate>>
\* everything up to and including MaybeStart
QStart(c) ==
  /\ qc[c].pc = "start"
  /\ LET d == qc[c].d  k == Look(d)  T == IosAfterLook(d)  io == T[k] IN
       IF qc[c].kind = "part"
         THEN IF d \in NoPart THEN UpdQ(c, [qc[c] EXCEPT !.pc = "ret", !.res = "nil"]) /\ UNCHANGED <<ios, imap>>
              ELSE /\ imap' = ImapAfterLook(d)
                   /\ IF io.part /\ Defect # "noMark"
                        THEN UpdQ(c, [qc[c] EXCEPT !.pc = "ret", !.res = "already", !.io = k]) /\ ios' = T
                        ELSE IF io.running /\ Defect # "noCAS"
                               THEN /\ UpdQ(c, [qc[c] EXCEPT !.pc = "ret", !.res = "nil", !.io = k])
                                    /\ ios' = [T EXCEPT ![k].part = TRUE]
                               ELSE /\ UpdQ(c, [qc[c] EXCEPT !.pc = "r_log", !.io = k])
                                    /\ ios' = [T EXCEPT ![k].part = TRUE, ![k].running = TRUE]
         ELSE /\ imap' = ImapAfterLook(d)
              /\ IF io.prop /\ Defect # "noMark"
                   THEN UpdQ(c, [qc[c] EXCEPT !.pc = "ret", !.res = "already", !.io = k]) /\ ios' = T
                   ELSE IF io.hash # 0      \* "input channel full" (unreachable while MarkProposed guards it)
                          THEN UpdQ(c, [qc[c] EXCEPT !.pc = "ret", !.res = "full", !.io = k]) /\ ios' = [T EXCEPT ![k].prop = TRUE]
                          ELSE IF io.running /\ Defect # "noCAS"
                                 THEN /\ UpdQ(c, [qc[c] EXCEPT !.pc = "wait", !.io = k])
                                      /\ ios' = [T EXCEPT ![k].prop = TRUE, ![k].hash = qc[c].v]
                                 ELSE /\ UpdQ(c, [qc[c] EXCEPT !.pc = "r_log", !.io = k])
                                      /\ ios' = [T EXCEPT ![k].prop = TRUE, ![k].hash = qc[c].v, ![k].running = TRUE]
  /\ UNCHANGED <<dl, delq, qsubs, qdlv, eff, gate>>
\* runInstance is entered: ctx := log.WithTopic(parent, "qbft")
RunLog(c) == /\ qc[c].pc = "r_log" /\ UpdQ(c, [qc[c] EXCEPT !.pc = "r_look"])
             /\ UNCHANGED <<imap, ios, dl, delq, qsubs, qdlv, eff, gate>>
\* inst := c.getInstanceIO(duty)
RLook(c) == /\ qc[c].pc = "r_look" /\ "log" \notin gate
            /\ IF Relookup
                 THEN LET d == qc[c].d IN /\ UpdQ(c, [qc[c] EXCEPT !.pc = "r_add", !.rio = Look(d)])
                                          /\ ios' = IosAfterLook(d) /\ imap' = ImapAfterLook(d)
                 ELSE UpdQ(c, [qc[c] EXCEPT !.pc = "r_add", !.rio = qc[c].io]) /\ UNCHANGED <<ios, imap>>
            /\ UNCHANGED <<dl, delq, qsubs, qdlv, eff, gate>>
\* c.deadliner.Add(duty)
DlStatus(d) == IF dl[d] = "expired" THEN "expired" ELSE "sched"
DlAdd(c) == /\ qc[c].pc = "r_add"
            /\ LET d == qc[c].d IN
                 IF DlStatus(d) = "expired" /\ Defect # "runExpired"
                   THEN UpdQ(c, [qc[c] EXCEPT !.pc = "r_err", !.res = "nil"]) /\ UNCHANGED <<dl, eff>>
                   ELSE /\ UpdQ(c, [qc[c] EXCEPT !.pc = "r_buf"]) /\ eff' = eff \cup {<<c, d>>}
                        /\ dl' = IF dl[d] = "expired" THEN dl ELSE [dl EXCEPT ![d] = "sched"]
            /\ UNCHANGED <<imap, ios, delq, qsubs, qdlv, gate>>
\* c.getRecvBuffer(duty)
RBuf(c) == /\ qc[c].pc = "r_buf" /\ "add" \notin gate
           /\ IF Relookup
                THEN LET d == qc[c].d IN /\ UpdQ(c, [qc[c] EXCEPT !.pc = "r_run", !.bio = Look(d)])
                                         /\ ios' = IosAfterLook(d) /\ imap' = ImapAfterLook(d)
                ELSE UpdQ(c, [qc[c] EXCEPT !.pc = "r_run", !.bio = qc[c].io]) /\ UNCHANGED <<ios, imap>>
           /\ UNCHANGED <<dl, delq, qsubs, qdlv, eff, gate>>
\* ProcessReceives: a buffered message reaches the instance
Forward(c) == /\ qc[c].pc = "r_run" /\ qc[c].ctx = "live" /\ ios[qc[c].bio].buf > 0
              /\ ios' = [ios EXCEPT ![qc[c].bio].buf = @ - 1]
              /\ UpdQ(c, [qc[c] EXCEPT !.fw = @ + 1])
              /\ UNCHANGED <<imap, dl, delq, qsubs, qdlv, eff, gate>>
\* qbft.Run receives the proposed value from inst.HashCh
TakeValue(c) == /\ qc[c].pc = "r_run" /\ qc[c].hasval = 0 /\ ios[qc[c].rio].hash # 0
                /\ UpdQ(c, [qc[c] EXCEPT !.hasval = ios[qc[c].rio].hash])
                /\ ios' = [ios EXCEPT ![qc[c].rio].hash = 0]
                /\ UNCHANGED <<imap, dl, delq, qsubs, qdlv, eff, gate>>
\* the context ends before a decision: "consensus timeout"
RunCancel(c) == /\ qc[c].pc = "r_run" /\ qc[c].ctx = "cancelled"
                /\ UpdQ(c, [qc[c] EXCEPT !.pc = "r_sniff", !.res = "timeout"])
                /\ UNCHANGED <<imap, ios, dl, delq, qsubs, qdlv, eff, gate>>
\* a cluster of one decides its own value
Decided(c) == /\ qc[c].pc = "r_run" /\ Solo /\ qc[c].hasval # 0
              /\ UpdQ(c, [qc[c] EXCEPT !.pc = IF qsubs = <<>> THEN "r_sniff" ELSE "r_dec", !.res = "nil", !.k = 0])
              /\ UNCHANGED <<imap, ios, dl, delq, qsubs, qdlv, eff, gate>>
Deliver(c) == /\ qc[c].pc = "r_dec" /\ (qc[c].k = 0 \/ "dlv" \notin gate)
              /\ qdlv' = Append(qdlv, [s |-> qsubs[qc[c].k + 1], d |-> qc[c].d, v |-> qc[c].hasval, c |-> c])
              /\ UpdQ(c, [qc[c] EXCEPT !.k = @ + 1, !.pc = IF qc[c].k + 1 = Len(qsubs) THEN "r_sniff" ELSE "r_dec"])
              /\ UNCHANGED <<imap, ios, dl, delq, qsubs, eff, gate>>
\* snifferFunc(instance) -- after the last subscriber returned
Sniff(c) == /\ qc[c].pc = "r_sniff" /\ (qc[c].res = "timeout" \/ qsubs = <<>> \/ "dlv" \notin gate)
            /\ UpdQ(c, [qc[c] EXCEPT !.pc = "r_err"])
            /\ UNCHANGED <<imap, ios, dl, delq, qsubs, qdlv, eff, gate>>
\* inst.ErrCh <- err (blocks while the channel holds an unread error)
RErrGate(c) == IF c \in {x[1] : x \in eff} THEN "sniff" \notin gate ELSE "add" \notin gate
RErr(c) == /\ qc[c].pc = "r_err" /\ RErrGate(c) /\ ios[qc[c].rio].err = "-"
           /\ ios' = [ios EXCEPT ![qc[c].rio].err = qc[c].res, ![qc[c].io].rres = qc[c].res]
           /\ UpdQ(c, [qc[c] EXCEPT !.pc = "ret"])
           /\ UNCHANGED <<imap, dl, delq, qsubs, qdlv, eff, gate>>
\* return <-inst.ErrCh
Wake(c) == /\ qc[c].pc = "wait" /\ ios[qc[c].io].err # "-"
           /\ UpdQ(c, [qc[c] EXCEPT !.pc = "ret", !.res = ios[qc[c].io].err])
           /\ ios' = [ios EXCEPT ![qc[c].io].err = "-"]
           /\ UNCHANGED <<imap, dl, delq, qsubs, qdlv, eff, gate>>
QRet(c) == /\ qc[c].pc = "ret" /\ UpdQ(c, [qc[c] EXCEPT !.pc = "done"])
           /\ UNCHANGED <<imap, ios, dl, delq, qsubs, qdlv, eff, gate>>
\* ENVIRONMENT: a consensus message for duty d arrives (handle): "ok" buffered | "expired" rejected | "blocked" buffer full
MsgRes(d) == IF dl[d] = "expired" THEN "expired" ELSE IF IosAfterLook(d)[Look(d)].buf >= BufCap THEN "blocked" ELSE "ok"
Msg(d) == /\ MsgRes(d) # "blocked"
          /\ IF MsgRes(d) = "expired" THEN UNCHANGED <<dl, ios, imap>>
             ELSE /\ dl' = [dl EXCEPT ![d] = "sched"] /\ imap' = ImapAfterLook(d)
                  /\ ios' = [IosAfterLook(d) EXCEPT ![Look(d)].buf = @ + 1]
          /\ UNCHANGED <<qc, delq, qsubs, qdlv, eff, gate>>
\* ENVIRONMENT: the duty's deadline passes; the deadliner emits it if it was added
Deadline(d) == /\ dl[d] # "expired" /\ dl' = [dl EXCEPT ![d] = "expired"]
               /\ delq' = IF dl[d] = "sched" THEN delq \cup {d} ELSE delq
               /\ UNCHANGED <<imap, ios, qc, qsubs, qdlv, eff, gate>>
\* loop of Start: deleteInstanceIO(duty)
DeleteIO(d) == /\ d \in delq /\ delq' = delq \ {d} /\ imap' = [imap EXCEPT ![d] = 0]
               /\ UNCHANGED <<ios, qc, dl, qsubs, qdlv, eff, gate>>
\* ENVIRONMENT: the context of call c ends
Cancel(c) == /\ qc[c].pc \notin {"idle", "done"} /\ qc[c].ctx = "live" /\ UpdQ(c, [qc[c] EXCEPT !.ctx = "cancelled"])
             /\ UNCHANGED <<imap, ios, dl, delq, qsubs, qdlv, eff, gate>>
Hold(g) == /\ g \notin gate /\ gate' = gate \cup {g} /\ UNCHANGED <<imap, ios, qc, dl, delq, qsubs, qdlv, eff>>
Release(g) == /\ g \in gate /\ gate' = gate \ {g} /\ UNCHANGED <<imap, ios, qc, dl, delq, qsubs, qdlv, eff>>

IoInternal(c) == \/ QStart(c) \/ RunLog(c) \/ RLook(c) \/ DlAdd(c) \/ RBuf(c) \/ Forward(c) \/ TakeValue(c) \/ RunCancel(c)
                 \/ Decided(c) \/ Deliver(c) \/ Sniff(c) \/ RErr(c) \/ Wake(c) \/ QRet(c)
IoQuiet == /\ \A c \in QCalls : ~ENABLED IoInternal(c)
           /\ delq = {}

---------------------------------------------------------------------------------------------------
(* DBG *)
VARIABLES dbuf,     \* d.sets: sequence of [id, sz]
          dtot,     \* d.totalSize
          dadded,   \* history: everything ever added, in order
          ds        \* per thread [pc, op, id, sz, snap]
dvars == <<dbuf, dtot, dadded, ds>>
IdleD == [pc |-> "idle", op |-> "-", id |-> 0, sz |-> 0, snap |-> <<>>]
DbgInit == dbuf = <<>> /\ dtot = 0 /\ dadded = <<>> /\ ds = [t \in DThreads |-> IdleD]
DCall(t, op, id, sz) == /\ ds[t].pc = "idle" /\ ds' = [ds EXCEPT ![t] = [IdleD EXCEPT !.pc = "called", !.op = op, !.id = id, !.sz = sz]]
                        /\ UNCHANGED <<dbuf, dtot, dadded>>
\* the eviction loop: drop from the front while the total exceeds the budget
Over(tot) == IF Defect = "dbgGE" THEN tot >= MaxBytes ELSE tot > MaxBytes
RECURSIVE Evict(_, _)
Evict(q, tot) == IF Over(tot) /\ q # <<>>
                   THEN IF Defect = "dbgDropNewest" THEN Evict(SubSeq(q, 1, Len(q) - 1), tot - Last(q).sz)
                        ELSE Evict(Tail(q), IF Defect = "dbgNoSub" THEN tot - 1 ELSE tot - q[1].sz)
                   ELSE [q |-> q, tot |-> tot]
DApply(t) == /\ ds[t].pc = "called" /\ ds[t].op = "add"
             /\ LET e == [id |-> ds[t].id, sz |-> ds[t].sz]  r == Evict(Append(dbuf, e), dtot + e.sz) IN
                  /\ dbuf' = r.q /\ dtot' = r.tot /\ dadded' = Append(dadded, e)
             /\ ds' = [ds EXCEPT ![t].pc = "out"]
DSnap(t) == /\ ds[t].pc = "called" /\ ds[t].op = "serve"
            /\ ds' = [ds EXCEPT ![t].pc = "out", ![t].snap = [i \in DOMAIN dbuf |-> dbuf[i].id]]
            /\ UNCHANGED <<dbuf, dtot, dadded>>
DRet(t) == /\ ds[t].pc = "out" /\ ds' = [ds EXCEPT ![t] = IdleD] /\ UNCHANGED <<dbuf, dtot, dadded>>
DbgInternal(t) == DApply(t) \/ DSnap(t) \/ DRet(t)

vars == <<cvars, qvars, dvars>>

---------------------------------------------------------------------------------------------------
(* Contract *)
\* at every moment exactly one implementation receives Participate / Propose: every call in flight is in the current one
InFlightInCurrent == \A t \in Threads : th[t].pc = "in" => th[t].at = cur
\* a decision of the implementation that is current reaches every subscriber registered through the wrapper so far,
\* exactly once -- whether it subscribed before or after a switch
SubscriberComplete == \A k \in DOMAIN dlv : dlv[k].i = dlv[k].cur =>
                         /\ Len(dlv[k].got) = Len(dlv[k].want) /\ ToSet(dlv[k].got) = ToSet(dlv[k].want)
\* nobody is called twice for one decision, whoever decides
DeliverNoDup == \A k \in DOMAIN dlv : NoDup(dlv[k].want) => NoDup(dlv[k].got)
\* a switch to the protocol that is current is a no-op; an unknown protocol id is an error and changes nothing
SetContract == \A t \in Threads : (th[t].op = "set" /\ th[t].pc \in {"out", "done"}) =>
                  /\ (th[t].pid = th[t].seen => th[t].res = "ok" /\ ~th[t].wrote)
                  /\ (th[t].pid # th[t].seen /\ th[t].pid \notin Supported /\ ~Template => th[t].res = "err" /\ ~th[t].wrote)
                  /\ (th[t].pid # th[t].seen /\ th[t].pid \in Supported => th[t].res = "ok" /\ th[t].wrote)
\* the context of the default implementation belongs to the application: the controller never cancels it; a wrapped
\* context is cancelled at most once
DefaultNeverCancelled == CancelCount("app") = 0
CancelAtMostOnce == \A k \in DOMAIN cancelled : cancelled[k] <= 1
\* once a switch is complete, every non-default implementation that is not current has had its context cancelled
Switching == \E t \in Threads : th[t].op \in {"set", "setimpl"} /\ th[t].pc \notin {"idle", "done"}
PrevCancelled == ~Switching => \A k \in DOMAIN started : LET i == started[k].i IN
                    (started[k].ctx = i /\ i # Default /\ i # cur) => CancelCount(i) >= 1
\* controller.Start starts the default implementation with the application's context, and nothing else
StartsDefault == \A k \in DOMAIN started : started[k].ctx = "app" => started[k].i = Default
\* when the application's context has ended, the controller's goroutine cancels the wrapped context (action property)
StopCancels == [][(app = "cancelled" /\ app' = "stopped" /\ cancelK # "-") =>
                    (cancelK \in DOMAIN cancelled' /\ cancelled'[cancelK] = CancelCount(cancelK) + 1)]_cvars
CtlSafety == InFlightInCurrent /\ DeliverNoDup /\ SetContract /\ DefaultNeverCancelled /\ StartsDefault

\* the underlying run of a duty is started (passes the deadliner) at most once
OneEffectiveRun == \A d \in Duties : Cardinality({x \in eff : x[2] = d}) <= 1
\* a subscriber hears of a duty at most once, and what it hears was proposed for that duty
DeliverOnce == \A i, j \in DOMAIN qdlv : (qdlv[i].s = qdlv[j].s /\ qdlv[i].d = qdlv[j].d) => i = j
DeliverProposed == \A i \in DOMAIN qdlv : \E c \in QCalls : qc[c].kind = "prop" /\ qc[c].d = qdlv[i].d /\ qc[c].v = qdlv[i].v
\* the proposed value is handed to the run at most once
ValueOnce == \A c1, c2 \in QCalls : (qc[c1].hasval # 0 /\ qc[c2].hasval # 0 /\ qc[c1].d = qc[c2].d) => c1 = c2
\* a Propose that found the instance running returns what that instance's run returned
ErrSignal == \A c \in QCalls : (qc[c].kind = "prop" /\ qc[c].pc \in {"ret", "done"} /\ qc[c].res \notin {"already", "full"}
                                /\ qc[c].io # 0) => ios[qc[c].io].rres = qc[c].res
\* every call returns once the instance it waits for is over: when nothing can move and every context has ended,
\* no call is left inside the component
Pending == {c \in QCalls : qc[c].pc \notin {"idle", "done"}}
NoStuckCall == (IoQuiet /\ gate = {} /\ \A c \in Pending : qc[c].ctx = "cancelled") => Pending = {}
\* Participate / Propose twice for a duty is an error without effect; otherwise they succeed or time out
ResultRange == \A c \in QCalls : qc[c].res \in {"-", "nil", "timeout", "already"}
IoSafety == OneEffectiveRun /\ DeliverOnce /\ DeliverProposed /\ ValueOnce /\ ErrSignal /\ ResultRange

\* the debugger never holds more than its budget, its count is right, and it holds the most recent instances in order:
\* the longest suffix of everything added that fits
Budget == SumSz(dbuf) <= MaxBytes
TotalIsSum == dtot = SumSz(dbuf)
Fits(n) == SumSz(Suffix(dadded, n)) <= MaxBytes
Recent == LET N == {n \in 0..Len(dadded) : Fits(n)}  m == CHOOSE n \in N : \A k \in N : k <= n IN dbuf = Suffix(dadded, m)
DbgSafety == Budget /\ TotalIsSum /\ Recent
====
