SPECIFICATION CtlFairSpec
CONSTANTS
 Part = "ctl"
 Threads = {1, 2}
 Impls <- ImplsDX
 WrapperSubs = "replay"
 Template = FALSE
 TemplateFix = FALSE
 QCalls = {1, 2}
 Duties = {1}
 NoPart <- NoDuties
 Solo = TRUE
 Relookup = FALSE
 BufCap = 2
 DThreads = {1, 2}
 MaxBytes = 5
 Defect = "none"
 MCOps <- OpsSwap
 MCSetImpl <- ToDX
 MCSetIds <- IdsQU
 MaxDecide = 0
 MCTokens <- Tok1
 MCSubs <- OneSub
 MaxMsg = 1
 MCGates <- NoGates
 MCSizes <- Sz6
 MaxAdds = 4
 MCIds <- IdsP
 MCNames <- NamesAll
PROPERTIES CtlCallsReturn CtlStops
CHECK_DEADLOCK FALSE
