---- MODULE ConsensusCtlTrace ----
(* Trace validation for core/consensus.  The executor (harness/consensusctl) runs a schedule in one of four modes
   (first event {"ev":"Reset","sid","mode",...}); every event is written under one mutex by the goroutine that acts, so
   the log is a linearisation.

   mode "ctl": the REAL consensusController / consensusWrapper (VerifNewController) around stub implementations D
   (default), X, X2, Y.  No testing/synctest here (a goroutine waiting for a sync.RWMutex is not durably blocked); the
   order of events is whatever the goroutines did, this spec accepts every interleaving the lock allows.
     Call   {t, op, d, v, sub, ctx, impl, pid}    thread t is about to call the wrapper / the controller (logged before)
     Enter  {t, i, op, d, v} / Exit {t, i, res}   stub i's Participate / Propose is entered / about to return res
     ImplSub {i, s} / ImplStart {i, ctx} / PIDRead {i}     stub i's Subscribe / Start / ProtocolID was called
     Ret    {t, res, pid}                          the call returned (logged after)
     CtlStart / AppCancel / SetCancel {k} / Cancelled {k}   controller.Start is about to be called / its context is
                                                   cancelled / hook: a cancel function is installed / it was invoked
     Decide {i, d, got}                            stub i called its subscribers for duty d: `got` are those that were called
     Ident  {defsame, cursame, curisdef}           DefaultConsensus() / CurrentConsensus() identities
   Silent: the write sections WApply / SApply, CtlStop without an installed cancel function.

   mode "io": the REAL qbft component (cluster of one: solo, or one of four) behind the real wrapper, real instance IO,
   stub deadliner, inside testing/synctest.  A stimulus with q = TRUE was issued after synctest.Wait(): the model must be
   quiescent there (no internal step enabled) -- a call that should have returned and has not is caught at once.
     QCall {c, kind, d, v, q} / QRet {c, res}      Participate / Propose through the wrapper
     RunLog {c, d}                                 runInstance was entered by call c (its first statement looks a value up in
                                                   the call's context: after MaybeStart, before its own IO lookup)
     DlAdd {d, st}                                 deadliner.Add called by runInstance, with the status it got
     Deliver {s, d, v}                             subscriber s called
     Sniff {d, n}                                  snifferFunc called; n messages of other peers in the transcript
     Msg {d, res, q}                               VerifHandle with a valid message of peer 1
     Expire {d, q} / Cancel {c, q} / Hold {g, q} / Release {g, q}
     Inst {n, q}                                   number of instance IOs the component holds
     End / Hang {stuck}                            every call returned / these calls did not return although every
                                                   context was cancelled an hour ago
   mode "dbg": DCall {t, op, id, sz} / DRet {t, ids}; silent DApply / DSnap.
   mode "proto": Most {l, out} / Supp {name, out} / Prio {name, l, out} / Protos {out}. *)
EXTENDS ConsensusCtl, TraceCommon
VARIABLES startCalled,   \* controller.Start has been called
          obsFed         \* repaired wrapper: per implementation, how many replayed subscriptions have been observed
tvars == <<vars, tr, l, startCalled, obsFed>>
Cfg == Trace[1]
Mode == Cfg.mode
\* a named guard: the name is recorded only on the furthest branch (see HWReset)
Named(name, p) == IF p THEN TRUE ELSE IF l >= TLCGet(1)[tr] THEN InvFail(name) ELSE FALSE
TraceInit == /\ TrInit /\ CtlInit /\ DbgInit /\ startCalled = FALSE /\ obsFed = [i \in Impls |-> 0]
             /\ IoInit(IF Traces[tr][1].mode = "io" THEN Traces[tr][1].subs ELSE <<>>)

Keep == UNCHANGED <<startCalled, obsFed>>
NotCtl == UNCHANGED cvars
NotIo == UNCHANGED qvars
NotDbg == UNCHANGED dvars
TReset == IsEvent("Reset") /\ l = 1 /\ UNCHANGED vars /\ Keep

\* ---------------------------------------------------------------- ctl
IsT == Ev.t \in Threads
CallRec == [IdleT EXCEPT !.op = Ev.op, !.d = Ev.d, !.v = Ev.v, !.sub = Ev.sub, !.ctx = Ev.ctx, !.impl = Ev.impl, !.pid = Ev.pid]
TCall == /\ IsEvent("Call") /\ Mode = "ctl" /\ IsT
         /\ Named("KnownOp", Ev.op \in {"part", "prop", "sub", "pid", "wstart", "setimpl", "set"})
         /\ Named("KnownImpl", Ev.op = "setimpl" => Ev.impl \in Impls)
         /\ Call(Ev.t, CallRec) /\ NotIo /\ NotDbg /\ Keep
TEnter == /\ IsEvent("Enter") /\ Mode = "ctl" /\ IsT
          /\ Named("UnexpectedEnter", th[Ev.t].pc = "called" /\ th[Ev.t].op \in ReaderOps)
          /\ Enter(Ev.t) /\ NotIo /\ NotDbg /\ Keep
          /\ Named("ForwardedToCurrent", Ev.i = cur)
          /\ Named("ForwardedArgs", Ev.op = th[Ev.t].op /\ Ev.d = th[Ev.t].d /\ Ev.v = th[Ev.t].v)
TExit == /\ IsEvent("Exit") /\ Mode = "ctl" /\ IsT /\ th[Ev.t].pc = "in" /\ th[Ev.t].at = Ev.i
         /\ Exit(Ev.t, Ev.res) /\ NotIo /\ NotDbg /\ Keep
TRet == /\ IsEvent("Ret") /\ Mode = "ctl" /\ IsT
        /\ Named("UnexpectedReturn", th[Ev.t].pc = "out")
        /\ Ret(Ev.t) /\ NotIo /\ NotDbg /\ Keep
        /\ Named("ReplayObserved", (WrapperSubs = "replay" /\ th[Ev.t].wrote) => obsFed[cur] = fed[cur] \/ \E u \in Threads \ {Ev.t} : th[u].wrote /\ th[u].pc = "out")
        /\ Named("ReturnValue", IF th[Ev.t].op = "pid" THEN Ev.pid = th[Ev.t].seen
                                ELSE IF th[Ev.t].op \in {"part", "prop", "set"} THEN Ev.res = th[Ev.t].res ELSE TRUE)
\* the stub's Subscribe was called: by wrapper.Subscribe of a thread, or (repaired wrapper) while SetImpl replays
Writers(i) == {t \in Threads : /\ th[t].pc \in {"called", "s3", "out"}
                               /\ \/ th[t].op = "setimpl" /\ th[t].impl = i
                                  \/ th[t].op = "set" /\ i = Default /\ th[t].pid = ProtoOf(Default)}
SubThread == {t \in Threads : th[t].pc = "called" /\ th[t].op = "sub" /\ th[t].sub = Ev.s}
TImplSub == /\ IsEvent("ImplSub") /\ Mode = "ctl" /\ Ev.i \in Impls /\ NotIo /\ NotDbg /\ UNCHANGED startCalled
            /\ IF SubThread # {} /\ Ev.i = cur
                 THEN /\ \E t \in SubThread : DoSub(t)
                      /\ obsFed' = IF WrapperSubs = "replay" THEN [obsFed EXCEPT ![Ev.i] = @ + 1] ELSE obsFed
                 ELSE /\ Named("UnexpectedSubscribe", WrapperSubs = "replay" /\ Writers(Ev.i) # {} /\ obsFed[Ev.i] < Len(wsubs))
                      /\ Named("ReplayOrder", wsubs[obsFed[Ev.i] + 1] = Ev.s)
                      /\ obsFed' = [obsFed EXCEPT ![Ev.i] = @ + 1] /\ UNCHANGED vars
TImplStart == /\ IsEvent("ImplStart") /\ Mode = "ctl" /\ NotIo /\ NotDbg
              /\ IF Ev.ctx = "app"
                   THEN /\ Named("UnexpectedStart", startCalled /\ app = "idle")
                        /\ CtlStart /\ Keep
                        /\ Named("StartsDefault", Ev.i = Default)
                   ELSE /\ Named("UnexpectedStart", \E t \in Threads : th[t].pc = "called" /\ th[t].op = "wstart" /\ th[t].ctx = Ev.ctx)
                        /\ \E t \in Threads : th[t].ctx = Ev.ctx /\ DoWStart(t)
                        /\ Keep
                        /\ Named("StartedCurrent", Ev.i = cur)
TPIDRead == /\ IsEvent("PIDRead") /\ Mode = "ctl" /\ NotIo /\ NotDbg /\ Keep
            /\ \/ \E t \in Threads : (ReadPID(t) \/ SRead(t)) /\ Ev.i = cur
               \/ \E t \in Threads : SReadD(t) /\ Ev.i = Default
TCtlStartCall == IsEvent("CtlStart") /\ Mode = "ctl" /\ ~startCalled /\ startCalled' = TRUE /\ UNCHANGED <<vars, obsFed>>
TAppCancel == IsEvent("AppCancel") /\ Mode = "ctl" /\ AppCancel /\ NotIo /\ NotDbg /\ Keep
TSetCancel == IsEvent("SetCancel") /\ Mode = "ctl" /\ SetCancel(Ev.k) /\ NotIo /\ NotDbg /\ Keep
TCancelled == /\ IsEvent("Cancelled") /\ Mode = "ctl"
              /\ Named("UnexpectedCancel", app = "cancelled" /\ cancelK = Ev.k)
              /\ CtlStop /\ NotIo /\ NotDbg /\ Keep
TDecide == /\ IsEvent("Decide") /\ Mode = "ctl" /\ Ev.i \in Impls
           /\ Decide(Ev.i, Ev.d) /\ NotIo /\ NotDbg /\ Keep
           /\ Named("Delivered", Ev.got = Got(Ev.i))
TIdent == /\ IsEvent("Ident") /\ Mode = "ctl" /\ UNCHANGED vars /\ Keep
          /\ Named("DefaultIsStable", Ev.defsame) /\ Named("CurrentIsStable", Ev.cursame) /\ Named("CurrentIsWrapped", ~Ev.curisdef)
TCtlEnd == /\ IsEvent("End") /\ Mode = "ctl" /\ UNCHANGED vars /\ Keep
           /\ Named("AllReturned", \A t \in Threads : th[t].pc \in {"idle", "done"})
           /\ Named("DefaultStarted", startCalled => app # "idle")
           /\ Named("ShutdownGoroutineRan", app # "cancelled")
CtlSilent == /\ Mode = "ctl" /\ Silent /\ NotIo /\ NotDbg /\ Keep
             /\ \/ \E t \in Threads : WApply(t) \/ SApply(t)
                \/ (cancelK = "-" /\ CtlStop)

\* ---------------------------------------------------------------- io
IsC == Ev.c \in QCalls
AtQuiet == Named("Quiescent", Ev.q => IoQuiet)
TQCall == /\ IsEvent("QCall") /\ Mode = "io" /\ IsC /\ Ev.d \in Duties /\ AtQuiet
          /\ QCall(Ev.c, Ev.kind, Ev.d, Ev.v) /\ NotCtl /\ NotDbg /\ Keep
TQRet == /\ IsEvent("QRet") /\ Mode = "io" /\ IsC
         /\ Named("UnexpectedReturn", qc[Ev.c].pc = "ret")
         /\ QRet(Ev.c) /\ NotCtl /\ NotDbg /\ Keep
         /\ Named("Result", Ev.res = qc[Ev.c].res)
TRunLog == /\ IsEvent("RunLog") /\ Mode = "io" /\ IsC
           /\ Named("UnexpectedRun", qc[Ev.c].pc = "r_log" /\ qc[Ev.c].d = Ev.d)
           /\ RunLog(Ev.c) /\ NotCtl /\ NotDbg /\ Keep
TDlAdd == /\ IsEvent("DlAdd") /\ Mode = "io"
          /\ Named("UnexpectedRun", \E c \in QCalls : qc[c].pc = "r_add" /\ qc[c].d = Ev.d)
          /\ \E c \in QCalls : qc[c].d = Ev.d /\ DlAdd(c)
          /\ NotCtl /\ NotDbg /\ Keep
          /\ Ev.st = DlStatus(Ev.d)
TDeliver == /\ IsEvent("Deliver") /\ Mode = "io"
            /\ Named("UnexpectedDecision", \E c \in QCalls : qc[c].pc = "r_dec" /\ qc[c].d = Ev.d /\ ENABLED Deliver(c))
            /\ \E c \in QCalls : /\ qc[c].d = Ev.d /\ Deliver(c)
                                 /\ Named("DeliveredSubscriber", qsubs[qc[c].k + 1] = Ev.s)
                                 /\ Named("DeliveredValue", qc[c].hasval = Ev.v)
            /\ NotCtl /\ NotDbg /\ Keep
TSniff == /\ IsEvent("Sniff") /\ Mode = "io"
          /\ Named("UnexpectedSniff", \E c \in QCalls : (Ev.d = 0 \/ qc[c].d = Ev.d) /\ ENABLED Sniff(c))
          /\ \E c \in QCalls : (Ev.d = 0 \/ qc[c].d = Ev.d) /\ Sniff(c) /\ Named("Transcript", qc[c].fw = Ev.n)
          /\ NotCtl /\ NotDbg /\ Keep
TMsg == /\ IsEvent("Msg") /\ Mode = "io" /\ Ev.d \in Duties /\ AtQuiet
        /\ Named("MessageOutcome", Ev.res = MsgRes(Ev.d))
        /\ Msg(Ev.d) /\ NotCtl /\ NotDbg /\ Keep
TExpire == /\ IsEvent("Expire") /\ Mode = "io" /\ Ev.d \in Duties /\ AtQuiet /\ Keep
           /\ IF dl[Ev.d] = "expired" THEN UNCHANGED vars ELSE Deadline(Ev.d) /\ NotCtl /\ NotDbg
TCancel == /\ IsEvent("Cancel") /\ Mode = "io" /\ IsC /\ AtQuiet
           /\ IF qc[Ev.c].pc \in {"idle", "done"} \/ qc[Ev.c].ctx # "live" THEN UNCHANGED vars ELSE Cancel(Ev.c) /\ NotCtl /\ NotDbg
           /\ Keep
TCancelAll == /\ IsEvent("CancelAll") /\ Mode = "io" /\ AtQuiet /\ NotCtl /\ NotDbg /\ Keep
              /\ qc' = [c \in QCalls |-> IF c \in Pending THEN [qc[c] EXCEPT !.ctx = "cancelled"] ELSE qc[c]]
              /\ UNCHANGED <<imap, ios, dl, delq, qsubs, qdlv, eff, gate>>
THold == IsEvent("Hold") /\ Mode = "io" /\ AtQuiet /\ Hold(Ev.g) /\ NotCtl /\ NotDbg /\ Keep
TRelease == IsEvent("Release") /\ Mode = "io" /\ AtQuiet /\ Release(Ev.g) /\ NotCtl /\ NotDbg /\ Keep
TInst == /\ IsEvent("Inst") /\ Mode = "io" /\ AtQuiet /\ UNCHANGED vars /\ Keep
         /\ Named("InstanceCount", Ev.n = Cardinality({d \in Duties : imap[d] # 0}))
TDbgCount == /\ IsEvent("DbgCount") /\ Mode = "io" /\ UNCHANGED vars /\ Keep
             /\ Named("DebuggerCount", Ev.n = Cardinality({x \in eff : qc[x[1]].pc \in {"r_err", "ret", "done"}}))
TIoEnd == /\ IsEvent("End") /\ Mode = "io" /\ UNCHANGED vars /\ Keep
          /\ Named("Quiescent", IoQuiet)
          /\ Named("AllReturned", Pending = {})
\* as coded only (Relookup): calls that never return
THang == /\ IsEvent("Hang") /\ Mode = "io" /\ UNCHANGED vars /\ Keep
         /\ IoQuiet /\ gate = {} /\ \A c \in Pending : qc[c].ctx = "cancelled"
         /\ Pending # {} /\ SeqToSet(Ev.stuck) = Pending
IoSilent == /\ Mode = "io" /\ Silent /\ NotCtl /\ NotDbg /\ Keep
            /\ \/ \E c \in QCalls : \/ QStart(c) \/ RLook(c) \/ RBuf(c) \/ Forward(c) \/ TakeValue(c) \/ RunCancel(c)
                                    \/ Decided(c) \/ RErr(c) \/ Wake(c)
               \/ \E d \in Duties : DeleteIO(d)

\* ---------------------------------------------------------------- dbg
IsD == Ev.t \in DThreads
TDCall == /\ IsEvent("DCall") /\ Mode = "dbg" /\ IsD /\ Ev.op \in {"add", "serve"}
          /\ DCall(Ev.t, Ev.op, Ev.id, Ev.sz) /\ NotCtl /\ NotIo /\ Keep
TDRet == /\ IsEvent("DRet") /\ Mode = "dbg" /\ IsD
         /\ Named("UnexpectedReturn", ds[Ev.t].pc = "out")
         /\ Named("Served", ds[Ev.t].op = "serve" => Ev.ids = ds[Ev.t].snap)
         /\ DRet(Ev.t) /\ NotCtl /\ NotIo /\ Keep
TDbgEnd == /\ IsEvent("End") /\ Mode = "dbg" /\ UNCHANGED vars /\ Keep
           /\ Named("AllReturned", \A t \in DThreads : ds[t].pc = "idle")
DbgSilent == /\ Mode = "dbg" /\ Silent /\ NotCtl /\ NotIo /\ Keep
             /\ \E t \in DThreads : DApply(t) \/ DSnap(t)

\* ---------------------------------------------------------------- proto (also inside ctl schedules: app.go's composition)
ProtoMode == Mode \in {"proto", "ctl"}
TMost == /\ IsEvent("Most") /\ ProtoMode /\ UNCHANGED vars /\ Keep
         /\ Named("MostPreferred", Ev.out = FirstCons(Ev.l))
TSupp == /\ IsEvent("Supp") /\ ProtoMode /\ UNCHANGED vars /\ Keep
         /\ Named("SupportedName", Ev.out = SupportedName(Ev.name))
TPrio == /\ IsEvent("Prio") /\ ProtoMode /\ UNCHANGED vars /\ Keep
         /\ Named("Prioritize", Ev.out = PrioritizeIdx(Ev.name, Ev.l))
TProtos == /\ IsEvent("Protos") /\ ProtoMode /\ UNCHANGED vars /\ Keep
           /\ Named("Protocols", Ev.out = Protocols)
TProtoEnd == IsEvent("End") /\ Mode = "proto" /\ UNCHANGED vars /\ Keep

TraceNext == \/ TReset
             \/ TCall \/ TEnter \/ TExit \/ TRet \/ TImplSub \/ TImplStart \/ TPIDRead \/ TCtlStartCall \/ TAppCancel
             \/ TSetCancel \/ TCancelled \/ TDecide \/ TIdent \/ TCtlEnd \/ CtlSilent
             \/ TQCall \/ TQRet \/ TRunLog \/ TDlAdd \/ TDeliver \/ TSniff \/ TMsg \/ TExpire \/ TCancel \/ THold \/ TRelease
             \/ TCancelAll \/ TInst \/ TDbgCount \/ TIoEnd \/ THang \/ IoSilent
             \/ TDCall \/ TDRet \/ TDbgEnd \/ DbgSilent
             \/ TMost \/ TSupp \/ TPrio \/ TProtos \/ TProtoEnd
TraceSpec == TraceInit /\ [][TraceNext]_tvars
\* a name recorded at an earlier position says nothing about the furthest one: forget it when the trace advances
HWReset == IF l > TLCGet(1)[tr] THEN TLCSet(2, [TLCGet(2) EXCEPT ![tr] = "-"]) ELSE TRUE
\* the contract; Strict = TRUE also demands what the tree is known not to deliver (named deviations switched off)
CONSTANT Strict
Mark == /\ CheckInv("InFlightInCurrent", InFlightInCurrent) /\ CheckInv("DeliverNoDup", DeliverNoDup)
        /\ CheckInv("SetContract", SetContract) /\ CheckInv("DefaultNeverCancelled", DefaultNeverCancelled)
        /\ CheckInv("CancelAtMostOnce", CancelAtMostOnce) /\ CheckInv("StartsDefault", StartsDefault)
        /\ CheckInv("SubscriberComplete", ~Strict \/ SubscriberComplete)
        /\ CheckInv("OneEffectiveRun", OneEffectiveRun) /\ CheckInv("DeliverOnce", DeliverOnce)
        /\ CheckInv("DeliverProposed", DeliverProposed) /\ CheckInv("ValueOnce", ValueOnce)
        /\ CheckInv("ResultRange", ResultRange)
        /\ CheckInv("ErrSignal", Relookup \/ ErrSignal)
        /\ CheckInv("Budget", Budget) /\ CheckInv("TotalIsSum", TotalIsSum) /\ CheckInv("Recent", Recent)
        /\ HWReset /\ HWMark
====
