SPECIFICATION MCSpec
CONSTANTS
 Part = "dbg"
 Threads = {1, 2, 3}
 Impls <- ImplsDX
 WrapperSubs = "replay"
 Template = FALSE
 TemplateFix = FALSE
 QCalls = {1, 2}
 Duties = {1}
 NoPart <- NoDuties
 Solo = TRUE
 Relookup = FALSE
 BufCap = 2
 DThreads = {1, 2, 3}
 MaxBytes = 7
 Defect = "none"
 MCOps <- OpsAll
 MCSetImpl <- ToDX
 MCSetIds <- IdsQU
 MaxDecide = 1
 MCTokens <- Tok1
 MCSubs <- OneSub
 MaxMsg = 1
 MCGates <- NoGates
 MCSizes <- Sz7
 MaxAdds = 5
 MCIds <- IdsP
 MCNames <- NamesAll
INVARIANTS DbgSafety
CHECK_DEADLOCK FALSE
