SPECIFICATION TraceSpec
CONSTANTS
 Threads = {1, 2, 3, 4, 5, 6, 7, 8}
 Impls = {"D", "X", "Y", "X2"}
 WrapperSubs = "forward"
 Template = FALSE
 TemplateFix = FALSE
 QCalls = {1, 2, 3, 4, 5, 6}
 Duties = {1, 2, 3}
 NoPart = {3}
 Solo = TRUE
 Relookup = FALSE
 BufCap = 100
 DThreads = {1, 2, 3, 4}
 MaxBytes = 52428800
 Defect = "none"
 Strict = FALSE
CONSTRAINT Mark
POSTCONDITION Report
CHECK_DEADLOCK FALSE
