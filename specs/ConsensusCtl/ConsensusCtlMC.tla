---- MODULE ConsensusCtlMC ----
(* Exhaustive design checks, one part at a time (Part = "ctl" | "io" | "dbg" | "proto"); the variables of the other parts
   stay at their initial values.  Bounds (all here, none in the actions):
     ctl    every thread performs ONE operation out of CtlMenu (MCOps: which kinds; MCSetImpl / MCSetIds: targets of
            setimpl / set); MaxDecide decisions; MCTokens: injected cancel tokens; Exit returns "nil"
     io     every call of QCalls is made once (kind and duty free, the value is the call's id); at most MaxMsg messages;
            MCGates: gates the harness may close; MCSubs: the subscribers
     dbg    at most MaxAdds AddInstance calls with sizes MCSizes, any number of ServeHTTP calls by DThreads
     proto  the operators over every list of length <= 3 over MCIds, names MCNames (evaluated once, in the initial state) *)
EXTENDS ConsensusCtl
CONSTANTS Part, MCOps, MCSetImpl, MCSetIds, MaxDecide, MCTokens, MCSubs, MaxMsg, MCGates, MCSizes, MaxAdds, MCIds, MCNames

\* ---- cfg menus (cfg files cannot write records or sequences)
OpsAll == {"part", "prop", "sub", "pid", "wstart", "setimpl", "set"}
OpsSwap == {"part", "sub", "setimpl", "set"}
OpsSet == {"part", "set", "setimpl", "pid"}
OpsTpl == {"part", "set"}
IdsQ == {QBFT}
IdsQX == {QBFT, Cons("x", "1.0.0")}
IdsQXY == {QBFT, Cons("x", "1.0.0"), Cons("y", "1.0.0")}
IdsQU == {QBFT, Cons("abft", "1.0.0")}
IdsAll == {QBFT, Cons("x", "1.0.0"), Cons("abft", "1.0.0"), Other("/charon/parsigex/2.0.0")}
ImplsDX == {"D", "X"}
ImplsDXY == {"D", "X", "Y"}
ImplsAll == {"D", "X", "Y", "X2"}
ToX == {"X"}
ToDX == {"D", "X"}
ToXY == {"X", "Y"}
ToDXY == {"D", "X", "Y"}
IdsGen == {QBFT, Cons("x", "1.0.0"), Cons("abft", "1.0.0")}
GSafe == {"add", "dlv", "sniff"}
D3 == {3}
NoSubs == <<>>
OneSub == <<"s1">>
TwoSubs == <<"s1", "s2">>
NoGates == {}
GLog == {"log"}
GAll == {"log", "add", "dlv", "sniff"}
GEnd == {"dlv", "sniff"}
Tok1 == {"k1"}
Tok2 == {"k1", "k2"}
NoTok == {}
Sz3 == {1, 2, 3}
Sz6 == {1, 3, 5, 6}
Sz7 == {1, 2, 4, 5, 6, 7}
NamesAll == {"qbft", "QBFT", "abft", "x", ""}
IdsP == {QBFT, Cons("qbft", "3.0.0"), Cons("abft", "1.0.0"), Cons("QBFT", "2.0.0"), Other("/charon/parsigex/2.0.0")}
NoDuties == {}
D2 == {2}

\* ---- ctl
SubsUsed == {th[t].sub : t \in Threads}
\* SetCurrentConsensusForProtocol "is not thread safe": one call at a time (concurrent with everything else)
SetBusy == \E u \in Threads : th[u].op = "set" /\ th[u].pc \notin {"idle", "done"}
CtlMenu == {[IdleT EXCEPT !.op = "part", !.d = d] : d \in (IF "part" \in MCOps THEN Duties ELSE {})}
      \cup {[IdleT EXCEPT !.op = "prop", !.d = d, !.v = 1] : d \in (IF "prop" \in MCOps THEN Duties ELSE {})}
      \cup {[IdleT EXCEPT !.op = "sub", !.sub = s] : s \in (IF "sub" \in MCOps THEN ToSet(MCSubs) \ SubsUsed ELSE {})}
      \cup (IF "pid" \in MCOps THEN {[IdleT EXCEPT !.op = "pid"]} ELSE {})
      \cup (IF "wstart" \in MCOps THEN {[IdleT EXCEPT !.op = "wstart", !.ctx = "w"]} ELSE {})
      \cup {[IdleT EXCEPT !.op = "setimpl", !.impl = i] : i \in (IF "setimpl" \in MCOps THEN MCSetImpl ELSE {})}
      \cup {[IdleT EXCEPT !.op = "set", !.pid = p] : p \in (IF "set" \in MCOps /\ ~SetBusy THEN MCSetIds ELSE {})}
CtlEnv == \/ \E t \in Threads : \/ \E r \in CtlMenu : Call(t, r)
                                 \/ Exit(t, "nil")
          \/ CtlStart \/ AppCancel
          \/ \E k \in MCTokens : cancelK = "-" /\ CancelCount(k) = 0 /\ SetCancel(k)
          \/ \E i \in Impls, d \in Duties : Len(dlv) < MaxDecide /\ Decide(i, d)
CtlNext == (CtlEnv \/ CtlStop \/ \E t \in Threads : CtlInternal(t)) /\ UNCHANGED <<qvars, dvars>>

\* ---- io
MsgCount == LET RECURSIVE SB(_) SB(k) == IF k = 0 THEN 0 ELSE ios[k].buf + SB(k - 1)
                RECURSIVE SF(_) SF(S) == IF S = {} THEN 0 ELSE LET c == CHOOSE x \in S : TRUE IN qc[c].fw + SF(S \ {c})
            IN SB(Len(ios)) + SF(QCalls)
IoEnv == \/ \E c \in QCalls, k \in {"part", "prop"}, d \in Duties : QCall(c, k, d, c)
         \/ \E d \in Duties : MsgCount < MaxMsg /\ Msg(d)
         \/ \E d \in Duties : Deadline(d)
         \/ \E c \in QCalls : Cancel(c)
         \/ \E g \in MCGates : Hold(g) \/ Release(g)
IoNext == (IoEnv \/ (\E c \in QCalls : IoInternal(c)) \/ \E d \in Duties : DeleteIO(d)) /\ UNCHANGED <<cvars, dvars>>

\* ---- dbg
PendingAdds == Cardinality({t \in DThreads : ds[t].op = "add" /\ ds[t].pc = "called"})
DbgEnv == \E t \in DThreads : \/ \E sz \in MCSizes : Len(dadded) + PendingAdds < MaxAdds
                                                      /\ DCall(t, "add", Len(dadded) + PendingAdds + 1, sz)
                              \/ DCall(t, "serve", 0, 0)
DbgNext == (DbgEnv \/ \E t \in DThreads : DbgInternal(t)) /\ UNCHANGED <<cvars, qvars>>

MCInit == CtlInit /\ IoInit(MCSubs) /\ DbgInit
MCNext == CASE Part = "ctl" -> CtlNext [] Part = "io" -> IoNext [] Part = "dbg" -> DbgNext [] OTHER -> UNCHANGED vars
MCSpec == MCInit /\ [][MCNext]_vars

\* ---- proto: properties of the pure operators, over all small inputs
Lists == UNION {[1..n -> MCIds] : n \in 0..3}
IsPerm(p, n) == Len(p) = n /\ {p[i] : i \in DOMAIN p} = 1..n
\* the result is a permutation that keeps the relative order inside both groups, the bumped group first
PrioritizeStable == \A name \in MCNames, l \in Lists :
   LET p == PrioritizeIdx(name, l) IN
     /\ IsPerm(p, Len(l))
     /\ \A a, b \in DOMAIN p : (a < b /\ Bumped(name, l[p[a]]) = Bumped(name, l[p[b]])) => p[a] < p[b]
     /\ \A a, b \in DOMAIN p : (Bumped(name, l[p[a]]) /\ ~Bumped(name, l[p[b]])) => a < b
\* the first consensus protocol of the list, the default when there is none
MostPreferredFirst == \A l \in Lists : LET r == MostPreferred(l) IN
     /\ r.k = "cons"
     /\ (\A i \in DOMAIN l : l[i].k # "cons") => r = QBFT
     /\ \A i \in DOMAIN l : l[i].k = "cons" => \E j \in 1..i : l[j] = r /\ \A m \in 1..(j - 1) : l[m].k # "cons"
\* a name that is accepted as supported is honoured when priorities are computed
NameConsistency == \A name \in MCNames : SupportedName(name) =>
     \A l \in Lists : (\E i \in DOMAIN l : l[i].k = "cons" /\ Lower(l[i].n) = Lower(name) /\ l[i] \in ToSet(Protocols)) =>
        LET q == Prioritize(name, l) IN q[1].k = "cons" /\ Lower(q[1].n) = Lower(name)
\* applying the cluster's preference and then the operator's (as app.go does) puts the operator's protocol first
TwoPreferences == \A n1, n2 \in MCNames, l \in Lists :
     LET q == Prioritize(n2, Prioritize(n1, l)) IN
       (\E i \in DOMAIN l : Bumped(n2, l[i])) => Bumped(n2, q[1])
ProtoSafety == PrioritizeStable /\ MostPreferredFirst /\ TwoPreferences

\* ---- liveness (fault-free): with goroutines that keep running, implementations that return and contexts that end,
\* every call returns
CtlFair == /\ \A t \in Threads : WF_vars(CtlInternal(t) /\ UNCHANGED <<qvars, dvars>>) /\ WF_vars(Exit(t, "nil") /\ UNCHANGED <<qvars, dvars>>)
           /\ WF_vars(CtlStop /\ UNCHANGED <<qvars, dvars>>)
CtlFairSpec == MCSpec /\ CtlFair
CtlCallsReturn == \A t \in Threads : (th[t].pc = "called") ~> (th[t].pc = "done")
CtlStops == (app = "cancelled") ~> (app = "stopped")
IoFair == /\ \A c \in QCalls : WF_vars(IoInternal(c) /\ UNCHANGED <<cvars, dvars>>) /\ WF_vars(Cancel(c) /\ UNCHANGED <<cvars, dvars>>)
          /\ \A d \in Duties : WF_vars(DeleteIO(d) /\ UNCHANGED <<cvars, dvars>>)
IoFairSpec == MCSpec /\ IoFair
\* (checked without gates: a gate that is closed for ever is the harness's doing)
IoCallsReturn == \A c \in QCalls : (qc[c].pc = "start") ~> (qc[c].pc = "done")
====
