SPECIFICATION MCSpec
CONSTANTS
 Part = "ctl"
 Threads = {1, 2, 3, 4}
 Impls <- ImplsDX
 WrapperSubs = "replay"
 Template = FALSE
 TemplateFix = FALSE
 QCalls = {1, 2}
 Duties = {1}
 NoPart <- NoDuties
 Solo = TRUE
 Relookup = FALSE
 BufCap = 2
 DThreads = {1, 2}
 MaxBytes = 5
 Defect = "none"
 MCOps <- OpsSwap
 MCSetImpl <- ToDX
 MCSetIds <- IdsQU
 MaxDecide = 1
 MCTokens <- Tok1
 MCSubs <- OneSub
 MaxMsg = 1
 MCGates <- NoGates
 MCSizes <- Sz6
 MaxAdds = 4
 MCIds <- IdsP
 MCNames <- NamesAll
INVARIANTS CtlSafety CancelAtMostOnce SubscriberComplete
PROPERTIES StopCancels
CHECK_DEADLOCK FALSE
