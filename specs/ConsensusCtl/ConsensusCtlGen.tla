---- MODULE ConsensusCtlGen ----
(* Schedule generation: behaviours of the design spec; the ENVIRONMENT's moves are recorded in the history variable `hist`
   (what the controller, the wrapper and the component do in between is the implementation's business).
   Part = "ctl": calls of the wrapper / the controller by fresh threads, returns of the stub implementations, decisions,
   controller.Start, the end of its context, an injected cancel function -- at any moment, the executor replays them in
   this order and lets the goroutines settle in between.  Part = "io": Participate / Propose, messages, deadlines,
   cancellations and gates, at quiescent moments only (the executor calls synctest.Wait() after every stimulus), so the
   interleaving the model chose is the one the executor reproduces.  Run with -simulate. *)
EXTENDS ConsensusCtlMC, Json
CONSTANTS GenLen
VARIABLES hist
Rec(e) == hist' = Append(hist, e)
GenCtl ==
  \/ \E t \in Threads, r \in CtlMenu :
        /\ \A u \in Threads : u < t => th[u].pc # "idle"
        /\ Call(t, r) /\ Rec([ev |-> "Call", t |-> t, op |-> r.op, d |-> r.d, v |-> r.v, sub |-> r.sub, ctx |-> r.ctx, impl |-> r.impl, pid |-> r.pid])
  \/ \E t \in Threads : Exit(t, "nil") /\ Rec([ev |-> "Exit", t |-> t, res |-> "nil"])
  \/ CtlStart /\ Rec([ev |-> "CtlStart"])
  \/ AppCancel /\ Rec([ev |-> "AppCancel"])
  \/ \E k \in MCTokens : app # "cancelled" /\ cancelK = "-" /\ CancelCount(k) = 0 /\ SetCancel(k) /\ Rec([ev |-> "SetCancel", k |-> k])
  \/ \E i \in Impls, d \in Duties : Len(dlv) < MaxDecide /\ Decide(i, d) /\ Rec([ev |-> "Decide", i |-> i, d |-> d])
  \/ (CtlStop \/ \E t \in Threads : CtlInternal(t)) /\ UNCHANGED hist
GenIo ==
  \/ \E c \in QCalls, k \in {"part", "prop"}, d \in Duties :
        /\ IoQuiet /\ \A u \in QCalls : u < c => qc[u].pc # "idle"
        /\ QCall(c, k, d, c) /\ Rec([ev |-> "QCall", c |-> c, kind |-> k, d |-> d, v |-> c])
  \/ \E d \in Duties : IoQuiet /\ ~Solo /\ MsgCount < MaxMsg /\ Msg(d) /\ Rec([ev |-> "Msg", d |-> d])
  \/ \E d \in Duties : IoQuiet /\ Deadline(d) /\ Rec([ev |-> "Expire", d |-> d])
  \/ \E c \in QCalls : IoQuiet /\ Cancel(c) /\ Rec([ev |-> "Cancel", c |-> c])
  \/ \E g \in MCGates : IoQuiet /\ Hold(g) /\ Rec([ev |-> "Hold", g |-> g])
  \/ \E g \in MCGates : IoQuiet /\ Release(g) /\ Rec([ev |-> "Release", g |-> g])
  \/ ((\E c \in QCalls : IoInternal(c)) \/ \E d \in Duties : DeleteIO(d)) /\ UNCHANGED hist
GenNext == IF Part = "ctl" THEN GenCtl /\ UNCHANGED <<qvars, dvars>> ELSE GenIo /\ UNCHANGED <<cvars, dvars>>
GenSpec == MCInit /\ hist = <<>> /\ [][GenNext]_<<vars, hist>>
Emit == Len(hist) < GenLen \/ PrintT("@@SCHED@@" \o ToJson(hist))
Stop == Len(hist) <= GenLen
====
