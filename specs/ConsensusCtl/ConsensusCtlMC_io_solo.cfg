SPECIFICATION MCSpec
CONSTANTS
 Part = "io"
 Threads = {1, 2, 3}
 Impls <- ImplsDX
 WrapperSubs = "replay"
 Template = FALSE
 TemplateFix = FALSE
 QCalls = {1, 2}
 Duties = {1}
 NoPart <- NoDuties
 Solo = TRUE
 Relookup = FALSE
 BufCap = 2
 DThreads = {1, 2}
 MaxBytes = 5
 Defect = "none"
 MCOps <- OpsAll
 MCSetImpl <- ToDX
 MCSetIds <- IdsQU
 MaxDecide = 1
 MCTokens <- Tok1
 MCSubs <- OneSub
 MaxMsg = 1
 MCGates <- GLog
 MCSizes <- Sz6
 MaxAdds = 4
 MCIds <- IdsP
 MCNames <- NamesAll
INVARIANTS IoSafety NoStuckCall
CHECK_DEADLOCK FALSE
