SPECIFICATION MCSpec
CONSTANTS
 Part = "ctl"
 Threads = {1, 2, 3}
 Impls <- ImplsAll
 WrapperSubs = "replay"
 Template = TRUE
 TemplateFix = TRUE
 QCalls = {1, 2}
 Duties = {1}
 NoPart <- NoDuties
 Solo = TRUE
 Relookup = FALSE
 BufCap = 2
 DThreads = {1, 2}
 MaxBytes = 5
 Defect = "none"
 MCOps <- OpsTpl
 MCSetImpl <- ToDX
 MCSetIds <- IdsQXY
 MaxDecide = 1
 MCTokens <- NoTok
 MCSubs <- OneSub
 MaxMsg = 1
 MCGates <- NoGates
 MCSizes <- Sz6
 MaxAdds = 4
 MCIds <- IdsP
 MCNames <- NamesAll
INVARIANTS CtlSafety SubscriberComplete PrevCancelled
PROPERTIES StopCancels
CHECK_DEADLOCK FALSE
