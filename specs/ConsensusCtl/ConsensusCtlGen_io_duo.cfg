SPECIFICATION GenSpec
CONSTANTS
 Part = "io"
 Threads = {1, 2, 3, 4, 5, 6}
 Impls <- ImplsDXY
 WrapperSubs = "forward"
 Template = FALSE
 TemplateFix = FALSE
 QCalls = {1, 2, 3, 4}
 Duties = {1}
 NoPart <- NoDuties
 Solo = FALSE
 Relookup = FALSE
 BufCap = 100
 DThreads = {1}
 MaxBytes = 5
 Defect = "none"
 MCOps <- OpsAll
 MCSetImpl <- ToDXY
 MCSetIds <- IdsGen
 MaxDecide = 3
 MCTokens <- Tok1
 MCSubs <- OneSub
 MaxMsg = 3
 MCGates <- GAll
 MCSizes <- Sz3
 MaxAdds = 1
 MCIds <- IdsP
 MCNames <- NamesAll
 GenLen = 7
INVARIANTS Emit
CONSTRAINT Stop
CHECK_DEADLOCK FALSE
