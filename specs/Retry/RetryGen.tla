---- MODULE RetryGen ----
(* Schedule generation: behaviours of the design spec, the ENVIRONMENT's moves are recorded in the history variable
   `hist` with the model time at which they happen (Go with the call's attributes, what each attempt returns and after how
   long, Shutdown with its timeout, cancellation of a parent context, release of a held ctxTimeoutFunc); what DoAsync
   and Shutdown do in between is the implementation's business.  The environment moves at quiescent moments only: a
   schedule fixes the TIME of a stimulus, the order of goroutines inside one instant is not the executor's to choose
   (the trace spec accepts every order; forced orders come from the gate).  Run with -simulate.  checks/grow_retry.py turns a
   history into a timed schedule for retry.NewForT (one model time unit = 50 ms, so Poll = 2 is the 100 ms ticker; the
   injected backoff timers are exactly GenConf), which reproduces the coincidences the model found: a deadline in the
   instant a backoff ends, Shutdown between startAsync and the first attempt, ... *)
EXTENDS Retry, Json
CONSTANTS MaxTime, GenLen
VARIABLES hist, plan      \* plan (drawn at the start): no Shutdown before plan.shutAt, call c fails temporarily plan.tries[c] times first
GenConf == [lo |-> <<1, 2, 2>>, hi |-> <<1, 2, 2>>]
\* calls 1 and 2 share a label; call 1 may be held at the injected ctxTimeoutFunc
GAttrs(c) == {[wrapped |-> TRUE, label |-> IF c = 3 THEN "B" ELSE "A", dl |-> d, gated |-> g] :
                d \in (IF c = 2 THEN {None, 3} ELSE {2, 4, 5}), g \in (IF c = 1 THEN BOOLEAN ELSE {FALSE})}
ROk == [kind |-> "ok", txt |-> ""]
RPerm == [kind |-> "perm", txt |-> ""]
RTemp == [kind |-> "temp", txt |-> ""]
\* for the generator a result is its class; "hon" = the function returns the error of the context it was handed
GClass(r) == CASE r.kind = "ok" -> "ok" [] r.kind = "perm" -> "perm" [] OTHER -> "retry"
GRes(c) == (IF s[c].it < plan.tries[c] THEN {RTemp} ELSE {ROk, RPerm, RTemp}) \cup (IF s[c].ctx \in {"canceled", "deadline"} THEN {[kind |-> "hon", txt |-> ""]} ELSE {})
GenInit == InitWith(GenConf) /\ hist = <<>> /\ plan \in [shutAt : {0, 2, 3, 4, 5, 6, 7, 9}, tries : [Calls -> 0..3]]
Rec(e) == hist' = Append(hist, e)
\* Classify with the generator's classes (the design spec's Class reads error texts)
GClassify(c) ==
  /\ s[c].pc = "ret"
  /\ LET k == GClass(Last(att[c]).res) IN
       CASE k = "ok" -> End(c, "success")
         [] k = "perm" -> End(c, "permanent")
         [] OTHER -> Upd(c, [s[c] EXCEPT !.pc = IF s[c].ctx = "live" THEN "bo" ELSE "chk"]) /\ UNCHANGED active
  /\ UNCHANGED <<now, conf, att, shut, boN>>
Internal == \/ \E c \in Calls : \/ StartAsync(c) \/ EnterFn(c) \/ GClassify(c) \/ Backoff(c, now + DelayLo(s[c].it))
                                \/ SelTimer(c) \/ SelCtx(c) \/ SelShut(c) \/ Chk(c) \/ CtxExpire(c)
            \/ ShutClose \/ ShutCancel \/ ShutPollRet \/ ShutPollWait \/ ShutTimeout
GenNext ==
  \/ \E c \in Calls : \E a \in GAttrs(c) : Quiet /\ Go(c, a) /\ Rec([ev |-> "Go", t |-> now, c |-> c, label |-> a.label, dl |-> a.dl, gated |-> a.gated])
  \/ \E c \in Calls : \E r \in GRes(c) :
        /\ Quiet /\ FnReturn(c, r)
        /\ Rec([ev |-> "Fn", t |-> now, c |-> c, i |-> s[c].it, lat |-> now - Last(att[c]).s, res |-> r.kind,
                now |-> (r.kind = "hon" /\ s[c].ctxAt = now)])
  \/ \E c \in Calls : Quiet /\ Release(c) /\ Rec([ev |-> "Release", t |-> now, c |-> c])
  \/ \E c \in {2} : Quiet /\ ParentCancel(c) /\ Rec([ev |-> "ParentCancel", t |-> now, c |-> c])
  \/ \E to \in {None, 0, 3} : Quiet /\ now >= plan.shutAt /\ ShutCall(to) /\ Rec([ev |-> "Shutdown", t |-> now, to |-> to])
  \/ Internal /\ UNCHANGED hist
  \/ \E k \in 1..3 : now + k <= MaxTime /\ Tick(now + k) /\ UNCHANGED hist
GenSpec == GenInit /\ [][GenNext /\ UNCHANGED plan]_<<vars, hist, plan>>
Emit == Len(hist) < GenLen \/ PrintT("@@SCHED@@" \o ToJson(hist))
Stop == Len(hist) <= GenLen
====
