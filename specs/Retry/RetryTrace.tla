---- MODULE RetryTrace ----
(* Trace validation for app/retry + core/retry.go.  The executor (harness/retry) runs every schedule inside a
   testing/synctest bubble: virtual time, exact to the nanosecond, advances only when every goroutine is durably
   blocked -- the design spec's Tick/Quiet.  Events carry the virtual time t in microseconds since the bubble's start
   (= genesis); they are written under one mutex by the goroutine that acts, so the log is a linearisation:

     Reset    {sid, mode: "wire" | "fort", slotus, spe, bo}     wire: core.Wire + WithAsyncRetry(retry.New(core.NewDutyDeadlineFunc))
                                                                 fort: retry.NewForT, injected ctxTimeoutFunc (gate, deadline dl)
                                                                       and backoff timers bo[i]
     Go       {c, edge, duty, label, dl, gated}                  the edge is invoked / `go DoAsync` (logged before)
     EdgeRet  {c, nil}                       (wire)              the edge function returned (nil?)
     AStart   {c, i, err, dl}                                    the component function is entered: attempt number, ctx.Err()
                                                                 and ctx.Deadline() of the context it was handed
     AEnd     {c, i, res: {kind, txt}}                           ... returns (what it returns is the schedule's)
     BO       {c, i}                         (fort)              the injected backoffFunc was called with i
     CtxDone  {c, err}                                           a watcher saw the first attempt's context end
     Ret      {c}                            (fort)              DoAsync returned
     ShutCall {to} / ShutRet                                     Shutdown is called (logged before) / has returned
     ParentCancel {c} / Release {c}                              the caller's context is cancelled / the gate is opened
     End                                                         the executor has drained the schedule

   Go, AEnd, ShutCall, ParentCancel, Release are the environment's moves; AStart, BO are bound to the design spec's
   EnterFn, Backoff; ShutRet to ShutPollRet / ShutTimeout (Ticks = FALSE: the spec does not insist on the 100 ms raster,
   only that the return is not before every active call ended and not later than one period after); EdgeRet, CtxDone,
   Ret are observations of something that has happened (goroutines log after the fact, so they may come late within
   the instant, never in another instant).  All other steps are silent.  The unlogged backoff delay of the production
   constructor (jitter) is taken from the next AStart of the call (prophecy); WakeInRange judges it. *)
EXTENDS Retry, TraceCommon
VARIABLES obsRet, obsCtx, obsEdge
tvars == <<vars, tr, l, obsRet, obsCtx, obsEdge>>
Cfg == Trace[1]
Mode == Cfg.mode
\* production backoff (expbackoff.Backoff with BaseDelay 250 ms, x1.6, jitter +-10 %, max 12 s; no jitter at iteration
\* 0), in microseconds, one microsecond of slack for the truncation of the time stamps
WireLo == <<250000, 359999, 575999, 921599, 1474559, 2359295, 3774872, 6039796, 9663675, 10799999>>
WireHi == <<250000, 440002, 704002, 1126402, 1802242, 2883586, 4613736, 7381977, 11811162, 13200002>>
ConfOf(r) == IF r.mode = "wire" THEN [lo |-> WireLo, hi |-> WireHi] ELSE [lo |-> r.bo, hi |-> r.bo]
TraceInit == TrInit /\ InitWith(ConfOf(Traces[tr][1])) /\ obsRet = {} /\ obsCtx = {} /\ obsEdge = {}

Obs == <<obsRet, obsCtx, obsEdge>>
AtT == now = Ev.t
Known == Ev.c \in Calls
Named(name, p) == IF p THEN TRUE ELSE InvFail(name)

AttrOf(e) == IF Mode = "wire"
               THEN [wrapped |-> e.edge \in WrappedEdges, label |-> EdgeLabel(e.edge), gated |-> FALSE,
                     dl |-> IF e.edge \in WrappedEdges THEN DutyDeadline(e.duty.type, e.duty.slot, Cfg.slotus, Cfg.spe) ELSE None]
               ELSE [wrapped |-> TRUE, label |-> e.label, dl |-> e.dl, gated |-> e.gated]

TReset == IsEvent("Reset") /\ l = 1 /\ UNCHANGED <<vars, Obs>>
TGo == IsEvent("Go") /\ AtT /\ Known /\ Go(Ev.c, AttrOf(Ev)) /\ UNCHANGED Obs
TAStart == /\ IsEvent("AStart") /\ AtT /\ Known
           /\ Named("UnexpectedAttempt", s[Ev.c].pc \notin {"done", "refused", "fn", "bo"})
           /\ EnterFn(Ev.c) /\ UNCHANGED Obs
           /\ Named("AttemptNumber", Ev.i = s'[Ev.c].it)
           /\ Named("AttemptCtxState", Ev.err = Last(att'[Ev.c]).cs)
           /\ Named("AttemptCtxDeadline", Ev.dl = IF s[Ev.c].wrapped THEN s[Ev.c].dl ELSE None)
TAEnd == /\ IsEvent("AEnd") /\ AtT /\ Known /\ Ev.i = s[Ev.c].it
         /\ Named("UnknownResult", Class(Ev.res) # "unknown")
         /\ FnReturn(Ev.c, Ev.res) /\ UNCHANGED Obs
TBO == /\ IsEvent("BO") /\ AtT /\ Known /\ Mode = "fort"
       /\ Named("UnexpectedBackoff", s[Ev.c].pc \notin {"done", "refused", "fn", "sel", "call"})
       /\ Backoff(Ev.c, now + DelayLo(s[Ev.c].it)) /\ UNCHANGED Obs
       /\ Named("BackoffIteration", Ev.i = s[Ev.c].it)
TParentCancel == IsEvent("ParentCancel") /\ AtT /\ Known /\ ParentCancel(Ev.c) /\ UNCHANGED Obs
TRelease == IsEvent("Release") /\ AtT /\ Known /\ Release(Ev.c) /\ UNCHANGED Obs
TShutCall == IsEvent("ShutCall") /\ AtT /\ ShutCall(Ev.to) /\ UNCHANGED Obs
\* the latest moment something Shutdown waits for ended
LastEnd == LET E == {s[c].endAt : c \in {x \in Calls : s[x].wrapped /\ s[x].pc = "done"}} \cup {shut.cancelAt} IN
             CHOOSE x \in E : \A y \in E : x >= y
TShutRet == /\ IsEvent("ShutRet") /\ AtT /\ UNCHANGED Obs
            /\ shut.pc = "wait"
            /\ Named("ShutdownWaits", NoActive \/ (shut.dl # None /\ now >= shut.dl))
            /\ (ShutPollRet \/ ShutTimeout)
            /\ Named("ShutdownPrompt", Ev.t <= (IF shut'.timedOut THEN Max2(shut.dl, shut.cancelAt) ELSE LastEnd) + Poll)

\* observations
TEdgeRet == /\ IsEvent("EdgeRet") /\ AtT /\ Known /\ Ev.c \notin obsEdge /\ s[Ev.c].pc # "idle"
            /\ IF s[Ev.c].wrapped
                 THEN Named("WrappedEdgeAsync", Ev.nil /\ s[Ev.c].goAt = Ev.t)
                 ELSE /\ s[Ev.c].pc = "done"
                      /\ Named("SyncEdgeResult", s[Ev.c].endAt = Ev.t /\ Ev.nil = (s[Ev.c].why = "ok"))
            /\ obsEdge' = obsEdge \cup {Ev.c} /\ UNCHANGED <<vars, obsRet, obsCtx>>
TCtxDone == /\ IsEvent("CtxDone") /\ AtT /\ Known /\ Ev.c \notin obsCtx
            /\ s[Ev.c].ctx \in {"canceled", "deadline"}
            /\ Named("CtxEnd", s[Ev.c].ctx = Ev.err /\ s[Ev.c].ctxAt = Ev.t)
            /\ obsCtx' = obsCtx \cup {Ev.c} /\ UNCHANGED <<vars, obsRet, obsEdge>>
TRet == /\ IsEvent("Ret") /\ AtT /\ Known /\ Ev.c \notin obsRet
        /\ Named("UnexpectedReturn", s[Ev.c].pc \notin {"bo", "call", "fn", "init"})
        /\ s[Ev.c].pc \in {"done", "refused"} /\ s[Ev.c].endAt = Ev.t
        /\ obsRet' = obsRet \cup {Ev.c} /\ UNCHANGED <<vars, obsCtx, obsEdge>>
\* the end of the schedule: everything has returned and has been seen to
Spawned == {c \in Calls : s[c].pc # "idle"}
TEnd == /\ IsEvent("End") /\ AtT /\ Quiet /\ UNCHANGED <<vars, Obs>>
        /\ Named("AllReturned", \A c \in Spawned : s[c].pc \in {"done", "refused"})
        /\ Named("ShutdownReturns", shut.pc \in {"idle", "returned"})
        /\ Named("CtxEndSeen", obsCtx = {c \in Spawned : s[c].ctx \in {"canceled", "deadline"}})
        /\ Named("ReturnSeen", Mode = "fort" => obsRet = Spawned)
        /\ Named("EdgeReturnSeen", Mode = "wire" => obsEdge = Spawned)

\* the backoff timer of the production constructor: the delay is not logged; the call's next attempt shows it
Proph(c) == LET K == {k \in l..TLen : Trace[k].ev = "AStart" /\ Trace[k].c = c} IN
              IF K = {} THEN now + DelayHi(s[c].it) ELSE Trace[Min(K)].t
TSilent == /\ Silent /\ UNCHANGED Obs
           /\ \/ \E c \in Calls : \/ StartAsync(c) \/ Classify(c) \/ EndSync(c)
                                  \/ (Mode = "wire" /\ Backoff(c, Proph(c)))
                                  \/ SelTimer(c) \/ SelCtx(c) \/ SelShut(c) \/ Chk(c) \/ CtxExpire(c)
              \/ ShutClose \/ ShutCancel
              \/ (l <= TLen /\ Tick(IF NextTimer < Ev.t THEN NextTimer ELSE Ev.t))
TraceNext == TReset \/ TGo \/ TAStart \/ TAEnd \/ TBO \/ TParentCancel \/ TRelease \/ TShutCall \/ TShutRet
             \/ TEdgeRet \/ TCtxDone \/ TRet \/ TEnd \/ TSilent
TraceSpec == TraceInit /\ [][TraceNext]_tvars
Mark == /\ CheckInv("RetryOnlyTemporary", RetryOnlyTemporary) /\ CheckInv("BackoffBetween", BackoffBetween)
        /\ CheckInv("WakeInRange", WakeInRange) /\ CheckInv("NoRetryPastDeadline", NoRetryPastDeadline)
        /\ CheckInv("NoRetryAfterCancel", NoRetryAfterCancel) /\ CheckInv("NoAttemptAfterShutdown", NoAttemptAfterShutdown)
        /\ CheckInv("RefusedAfterShutdown", RefusedAfterShutdown) /\ CheckInv("ShutdownWaits", ShutdownWaits)
        /\ CheckInv("ShutdownTimeout", ShutdownTimeout) /\ CheckInv("CtxByDeadline", CtxByDeadline)
        /\ CheckInv("CtxDeadlineExact", CtxDeadlineExact) /\ CheckInv("CtxCancelOnShutdown", CtxCancelOnShutdown)
        /\ CheckInv("CtxReleased", CtxReleased) /\ CheckInv("TimeoutOnlyAtDeadline", TimeoutOnlyAtDeadline)
        /\ CheckInv("ActiveConsistent", ActiveConsistent) /\ CheckInv("SyncOnce", SyncOnce) /\ CheckInv("TypeOK", TypeOK)
        /\ HWMark
====
