---- MODULE Retry ----
(* app/retry/retry.go (Retryer: New / NewForT, DoAsync, Shutdown) and its wiring core/retry.go (WithAsyncRetry).

   A CALL is one invocation of a workflow edge.  For the five edges that WithAsyncRetry wraps (`wrapped`) the edge
   function returns nil at once and `go retryer.DoAsync(ctx, duty, topic, name, fn)` runs; every other edge calls the
   component synchronously, once, with the caller's context.  One action per critical section / select arm of DoAsync
   and Shutdown (pc values of a wrapped call):

     idle -Go-> go -StartAsync-> init | refused           startAsync: under mu, refused once the shutdown channel is closed
     init -EnterFirst-> fn                                backoffProvider(), ctxTimeoutFunc(asyncCtx, duty) -- NOT the
                                                          parent context --, first fn(ctx) (no ctx check before it)
     fn   -FnReturn(r)-> ret                              ENVIRONMENT: the wrapped function returns r
     ret  -Classify-> done | bo | chk                     nil: done; not (ctx | net | temporary text) error: done;
                                                          otherwise backoff iff ctx.Err() == nil
     bo   -Backoff(w)-> sel                               timer := backoffFunc(i), fires at w
     sel  -SelTimer | SelCtx-> chk, -SelShut-> done       the three arms of the select
     chk  -Chk-> done | call                              asyncCtx.Err() != nil: done; ctx.Err() != nil: done; else i++
     call -EnterRetry-> fn
   `defer cancel()` and `defer endAsync` are one step (End).  Shutdown: called -ShutClose-> closed -ShutCancel-> wait
   -ShutPollRet | ShutTimeout-> returned, ShutPollWait = a tick of the 100 ms ticker that still finds active calls.

   Time: `now` only advances (Tick) when no goroutine can take a step (Quiet) and never beyond the next timer: every
   internal step is urgent, ties between timers that are due at the same instant are resolved nondeterministically
   (as the Go runtime does).  FnReturn, Go, ShutCall, ParentCancel, Release are the environment's and may happen any
   time.

   What the doc comments promise is stated as invariants below ("Contract"); Defect switches model plausible defects
   for the control configurations. *)
EXTENDS Integers, Sequences, FiniteSets, TLC

CONSTANTS Calls,     \* call identifiers
          Poll,      \* period of Shutdown's ticker
          Ticks,     \* TRUE: Shutdown re-checks at ticker times only (as coded); FALSE: whenever it likes (trace validation:
                     \*       the doc comment only promises "waits for all active function to complete or timeout")
          Defect     \* "none" | "noWait" | "noDeadline" | "sharedBackoff" | "classFlip" | "lateAttempt" | "noRefuse"

None == -1
Inf == 2000000000
Min(S) == CHOOSE x \in S : \A y \in S : x <= y
Max2(a, b) == IF a >= b THEN a ELSE b
Last(q) == q[Len(q)]

VARIABLES now,      \* clock
          conf,     \* [lo, hi]: sequences, bounds of the backoff delay per iteration (last entry repeats); never changes
          s,        \* per call: record, see IdleRec
          att,      \* per call: history of attempts [s, e, res, cs, canc, aftershut]
          active,   \* the `active` map: label -> count (entries are deleted at 0)
          shut,     \* Shutdown's state, see ShutIdle
          boN       \* number of backoffs so far (only read by Defect = "sharedBackoff")
vars == <<now, conf, s, att, active, shut, boN>>

IdleRec == [pc |-> "idle", wrapped |-> TRUE, label |-> "-", dl |-> None, gated |-> FALSE, it |-> 0, wake |-> None,
            ctx |-> "none", mk |-> None, ctxAt |-> None, endAt |-> None, why |-> "-", pcanc |-> FALSE, goAt |-> None, late |-> FALSE]
ShutIdle == [pc |-> "idle", callAt |-> None, dl |-> None, cancelAt |-> None, tick |-> None, retAt |-> None, timedOut |-> FALSE]
NoRes == [kind |-> "-", txt |-> ""]
InitWith(cf) == /\ now = 0 /\ conf = cf /\ s = [c \in Calls |-> IdleRec] /\ att = [c \in Calls |-> <<>>]
                /\ active = [x \in {} |-> 0] /\ shut = ShutIdle /\ boN = 0

Idx(q, i) == q[IF i + 1 > Len(q) THEN Len(q) ELSE i + 1]
DelayLo(i) == Idx(conf.lo, i)
DelayHi(i) == Idx(conf.hi, i)

---------------------------------------------------------------------------------------------------
(* Classification of what the wrapped function returned (DoAsync + isTemporaryBeaconErr).  A result is
   [kind, txt]: kind "ok" (nil), "net" (errors.As(err, *net.Error) holds), "canceled" / "deadline" (errors.Is
   context.Canceled / context.DeadlineExceeded: the error of an INNER call or of the handed context), "text" / "eth2"
   (any other error value; only its text matters).  isTemporaryBeaconErr is strings.Contains(err.Error(), m) for m in
   "future", "current or previous", "retryable": TLC has no substring operator, so the texts the generators may use are
   tabulated here; checks/grow_retry.py reads its menus from these two definitions. *)
TempTexts == {
  "Proposer duties were requested for a future epoch",
  "Cannot create attestation for future slot",
  "Attestations must be from the current or previous epoch",
  "retryable",
  "fetch attester data: POST failed with status 400: slot is in the future",
  "non-retryable failure",
  "GET failed with status 503: retryable error: node overloaded",
  "unfutureproof" }
PermTexts == {
  "some error",
  "internal server error",
  "GET failed with status 503: Beacon node is currently syncing and not serving requests",
  "POST failed with status 500: internal error",
  "POST failed with status 400: Attestation is from the Future",
  "previous or current epoch required",
  "Retryable",
  "retry able",
  "consensus timeout",
  "duplicate ParSignedData" }
Class(r) == CASE r.kind = "ok" -> "ok"
              [] r.kind \in {"net", "canceled", "deadline"} -> "retry"
              [] r.kind \in {"text", "eth2"} -> IF r.txt \in TempTexts THEN "retry" ELSE IF r.txt \in PermTexts THEN "perm" ELSE "unknown"
              [] OTHER -> "unknown"
Eff(r) == IF Defect = "classFlip" /\ Class(r) = "perm" THEN "retry" ELSE Class(r)

(* core.NewDutyDeadlineFunc (core/deadline.go): the deadline of a duty relative to genesis = 0; None for the duty types
   that never time out.  slotd = slot duration, spe = slots per epoch, marginFactor = 12. *)
DutyDeadline(type, slot, slotd, spe) ==
  IF type \in {"exit", "builder_registration"} THEN None
  ELSE slot * slotd + (slotd \div 12) +
       (CASE type \in {"proposer", "randao"} -> slotd \div 3
          [] type \in {"sync_message", "sync_contribution"} -> slotd
          [] type \in {"attester", "aggregator"} -> spe * slotd
          [] type \in {"prepare_aggregator", "prepare_sync_contribution"} -> 2 * spe * slotd
          [] OTHER -> slotd)

(* core/retry.go: the edges WithAsyncRetry wraps and the topic/name they are run under. *)
WrappedEdges == {"fetch", "participate", "propose", "psbcast", "bcast"}
EdgeLabel(e) == CASE e = "fetch" -> "fetcher/fetch" [] e = "participate" -> "consensus/participate"
                  [] e = "propose" -> "consensus/propose" [] e = "psbcast" -> "parsigex/broadcast"
                  [] e = "bcast" -> "bcast/broadcast" [] OTHER -> "-"

---------------------------------------------------------------------------------------------------
Closed == shut.pc \in {"closed", "wait", "returned"}        \* the shutdown channel is closed
Cancelled == shut.pc \in {"wait", "returned"}               \* asyncCancel() was called
HasDL(c) == s[c].dl # None /\ Defect # "noDeadline"         \* ctxTimeoutFunc applies a deadline
Running == {"init", "call", "fn", "ret", "bo", "sel", "chk"}
NoActive == DOMAIN active = {}
Inc(l) == IF l \in DOMAIN active THEN [active EXCEPT ![l] = @ + 1] ELSE [x \in DOMAIN active \cup {l} |-> IF x = l THEN 1 ELSE active[x]]
Dec(l) == IF active[l] = 1 THEN [x \in DOMAIN active \ {l} |-> active[x]] ELSE [active EXCEPT ![l] = @ - 1]
Upd(c, r) == s' = [s EXCEPT ![c] = r]
NewAtt(cs) == [s |-> now, e |-> None, res |-> NoRes, cs |-> cs, canc |-> Cancelled,
               aftershut |-> (shut.pc = "returned" /\ ~shut.timedOut)]

\* ENVIRONMENT: an edge of the workflow is invoked (a = [wrapped, label, dl, gated])
Go(c, a) ==
  /\ s[c].pc = "idle"
  /\ Upd(c, [IdleRec EXCEPT !.pc = "go", !.wrapped = a.wrapped, !.label = a.label, !.dl = a.dl, !.gated = a.gated,
                            !.goAt = now, !.late = (shut.pc = "returned")])
  /\ UNCHANGED <<now, conf, att, active, shut, boN>>

\* startAsync (critical section of mu)
StartAsync(c) ==
  /\ s[c].pc = "go" /\ s[c].wrapped
  /\ IF Closed /\ Defect # "noRefuse"
       THEN Upd(c, [s[c] EXCEPT !.pc = "refused", !.endAt = now, !.why = "refused"]) /\ UNCHANGED active
       ELSE Upd(c, [s[c] EXCEPT !.pc = "init"]) /\ active' = Inc(s[c].label)
  /\ UNCHANGED <<now, conf, att, shut, boN>>

\* ctx := ctxTimeoutFunc(asyncCtx + values of parent, duty); i = 0; fn(ctx) is entered -- whatever the state of ctx
EnterFirst(c) ==
  /\ s[c].pc = "init" /\ ~s[c].gated
  /\ LET cx == IF Cancelled THEN "canceled" ELSE IF HasDL(c) /\ now >= s[c].dl THEN "deadline" ELSE "live" IN
       /\ Upd(c, [s[c] EXCEPT !.pc = "fn", !.ctx = cx, !.mk = now, !.ctxAt = IF cx = "live" THEN None ELSE now])
       /\ att' = [att EXCEPT ![c] = Append(@, NewAtt(cx))]
  /\ UNCHANGED <<now, conf, active, shut, boN>>
EnterRetry(c) ==
  /\ s[c].pc = "call"
  /\ Upd(c, [s[c] EXCEPT !.pc = "fn", !.it = @ + 1])
  /\ att' = [att EXCEPT ![c] = Append(@, NewAtt(s[c].ctx))]
  /\ UNCHANGED <<now, conf, active, shut, boN>>
\* an edge that is not wrapped: the component is called with the caller's context
EnterSync(c) ==
  /\ s[c].pc = "go" /\ ~s[c].wrapped
  /\ LET cx == IF s[c].pcanc THEN "canceled" ELSE "live" IN
       /\ Upd(c, [s[c] EXCEPT !.pc = "fn", !.ctx = cx, !.ctxAt = IF cx = "live" THEN None ELSE now])
       /\ att' = [att EXCEPT ![c] = Append(@, NewAtt(cx))]
  /\ UNCHANGED <<now, conf, active, shut, boN>>
EnterFn(c) == EnterFirst(c) \/ EnterRetry(c) \/ EnterSync(c)

\* ENVIRONMENT: the function returns r
FnReturn(c, r) ==
  /\ s[c].pc = "fn"
  /\ Upd(c, [s[c] EXCEPT !.pc = "ret"])
  /\ att' = [att EXCEPT ![c][Len(att[c])].e = now, ![c][Len(att[c])].res = r]
  /\ UNCHANGED <<now, conf, active, shut, boN>>

\* return of DoAsync: `defer cancel()` (a no-op when no deadline was applied), `defer endAsync(label)`
EndRec(c, why) == [s[c] EXCEPT !.pc = "done", !.endAt = now, !.why = why,
                               !.ctx = IF HasDL(c) /\ @ = "live" THEN "canceled" ELSE @,
                               !.ctxAt = IF HasDL(c) /\ s[c].ctx = "live" THEN now ELSE @]
End(c, why) == Upd(c, EndRec(c, why)) /\ active' = Dec(s[c].label)

Classify(c) ==
  /\ s[c].pc = "ret" /\ s[c].wrapped
  /\ LET k == Eff(Last(att[c]).res) IN
       CASE k = "ok" -> End(c, "success")
         [] k = "perm" -> End(c, "permanent")
         [] k = "retry" -> Upd(c, [s[c] EXCEPT !.pc = IF s[c].ctx = "live" THEN "bo" ELSE "chk"]) /\ UNCHANGED active
         [] OTHER -> FALSE
  /\ UNCHANGED <<now, conf, att, shut, boN>>
EndSync(c) ==
  /\ s[c].pc = "ret" /\ ~s[c].wrapped
  /\ Upd(c, [s[c] EXCEPT !.pc = "done", !.endAt = now, !.why = Class(Last(att[c]).res)])
  /\ UNCHANGED <<now, conf, att, active, shut, boN>>

\* timer := backoffFunc(i): a fresh backoffFunc per DoAsync, so i counts this call's iterations
BoIndex(c) == IF Defect = "sharedBackoff" THEN boN ELSE s[c].it
Backoff(c, w) ==
  /\ s[c].pc = "bo"
  /\ Upd(c, [s[c] EXCEPT !.pc = "sel", !.wake = w])
  /\ boN' = IF Defect = "sharedBackoff" THEN boN + 1 ELSE boN
  /\ UNCHANGED <<now, conf, att, active, shut>>
SelTimer(c) == /\ s[c].pc = "sel" /\ now >= s[c].wake /\ Upd(c, [s[c] EXCEPT !.pc = "chk"])
               /\ UNCHANGED <<now, conf, att, active, shut, boN>>
SelCtx(c) == /\ s[c].pc = "sel" /\ s[c].ctx # "live" /\ Upd(c, [s[c] EXCEPT !.pc = "chk"])
             /\ UNCHANGED <<now, conf, att, active, shut, boN>>
SelShut(c) == /\ s[c].pc = "sel" /\ Closed /\ End(c, "shutdown")
              /\ UNCHANGED <<now, conf, att, shut, boN>>
Chk(c) ==
  /\ s[c].pc = "chk"
  /\ IF Cancelled THEN End(c, "shutdown")
     ELSE IF s[c].ctx # "live" /\ Defect # "lateAttempt" THEN End(c, "timeout")
     ELSE Upd(c, [s[c] EXCEPT !.pc = "call"]) /\ UNCHANGED active
  /\ UNCHANGED <<now, conf, att, shut, boN>>
\* the timer of context.WithDeadline
CtxExpire(c) ==
  /\ s[c].wrapped /\ HasDL(c) /\ s[c].ctx = "live" /\ now >= s[c].dl
  /\ Upd(c, [s[c] EXCEPT !.ctx = "deadline", !.ctxAt = now])
  /\ UNCHANGED <<now, conf, att, active, shut, boN>>
\* ENVIRONMENT: the caller's context ends; DoAsync has switched to asyncCtx, only an unwrapped edge sees it
ParentCancel(c) ==
  /\ s[c].pc # "idle" /\ ~s[c].pcanc
  /\ Upd(c, [s[c] EXCEPT !.pcanc = TRUE,
                         !.ctx = IF ~s[c].wrapped /\ @ = "live" THEN "canceled" ELSE @,
                         !.ctxAt = IF ~s[c].wrapped /\ s[c].ctx = "live" THEN now ELSE @])
  /\ UNCHANGED <<now, conf, att, active, shut, boN>>
\* ENVIRONMENT (NewForT only): an injected ctxTimeoutFunc that blocks until released
Release(c) == /\ s[c].gated /\ Upd(c, [s[c] EXCEPT !.gated = FALSE])
              /\ UNCHANGED <<now, conf, att, active, shut, boN>>

\* ENVIRONMENT: Shutdown(ctx) with a ctx that ends after `to` (None: never)
ShutCall(to) == /\ shut.pc = "idle"
                /\ shut' = [ShutIdle EXCEPT !.pc = "called", !.callAt = now, !.dl = IF to = None THEN None ELSE now + to]
                /\ UNCHANGED <<now, conf, s, att, active, boN>>
ShutClose == /\ shut.pc = "called" /\ shut' = [shut EXCEPT !.pc = "closed"]
             /\ UNCHANGED <<now, conf, s, att, active, boN>>
\* asyncCancel(): every context derived from asyncCtx ends (also those of finished calls that had no deadline);
\* the ticker is created, the first `someActive()` is evaluated at once
ShutCancel == /\ shut.pc = "closed"
              /\ shut' = [shut EXCEPT !.pc = "wait", !.cancelAt = now, !.tick = now]
              /\ s' = [c \in Calls |-> IF s[c].wrapped /\ s[c].ctx = "live"
                                         THEN [s[c] EXCEPT !.ctx = "canceled", !.ctxAt = now] ELSE s[c]]
              /\ UNCHANGED <<now, conf, att, active, boN>>
ShutPollRet == /\ shut.pc = "wait" /\ (Ticks => now >= shut.tick)
               /\ (NoActive \/ Defect = "noWait")
               /\ shut' = [shut EXCEPT !.pc = "returned", !.retAt = now]
               /\ UNCHANGED <<now, conf, s, att, active, boN>>
ShutPollWait == /\ Ticks /\ shut.pc = "wait" /\ now >= shut.tick /\ ~NoActive /\ Defect # "noWait"
                /\ shut' = [shut EXCEPT !.tick = @ + Poll]
                /\ UNCHANGED <<now, conf, s, att, active, boN>>
\* `case <-ctx.Done()` of the select Shutdown blocks in after a check that found active calls
ShutTimeout == /\ shut.pc = "wait" /\ shut.dl # None /\ now >= shut.dl /\ (Ticks => shut.tick > shut.cancelAt)
               /\ shut' = [shut EXCEPT !.pc = "returned", !.retAt = now, !.timedOut = TRUE]
               /\ UNCHANGED <<now, conf, s, att, active, boN>>

\* no goroutine can take a step
CallQuiet(c) == /\ CASE s[c].pc \in {"idle", "fn", "done", "refused"} -> TRUE
                     [] s[c].pc = "init" -> s[c].gated
                     [] s[c].pc = "sel" -> now < s[c].wake /\ s[c].ctx = "live" /\ ~Closed
                     [] OTHER -> FALSE
                /\ ~(s[c].wrapped /\ HasDL(c) /\ s[c].ctx = "live" /\ now >= s[c].dl)
ShutQuiet == CASE shut.pc \in {"idle", "returned"} -> TRUE
               [] shut.pc = "wait" -> (Ticks => now < shut.tick /\ (shut.dl = None \/ now < shut.dl))
               [] OTHER -> FALSE
Quiet == ShutQuiet /\ \A c \in Calls : CallQuiet(c)
Timers == {s[c].wake : c \in {x \in Calls : s[x].pc = "sel"}}
          \cup {s[c].dl : c \in {x \in Calls : s[x].wrapped /\ HasDL(x) /\ s[x].ctx = "live"}}
          \cup (IF Ticks /\ shut.pc = "wait" THEN {shut.tick} \cup (IF shut.dl = None THEN {} ELSE {shut.dl}) ELSE {})
NextTimer == IF Timers = {} THEN Inf ELSE Min(Timers)
Tick(to) == /\ Quiet /\ to > now /\ to <= NextTimer /\ now' = to
            /\ UNCHANGED <<conf, s, att, active, shut, boN>>

---------------------------------------------------------------------------------------------------
(* Contract.  "Functions are linked to a deadline, executed asynchronously and network or context errors retried with
   backoff until the deadline has elapsed" (package comment); "Shutdown triggers graceful shutdown and waits for all
   active function to complete or timeout"; "ctxTimeoutFunc returns a context that is cancelled when duties for a slot
   have elapsed"; core/retry.go: "wraps component input functions with the async Retryer". *)
Wrapped == {c \in Calls : s[c].pc # "idle" /\ s[c].wrapped}
Sync == {c \in Calls : s[c].pc # "idle" /\ ~s[c].wrapped}
\* an attempt is only followed by another one when it failed with a network / context / temporary error
RetryOnlyTemporary == \A c \in Wrapped : \A k \in 1..(Len(att[c]) - 1) : Class(att[c][k].res) = "retry"
\* ... and then only after the backoff of that iteration (each DoAsync counts its own iterations)
BackoffBetween == \A c \in Wrapped : \A k \in 1..(Len(att[c]) - 1) :
                     LET g == att[c][k + 1].s - att[c][k].e IN g >= DelayLo(k - 1) /\ g <= DelayHi(k - 1)
WakeInRange == \A c \in Wrapped : s[c].pc = "sel" =>
                     LET e == Last(att[c]).e IN s[c].wake >= e + DelayLo(Len(att[c]) - 1) /\ s[c].wake <= e + DelayHi(Len(att[c]) - 1)
\* no retry after the duty's deadline; a retry is handed a context that has not ended (or ends in that very instant)
NoRetryPastDeadline == \A c \in Wrapped : s[c].dl # None => \A k \in 2..Len(att[c]) :
                          /\ att[c][k].s <= s[c].dl
                          /\ att[c][k].cs # "live" => s[c].ctxAt = att[c][k].s
\* no retry once Shutdown has cancelled (only in the instant of the cancellation itself)
NoRetryAfterCancel == \A c \in Wrapped : \A k \in 2..Len(att[c]) : att[c][k].canc => shut.cancelAt = att[c][k].s
\* nothing runs once Shutdown has returned (without timing out); a later DoAsync is refused without an attempt
NoAttemptAfterShutdown == \A c \in Wrapped : \A k \in 1..Len(att[c]) : ~att[c][k].aftershut
RefusedAfterShutdown == \A c \in Wrapped : /\ (s[c].late /\ s[c].pc # "go") => s[c].pc = "refused"
                                           /\ s[c].pc = "refused" => att[c] = <<>>
ShutdownWaits == (shut.pc = "returned" /\ ~shut.timedOut) => \A c \in Wrapped : s[c].pc \notin Running
ShutdownTimeout == shut.timedOut => shut.dl # None /\ shut.retAt >= shut.dl
\* the context handed to the function ends at the duty's deadline, at Shutdown, and when DoAsync returns
CtxByDeadline == \A c \in Wrapped : (s[c].dl # None /\ s[c].ctx = "live") => now <= s[c].dl
CtxDeadlineExact == \A c \in Wrapped : s[c].ctx = "deadline" => s[c].ctxAt = Max2(s[c].dl, s[c].mk)
CtxCancelOnShutdown == Cancelled => \A c \in Wrapped : s[c].ctx # "live"
CtxReleased == \A c \in Wrapped : (s[c].pc = "done" /\ s[c].dl # None) => s[c].ctx # "live"
TimeoutOnlyAtDeadline == \A c \in Wrapped : s[c].why = "timeout" => s[c].dl # None /\ s[c].endAt >= s[c].dl
\* the `active` map counts the DoAsyncs between startAsync and endAsync, per label
ActiveConsistent == /\ \A l \in DOMAIN active : active[l] = Cardinality({c \in Wrapped : s[c].label = l /\ s[c].pc \in Running})
                    /\ \A c \in Wrapped : s[c].pc \in Running => s[c].label \in DOMAIN active
\* an edge that is not wrapped is one synchronous call with the caller's context
SyncOnce == \A c \in Sync : Len(att[c]) <= 1 /\ (s[c].pc = "done" => s[c].why = Class(att[c][1].res))
TypeOK == /\ now \in Nat /\ \A c \in Calls : s[c].it = Max2(Len(att[c]) - 1, 0) \/ s[c].pc = "idle"
Safety == /\ RetryOnlyTemporary /\ BackoffBetween /\ WakeInRange /\ NoRetryPastDeadline /\ NoRetryAfterCancel
          /\ NoAttemptAfterShutdown /\ RefusedAfterShutdown /\ ShutdownWaits /\ ShutdownTimeout /\ CtxByDeadline
          /\ CtxDeadlineExact /\ CtxCancelOnShutdown /\ CtxReleased /\ TimeoutOnlyAtDeadline /\ ActiveConsistent
          /\ SyncOnce /\ TypeOK
\* calls do not interfere: a step of one call leaves every other call alone (only asyncCancel touches them all)
Independent == [][\A c, d \in Calls : (c # d /\ s'[c] # s[c] /\ s'[d] # s[d]) => shut'.cancelAt # shut.cancelAt]_vars
====
