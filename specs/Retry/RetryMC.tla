---- MODULE RetryMC ----
(* Exhaustive design check: every interleaving of up to three calls (two of them under the same label, one possibly on an
   edge that is not wrapped, one possibly held at an injected ctxTimeoutFunc), what their attempts return and when,
   the clock, Shutdown with and without a timeout at every position.  Bounds (all here, none in the actions):
     MCCalls   which of the calls 1..3 are made         MaxTime   the clock stops there
     MaxAtt    attempts per call (the last one may only succeed or fail permanently)
     ShutTOs   timeouts of Shutdown's context (None: never)      PCancel   calls whose parent context may be cancelled
   Backoff table of the model: 1 before the first retry, 2..3 afterwards (a range, as the jitter makes it). *)
EXTENDS Retry
CONSTANTS MCCalls, MaxTime, MaxAtt, ShutTOs, PCancel, Gates, DL1, DL2s, W2, LB2, W3, Res
MCConf == [lo |-> <<1, 2>>, hi |-> <<1, 3>>]
ROk == [kind |-> "ok", txt |-> ""]
RPerm == [kind |-> "text", txt |-> "some error"]
RTemp == [kind |-> "text", txt |-> "retryable"]
RNet == [kind |-> "net", txt |-> ""]
TONever == {None}
TOBoth == {None, 1}
TOZero == {None, 0, 2}
DL2 == {2}
DL24 == {2, 4}
DLN == {None}
DLN3 == {None, 3}
WT == {TRUE}
WF == {FALSE}
LA == {"A"}
LAB == {"A", "B"}
WB == BOOLEAN
R2 == {ROk, RTemp}
R3 == {ROk, RPerm, RTemp}
R4 == {ROk, RPerm, RTemp, RNet}
Attrs(c) == CASE c = 1 -> {[wrapped |-> TRUE, label |-> "A", dl |-> d, gated |-> g] : d \in DL1, g \in Gates}
              [] c = 2 -> {[wrapped |-> w, label |-> lb, dl |-> d, gated |-> FALSE] : d \in DL2s, w \in W2, lb \in LB2}
              [] OTHER -> {[wrapped |-> w, label |-> "B", dl |-> 3, gated |-> FALSE] : w \in W3}
Results(c) == IF Len(att[c]) >= MaxAtt THEN {ROk, RPerm} ELSE Res
Internal(c) == \/ StartAsync(c) \/ EnterFn(c) \/ Classify(c) \/ EndSync(c)
               \/ \E w \in (now + DelayLo(BoIndex(c)))..(now + DelayHi(BoIndex(c))) : Backoff(c, w)
               \/ SelTimer(c) \/ SelCtx(c) \/ SelShut(c) \/ Chk(c) \/ CtxExpire(c)
Shutd == ShutClose \/ ShutCancel \/ ShutPollRet \/ ShutPollWait \/ ShutTimeout
Env == \/ \E c \in MCCalls : \/ \E a \in Attrs(c) : Go(c, a)
                             \/ \E r \in Results(c) : FnReturn(c, r)
                             \/ (c \in PCancel /\ ParentCancel(c))
                             \/ Release(c)
       \/ \E to \in ShutTOs : ShutCall(to)
MCInit == InitWith(MCConf)
(* VIEW.  The histories (times of all attempts, of returns) multiply the states although the future only depends on the
   last two attempts of a running call.  Two states with the same View have the same futures; every instance of an
   invariant over the hidden part is immutable once it holds (times and flags of past attempts never change, ctxAt and
   cancelAt are set once) and the truth of Safety itself is part of the view, so a state that violates Safety is never
   identified with one that does not. *)
CallView(c) == IF s[c].pc \in {"done", "refused"} THEN <<s[c].pc, s[c].wrapped, s[c].ctx, s[c].pcanc, s[c].late>>
               ELSE <<[s[c] EXCEPT !.goAt = None], Len(att[c]), SubSeq(att[c], Max2(1, Len(att[c]) - 1), Len(att[c]))>>
View == <<now, [c \in Calls |-> CallView(c)], active, shut, boN, Safety>>
MCNext == Env \/ (\E c \in MCCalls : Internal(c)) \/ Shutd \/ (now < MaxTime /\ Tick(now + 1))
MCSpec == MCInit /\ [][MCNext]_vars

(* Liveness (fault-free tree): with goroutines that keep running, a function that keeps returning and a clock that keeps
   going, every call with a deadline ends and Shutdown returns.  The clock of the model stops at MaxTime: there the
   ticker of Shutdown is allowed to fire without the clock moving (TickSat). *)
TickSat == /\ now = MaxTime /\ Quiet /\ shut.pc = "wait" /\ shut' = [shut EXCEPT !.tick = now]
           /\ UNCHANGED <<now, conf, s, att, active, boN>>
LiveNext == MCNext \/ TickSat
Fair == /\ \A c \in Calls : WF_vars(Internal(c)) /\ WF_vars(\E r \in Results(c) : FnReturn(c, r)) /\ WF_vars(Release(c))
        /\ WF_vars(Shutd) /\ WF_vars(now < MaxTime /\ Tick(now + 1)) /\ WF_vars(TickSat)
FairSpec == MCInit /\ [][LiveNext]_vars /\ Fair
CallsEnd == \A c \in Calls : (s[c].pc # "idle" /\ s[c].dl # None /\ s[c].dl <= MaxTime) ~> (s[c].pc \in {"done", "refused"})
ShutdownReturns == (shut.pc # "idle") ~> (shut.pc = "returned")
\* NOT a property (control): a call without deadline may retry until Shutdown -- and the model's clock stops
AllCallsEnd == \A c \in Calls : (s[c].pc # "idle") ~> (s[c].pc \in {"done", "refused"})
\* after Shutdown was called every call ends, deadline or not
AllEndAfterShutdown == \A c \in Calls : (s[c].pc # "idle" /\ shut.pc # "idle") ~> (s[c].pc \in {"done", "refused"})
====
