SPECIFICATION MCSpec
CONSTANTS
 Calls = {1, 2, 3}
 MCCalls = {1, 2, 3}
 Poll = 2
 Ticks = TRUE
 Defect = "none"
 MaxTime = 2
 MaxAtt = 2
 ShutTOs <- TONever
 PCancel = {3}
 Gates = {FALSE}
 DL1 <- DL2
 DL2s <- DLN
 W2 <- WT
 LB2 <- LA
 W3 <- WB
 Res <- R2
INVARIANTS Safety
PROPERTIES Independent
VIEW View
CHECK_DEADLOCK FALSE
