SPECIFICATION MCSpec
CONSTANTS
 Calls = {1, 2, 3}
 MCCalls = {1, 2, 3}
 Poll = 2
 Ticks = TRUE
 Defect = "none"
 MaxTime = 3
 MaxAtt = 2
 ShutTOs <- TONever
 PCancel = {3}
 Gates = {FALSE}
 DL1 <- DL2
 DL2s <- DLN
 W3 <- WB
 Res <- R3
INVARIANTS Safety
PROPERTIES Independent
VIEW View
CHECK_DEADLOCK FALSE
