SPECIFICATION GenSpec
CONSTANTS
 Calls = {1, 2}
 Poll = 2
 Ticks = TRUE
 Defect = "none"
 MaxTime = 10
 GenLen = 8
INVARIANTS Emit
CONSTRAINT Stop
CHECK_DEADLOCK FALSE
