SPECIFICATION MCSpec
CONSTANTS
 Calls = {1, 2}
 MCCalls = {1, 2}
 Poll = 2
 Ticks = TRUE
 Defect = "none"
 MaxTime = 4
 MaxAtt = 2
 ShutTOs <- TOBoth
 PCancel = {1, 2}
 Gates = {FALSE, TRUE}
 DL1 <- DL2
 DL2s <- DLN
 W2 <- WB
 LB2 <- LAB
 W3 <- WT
 Res <- R3
INVARIANTS Safety
PROPERTIES Independent
VIEW View
CHECK_DEADLOCK FALSE
