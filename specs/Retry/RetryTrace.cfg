SPECIFICATION TraceSpec
CONSTANTS
 Calls = {1, 2, 3, 4, 5, 6}
 Poll = 100000
 Ticks = FALSE
 Defect = "none"
CONSTRAINT Mark
POSTCONDITION Report
CHECK_DEADLOCK FALSE
