SPECIFICATION MCSpec
CONSTANTS
 Calls = {1, 2}
 MCCalls = {1, 2}
 Poll = 2
 Ticks = TRUE
 Defect = "none"
 MaxTime = 4
 MaxAtt = 3
 ShutTOs <- TOBoth
 PCancel = {}
 Gates = {FALSE}
 DL1 <- DL24
 DL2s <- DLN3
 W2 <- WT
 LB2 <- LA
 W3 <- WT
 Res <- R3
INVARIANTS Safety
PROPERTIES Independent
VIEW View
CHECK_DEADLOCK FALSE
