SPECIFICATION GenSpec
CONSTANTS
 Calls = {1, 2, 3}
 Poll = 2
 Ticks = TRUE
 Defect = "none"
 MaxTime = 10
 GenLen = 12
INVARIANTS Emit
CONSTRAINT Stop
CHECK_DEADLOCK FALSE
