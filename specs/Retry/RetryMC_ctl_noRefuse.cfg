SPECIFICATION MCSpec
CONSTANTS
 Calls = {1, 2}
 MCCalls = {1, 2}
 Poll = 2
 Ticks = TRUE
 Defect = "noRefuse"
 MaxTime = 3
 MaxAtt = 2
 ShutTOs <- TONever
 PCancel = {}
 Gates = {FALSE}
 DL1 <- DL2
 DL2s <- DLN
 W2 <- WT
 LB2 <- LA
 W3 <- WT
 Res <- R3
INVARIANTS RefusedAfterShutdown
VIEW View
CHECK_DEADLOCK FALSE
