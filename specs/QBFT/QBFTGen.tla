---- MODULE QBFTGen ----
(* Schedule generation for the executor: behaviours of QBFTMC (incl. the adversary's repertoire) recorded in the
   history variable `hist` as environment moves with their arguments; run with -simulate.  A behaviour is printed
   when every honest member has decided or when it reaches GenLen steps. *)
EXTENDS QBFTMC, Json, SequencesExt
CONSTANTS GenLen
VARIABLE hist
MsgJ(m) == [type |-> m.type, src |-> m.src, round |-> m.round, value |-> m.value, pr |-> m.pr, pv |-> m.pv,
            just |-> SetToSeq(m.just)]
GenInit == MCInit /\ hist = <<>>
GenNext ==
  \/ \E p \in Honest \ Silent : Start(p) /\ UNCHANGED <<dlv, ntimeouts, ndup, nbyz, pc, lost, phase, nwin>>
                       /\ hist' = Append(hist, [ev |-> "Start", p |-> p])
  \/ \E p \in Honest : Inputs[p] # 0 /\ Input(p, Inputs[p]) /\ UNCHANGED <<dlv, ntimeouts, ndup, nbyz, pc, lost, phase, nwin>>
                       /\ hist' = Append(hist, [ev |-> "Input", p |-> p, v |-> Inputs[p]])
  \/ \E p \in Honest : /\ st[p].round < MaxRound /\ ntimeouts < MaxTimeouts
                       /\ Timeout(p) /\ ntimeouts' = ntimeouts + 1 /\ UNCHANGED <<dlv, ndup, nbyz, pc, lost, phase, nwin>>
                       /\ hist' = Append(hist, [ev |-> "Timeout", p |-> p])
  \/ \E p \in Honest : \E m \in msgs :
        /\ m.round <= MaxRound
        /\ \/ (m \notin dlv[p] /\ ndup' = ndup)
           \/ (m \in dlv[p] /\ ndup < DupBudget /\ ndup' = ndup + 1)
        /\ Deliver(p, m) /\ dlv' = [dlv EXCEPT ![p] = @ \cup {m}] /\ UNCHANGED <<ntimeouts, nbyz, pc, lost, phase, nwin>>
        /\ hist' = Append(hist, [ev |-> "Deliver", p |-> p, m |-> MsgJ(m)])
  \/ /\ Byz # {} /\ nbyz < MaxByz
     /\ \E m \in Repertoire : m \notin msgs /\ ByzSend(m) /\ nbyz' = nbyz + 1
                               /\ hist' = Append(hist, [ev |-> "ByzSend", m |-> MsgJ(m)])
     /\ UNCHANGED <<dlv, ntimeouts, ndup, pc, lost, phase, nwin>>
GenSpec == GenInit /\ [][GenNext]_<<mcvars, hist>>
AllDecided == \A p \in Honest : st[p].decided
Emit == ~(AllDecided \/ Len(hist) >= GenLen) \/ PrintT("@@SCHED@@" \o ToJson(hist))
Stop == Len(hist) <= GenLen /\ ~(AllDecided /\ Len(hist) > 0 /\ hist[Len(hist)].ev = "Start")
GenInv == Safety /\ NoHonestUnjust
====
