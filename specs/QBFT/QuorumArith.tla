---- MODULE QuorumArith ----
(* The arithmetic the QBFT safety argument rests on, for every cluster size 1..MaxN, and its binding to the code:
   core/qbft Definition.Quorum() = ceil(2n/3) and Definition.Faulty() = floor((n-1)/3) are computed with float64
   math in Go; the executor (harness/c02 TestQuorumArith) logs both for every n and this module demands the integer
   formulas.  Checked as constant-level theorems (ASSUME) by TLC:
     - any two quorums intersect in at least F+1 members (hence in an honest one),
     - a quorum can be formed without the faulty members (Q <= N - F),
     - F+1 members contain an honest one, and N >= 3F+1. *)
EXTENDS Integers, Sequences, TLC, Json
CONSTANT MaxN
Q(n) == (2 * n + 2) \div 3
F(n) == (n - 1) \div 3
Lemmas == \A n \in 1..MaxN :
            /\ 2 * Q(n) - n >= F(n) + 1          \* two quorums share an honest member
            /\ Q(n) <= n - F(n)                  \* liveness: the honest members alone form a quorum
            /\ n >= 3 * F(n) + 1
            /\ 3 * Q(n) >= 2 * n /\ 3 * (Q(n) - 1) < 2 * n      \* Q is exactly ceil(2n/3)
            /\ 3 * F(n) <= n - 1 /\ 3 * (F(n) + 1) > n - 1      \* F is exactly floor((n-1)/3)
ASSUME Lemmas
\* binding: the values the Go code computes (one JSON object per line: {"n":..,"q":..,"f":..})
Obs == ndJsonDeserialize("quorum.ndjson")
Conforms == \A i \in DOMAIN Obs : Obs[i].q = Q(Obs[i].n) /\ Obs[i].f = F(Obs[i].n)
Covered == {Obs[i].n : i \in DOMAIN Obs} = 1..MaxN
ASSUME PrintT("@@QA@@" \o ToJson([conforms |-> Conforms, covered |-> Covered, n |-> Len(Obs)]))
VARIABLE x
Init == x = 0
Next == UNCHANGED x
Spec == Init /\ [][Next]_x
====
