SPECIFICATION TSpec
CONSTANTS N = 5
 Inst = 0
 Byz = {}
 CompareFail = {}
 Policy = "inc"
 LatSet = {1}
 Offsets <- OffsetsLateLdr
 Inputs <- InputsT
 MaxTime = 120
 MaxCrash = 1
 Slack = 0
INVARIANTS Safety NoHonestUnjust BoundedRounds NoRunaway DecidedInTime
VIEW TView
CHECK_DEADLOCK FALSE
