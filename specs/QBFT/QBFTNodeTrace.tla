---- MODULE QBFTNodeTrace ----
(* Cluster tier, per member: "trace validation of an unmodified system".  The REAL core/consensus/qbft.Consensus component
   hands its per-instance message log to snifferFunc: the sequence of messages its transport pushed into qbft.Run's receive
   channel (foreign messages that passed Consensus.handle, and the member's own broadcasts looped back).  checks/
   conscluster_node.py turns the transcript of member P into
     {"ev":"Reset","n":N,"inst":Inst,"p":P,"input":v|0,"eagerinput":b,"timeouts":k,"lastround":r,"cands":[msg..]}
     {"ev":"Deliver","m":msg} ...                      in sniffer order, NO outputs logged
     {"ev":"Final","decided":b,"v":v,"round":r}        what the member's subscriber saw
   and TLC has to find a behaviour of QBFT.tla for member P that explains it:
     * Start, Input (the member's own proposal) and Timeout are SILENT steps TLC places itself; the number of Timeouts must
       equal the number of "round_timeout" round changes the component logged, the final round must be the logged one;
     * every own message in the transcript must have been BROADCAST by an earlier step of the specification - with exactly
       that type, round, value, prepared round/value and justification set (the spec's nondeterministic producers, i.e. Go
       map order, are resolved by TLC) - and is looped back at most once;
     * foreign messages are the environment's;
     * at the end the member has decided in the specification iff its subscriber was called, with the same value and round.
   Tolerated imprecision of the observation itself (the sniffer records a message AFTER the channel send, on another
   goroutine): two transcript entries may be swapped when they are at most W-1 positions apart, and the last messages
   consumed before the decision may be missing (the instance ends before they are recorded): hidden deliveries of at most two
   own broadcasts and one foreign PREPARE / COMMIT / DECIDED that was on the wire for the decided value are allowed right
   before Final.
   All members are declared honest (Byz = {}) and only P ever steps; the other members' state stays initial. *)
EXTENDS QBFTTrace
CONSTANT W        \* tolerated displacement of a transcript entry (3; 8 for the re-check of a rejected transcript)
VARIABLES done,     \* positions above l consumed out of order
          looped,   \* own messages already looped back
          hid,      \* hidden deliveries used at the end: [own: 0..2, foreign: BOOLEAN]
          nto       \* silent Timeout steps so far
nvars == <<vars, tr, l, done, looped, hid, nto>>
Cfg == Trace[1]
P == Cfg.p
NInit == TraceInit /\ done = {} /\ looped = {} /\ hid = [own |-> 0, foreign |-> FALSE] /\ nto = 0
Keep == UNCHANGED <<tr, l, done, looped, hid, nto>>
NextFree(from) == CHOOSE j \in from..(TLen + 1) : j \notin done /\ \A k \in from..(j - 1) : k \in done
Consume(i) == /\ tr' = tr
              /\ IF i = l THEN /\ l' = NextFree(l + 1) /\ done' = {j \in done : j > NextFree(l + 1)}
                          ELSE /\ l' = l /\ done' = done \cup {i}
NReset == /\ l = 1 /\ Trace[1].ev = "Reset" /\ Consume(1) /\ UNCHANGED <<vars, looped, hid, nto>>
\* the moment the proposal arrives only matters to a member that leads some round of the run: every other member's Input is
\* taken right after Start (Cfg.eagerinput is computed from the leader rotation by the converter)
InputFirst == Cfg.eagerinput /\ Cfg.input # 0 /\ st[P].input = 0
AtMsg == l <= TLen /\ Trace[l].ev \in {"Deliver", "Final"}
NStart == AtMsg /\ ~st[P].started /\ Start(P) /\ Keep
NInput == AtMsg /\ Cfg.input # 0 /\ Input(P, Cfg.input) /\ Keep
NTimeout == /\ AtMsg /\ ~InputFirst /\ nto < Cfg.timeouts /\ Timeout(P) /\ nto' = nto + 1 /\ UNCHANGED <<tr, l, done, looped, hid>>
Window == {i \in l..(l + W - 1) : i <= TLen /\ i \notin done /\ \A k \in l..i : Trace[k].ev = "Deliver"}
NDeliver == \E i \in Window :
              LET m == MsgOf(Trace[i].m) IN
              /\ ~InputFirst
              /\ (m.src = P => m \in msgs /\ m \notin looped)
              /\ Deliver(P, m)
              /\ looped' = IF m.src = P THEN looped \cup {m} ELSE looped
              /\ Consume(i) /\ UNCHANGED <<hid, nto>>
AtFinal == l <= TLen /\ Trace[l].ev = "Final" /\ done = {}
Cands == {MsgOf(c) : c \in SeqToSet(Cfg.cands)}
\* the end of the transcript may be short of what the member consumed just before it decided: its transport records a message
\* after the hand-over, each own broadcast on a goroutine of its own (at most 2 tolerated), foreign messages on one goroutine
\* (so at most 1), and the instance ends with the decision
CanHide == AtFinal /\ Trace[l].decided /\ ~st[P].decided
NHiddenOwn == /\ CanHide /\ hid.own < 2
              /\ \E m \in msgs : m.src = P /\ m \notin looped /\ Deliver(P, m) /\ looped' = looped \cup {m}
              /\ hid' = [hid EXCEPT !.own = @ + 1] /\ UNCHANGED <<tr, l, done, nto>>
NHiddenForeign == /\ CanHide /\ ~hid.foreign
                  /\ \E m \in Cands : m.src # P /\ Deliver(P, m)
                  /\ hid' = [hid EXCEPT !.foreign = TRUE] /\ UNCHANGED <<tr, l, done, looped, nto>>
NHidden == NHiddenOwn \/ NHiddenForeign
\* a member that was cut off (crash, end of the run) may have consumed a last message the transcript does not show: its round
\* and timeout count are then not compared
NFinal == /\ AtFinal
          /\ LET e == Trace[l] IN
             /\ e.decided = st[P].decided
             /\ e.decided => (st[P].dval = e.v /\ st[P].dround = e.round /\ nto = Cfg.timeouts /\ st[P].round = Cfg.lastround)
          /\ Consume(l) /\ UNCHANGED <<vars, looped, hid, nto>>
NNext == NReset \/ NStart \/ NInput \/ NTimeout \/ NDeliver \/ NHidden \/ NFinal
NSpec == NInit /\ [][NNext]_nvars
\* QBFT.tla's invariants as far as they speak about a single member
NMark == /\ CheckInv("DecideOnce", st[P].ndec <= 1) /\ CheckInv("NonZero", st[P].decided => st[P].dval # 0)
         /\ CheckInv("QuorumBacked", st[P].decided =>
                        Cardinality(Srcs(FiltV(st[P].qc, "C", st[P].dround, st[P].dval))) >= Q)
         /\ CheckInv("OneVotePerRound", \A a, b \in msgs : (a.src = P /\ b.src = P /\ a.round = b.round /\ a.type = b.type
                                                             /\ a.type \in {"P", "C", "PP"}) => a.value = b.value)
         /\ CheckInv("TypeOK", st[P].round >= 1 /\ st[P].pr <= st[P].round)
NActOK == /\ CheckInv("RoundMonotonic", st'[P].round >= st[P].round \/ st'[P].decided)
          /\ HWMarkA
====
