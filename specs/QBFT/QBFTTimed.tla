---- MODULE QBFTTimed ----
(* C04, design level: QBFT.tla (no Byzantine member) under a discrete clock with the two round-timer policies of
   core/consensus/timer/roundtimer.go, bounded message latency, start offsets and at most MaxCrash members that crash
   at an arbitrary point -- also in the middle of a broadcast, which then reaches an arbitrary subset of the members --
   or never start.  Time unit = 250 ms.
   Urgency: time does not pass while a member is due to start, a timer is due or a delivery is due, so bounded
   termination is a state invariant.  Events due at the same instant are taken in one canonical order per class
   (starts, then inputs; the earliest due timer versus the earliest due delivery is a free choice); sensitivity to the
   delivery order inside an instant is what the untimed configurations explore.  The free choices are: the per-sender
   latency, who crashes, at which of its broadcasting steps, and which members still receive that last broadcast.

   Timer policies (deadline of the timer armed for round r; `first` remembers the first deadline per round):
     "inc"    increasingRoundTimer:        now + 750 ms + r * 250 ms   (re-armed from `now` on every NewTimer call)
     "eager"  doubleEagerLinearRoundTimer: first call for r: dutyStart + r * 1 s (absolute);
                                           later calls (justified PRE-PREPARE in r): first + r * 1 s ("double") *)
EXTENDS QBFT
CONSTANTS Policy, LatSet, Offsets, Inputs, MaxTime, MaxCrash,
          Slack     \* extra rounds tolerated by BoundedRounds beyond one rotation (0 = the property as stated)
VARIABLES now, tdl, first, pend, slat, crashed, r0
tvars == <<vars, now, tdl, first, pend, slat, crashed, r0>>
Inf == 1000000
U == 4                                   \* time units per second
Deadline(r, fst) == IF Policy = "inc" THEN now + 3 + r
                    ELSE IF r \in DOMAIN fst THEN fst[r] + r * U ELSE r * U
TInit == /\ Init /\ now = 0 /\ tdl = [p \in Honest |-> Inf] /\ first = [p \in Honest |-> <<>>]
         /\ pend = {} /\ slat \in [Honest -> LatSet] /\ crashed = {} /\ r0 = 1

Alive(c) == Honest \ c
Running(s, c) == {p \in Alive(c) : s[p].started}
MaxRunRound(s, c) == LET R == {s[p].round : p \in Running(s, c)} IN
                     IF R = {} THEN 1 ELSE CHOOSE x \in R : \A y \in R : x >= y
\* (recipient set, crash?) choices for a step of p: complete, or crash inside the broadcast
Choices(p, broadcasting) ==
  {<<Honest, FALSE>>} \cup
  (IF broadcasting /\ Cardinality(crashed) < MaxCrash THEN {<<S, TRUE>> : S \in SUBSET (Honest \ {p})} ELSE {})
\* clock-side effects of a step of member p (st', out' are fixed by the QBFT action conjoined with it)
After(p, consumed, fault) ==
  \E ch \in Choices(p, out'.bcast # NoMsg) :
    /\ LET s == st'[p] IN
       IF s.narm > st[p].narm
         THEN /\ tdl' = [tdl EXCEPT ![p] = Deadline(s.timer, first[p])]
              /\ first' = IF Policy = "eager" /\ s.timer \notin DOMAIN first[p]
                            THEN [first EXCEPT ![p] = [r \in DOMAIN first[p] \cup {s.timer} |->
                                                         IF r = s.timer THEN s.timer * U ELSE first[p][r]]]
                            ELSE first
         ELSE /\ tdl' = IF s.timer = 0 THEN [tdl EXCEPT ![p] = Inf] ELSE tdl
              /\ UNCHANGED first
    /\ pend' = ((pend \ consumed) \cup
                IF out'.bcast = NoMsg THEN {}
                ELSE {<<q, out'.bcast, now + (IF q = p THEN 0 ELSE slat[p])>> : q \in ch[1] \ (IF ch[2] THEN {p} ELSE {})})
    /\ crashed' = IF ch[2] THEN crashed \cup {p} ELSE crashed
    /\ r0' = IF ch[2] \/ fault THEN MaxRunRound(st', crashed') ELSE r0
    /\ UNCHANGED <<now, slat>>

TypeRank(t) == CASE t = "PP" -> 0 [] t = "P" -> 1 [] t = "C" -> 2 [] t = "RC" -> 3 [] OTHER -> 4
DKey(x) == (((x[3] * 100 + x[2].round) * 5 + TypeRank(x[2].type)) * N + x[2].src) * N + x[1]
DueDel == {x \in pend : x[3] <= now /\ x[1] \in Running(st, crashed)}
DueStart == {p \in Alive(crashed) : ~st[p].started /\ Offsets[p] <= now}
DueInput == {p \in Running(st, crashed) : st[p].input = 0 /\ Inputs[p] # 0}
DueTimer == {p \in Running(st, crashed) : ~st[p].decided /\ tdl[p] <= now}
MinP(S) == CHOOSE q \in S : \A z \in S : q <= z

StartT == /\ DueStart # {}
          /\ LET p == MinP(DueStart) IN
             \/ Start(p) /\ After(p, {}, now > 0)                     \* a late start counts as a fault
             \/ /\ Cardinality(crashed) < MaxCrash                      \* a silent member: never starts
                /\ crashed' = crashed \cup {p} /\ r0' = r0
                /\ UNCHANGED <<vars, now, tdl, first, pend, slat>>
InputT == /\ DueStart = {} /\ DueInput # {}
          /\ LET p == MinP(DueInput) IN Input(p, Inputs[p]) /\ After(p, {}, FALSE)
TimeoutT == /\ DueStart = {} /\ DueInput = {} /\ DueTimer # {}
            /\ LET p == MinP(DueTimer) IN Timeout(p) /\ After(p, {}, FALSE)
DeliverT == /\ DueStart = {} /\ DueInput = {} /\ DueDel # {}
            /\ LET x == CHOOSE y \in DueDel : \A z \in DueDel : DKey(y) <= DKey(z) IN
               Deliver(x[1], x[2]) /\ After(x[1], {x}, FALSE)
\* traffic addressed to members that crashed or never start is dropped
Tick == /\ DueStart = {} /\ DueInput = {} /\ DueTimer = {} /\ DueDel = {} /\ now < MaxTime
        /\ now' = now + 1
        /\ pend' = {x \in pend : x[1] \in Alive(crashed)}
        /\ UNCHANGED <<vars, tdl, first, slat, crashed, r0>>
TNext == StartT \/ InputT \/ TimeoutT \/ DeliverT \/ Tick
TSpec == TInit /\ [][TNext]_tvars

---------------------------------------------------------------------------------------------------
\* late starts raise r0 as crashes do (maintained here as a derived bound: the highest round at the latest offset)
Quiet == DueStart = {} /\ DueInput = {} /\ DueTimer = {} /\ DueDel = {}
AllDecided == \A p \in Running(st, crashed) : st[p].decided
\* every running member decides, in a round at most one leader rotation after r0
BoundedRounds == \A p \in Running(st, crashed) : st[p].decided => st[p].dround <= r0 + N + Slack
\* rounds never run away: an undecided running member is never more than one rotation past r0
NoRunaway == \A p \in Running(st, crashed) : ~st[p].decided => st[p].round <= r0 + N + Slack
\* by the time bound everybody has decided
DecidedInTime == now = MaxTime => AllDecided
\* everybody has decided 10 s / 20 s after the duty started
DecidedBy40 == now < 40 \/ AllDecided
DecidedBy80 == now < 80 \/ AllDecided
TSafety == Safety /\ NoHonestUnjust /\ BoundedRounds /\ NoRunaway /\ DecidedInTime
TView == <<st, msgs, unjust, now, tdl, first, pend, slat, crashed, r0>>
====
