SPECIFICATION MCSpec
CONSTANTS N = 4
 Inst = 0
 Byz = {2}
 CompareFail = {}
 Inputs <- InputsC
 MaxRound = 2
 MaxTimeouts = 0
 DupBudget = 0
 MaxByz = 2
 Vals = {1, 2}
 Script <- ScriptPreparedThenRC
 Silent = {}
 WinFamily = "rc"
 WinBudget = 12
 PreStarted = TRUE
INVARIANTS Safety
PROPERTIES DecisionFrozen
VIEW View
CHECK_DEADLOCK FALSE
