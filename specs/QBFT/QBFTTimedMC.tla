---- MODULE QBFTTimedMC ----
EXTENDS QBFTTimed
InputsT == [p \in Honest |-> 1 + (p % 2)]
OffsetsZero == [p \in Honest |-> 0]
OffsetsLate == [p \in Honest |-> IF p = 0 THEN 3 ELSE IF p = 2 THEN 1 ELSE 0]      \* 750 ms, 250 ms late
OffsetsLateLdr == [p \in Honest |-> IF p = (Inst + 1) % N THEN 3 ELSE IF p = 3 THEN 2 ELSE 0]   \* the round-1 leader 750 ms late
====
