---- MODULE QBFTClusterTrace ----
(* Cluster tier ("ConsCluster"): trace validation of runs of n REAL core/consensus/qbft.Consensus components
   (harness/conscluster: NewConsensus + Start + Participate/Propose on in-memory libp2p hosts, real p2p.Sender, real
   deadliner and gater, real round timers, all inside a testing/synctest bubble, i.e. in virtual time).

   Nothing of a member's inside is driven or logged step by step here; the log holds what an observer of the cluster
   sees, in virtual-time order:
     {"ev":"Reset","sid":..,"n":N,"inst":Inst,"rot":k,"byz":[..],"timer":"eager"|"inc","timely":b}
        (members are logged as (i - k) mod N, k = (slot + duty type) mod N: the leader rotation REQUIRED of the component then is
         Leader(r) = r mod N, Inst = 0, for every slot and duty type, and all rotations share one set of constants)
     {"ev":"Start","p":p,"now":t}                       Participate / Propose called on member p
     {"ev":"Propose","p":p,"v":v,"now":t}               Propose(duty, value v) called on p
     {"ev":"Send","p":p,"m":msg,"now":t}                a distinct wire message of honest p enters the network
     {"ev":"Round","p":p,"old":r,"new":r2,"rule":..}    p's qbft core changed round (LogRoundChange, as logged by the component)
     {"ev":"Unjust","p":p,"type":..,"src":s}            p's qbft core dropped a message of s as unjustified (LogUnjust)
     {"ev":"Reject","from":s,"err":..,"kind":k}         Consensus.handle of a live honest member refused a wire message of s
     {"ev":"Decide","p":p,"v":v,"round":r,"now":t}      p's Subscribe callback fired with value v (round from the component)
     {"ev":"Crash","p":p} {"ev":"Loss",..}              faults injected by the network
     {"ev":"ByzSend","b":b,"m":msg,"to":[..]}           a Byzantine member put a crafted message on the wire
     {"ev":"RunErr","p":p,..} {"ev":"Expired","p":p,"instances":k}
     {"ev":"End","now":t}   {"ev":"Sniff","p":p,"msgs":[..]}   (the transcript the component handed to snifferFunc)

   The state is QBFT.tla's own (`st`, `msgs`, `unjust`) as far as it is observable, so that the design spec's
   invariants are evaluated LITERALLY: Agreement, DecideOnce, NonZero, Validity, LeaderProposed, OneVotePerRound,
   NoHonestUnjust (QBFT.tla) and BoundedDecision (QBFTTimedTrace.tla: at the end every running member has decided, in a
   round at most one leader rotation after r0, the highest round of a running member at the last fault).  On top:
     HonestJustified   every PRE-PREPARE / ROUND-CHANGE / DECIDED an honest member puts on the wire is justified by the
                       justification it carries (QBFT.tla's isJustified* predicates applied to the wire message);
     HonestLeader      an honest member only sends a PRE-PREPARE for a round it leads (the component's leader() is Leader);
     SendRound         an honest member never sends a message for a round above its current one;
     NoHonestReject    no wire message of an honest member is refused by Consensus.handle of another honest member;
     Authentic         whatever a member's qbft core received in the name of an honest member (top level or inside a
                       justification) was sent by that member (the transcript against the wire);
     TimelyDecision    (eager timer) a member decides before the doubled deadline of the highest round it was in;
     OneInstance, SendOrder   one qbft process per member and duty: one transcript, rounds on the wire never go back;
     NoInstanceError, InstancesExpire. *)
EXTENDS QBFTTimedTrace
CONSTANT DevStopOnDecide   \* FALSE: the property as stated.  TRUE (deviation cfg, finding C04-component-stops-on-decide): a running
                           \* member may remain undecided when so many members have decided - the component cancels a decided
                           \* instance, so they no longer answer ROUND-CHANGE with DECIDED - that the undecided ones (plus the
                           \* Byzantine members) are fewer than a quorum
VARIABLES rejected, runerr, leftover, dtime, rmax
cvars == <<now, r0, ended, rejected, runerr, leftover, dtime, rmax>>
ctvars == <<vars, tr, l, cvars>>
Cfg == Trace[1]
Timely == Cfg.timely
AtTime == Ev.now >= now /\ now' = Ev.now
Same(S) == UNCHANGED S

CInit == /\ TraceInit /\ now = 0 /\ r0 = 1 /\ ended = FALSE /\ rejected = {} /\ runerr = FALSE /\ leftover = 0
         /\ dtime = [p \in Honest |-> 0] /\ rmax = [p \in Honest |-> 1]

CReset == TReset /\ Same(cvars)
\* Start(p) of QBFT.tla as far as visible: the member is running its instance from now on; a late start is a fault
CStart == /\ IsEvent("Start") /\ Ev.p \in Honest /\ ~st[Ev.p].started /\ ~ended /\ AtTime
          /\ st' = [st EXCEPT ![Ev.p].started = TRUE]
          /\ r0' = IF Ev.now > 0 THEN MaxRunRound(st') ELSE r0
          /\ Same(<<msgs, out, unjust, ended, rejected, runerr, leftover, dtime, rmax>>)
CPropose == /\ IsEvent("Propose") /\ Ev.p \in Honest /\ st[Ev.p].input = 0 /\ Ev.v # 0 /\ ~ended /\ AtTime
            /\ st' = [st EXCEPT ![Ev.p].input = Ev.v]
            /\ Same(<<msgs, out, unjust, r0, ended, rejected, runerr, leftover, dtime, rmax>>)
\* a wire message of an honest member
CSend == /\ IsEvent("Send") /\ Ev.p \in Honest /\ ~ended /\ AtTime
         /\ LET m == MsgOf(Ev.m) IN m.src = Ev.p /\ msgs' = msgs \cup {m}
         /\ Same(<<st, out, unjust, r0, ended, rejected, runerr, leftover, dtime, rmax>>)
\* changeRound as logged by the component (a crashed member's last words are ignored)
CRound == /\ IsEvent("Round") /\ Ev.p \in Honest /\ AtTime
          /\ IF st[Ev.p].running
               THEN /\ st[Ev.p].round = Ev.old /\ Ev.new # Ev.old
                    /\ (Ev.rule = "round_timeout" => Ev.new = Ev.old + 1)
                    /\ st' = [st EXCEPT ![Ev.p].round = Ev.new]
                    /\ rmax' = [rmax EXCEPT ![Ev.p] = IF Ev.new > @ THEN Ev.new ELSE @]
               ELSE Same(<<st, rmax>>)
          /\ Same(<<msgs, out, unjust, r0, ended, rejected, runerr, leftover, dtime>>)
CUnjust == /\ IsEvent("Unjust") /\ Ev.p \in Honest /\ AtTime
           /\ unjust' = unjust \cup {<<Ev.p, [src |-> Ev.src, type |-> Ev.type]>>}
           /\ Same(<<st, msgs, out, r0, ended, rejected, runerr, leftover, dtime, rmax>>)
\* (a refusal because the duty's receive buffer stayed full for the whole receive timeout says nothing about the message)
CReject == /\ IsEvent("Reject") /\ AtTime
           /\ rejected' = IF Ev.kind = "buffer" THEN rejected ELSE rejected \cup {Ev.from}
           /\ Same(<<vars, r0, ended, runerr, leftover, dtime, rmax>>)
\* Definition.Decide -> the Subscribe callback (a member that crashed in the same instant may still be heard)
CDecide == /\ IsEvent("Decide") /\ Ev.p \in Honest /\ Ev.sameduty /\ AtTime
           /\ st' = [st EXCEPT ![Ev.p].decided = TRUE, ![Ev.p].dval = Ev.v, ![Ev.p].dround = Ev.round,
                               ![Ev.p].ndec = @ + 1, ![Ev.p].round = Ev.round]
           /\ dtime' = [dtime EXCEPT ![Ev.p] = Ev.now]
           /\ Same(<<msgs, out, unjust, r0, ended, rejected, runerr, leftover, rmax>>)
CCrash == /\ IsEvent("Crash") /\ Ev.p \in Honest /\ Crash(Ev.p) /\ AtTime /\ r0' = MaxRunRound(st')
          /\ Same(<<ended, rejected, runerr, leftover, dtime, rmax>>)
CLoss == /\ IsEvent("Loss") /\ AtTime /\ r0' = MaxRunRound(st)
         /\ Same(<<vars, ended, rejected, runerr, leftover, dtime, rmax>>)
\* adversarial stimulus: recorded as sent by the Byzantine member (no well-formedness is required of an attempt)
CByz == /\ IsEvent("ByzSend") /\ Ev.b \in Byz /\ AtTime
        /\ LET m == MsgOf(Ev.m) IN m.src = Ev.b /\ msgs' = msgs \cup {m}
        /\ Same(<<st, out, unjust, r0, ended, rejected, runerr, leftover, dtime, rmax>>)
CRunErr == /\ IsEvent("RunErr") /\ AtTime /\ runerr' = TRUE
           /\ Same(<<vars, r0, ended, rejected, leftover, dtime, rmax>>)
CExpired == /\ IsEvent("Expired") /\ AtTime /\ leftover' = leftover + Ev.instances
            /\ Same(<<vars, r0, ended, rejected, runerr, dtime, rmax>>)
CEnd == /\ IsEvent("End") /\ AtTime /\ ended' = TRUE
        /\ Same(<<vars, r0, rejected, runerr, leftover, dtime, rmax>>)
\* the transcript of member p: checked by the state constraint below (Authentic) in the state BEFORE it is consumed
CSniff == /\ IsEvent("Sniff") /\ ended /\ Same(<<vars, cvars>>)
CNext == \/ CReset \/ CStart \/ CPropose \/ CSend \/ CRound \/ CUnjust \/ CReject \/ CDecide \/ CCrash \/ CLoss \/ CByz
         \/ CRunErr \/ CExpired \/ CEnd \/ CSniff
CSpec == CInit /\ [][CNext]_ctvars

---------------------------------------------------------------------------------------------------
HonestWire == {m \in msgs : m.src \in Honest}
HonestJustified == \A m \in HonestWire : TRUE \in JustifiedSet(m, 0)
HonestLeader == \A m \in HonestWire : m.type = "PP" => Leader(m.round) = m.src
NoHonestReject == rejected \cap Honest = {}
\* evaluated on the event just consumed (Prev): position-exact
Prev == Trace[l - 1]
JustDid(e) == l > 1 /\ Prev.ev = e
SendRound == JustDid("Send") /\ Prev.p \in Honest /\ st[Prev.p].running /\ ~st[Prev.p].decided
               => Prev.m.round <= rmax[Prev.p]
SniffBases(s) == UNION {{Strip(MsgOf(x.m))} \cup {Norm(BaseOf(b)) : b \in SeqToSet(x.m.just)} : x \in SeqToSet(s.msgs)}
\* (the member's own messages are looped back inside the component and need not have reached the wire: a crashed member)
Authentic == JustDid("Sniff") => \A b \in SniffBases(Prev) : (b.src \in Honest /\ b.src # Prev.p) => b \in HonestSent
\* One qbft process per member and duty (QBFT.tla's `st[p]` is ONE process): the component hands one transcript to the sniffer,
\* and what a member puts on the wire never goes back to a lower round at a later (virtual) time - PRE-PREPARE, PREPARE, COMMIT
\* are sent for the current round, ROUND-CHANGE for the new one, rounds only grow (DECIDED carries the round decided in)
OneInstance == JustDid("Sniff") => Cardinality({i \in 1..(l - 1) : Trace[i].ev = "Sniff" /\ Trace[i].p = Prev.p}) = 1
SendOrder == (JustDid("Send") /\ Prev.p \in Honest /\ Prev.m.type # "D") =>
               \A i \in 1..(l - 2) : (Trace[i].ev = "Send" /\ Trace[i].p = Prev.p /\ Trace[i].m.type # "D" /\ Trace[i].now < Prev.now)
                                        => Trace[i].m.round <= Prev.m.round
TimelyDecision == (ended /\ Timely /\ Cfg.timer = "eager") =>
                     \A p \in Running(st) : st[p].decided => dtime[p] <= 2 * (Cfg.roundms * rmax[p] + Cfg.extrams)
Undecided == {p \in Running(st) : ~st[p].decided}
Stranded(p) == /\ DevStopOnDecide /\ p \in Undecided /\ \E q \in Honest : st[q].decided
               /\ Cardinality(Undecided) + Cardinality(Byz) < Q
BoundedDecisionT == Timely =>
                      IF DevStopOnDecide
                        THEN ended => \A p \in Running(st) : Stranded(p) \/ (st[p].decided /\ st[p].dround <= r0 + N)
                        ELSE BoundedDecision
CMark == /\ CheckInv("Agreement", Agreement) /\ CheckInv("DecideOnce", DecideOnce) /\ CheckInv("NonZero", NonZero)
         /\ CheckInv("Validity", Validity) /\ CheckInv("LeaderProposed", LeaderProposed)
         /\ CheckInv("OneVotePerRound", OneVotePerRound) /\ CheckInv("NoHonestUnjust", NoHonestUnjust)
         /\ CheckInv("HonestJustified", HonestJustified) /\ CheckInv("HonestLeader", HonestLeader)
         /\ CheckInv("SendRound", SendRound) /\ CheckInv("NoHonestReject", NoHonestReject)
         /\ CheckInv("OneInstance", OneInstance) /\ CheckInv("SendOrder", SendOrder)
         /\ CheckInv("Authentic", Authentic) /\ CheckInv("NoInstanceError", ~runerr)
         /\ CheckInv("InstancesExpire", leftover = 0)
         /\ CheckInv("BoundedDecision", BoundedDecisionT) /\ CheckInv("TimelyDecision", TimelyDecision)
CActOK == /\ CheckInv("DecisionFrozen", \A p \in Honest : st[p].decided =>
                         (st'[p].decided /\ st'[p].dval = st[p].dval /\ st'[p].dround = st[p].dround
                          /\ st'[p].ndec = st[p].ndec))
          \* (the component logs the round change of a deciding step - back to the round decided in - before the decision)
          /\ CheckInv("RoundMonotonic", \/ \A p \in Honest : st'[p].round >= st[p].round \/ st'[p].decided
                                        \/ /\ l <= TLen /\ Trace[l].ev = "Round"
                                           /\ Trace[l].rule \in {"quorum_commits", "justified_decided"})
          /\ HWMarkA
====
