---- MODULE QBFTTimedTrace ----
(* C04: trace validation of timed executions (harness/c04: real qbft.Run + real round timers on a fake clock in a
   discrete-event simulation with start offsets, bounded latencies and at most f crashed/silent members).
   Step legality is QBFT.tla's (every Timeout in the trace is a real timer expiry); on top of it:
     Clock monotone;
     NoHonestUnjust        no message of an honest member is ever rejected as unjustified;
     BoundedDecision       at the end of the run every running member has decided, in a round at most one full
                           leader rotation (N rounds) after r0, the highest round any running member was in at the
                           last fault (crash, silent member, late start). *)
EXTENDS QBFTTrace
CONSTANT DevEagerTieDesync   \* FALSE: the property as stated.  TRUE (deviation cfg, known finding C04-eager-timer-tie-desync):
                             \* one further leader rotation is tolerated for the dedicated zero-latency tie probe
                             \* (a replayed behaviour of QBFTTimed with the eager double-linear timer)
CONSTANT DevIncLateDesync     \* TRUE (deviation cfg, known finding C04-inc-timer-late-leader-desync): no bound on the decision
                             \* is demanded of runs with the increasing timer, a late starter and a silent / crashed member
VARIABLES now, r0, ended
ttvars == <<vars, tr, l, now, r0, ended>>
Running(s) == {p \in Honest : s[p].started /\ s[p].running}
MaxRunRound(s) == LET R == {s[p].round : p \in Running(s)} IN IF R = {} THEN 1 ELSE CHOOSE x \in R : \A y \in R : x >= y
Timed == /\ Ev.now >= now /\ now' = Ev.now /\ UNCHANGED ended
TTInit == TraceInit /\ now = 0 /\ r0 = 1 /\ ended = FALSE
TTReset == TReset /\ UNCHANGED <<now, r0, ended>>
TTStart == /\ TStart /\ Timed
           /\ r0' = IF Ev.now > 0 THEN MaxRunRound(st') ELSE r0          \* a late start is a fault
TTInput == TInput /\ Timed /\ UNCHANGED r0
TTTimeout == TTimeout /\ Timed /\ UNCHANGED r0
TTDeliver == TDeliver /\ Timed /\ UNCHANGED r0
TTCrash == /\ TCrash /\ Timed /\ r0' = MaxRunRound(st')
TTSilent == /\ IsEvent("Silent") /\ Crash(Ev.p) /\ Timed /\ UNCHANGED r0
TTEnd == /\ IsEvent("End") /\ UNCHANGED vars /\ ended' = TRUE /\ UNCHANGED <<now, r0>>
TTNext == TTReset \/ TTStart \/ TTInput \/ TTTimeout \/ TTDeliver \/ TTCrash \/ TTSilent \/ TTEnd
TTSpec == TTInit /\ [][TTNext]_ttvars
IsTieProbe == Has(Trace[1], "script") /\ Trace[1].timer = "eager"
\* signature of the inc-timer finding: increasing timer, a late starter and a silent / crashed member (the members split into
\* groups one round apart, none of them a quorum, and the re-arming of the timers keeps them apart)
IsIncSig == /\ Has(Trace[1], "timer") /\ Trace[1].timer = "inc"
            /\ \/ \E i \in 1..TLen : Trace[i].ev \in {"Silent", "Crash"}
               \/ \E p \in Honest : ~st[p].started                         \* (cluster log: a member that never starts)
            /\ \E i \in 1..TLen : Trace[i].ev = "Start" /\ Trace[i].now > 0
Slack == IF DevEagerTieDesync /\ IsTieProbe THEN N ELSE 0
BoundedDecision == ended => \/ DevIncLateDesync /\ IsIncSig
                           \/ \A p \in Running(st) : st[p].decided /\ st[p].dround <= r0 + N + Slack
AllStartedAtEnd == ended => \A p \in Honest : st[p].running => st[p].started
TMark == /\ CheckInv("BoundedDecision", BoundedDecision) /\ CheckInv("AllStartedAtEnd", AllStartedAtEnd)
         /\ CheckInv("NoHonestUnjust", NoHonestUnjust)
         /\ Mark
====
