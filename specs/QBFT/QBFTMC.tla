---- MODULE QBFTMC ----
(* Exhaustive / simulation configurations of QBFT.tla.  Bounds live here, never in the actions.
   dlv[p] is the set of messages already delivered to p (each message is delivered at most once, plus DupBudget
   re-deliveries in total); loss = never delivering.  The Byzantine repertoire is a state-dependent set of
   messages built from the adversary's own identity and honest messages seen so far. *)
EXTENDS QBFT
CONSTANTS Inputs,        \* [Honest -> value], 0: the member never obtains a proposal
          MaxRound, MaxTimeouts, DupBudget, MaxByz, Vals,
          Script,        \* scripted prefix (sequence of steps, see ScriptStep); <<>> for none
          PreStarted     \* TRUE: every member is started and has read its input in the initial state
VARIABLES dlv, ntimeouts, ndup, nbyz, pc
mcvars == <<vars, dlv, ntimeouts, ndup, nbyz, pc>>

\* input assignments selectable from the cfg (Inputs <- InputsX)
InputsA == [p \in Honest |-> IF p = 0 THEN 1 ELSE 2]              \* two distinct proposals
InputsB == [p \in Honest |-> IF p = 0 THEN 0 ELSE IF p = 1 THEN 1 ELSE 2]   \* member 0 never gets a proposal
InputsC == [p \in Honest |-> 1 + (p % 2)]
\* control variant: the quorum formula with floor instead of ceil (cfg: Q <- QFloor) must break Agreement
QFloor == (2*N) \div 3
\* state of a member that was started and (if it has one) has read its input; the leader of round 1 has
\* broadcast its PRE-PREPARE (Start + Input collapsed: both are local steps that commute with everything else)
StartedSt(p) == [InitSt EXCEPT !.started = TRUE, !.ppjSet = (Leader(1) = p), !.input = Inputs[p], !.timer = 1]
FirstPP == IF Leader(1) \in Honest /\ Inputs[Leader(1)] # 0
             THEN {Full(Base("PP", Leader(1), 1, Inputs[Leader(1)], 0, 0), {})} ELSE {}
MCInit == /\ IF PreStarted
               THEN st = [p \in Honest |-> StartedSt(p)] /\ msgs = FirstPP /\ out = NoOut /\ unjust = {}
               ELSE Init
          /\ dlv = [p \in Honest |-> {}] /\ ntimeouts = 0 /\ ndup = 0 /\ nbyz = 0 /\ pc = 1

Subsets(S, k) == {T \in SUBSET S : Cardinality(T) = k}
\* guided adversary repertoire (DESIGN.md C02): votes for every value, ROUND-CHANGEs with true / forged prepared
\* claims, PRE-PREPAREs justified by available ROUND-CHANGEs, DECIDED with real / too small / mixed COMMIT sets
Rounds == 1..MaxRound
HonestBases == HonestSent
ByzVotes == {Full(Base(t, b, r, v, 0, 0), {}) : t \in {"P", "C"}, b \in Byz, r \in Rounds, v \in Vals}
ByzOwnBases == {Base(t, b, r, v, 0, 0) : t \in {"P", "C"}, b \in Byz, r \in Rounds, v \in Vals}
PrepPool == {x \in HonestBases \cup ByzOwnBases : x.type = "P"}
ComPool == {x \in HonestBases \cup ByzOwnBases : x.type = "C"}
PrepChoices(pr, v) == Subsets(FiltV(PrepPool, "P", pr, v), Q) \cup Subsets(FiltV(PrepPool, "P", pr, v), Q-1) \cup {{}}
ByzRC == {Full(Base("RC", b, r, 0, 0, 0), {}) : b \in Byz, r \in 2..MaxRound}
         \cup UNION { UNION { { Full(Base("RC", b, r, 0, pr, v), j) : b \in Byz, r \in 2..MaxRound, j \in PrepChoices(pr, v) }
                               : v \in Vals } : pr \in 1..(MaxRound-1) }
RCPool(r) == {x \in HonestBases : x.type = "RC" /\ x.round = r} \cup {Strip(m) : m \in {y \in ByzRC : y.round = r}}
PPJust(r, v) == IF r = 1 THEN {{}}
                ELSE { rc \cup pq : rc \in (Subsets(RCPool(r), Q) \cup {{}}),
                                     pq \in ({{}} \cup UNION {Subsets(FiltV(PrepPool, "P", k, v), Q) : k \in 1..(r-1)}) }
ByzPP == UNION { UNION { { Full(Base("PP", b, r, v, 0, 0), j) : b \in Byz, j \in PPJust(r, v) } : v \in Vals } : r \in Rounds }
DJust(r, v) == Subsets(FiltV(ComPool, "C", r, v), Q) \cup Subsets(FiltV(ComPool, "C", r, v), Q-1)
ByzD == UNION { UNION { { Full(Base("D", b, r, v, 0, 0), j) : b \in Byz, j \in DJust(r, v) } : v \in Vals } : r \in Rounds }
Repertoire == ByzVotes \cup ByzRC \cup ByzPP \cup ByzD

\* a scripted step: [a |-> "Start"|"Input"|"Timeout", p] or [a |-> "Deliver", p, t, s, r] (the message of type t,
\* source s, round r -- unique for honest senders) 
ScriptStep(x) ==
  /\ pc' = pc + 1 /\ UNCHANGED <<ntimeouts, ndup, nbyz>>
  /\ CASE x.a = "Start"   -> Start(x.p) /\ UNCHANGED dlv
       [] x.a = "Input"   -> Input(x.p, Inputs[x.p]) /\ UNCHANGED dlv
       [] x.a = "Timeout" -> Timeout(x.p) /\ UNCHANGED dlv
       [] x.a = "Deliver" -> \E m \in msgs : /\ m.type = x.t /\ m.src = x.s /\ m.round = x.r
                                              /\ Deliver(x.p, m) /\ dlv' = [dlv EXCEPT ![x.p] = @ \cup {m}]
FreeNext ==
  \/ \E p \in Honest : Start(p) /\ UNCHANGED <<dlv, ntimeouts, ndup, nbyz>>
  \/ \E p \in Honest : Inputs[p] # 0 /\ Input(p, Inputs[p]) /\ UNCHANGED <<dlv, ntimeouts, ndup, nbyz>>
  \/ \E p \in Honest : /\ st[p].round < MaxRound /\ ntimeouts < MaxTimeouts
                       /\ Timeout(p) /\ ntimeouts' = ntimeouts + 1 /\ UNCHANGED <<dlv, ndup, nbyz>>
  \/ \E p \in Honest : \E m \in msgs :
        /\ m.round <= MaxRound
        /\ \/ (m \notin dlv[p] /\ ndup' = ndup)
           \/ (m \in dlv[p] /\ ndup < DupBudget /\ ndup' = ndup + 1)
        /\ Deliver(p, m) /\ dlv' = [dlv EXCEPT ![p] = @ \cup {m}] /\ UNCHANGED <<ntimeouts, nbyz>>
  \/ /\ Byz # {} /\ nbyz < MaxByz
     /\ \E m \in Repertoire : m \notin msgs /\ ByzSend(m) /\ nbyz' = nbyz + 1
     /\ UNCHANGED <<dlv, ntimeouts, ndup>>
MCNext == IF pc <= Len(Script) THEN ScriptStep(Script[pc]) ELSE (FreeNext /\ UNCHANGED pc)
MCSpec == MCInit /\ [][MCNext]_mcvars
View == <<st, msgs, unjust, dlv, ntimeouts, ndup, nbyz, pc>>
NoScript == <<>>
D(p, t, s, r) == [a |-> "Deliver", p |-> p, t |-> t, s |-> s, r |-> r]
T(p) == [a |-> "Timeout", p |-> p]
\* control scenario (N = 4, Inst = 0, InputsC, PreStarted): members 0,1 decide the round-1 leader's value with two
\* votes, members 2,3 time out and decide the round-2 leader's value -- only possible when the quorum is floor(2N/3)
ScriptFloorQuorum ==
  << D(0,"PP",1,1), D(1,"PP",1,1), D(0,"P",0,1), D(0,"P",1,1), D(1,"P",0,1), D(1,"P",1,1),
     D(0,"C",0,1), D(0,"C",1,1), D(1,"C",0,1), D(1,"C",1,1),
     T(2), T(3), D(2,"RC",2,2), D(2,"RC",3,2), D(2,"PP",2,2), D(3,"PP",2,2),
     D(2,"P",2,2), D(2,"P",3,2), D(3,"P",2,2), D(3,"P",3,2),
     D(2,"C",2,2), D(2,"C",3,2), D(3,"C",2,2), D(3,"C",3,2) >>
\* rounds stay within the bound the configuration explores
Bounded == \A p \in Honest : st[p].round <= MaxRound + 1
====
