---- MODULE QBFTMC ----
(* Exhaustive / simulation configurations of QBFT.tla.  Bounds live here, never in the actions.
   dlv[p] is the set of messages already delivered to p (each message is delivered at most once, plus DupBudget
   re-deliveries in total); loss = never delivering.  The Byzantine repertoire is a state-dependent set of
   messages built from the adversary's own identity and honest messages seen so far. *)
EXTENDS QBFT
CONSTANTS Inputs,        \* [Honest -> value], 0: the member never obtains a proposal
          MaxRound, MaxTimeouts, DupBudget, MaxByz, Vals,
          Script,        \* scripted prefix (sequence of steps, see ScriptStep); <<>> for none
          PreStarted,    \* TRUE: every member is started and has read its input in the initial state
          Silent,        \* members that never start (crashed before the duty began)
          WinFamily,     \* "none": free exploration after the script; otherwise a STRUCTURED WINDOW: the adversary first
                         \* injects up to MaxByz messages of this family ("rc", "pp", "votes", "d", "all"), then the pending
                         \* deliveries are taken in one canonical order with a deliver/lose choice each (2^k instead of k!)
          WinBudget      \* bound on deliver/lose decisions inside a window
VARIABLES dlv, ntimeouts, ndup, nbyz, pc, lost, phase, nwin
mcvars == <<vars, dlv, ntimeouts, ndup, nbyz, pc, lost, phase, nwin>>

\* input assignments selectable from the cfg (Inputs <- InputsX)
InputsA == [p \in Honest |-> IF p = 0 THEN 1 ELSE 2]              \* two distinct proposals
InputsB == [p \in Honest |-> IF p = 0 THEN 0 ELSE IF p = 1 THEN 1 ELSE 2]   \* member 0 never gets a proposal
InputsC == [p \in Honest |-> 1 + (p % 2)]
\* control variant: the quorum formula with floor instead of ceil (cfg: Q <- QFloor) must break Agreement
QFloor == (2*N) \div 3
\* state of a member that was started and (if it has one) has read its input; the leader of round 1 has
\* broadcast its PRE-PREPARE (Start + Input collapsed: both are local steps that commute with everything else)
StartedSt(p) == [InitSt EXCEPT !.started = TRUE, !.ppjSet = (Leader(1) = p), !.input = Inputs[p], !.timer = 1, !.narm = 1]
FirstPP == IF Leader(1) \in Honest \ Silent /\ Inputs[Leader(1)] # 0
             THEN {Full(Base("PP", Leader(1), 1, Inputs[Leader(1)], 0, 0), {})} ELSE {}
MCInit == /\ IF PreStarted
               THEN st = [p \in Honest |-> IF p \in Silent THEN InitSt ELSE StartedSt(p)] /\ msgs = FirstPP /\ out = NoOut /\ unjust = {}
               ELSE Init
          /\ dlv = [p \in Honest |-> {}] /\ ntimeouts = 0 /\ ndup = 0 /\ nbyz = 0 /\ pc = 1
          /\ lost = [p \in Honest |-> {}] /\ phase = "adv" /\ nwin = 0

Subsets(S, k) == {T \in SUBSET S : Cardinality(T) = k}
\* guided adversary repertoire (DESIGN.md C02): votes for every value, ROUND-CHANGEs with true / forged prepared
\* claims, PRE-PREPAREs justified by available ROUND-CHANGEs, DECIDED with real / too small / mixed COMMIT sets
Rounds == 1..MaxRound
HonestBases == HonestSent
ByzVotes == {Full(Base(t, b, r, v, 0, 0), {}) : t \in {"P", "C"}, b \in Byz, r \in Rounds, v \in Vals}
ByzOwnBases == {Base(t, b, r, v, 0, 0) : t \in {"P", "C"}, b \in Byz, r \in Rounds, v \in Vals}
PrepPool == {x \in HonestBases \cup ByzOwnBases : x.type = "P"}
ComPool == {x \in HonestBases \cup ByzOwnBases : x.type = "C"}
PrepChoices(pr, v) == Subsets(FiltV(PrepPool, "P", pr, v), Q) \cup Subsets(FiltV(PrepPool, "P", pr, v), Q-1) \cup {{}}
ByzRC == {Full(Base("RC", b, r, 0, 0, 0), {}) : b \in Byz, r \in 2..MaxRound}
         \cup UNION { UNION { { Full(Base("RC", b, r, 0, pr, v), j) : b \in Byz, r \in 2..MaxRound, j \in PrepChoices(pr, v) }
                               : v \in Vals } : pr \in 1..(MaxRound-1) }
RCPool(r) == {x \in HonestBases : x.type = "RC" /\ x.round = r} \cup {Strip(m) : m \in {y \in ByzRC : y.round = r}}
PPJust(r, v) == IF r = 1 THEN {{}}
                ELSE { rc \cup pq : rc \in (Subsets(RCPool(r), Q) \cup {{}}),
                                     pq \in ({{}} \cup UNION {Subsets(FiltV(PrepPool, "P", k, v), Q) : k \in 1..(r-1)}) }
ByzPP == UNION { UNION { { Full(Base("PP", b, r, v, 0, 0), j) : b \in Byz, j \in PPJust(r, v) } : v \in Vals } : r \in Rounds }
DJust(r, v) == Subsets(FiltV(ComPool, "C", r, v), Q) \cup Subsets(FiltV(ComPool, "C", r, v), Q-1)
ByzD == UNION { UNION { { Full(Base("D", b, r, v, 0, 0), j) : b \in Byz, j \in DJust(r, v) } : v \in Vals } : r \in Rounds }
Repertoire == ByzVotes \cup ByzRC \cup ByzPP \cup ByzD

\* a scripted step: [a |-> "Start"|"Input"|"Timeout", p] or [a |-> "Deliver", p, t, s, r] (the message of type t,
\* source s, round r -- unique for honest senders) 
ScriptStep(x) ==
  /\ pc' = pc + 1 /\ UNCHANGED <<ntimeouts, ndup, nbyz, lost, phase, nwin>>
  /\ CASE x.a = "Start"   -> Start(x.p) /\ UNCHANGED dlv
       [] x.a = "Input"   -> Input(x.p, Inputs[x.p]) /\ UNCHANGED dlv
       [] x.a = "Timeout" -> Timeout(x.p) /\ UNCHANGED dlv
       [] x.a = "Deliver" -> \E m \in msgs : /\ m.type = x.t /\ m.src = x.s /\ m.round = x.r
                                              /\ Deliver(x.p, m) /\ dlv' = [dlv EXCEPT ![x.p] = @ \cup {m}]
FreeNext ==
  \/ \E p \in Honest \ Silent : Start(p) /\ UNCHANGED <<dlv, ntimeouts, ndup, nbyz>>
  \/ \E p \in Honest : Inputs[p] # 0 /\ Input(p, Inputs[p]) /\ UNCHANGED <<dlv, ntimeouts, ndup, nbyz>>
  \/ \E p \in Honest : /\ st[p].round < MaxRound /\ ntimeouts < MaxTimeouts
                       /\ Timeout(p) /\ ntimeouts' = ntimeouts + 1 /\ UNCHANGED <<dlv, ndup, nbyz>>
  \/ \E p \in Honest : \E m \in msgs :
        /\ m.round <= MaxRound
        /\ \/ (m \notin dlv[p] /\ ndup' = ndup)
           \/ (m \in dlv[p] /\ ndup < DupBudget /\ ndup' = ndup + 1)
        /\ Deliver(p, m) /\ dlv' = [dlv EXCEPT ![p] = @ \cup {m}] /\ UNCHANGED <<ntimeouts, nbyz>>
  \/ /\ Byz # {} /\ nbyz < MaxByz
     /\ \E m \in Repertoire : m \notin msgs /\ ByzSend(m) /\ nbyz' = nbyz + 1
     /\ UNCHANGED <<dlv, ntimeouts, ndup>>
\* ---- structured window ----
Family == CASE WinFamily = "rc" -> ByzRC [] WinFamily = "pp" -> ByzPP [] WinFamily = "votes" -> ByzVotes
            [] WinFamily = "d" -> ByzD [] OTHER -> Repertoire
TypeRank(t) == CASE t = "PP" -> 0 [] t = "P" -> 1 [] t = "C" -> 2 [] t = "RC" -> 3 [] OTHER -> 4
Key(x) == ((((x[2].round * 5 + TypeRank(x[2].type)) * N + x[2].src) * N + x[1]) * 3 + x[2].value) * 8 + x[2].pr
\* pending deliveries: undelivered, not lost, not from a round the receiver has left behind (stale traffic counts as lost)
Pending == {x \in Honest \X msgs : /\ x[2] \notin dlv[x[1]] /\ x[2] \notin lost[x[1]]
                                   /\ x[2].round <= MaxRound
                                   /\ (x[2].round >= st[x[1]].round \/ x[2].type = "D")}
WinNext ==
  \/ /\ phase = "adv" /\ nbyz < MaxByz
     /\ \E m \in Family : m \notin msgs /\ ByzSend(m) /\ nbyz' = nbyz + 1
     /\ UNCHANGED <<dlv, ntimeouts, ndup, pc, lost, phase, nwin>>
  \/ /\ phase = "adv" /\ phase' = "deliv" /\ UNCHANGED <<vars, dlv, ntimeouts, ndup, nbyz, pc, lost, nwin>>
  \/ /\ phase = "deliv" /\ Pending # {} /\ nwin < WinBudget
     /\ LET x == CHOOSE y \in Pending : \A z \in Pending : Key(y) <= Key(z) IN
        \/ /\ Deliver(x[1], x[2]) /\ dlv' = [dlv EXCEPT ![x[1]] = @ \cup {x[2]}] /\ UNCHANGED lost
        \/ /\ lost' = [lost EXCEPT ![x[1]] = @ \cup {x[2]}] /\ UNCHANGED <<vars, dlv>>
     /\ nwin' = nwin + 1 /\ UNCHANGED <<ntimeouts, ndup, nbyz, pc, phase>>
  \/ /\ phase = "deliv" /\ Pending = {} /\ ntimeouts < MaxTimeouts
     /\ \E p \in Honest : st[p].round < MaxRound /\ ~st[p].decided /\ Timeout(p)
     /\ ntimeouts' = ntimeouts + 1 /\ UNCHANGED <<dlv, ndup, nbyz, pc, lost, phase, nwin>>
MCNext == IF pc <= Len(Script) THEN ScriptStep(Script[pc])
          ELSE IF WinFamily = "none" THEN (FreeNext /\ UNCHANGED <<pc, lost, phase, nwin>>)
          ELSE WinNext
MCSpec == MCInit /\ [][MCNext]_mcvars
View == <<st, msgs, unjust, dlv, ntimeouts, ndup, nbyz, pc, lost, phase, nwin>>
NoScript == <<>>
D(p, t, s, r) == [a |-> "Deliver", p |-> p, t |-> t, s |-> s, r |-> r]
T(p) == [a |-> "Timeout", p |-> p]
\* window prefix (N = 4, Inst = 0, Byz = {2} = leader of round 2, InputsC, PreStarted): member 0 collects a PREPARE quorum
\* for the round-1 proposal (value 2) and commits; members 1 and 3 do not; all three time out into round 2.
ScriptPreparedThenRC ==
  << D(0,"PP",1,1), D(1,"PP",1,1), D(3,"PP",1,1),
     D(0,"P",0,1), D(0,"P",1,1), D(0,"P",3,1), D(1,"P",1,1), D(3,"P",3,1),
     T(0), T(1), T(3) >>
\* control scenario (N = 4, Inst = 0, InputsC, PreStarted): members 0,1 decide the round-1 leader's value with two
\* votes, members 2,3 time out and decide the round-2 leader's value -- only possible when the quorum is floor(2N/3)
ScriptFloorQuorum ==
  << D(0,"PP",1,1), D(1,"PP",1,1), D(0,"P",0,1), D(0,"P",1,1), D(1,"P",0,1), D(1,"P",1,1),
     D(0,"C",0,1), D(0,"C",1,1), D(1,"C",0,1), D(1,"C",1,1),
     T(2), T(3), D(2,"RC",2,2), D(2,"RC",3,2), D(2,"PP",2,2), D(3,"PP",2,2),
     D(2,"P",2,2), D(2,"P",3,2), D(3,"P",2,2), D(3,"P",3,2),
     D(2,"C",2,2), D(2,"C",3,2), D(3,"C",2,2), D(3,"C",3,2) >>
\* rounds stay within the bound the configuration explores
Bounded == \A p \in Honest : st[p].round <= MaxRound + 1
====
