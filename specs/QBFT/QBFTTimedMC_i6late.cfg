SPECIFICATION TSpec
CONSTANTS N = 6
 Inst = 0
 Byz = {}
 CompareFail = {}
 Policy = "inc"
 LatSet = {1}
 Offsets <- OffsetsLate
 Inputs <- InputsT
 MaxTime = 120
 MaxCrash = 1
 Slack = 0
INVARIANTS Safety NoHonestUnjust BoundedRounds NoRunaway DecidedInTime
VIEW TView
CHECK_DEADLOCK FALSE
