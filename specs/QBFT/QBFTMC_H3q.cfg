SPECIFICATION MCSpec
CONSTANTS N = 3
 Inst = 0
 Byz = {}
 CompareFail = {}
 Inputs <- InputsB
 MaxRound = 1
 MaxTimeouts = 0
 DupBudget = 0
 MaxByz = 0
 Vals = {1, 2}
 Script <- NoScript
 PreStarted = TRUE
INVARIANTS Safety NoHonestUnjust
PROPERTIES DecisionFrozen RoundMonotonic
VIEW View
CHECK_DEADLOCK FALSE
