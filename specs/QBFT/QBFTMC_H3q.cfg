SPECIFICATION MCSpec
CONSTANTS N = 3
 Inst = 0
 Byz = {}
 CompareFail = {}
 Inputs <- InputsB
 MaxRound = 1
 MaxTimeouts = 0
 DupBudget = 0
 MaxByz = 0
 Vals = {1, 2}
 Script <- NoScript
 Silent = {}
 WinFamily = "none"
 WinBudget = 0
 PreStarted = TRUE
INVARIANTS Safety NoHonestUnjust
PROPERTIES DecisionFrozen RoundMonotonic
VIEW View
CHECK_DEADLOCK FALSE
