---- MODULE QBFTTrace ----
(* Trace validation for core/qbft/qbft.go.  The executor (harness/c02, driver harness/drv/qbftdrv) steps the REAL
   qbft.Run of every honest member one stimulus at a time (unbuffered receive channel + double sentinel barrier) and
   logs, per stimulus, everything the member did through its callbacks:
     {"ev":"Reset","sid":..}
     {"ev":"Start","p":p,"timer":r}
     {"ev":"Input","p":p,"v":v,"nb":k,"bcast":msg|null}
     {"ev":"Deliver","p":p,"m":msg,"unjust":b,"rule":name,"nb":k,"bcast":msg|null,"round":r,"timer":t,
                     "ndec":k,"dval":v,"dround":r,"qc":[base..]}
     {"ev":"Timeout","p":p,"nb":k,"bcast":msg|null,"round":r,"timer":t}
     {"ev":"ByzSend","m":msg}
     {"ev":"Crash","p":p}
   Every event is bound to the design spec's action and the action's complete output must equal what was logged;
   the nondeterministic producers of the spec (Go map order) are resolved by TLC from the logged broadcast. *)
EXTENDS QBFT, TraceCommon
tvars == <<vars, tr, l>>
BaseOf(j) == [type |-> j.type, src |-> j.src, round |-> j.round, value |-> j.value, pr |-> j.pr, pv |-> j.pv,
              copy |-> j.copy]
MsgOf(j) == [type |-> j.type, src |-> j.src, round |-> j.round, value |-> j.value, pr |-> j.pr, pv |-> j.pv,
             just |-> {BaseOf(b) : b \in SeqToSet(j.just)}]
\* "bcast" is a message object, or absent/null (JSON null deserialises to a string-less value: the executor writes
\* {"type":"none"} instead)
BcastOf(e) == IF e.nb = 0 THEN NoMsg ELSE MsgOf(e.bcast)
TraceInit == Init /\ TrInit
TReset == IsEvent("Reset") /\ UNCHANGED vars
TStart == /\ IsEvent("Start") /\ Start(Ev.p) /\ out'.timer = Ev.timer
TInput == /\ IsEvent("Input") /\ Ev.nb <= 1 /\ Input(Ev.p, Ev.v) /\ out'.bcast = BcastOf(Ev)
TTimeout == /\ IsEvent("Timeout") /\ Ev.nb <= 1 /\ Timeout(Ev.p)
            /\ out'.bcast = BcastOf(Ev) /\ out'.round = Ev.round /\ out'.timer = Ev.timer
TDeliver == /\ IsEvent("Deliver") /\ Ev.nb <= 1
            /\ LET m == MsgOf(Ev.m) IN
               /\ m \in msgs                                   \* only messages that were really sent
               /\ Deliver(Ev.p, m)
            /\ out'.rule = Ev.rule /\ out'.unjust = Ev.unjust /\ out'.bcast = BcastOf(Ev)
            /\ out'.round = Ev.round /\ out'.timer = Ev.timer
            /\ st'[Ev.p].ndec = Ev.ndec
            /\ (Ev.ndec > 0) => /\ out'.decided /\ out'.dval = Ev.dval /\ out'.dround = Ev.dround
                                /\ out'.qc = {BaseOf(b) : b \in SeqToSet(Ev.qc)}
            /\ (Ev.ndec = 0) => ~out'.decided
TByz == IsEvent("ByzSend") /\ ByzSend(MsgOf(Ev.m))
TCrash == IsEvent("Crash") /\ Crash(Ev.p)
\* the executor could not continue a replayed schedule (the code resolved a nondeterministic producer differently)
TStop == IsEvent("Stop") /\ UNCHANGED vars
TraceNext == TReset \/ TStart \/ TInput \/ TTimeout \/ TDeliver \/ TByz \/ TCrash \/ TStop
TraceSpec == TraceInit /\ [][TraceNext]_tvars
Mark == /\ CheckInv("Agreement", Agreement) /\ CheckInv("DecideOnce", DecideOnce) /\ CheckInv("NonZero", NonZero)
        /\ CheckInv("LeaderProposed", LeaderProposed) /\ CheckInv("Validity", Validity)
        /\ CheckInv("QuorumBacked", QuorumBacked) /\ CheckInv("OneVotePerRound", OneVotePerRound)
        /\ CheckInv("TypeOK", TypeOK)
\* NoHonestUnjust is C04's requirement (no Byzantine member, no compare failure: QBFTTimedTrace adds it); with the compare
\* extension a leader may legitimately propose its own value over a prepared one (compareFailureRound = pr), which
\* other members reject, so it is not demanded of arbitrary C02/C03 schedules.
ActOK == /\ CheckInv("DecisionFrozen", \A p \in Honest : st[p].decided =>
                        (st'[p].decided /\ st'[p].dval = st[p].dval /\ st'[p].dround = st[p].dround
                         /\ st'[p].qc = st[p].qc /\ st'[p].ndec = st[p].ndec))
         /\ CheckInv("RoundMonotonic", \A p \in Honest : st'[p].round >= st[p].round \/ st'[p].decided)
         /\ HWMarkA
====
