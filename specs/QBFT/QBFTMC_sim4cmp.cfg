SPECIFICATION MCSpec
CONSTANTS N = 4
 Inst = 1
 Byz = {}
 CompareFail = {2, 1002}
 Inputs <- InputsC
 MaxRound = 4
 MaxTimeouts = 8
 DupBudget = 3
 MaxByz = 0
 Vals = {1, 2}
 Script <- NoScript
 Silent = {}
 WinFamily = "none"
 WinBudget = 0
 PreStarted = TRUE
INVARIANTS Safety
CHECK_DEADLOCK FALSE
