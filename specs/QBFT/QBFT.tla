---- MODULE QBFT ----
(* Transcription of core/qbft/qbft.go (generic QBFT/IBFT 2.0 core used by core/consensus/qbft), function by
   function.  One action per arm of Run's select: Start (Algorithm 1:11), Input, Deliver (the whole
   `case msg := <-t.Receive` arm), Timeout; plus the environment: ByzSend (a Byzantine member injects a message),
   Crash.  Each operator names the Go function it mirrors.

   Messages.  A *base* message is [type, src, round, value, pr, pv, copy]; a *full* message adds `just`, a set of
   base messages -- exactly the flat shape flatten() insists on ("bug: nested justifications"); the transport
   drops the nested justifications of justification messages (core/consensus/qbft/msg.go createMsg).
   `copy` (1, 2, 3, ...) lets a Byzantine justification LIST contain the same entry several times (the Go code works on lists and
   several of its checks -- uniqSource -- only matter for such duplicates); honest entries always have copy = 1.
   Values are integers, 0 is the zero value.

   Modelling assumptions about adversarial input (checked on every ByzSend by the trace spec):
     A1  a justification list holds at most one ROUND-CHANGE per (source, round) apart from exact duplicates
         (with two different ones the Go code's answer depends on list order);
     A2  only ROUND-CHANGE messages carry a prepared round/value (pr = 0, pv = 0 on every other type);
     A3  per-peer FIFO limit (Definition.FIFOLimit) is never reached.
   Unforgeability: a Byzantine message may embed base messages of honest members only if those members sent them. *)
EXTENDS Integers, FiniteSets, Sequences, TLC
CONSTANTS N,            \* number of members
          Inst,         \* leader of round r is (Inst + r) % N  (core/consensus/qbft leader(): slot + type + round)
          Byz,          \* Byzantine members
          CompareFail   \* set of integers 1000*p + v: Definition.Compare of member p fails on proposed value v
Procs == 0..(N-1)
Honest == Procs \ Byz
Q == (2*N + 2) \div 3                                 \* Definition.Quorum  = ceil(2N/3)
F == (N-1) \div 3                                     \* Definition.Faulty  = floor((N-1)/3)
Leader(r) == (Inst + r) % N
MaxDecidedResends == 16

VARIABLES st,       \* per member: the closure locals of Run
          msgs,     \* every message ever handed to Transport.Broadcast by an honest member or injected by Byz
          out,      \* observable effects of the last step (for trace validation; hidden by VIEW in MC configs)
          unjust    \* history: <<receiver, message>> rejected as unjustified
vars == <<st, msgs, out, unjust>>

---------------------------------------------------------------------------------------------------
(* Messages *)
Base(t, s, r, v, pr, pv) == [type |-> t, src |-> s, round |-> r, value |-> v, pr |-> pr, pv |-> pv, copy |-> 1]
Norm(b) == [b EXCEPT !.copy = 1]
Full(b, j) == [type |-> b.type, src |-> b.src, round |-> b.round, value |-> b.value,
               pr |-> b.pr, pv |-> b.pv, just |-> j]
Strip(m) == Base(m.type, m.src, m.round, m.value, m.pr, m.pv)
NoMsg == [type |-> "none"]
\* flatten(buffer): buffered messages and their justifications, as base messages
All(buf) == {Strip(m) : m \in buf} \cup {Norm(b) : b \in UNION {m.just : m \in buf}}
Srcs(S) == {m.src : m \in S}
OfType(S, t) == {m \in S : m.type = t}
Filt(S, t, r) == {m \in S : m.type = t /\ m.round = r}                       \* filterMsgs: count = |Srcs|
FiltV(S, t, r, v) == {m \in S : m.type = t /\ m.round = r /\ m.value = v}
UniqueSrc(S) == Cardinality(Srcs(S)) = Cardinality(S)                         \* uniqSource over a list
Min(S) == CHOOSE x \in S : \A y \in S : x <= y
\* filterMsgs keeps the FIRST message per source; which one is first depends on Go map order / list order, so
\* when a source equivocated every one-per-source selection is possible
Reps(S) == IF \A a, b \in S : a.src = b.src => a = b THEN {S}
           ELSE {T \in SUBSET S : \A s \in Srcs(S) : Cardinality({b \in T : b.src = s}) = 1}

---------------------------------------------------------------------------------------------------
(* Justification predicates *)
\* getSingleJustifiedPrPv -> [pr, pv, ok]; works on the list, so a repeated source (incl. a duplicated entry) fails
SinglePrPv(J) ==
  LET P == OfType(J, "P") IN
  IF P = {} THEN [pr |-> 0, pv |-> 0, ok |-> FALSE]
  ELSE LET p0 == CHOOSE p \in P : TRUE IN
       IF ~UniqueSrc(P) \/ \E p \in P : p.round # p0.round \/ p.value # p0.value
       THEN [pr |-> 0, pv |-> 0, ok |-> FALSE]
       ELSE [pr |-> p0.round, pv |-> p0.value, ok |-> Cardinality(P) >= Q]

\* containsJustifiedQrc for ONE one-per-source selection qrc of the round's ROUND-CHANGEs -> [pv, ok]
ContainsQrcFor(J, qrc) ==
  IF Cardinality(qrc) < Q THEN [pv |-> 0, ok |-> FALSE]
  ELSE IF \A rc \in qrc : rc.pr = 0 /\ rc.pv = 0 THEN [pv |-> 0, ok |-> TRUE]            \* J1
  ELSE LET s == SinglePrPv(J) IN                                                         \* J2
       IF ~s.ok THEN [pv |-> 0, ok |-> FALSE]
       ELSE IF \E rc \in qrc : rc.pr > s.pr THEN [pv |-> 0, ok |-> FALSE]
       ELSE [pv |-> s.pv, ok |-> \E rc \in qrc : rc.pr = s.pr /\ rc.pv = s.pv]
\* the set of possible answers (a singleton under assumption A1)
ContainsQrc(J, r) == {ContainsQrcFor(J, qrc) : qrc \in Reps({Norm(b) : b \in Filt(J, "RC", r)})}

\* isJustifiedPrePrepare: set of possible verdicts
JustPPSet(m, cfr) ==
  IF Leader(m.round) # m.src \/ m.value = 0 THEN {FALSE}
  ELSE IF m.round = 1 \/ m.round = cfr + 1 THEN {TRUE}
  ELSE {c.ok /\ (c.pv = 0 \/ m.value = c.pv) : c \in ContainsQrc(m.just, m.round)}
\* isJustifiedRoundChange
JustRC(m) ==
  IF m.just = {} THEN m.pr = 0 /\ m.pv = 0
  ELSE /\ Cardinality(m.just) >= Q /\ UniqueSrc(m.just)
       /\ \A p \in m.just : p.type = "P" /\ p.round = m.pr /\ p.value = m.pv
\* isJustifiedDecided
JustD(m) == Cardinality(Srcs(FiltV(m.just, "C", m.round, m.value))) >= Q
JustifiedSet(m, cfr) == CASE m.type = "PP" -> JustPPSet(m, cfr)
                          [] m.type = "RC" -> {JustRC(m)}
                          [] m.type = "D"  -> {JustD(m)}
                          [] OTHER -> {TRUE}

---------------------------------------------------------------------------------------------------
(* Producers *)
PrepKeys(A) == {<<p.round, p.value>> : p \in OfType(A, "P")}
\* getJustifiedQrc: SET of admissible results (Go map iteration over prepare quorums; first-per-source picks)
JustQrcs(A, r) ==
  LET rcs  == Filt(A, "RC", r)
      null == {rc \in rcs : rc.pr = 0 /\ rc.pv = 0} IN
  IF Cardinality(Srcs(null)) >= Q THEN Reps(null)                               \* quorumNullPrepared
  ELSE UNION { LET prep == FiltV(A, "P", k[1], k[2])
                   cand == {rc \in rcs : rc.pr <= k[1]} IN
               { qrc \cup pq : qrc \in {x \in Reps(cand) : \E rc \in x : rc.pr = k[1] /\ rc.pv = k[2]},
                               pq \in Reps(prep) }
             : k \in {kk \in PrepKeys(A) :
                        /\ Cardinality(Srcs(FiltV(A, "P", kk[1], kk[2]))) >= Q
                        /\ Cardinality(Srcs({rc \in rcs : rc.pr <= kk[1]})) >= Q} }

\* getFPlus1RoundChanges + nextMinRound: SET of possible target rounds (the code stops at the first F+1 sources it
\* meets in map order and keeps each one's highest round seen so far)
FP1Rounds(A, cur) ==
  LET hi == {m \in OfType(A, "RC") : m.round > cur}
      ss == Srcs(hi) IN
  IF Cardinality(ss) < F + 1 THEN {}
  ELSE UNION { { Min({g[s] : s \in S}) :
                   g \in {h \in [S -> {m.round : m \in hi}] :
                            \A s \in S : \E m \in hi : m.src = s /\ m.round = h[s]} }
               : S \in {T \in SUBSET ss : Cardinality(T) = F + 1} }

---------------------------------------------------------------------------------------------------
(* State *)
InitSt == [started |-> FALSE, running |-> TRUE, round |-> 1, input |-> 0, ppjSet |-> FALSE, ppj |-> {},
           pr |-> 0, pv |-> 0, pj |-> {}, cfr |-> 0, decided |-> FALSE, dval |-> 0, dround |-> 0, qc |-> {},
           buf |-> {}, dedup |-> {}, resend |-> [s \in Procs |-> <<0, 0>>], ndec |-> 0, timer |-> 0, narm |-> 0]
NoOut == [kind |-> "none"]
Init == /\ st = [p \in Honest |-> InitSt] /\ msgs = {} /\ out = NoOut /\ unjust = {}

Out(kind, p, rule, uj, b, s) ==
  [kind |-> kind, p |-> p, rule |-> rule, unjust |-> uj, bcast |-> b, round |-> s.round, timer |-> s.timer,
   decided |-> s.decided, dval |-> s.dval, dround |-> s.dround, qc |-> s.qc]
\* a step of member p ending in state s, with rule/unjust flags and an optional broadcast b
Step(kind, p, rule, uj, b, s) ==
  /\ st' = [st EXCEPT ![p] = s]
  /\ msgs' = IF b = NoMsg THEN msgs ELSE msgs \cup {b}
  /\ out' = Out(kind, p, rule, uj, b, s)

\* changeRound: wipes the rule dedup state and the pre-prepare justification cache
ChangeRound(s, nr) ==
  IF s.round = nr THEN s ELSE [s EXCEPT !.round = nr, !.dedup = {}, !.ppjSet = FALSE, !.ppj = {}]
NewTimer(s) == [s EXCEPT !.timer = s.round, !.narm = @ + 1]   \* d.NewTimer(round): the round it was armed for; narm counts the calls
RCMsg(s, p) == Full(Base("RC", p, s.round, 0, s.pr, s.pv), s.pj)              \* broadcastRoundChange

\* Algorithm 1:11 -- the input has not been read yet, so the leader of round 1 only caches the empty justification
Start(p) ==
  /\ ~st[p].started /\ st[p].running
  /\ Step("Start", p, "NONE", FALSE, NoMsg,
          NewTimer([st[p] EXCEPT !.started = TRUE, !.ppjSet = (Leader(1) = p)]))
  /\ UNCHANGED unjust
\* case inputValue = <-inputValueCh (note: no decided check, no cache reset -- as coded)
Input(p, v) ==
  /\ st[p].started /\ st[p].running /\ st[p].input = 0 /\ v # 0
  /\ LET s == [st[p] EXCEPT !.input = v] IN
     Step("Input", p, "NONE", FALSE,
          IF st[p].ppjSet THEN Full(Base("PP", p, st[p].round, v, 0, 0), st[p].ppj) ELSE NoMsg, s)
  /\ UNCHANGED unjust
\* case <-timerChan (timerChan is nil once decided)
Timeout(p) ==
  /\ st[p].started /\ st[p].running /\ ~st[p].decided
  /\ LET s2 == NewTimer(ChangeRound(st[p], st[p].round + 1)) IN
       Step("Timeout", p, "TIMEOUT", FALSE, RCMsg(s2, p), s2)
  /\ UNCHANGED unjust

\* classify -> rule name (the candidates of the nondeterministic producers are resolved in the rule bodies)
Rule(p, s, m) ==
  LET A == All(s.buf) IN
  CASE m.type = "D"  -> "JD"
    [] m.type = "PP" -> IF m.round < s.round THEN "NONE" ELSE "PP"
    [] m.type = "P"  -> IF m.round # s.round THEN "NONE"
                        ELSE IF Cardinality(Srcs(FiltV(A, "P", m.round, m.value))) >= Q THEN "QP" ELSE "NONE"
    [] m.type = "C"  -> IF m.round # s.round THEN "NONE"
                        ELSE IF Cardinality(Srcs(FiltV(A, "C", m.round, m.value))) >= Q THEN "QC" ELSE "NONE"
    [] m.type = "RC" -> IF m.round < s.round THEN "NONE"
                        ELSE IF m.round > s.round
                          THEN IF FP1Rounds(A, s.round) # {} THEN "FP1" ELSE "NONE"
                        ELSE IF Cardinality(Srcs(Filt(A, "RC", m.round))) < Q THEN "NONE"
                        ELSE IF JustQrcs(A, m.round) = {} THEN "UNJ"
                        ELSE IF Leader(m.round) # p THEN "NONE" ELSE "QRC"

\* When a (Byzantine) source has two different ROUND-CHANGEs for the current round in the flattened buffer, which
\* one filterMsgs keeps depends on Go map order, so getJustifiedQrc may or may not find a justified quorum: both the
\* "unjust quorum" outcome and the regular one are possible then.
AmbiguousRC(A, r) == \E a, b \in Filt(A, "RC", r) : a.src = b.src /\ a # b
Rules(p, s, m) ==
  LET r0 == Rule(p, s, m) IN
  IF m.type = "RC" /\ m.round = s.round /\ AmbiguousRC(All(s.buf), m.round)
     /\ Cardinality(Srcs(Filt(All(s.buf), "RC", m.round))) >= Q
    THEN {r0, "UNJ"} ELSE {r0}

\* UponJustifiedPrePrepare: changeRound, re-record the dedup key (prevents a second PREPARE after the wipe), new
\* timer, compare, PREPARE
DoPP(p, s1, m) ==
  LET s2 == ChangeRound(s1, m.round)
      s3 == NewTimer([s2 EXCEPT !.dedup = @ \cup {<<"PP", m.round>>}]) IN
  IF (1000 * p + m.value) \in CompareFail
    THEN Step("Deliver", p, "PP", FALSE, NoMsg, [s3 EXCEPT !.cfr = m.round])
    ELSE Step("Deliver", p, "PP", FALSE, Full(Base("P", p, s3.round, m.value, 0, 0), {}), s3)
\* UponQuorumPrepares
DoQP(p, s1, m) ==
  \E prep \in Reps(FiltV(All(s1.buf), "P", m.round, m.value)) :
    LET s2 == [s1 EXCEPT !.pr = s1.round, !.pv = m.value, !.pj = prep] IN
    Step("Deliver", p, "QP", FALSE, Full(Base("C", p, s2.round, m.value, 0, 0), {}), s2)
\* UponQuorumCommits / UponJustifiedDecided
DoDecide(p, s1, m, rule, just) ==
  LET s2 == ChangeRound(s1, m.round)
      s3 == [s2 EXCEPT !.decided = TRUE, !.dval = m.value, !.dround = m.round, !.qc = just, !.ndec = @ + 1,
                       !.timer = 0] IN
  Step("Deliver", p, rule, FALSE, NoMsg, s3)
\* UponFPlus1RoundChanges
DoFP1(p, s1, m) ==
  \E nr \in FP1Rounds(All(s1.buf), s1.round) :
    LET s2 == NewTimer(ChangeRound(s1, nr)) IN
    Step("Deliver", p, "FP1", FALSE, RCMsg(s2, p), s2)
\* UponQuorumRoundChanges
DoQRC(p, s1, m) ==
  \E j \in JustQrcs(All(s1.buf), m.round) :
    LET sp == SinglePrPv(j) IN
    IF sp.ok /\ s1.cfr # sp.pr
      THEN Step("Deliver", p, "QRC", FALSE, Full(Base("PP", p, s1.round, sp.pv, 0, 0), j), s1)
    ELSE IF s1.input = 0                              \* broadcastOwnPrePrepare: cache until the input arrives
      THEN Step("Deliver", p, "QRC", FALSE, NoMsg, [s1 EXCEPT !.ppjSet = TRUE, !.ppj = j])
      ELSE Step("Deliver", p, "QRC", FALSE, Full(Base("PP", p, s1.round, s1.input, 0, 0), j), s1)

\* allowDecidedResend
AllowResend(s, src, rnd) == rnd > s.resend[src][1] /\ s.resend[src][2] < MaxDecidedResends

\* case msg := <-t.Receive
Deliver(p, m) ==
  /\ st[p].started /\ st[p].running
  /\ IF st[p].decided                                 \* len(qCommit) > 0: only answer foreign ROUND-CHANGEs
       THEN /\ UNCHANGED unjust
            /\ IF m.src # p /\ m.type = "RC" /\ AllowResend(st[p], m.src, m.round)
                 THEN Step("Deliver", p, "NONE", FALSE,
                           Full(Base("D", p, st[p].round, st[p].dval, 0, 0), st[p].qc),
                           [st[p] EXCEPT !.resend[m.src] = <<m.round, @[2] + 1>>])
                 ELSE Step("Deliver", p, "NONE", FALSE, NoMsg, st[p])
       ELSE \E justified \in JustifiedSet(m, st[p].cfr) :
         IF ~justified
           THEN /\ unjust' = unjust \cup {<<p, m>>}                               \* LogUnjust, drop
                /\ Step("Deliver", p, "NONE", TRUE, NoMsg, st[p])
           ELSE /\ UNCHANGED unjust
                /\ LET s0 == [st[p] EXCEPT !.buf = @ \cup {m}] IN                  \* bufferMsg
                   \E rule \in Rules(p, s0, m) :
                   IF rule = "NONE" \/ <<rule, m.round>> \in s0.dedup              \* isDuplicatedRule
                     THEN Step("Deliver", p, "NONE", FALSE, NoMsg, s0)
                     ELSE LET s1 == [s0 EXCEPT !.dedup = @ \cup {<<rule, m.round>>}] IN
                          CASE rule = "PP"  -> DoPP(p, s1, m)
                            [] rule = "QP"  -> DoQP(p, s1, m)
                            [] rule = "QC"  -> \E cm \in Reps(FiltV(All(s1.buf), "C", m.round, m.value)) :
                                                  DoDecide(p, s1, m, "QC", cm)
                            [] rule = "JD"  -> DoDecide(p, s1, m, "JD", m.just)
                            [] rule = "FP1" -> DoFP1(p, s1, m)
                            [] rule = "QRC" -> DoQRC(p, s1, m)
                            [] rule = "UNJ" -> Step("Deliver", p, "UNJ", FALSE, NoMsg, s1)

\* a member stops (crash); it takes no further step
Crash(p) == /\ st[p].running
            /\ st' = [st EXCEPT ![p].running = FALSE] /\ out' = [kind |-> "Crash", p |-> p]
            /\ UNCHANGED <<msgs, unjust>>

\* what honest members have sent, as base messages
HonestSent == {Strip(x) : x \in {y \in msgs : y.src \in Honest}}
WellFormed(m) ==
  /\ m.src \in Byz
  /\ (m.type # "RC" => m.pr = 0 /\ m.pv = 0)                                                   \* A2
  /\ \A b \in m.just : b.type # "RC" => (b.pr = 0 /\ b.pv = 0)
  /\ \A a, b \in m.just : (a.type = "RC" /\ b.type = "RC" /\ a.src = b.src /\ a.round = b.round)
                             => Norm(a) = Norm(b)                                              \* A1
  /\ \A b \in m.just : b.copy >= 1 /\ (b.copy > 1 => [b EXCEPT !.copy = b.copy - 1] \in m.just)    \* k-th copy needs the (k-1)-th
  /\ \A b \in m.just : b.src \in Honest => Norm(b) \in HonestSent                              \* unforgeability
ByzSend(m) == /\ WellFormed(m) /\ msgs' = msgs \cup {m}
              /\ out' = [kind |-> "ByzSend"] /\ UNCHANGED <<st, unjust>>

---------------------------------------------------------------------------------------------------
(* Properties: C02 agreement, C03 validity/integrity, C04's "no honest message is unjust" *)
Agreement  == \A p, q \in Honest : st[p].decided /\ st[q].decided => st[p].dval = st[q].dval
DecideOnce == \A p \in Honest : st[p].ndec <= 1
NonZero    == \A p \in Honest : st[p].decided => st[p].dval # 0
\* the decided value was proposed by the designated leader of some round
LeaderProposed == \A p \in Honest : st[p].decided =>
                    \E m \in msgs : m.type = "PP" /\ m.value = st[p].dval /\ m.src = Leader(m.round)
\* with no Byzantine member: the decided value is some member's own input
Validity   == (Byz = {}) => \A p \in Honest : st[p].decided => \E q \in Honest : st[q].input = st[p].dval
\* every decision is backed by COMMITs for exactly that round and value from a quorum of distinct members
QuorumBacked == \A p \in Honest : st[p].decided =>
                  Cardinality(Srcs(FiltV(st[p].qc, "C", st[p].dround, st[p].dval))) >= Q
\* honest COMMITs of a quorum-backed decision: at least Q - F honest committers (used by the safety argument)
NoHonestUnjust == \A u \in unjust : u[2].src \notin Honest
\* decided state is frozen (action property)
DecisionFrozen == [][\A p \in Honest : st[p].decided =>
                        (st'[p].decided /\ st'[p].dval = st[p].dval /\ st'[p].dround = st[p].dround
                         /\ st'[p].qc = st[p].qc /\ st'[p].ndec = st[p].ndec)]_vars
\* at most one PREPARE and one COMMIT per round from an honest member, one PRE-PREPARE value per round
OneVotePerRound == \A a, b \in msgs : (a.src \in Honest /\ a.src = b.src /\ a.round = b.round /\ a.type = b.type
                                       /\ a.type \in {"P", "C", "PP"}) => a.value = b.value
\* rounds never decrease while undecided (a decision may adopt the -- possibly older -- round it was taken in)
RoundMonotonic == [][\A p \in Honest : st'[p].round >= st[p].round \/ st'[p].decided]_vars
\* (a decision adopts the round it was taken in, which may be older than the member's prepared round)
TypeOK == \A p \in Honest : st[p].round >= 1 /\ (st[p].pr <= st[p].round \/ st[p].decided)
Safety == Agreement /\ DecideOnce /\ NonZero /\ LeaderProposed /\ Validity /\ QuorumBacked /\ OneVotePerRound /\ TypeOK
====
