SPECIFICATION Spec
CONSTANT MaxN = 200
