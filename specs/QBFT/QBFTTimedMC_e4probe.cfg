SPECIFICATION TSpec
CONSTANTS N = 4
 Inst = 0
 Byz = {}
 CompareFail = {}
 Policy = "eager"
 LatSet = {0, 1}
 Offsets <- OffsetsZero
 Inputs <- InputsT
 MaxTime = 44
 MaxCrash = 1
 Slack = 0
INVARIANTS BoundedRounds
VIEW TView
CHECK_DEADLOCK FALSE
