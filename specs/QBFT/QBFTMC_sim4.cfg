SPECIFICATION MCSpec
CONSTANTS N = 4
 Inst = 1
 Byz = {3}
 CompareFail = {}
 Inputs <- InputsC
 MaxRound = 4
 MaxTimeouts = 8
 DupBudget = 3
 MaxByz = 8
 Vals = {1, 2}
 Script <- NoScript
 Silent = {}
 WinFamily = "none"
 WinBudget = 0
 PreStarted = TRUE
INVARIANTS Safety
CHECK_DEADLOCK FALSE
