SPECIFICATION MCSpec
CONSTANTS N = 7
 Inst = 4
 Byz = {1, 5}
 CompareFail = {}
 Inputs <- InputsC
 MaxRound = 3
 MaxTimeouts = 8
 DupBudget = 3
 MaxByz = 8
 Vals = {1, 2}
 Script <- NoScript
 Silent = {}
 WinFamily = "none"
 WinBudget = 0
 PreStarted = TRUE
INVARIANTS Safety
CHECK_DEADLOCK FALSE
