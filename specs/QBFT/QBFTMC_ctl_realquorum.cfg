SPECIFICATION MCSpec
CONSTANTS N = 4
 Inst = 0
 Byz = {}
 CompareFail = {}
 Inputs <- InputsC
 MaxRound = 2
 MaxTimeouts = 0
 DupBudget = 0
 MaxByz = 0
 Vals = {1, 2}
 Script <- ScriptFloorQuorum
 Silent = {}
 WinFamily = "none"
 WinBudget = 0
 PreStarted = TRUE
INVARIANTS Agreement
VIEW View
CHECK_DEADLOCK FALSE
