---- MODULE ValidatorAPI ----
(* core/validatorapi/validatorapi.go: the Component between an UNTRUSTED validator client (VC) and charon's duty pipeline.
   The module is (1) a transcription of the component's submit and query paths, one action per loop iteration / subscriber
   invocation / blocking query, and (2) the contract once more as a TABLE (endpoint -> duty type, signing domain, epoch
   rule, duty slot rule, attribution rule) against which the transcription is checked by invariants (double entry, so that
   neither the actions nor the invariants are vacuous).

   One behaviour = one call of one endpoint.  The CASE `c` (a record; in trace validation it is the Reset event) never
   changes:
     me, spe, fork, builder   this node's share index (1..4), SLOTS_PER_EPOCH, the beacon node has a fork every `fork`
                              epochs (the signing domain of epoch e depends on e \div fork), the builder flag handed to
                              NewComponent
     nsubs, subfail           number of subscribers; the subfail-th subscriber invocation of the call returns an error (0: none)
     afail, awrong            the afail-th blocking aggsigdb query fails / the awrong-th returns data of another type
     ep                       the endpoint (see Eps)
     items                    the submitted objects in request order; an item is [body, sig]:
        body  [val, slot, epoch, comm, sub, content, ver, blinded, bits, vi, proof]  -- the fields of the eth2 object
                val     the validator the object names (validator index 100+val): 1,2 = this cluster's validators, 3 = active
                        on the beacon node but foreign to the cluster, 4 = unknown to the beacon node
                epoch   voluntary exit epoch / attestation target epoch / (randao, in sig.of) the epoch signed
                comm    attestation committee index; sub: sync subcommittee index; content: what is voted for / proposed
                ver     attestations "pre" | "electra" | "fulu"; proposals an abstract data version
                bits    (pre-electra attestation) the aggregation bits that are set; vi: (electra+) validator index, 0 = none
                proof   (aggregate, contribution) the inner selection proof, a signature [signer, dom, epoch, slot, sub]
        sig   [signer, dom, epoch, of]  -- the ABSTRACT SIGNATURE: who signed (signer = [t, v, k]: t = "share": share k of
                validator v; "root": v's group key; "unrelated"; "zero": the all-zero signature), under which signing domain
                and epoch, over the message root of which object (`of`, a body)
     defs, pdefs, pderr       what the scheduler knows: attester definitions [val, slot, comm, pos], proposer definitions
                              [val, slot]; pderr: the proposer-definition query fails
     cons, conserr            the consensus proposal in the dutydb ([slot, val, content, ver, blinded]) / that query fails
     cached, req, dvals, qerr queries: validators in the validator cache, the request, the duties the node returns, upstream error

   Switches (as coded first; the others are CONTROLS that the invariants must reject):
     SkipVerify "none" | an endpoint whose partial signature is not verified;   ShareMode "me" | "plus1";
     BatchMode "allornothing" | "partial" (a rejected element is skipped, the rest forwarded);
     ExitSlot "epochstart" | "epoch";   Translate "share" | "identity" (query results keep the root keys) *)
EXTENDS Integers, Sequences, FiniteSets, TLC
CONSTANTS SkipVerify, ShareMode, BatchMode, ExitSlot, Translate

VARIABLES c,                                 \* the case
          pc, i, acc, todo, cur, nxt, sent, atodo, acur, awaits, bn, ret, resp
run == <<pc, i, acc, todo, cur, nxt, sent, atodo, acur, awaits, bn, ret, resp>>
vars == <<c, run>>

Cluster == {1, 2}
BNKnown == {1, 2, 3}
Shares == 1..4
BatchEps == {"att", "agg", "msg", "contrib", "bcsel", "scsel"}
SingleEps == {"exit", "prop", "bprop", "randao"}
SubmitEps == BatchEps \cup SingleEps
DutiesEps == {"duties_prop", "duties_att", "duties_sync"}
PassEps == {"attdata", "aggatt"}
QueryEps == {"validators"} \cup DutiesEps \cup PassEps
Eps == SubmitEps \cup {"reg"} \cup QueryEps

Range(s) == {s[j] : j \in DOMAIN s}
ShareOf(v, k) == [t |-> "share", v |-> v, k |-> k]
RootKey(v) == [t |-> "root", v |-> v, k |-> 0]
Ep(s) == s \div c.spe
Era(e) == e \div c.fork
NoKey == <<0 - 1, 0>>

None == ""
Done == pc = "done"

----
\* ---------------------------------------------------------------------------------------------- signatures
\* core/eth2signeddata.go: DomainName() and Epoch() per signed type; core/signeddata.go: MessageRoot()
Dom(ep) == CASE ep = "att" -> "DOMAIN_BEACON_ATTESTER" [] ep = "agg" -> "DOMAIN_AGGREGATE_AND_PROOF"
             [] ep = "msg" -> "DOMAIN_SYNC_COMMITTEE" [] ep = "contrib" -> "DOMAIN_CONTRIBUTION_AND_PROOF"
             [] ep = "exit" -> "DOMAIN_VOLUNTARY_EXIT" [] ep = "bcsel" -> "DOMAIN_SELECTION_PROOF"
             [] ep = "scsel" -> "DOMAIN_SYNC_COMMITTEE_SELECTION_PROOF" [] ep \in {"prop", "bprop"} -> "DOMAIN_BEACON_PROPOSER"
             [] ep = "randao" -> "DOMAIN_RANDAO" [] OTHER -> "-"
InnerDom(ep) == IF ep = "agg" THEN "DOMAIN_SELECTION_PROOF" ELSE "DOMAIN_SYNC_COMMITTEE_SELECTION_PROOF"
EpochOf(ep, b) == IF ep \in {"att", "exit"} THEN b.epoch ELSE Ep(b.slot)
\* the bytes of a selection proof are a function of key, domain (era of the epoch) and the root signed
ProofId(ep, p) == IF p.signer.t = "zero" THEN <<"zero">>
                  ELSE IF ep = "agg" THEN <<p.signer, p.dom, Era(p.epoch), p.slot>>
                  ELSE <<p.signer, p.dom, Era(p.epoch), p.slot, p.sub>>
\* which fields of the object enter the root that is signed
MsgRoot(ep, b) ==
  CASE ep = "att" -> <<b.slot, IF b.ver = "pre" THEN b.comm ELSE 0, b.content, b.epoch>>      \* AttestationData
    [] ep = "agg" -> <<b.val, b.slot, b.content, ProofId(ep, b.proof)>>                       \* AggregateAndProof
    [] ep = "msg" -> <<b.content>>                                                            \* the beacon block root ONLY
    [] ep = "contrib" -> <<b.val, b.slot, b.sub, b.content, ProofId(ep, b.proof)>>            \* ContributionAndProof
    [] ep = "exit" -> <<b.val, b.epoch>>
    [] ep = "bcsel" -> <<b.slot>>
    [] ep = "scsel" -> <<b.slot, b.sub>>
    [] ep \in {"prop", "bprop"} -> <<b.slot, b.val, b.content, b.ver, b.blinded>>             \* the (blinded) block
    [] OTHER -> <<b.epoch>>                                                                   \* randao: the epoch
\* the object whose root the component verifies: for the randao reveal it derives the epoch from the requested slot
Signed(ep, b) == IF ep = "randao" THEN [b EXCEPT !.epoch = Ep(b.slot)] ELSE b

\* signing.Verify: "no signature found" for the zero signature, else tbls.Verify(key, signing root(domain(dom, epoch), root))
SigErr(signer, sdom, sepoch, sroot, key, dom, epoch, root) ==
  IF signer.t = "zero" THEN "no signature found"
  ELSE IF signer = key /\ sdom = dom /\ Era(sepoch) = Era(epoch) /\ sroot = root THEN None ELSE "signature not verified"
\* verifyPartialSig(parSig, pubkey): this node's public share of the DV key, then core.VerifyEth2SignedData
Outer(ep, it, pk) ==
  IF SkipVerify = ep THEN None
  ELSE IF pk \notin Cluster THEN "unknown public key"
  ELSE SigErr(it.sig.signer, it.sig.dom, it.sig.epoch, MsgRoot(ep, it.sig.of),
              ShareOf(pk, c.me), Dom(ep), EpochOf(ep, it.body), MsgRoot(ep, Signed(ep, it.body)))
\* the inner selection proof of aggregates / contributions is verified against the validator's GROUP key
Inner(ep, b) == LET p == b.proof IN
  SigErr(p.signer, p.dom, p.epoch, IF ep = "agg" THEN <<p.slot>> ELSE <<p.slot, p.sub>>,
         RootKey(b.val), InnerDom(ep), Ep(b.slot), IF ep = "agg" THEN <<b.slot>> ELSE <<b.slot, b.sub>>)

----
\* ---------------------------------------------------------------------------------------------- one element of a request
Ok(pk, key) == [err |-> None, pk |-> pk, key |-> key]
Fail(text) == [err |-> text, pk |-> 0, key |-> NoKey]
Verified(ep, it, pk, key) == LET e == Outer(ep, it, pk) IN IF e # None THEN Fail(e) ELSE Ok(pk, key)

\* the stubs of the scheduler / dutydb: definitions by slot; pubkey by (slot, committee, validator index)
DefsAt(s) == {d \in Range(c.defs) : d.slot = s}
PubKeyByAtt(s, comm, vi) == {d.val : d \in {x \in DefsAt(s) : x.comm = comm /\ x.val = vi}}
\* SubmitAttestations: pre-electra the validator index is found through the duty definition whose committee index matches
\* and whose position in the committee is THE aggregation bit; electra+ the attestation carries it
AttIndex(b) ==
  IF b.ver = "pre"
    THEN IF DefsAt(b.slot) = {} THEN [err |-> "duty def set: stub: no duty", vi |-> 0]
         ELSE IF (\E d \in DefsAt(b.slot) : d.comm = b.comm) /\ Cardinality(Range(b.bits)) # 1
                THEN [err |-> "unexpected number of aggregation bits", vi |-> 0]
         ELSE LET m == {d \in DefsAt(b.slot) : d.comm = b.comm /\ d.pos \in Range(b.bits)} IN
              [err |-> None, vi |-> IF m = {} THEN 0 ELSE (CHOOSE d \in m : TRUE).val]
    ELSE IF b.vi = 0 THEN [err |-> "missing attestation validator index from " \o b.ver \o " attestation", vi |-> 0]
         ELSE [err |-> None, vi |-> b.vi]
CheckAtt(it) == LET b == it.body  r == AttIndex(b) IN
  IF r.err # None THEN Fail(r.err)
  ELSE LET pks == PubKeyByAtt(b.slot, b.comm, r.vi) IN
       IF pks = {} THEN Fail("find pubkey: stub: no pubkey")
       ELSE Verified("att", it, CHOOSE v \in pks : TRUE, <<b.slot, 0>>)

\* every other batch endpoint and the voluntary exit: eth2Cl.ActiveValidators()[validator index]
ExitDutySlot(e) == IF ExitSlot = "epochstart" THEN c.spe * e ELSE e
KeyOf(ep, b) == CASE ep \in {"contrib", "scsel"} -> <<b.slot, b.sub>> [] ep = "exit" -> <<ExitDutySlot(b.epoch), 0>>
                  [] OTHER -> <<b.slot, 0>>
CheckByIndex(ep, it) == LET b == it.body IN
  IF b.val \notin BNKnown THEN Fail("validator not found")
  ELSE IF ep \in {"agg", "contrib"} /\ Inner(ep, b) # None THEN Fail(Inner(ep, b))
  ELSE Verified(ep, it, b.val, KeyOf(ep, b))

\* SubmitProposal / SubmitBlindedProposal / Proposal: the DV key is the ONE proposer definition of the slot
PDefsAt(s) == {d \in Range(c.pdefs) : d.slot = s}
Mismatch == "consensus proposal and VC-submitted one do not match: "
PropMatch(b) ==      \* awaitProposalFunc(slot) and propDataMatchesDuty
  IF c.conserr \/ c.cons.slot # b.slot THEN "could not fetch block definition from dutydb: stub: no proposal"
  ELSE IF c.cons.val # b.val THEN Mismatch \o "dutydb and VC proposals have different index"
  ELSE IF c.cons.blinded # b.blinded THEN Mismatch \o "dutydb and VC proposals have different blinded value"
  ELSE IF c.cons.ver # b.ver THEN Mismatch \o "dutydb and VC proposals have different version"
  ELSE IF c.cons.content # b.content THEN Mismatch \o "dutydb and VC proposal data have different hash tree root"
  ELSE None
CheckProp(ep, it) == LET b == it.body IN
  IF c.pderr THEN Fail("stub: no duty")
  ELSE IF Cardinality(PDefsAt(b.slot)) # 1 THEN Fail("unexpected amount of proposer duties")
  ELSE IF ep # "randao" /\ PropMatch(b) # None THEN Fail(PropMatch(b))
  ELSE Verified(ep, it, (CHOOSE d \in PDefsAt(b.slot) : TRUE).val, <<b.slot, 0>>)

Check(it) == CASE c.ep = "att" -> CheckAtt(it)
               [] c.ep \in {"prop", "bprop", "randao"} -> CheckProp(c.ep, it)
               [] OTHER -> CheckByIndex(c.ep, it)

DutyType(ep) == CASE ep = "att" -> "attester" [] ep = "agg" -> "aggregator" [] ep = "msg" -> "sync_message"
                  [] ep = "contrib" -> "sync_contribution" [] ep = "exit" -> "exit" [] ep = "bcsel" -> "prepare_aggregator"
                  [] ep = "scsel" -> "prepare_sync_contribution" [] ep \in {"prop", "bprop"} -> "proposer"
                  [] ep = "randao" -> "randao" [] OTHER -> "-"
DutyOf(k) == [type |-> DutyType(c.ep), slot |-> k[1]]
ShareIdx == IF ShareMode = "me" THEN c.me ELSE c.me + 1

----
\* ---------------------------------------------------------------------------------------------- transcription: submissions
InitRun == /\ pc = "idle" /\ i = 1 /\ acc = {} /\ todo = {} /\ cur = NoKey /\ nxt = 1 /\ sent = <<>> /\ atodo = {} /\ acur = NoKey
           /\ awaits = <<>> /\ bn = <<>> /\ ret = None /\ resp = <<>>
Finish(e) == ret' = e /\ pc' = "ret"

\* SubmitValidatorRegistrations: "Submitting validator registrations is ignored" -- whatever the builder flag says
Start == /\ pc = "idle" /\ UNCHANGED <<c, i, acc, todo, cur, nxt, sent, atodo, acur, awaits, bn, resp>>
         /\ IF c.ep = "reg" THEN Finish(None)
            ELSE IF c.ep \in SubmitEps THEN pc' = "loop" /\ UNCHANGED ret
            ELSE pc' = "query" /\ UNCHANGED ret

\* one iteration of `for _, x := range request`: look the DV key up, verify, put into the set of its duty (a later element
\* for the same duty and key REPLACES an earlier one); any failure returns at once -- nothing has been forwarded yet
Put(k, pk, idx) == {e \in acc : ~(e.key = k /\ e.pk = pk)} \cup {[key |-> k, pk |-> pk, idx |-> idx]}
Step == /\ pc = "loop" /\ i <= Len(c.items) /\ UNCHANGED <<c, todo, cur, nxt, sent, atodo, acur, awaits, bn, resp>>
        /\ LET r == Check(c.items[i]) IN
           IF r.err # None
             THEN IF BatchMode = "partial" THEN i' = i + 1 /\ UNCHANGED <<acc, pc, ret>>
                  ELSE Finish(r.err) /\ UNCHANGED <<i, acc>>
             ELSE acc' = Put(r.key, r.pk, i) /\ i' = i + 1 /\ UNCHANGED <<pc, ret>>
Keys == {e.key : e \in acc}
Group(k) == {e \in acc : e.key = k}
\* what follows the forwarding loop: the blocking queries of the selection endpoints / of Proposal
AfterFwd == IF c.ep \in {"bcsel", "scsel", "randao"} THEN pc' = "await" /\ UNCHANGED ret ELSE Finish(None)
LoopEnd == /\ pc = "loop" /\ i > Len(c.items) /\ UNCHANGED <<c, i, acc, cur, nxt, sent, acur, awaits, bn, resp>>
           /\ todo' = Keys /\ atodo' = acc
           /\ IF Keys = {} THEN AfterFwd ELSE pc' = "fwd" /\ UNCHANGED ret

\* `for key, set := range sets { for _, sub := range c.subs { err := sub(ctx, duty, set) ...` : ONE subscriber invocation;
\* the sets are taken in Go map order; an error of a subscriber returns at once (earlier sets stay forwarded)
Deliver(k) ==
  /\ pc = "fwd" /\ (IF cur = NoKey THEN k \in todo ELSE k = cur)
  /\ UNCHANGED <<c, i, acc, atodo, acur, awaits, bn, resp>>
  /\ LET s == IF cur = NoKey THEN 1 ELSE nxt
         inv == [sub |-> s, duty |-> DutyOf(k), set |-> {[pk |-> e.pk, share |-> ShareIdx, idx |-> e.idx] : e \in Group(k)}]
     IN /\ sent' = Append(sent, inv)
        /\ IF Len(sent') = c.subfail THEN Finish("stub: sub failed") /\ UNCHANGED <<todo, cur, nxt>>
           ELSE IF s < c.nsubs THEN cur' = k /\ nxt' = s + 1 /\ UNCHANGED <<todo, pc, ret>>
           ELSE /\ cur' = NoKey /\ nxt' = 1 /\ todo' = todo \ {k}
                /\ IF todo' = {} THEN AfterFwd ELSE UNCHANGED <<pc, ret>>

\* awaitAggSigDBFunc answers: the n-th query fails / returns another type of signed data
AwaitAnswer(n, wrongtext) == IF n = c.afail THEN "stub: await failed" ELSE IF n = c.awrong THEN wrongtext ELSE None
\* BeaconCommitteeSelections: `for slot, data := range psigsBySlot { for pk := range data {` (both in map order)
AwaitB(e) ==
  /\ pc = "await" /\ c.ep = "bcsel" /\ e \in atodo /\ (acur = NoKey \/ e.key = acur)
  /\ UNCHANGED <<c, i, acc, todo, cur, nxt, sent, bn>>
  /\ awaits' = Append(awaits, [duty |-> DutyOf(e.key), pk |-> e.pk, sub |-> 0])
  /\ LET a == AwaitAnswer(Len(awaits'), "invalid beacon committee selection") IN
     IF a # None THEN Finish(a) /\ UNCHANGED <<atodo, acur, resp>>
     ELSE /\ resp' = Append(resp, [slot |-> e.key[1], sub |-> 0, pk |-> e.pk])
          /\ atodo' = atodo \ {e}
          /\ acur' = IF \E x \in atodo' : x.key = e.key THEN e.key ELSE NoKey
          /\ UNCHANGED <<pc, ret>>
\* SyncCommitteeSelections: in REQUEST order, with the pubkeys resolved in the first loop
AwaitS ==
  /\ pc = "await" /\ c.ep = "scsel" /\ Len(awaits) < Len(c.items)
  /\ UNCHANGED <<c, i, acc, todo, cur, nxt, sent, atodo, acur, bn>>
  /\ LET b == c.items[Len(awaits) + 1].body IN
     /\ awaits' = Append(awaits, [duty |-> DutyOf(<<b.slot, b.sub>>), pk |-> b.val, sub |-> b.sub])
     /\ LET a == AwaitAnswer(Len(awaits'), "invalid sync committee selection") IN
        IF a # None THEN Finish(a) /\ UNCHANGED resp
        ELSE resp' = Append(resp, [slot |-> b.slot, sub |-> b.sub, pk |-> b.val]) /\ UNCHANGED <<pc, ret>>
AwaitDone ==
  /\ pc = "await" /\ UNCHANGED <<c, i, acc, todo, cur, nxt, sent, atodo, acur, awaits, bn, resp>>
  /\ \/ c.ep = "bcsel" /\ atodo = {}
     \/ c.ep = "scsel" /\ Len(awaits) = Len(c.items)
  /\ Finish(None)
\* Proposal: after the randao partial signature went to the subscribers, block until the dutydb has the consensus proposal;
\* the response carries consensus and execution value 1
AwaitP ==
  /\ pc = "await" /\ c.ep = "randao" /\ UNCHANGED <<c, i, acc, todo, cur, nxt, sent, atodo, acur, awaits, bn>>
  /\ IF c.conserr \/ c.cons.slot # c.items[1].body.slot THEN Finish("stub: no proposal") /\ UNCHANGED resp
     ELSE resp' = <<[prop |-> "cons", cv |-> 1, ev |-> 1]>> /\ Finish(None)

----
\* ---------------------------------------------------------------------------------------------- transcription: queries
\* getPubShareFunc / getPubKeyFunc: the two maps built by NewComponent for THIS node's share index
PubShare(v) == IF Translate = "share" THEN ShareOf(v, c.me) ELSE RootKey(v)
ShareErr(kr) == IF kr.t = "share" /\ kr.v \in Cluster /\ kr.k = c.me THEN None
                ELSE IF kr.t = "share" /\ kr.v \in Cluster /\ kr.k \in Shares
                  THEN "mismatching validator client key share index, Mth key share submitted to Nth charon peer"
                ELSE "unknown public key"
\* convertValidators: root key -> this node's share; a validator of no cluster key is kept (ignoreNotFound) or an error
Convert(vs, ignore) ==
  IF ~ignore /\ \E v \in vs : v \notin Cluster THEN [err |-> "pubshare not found", out |-> {}]
  ELSE [err |-> None, out |-> {[v |-> v, key |-> IF v \in Cluster THEN PubShare(v) ELSE RootKey(v)] : v \in vs}]
RECURSIVE SetToSortedSeq(_)
SetToSortedSeq(S) == IF S = {} THEN <<>>
                     ELSE LET m == CHOOSE x \in S : \A y \in S : x.v <= y.v IN <<m>> \o SetToSortedSeq(S \ {m})
\* Validators: no filter -> everything the node has; else cached validators by pubshare, the rest (and all indices) upstream
QValidators ==
  /\ pc = "query" /\ c.ep = "validators" /\ UNCHANGED <<c, i, acc, todo, cur, nxt, sent, atodo, acur, awaits>>
  /\ LET pks == c.req.pubkeys  idx == c.req.indices
         bad == {j \in DOMAIN pks : ShareErr(pks[j]) # None}
         roots == [j \in DOMAIN pks |-> pks[j].v]
         miss == SelectSeq(roots, LAMBDA v : v \notin Range(c.cached))
         hit == {v \in Range(roots) : v \in Range(c.cached)}
     IN IF pks = <<>> /\ idx = <<>>
          THEN /\ bn' = <<[api |-> "validators", pubkeys |-> <<>>, indices |-> <<>>]>>
               /\ resp' = SetToSortedSeq(Convert(BNKnown, TRUE).out) /\ Finish(None)
        ELSE IF bad # {}
          THEN Finish(ShareErr(pks[CHOOSE j \in bad : \A k \in bad : j <= k])) /\ UNCHANGED <<bn, resp>>
        ELSE LET up == miss # <<>> \/ idx # <<>>
                 got == IF up THEN (Range(miss) \cup Range(idx)) \cap BNKnown ELSE {}
                 r == Convert(hit \cup got, idx = <<>>)
             IN /\ bn' = IF up THEN <<[api |-> "validators", pubkeys |-> [j \in DOMAIN miss |-> RootKey(miss[j])], indices |-> idx]>>
                               ELSE <<>>
                /\ IF r.err # None THEN Finish(r.err) /\ UNCHANGED resp
                   ELSE resp' = SetToSortedSeq(r.out) /\ Finish(None)
\* ProposerDuties / AttesterDuties / SyncCommitteeDuties: root keys replaced by shares in place; a duty of a key that is
\* not the cluster's is kept as is (proposer: the node returns ALL proposers of the epoch) or an error (attester, sync)
QDuties ==
  /\ pc = "query" /\ c.ep \in DutiesEps /\ UNCHANGED <<c, i, acc, todo, cur, nxt, sent, atodo, acur, awaits>>
  /\ bn' = <<[api |-> c.ep, pubkeys |-> <<>>, indices |-> c.req.indices]>>
  /\ IF c.qerr THEN Finish("stub: upstream failed") /\ UNCHANGED resp
     ELSE IF c.ep # "duties_prop" /\ \E v \in Range(c.dvals) : v \notin Cluster THEN Finish("pubshare not found") /\ UNCHANGED resp
     ELSE /\ resp' = [j \in DOMAIN c.dvals |-> IF c.dvals[j] \in Cluster THEN PubShare(c.dvals[j]) ELSE RootKey(c.dvals[j])]
          /\ Finish(None)
\* AttestationData / AggregateAttestation: the dutydb's answer is handed through
QPass ==
  /\ pc = "query" /\ c.ep \in PassEps /\ UNCHANGED <<c, i, acc, todo, cur, nxt, sent, atodo, acur, awaits>>
  /\ bn' = <<[api |-> c.ep, pubkeys |-> <<>>, indices |-> <<c.req.slot, c.req.comm>>]>>
  /\ IF c.qerr THEN Finish("stub: no data") /\ UNCHANGED resp
     ELSE resp' = <<[prop |-> "stub", cv |-> 0, ev |-> 0]>> /\ Finish(None)

Return == pc = "ret" /\ pc' = "done" /\ UNCHANGED <<c, i, acc, todo, cur, nxt, sent, atodo, acur, awaits, bn, ret, resp>>

Next == Start \/ Step \/ LoopEnd \/ (\E k \in todo : Deliver(k)) \/ (\E e \in atodo : AwaitB(e)) \/ AwaitS \/ AwaitDone \/ AwaitP
        \/ QValidators \/ QDuties \/ QPass \/ Return

----
\* ---------------------------------------------------------------------------------------------- the contract (table)
\* duty type, signing domain, epoch of the domain, slot of the duty, who the object is attributed to
Row(t, d, e, s) == [type |-> t, dom |-> d, epoch |-> e, slot |-> s]
Table(ep, b) ==
  CASE ep = "att" -> Row("attester", "DOMAIN_BEACON_ATTESTER", b.epoch, b.slot)               \* TARGET epoch
    [] ep = "agg" -> Row("aggregator", "DOMAIN_AGGREGATE_AND_PROOF", b.slot \div c.spe, b.slot)
    [] ep = "msg" -> Row("sync_message", "DOMAIN_SYNC_COMMITTEE", b.slot \div c.spe, b.slot)
    [] ep = "contrib" -> Row("sync_contribution", "DOMAIN_CONTRIBUTION_AND_PROOF", b.slot \div c.spe, b.slot)
    [] ep = "exit" -> Row("exit", "DOMAIN_VOLUNTARY_EXIT", b.epoch, b.epoch * c.spe)          \* first slot of the exit epoch
    [] ep = "bcsel" -> Row("prepare_aggregator", "DOMAIN_SELECTION_PROOF", b.slot \div c.spe, b.slot)
    [] ep = "scsel" -> Row("prepare_sync_contribution", "DOMAIN_SYNC_COMMITTEE_SELECTION_PROOF", b.slot \div c.spe, b.slot)
    [] ep \in {"prop", "bprop"} -> Row("proposer", "DOMAIN_BEACON_PROPOSER", b.slot \div c.spe, b.slot)
    [] OTHER -> Row("randao", "DOMAIN_RANDAO", b.slot \div c.spe, b.slot)
\* the DV key an object belongs to: attestation -> the attester definition (slot, committee, validator index);
\* proposal / randao -> the slot's proposer definition; everything else -> the validator index it names
AttVal(b) == IF b.ver # "pre" THEN b.vi
             ELSE IF Cardinality(Range(b.bits)) # 1 THEN 0
             ELSE LET m == {d \in Range(c.defs) : d.slot = b.slot /\ d.comm = b.comm /\ d.pos = b.bits[1]} IN
                  IF Cardinality(m) = 1 THEN (CHOOSE d \in m : TRUE).val ELSE 0
Owner(ep, b) ==
  CASE ep = "att" -> LET v == AttVal(b) IN
                     IF \E d \in Range(c.defs) : d.slot = b.slot /\ d.comm = b.comm /\ d.val = v THEN v ELSE 0
    [] ep \in {"prop", "bprop", "randao"} ->
         LET m == {d \in Range(c.pdefs) : d.slot = b.slot} IN IF ~c.pderr /\ Cardinality(m) = 1 THEN (CHOOSE d \in m : TRUE).val ELSE 0
    [] OTHER -> IF b.val \in BNKnown THEN b.val ELSE 0
\* a partial signature of THIS node's share of validator v's key, for the duty's domain and epoch, over the object itself
Genuine(ep, it, v) == LET row == Table(ep, it.body) IN
  /\ v \in Cluster /\ it.sig.signer = [t |-> "share", v |-> v, k |-> c.me]
  /\ it.sig.dom = row.dom /\ it.sig.epoch \div c.fork = row.epoch \div c.fork
  /\ MsgRoot(ep, it.sig.of) = MsgRoot(ep, Signed(ep, it.body))
\* ... and what else must hold of an element before it may enter the pipeline
ProofOK(ep, b) == ep \in {"agg", "contrib"} =>
  /\ b.proof.signer = [t |-> "root", v |-> b.val, k |-> 0] /\ b.proof.dom = InnerDom(ep)
  /\ b.proof.epoch \div c.fork = (b.slot \div c.spe) \div c.fork /\ b.proof.slot = b.slot /\ (ep = "contrib" => b.proof.sub = b.sub)
MatchesConsensus(ep, b) == ep \in {"prop", "bprop"} =>
  /\ ~c.conserr /\ c.cons.slot = b.slot /\ c.cons.val = b.val /\ c.cons.blinded = b.blinded /\ c.cons.ver = b.ver
  /\ c.cons.content = b.content
Good(ep, it) == LET v == Owner(ep, it.body) IN v # 0 /\ Genuine(ep, it, v) /\ ProofOK(ep, it.body) /\ MatchesConsensus(ep, it.body)

Items == c.items
Idx == DOMAIN Items
IsSubmit == c.ep \in SubmitEps

TypeOK == /\ c.ep \in Eps /\ pc \in {"idle", "loop", "fwd", "await", "query", "ret", "done"}
          /\ \A n \in DOMAIN sent : sent[n].sub \in 1..c.nsubs /\ \A m \in sent[n].set : m.idx \in Idx
          /\ (c.ep \in SingleEps => Len(c.items) = 1)

\* (1)+(2) whatever reaches a subscriber is a submitted object that carries a genuine partial signature of this node's share
\* for the right domain / epoch / content, is filed under the DV key it belongs to, with THIS node's share index, under
\* the duty derived from the object
Attributed ==
  \A n \in DOMAIN sent : \A m \in sent[n].set :
    /\ m.idx \in Idx
    /\ LET it == Items[m.idx] IN
       /\ m.share = c.me
       /\ m.pk = Owner(c.ep, it.body) /\ Genuine(c.ep, it, m.pk)
       /\ sent[n].duty = [type |-> Table(c.ep, it.body).type, slot |-> Table(c.ep, it.body).slot]
\* (2)+(3) all or nothing: one element that must not enter the pipeline stops the whole request, with an error
NoForwardOnReject ==
  (IsSubmit /\ \E j \in Idx : ~Good(c.ep, Items[j])) => sent = <<>> /\ (Done => ret # None)
\* (3) a request that is fine reaches EVERY subscriber exactly once per duty (contributions / sync selections: per duty and
\* subcommittee) with, per DV key, the LAST element submitted for it
GroupKey(ep, b) == <<Table(ep, b).slot, IF ep \in {"contrib", "scsel"} THEN b.sub ELSE 0>>
LastFor(k, v) == LET js == {j \in Idx : GroupKey(c.ep, Items[j].body) = k /\ Owner(c.ep, Items[j].body) = v} IN
                 CHOOSE j \in js : \A x \in js : x <= j
Expected(k) == {[pk |-> v, share |-> c.me, idx |-> LastFor(k, v)] :
                  v \in {Owner(c.ep, Items[j].body) : j \in {x \in Idx : GroupKey(c.ep, Items[x].body) = k}}}
ExactlyOnce ==
  (Done /\ IsSubmit /\ ret = None) =>
    LET ks == {GroupKey(c.ep, Items[j].body) : j \in Idx} IN
    /\ Len(sent) = c.nsubs * Cardinality(ks)
    /\ \A s \in 1..c.nsubs : \A k \in ks :
         Cardinality({n \in DOMAIN sent : sent[n].sub = s /\ sent[n].set = Expected(k)
                                           /\ sent[n].duty.slot = k[1]}) = 1
\* a set goes to the subscribers one after the other, in registration order
SubOrder == \A n \in DOMAIN sent : /\ sent[n].sub = ((n - 1) % c.nsubs) + 1
                                   /\ (sent[n].sub > 1 /\ n > 1 => sent[n].set = sent[n - 1].set /\ sent[n].duty = sent[n - 1].duty)
\* a failing subscriber ends the request there, with its error
SubFailStops == /\ (c.subfail # 0 => Len(sent) <= c.subfail)
                /\ (Done /\ c.subfail \in 1..Len(sent)) => ret = "stub: sub failed"
\* (4) registrations never enter the pipeline (charon registers directly), the call succeeds
RegSwallowed == c.ep = "reg" => sent = <<>> /\ awaits = <<>> /\ (Done => ret = None)
\* the selection endpoints answer with one aggregated selection per element forwarded (sync: in request order)
SelectionsAnswered ==
  (Done /\ ret = None /\ c.ep \in {"bcsel", "scsel"}) =>
    IF c.ep = "scsel" THEN resp = [j \in Idx |-> [slot |-> Items[j].body.slot, sub |-> Items[j].body.sub, pk |-> Items[j].body.val]]
    ELSE /\ Len(resp) = Cardinality(Range(resp))
         /\ Range(resp) = {[slot |-> Items[j].body.slot, sub |-> 0, pk |-> Items[j].body.val] : j \in Idx}
\* Proposal answers only after the randao reveal went to every subscriber
RandaoFirst == (c.ep = "randao" /\ resp # <<>>) => Len(sent) = c.nsubs /\ Good("randao", Items[1])
\* (5) queries: every key of this cluster's validators in a response is THIS node's share; upstream requests carry root keys
Translated ==
  /\ \A n \in DOMAIN bn : \A j \in DOMAIN bn[n].pubkeys : bn[n].pubkeys[j].t = "root"
  /\ (Done /\ ret = None /\ c.ep = "validators") =>
       \A j \in DOMAIN resp : resp[j].key = IF resp[j].v \in Cluster THEN [t |-> "share", v |-> resp[j].v, k |-> c.me]
                                                ELSE [t |-> "root", v |-> resp[j].v, k |-> 0]
  /\ (Done /\ ret = None /\ c.ep \in DutiesEps) =>
       /\ Len(resp) = Len(c.dvals)
       /\ \A j \in DOMAIN resp : resp[j] = IF c.dvals[j] \in Cluster THEN [t |-> "share", v |-> c.dvals[j], k |-> c.me]
                                               ELSE [t |-> "root", v |-> c.dvals[j], k |-> 0]
\* a pubshare of ANOTHER node's share index (or an unknown key) in a validators query is refused
ForeignShareRefused ==
  (Done /\ c.ep = "validators" /\ \E j \in DOMAIN c.req.pubkeys : c.req.pubkeys[j] # [t |-> "share", v |-> c.req.pubkeys[j].v, k |-> c.me]
                                                                     \/ c.req.pubkeys[j].v \notin Cluster)
    => ret # None /\ bn = <<>>
\* queries never touch the pipeline
QueriesSilent == c.ep \in QueryEps => sent = <<>> /\ awaits = <<>>

Safety == /\ TypeOK /\ Attributed /\ NoForwardOnReject /\ ExactlyOnce /\ SubOrder /\ SubFailStops /\ RegSwallowed
          /\ SelectionsAnswered /\ RandaoFirst /\ Translated /\ ForeignShareRefused /\ QueriesSilent
====
