SPECIFICATION MCSpec
CONSTANTS SkipVerify = "none"
 ShareMode = "me"
 BatchMode = "allornothing"
 ExitSlot = "epochstart"
 Translate = "share"
 Me = 3
 SPE = 4
 Fork = 1
 MaxN = 3
INVARIANTS Safety Progress
CHECK_DEADLOCK FALSE
