SPECIFICATION MCSpec
CONSTANTS SkipVerify = "msg"
 ShareMode = "me"
 BatchMode = "allornothing"
 ExitSlot = "epochstart"
 Translate = "share"
 Me = 2
 SPE = 4
 Fork = 1
 MaxN = 2
INVARIANTS Attributed
CHECK_DEADLOCK FALSE
