SPECIFICATION TraceSpec
CONSTANTS SkipVerify = "none"
 ShareMode = "me"
 BatchMode = "allornothing"
 ExitSlot = "epochstart"
 Translate = "share"
 Deviation = "none"
CONSTRAINT Mark
POSTCONDITION Report
CHECK_DEADLOCK FALSE
