SPECIFICATION GenSpec
CONSTANTS SkipVerify = "none"
 ShareMode = "me"
 BatchMode = "allornothing"
 ExitSlot = "epochstart"
 Translate = "share"
 Me = 2
 SPE = 4
 Fork = 1
 MaxN = 2
INVARIANTS Emit
CHECK_DEADLOCK FALSE
