SPECIFICATION MCSpec
CONSTANTS SkipVerify = "none"
 ShareMode = "me"
 BatchMode = "allornothing"
 ExitSlot = "epochstart"
 Translate = "share"
 Me = 4
 SPE = 8
 Fork = 1000
 MaxN = 2
INVARIANTS Safety Progress
CHECK_DEADLOCK FALSE
