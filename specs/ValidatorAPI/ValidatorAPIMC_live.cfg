SPECIFICATION MCFair
CONSTANTS SkipVerify = "none"
 ShareMode = "me"
 BatchMode = "allornothing"
 ExitSlot = "epochstart"
 Translate = "share"
 Me = 1
 SPE = 4
 Fork = 1
 MaxN = 2
PROPERTIES Terminates
CHECK_DEADLOCK FALSE
