SPECIFICATION MCSpec
CONSTANTS SkipVerify = "none"
 ShareMode = "me"
 BatchMode = "partial"
 ExitSlot = "epochstart"
 Translate = "share"
 Me = 2
 SPE = 4
 Fork = 1
 MaxN = 2
INVARIANTS NoForwardOnReject
CHECK_DEADLOCK FALSE
