---- MODULE ValidatorAPITrace ----
(* Trace validation for core/validatorapi (harness/vapi).  One trace = one call of one endpoint of the real Component
   (NewComponent, signature verification on) with real eth2 objects and real BLS partial signatures; events in program order:
     {"ev":"Reset","sid":..., the case (ValidatorAPI.tla describes the fields)}
     {"ev":"BN","api":..,"pubkeys":[keyref],"indices":[..]}     an upstream / dutydb query of a query endpoint
     {"ev":"Sub","sub":k,"duty":{"type","slot"},"set":[{"pk":v,"share":i,"objs":[element numbers],"repoch":e}]}
                                    one subscriber invocation: per DV key (v = the validator whose GROUP key it is, 0: none
                                    of them) the share index and which of the submitted elements the signed data is
     {"ev":"Await","duty":{..},"pk":v,"sub":s}                   one blocking aggsigdb query
     {"ev":"Ret","err":text,"resp":[..]}                         the result ("" = nil error)
     {"ev":"End"}                                                ({"ev":"Panic"} matches nothing)
   Not logged, inferred by TLC: the order in which Go iterates over the per-duty sets (from the Sub events) and over the
   keys of a set in BeaconCommitteeSelections (from the Await events).  The steps without an event (the loop over the
   request, the blocking proposal query) are deterministic and taken eagerly.

   An event that the transcription cannot produce is RECORDED AS OBSERVED (odd is set) so that the contract invariants of
   the design spec name what is wrong (a forward of an unverified object violates Attributed / NoForwardOnReject, a missing
   one ExactlyOnce, ...); `Conforms` (odd = "") is checked last. *)
EXTENDS ValidatorAPI, TraceCommon
CONSTANT Deviation      \* "none" | "att-slot20-clone" (known finding, see TCloneFails)
VARIABLE odd
tvars == <<vars, odd, tr, l>>

Dummy == [me |-> 1, spe |-> 1, fork |-> 1, builder |-> FALSE, nsubs |-> 1, subfail |-> 0, afail |-> 0, awrong |-> 0, ep |-> "reg",
          items |-> <<>>, defs |-> <<>>, pdefs |-> <<>>, pderr |-> FALSE, cons |-> [slot |-> 0, val |-> 0, content |-> 0, ver |-> "v1", blinded |-> FALSE],
          conserr |-> FALSE, cached |-> <<>>, req |-> [pubkeys |-> <<>>, indices |-> <<>>, epoch |-> 0, slot |-> 0, comm |-> 0],
          dvals |-> <<>>, qerr |-> FALSE]
TraceInit == /\ TrInit /\ InitRun /\ odd = ""
             /\ c = IF TLen >= 1 /\ Trace[1].ev = "Reset" THEN Trace[1] ELSE Dummy
TReset == IsEvent("Reset") /\ l = 1 /\ UNCHANGED <<vars, odd>>

\* ---- steps without an event, taken before the next event is looked at
\* a validators query that is answered from the cache (or refused) makes no upstream call
QueryIsSilent == pc = "query" /\ c.ep = "validators" /\ ENABLED (QValidators /\ bn' = <<>>)
SilentEnabled == l >= 2 /\ ( pc \in {"idle", "loop"} \/ (pc = "await" /\ (ENABLED AwaitDone \/ c.ep = "randao")) \/ QueryIsSilent )
TSilent == /\ SilentEnabled /\ Silent /\ UNCHANGED odd
           /\ (Start \/ Step \/ LoopEnd \/ AwaitDone \/ AwaitP \/ (QueryIsSilent /\ QValidators))
Ready == l >= 2 /\ ~SilentEnabled

\* ---- upstream queries of the query endpoints
TBN == /\ IsEvent("BN") /\ Ready
       /\ IF pc = "query" /\ ~QueryIsSilent
            THEN /\ (QValidators \/ QDuties \/ QPass)
                 /\ IF bn' # <<>> /\ Ev.api = bn'[1].api /\ Ev.pubkeys = bn'[1].pubkeys /\ Ev.indices = bn'[1].indices
                      THEN UNCHANGED odd ELSE odd' = "UpstreamQuery"
            ELSE /\ bn' = Append(bn, [api |-> Ev.api, pubkeys |-> Ev.pubkeys, indices |-> Ev.indices]) /\ odd' = "UnexpectedUpstreamQuery"
                 /\ UNCHANGED <<c, pc, i, acc, todo, cur, nxt, sent, atodo, acur, awaits, ret, resp>>

\* ---- subscriber invocations
Observed == [sub |-> Ev.sub, duty |-> Ev.duty,
             set |-> {[pk |-> Ev.set[j].pk, share |-> Ev.set[j].share, idx |-> IF Ev.set[j].objs = <<>> THEN 0 ELSE Ev.set[j].objs[1]] : j \in DOMAIN Ev.set}]
\* the invocation the transcription makes for set k is the one observed
SubMatches(k) ==
  /\ (IF cur = NoKey THEN k \in todo /\ Ev.sub = 1 ELSE k = cur /\ Ev.sub = nxt)
  /\ Ev.duty = DutyOf(k)
  /\ Len(Ev.set) = Cardinality(Group(k))
  /\ \A e \in Group(k) : \E j \in DOMAIN Ev.set :
       /\ Ev.set[j].pk = e.pk /\ Ev.set[j].share = ShareIdx /\ e.idx \in Range(Ev.set[j].objs)
       /\ (c.ep = "randao" => Ev.set[j].repoch = Ep(c.items[e.idx].body.slot))
TSub == /\ IsEvent("Sub") /\ Ready
        /\ IF pc = "fwd" /\ \E k \in todo : SubMatches(k)
             THEN (\E k \in todo : SubMatches(k) /\ Deliver(k)) /\ UNCHANGED odd
             ELSE /\ sent' = Append(sent, Observed) /\ odd' = "Forward"
                  /\ UNCHANGED <<c, pc, i, acc, todo, cur, nxt, atodo, acur, awaits, bn, ret, resp>>

\* KNOWN FINDING GROW-vapi-att-slot20-ssz (deviation cfg only): Subscribe's wrapper clones the set before it calls the
\* subscriber; core.VersionedAttestation.UnmarshalSSZ cannot read back an attestation WITHOUT validator index (pre-electra)
\* whose slot has 20 in its low 32 bits -> the clone fails, the subscriber is not called, the request ends with that error
CloneText == "clone attestation: unmarshal data: unmarshal VersionedAttestation: unmarshal sszValFromVersion: incorrect size"
Uncloneable(k) == \E e \in Group(k) : c.items[e.idx].body.ver = "pre" /\ c.items[e.idx].body.slot = 20   \* (TLC integers are below 2^31)
TCloneFails == /\ Deviation = "att-slot20-clone" /\ c.ep = "att" /\ pc = "fwd" /\ cur = NoKey /\ Ready /\ Silent /\ UNCHANGED odd
               /\ \E k \in todo : Uncloneable(k)
               /\ Finish(CloneText) /\ UNCHANGED <<c, i, acc, todo, cur, nxt, sent, atodo, acur, awaits, bn, resp>>

\* ---- blocking aggsigdb queries
AwaitMatches == LET a == awaits'[Len(awaits')] IN Ev.duty = a.duty /\ Ev.pk = a.pk /\ Ev.sub = a.sub
TAwait == /\ IsEvent("Await") /\ Ready
          /\ IF pc = "await" /\ c.ep = "bcsel" /\ \E e \in atodo : e.pk = Ev.pk /\ DutyOf(e.key) = Ev.duty /\ (acur = NoKey \/ e.key = acur)
               THEN (\E e \in atodo : AwaitB(e) /\ AwaitMatches) /\ UNCHANGED odd
             ELSE IF pc = "await" /\ c.ep = "scsel" /\ Len(awaits) < Len(c.items)
               THEN AwaitS /\ (IF AwaitMatches THEN UNCHANGED odd ELSE odd' = "AggSigDBQuery")
             ELSE /\ awaits' = Append(awaits, [duty |-> Ev.duty, pk |-> Ev.pk, sub |-> Ev.sub]) /\ odd' = "UnexpectedAggSigDBQuery"
                  /\ UNCHANGED <<c, pc, i, acc, todo, cur, nxt, sent, atodo, acur, bn, ret, resp>>

\* ---- the result
RespMatches == Ev.err # None \/ Ev.resp = resp
TRet == /\ IsEvent("Ret") /\ Ready /\ pc # "done"
        /\ IF pc = "ret" /\ Ev.err = ret /\ RespMatches
             THEN Return /\ UNCHANGED odd
             ELSE /\ pc' = "done" /\ ret' = Ev.err /\ resp' = Ev.resp /\ odd' = "Result"
                  /\ UNCHANGED <<c, i, acc, todo, cur, nxt, sent, atodo, acur, awaits, bn>>
TEnd == IsEvent("End") /\ pc = "done" /\ UNCHANGED <<vars, odd>>

TraceNext == TReset \/ TSilent \/ TBN \/ TSub \/ TCloneFails \/ TAwait \/ TRet \/ TEnd
TraceSpec == TraceInit /\ [][TraceNext]_tvars

\* the response invariants read the response's fields: only when it has the endpoint's shape (it always has on the unchanged tree)
Mark == /\ CheckInv("NoForwardOnReject", NoForwardOnReject) /\ CheckInv("Attributed", Attributed)
        /\ CheckInv("SubFailStops", SubFailStops) /\ CheckInv("SubOrder", SubOrder) /\ CheckInv("ExactlyOnce", ExactlyOnce)
        /\ CheckInv("RegSwallowed", RegSwallowed) /\ CheckInv("QueriesSilent", QueriesSilent)
        /\ CheckInv("RandaoFirst", RandaoFirst) /\ CheckInv("SelectionsAnswered", SelectionsAnswered)
        /\ CheckInv("Translated", Translated) /\ CheckInv("ForeignShareRefused", ForeignShareRefused)
        /\ CheckInv("Conforms", odd = "")
        /\ HWMark
====
