---- MODULE ValidatorAPIGen ----
(* Schedule generation.  The only environment move is the validator client's (or, for queries, anybody's) request against
   an environment: `Call`, recorded in the history variable with the whole case; what the component does with it is the
   component's business and is not recorded.  Plain model checking: every case of ValidatorAPICases is one initial state,
   its one successor carries the schedule, printed once.  Share index, slots per epoch, fork spacing, builder flag, data
   versions and literal slots are re-drawn by checks/grow_vapi.py (a relabelling that preserves the case's structure). *)
EXTENDS ValidatorAPICases, Json
VARIABLE hist
GenInit == c \in Cases /\ InitRun /\ hist = <<>>
Call == hist = <<>> /\ Start /\ hist' = <<[ev |-> "Call"] @@ c>>
GenSpec == GenInit /\ [][Call]_<<vars, hist>>
Emit == hist = <<>> \/ PrintT("@@SCHED@@" \o ToJson(hist))
====
