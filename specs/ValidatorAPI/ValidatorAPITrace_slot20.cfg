SPECIFICATION TraceSpec
CONSTANTS SkipVerify = "none"
 ShareMode = "me"
 BatchMode = "allornothing"
 ExitSlot = "epochstart"
 Translate = "share"
 Deviation = "att-slot20-clone"
CONSTRAINT Mark
POSTCONDITION Report
CHECK_DEADLOCK FALSE
