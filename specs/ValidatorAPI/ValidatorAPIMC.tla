---- MODULE ValidatorAPIMC ----
(* Exhaustive design check: every case of ValidatorAPICases, every order in which Go may iterate over the per-duty sets (and
   over the keys of a set in BeaconCommitteeSelections), every scripted failure of a subscriber / of the aggsigdb query.
   States = cases x positions in the call. *)
EXTENDS ValidatorAPICases
MCInit == c \in Cases /\ InitRun
MCSpec == MCInit /\ [][Next]_vars
\* no case gets stuck half-way
Progress == pc # "done" => ENABLED Next
\* every call ends (the loops are bounded by the request)
Terminates == <>(pc = "done")
MCFair == MCSpec /\ WF_vars(Next)
====
