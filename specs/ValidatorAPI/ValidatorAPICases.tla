---- MODULE ValidatorAPICases ----
(* The scenario space of the ValidatorAPI family.  A case = one request of one endpoint against one environment.  The
   requests are built from a RIGHT element (validator v, slot s, signed by this node's share of v's key for the
   endpoint's domain / epoch over the object itself) and ONE deviation of it: who signed (another share of the same key,
   this share index of the other validator's key, the group key, an unrelated key, the zero signature), for which
   domain / epoch, over which object (another slot, other content, another epoch, another validator), whom the object
   names (a validator foreign to the cluster, one the beacon node does not know), plus the endpoint-specific corners
   (aggregation bits, committee index, validator index of electra attestations, target epoch; inner selection proofs;
   proposer definitions and the consensus proposal).  Batches: every single element, every pair (thorough: triple) of a
   SHORT list (right elements of both validators / two slots / two contents or subcommittees, one badly signed element,
   one unknown validator) -- order matters (the first rejected element decides the error, a later element replaces an
   earlier one of the same duty and key).  For requests that are fine: a subscriber that fails at its n-th invocation, a
   blocking aggsigdb query that fails or returns another type. *)
EXTENDS ValidatorAPI
CONSTANTS Me, SPE, Fork, MaxN

S1 == 2 * SPE + 1          \* epoch 2
S2 == 3 * SPE + 1          \* epoch 3
Zero == [t |-> "zero", v |-> 0, k |-> 0]
Unrelated == [t |-> "unrelated", v |-> 0, k |-> 0]
NoProof == [signer |-> Zero, dom |-> "-", epoch |-> 0, slot |-> 0, sub |-> 0]
RightProof(ep, v, s, sub) == [signer |-> RootKey(v), dom |-> InnerDom(ep), epoch |-> s \div SPE, slot |-> s, sub |-> sub]
HasProof(ep) == ep \in {"agg", "contrib"}

Body(ep, v, s) == [val |-> v, slot |-> s, epoch |-> s \div SPE, comm |-> v, sub |-> 0, content |-> 1,
                   ver |-> IF ep = "att" THEN "pre" ELSE "v1", blinded |-> (ep = "bprop"), bits |-> <<v>>, vi |-> 0,
                   proof |-> IF HasProof(ep) THEN RightProof(ep, v, s, 0) ELSE NoProof]
EpochC(ep, b) == IF ep \in {"att", "exit"} THEN b.epoch ELSE b.slot \div SPE
SignedC(ep, b) == IF ep = "randao" THEN [b EXCEPT !.epoch = b.slot \div SPE] ELSE b
\* the element as an honest validator client holding share Me of validator v's key submits it
Sign(ep, b, v) == [body |-> b, sig |-> [signer |-> ShareOf(v, Me), dom |-> Dom(ep), epoch |-> EpochC(ep, b), of |-> SignedC(ep, b)]]
Right(ep, v, s) == Sign(ep, Body(ep, v, s), v)
WithSub(ep, it, sub) == LET b == [it.body EXCEPT !.sub = sub, !.proof = IF HasProof(ep) THEN RightProof(ep, it.body.val, it.body.slot, sub)
                                                                             ELSE NoProof]
                        IN Sign(ep, b, b.val)
WithContent(ep, it, x) == Sign(ep, [it.body EXCEPT !.content = x], it.sig.signer.v)

OtherDom(ep) == IF ep = "randao" THEN "DOMAIN_BEACON_PROPOSER" ELSE "DOMAIN_RANDAO"
SigDevs == <<"othershare", "otherval", "rootkey", "unrelated", "zero", "dom", "epoch", "ofslot", "ofcontent", "ofepoch", "ofval">>
Dev(ep, it, d) ==
  CASE d = "othershare" -> [it EXCEPT !.sig.signer.k = (Me % 4) + 1]
    [] d = "otherval" -> [it EXCEPT !.sig.signer.v = 3 - @]
    [] d = "rootkey" -> [it EXCEPT !.sig.signer = RootKey(@.v)]
    [] d = "unrelated" -> [it EXCEPT !.sig.signer = Unrelated]
    [] d = "zero" -> [it EXCEPT !.sig.signer = Zero]
    [] d = "dom" -> [it EXCEPT !.sig.dom = OtherDom(ep)]
    [] d = "epoch" -> [it EXCEPT !.sig.epoch = @ + 1]
    [] d = "ofslot" -> [it EXCEPT !.sig.of.slot = @ + 1]                      \* another slot of the same epoch
    [] d = "ofcontent" -> [it EXCEPT !.sig.of.content = 2]
    [] d = "ofepoch" -> [it EXCEPT !.sig.of.epoch = @ + 1, !.sig.epoch = @ + 1] \* consistently signed for the next epoch
    [] d = "ofval" -> [it EXCEPT !.sig.of.val = 3 - @]
    [] OTHER -> it
Devs(ep, it) == [j \in DOMAIN SigDevs |-> Dev(ep, it, SigDevs[j])]

\* inner selection proof deviations (aggregates, contributions)
ProofDevs(ep, it) ==
  IF ~HasProof(ep) THEN <<>>
  ELSE LET re(p) == Sign(ep, [it.body EXCEPT !.proof = p], it.body.val)  p0 == it.body.proof IN
       << re([p0 EXCEPT !.signer = ShareOf(it.body.val, Me)]),      \* a partial (not aggregated) selection proof
          re([p0 EXCEPT !.signer = Zero]), re([p0 EXCEPT !.dom = "DOMAIN_RANDAO"]), re([p0 EXCEPT !.epoch = @ + 1]),
          re([p0 EXCEPT !.slot = @ + 1]), re([p0 EXCEPT !.signer = RootKey(3 - it.body.val)]) >>
       \o (IF ep = "contrib" THEN << re([p0 EXCEPT !.sub = 1]) >> ELSE <<>>)

\* ---- attestations
Defs(mode) == LET d(v, s) == [val |-> v, slot |-> s, comm |-> IF mode = "same" THEN 1 ELSE v, pos |-> v] IN
              << d(1, S1), d(2, S1), d(1, S2), d(2, S2) >>
AttRight(mode, v, s, ver) ==
  Sign("att", [Body("att", v, s) EXCEPT !.ver = ver, !.comm = IF mode = "same" THEN 1 ELSE v, !.vi = IF ver = "pre" THEN 0 ELSE v,
                                         !.bits = IF ver = "pre" THEN <<v>> ELSE <<>>], v)
AttSpecials(mode) == LET a == AttRight(mode, 1, S1, "pre")  e == AttRight(mode, 1, S1, "electra")  f == AttRight(mode, 2, S1, "fulu")
                         re(b) == Sign("att", b, 1) IN
  << e, f, re([a.body EXCEPT !.bits = <<>>]), re([a.body EXCEPT !.bits = <<1, 2>>]), re([a.body EXCEPT !.bits = <<3>>]),
     re([a.body EXCEPT !.bits = <<2>>]),                             \* the other validator's position, signed by validator 1's share
     Sign("att", [a.body EXCEPT !.bits = <<2>>], 2),                  \* ... signed by validator 2's share (is validator 2's then)
     re([a.body EXCEPT !.comm = 3]), re([a.body EXCEPT !.slot = 4 * SPE + 1]),    \* no definition for the committee / the slot
     re([e.body EXCEPT !.vi = 0]), Sign("att", [f.body EXCEPT !.vi = 0], 2), re([e.body EXCEPT !.vi = 2]), re([e.body EXCEPT !.vi = 3]),
     re([e.body EXCEPT !.comm = 2]),
     re([a.body EXCEPT !.epoch = @ - 1]), re([e.body EXCEPT !.epoch = @ - 1]),  \* target epoch is not the slot's epoch
     [re([a.body EXCEPT !.epoch = @ - 1]) EXCEPT !.sig.epoch = @ + 1] >>        \* ... but signed for the slot's epoch
AttVariants(mode) == LET a == AttRight(mode, 1, S1, "pre") IN
  <<a>> \o Devs("att", a) \o Devs("att", AttRight(mode, 1, S1, "electra")) \o AttSpecials(mode)
AttShort(mode) == << AttRight(mode, 1, S1, "pre"), AttRight(mode, 2, S1, "pre"), AttRight(mode, 1, S2, "electra"),
                     WithContent("att", AttRight(mode, 1, S1, "pre"), 2), Dev("att", AttRight(mode, 1, S1, "pre"), "othershare"),
                     Sign("att", [AttRight(mode, 1, S1, "pre").body EXCEPT !.bits = <<1, 2>>], 1) >>

\* ---- the other batch endpoints
Foreign(ep) == Right(ep, 3, S1)
Unknown(ep) == Right(ep, 4, S1)
Variants(ep) == LET a == Right(ep, 1, S1) IN
  <<a, Right(ep, 2, S2), Foreign(ep), Unknown(ep)>> \o Devs(ep, a) \o ProofDevs(ep, a)
  \o (IF ep \in {"contrib", "scsel"} THEN << WithSub(ep, a, 1), [WithSub(ep, a, 1) EXCEPT !.sig.of.sub = 0] >> ELSE <<>>)
Short(ep) == LET a == Right(ep, 1, S1) IN
  << a, Right(ep, 2, S1), Right(ep, 1, S2), Dev(ep, a, "othershare"), Unknown(ep),
     IF ep \in {"contrib", "scsel"} THEN WithSub(ep, a, 1) ELSE WithContent(ep, a, 2) >>

Seqs1(V) == {<<V[j]>> : j \in DOMAIN V}
Seqs2(V) == {<<V[j], V[k]>> : j, k \in DOMAIN V}
Seqs3(V) == {<<V[j], V[k], V[m]>> : j, k, m \in DOMAIN V}
Batches(V, W) == {<<>>} \cup Seqs1(V) \cup Seqs2(W) \cup (IF MaxN >= 3 THEN Seqs3(W) ELSE {})

DummyCons == [slot |-> 0, val |-> 0, content |-> 0, ver |-> "v1", blinded |-> FALSE]
DummyReq == [pubkeys |-> <<>>, indices |-> <<>>, epoch |-> 0, slot |-> 0, comm |-> 0]
Case(ep, items) == [me |-> Me, spe |-> SPE, fork |-> Fork, builder |-> FALSE, nsubs |-> 2, subfail |-> 0, afail |-> 0, awrong |-> 0,
                    ep |-> ep, items |-> items, defs |-> Defs("sep"), pdefs |-> <<>>, pderr |-> FALSE, cons |-> DummyCons,
                    conserr |-> FALSE, cached |-> <<>>, req |-> DummyReq, dvals |-> <<>>, qerr |-> FALSE]

\* the environment's failures, for requests that are fine as such: (number of subscribers, failing invocation), aggsigdb
GoodPairs(W) == {<<W[j], W[k]>> : j, k \in {1, 2, 3, 6}}
SubScripts == {<<2, 1>>, <<2, 2>>, <<2, 3>>, <<2, 4>>, <<1, 1>>, <<1, 0>>, <<1, 2>>}
WithSubFail(cs) == {[x EXCEPT !.nsubs = p[1], !.subfail = p[2]] : x \in cs, p \in SubScripts}
WithAwait(cs) == {[x EXCEPT !.afail = n] : x \in cs, n \in 1..2} \cup {[x EXCEPT !.awrong = n] : x \in cs, n \in 1..2}
                 \cup {[x EXCEPT !.afail = 2, !.awrong = 1] : x \in cs}

BatchCases(ep) ==
  LET base == {Case(ep, b) : b \in Batches(Variants(ep), Short(ep))}
      good == {Case(ep, b) : b \in GoodPairs(Short(ep)) \cup {<<Right(ep, 1, S1)>>}}
  IN base \cup WithSubFail(good) \cup (IF ep \in {"bcsel", "scsel"} THEN WithAwait(good) ELSE {})
AttCases ==
  LET mk(mode, b) == [Case("att", b) EXCEPT !.defs = Defs(mode)]
      base == {mk("sep", b) : b \in Batches(AttVariants("sep"), AttShort("sep"))}
              \cup {mk("same", b) : b \in Seqs1(AttVariants("same")) \cup Seqs2(AttShort("same"))}
      good == UNION {{mk(m, <<AttShort(m)[1], AttShort(m)[2]>>), mk(m, <<AttShort(m)[3], AttShort(m)[1]>>)} : m \in {"sep", "same"}}
  IN base \cup WithSubFail(good)

\* ---- single-object endpoints
ExitCases == LET a == Right("exit", 1, S1) IN
  {Case("exit", <<x>>) : x \in Range(<<a, Right("exit", 2, S2), Foreign("exit"), Unknown("exit"),
                                       Sign("exit", [a.body EXCEPT !.epoch = 0], 1), Sign("exit", [a.body EXCEPT !.epoch = 5], 1)>>
                                     \o Devs("exit", a))}
  \cup WithSubFail({Case("exit", <<a>>)})

PDef(v, s) == [val |-> v, slot |-> s]
ConsOf(b) == [slot |-> b.slot, val |-> b.val, content |-> b.content, ver |-> b.ver, blinded |-> b.blinded]
PropCase(ep, it, pdefs, cons) == [Case(ep, <<it>>) EXCEPT !.pdefs = pdefs, !.cons = cons]
PropCases(ep) ==
  LET a == Right(ep, 1, S1)   ok == <<PDef(1, S1)>>   k == ConsOf(a.body)
      blinded == IF ep = "prop" THEN {FALSE, TRUE} ELSE {TRUE}
      flip(it, bl) == Sign(ep, [it.body EXCEPT !.blinded = bl], it.sig.signer.v)
      pdvars == {<<>>, <<PDef(1, S1), PDef(2, S1)>>, <<PDef(1, S2)>>, <<PDef(1, S1), PDef(2, S2)>>}
      consvars == {[k EXCEPT !.val = 2], [k EXCEPT !.blinded = ~@], [k EXCEPT !.ver = "v2"], [k EXCEPT !.content = 2],
                   [k EXCEPT !.slot = S2]}
  IN UNION {LET x == flip(a, bl)  kk == [k EXCEPT !.blinded = bl] IN
            {PropCase(ep, x, ok, kk)}
            \cup {PropCase(ep, y, ok, kk) : y \in Range(Devs(ep, x))}
            \cup {PropCase(ep, x, pd, kk) : pd \in pdvars}
            \cup {[PropCase(ep, x, ok, kk) EXCEPT !.pderr = TRUE], [PropCase(ep, x, ok, kk) EXCEPT !.conserr = TRUE]}
            \* the slot's definition is validator 2's: the block (proposer index 1, as in the consensus proposal) signed by
            \* validator 2's share / by validator 1's share
            \cup {PropCase(ep, Sign(ep, x.body, 2), <<PDef(2, S1)>>, kk), PropCase(ep, x, <<PDef(2, S1)>>, kk)}
            \cup WithSubFail({PropCase(ep, x, ok, kk)})
            : bl \in blinded}
     \cup {PropCase(ep, a, ok, cv) : cv \in consvars}
RandaoCases ==
  LET a == Right("randao", 1, S1)   ok == <<PDef(1, S1)>>   k == [DummyCons EXCEPT !.slot = S1, !.val = 1, !.content = 1] IN
  {PropCase("randao", a, ok, k)} \cup {PropCase("randao", y, ok, k) : y \in Range(Devs("randao", a))}
  \cup {PropCase("randao", a, pd, k) : pd \in {<<>>, <<PDef(1, S1), PDef(2, S1)>>, <<PDef(1, S2)>>}}
  \cup {PropCase("randao", Sign("randao", a.body, 2), <<PDef(2, S1)>>, k), PropCase("randao", a, <<PDef(2, S1)>>, k)}
  \cup {[PropCase("randao", a, ok, k) EXCEPT !.pderr = TRUE], [PropCase("randao", a, ok, k) EXCEPT !.conserr = TRUE],
        PropCase("randao", a, ok, [k EXCEPT !.slot = S2])}
  \cup WithSubFail({PropCase("randao", a, ok, k)})
\* registrations: whatever is submitted, with or without the builder flag
RegCases == LET a == Right("reg", 1, S1) IN
  {[Case("reg", b) EXCEPT !.builder = bf] : b \in {<<>>, <<a>>, <<a, Right("reg", 2, S1)>>, <<Dev("reg", a, "unrelated")>>, <<Unknown("reg")>>},
                                            bf \in BOOLEAN}

\* ---- queries
KeyRefs == << ShareOf(1, Me), ShareOf(2, Me), ShareOf(1, (Me % 4) + 1), RootKey(1), Unrelated, ShareOf(3, Me) >>
KeyShort == << ShareOf(1, Me), ShareOf(2, Me), ShareOf(2, (Me % 4) + 1), Unrelated >>
ValidatorsCases ==
  {[Case("validators", <<>>) EXCEPT !.req = [DummyReq EXCEPT !.pubkeys = pk, !.indices = ix], !.cached = ch] :
     pk \in {<<>>} \cup Seqs1(KeyRefs) \cup Seqs2(KeyShort),
     ix \in {<<>>, <<1>>, <<3>>, <<2, 4>>},  ch \in {<<>>, <<1>>, <<1, 2, 3>>}}
DutiesCases ==
  {[Case(ep, <<>>) EXCEPT !.dvals = dv, !.req = [DummyReq EXCEPT !.epoch = 2, !.indices = <<1, 2>>]] :
     ep \in DutiesEps, dv \in {<<>>, <<1>>, <<1, 2>>, <<2, 1, 2>>, <<1, 3>>, <<3>>}}
  \cup {[Case(ep, <<>>) EXCEPT !.qerr = TRUE] : ep \in DutiesEps}
PassCases == {[Case(ep, <<>>) EXCEPT !.qerr = q, !.req = [DummyReq EXCEPT !.slot = S1, !.comm = 2]] : ep \in PassEps, q \in BOOLEAN}

Cases == AttCases \cup UNION {BatchCases(ep) : ep \in BatchEps \ {"att"}} \cup ExitCases \cup PropCases("prop") \cup PropCases("bprop")
         \cup RandaoCases \cup RegCases \cup ValidatorsCases \cup DutiesCases \cup PassCases
====
