SPECIFICATION MCSpec
CONSTANTS SkipVerify = "none"
 ShareMode = "me"
 BatchMode = "allornothing"
 ExitSlot = "epochstart"
 Translate = "identity"
 Me = 2
 SPE = 4
 Fork = 1
 MaxN = 2
INVARIANTS Translated
CHECK_DEADLOCK FALSE
