---- MODULE Broadcaster ----
(* core/bcast/bcast.go, metrics.go: the last step of charon's duty workflow.  Broadcast(ctx, duty, set) hands the
   aggregated signed objects of ONE duty to the beacon node.  The module is (1) a transcription of Broadcast, one action
   per critical section / loop iteration (switch case, conversion of the set, the electra validator-index check, each
   beacon-API call, the deferred instrumentDuty), and (2) the same contract once more as a TABLE (duty type -> mode,
   expected kind of signed data, endpoint, expected-submission offset) against which the transcription is checked by
   invariants -- double-entry bookkeeping, so that neither the actions nor the invariants are vacuous.

   One behaviour = one call of Broadcast.  The CASE (duty, set, the beacon node's script, times) never changes.
     set      sequence of objects, position = model id of the validator / object.  An object is a record
                kind     "att" | "prop" | "exit" | "agg" | "msg" | "contrib" | "reg" | "randao"
                post     (att) data version >= electra
                vi       (att) carries a ValidatorIndex
                known    (att) "yes": the node's attester duties hold a duty (same slot) for the key that signed it,
                               "otherslot": such a duty for another slot, "no": none
                blinded  (prop)
                cls, lat (exit) how the node answers the submission of THIS exit, and how long it takes (ms)
     lcls, llat  answer / latency of the single list- or proposal-submission
     rcls        answer of the node's validators query (first call of the expensive electra resolve branch)
   Answers: "ok", "prior" (an error whose text contains "PriorAttestationKnown"), "other" (any other error).
   Times are milliseconds since genesis; the expected-submission offsets are slotms*k/3 as coded (integer division).

   Switches (as coded first): SwallowPrior "attester" | "all";  InstrOn "success" | "always";
   ExitErr "last" | "first" | "any" ("any" = a repaired variant: report a failure whenever one exit failed). *)
EXTENDS Integers, Sequences, FiniteSets, TLC
CONSTANTS SwallowPrior, InstrOn, ExitErr

NilTypes == {"randao", "prepare_aggregator", "prepare_sync_contribution", "builder_registration"}
ListTypes == {"attester", "aggregator", "sync_message", "sync_contribution"}
Unsupported == {"unknown", "signature", "info_sync", "sentinel14", "t99"}   \* 0, 3, 13, 14, 99 of core.DutyType
DutyTypes == NilTypes \cup ListTypes \cup {"proposer", "exit", "builder_proposer"} \cup Unsupported
Kinds == {"att", "prop", "exit", "agg", "msg", "contrib", "reg", "randao"}
Answers == {"ok", "prior", "other"}

VARIABLES duty, slot, slotms, at, set, lcls, llat, rcls,     \* the case
          pc, now, ord, todo, vidx, calls, lasterr, ret, instr
case == <<duty, slot, slotms, at, set, lcls, llat, rcls>>
run == <<pc, now, ord, todo, vidx, calls, lasterr, ret, instr>>
vars == <<case, run>>

Keys == DOMAIN set
RECURSIVE PermSeqs(_)
PermSeqs(S) == IF S = {} THEN {<<>>} ELSE UNION {{<<x>> \o p : p \in PermSeqs(S \ {x})} : x \in S}
Range(s) == {s[i] : i \in DOMAIN s}

None == [kind |-> "none", call |-> 0, text |-> ""]
Own(text) == [kind |-> "own", call |-> 0, text |-> text]
Bn(i) == [kind |-> "bn", call |-> i, text |-> ""]
Pending == [kind |-> "pending", call |-> 0, text |-> ""]

InitWith(d, sl, sms, t, s, lc, ll, rc) ==
  /\ duty = d /\ slot = sl /\ slotms = sms /\ at = t /\ set = s /\ lcls = lc /\ llat = ll /\ rcls = rc
  /\ pc = "idle" /\ now = t /\ ord = <<>> /\ todo = {} /\ calls = <<>> /\ lasterr = 0 /\ ret = Pending /\ instr = <<>>
  /\ vidx = [k \in DOMAIN s |-> IF s[k].kind = "att" /\ s[k].vi THEN "own" ELSE "nil"]

----
\* ---------------------------------------------------------------------------------------------- transcription
Finish(r) == ret' = r /\ pc' = "ret"

\* setToAttestations / setToAggAndProof / setToSyncMessages / setToSyncContributions: range over the map, a wrong-typed
\* entry fails the conversion (nothing has been submitted yet); otherwise the list is in map iteration order p.
Convert(kind, text, next, p) ==
  IF \E k \in Keys : set[k].kind # kind
    THEN Finish(Own(text)) /\ UNCHANGED <<now, ord, todo, vidx, calls, lasterr, instr>>
    ELSE ord' = p /\ pc' = next /\ UNCHANGED <<now, todo, vidx, calls, lasterr, ret, instr>>

\* the switch on duty.Type; p is the map iteration order of the conversion loops
Call(p) ==
  /\ pc = "idle" /\ UNCHANGED case
  /\ CASE duty = "attester" -> Convert("att", "invalid attestation", "attcheck", p)
       [] duty = "aggregator" -> Convert("agg", "invalid aggregate and proof", "list", p)
       [] duty = "sync_message" -> Convert("msg", "invalid sync committee message", "list", p)
       [] duty = "sync_contribution" -> Convert("contrib", "invalid sync committee contribution", "list", p)
       [] duty = "proposer" ->
            IF Cardinality(Keys) # 1
              THEN Finish(Own("expected one item in set")) /\ UNCHANGED <<now, ord, todo, vidx, calls, lasterr, instr>>
              ELSE IF set[1].kind # "prop"
                THEN Finish(Own("invalid proposal")) /\ UNCHANGED <<now, ord, todo, vidx, calls, lasterr, instr>>
                ELSE pc' = "prop" /\ UNCHANGED <<now, ord, todo, vidx, calls, lasterr, ret, instr>>
       [] duty = "exit" -> todo' = Keys /\ pc' = "exit" /\ UNCHANGED <<now, ord, vidx, calls, lasterr, ret, instr>>
       [] duty = "builder_proposer" ->
            Finish(Own("deprecated duty DutyBuilderProposer")) /\ UNCHANGED <<now, ord, todo, vidx, calls, lasterr, instr>>
       [] duty \in NilTypes -> Finish(None) /\ UNCHANGED <<now, ord, todo, vidx, calls, lasterr, instr>>
       [] OTHER -> Finish(Own("unsupported duty type")) /\ UNCHANGED <<now, ord, todo, vidx, calls, lasterr, instr>>

\* the loop that decides checkValIdxs: `break` at the first pre-electra attestation, `checkValIdxs = true; break` at the
\* first electra+ attestation without validator index -- in list (= map iteration) order
NeedCheck(o) == \E i \in DOMAIN o : /\ set[o[i]].post /\ ~set[o[i]].vi
                                    /\ \A j \in 1..(i - 1) : set[o[j]].post /\ set[o[j]].vi
\* ... and the expensive branch: validators query (may fail: the call returns the wrapped error, nothing submitted),
\* attester duties of the epoch, signing domain; every attestation whose signature verifies under the key of a duty of
\* the first attestation's slot gets that duty's validator index (whatever version it has, whatever index it had)
AttCheck ==
  /\ pc = "attcheck" /\ UNCHANGED case
  /\ IF ~NeedCheck(ord)
       THEN pc' = "list" /\ UNCHANGED <<now, ord, todo, vidx, calls, lasterr, ret, instr>>
       ELSE /\ calls' = Append(calls, [api |-> "validators", objs |-> <<>>, cls |-> rcls])
            /\ IF rcls # "ok"
                 THEN Finish(Bn(Len(calls'))) /\ UNCHANGED <<now, ord, todo, vidx, lasterr, instr>>
                 ELSE /\ vidx' = [k \in Keys |-> IF set[k].known = "yes" THEN "duty" ELSE vidx[k]]
                      /\ pc' = "list" /\ UNCHANGED <<now, ord, todo, lasterr, ret, instr>>

Swallowed(api, cls) == cls = "prior" /\ (api = "attestations" \/ SwallowPrior = "all")
ListApi == CASE duty = "attester" -> "attestations" [] duty = "aggregator" -> "aggregate_attestations"
             [] duty = "sync_message" -> "sync_committee_messages" [] OTHER -> "sync_committee_contributions"
\* ONE submission with the whole list (an empty set makes an empty submission)
SubmitList ==
  /\ pc = "list" /\ UNCHANGED case
  /\ calls' = Append(calls, [api |-> ListApi, objs |-> ord, cls |-> lcls])
  /\ now' = now + llat
  /\ Finish(IF lcls = "ok" \/ Swallowed(ListApi, lcls) THEN None ELSE Bn(Len(calls')))
  /\ UNCHANGED <<ord, todo, vidx, lasterr, instr>>

SubmitProp ==
  /\ pc = "prop" /\ UNCHANGED case
  /\ LET api == IF set[1].blinded THEN "blinded_proposal" ELSE "proposal" IN
     /\ calls' = Append(calls, [api |-> api, objs |-> <<1>>, cls |-> lcls])
     /\ Finish(IF lcls = "ok" \/ Swallowed(api, lcls) THEN None ELSE Bn(Len(calls')))
  /\ now' = now + llat
  /\ UNCHANGED <<ord, todo, vidx, lasterr, instr>>

\* `for pubkey, aggData := range set`: one iteration; a wrong-typed entry returns at once (earlier exits stay submitted),
\* `err = SubmitVoluntaryExit(..)` overwrites the previous iteration's err
ExitStep(k) ==
  /\ pc = "exit" /\ k \in todo /\ UNCHANGED case
  /\ IF set[k].kind # "exit"
       THEN Finish(Own("invalid exit")) /\ UNCHANGED <<now, ord, todo, vidx, calls, lasterr, instr>>
       ELSE /\ calls' = Append(calls, [api |-> "voluntary_exit", objs |-> <<k>>, cls |-> set[k].cls])
            /\ now' = now + set[k].lat
            /\ LET e == IF set[k].cls = "ok" \/ Swallowed("voluntary_exit", set[k].cls) THEN 0 ELSE Len(calls') IN
               lasterr' = IF ExitErr = "last" THEN e ELSE IF lasterr # 0 THEN lasterr ELSE e
            /\ todo' = todo \ {k}
            /\ UNCHANGED <<pc, ord, vidx, ret, instr>>
ExitDone ==
  /\ pc = "exit" /\ todo = {} /\ UNCHANGED case
  /\ Finish(IF lasterr = 0 THEN None ELSE Bn(lasterr))
  /\ UNCHANGED <<now, ord, todo, vidx, calls, lasterr, instr>>

\* newDelayFunc: expectedSubmission = slotStart (+ slotDuration*1/3 attester, + slotDuration*2/3 aggregator and sync
\* contribution); the deferred function calls instrumentDuty(duty, time.Since(expectedSubmission)) iff err == nil
Offset(t) == IF t = "attester" THEN (slotms * 1) \div 3
             ELSE IF t \in {"aggregator", "sync_contribution"} THEN (slotms * 2) \div 3 ELSE 0
Return ==
  /\ pc = "ret" /\ UNCHANGED case
  /\ instr' = IF ret.kind = "none" \/ InstrOn = "always"
                THEN <<[label |-> duty, ms |-> now - (slot * slotms + Offset(duty))]>> ELSE <<>>
  /\ pc' = "done"
  /\ UNCHANGED <<now, ord, todo, vidx, calls, lasterr, ret>>

Next == (\E p \in PermSeqs(Keys) : Call(p)) \/ AttCheck \/ SubmitList \/ SubmitProp \/ (\E k \in todo : ExitStep(k))
        \/ ExitDone \/ Return

----
\* ---------------------------------------------------------------------------------------------- the table
\* mode: how the set is handed over; kind: the signed-data type the duty carries; api: the endpoint; third: expected
\* submission in thirds of a slot after the slot start
Row(m, k, a, t) == [mode |-> m, kind |-> k, api |-> a, third |-> t]
Table(t) ==
  CASE t = "attester" -> Row("list", "att", "attestations", 1)
    [] t = "aggregator" -> Row("list", "agg", "aggregate_attestations", 2)
    [] t = "sync_message" -> Row("list", "msg", "sync_committee_messages", 0)
    [] t = "sync_contribution" -> Row("list", "contrib", "sync_committee_contributions", 2)
    [] t = "proposer" -> Row("one", "prop", "proposal", 0)            \* "blinded_proposal" for a blinded block
    [] t = "exit" -> Row("each", "exit", "voluntary_exit", 0)
    [] t = "builder_proposer" -> Row("deprecated", "-", "-", 0)
    [] t \in NilTypes -> Row("nil", "-", "-", 0)
    [] OTHER -> Row("unsupported", "-", "-", 0)
Row0 == Table(duty)
Done == pc = "done"
Submits == SelectSeq(calls, LAMBDA c : c.api # "validators")
WrongTyped == {k \in Keys : set[k].kind # Row0.kind}
IsPerm(s) == Len(s) = Cardinality(Keys) /\ Range(s) = Keys
Accepted(c) == c.cls = "ok" \/ (c.cls = "prior" /\ c.api = "attestations")
Resolving == \E i \in DOMAIN calls : calls[i].api = "validators"
ResolveFailed == Resolving /\ rcls # "ok"

TypeOK == /\ duty \in DutyTypes /\ pc \in {"idle", "attcheck", "list", "prop", "exit", "ret", "done"}
          /\ ret.kind \in {"pending", "none", "own", "bn"} /\ todo \subseteq Keys /\ Len(instr) <= 1
          /\ \A i \in DOMAIN calls : Range(calls[i].objs) \subseteq Keys /\ calls[i].cls \in Answers

\* duty types that are not broadcast: nothing is ever sent, and the result is fixed by the type alone
NotBroadcast ==
  Row0.mode \in {"nil", "deprecated", "unsupported"} =>
    /\ calls = <<>>
    /\ Done => ret = CASE Row0.mode = "nil" -> None
                        [] Row0.mode = "deprecated" -> Own("deprecated duty DutyBuilderProposer")
                        [] OTHER -> Own("unsupported duty type")
\* whatever is submitted goes to the duty's endpoint and is of the duty's kind
EndpointRule ==
  \A i \in DOMAIN Submits : LET c == Submits[i] IN
    /\ \A k \in Range(c.objs) : set[k].kind = Row0.kind
    /\ IF duty = "proposer" THEN c.api = (IF set[c.objs[1]].blinded THEN "blinded_proposal" ELSE "proposal")
       ELSE c.api = Row0.api
\* list duties: all or nothing, ONE call with every object exactly once; nothing at all if an entry has the wrong type
ListRule ==
  Row0.mode = "list" =>
    /\ Len(Submits) <= 1
    /\ \A i \in DOMAIN Submits : IsPerm(Submits[i].objs)
    /\ WrongTyped # {} => Submits = <<>> /\ ~Resolving
    /\ (Done /\ WrongTyped = {} /\ ~ResolveFailed) => Len(Submits) = 1
OneRule ==
  Row0.mode = "one" =>
    /\ Len(Submits) <= 1
    /\ (Cardinality(Keys) # 1 \/ WrongTyped # {}) => calls = <<>>
    /\ (Done /\ Cardinality(Keys) = 1 /\ WrongTyped = {}) => Len(Submits) = 1 /\ Submits[1].objs = <<1>>
\* exits: one call per exit, none twice; all of them unless a wrong-typed entry is in the set
EachRule ==
  Row0.mode = "each" =>
    /\ \A i \in DOMAIN Submits : Len(Submits[i].objs) = 1
    /\ \A i, j \in DOMAIN Submits : Submits[i].objs = Submits[j].objs => i = j
    /\ (Done /\ WrongTyped = {}) => {Submits[i].objs[1] : i \in DOMAIN Submits} = Keys
\* the validator-index resolution only ever runs for an attester duty with an electra+ attestation lacking the index
ResolveRule == Resolving => duty = "attester" /\ \E k \in Keys : set[k].post /\ ~set[k].vi
\* result (list / one): success iff the node accepted the submission; a refusal is reported with the node's error; the
\* "already known" answer counts as acceptance for attestations ONLY
ResultRule ==
  (Done /\ Row0.mode \in {"list", "one"} /\ Submits # <<>>) =>
    ret = IF Accepted(Submits[1]) THEN None ELSE Bn(Len(calls))
WrongTypeRule ==
  (Done /\ WrongTyped # {} /\ Row0.mode \in {"list", "one", "each"}) =>
    ret.kind = "own" \/ (Row0.mode = "one" /\ Cardinality(Keys) # 1)
\* exits as coded: the error of the LAST submission decides (earlier failures are forgotten)
ExitLast ==
  (Done /\ duty = "exit" /\ WrongTyped = {}) =>
    ret = IF calls = <<>> \/ Accepted(calls[Len(calls)]) THEN None ELSE Bn(Len(calls))
\* instrumentDuty iff the call returns nil; label = duty type; delay = time of return - expected submission
InstrRule ==
  Done => /\ (instr # <<>>) <=> (ret.kind = "none")
          /\ \A i \in DOMAIN instr : /\ instr[i].label = duty
                                     /\ instr[i].ms = now - slot * slotms - (Row0.third * slotms) \div 3
\* the clock: only beacon-API calls take time
Lat(c) == IF c.api = "validators" THEN 0 ELSE IF c.api = "voluntary_exit" THEN set[c.objs[1]].lat ELSE llat
RECURSIVE SumLat(_)
SumLat(s) == IF s = <<>> THEN 0 ELSE Lat(Head(s)) + SumLat(Tail(s))
ClockRule == now = at + SumLat(calls)

\* NOT an invariant of the code as written (finding: a refused exit is reported and counted as success when a later one
\* is accepted): success means the node accepted everything that was submitted
SuccessMeansAccepted == (Done /\ ret.kind = "none") => \A i \in DOMAIN Submits : Accepted(Submits[i])

Safety == /\ TypeOK /\ NotBroadcast /\ EndpointRule /\ ListRule /\ OneRule /\ EachRule /\ ResolveRule /\ ResultRule
          /\ WrongTypeRule /\ ExitLast /\ InstrRule /\ ClockRule
====
