SPECIFICATION MCSpec
CONSTANTS SwallowPrior = "attester"
 InstrOn = "success"
 ExitErr = "first"
 MaxN = 3
 Slots = {2}
 SlotMs = {12000}
 AtOffsets = {4700}
 Lats = {130}
INVARIANTS ExitLast
CHECK_DEADLOCK FALSE
