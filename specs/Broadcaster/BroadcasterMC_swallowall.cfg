SPECIFICATION MCSpec
CONSTANTS SwallowPrior = "all"
 InstrOn = "success"
 ExitErr = "last"
 MaxN = 3
 Slots = {2}
 SlotMs = {12000}
 AtOffsets = {4700}
 Lats = {130}
INVARIANTS ResultRule
CHECK_DEADLOCK FALSE
