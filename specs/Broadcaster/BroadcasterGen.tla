---- MODULE BroadcasterGen ----
(* The scenario space enumerated by plain model checking: every initial state IS a case of BroadcasterCases (duty type x
   set shape x answers of the beacon node); each is printed once as a one-step schedule.  The call time, the slot, the
   slot duration, the latencies, the concrete data versions and the literal error texts are filled in by the seeded
   generator in checks/grow_broadcaster.py (the spec only distinguishes the classes). *)
EXTENDS BroadcasterCases, Json
GenInit == \E c \in Cases : InitWith(c.duty, 0, 3, 0, c.set, c.lcls, 0, c.rcls)
GenSpec == GenInit /\ [][UNCHANGED vars]_vars
Sched == <<[ev |-> "Case", duty |-> duty, set |-> set, lcls |-> lcls, rcls |-> rcls]>>
Emit == PrintT("@@SCHED@@" \o ToJson(Sched))
====
