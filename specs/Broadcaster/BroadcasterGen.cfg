SPECIFICATION GenSpec
CONSTANTS SwallowPrior = "attester"
 InstrOn = "success"
 ExitErr = "last"
 MaxN = 3
INVARIANTS Emit
CHECK_DEADLOCK FALSE
