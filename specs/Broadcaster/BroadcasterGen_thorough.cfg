SPECIFICATION GenSpec
CONSTANTS SwallowPrior = "attester"
 InstrOn = "success"
 ExitErr = "last"
 MaxN = 4
INVARIANTS Emit
CHECK_DEADLOCK FALSE
