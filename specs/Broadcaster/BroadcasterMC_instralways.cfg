SPECIFICATION MCSpec
CONSTANTS SwallowPrior = "attester"
 InstrOn = "always"
 ExitErr = "last"
 MaxN = 3
 Slots = {2}
 SlotMs = {12000}
 AtOffsets = {4700}
 Lats = {130}
INVARIANTS InstrRule
CHECK_DEADLOCK FALSE
