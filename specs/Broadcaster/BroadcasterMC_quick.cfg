SPECIFICATION MCSpec
CONSTANTS SwallowPrior = "attester"
 InstrOn = "success"
 ExitErr = "last"
 MaxN = 3
 Slots = {2}
 SlotMs = {12000}
 AtOffsets = {0, 4700}
 Lats = {0, 130}
INVARIANTS Safety Progress
CHECK_DEADLOCK FALSE
