---- MODULE BroadcasterMC ----
(* Exhaustive design check: every case of BroadcasterCases (sets of 0..MaxN objects), every map iteration order of the
   conversion loops and of the exit loop, call times before / after the expected submission, with and without latency of
   the beacon node.  States = cases x positions in Broadcast. *)
EXTENDS BroadcasterCases
CONSTANTS Slots, SlotMs, AtOffsets, Lats
WithLat(s, lat) == [k \in DOMAIN s |-> [s[k] EXCEPT !.lat = lat * k]]
MCInit == \E c \in Cases : \E sl \in Slots, sms \in SlotMs, off \in AtOffsets, lat \in Lats :
            InitWith(c.duty, sl, sms, sl * sms + off, WithLat(c.set, lat), c.lcls, lat, c.rcls)
MCSpec == MCInit /\ [][Next]_vars
\* everything but ExitLast (for the repaired exit variant)
SafetyRepaired == /\ TypeOK /\ NotBroadcast /\ EndpointRule /\ ListRule /\ OneRule /\ EachRule /\ ResolveRule /\ ResultRule
                  /\ WrongTypeRule /\ InstrRule /\ ClockRule /\ SuccessMeansAccepted
\* no case gets stuck half-way: some step is possible until the deferred instrumentation has run
Progress == pc # "done" => ENABLED Next
====
