SPECIFICATION MCSpec
CONSTANTS SwallowPrior = "attester"
 InstrOn = "success"
 ExitErr = "last"
 MaxN = 4
 Slots = {1, 7}
 SlotMs = {3000, 12000}
 AtOffsets = {0, 1000, 8300}
 Lats = {0, 130}
INVARIANTS Safety Progress
CHECK_DEADLOCK FALSE
