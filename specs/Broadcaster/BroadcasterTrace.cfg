SPECIFICATION TraceSpec
CONSTANTS SwallowPrior = "attester"
 InstrOn = "success"
 ExitErr = "last"
CONSTRAINT Mark
POSTCONDITION Report
CHECK_DEADLOCK FALSE
