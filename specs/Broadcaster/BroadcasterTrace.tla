---- MODULE BroadcasterTrace ----
(* Trace validation for core/bcast (harness/bcastcore).  One trace = one call of Broadcaster.Broadcast inside a
   testing/synctest bubble (virtual time), events in program order:
     {"ev":"Reset","sid":..,"rep":..,"duty":..,"slot":..,"slotms":..,"at":..,"set":[object,...],"lcls":..,"llat":..,"rcls":..}
                                the case as built (Broadcaster.tla describes the fields); rep = insertion order of the map
     {"ev":"Resolve","call":i,"t":ms}           the validators query of the electra validator-index branch
     {"ev":"Submit","call":i,"api":..,"objs":[ids],"vi":[validator index per object, 0 = none],"eq":[bool],"t":ms}
                                one beacon-API submission: which of the objects handed in (0: none of them), whether each
                                is byte-identical to what was handed in (validator index aside)
     {"ev":"Ret","err":"none"|"bn"|"own","call":i,"text":..,"dep":bool,"t0":ms,"t1":ms,
            "instr":[{"label":..,"total":d,"cnt":d,"ms":d}]}   the result (bn: the error value the node returned from call
                                i), the clock before/after, the deltas of core_bcast_broadcast_total and of the histogram
     {"ev":"End"}               the call has returned and everything was recorded ({"ev":"Panic"} matches nothing)
   Not logged, inferred by TLC: the map iteration order of the conversion loops (taken from the next Submit event when
   there is one, else any order), the order of the exit loop (from the sequence of voluntary_exit submissions) and the
   wrong-typed entry an exit loop stumbled over. *)
EXTENDS Broadcaster, TraceCommon
tvars == <<vars, tr, l>>
R == Trace[1]
TraceInit == /\ TrInit
             /\ IF TLen >= 1 /\ Trace[1].ev = "Reset"
                  THEN InitWith(R.duty, R.slot, R.slotms, R.at, R.set, R.lcls, R.llat, R.rcls)
                  ELSE InitWith("randao", 0, 3, 0, <<>>, "ok", 0, "ok")
TReset == IsEvent("Reset") /\ l = 1 /\ UNCHANGED vars

SubmitEvs == SelectSeq(Trace, LAMBDA e : e.ev = "Submit")
\* The order only matters for a list duty whose conversion succeeds.  It is the order of the Submit event when there is
\* one.  Without a submission (the validator-index resolution failed) the order shows only in WHETHER the resolution ran,
\* and that is decided by the first attestation (pre-electra: no, electra without index: yes) or else the same for every
\* order: one candidate order per first element covers every outcome.
RECURSIVE SeqOfSet(_)
SeqOfSet(S) == IF S = {} THEN <<>> ELSE LET x == CHOOSE y \in S : TRUE IN <<x>> \o SeqOfSet(S \ {x})
Orders == IF duty \notin ListTypes \/ WrongTyped # {} \/ Keys = {} THEN {<<>>}
          ELSE IF SubmitEvs # <<>> /\ IsPerm(SubmitEvs[1].objs) THEN {SubmitEvs[1].objs}
          ELSE {<<k>> \o SeqOfSet(Keys \ {k}) : k \in Keys}
TCall == l = 2 /\ (\E p \in Orders : Call(p)) /\ Silent

TNoCheck == pc = "attcheck" /\ ~NeedCheck(ord) /\ AttCheck /\ Silent
TResolve == /\ IsEvent("Resolve")
            /\ CASE pc = "attcheck" /\ NeedCheck(ord) -> AttCheck /\ CheckInv("Clock", Ev.call = Len(calls') /\ Ev.t = now)
                 [] pc \in {"attcheck", "list", "prop", "exit", "ret", "done"} -> InvFail("ResolutionNotCalledFor")
                 [] OTHER -> FALSE

\* the validator index an attestation is submitted with: its own (100+id), the one of the node's duty (200+id), none
VI(k) == CASE vidx[k] = "own" -> 100 + k [] vidx[k] = "duty" -> 200 + k [] OTHER -> 0
\* Mismatches are recorded under a name (CheckInv / InvFail of TraceCommon) so that the verdict says what went wrong; the
\* names are hints, the verdict itself is "the trace cannot be consumed".
Last(s) == s[Len(s)]
SubmitOK == LET c == Last(calls') IN
  /\ CheckInv("Endpoint", Ev.api = c.api)
  /\ CheckInv("ExactlyTheObjectsHandedIn", Ev.objs = c.objs /\ Len(Ev.eq) = Len(c.objs) /\ \A i \in DOMAIN c.objs : Ev.eq[i])
  /\ CheckInv("ValidatorIndex", Len(Ev.vi) = Len(c.objs) /\ \A i \in DOMAIN c.objs : Ev.vi[i] = VI(c.objs[i]))
  /\ CheckInv("Clock", Ev.call = Len(calls') /\ Ev.t = now)
ExitPick == {k \in todo : set[k].kind = "exit" /\ Len(Ev.objs) = 1 /\ Ev.objs[1] = k}
TSubmit == /\ IsEvent("Submit")
           /\ CASE pc \in {"ret", "done"} -> InvFail("UnexpectedSubmission")
                [] pc = "attcheck" /\ NeedCheck(ord) -> InvFail("ResolutionSkipped")
                [] pc = "list" -> SubmitList /\ SubmitOK
                [] pc = "prop" -> SubmitProp /\ SubmitOK
                [] pc = "exit" /\ todo # {} -> IF ExitPick = {} THEN InvFail("ExitSubmission")
                                              ELSE \E k \in ExitPick : ExitStep(k) /\ SubmitOK
                [] OTHER -> FALSE
TExitAbort == pc = "exit" /\ (\E k \in todo : set[k].kind # "exit" /\ ExitStep(k)) /\ Silent
TExitDone == ExitDone /\ Silent

TRet == /\ IsEvent("Ret")
        /\ CASE pc \in {"list", "prop"} \/ (pc = "exit" /\ todo # {} /\ \A k \in todo : set[k].kind = "exit") ->
                  InvFail("MissingSubmission")
             [] pc = "ret" ->
                  /\ Return
                  /\ CheckInv("Result", /\ Ev.err = ret.kind /\ Ev.call = ret.call /\ (ret.kind = "own" => Ev.text = ret.text)
                                         /\ Ev.dep = (duty = "builder_proposer"))
                  /\ CheckInv("Clock", Ev.t0 = at /\ Ev.t1 = now)
                  /\ CheckInv("InstrumentIffSuccess", Len(Ev.instr) = Len(instr'))
                  /\ CheckInv("Delay", \A i \in DOMAIN instr' :
                                         /\ Ev.instr[i].label = instr'[i].label /\ Ev.instr[i].ms = instr'[i].ms
                                         /\ Ev.instr[i].cnt = 1 /\ Ev.instr[i].total = 1)
             [] OTHER -> FALSE

TEnd == IsEvent("End") /\ pc = "done" /\ UNCHANGED vars
TraceNext == TReset \/ TCall \/ TNoCheck \/ TResolve \/ TSubmit \/ TExitAbort \/ TExitDone \/ TRet \/ TEnd
TraceSpec == TraceInit /\ [][TraceNext]_tvars
Mark == /\ CheckInv("TypeOK", TypeOK) /\ CheckInv("NotBroadcast", NotBroadcast) /\ CheckInv("EndpointRule", EndpointRule)
        /\ CheckInv("ListRule", ListRule) /\ CheckInv("OneRule", OneRule) /\ CheckInv("EachRule", EachRule)
        /\ CheckInv("ResolveRule", ResolveRule) /\ CheckInv("ResultRule", ResultRule)
        /\ CheckInv("WrongTypeRule", WrongTypeRule) /\ CheckInv("ExitLast", ExitLast) /\ CheckInv("InstrRule", InstrRule)
        /\ CheckInv("ClockRule", ClockRule)
        /\ HWMark
====
