---- MODULE BroadcasterTrace ----
(* Trace validation for core/bcast (harness/bcastcore).  One trace = one call of Broadcaster.Broadcast inside a
   testing/synctest bubble (virtual time), events in program order:
     {"ev":"Reset","sid":..,"rep":..,"duty":..,"slot":..,"slotms":..,"at":..,"set":[object,...],"lcls":..,"llat":..,"rcls":..}
                                the case as built (Broadcaster.tla describes the fields); rep = insertion order of the map
     {"ev":"Resolve","call":i,"t":ms}           the validators query of the electra validator-index branch
     {"ev":"Submit","call":i,"api":..,"objs":[ids],"vi":[validator index per object, 0 = none],"eq":[bool],"t":ms}
                                one beacon-API submission: which of the objects handed in (0: none of them), whether each
                                is byte-identical to what was handed in (validator index aside)
     {"ev":"Ret","err":"none"|"bn"|"own","call":i,"text":..,"dep":bool,"t0":ms,"t1":ms,
            "instr":[{"label":..,"total":d,"cnt":d,"ms":d}]}   the result (bn: the error value the node returned from call
                                i), the clock before/after, the deltas of core_bcast_broadcast_total and of the histogram
     {"ev":"End"}               the call has returned and everything was recorded ({"ev":"Panic"} matches nothing)
   Not logged, inferred by TLC: the map iteration order of the conversion loops (taken from the next Submit event when
   there is one, else any order), the order of the exit loop (from the sequence of voluntary_exit submissions) and the
   wrong-typed entry an exit loop stumbled over. *)
EXTENDS Broadcaster, TraceCommon
tvars == <<vars, tr, l>>
R == Trace[1]
TraceInit == /\ TrInit
             /\ IF TLen >= 1 /\ Trace[1].ev = "Reset"
                  THEN InitWith(R.duty, R.slot, R.slotms, R.at, R.set, R.lcls, R.llat, R.rcls)
                  ELSE InitWith("randao", 0, 3, 0, <<>>, "ok", 0, "ok")
TReset == IsEvent("Reset") /\ l = 1 /\ UNCHANGED vars

SubmitEvs == SelectSeq(Trace, LAMBDA e : e.ev = "Submit")
\* The order only matters for a list duty whose conversion succeeds.  It is the order of the Submit event when there is
\* one.  Without a submission (the validator-index resolution failed) the order shows only in WHETHER the resolution ran,
\* and that is decided by the first attestation (pre-electra: no, electra without index: yes) or else the same for every
\* order: one candidate order per first element covers every outcome.
RECURSIVE SeqOfSet(_)
SeqOfSet(S) == IF S = {} THEN <<>> ELSE LET x == CHOOSE y \in S : TRUE IN <<x>> \o SeqOfSet(S \ {x})
Orders == IF duty \notin ListTypes \/ WrongTyped # {} \/ Keys = {} THEN {<<>>}
          ELSE IF SubmitEvs # <<>> /\ IsPerm(SubmitEvs[1].objs) THEN {SubmitEvs[1].objs}
          ELSE {<<k>> \o SeqOfSet(Keys \ {k}) : k \in Keys}
TCall == l = 2 /\ (\E p \in Orders : Call(p)) /\ Silent

TNoCheck == pc = "attcheck" /\ ~NeedCheck(ord) /\ AttCheck /\ Silent
TResolve == /\ IsEvent("Resolve") /\ pc = "attcheck" /\ NeedCheck(ord) /\ AttCheck
            /\ Ev.call = Len(calls') /\ Ev.t = now

\* the validator index an attestation is submitted with: its own (100+id), the one of the node's duty (200+id), none
VI(k) == CASE vidx[k] = "own" -> 100 + k [] vidx[k] = "duty" -> 200 + k [] OTHER -> 0
TSubmit == /\ IsEvent("Submit")
           /\ SubmitList \/ SubmitProp \/ (\E k \in todo : set[k].kind = "exit" /\ ExitStep(k))
           /\ LET c == calls'[Len(calls')] IN
              /\ Ev.call = Len(calls') /\ Ev.api = c.api /\ Ev.objs = c.objs /\ Ev.t = now
              /\ Len(Ev.vi) = Len(c.objs) /\ Len(Ev.eq) = Len(c.objs)
              /\ \A i \in DOMAIN c.objs : Ev.eq[i] /\ Ev.vi[i] = VI(c.objs[i])
TExitAbort == pc = "exit" /\ (\E k \in todo : set[k].kind # "exit" /\ ExitStep(k)) /\ Silent
TExitDone == ExitDone /\ Silent

TRet == /\ IsEvent("Ret") /\ Return
        /\ Ev.err = ret.kind /\ Ev.call = ret.call /\ (ret.kind = "own" => Ev.text = ret.text)
        /\ Ev.dep = (duty = "builder_proposer")
        /\ Ev.t0 = at /\ Ev.t1 = now
        /\ Len(Ev.instr) = Len(instr')
        /\ \A i \in DOMAIN instr' : /\ Ev.instr[i].label = instr'[i].label /\ Ev.instr[i].ms = instr'[i].ms
                                    /\ Ev.instr[i].cnt = 1 /\ Ev.instr[i].total = 1

TEnd == IsEvent("End") /\ pc = "done" /\ UNCHANGED vars
TraceNext == TReset \/ TCall \/ TNoCheck \/ TResolve \/ TSubmit \/ TExitAbort \/ TExitDone \/ TRet \/ TEnd
TraceSpec == TraceInit /\ [][TraceNext]_tvars
Mark == /\ CheckInv("TypeOK", TypeOK) /\ CheckInv("NotBroadcast", NotBroadcast) /\ CheckInv("EndpointRule", EndpointRule)
        /\ CheckInv("ListRule", ListRule) /\ CheckInv("OneRule", OneRule) /\ CheckInv("EachRule", EachRule)
        /\ CheckInv("ResolveRule", ResolveRule) /\ CheckInv("ResultRule", ResultRule)
        /\ CheckInv("WrongTypeRule", WrongTypeRule) /\ CheckInv("ExitLast", ExitLast) /\ CheckInv("InstrRule", InstrRule)
        /\ CheckInv("ClockRule", ClockRule)
        /\ HWMark
====
