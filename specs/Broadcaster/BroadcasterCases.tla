---- MODULE BroadcasterCases ----
(* The scenario space of the Broadcaster family: duty type x shape of the signed-data set (0..MaxN objects, each one of
   the variants below -- right/wrong kind for the duty, data version before/after electra, with/without validator index,
   known/unknown to the node's attester duties, full/blinded, per-exit answers) x the beacon node's answers.  Sets are
   multisets of variants (non-decreasing variant indices): which map slot an object sits in is Go's business. *)
EXTENDS Broadcaster
CONSTANT MaxN

Obj(kind, post, vi, known, blinded, cls) ==
  [kind |-> kind, post |-> post, vi |-> vi, known |-> known, blinded |-> blinded, cls |-> cls, lat |-> 0]
Plain(kind) == Obj(kind, FALSE, FALSE, "no", FALSE, "ok")
Att(post, vi, known) == Obj("att", post, vi, known, FALSE, "ok")

AttVariants == << Att(FALSE, FALSE, "no"), Att(FALSE, FALSE, "yes"), Att(TRUE, TRUE, "no"), Att(TRUE, TRUE, "yes"),
                  Att(TRUE, FALSE, "no"), Att(TRUE, FALSE, "yes"), Att(TRUE, FALSE, "otherslot"), Plain("msg") >>
PropVariants == << Obj("prop", FALSE, FALSE, "no", FALSE, "ok"), Obj("prop", TRUE, FALSE, "no", FALSE, "ok"),
                   Obj("prop", FALSE, FALSE, "no", TRUE, "ok"), Obj("prop", TRUE, FALSE, "no", TRUE, "ok"), Plain("att") >>
ExitVariants == << Obj("exit", FALSE, FALSE, "no", FALSE, "ok"), Obj("exit", FALSE, FALSE, "no", FALSE, "prior"),
                   Obj("exit", FALSE, FALSE, "no", FALSE, "other"), Plain("reg") >>
AggVariants == << Plain("agg"), Obj("agg", TRUE, FALSE, "no", FALSE, "ok"), Plain("att") >>
MsgVariants == << Plain("msg"), Plain("contrib") >>
ContribVariants == << Plain("contrib"), Plain("msg") >>
AnyVariants == << Plain("randao"), Plain("reg"), Plain("att") >>

VariantsOf(t) == CASE t = "attester" -> AttVariants [] t = "proposer" -> PropVariants [] t = "exit" -> ExitVariants
                   [] t = "aggregator" -> AggVariants [] t = "sync_message" -> MsgVariants
                   [] t = "sync_contribution" -> ContribVariants [] OTHER -> AnyVariants
\* multisets of at most n variants out of m, as non-decreasing index sequences
NonDec(n, m) == {s \in [1..n -> 1..m] : \A i \in 1..(n - 1) : s[i] <= s[i + 1]}
SetsOf(t, maxn) == LET V == VariantsOf(t) IN
  UNION {{[i \in 1..n |-> V[s[i]]] : s \in NonDec(n, Len(V))} : n \in 0..maxn}
SizeFor(t) == IF t \in ListTypes \cup {"exit"} THEN MaxN
              ELSE IF t = "proposer" THEN 2 ELSE 1
\* the answers that can matter: the list/proposal answer for duties that submit one, the validators answer when an electra
\* attestation lacks its index
LAnswers(t) == IF t \in ListTypes \cup {"proposer"} THEN Answers ELSE {"ok"}
RAnswers(t, s) == IF t = "attester" /\ \E k \in DOMAIN s : s[k].kind = "att" /\ s[k].post /\ ~s[k].vi
                  THEN {"ok", "other"} ELSE {"ok"}
Cases == UNION {UNION {{[duty |-> t, set |-> s, lcls |-> lc, rcls |-> rc] : lc \in LAnswers(t), rc \in RAnswers(t, s)}
                       : s \in SetsOf(t, SizeFor(t))} : t \in DutyTypes}
====
