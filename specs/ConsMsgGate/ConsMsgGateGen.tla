---- MODULE ConsMsgGateGen ----
(* Schedule source.  Only the environment's moves are recorded (the abstract wire message with its case label, clock
   moves); what the handler does with them is the implementation's business.
     GenMode "enum": TLC enumerates EVERY case of the design spec breadth-first (behaviours one message long, no
                     simulation needed) and prints each as a schedule [Cfg, Recv].
     GenMode "sim":  run with -simulate: sequences of GenLen moves over the cases of ONE base shape (chosen first) and
                     the unaltered bases, on two Consensus instances, with clock moves in between (state matters: a
                     signature seen before on other content, a duty that expires between two messages).
   The Cfg step carries the constants and the protobuf field sets the specification knows, so that the executor can
   compare them with the descriptors of QBFTMsg / QBFTConsensusMsg / Duty by reflection. *)
EXTENDS ConsMsgGate, Json
CONSTANTS GenMode, GenLen, GenKinds      \* GenKinds: the alteration kinds enumerated in mode "enum"
VARIABLES hist, gbase, done
gvars == <<vars, hist, gbase, done>>
CfgStep == [ev |-> "Cfg", N |-> N, SlotSec |-> SlotSec, SPE |-> SPE, T0 |-> T0, cap |-> BufCap,
            fields |-> [msg |-> MsgFields, cons |-> ConsFields, duty |-> DutyFields]]
RecvStep(c, k) == [ev |-> "Recv", c |-> c, m |-> CaseMsg(k), ctx |-> CaseCtx(k), case |-> k]
GenInit == Init /\ hist = <<>> /\ done = FALSE /\ gbase \in (IF GenMode = "enum" THEN {"-"} ELSE BaseNames)
Offer(c, k) == /\ \E o \in ObsKinds : Recv(c, Resolve(CaseMsg(k), [i \in DOMAIN CaseMsg(k).vals |-> o]), CaseCtx(k))
               /\ hist' = (IF hist = <<>> THEN <<CfgStep>> ELSE hist) \o <<RecvStep(c, k)>>
               /\ UNCHANGED <<gbase, done>>
GenNext ==
  \/ GenMode = "enum" /\ hist = <<>> /\ \E k \in {k \in Cases : k.kind \in GenKinds} : Offer(1, k)
  \/ /\ GenMode = "sim" /\ Len(hist) = GenLen + 1 /\ ~done /\ done' = TRUE /\ UNCHANGED <<vars, hist, gbase>>
  \/ /\ GenMode = "sim" /\ Len(hist) < GenLen + 1
     /\ \/ \E c \in Insts : \/ \E k \in CasesOf(gbase) : Offer(c, k)
                            \/ \E b \in BaseNames : Offer(c, C(b, "none", 0, "", 0))
        \/ \E by \in {1, 4, 5, 6, 44, 48, 49, 50, 12 * SlotSec} :
              /\ Advance(by) /\ hist' = (IF hist = <<>> THEN <<CfgStep>> ELSE hist) \o <<[ev |-> "Advance", by |-> by]>>
              /\ UNCHANGED <<gbase, done>>
GenSpec == GenInit /\ [][GenNext]_gvars
\* (in simulation mode TLC evaluates invariants on all candidate successors: a behaviour is printed only in the state
\* its own, single, final move leads to)
Emit == (IF GenMode = "enum" THEN hist = <<>> ELSE ~done) \/ PrintT("@@SCHED@@" \o ToJson(hist))
====
