---- MODULE ConsMsgGateMC ----
(* Exhaustive design check.  Mode
     "cases1"  one message: every case (base shape x alteration x position), received at T0 or after the clock moved to
               one of the instants around the deadlines of the duties in play
     "seq2"    state matters: an unaltered base message first (on either Consensus instance), then every case
     "bases3"  up to Depth unaltered base messages (small BufCap: the receive buffer fills up)
   The property-level invariants must hold in every reachable state; the control configurations (Skip # {}) switch
   one check of the transcription off and MUST violate OnlyAuthentic. *)
EXTENDS ConsMsgGate
CONSTANTS Mode, Depth
VARIABLES cur, obs, n
mcvars == <<vars, cur, obs, n>>
NoCase == C("-", "-", 0, "", 0)
Bases == {C(b, "none", 0, "", 0) : b \in BaseNames}
ObsFor(k) == IF k.kind = "list" /\ k.f = "vbyte" THEN ObsKinds ELSE {"same"}
Offer(c, k) == \E o \in ObsFor(k) :
                 /\ Recv(c, Resolve(CaseMsg(k), [i \in DOMAIN CaseMsg(k).vals |-> o]), CaseCtx(k))
                 /\ cur' = k /\ obs' = o /\ n' = n + 1
\* instants around the deadlines of D2 (proposer: T0 + SlotSec/3 + margin) and D1 (attester: one epoch + margin)
Instants == {SlotSec \div 3 + SlotSec \div 12 + d : d \in {-1, 0, 1}} \cup {SPE * SlotSec + SlotSec \div 12 + d : d \in {-1, 0, 1}}
MCInit == Init /\ cur = NoCase /\ obs = "same" /\ n = 0
MCNext ==
  \/ /\ Mode = "cases1" /\ n = 0
     /\ \/ \E k \in Cases : Offer(1, k)
        \/ now = T0 /\ \E by \in Instants : Advance(by) /\ UNCHANGED <<cur, obs, n>>
  \/ /\ Mode = "seq2"
     /\ \/ n = 0 /\ \E c \in Insts, k \in Bases : Offer(c, k)
        \/ n = 1 /\ \E k \in Cases : Offer(1, k)
  \/ /\ Mode = "bases3" /\ n < Depth
     /\ \E c \in Insts, k \in Bases : Offer(c, k)
MCSpec == MCInit /\ [][MCNext]_mcvars
\* the stated verdict of every alteration kind (valid while the clock still shows T0 and the buffer has room)
AltTableInv == (cur # NoCase /\ last.at = T0 /\ Len(buf[last.c]) < BufCap) => AltTable(cur, obs = "same")
RejectedUntouchedMC == [][RejectedUntouchedA /\ AcceptedEnqueuedA /\ OnlyRecvEnqueuesA /\ AsTranscribedA]_mcvars
====
