SPECIFICATION TraceSpec
CONSTANTS N = 6
 SlotSec = 12
 SPE = 4
 T0 = 480
 BufCap = 100
 ExpireAtEqual = "either"
 Skip = {}
CONSTRAINT Mark
ACTION_CONSTRAINT ActOK
POSTCONDITION Report
CHECK_DEADLOCK FALSE
