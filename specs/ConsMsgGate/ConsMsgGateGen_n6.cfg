SPECIFICATION GenSpec
CONSTANTS N = 6
 SlotSec = 12
 SPE = 4
 T0 = 480
 BufCap = 100
 ExpireAtEqual = "yes"
 Skip = {}
 GenMode = "enum"
 GenLen = 5
 GenKinds = {"none", "raw", "resign", "sig", "list"}
INVARIANTS Emit
CHECK_DEADLOCK FALSE
