---- MODULE ConsDeliver ----
(* C05, last clause: "the value delivered on decision is exactly the proposed data whose hash was agreed".
   core/consensus/qbft/qbft.go: propose() hashes the proposed value (hashProto) and hands QBFT the hash only; the
   values travel beside the messages (transport.getValue / setValues, valuesByHash) and newDefinition's Decide looks
   the agreed hash up in the values of the first COMMIT of the quorum and hands the decoded value to the subscribers.
   Node i proposes value i (all different); hashes are injective: Hash(v) = v; 0 = nothing. *)
EXTENDS Integers, FiniteSets, TLC
CONSTANTS NN,           \* nodes 1..NN
          DeliverAny    \* control: Decide hands over any proposed value (values not bound to the agreed hash)
Nodes == 1..NN
Hash(v) == v
VARIABLES proposed, agreed, delivered
dvars == <<proposed, agreed, delivered>>
DInit == proposed = {} /\ agreed = 0 /\ delivered = [i \in Nodes |-> 0]
Propose(i) == i \in Nodes \ proposed /\ proposed' = proposed \cup {i} /\ UNCHANGED <<agreed, delivered>>
\* a quorum of COMMIT messages carries hash h (agreement and validity of h are C02/C03; here h is what was agreed)
Agree(h) == agreed = 0 /\ h \in {Hash(v) : v \in proposed} /\ agreed' = h /\ UNCHANGED <<proposed, delivered>>
Deliver(i, v) == /\ i \in Nodes /\ agreed # 0 /\ delivered[i] = 0
                 /\ v \in proposed /\ (DeliverAny \/ Hash(v) = agreed)
                 /\ delivered' = [delivered EXCEPT ![i] = v] /\ UNCHANGED <<proposed, agreed>>
DNext == (\E i \in Nodes : Propose(i)) \/ (\E h \in Nodes : Agree(h)) \/ (\E i, v \in Nodes : Deliver(i, v))
DSpec == DInit /\ [][DNext]_dvars
DeliveredIsAgreed == \A i \in Nodes : delivered[i] # 0 => (Hash(delivered[i]) = agreed /\ delivered[i] \in proposed)
====
