SPECIFICATION MCSpec
CONSTANTS N = 4
 SlotSec = 12
 SPE = 4
 T0 = 480
 BufCap = 2
 ExpireAtEqual = "yes"
 Skip = {}
 Mode = "bases3"
 Depth = 3
INVARIANTS OnlyAuthentic AcceptIffAuthentic BufBounded AltTableInv
PROPERTIES RejectedUntouchedMC
CHECK_DEADLOCK FALSE
