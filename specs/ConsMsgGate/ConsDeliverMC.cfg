SPECIFICATION DSpec
CONSTANTS NN = 4
 DeliverAny = FALSE
INVARIANTS DeliveredIsAgreed
CHECK_DEADLOCK FALSE
