SPECIFICATION TraceSpec
CONSTANTS NN = 4
 DeliverAny = TRUE
CONSTRAINT Mark
POSTCONDITION Report
CHECK_DEADLOCK FALSE
