---- MODULE ConsMsgGate ----
(* C05 - a node's consensus instance acts only on authentic, well-formed peer messages.

   A case-analysis specification of the gate in front of the QBFT instances of a node:
   core/consensus/qbft/qbft.go  Consensus.handle -> verifyMsg / verifyMsgLimits / valuesByHash,
   core/consensus/qbft/msg.go   verifyMsgSig / hashProto / newMsg / toHash32,
   core/gater.go NewDutyGater, core/deadline.go NewDutyDeadlineFunc + deadliner.Add.

   The abstract wire message mirrors pbv1.QBFTConsensusMsg field by field:
     m  = [nil, msg, just, vals]                                       QBFTConsensusMsg{msg, justification[], values[]}
     q  = [nil, type, duty, peer, round, pr, vh, pvh, ext, sig]        QBFTMsg{type, duty, peer_idx, round, prepared_round,
                                                                               value_hash, prepared_value_hash, signature}
     duty = [nil, slot, type]                                          corepb Duty{slot, type}
     sig  = [kind, by, over]   kind "ok": a real signature made with member `by`'s key (by = N: a key outside the
                               cluster) over the deterministic hash of the content `over` (= all fields but the
                               signature, unknown fields included: `ext`); "nil"/"empty"/"junk": no signature, zero
                               bytes, 65 bytes that nobody's key produced.
     hash codes (vh, pvh):  0 = 32 zero bytes, -1 = no bytes, -2 / -3 = 31 / 33 bytes (toHash32: "not a hash"),
                            1..89 = hash of value k, 90.. = 32 non-zero bytes that no supplied value hashes to
     value = [id, st, p, x]   st "ok": an Any whose inner message hashes to code id; "undec": an Any that
                            valuesByHash cannot index (p says how the executor builds it); "byte": value id with one
                            byte altered (position p, xor x) - what that does to it is OBSERVED by the executor with
                            the protobuf library alone (same / differs / undec) and resolved by Resolve.
   Crypto abstraction (DESIGN section 3): a signature verifies for q under member k's key iff it was made with k's
   key over exactly Content(q); hashes are injective on the values in play.

   Two descriptions are related: Authentic is the property as stated; Accept transcribes the checks of
   Consensus.handle IN CODE ORDER.  The model checker shows for every case (base message x alteration x position)
   that the transcription accepts exactly the authentic messages (and that each control variant - one check dropped,
   Skip # {} - does not); trace validation shows that the real handler behaves like the transcription. *)
EXTENDS Integers, Sequences, FiniteSets, TLC

CONSTANTS N,              \* cluster members 0..N-1 (peer_idx = index into the peer list)
          SlotSec, SPE,   \* seconds per slot, slots per epoch (beacon spec)
          T0,             \* seconds since genesis at Reset
          BufCap,         \* instance.RecvBufferSize
          ExpireAtEqual,  \* "yes" as coded (deadliner: !deadline.After(now)) | "either": the statement is silent (C16)
          Skip            \* controls: names of checks switched off in the transcription; {} = as coded

Members == 0..(N - 1)
Outsider == N
\* the protobuf fields this specification knows (compared with the descriptors by the executor)
MsgFields == {"type", "duty", "peer_idx", "round", "prepared_round", "signature", "value_hash", "prepared_value_hash"}
ConsFields == {"msg", "justification", "values"}
DutyFields == {"slot", "type"}

(* ------------------------------------------------ messages ------------------------------------------------- *)
NilDuty == [nil |-> TRUE, slot |-> 0, type |-> 0]
Duty(s, t) == [nil |-> FALSE, slot |-> s, type |-> t]
Content(q) == [type |-> q.type, duty |-> q.duty, peer |-> q.peer, round |-> q.round, pr |-> q.pr,
               vh |-> q.vh, pvh |-> q.pvh, ext |-> q.ext]
NoContent == [type |-> 0, duty |-> NilDuty, peer |-> 0, round |-> 0, pr |-> 0, vh |-> -1, pvh |-> -1, ext |-> 0]
NoSig(k) == [kind |-> k, by |-> 0, over |-> NoContent]
SigBy(k, c) == [kind |-> "ok", by |-> k, over |-> c]
Sign(q, k) == [q EXCEPT !.sig = SigBy(k, Content(q))]
Unsigned(t, d, p, r, pr, vh, pvh) ==
  [nil |-> FALSE, type |-> t, duty |-> d, peer |-> p, round |-> r, pr |-> pr, vh |-> vh, pvh |-> pvh, ext |-> 0,
   sig |-> NoSig("nil")]
Mk(t, d, p, r, pr, vh, pvh) == Sign(Unsigned(t, d, p, r, pr, vh, pvh), p)
NilQ == [Unsigned(0, NilDuty, 0, 0, 0, -1, -1) EXCEPT !.nil = TRUE]
Val(k) == [id |-> k, st |-> "ok", p |-> 0, x |-> 0]
Cons(q, j, v) == [nil |-> FALSE, msg |-> q, just |-> j, vals |-> v]
NilCons == [nil |-> TRUE, msg |-> NilQ, just |-> <<>>, vals |-> <<>>]
IsRef(h) == h > 0                                     \* toHash32: 32 bytes and not all zero
Parts(m) == <<m.msg>> \o m.just
Range(s) == {s[i] : i \in DOMAIN s}

(* --------------------------------------- time, duties (gater, deadliner) ----------------------------------- *)
VARIABLES now,      \* seconds since genesis
          buf,      \* buf[c]: the messages accepted by Consensus instance c, in order, each with its acceptance time
          last      \* outcome of the last Recv
vars == <<now, buf, last>>

ValidDutyType(t) == t > 0 /\ t < 14                   \* core.DutyType.Valid
Exempt(t) == t \in {4, 6}                             \* DutyExit, DutyBuilderRegistration never expire -> refused
Dur(t) == CASE t \in {1, 7} -> SlotSec \div 3
            [] t \in {10, 12} -> SlotSec
            [] t \in {2, 9} -> SPE * SlotSec
            [] t \in {8, 11} -> 2 * SPE * SlotSec
            [] OTHER -> SlotSec
Deadline(d) == d.slot * SlotSec + Dur(d.type) + SlotSec \div 12
\* core.NewDutyGater
GaterOK(d, t) == ValidDutyType(d.type) /\ d.slot \div SPE <= ((t \div SlotSec) \div SPE) + 2

(* ------------------------------------------ the property, as stated ---------------------------------------- *)
WellFormed(q) == q.type \in 1..5 /\ q.round >= 1 /\ q.pr >= 0
AuthPart(q) == /\ ~q.nil /\ ~q.duty.nil /\ WellFormed(q)
               /\ q.peer \in Members
               /\ q.sig.kind = "ok" /\ q.sig.by = q.peer /\ q.sig.over = Content(q)
DutyAllowed(d, t) == /\ ValidDutyType(d.type) /\ ~Exempt(d.type)
                     /\ d.slot \div SPE <= ((t \div SlotSec) \div SPE) + 2      \* not too far in the future
                     /\ Deadline(d) >= t                                        \* unexpired (at the instant: silent)
Decodable(m) == {m.vals[i].id : i \in {i \in DOMAIN m.vals : m.vals[i].st = "ok"}}
RefsOf(m) == UNION {{h \in {q.vh, q.pvh} : IsRef(h)} : q \in {q \in Range(Parts(m)) : ~q.nil}}
WithinLimits(m) == Len(m.just) <= 2 * N /\ Len(m.vals) <= 2 * (Len(m.just) + 1)
Authentic(m, t) ==
  /\ ~m.nil
  /\ \A q \in Range(Parts(m)) : AuthPart(q)
  /\ DutyAllowed(m.msg.duty, t)
  /\ \A i \in DOMAIN m.just : m.just[i].duty = m.msg.duty
  /\ WithinLimits(m)
  /\ RefsOf(m) \subseteq Decodable(m)

(* ------------------------------------------ the handler, as coded ------------------------------------------ *)
\* msg.go verifyMsgSig (control "unsignedpr": prepared_round left out of the signed hash;
\*                      control "sigcache": a justification signature seen before verifies whatever it is attached to)
SameContent(a, b) == IF "unsignedpr" \in Skip THEN [a EXCEPT !.pr = 0] = [b EXCEPT !.pr = 0] ELSE a = b
SigOK(q) == q.sig.kind = "ok" /\ q.sig.by = q.peer /\ SameContent(q.sig.over, Content(q))
SeenSigs(c) == {q.sig : q \in UNION {Range(Parts(buf[c][i].m)) : i \in DOMAIN buf[c]}}
\* qbft.go verifyMsg
VerifyMsg(q, sigpass) ==
  /\ ~q.nil /\ ~q.duty.nil                            \* "invalid consensus message"
  /\ q.type > 0 /\ q.type < 6                         \* qbft.MsgType.Valid
  /\ ValidDutyType(q.duty.type)
  /\ q.round > 0
  /\ q.pr >= 0
  /\ q.peer \in Members                               \* pubkeys[peer_idx]
  /\ (sigpass \/ SigOK(q))
\* msg.go newMsg: every 32-byte non-zero hash of the message and of its justifications must be a key of valuesByHash
RefsPresent(m) == \A q \in Range(Parts(m)) : \A h \in {q.vh, q.pvh} : IsRef(h) => h \in Decodable(m)
DutyBuf(c, d) == SelectSeq(buf[c], LAMBDA e : e.m.msg.duty = d)
\* verifyMsgLimits (control "quorumcap": justifications capped at twice the quorum instead of twice the nodes - honest
\* leaders attach up to N ROUND-CHANGEs and N PREPAREs)
Quorum == (2 * N + 2) \div 3
LimitsOK(m) == IF "limits" \in Skip THEN TRUE
               ELSE IF "quorumcap" \in Skip THEN Len(m.just) <= 2 * Quorum /\ Len(m.vals) <= 2 * (Len(m.just) + 1)
               ELSE WithinLimits(m)
\* all checks up to the deadliner, in the order of Consensus.handle
PreChecks(c, m, ctxDone) ==
  /\ ~m.nil                                                                       \* wrong type / nil request
  /\ VerifyMsg(m.msg, FALSE)
  /\ ("gater" \in Skip \/ GaterOK(m.msg.duty, now))                                 \* c.gaterFunc(duty)
  /\ LimitsOK(m)                                                                   \* verifyMsgLimits
  /\ \A i \in DOMAIN m.just :
        /\ ~ctxDone
        /\ VerifyMsg(m.just[i], "justsig" \in Skip \/ ("sigcache" \in Skip /\ m.just[i].sig \in SeenSigs(c)))
        /\ ("dutyeq" \in Skip \/ m.just[i].duty = m.msg.duty)
  /\ \A i \in DOMAIN m.vals : m.vals[i].st = "ok"                                   \* valuesByHash: UnmarshalNew, hashProto
  /\ ("refs" \in Skip \/ RefsPresent(m))                                            \* newMsg
  /\ ~ctxDone
  /\ ("expiry" \in Skip \/ ~Exempt(m.msg.duty.type))                                \* deadliner.Add: DeadlineExempt
\* the possible verdicts (TRUE = enqueued): the deadliner's answer at the very instant of the deadline is left open
\* when ExpireAtEqual = "either"; a full receive buffer blocks the handler until its context ends -> error
Verdicts(c, m, ctxDone) ==
  IF ~PreChecks(c, m, ctxDone) THEN {FALSE}
  ELSE IF Len(DutyBuf(c, m.msg.duty)) >= BufCap THEN {FALSE}
  ELSE IF "expiry" \in Skip THEN {TRUE}
  ELSE IF Deadline(m.msg.duty) < now THEN {FALSE}
  ELSE IF Deadline(m.msg.duty) = now THEN (IF ExpireAtEqual = "yes" THEN {FALSE} ELSE BOOLEAN)
  ELSE {TRUE}
Accept(c, m, ctxDone) == TRUE \in Verdicts(c, m, ctxDone)

(* ------------------------------------------------ the machine ---------------------------------------------- *)
Insts == {1, 2}                                       \* two Consensus components of the same node configuration
Init == now = T0 /\ buf = [c \in Insts |-> <<>>] /\ last = [n |-> 0, c |-> 0, ok |-> FALSE, m |-> NilCons, ctx |-> FALSE, at |-> T0]
\* what a one-byte alteration did to a value, as observed with the protobuf library
ObsKinds == {"same", "differs", "undec"}
ResolveVal(v, o) == IF v.st # "byte" THEN v
                    ELSE CASE o = "same" -> [v EXCEPT !.st = "ok"]
                           [] o = "differs" -> [v EXCEPT !.st = "ok", !.id = 1000 + v.id]
                           [] OTHER -> [v EXCEPT !.st = "undec"]
Resolve(m, obs) == [m EXCEPT !.vals = [i \in DOMAIN m.vals |-> ResolveVal(m.vals[i], obs[i])]]
Resolved(m) == \A i \in DOMAIN m.vals : m.vals[i].st # "byte"
\* One call of Consensus.handle (request with its byte-altered values resolved) as OBSERVED: it answered nil (v) or an
\* error, and the message was enqueued (g) or not.  The design spec only takes the transcription's verdicts.
RecvObs(c, m, ctxDone, v, g) ==
  /\ c \in Insts /\ Resolved(m)
  /\ buf' = IF g THEN [buf EXCEPT ![c] = Append(@, [m |-> m, at |-> now])] ELSE buf
  /\ last' = [n |-> last.n + 1, c |-> c, ok |-> v, m |-> m, ctx |-> ctxDone, at |-> now]
  /\ UNCHANGED now
Recv(c, m, ctxDone) == \E v \in Verdicts(c, m, ctxDone) : RecvObs(c, m, ctxDone, v, v)
\* a byte string that is not the encoding of anything a member signed
RecvRaw(c, v, g) ==
  /\ c \in Insts
  /\ buf' = IF g THEN [buf EXCEPT ![c] = Append(@, [m |-> NilCons, at |-> now])] ELSE buf
  /\ last' = [n |-> last.n + 1, c |-> c, ok |-> v, m |-> NilCons, ctx |-> FALSE, at |-> now] /\ UNCHANGED now
Advance(by) == by > 0 /\ now' = now + by /\ UNCHANGED <<buf, last>>

(* ------------------------------------------------ invariants ----------------------------------------------- *)
\* every buffered message was authentic when it was accepted
OnlyAuthentic == \A c \in Insts : \A i \in DOMAIN buf[c] : Authentic(buf[c][i].m, buf[c][i].at)
\* the transcription accepts exactly the authentic messages whose values all decode (while there is room)
AcceptIffAuthentic ==
  last.c # 0 =>
    LET auth == /\ ~last.ctx /\ Authentic(last.m, last.at)
                /\ \A i \in DOMAIN last.m.vals : last.m.vals[i].st = "ok"
        full == Len(DutyBuf(last.c, last.m.msg.duty)) >= BufCap
    IN  /\ last.ok => auth
        /\ (auth /\ ~last.ok) => (full \/ Deadline(last.m.msg.duty) = last.at)
BufBounded == \A c \in Insts : \A i \in DOMAIN buf[c] : Len(DutyBuf(c, buf[c][i].m.msg.duty)) <= BufCap
\* a rejected message leaves everything unchanged; an accepted one is appended to its instance's buffer, nothing else
RejectedUntouchedA == (last' # last /\ ~last'.ok) => (buf' = buf /\ now' = now)
AcceptedEnqueuedA == (last' # last /\ last'.ok) =>
                        /\ buf'[last'.c] = Append(buf[last'.c], [m |-> last'.m, at |-> now])
                        /\ \A c \in Insts \ {last'.c} : buf'[c] = buf[c]
OnlyRecvEnqueuesA == buf' # buf => last' # last
\* the observed answer is one the transcription gives in the state before the call
AsTranscribedA == last' # last => last'.ok \in (IF last'.m.nil THEN {FALSE} ELSE Verdicts(last'.c, last'.m, last'.ctx))
RejectedUntouched == [][RejectedUntouchedA /\ AcceptedEnqueuedA /\ OnlyRecvEnqueuesA]_vars

(* ------------------------------------------------ the cases ------------------------------------------------ *)
CurSlot == T0 \div SlotSec
D1 == Duty(CurSlot, 2)                                \* attester duty of the current slot
D2 == Duty(CurSlot, 1)                                \* another allowed duty (proposer, same slot)
ExpSlot == CurSlot - 5 * SPE                          \* expired for every duty type
BeyondSlot == ((CurSlot \div SPE) + 3) * SPE          \* first slot the gater refuses
EdgeSlot == BeyondSlot - 1                            \* last slot the gater lets through
Prep(p, r, v) == Mk(2, D1, p, r, 0, v, 0)
Commit(p, r, v) == Mk(3, D1, p, r, 0, v, 0)
RChange(p, r, pr, pv) == Mk(4, D1, p, r, pr, 0, pv)
BaseNames == {"PP1", "PP2", "PP2n", "PP3", "PPmax", "RC", "RCn", "PREPARE", "COMMIT", "DECIDED"}
BaseMsg(b) ==
  CASE b = "PP1" -> Cons(Mk(1, D1, 1, 1, 0, 1, 0), <<>>, <<Val(1)>>)
    [] b = "PP2" -> Cons(Mk(1, D1, 2, 2, 0, 1, 0),                                       \* Qrc prepared on value 1 + Qprepare
                         <<RChange(0, 2, 1, 1), RChange(1, 2, 1, 1), RChange(2, 2, 1, 1),
                           Prep(0, 1, 1), Prep(1, 1, 1), Prep(2, 1, 1)>>, <<Val(1)>>)
    [] b = "PP2n" -> Cons(Mk(1, D1, 2, 2, 0, 2, 0),                                      \* Qrc, nobody prepared
                          <<RChange(0, 2, 0, 0), RChange(1, 2, 0, 0), RChange(3, 2, 0, 0)>>, <<Val(2)>>)
    [] b = "PP3" -> Cons(Mk(1, D1, 3, 3, 0, 2, 0),                                       \* Qrc with different prepared values
                         <<RChange(0, 3, 1, 1), RChange(1, 3, 2, 2), RChange(2, 3, 0, 0),
                           Prep(0, 2, 2), Prep(1, 2, 2), Prep(3, 2, 2)>>, <<Val(1), Val(2)>>)
    \* the largest justification an honest leader attaches (qbft.getJustifiedQrc: every ROUND-CHANGE of the round with a
    \* unique source, up to N, plus every PREPARE of the prepared round and value, up to N): exactly 2N = the limit
    [] b = "PPmax" -> Cons(Mk(1, D1, 2, 2, 0, 1, 0),
                           [i \in 1..(2 * N) |-> IF i <= N THEN RChange(i - 1, 2, 1, 1) ELSE Prep(i - N - 1, 1, 1)], <<Val(1)>>)
    [] b = "RC" -> Cons(RChange(3, 2, 1, 1), <<Prep(0, 1, 1), Prep(1, 1, 1), Prep(3, 1, 1)>>, <<Val(1)>>)
    [] b = "RCn" -> Cons(RChange(0, 2, 0, 0), <<>>, <<>>)
    [] b = "PREPARE" -> Cons(Prep(2, 1, 1), <<>>, <<Val(1)>>)
    [] b = "COMMIT" -> Cons(Commit(2, 1, 1), <<>>, <<Val(1)>>)
    [] b = "DECIDED" -> Cons(Mk(5, D1, 0, 1, 0, 1, 0), <<Commit(0, 1, 1), Commit(1, 1, 1), Commit(2, 1, 1)>>, <<Val(1)>>)

Part(m, pos) == IF pos = 0 THEN m.msg ELSE m.just[pos]
SetPart(m, pos, q) == IF pos = 0 THEN [m EXCEPT !.msg = q] ELSE [m EXCEPT !.just[pos] = q]
SetF(q, f, x) ==
  CASE f = "type" -> [q EXCEPT !.type = x]
    [] f = "slot" -> [q EXCEPT !.duty.slot = x]
    [] f = "dtype" -> [q EXCEPT !.duty.type = x]
    [] f = "dutynil" -> [q EXCEPT !.duty = NilDuty]
    [] f = "peer" -> [q EXCEPT !.peer = x]
    [] f = "round" -> [q EXCEPT !.round = x]
    [] f = "pr" -> [q EXCEPT !.pr = x]
    [] f = "vh" -> [q EXCEPT !.vh = x]
    [] f = "pvh" -> [q EXCEPT !.pvh = x]
    [] f = "ext" -> [q EXCEPT !.ext = x]
HashAlts(h) == {0, -1, -2, -3, 91, IF h = 1 THEN 2 ELSE 1} \ {h}
\* every signed field of a QBFTMsg, each with in-range, boundary and out-of-range replacements
FieldAlts(q) ==
       {<<"type", x>> : x \in {0, 6, -1, (q.type % 5) + 1}}
  \* HugeSlots stand for wire slots with the top bit set (TLC integers are 32 bit: 100000001 = 2^63 + the current slot, whose
  \* deadline wraps round to the current slot's in 64-bit arithmetic; 100000002 = 2^64 - 1; 100000003 = 2^63): far beyond
  \* the gater's window like any other slot above it
  \cup {<<"slot", x>> : x \in {q.duty.slot + 1, ExpSlot, EdgeSlot, BeyondSlot, 100000001, 100000002, 100000003}}
  \cup {<<"dtype", x>> : x \in {0, 14, -1, 4, 6, 13, IF q.duty.type = 2 THEN 1 ELSE 2}}
  \cup {<<"dutynil", 0>>}
  \cup {<<"peer", x>> : x \in {-1, N, (q.peer + 1) % N}}
  \cup {<<"round", x>> : x \in {0, -1, q.round + 1}}
  \cup {<<"pr", x>> : x \in {-1, q.pr + 1}}
  \cup {<<"vh", x>> : x \in HashAlts(q.vh)}
  \cup {<<"pvh", x>> : x \in HashAlts(q.pvh)}
  \cup {<<"ext", 1>>}
SigAlts == {"nil", "empty", "junk", "other", "outsider", "replay", "replay2"}
Signer(q) == IF q.peer \in Members THEN q.peer ELSE Outsider
AlterSig(q, how) ==
  CASE how \in {"nil", "empty", "junk"} -> [q EXCEPT !.sig = NoSig(how)]
    [] how = "other" -> Sign(q, (q.peer + 1) % N)                       \* re-signed by another member, peer_idx kept
    [] how = "outsider" -> Sign(q, Outsider)
    [] how = "replay" -> [q EXCEPT !.sig = Sign([q EXCEPT !.round = q.round + 1], q.peer).sig]   \* the same member's
    [] how = "replay2" -> [q EXCEPT !.sig = Sign([q EXCEPT !.duty = D2], q.peer).sig]            \* signature on other content
ListAlts == {"jdrop", "jdup", "jswap", "jnil", "jexceed", "jatlimit", "jotherduty", "jforeign",
             "vdrop", "vadd", "vaddtoo", "vswap", "vdup", "vundec1", "vundec2", "vundec3", "vundec4", "vbyte",
             "vexceed", "vatlimit", "nilreq", "nilmsg", "ctx"}
Pad(s, n) == [i \in 1..n |-> IF i <= Len(s) THEN s[i] ELSE s[((i - 1) % Len(s)) + 1]]
Swap(s) == [i \in DOMAIN s |-> s[Len(s) + 1 - i]]
DropAt(s, k) == [i \in 1..(Len(s) - 1) |-> IF i < k THEN s[i] ELSE s[i + 1]]
AlterList(m, how, k) ==
  CASE how = "jdrop" -> [m EXCEPT !.just = DropAt(m.just, k)]
    [] how = "jdup" -> [m EXCEPT !.just = Append(m.just, m.just[k])]
    [] how = "jswap" -> [m EXCEPT !.just = Swap(m.just)]
    [] how = "jnil" -> [m EXCEPT !.just[k] = NilQ]
    [] how = "jexceed" -> [m EXCEPT !.just = Pad(m.just, 2 * N + 1)]
    [] how = "jatlimit" -> [m EXCEPT !.just = Pad(m.just, 2 * N)]
    [] how = "jotherduty" -> [m EXCEPT !.just[k] = Sign([m.just[k] EXCEPT !.duty = D2], m.just[k].peer)]
    [] how = "jforeign" -> [m EXCEPT !.just[k] = Sign([m.just[k] EXCEPT !.peer = (@ + 1) % N], (m.just[k].peer + 1) % N)]
    [] how = "vdrop" -> [m EXCEPT !.vals = DropAt(m.vals, k)]
    [] how = "vadd" -> [m EXCEPT !.vals = Append(m.vals, Val(3))]                        \* an unreferenced value
    [] how = "vaddtoo" -> [m EXCEPT !.vals = m.vals \o <<Val(3), Val(4)>>]
    [] how = "vswap" -> [m EXCEPT !.vals = Swap(m.vals)]
    [] how = "vdup" -> [m EXCEPT !.vals = Append(m.vals, m.vals[k])]
    [] how = "vundec1" -> [m EXCEPT !.vals[k] = [@ EXCEPT !.st = "undec", !.p = 1]]     \* unknown type URL
    [] how = "vundec2" -> [m EXCEPT !.vals[k] = [@ EXCEPT !.st = "undec", !.p = 2]]     \* truncated
    [] how = "vundec3" -> [m EXCEPT !.vals = Append(m.vals, [id |-> 3, st |-> "undec", p |-> 3, x |-> 0])]   \* nil Any
    [] how = "vundec4" -> [m EXCEPT !.vals = Append(m.vals, [id |-> 3, st |-> "undec", p |-> 4, x |-> 0])]   \* Any in Any
    [] how = "vbyte" -> [m EXCEPT !.vals[k] = [@ EXCEPT !.st = "byte", !.p = 7 * k, !.x = 1]]
    [] how = "vexceed" -> [m EXCEPT !.vals = Pad(m.vals, 2 * (Len(m.just) + 1) + 1)]
    [] how = "vatlimit" -> [m EXCEPT !.vals = Pad(m.vals, 2 * (Len(m.just) + 1))]
    [] how = "nilreq" -> NilCons
    [] how = "nilmsg" -> [m EXCEPT !.msg = NilQ]
    [] how = "ctx" -> m
ListPositions(m, how) ==
  CASE how \in {"jdrop", "jdup", "jnil", "jotherduty", "jforeign"} -> DOMAIN m.just
    [] how \in {"jswap", "jexceed", "jatlimit"} -> IF Len(m.just) > 0 THEN {0} ELSE {}
    [] how \in {"vdrop", "vdup", "vundec1", "vundec2", "vbyte"} -> DOMAIN m.vals
    [] how \in {"vswap", "vexceed", "vatlimit"} -> IF Len(m.vals) > 0 THEN {0} ELSE {}
    [] OTHER -> {0}
C(b, k, p, f, x) == [base |-> b, kind |-> k, pos |-> p, f |-> f, x |-> x]
CasesOf(b) ==
  LET m == BaseMsg(b) IN
       {C(b, "none", 0, "", 0)}
  \cup UNION {{C(b, k, p, fx[1], fx[2]) : fx \in FieldAlts(Part(m, p)), k \in {"raw", "resign"}} : p \in 0..Len(m.just)}
  \cup UNION {{C(b, "sig", p, s, 0) : s \in SigAlts} : p \in 0..Len(m.just)}
  \cup UNION {{C(b, "list", p, how, 0) : p \in ListPositions(m, how)} : how \in ListAlts}
Cases == UNION {CasesOf(b) : b \in BaseNames}
CaseMsg(c) ==
  LET m == BaseMsg(c.base) IN
  CASE c.kind = "none" -> m
    [] c.kind = "raw" -> SetPart(m, c.pos, SetF(Part(m, c.pos), c.f, c.x))                       \* old signature kept
    [] c.kind = "resign" -> LET q == SetF(Part(m, c.pos), c.f, c.x) IN SetPart(m, c.pos, Sign(q, Signer(q)))
    [] c.kind = "sig" -> SetPart(m, c.pos, AlterSig(Part(m, c.pos), c.f))
    [] c.kind = "list" -> AlterList(m, c.f, c.pos)
CaseCtx(c) == c.kind = "list" /\ c.f = "ctx"

\* Which alterations preserve the verdict of the base message ("accepted").  Everything else must be refused.
\*   raw, sig : never - every field of every QBFTMsg at every nesting level is bound by its signature
\*   list     : re-ordering / repeating / dropping justifications and values within the limits, adding an unreferenced
\*              decodable value, a justification by another member (the gate does not judge the quorum logic - that is
\*              qbft.isJustified, C03/C04); dropping a value nothing refers to
\*   resign   : exactly when the altered content is itself well-formed, names a member, stays on an allowed duty shared
\*              with all justifications and refers only to supplied values
Preserving(c) ==
  LET m == BaseMsg(c.base)  a == CaseMsg(c) IN
  CASE c.kind = "none" -> TRUE
    [] c.kind \in {"raw", "sig"} -> FALSE
    [] c.kind = "list" ->
         CASE c.f \in {"jdrop", "jswap", "jatlimit", "jforeign", "vswap", "vatlimit"} -> TRUE
           [] c.f = "jdup" -> Len(a.just) <= 2 * N
           [] c.f \in {"vadd", "vaddtoo", "vdup"} -> Len(a.vals) <= 2 * (Len(a.just) + 1)
           [] c.f = "vdrop" -> m.vals[c.pos].id \notin RefsOf(m)
           [] OTHER -> FALSE
    [] c.kind = "resign" ->
         CASE c.f = "type" -> c.x \in 1..5
           [] c.f = "slot" -> c.x \in {CurSlot + 1, EdgeSlot} /\ c.pos = 0 /\ Len(m.just) = 0
           [] c.f = "dtype" -> c.x \in {1, 2, 13} /\ c.pos = 0 /\ Len(m.just) = 0
           [] c.f = "dutynil" -> FALSE
           [] c.f = "peer" -> c.x \in Members
           [] c.f = "round" -> c.x >= 1
           [] c.f = "pr" -> c.x >= 0
           [] c.f \in {"vh", "pvh"} -> ~IsRef(c.x) \/ c.x \in Decodable(m)
           [] c.f = "ext" -> TRUE
\* checked in the state after the case was received (one byte of a value altered: unless the library finds the altered
\* value identical, it is refused)
AltTable(c, obsSame) == last.ok = IF c.kind = "list" /\ c.f = "vbyte" THEN obsSame ELSE Preserving(c)
====
