SPECIFICATION MCSpec
CONSTANTS N = 7
 SlotSec = 12
 SPE = 4
 T0 = 480
 BufCap = 100
 ExpireAtEqual = "yes"
 Skip = {}
 Mode = "cases1"
 Depth = 1
INVARIANTS OnlyAuthentic AcceptIffAuthentic BufBounded AltTableInv
PROPERTIES RejectedUntouchedMC
CHECK_DEADLOCK FALSE
