---- MODULE ConsDeliverTrace ----
(* Trace validation of the delivery clause on a real NN-node cluster (harness/c05 TestCluster):
     {"ev":"Reset","sid":n,"NN":nodes,"slot":s}
     {"ev":"Propose","node":i}                         node i calls Propose with its own data
     {"ev":"Deliver","node":i,"bytes":k,"hash":k2,"commit":k3}
        node i's subscriber received a payload whose deterministic encoding equals proposer k's original (0: nobody's),
        whose recomputed hash equals proposer k2's original hash, while the COMMIT quorum node i saw (its sniffer)
        (or, if its own view is a message short, all sniffers together: "view") carries proposer k3's hash
        (0: no quorum visible - the relation to the agreed hash is then unobserved for this event, -1: a second delivery,
        -2: quorums on two hashes). *)
EXTENDS ConsDeliver, TraceCommon
tvars == <<dvars, tr, l>>
TraceInit == DInit /\ TrInit
TReset == IsEvent("Reset") /\ l = 1 /\ Ev.NN = NN /\ UNCHANGED dvars
TPropose == IsEvent("Propose") /\ Propose(Ev.node)
\* the agreed hash becomes known with the first delivery event (from the payload if no commit quorum was visible)
TAgree == l <= TLen /\ Ev.ev = "Deliver" /\ Agree(IF Ev.commit = 0 THEN Ev.hash ELSE Ev.commit) /\ Silent
TDeliver == /\ IsEvent("Deliver") /\ Ev.commit \in {0, agreed} /\ Ev.hash = Ev.bytes
            /\ Deliver(Ev.node, Ev.bytes)
TraceNext == TReset \/ TPropose \/ TAgree \/ TDeliver
TraceSpec == TraceInit /\ [][TraceNext]_tvars
Mark == CheckInv("DeliveredIsAgreed", DeliveredIsAgreed) /\ HWMark
====
