---- MODULE ConsMsgGateTrace ----
(* Trace validation for C05.  The executor (harness/c05) builds ONE real qbft.Consensus per instance id (NewConsensus:
   listen-less libp2p host, real secp256k1 peer keys, beaconmock, real core.NewDutyGater and real deadliner on a fake
   clock), instantiates every abstract message as a real signed protobuf, calls the REAL Consensus.handle synchronously
   (build-tag hook VerifHandle) and logs what happened:
     {"ev":"Reset","sid":n,"N":..,"SlotSec":..,"SPE":..,"T0":..,"cap":..}
     {"ev":"Recv","c":instance,"m":abstract message as received from the schedule,"ctx":context already cancelled,
                  "obs":[per value: "-" | what the protobuf library says about a byte-altered value: same/differs/undec],
                  "err":handler returned an error,
                  "tb","ta":messages buffered by the instance (all duties) before / after,
                  "ib","ia":duties that have an instance before / after,
                  "db","da":receive-buffer length of the message's duty before / after (-1 no instance, -2 no duty)}
     {"ev":"Raw","c":..,"parsed":the bytes decode as a QBFTConsensusMsg (else the p2p layer drops them),"err","tb","ta","ib","ia"}
     {"ev":"Advance","by":seconds}
   The handler is synchronous: everything a message caused has happened when the call returns. *)
EXTENDS ConsMsgGate, TraceCommon
tvars == <<vars, tr, l>>
TraceInit == Init /\ TrInit
TReset == /\ IsEvent("Reset") /\ l = 1
          /\ Ev.N = N /\ Ev.SlotSec = SlotSec /\ Ev.SPE = SPE /\ Ev.T0 = T0 /\ Ev.cap = BufCap
          /\ UNCHANGED vars
NInst(s) == Cardinality({s[i].m.msg.duty : i \in DOMAIN s})
DLen(s, m) == IF m.nil \/ m.msg.nil \/ m.msg.duty.nil THEN -2
              ELSE LET k == Len(SelectSeq(s, LAMBDA e : e.m.msg.duty = m.msg.duty)) IN IF k = 0 THEN -1 ELSE k
Counts(c) == /\ Ev.tb = Len(buf[c]) /\ Ev.ta = Len(buf'[c])
             /\ Ev.ib = NInst(buf[c]) /\ Ev.ia = NInst(buf'[c])
\* the call as observed: answer Ev.err, enqueued iff the instance's message count grew
TRecv == /\ IsEvent("Recv") /\ Ev.c \in Insts /\ Len(Ev.obs) = Len(Ev.m.vals)
         /\ LET m == Resolve(Ev.m, Ev.obs) IN
              /\ RecvObs(Ev.c, m, Ev.ctx, ~Ev.err, Ev.ta > Ev.tb)
              /\ Counts(Ev.c)
              /\ Ev.db = DLen(buf[Ev.c], m) /\ Ev.da = DLen(buf'[Ev.c], m)
              /\ Ev.sniffed = 0
TRaw == /\ IsEvent("Raw") /\ Ev.c \in Insts
        /\ IF Ev.parsed THEN RecvRaw(Ev.c, ~Ev.err, Ev.ta > Ev.tb) /\ Counts(Ev.c) ELSE UNCHANGED vars
TAdvance == IsEvent("Advance") /\ Advance(Ev.by)
TraceNext == TReset \/ TRecv \/ TRaw \/ TAdvance
TraceSpec == TraceInit /\ [][TraceNext]_tvars
\* TLC evaluates the CONSTRAINT on a successor BEFORE the ACTION_CONSTRAINT: the high-water mark is therefore advanced at
\* the end of the action constraint, after every check on the step has passed.
Mark == CheckInv("BufBounded", BufBounded)
\* a violating step is pruned and the name of the first violated property recorded
ActOK == /\ CheckInv("RejectedUntouched", RejectedUntouchedA)
         /\ CheckInv("AcceptedEnqueued", AcceptedEnqueuedA /\ OnlyRecvEnqueuesA)
         /\ CheckInv("OnlyAuthentic", OnlyAuthentic')
         /\ CheckInv("AcceptIffAuthentic", AcceptIffAuthentic')
         /\ CheckInv("AsTranscribed", AsTranscribedA)
         /\ HWMarkA
====
