SPECIFICATION DSpec
CONSTANTS NN = 4
 DeliverAny = TRUE
INVARIANTS DeliveredIsAgreed
CHECK_DEADLOCK FALSE
