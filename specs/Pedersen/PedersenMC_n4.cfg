SPECIFICATION MCSpec
CONSTANTS Variant = "ok"
 ShareMode = "dedup"
 MCP = 7
 MCN = 4
 MCTs = {2, 3}
 MCVs = {1, 2}
 PolyMode = "one"
 OrderMode = "eager"
 MaxDup = 0
INVARIANTS TypeOK NoFailure ThresholdIsT Agreement KeyedByShareIdx OwnShareMatches GroupKeyIsSum AnyTRecover AnyTSign BelowThresholdSafe
CHECK_DEADLOCK TRUE
