SPECIFICATION MCSpec
CONSTANTS Variant = "peeridx"
 ShareMode = "dedup"
 MCP = 7
 MCN = 3
 MCTs = {2}
 MCVs = {1}
 PolyMode = "few"
 OrderMode = "canon"
 MaxDup = 0
INVARIANTS TypeOK NoFailure ThresholdIsT Agreement KeyedByShareIdx OwnShareMatches GroupKeyIsSum AnyTRecover AnyTSign BelowThresholdSafe
CHECK_DEADLOCK TRUE
