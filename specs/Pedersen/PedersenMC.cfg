SPECIFICATION MCSpec
CONSTANTS Variant = "ok"
 ShareMode = "dedup"
 MCP = 7
 MCN = 3
 MCTs = {2}
 MCVs = {1}
 PolyMode = "all"
 OrderMode = "canon"
 MaxDup = 0
INVARIANTS TypeOK NoFailure ThresholdIsT Agreement KeyedByShareIdx OwnShareMatches GroupKeyIsSum AnyTRecover AnyTSign BelowThresholdSafe
CHECK_DEADLOCK TRUE
