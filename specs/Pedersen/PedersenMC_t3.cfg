SPECIFICATION MCSpec
CONSTANTS Variant = "ok"
 ShareMode = "dedup"
 MCP = 5
 MCN = 3
 MCTs = {3}
 MCVs = {1}
 PolyMode = "most"
 OrderMode = "canon"
 MaxDup = 0
INVARIANTS TypeOK NoFailure ThresholdIsT Agreement KeyedByShareIdx OwnShareMatches GroupKeyIsSum AnyTRecover AnyTSign BelowThresholdSafe
CHECK_DEADLOCK TRUE
