---- MODULE PedersenTrace ----
(* Trace validation for pedersen.RunDKG (harness/pedersen).  One trace = one ceremony.  The executor logs an event only
   when every goroutine of the ceremony is blocked (testing/synctest), so the effects of a stimulus are complete:
     {"ev":"Reset","sid":k,"n":n,"t":t,"V":nv,"p":p}
     {"ev":"Start","i":i,"c":[[coef]*t per validator], OBS}     node i entered RunDKG.  c = the model WITNESS polynomials
                                                                 (chosen by the schedule; the real node draws its own)
     {"ev":"D","k":kind,"i":i,"j":j,"v":v,"found":b, OBS}       the network delivers the kind-k packet number v from i to j
                                                                 (1 deal bundle, 2 response bundle, 4 validator public-key
                                                                 share; first delivery or re-delivery); found = it exists
     OBS = "sent":[[kind,from,to,number]..]   the packets that appeared since the previous event
           "done":[nodes], "failed":[nodes]   the nodes whose RunDKG returned a result / an error since the previous event
     {"ev":"Check","gkeq":[b per v],"pseq":[b per v],"own":[[b per v] per node],"pskeys":[[[keys] per v] per node],
                   "nres":[results per node],"subs":[{"v":v,"S":[..],"k":k,"rec":b,"psig":b,"sig":b,"same":b}..],
                   "below":[{"v":v,"S":[..],"k":k,"sig":b}..]}
           relations between the n results computed with real tbls calls, as in FrostTrace (view = the result of node k):
           over every subset of EXACTLY t nodes and subsets of exactly t-1 nodes
   The model runs the nodes eagerly (silent steps, before the next event); at every quiescent point it DEMANDS that the
   packets that appeared and the nodes that returned are exactly the model's, and finally the model's value of every relation.
   Latitude: a "below" relation is only demanded when the witness's joint polynomial has degree exactly t-1.
   PedersenTrace.cfg: ShareMode "dedup" (required).  PedersenTrace_dev.cfg: ShareMode "ascoded" = the named deviation
   "stale-share" (known finding C11-pedersen-stale-share): a re-delivered share message is queued again. *)
EXTENDS Pedersen, TraceCommon
VARIABLES base, ret      \* the messages / returned nodes that existed before the last consumed event
tvars == <<vars, tr, l, base, ret>>
R == Trace[1]
TraceInit == TrInit /\ InitWith(R.n, R.t, R.V, R.p) /\ base = {} /\ ret = {}
H == 2
Stepper == {j \in Nodes : NodeEnabled(j)}
Min(S) == CHOOSE m \in S : \A o \in S : m <= o
TAuto == Stepper # {} /\ Silent /\ NodeStep(Min(Stepper)) /\ UNCHANGED <<base, ret>>
Snap == base' = Msgs /\ ret' = Returned
\* inside an action TLC explores BOTH disjuncts of CheckInv's "pred \/ InvFail(name)" (the second one would overwrite the
\* recorded name after the successor has been examined): IF evaluates one branch only
Rel(name, pred) == IF pred THEN TRUE ELSE InvFail(name)
TReset == IsEvent("Reset") /\ l = 1 /\ UNCHANGED <<vars, base, ret>>
TStart == /\ IsEvent("Start") /\ Quiet /\ Ev.i \in Nodes /\ Len(Ev.c) = par.nv
          /\ Start(Ev.i, [v \in Vals |-> Ev.c[v + 1]]) /\ Snap
TD == /\ IsEvent("D") /\ Quiet /\ Ev.i \in Nodes /\ Ev.j \in Nodes /\ Ev.v \in Vals /\ Ev.k \in {1, 2, 4}
      /\ Rel("D.found", Ev.found)
      /\ CASE Ev.k = 1 -> DeliverDeal(Ev.i, Ev.j, Ev.v)
           [] Ev.k = 2 -> DeliverResp(Ev.i, Ev.j, Ev.v)
           [] OTHER -> DeliverShare(Ev.i, Ev.j, Ev.v)
      /\ Snap
Generic(v) == LeadSum(v) # 0
TCheck == /\ IsEvent("Check") /\ l = TLen /\ Quiet /\ AllDone /\ UNCHANGED <<vars, base, ret>>
          /\ Len(Ev.gkeq) = par.nv /\ Len(Ev.pseq) = par.nv /\ Len(Ev.own) = par.n /\ Len(Ev.pskeys) = par.n /\ Len(Ev.nres) = par.n
          /\ Rel("Check.nres", \A j \in Nodes : Ev.nres[j] = par.nv)
          /\ Rel("Check.gkeq", \A v \in Vals : Ev.gkeq[v + 1] = GkEq(v))
          /\ Rel("Check.pseq", \A v \in Vals : Ev.pseq[v + 1] = PsEq(v))
          /\ Rel("Check.own", \A j \in Nodes : Len(Ev.own[j]) = par.nv /\ \A v \in Vals : Ev.own[j][v + 1] = Own(j, v))
          /\ Rel("Check.pskeys", \A j \in Nodes : Len(Ev.pskeys[j]) = par.nv /\
                                   \A v \in Vals : SeqToSet(Ev.pskeys[j][v + 1]) = PsKeys(j, v))
          \* every validator was examined: over ALL subsets of exactly t nodes (the executor lists them all for n <= 6)
          /\ \A v \in Vals : \E x \in DOMAIN Ev.subs : Ev.subs[x].v = v
          /\ Rel("Check.allsubsets", par.n <= 6 => \A v \in Vals :
                  {SeqToSet(Ev.subs[x].S) : x \in {y \in DOMAIN Ev.subs : Ev.subs[y].v = v}} = SubsetsOf(par.t))
          /\ Rel("Check.somebelow", par.t >= 2 => \A v \in Vals : \E x \in DOMAIN Ev.below : Ev.below[x].v = v)
          /\ \A x \in DOMAIN Ev.subs :
               LET e == Ev.subs[x]  S == SeqToSet(e.S)  k == e.k
                   x0 == CHOOSE y \in DOMAIN Ev.subs : Ev.subs[y].v = e.v /\ \A z \in DOMAIN Ev.subs : Ev.subs[z].v = e.v => y <= z
               IN /\ e.v \in Vals /\ S \subseteq Nodes /\ Cardinality(S) = par.t /\ Len(e.S) = par.t /\ k \in S
                  /\ Rel("Check.rec", e.rec = RecPk(k, e.v, S))
                  /\ Rel("Check.psig", e.psig = PartialsOK(k, e.v, S, H))
                  /\ Rel("Check.sig", e.sig = SigOK(k, e.v, S, H))
                  /\ Rel("Check.same", e.same = (AggSig(e.v, S, H) = AggSig(e.v, SeqToSet(Ev.subs[x0].S), H)))
          /\ \A x \in DOMAIN Ev.below :
               LET e == Ev.below[x]  S == SeqToSet(e.S)  k == e.k
               IN /\ e.v \in Vals /\ S \subseteq Nodes /\ Cardinality(S) = par.t - 1 /\ k \in S
                  /\ Rel("Check.below", Generic(e.v) => e.sig = SigOK(k, e.v, S, H))
TraceNext == TReset \/ TAuto \/ TStart \/ TD \/ TCheck
TraceSpec == TraceInit /\ [][TraceNext]_tvars
\* the observations of the last consumed event, demanded when the model has run to quiescence
Prev == Trace[l - 1]
AsMsgs(s) == {<<m[1], m[2], m[3], m[4]>> : m \in SeqToSet(s)}
ObsDue == l > 1 /\ Prev.ev \in {"Start", "D"} /\ Quiet
Obs == ObsDue => /\ CheckInv("sent", AsMsgs(Prev.sent) = Msgs \ base)
                 /\ CheckInv("done", SeqToSet(Prev.done) = {i \in Returned \ ret : phase[i] = "done"})
                 /\ CheckInv("failed", SeqToSet(Prev.failed) = {i \in Returned \ ret : phase[i] = "failed"})
                 /\ (AllDone => l = TLen /\ Ev.ev = "Check")              \* a completed ceremony is examined
Mark == /\ CheckInv("TypeOK", TypeOK) /\ CheckInv("NoFailure", NoFailure) /\ CheckInv("ThresholdIsT", ThresholdIsT)
        /\ CheckInv("GroupKeyIsSum", GroupKeyIsSum)
        /\ (ShareMode = "dedup" => /\ CheckInv("KeyedByShareIdx", KeyedByShareIdx) /\ CheckInv("Agreement", Agreement)
                                   /\ CheckInv("OwnShareMatches", OwnShareMatches))
        /\ Obs
        /\ (Quiet => HWMark)       \* an event counts as consumed when its observations have been confirmed
====
