SPECIFICATION TraceSpec
CONSTANTS Variant = "ok"
 ShareMode = "dedup"
CONSTRAINT Mark
POSTCONDITION Report
CHECK_DEADLOCK FALSE
