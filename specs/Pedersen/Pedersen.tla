---- MODULE Pedersen ----
(* dkg/pedersen/dkg.go (RunDKG: BroadcastNodePubKey / makeNodes, then PER VALIDATOR, one after the other: a kyber
   share/dkg Protocol in FastSync mode, processKey = BroadcastValidatorPubKeyShare + readBoardChannel), board.go
   (Board: deal / response / justification bundles and the validator public-key-share messages over direct p2p
   sends, bundle de-duplication by signature, the n-slot share channel, readBoardChannel's one-message-per-peer
   collection) and the part of drand/kyber share/dkg (dkg.go, protocol.go startFast) an honest ceremony runs through:
   Deals -> all n deal bundles in: ProcessDeals (every share checked against its dealer's commitments, commitment
   count = threshold) -> response bundle (FastSync: a success per dealer) -> all n response bundles in, no complaint:
   computeDKGResult (share = sum of the dealt shares, public polynomial = sum of the dealers' polynomials).

   One ceremony: n nodes (a node IS its share index 1..n = cluster.NodeIdx.ShareIdx = PeerIdx + 1; kyber's node index
   is PeerIdx and kyber evaluates polynomials at index + 1), threshold t, nv validators 0..nv-1 run SEQUENTIALLY over one
   shared board.  Algebra: in the exponent over GF(p) as in specs/Frost (Pub(x) = x, Sign(sk, h) = sk * h).

   Environment actions (what a schedule consists of):
     Start(i, c)           node i enters RunDKG with the witness polynomials c[v] (coefficient 1 = its secret contribution)
                           and casts its node public key (reliable broadcast, C13: not scheduled here)
     DeliverDeal(i,j,v)    the deal bundle i made for validator v reaches j's board     } any order, any number of times
     DeliverResp(i,j,v)    the response bundle                                           } (p2p.SendAsync may re-send); a
     DeliverShare(i,j,v)   i's validator public-key-share message for validator v        } message waits at a busy node
   Node steps (deterministic, a node runs as far as its inputs allow):
     Begin(i)    all n node public keys are in (makeNodes): Deals for validator 0
     Respond(j)  all deal bundles of the current validator are in: ProcessDeals, response bundle out
     Finish(j)   all response bundles are in: DKG result; share message out, own entry pushed into the share channel
     Take(j)     readBoardChannel takes the next entry of the share channel: first entry per peer counts, the n-th
                 distinct peer completes the validator: result = (group key, own secret share, public shares by share
                 index); then Deals for the next validator, or RunDKG returns

   ShareMode -- what the board does with a RE-DELIVERED validator public-key-share message:
     "dedup"    REQUIRED: an identical re-delivery is dropped (as the board does for the three bundle kinds)
     "ascoded"  the message carries no validator index and only readBoardChannel de-duplicates, per peer and per
                collection: a re-delivery that arrives after the receiver completed that validator's collection is taken as
                the peer's message for the NEXT validator and the genuine one is then dropped as the duplicate
                (known finding C11-pedersen-stale-share; control PedersenMC_ctl_stale.cfg MUST violate Agreement)
   Variant selects further controls that MUST violate an invariant (PedersenMC_ctl_*.cfg):
     "ok"         as coded
     "raise"      RunDKG runs kyber with max(t, ceil(2n/3)) instead of the configured t (a configured threshold below the
                  default is silently raised)
     "peeridx"    processKey keys the public shares by PeerIdx (share index - 1)
     "countmsgs"  readBoardChannel counts messages, not distinct peers (no per-collection de-duplication) *)
EXTENDS Integers, FiniteSets, Sequences, TLC
CONSTANTS Variant, ShareMode

VARIABLES par,      \* [n, t, nv, p]: nodes, threshold, validators, field modulus (fixed by Init)
          phase,    \* node -> "idle" | "keys" | "deal" | "resp" | "coll" | "done" | "failed"
          cur,      \* node -> validator it works on
          poly,     \* node -> [validator -> coefficient sequence]  (private polynomials)
          dealIn,   \* node -> set of <<dealer, validator>>: deal bundles its board let through
          respIn,   \* node -> set of <<share holder, validator>>: response bundles its board let through
          queue,    \* node -> the share channel: sequence of [src, v] (v = the validator the message was MADE for; the
                    \*         message itself carries the public share only)
          shDel,    \* node -> set of <<src, validator>>: share messages delivered at least once
          seen,     \* node -> peers counted in the running collection
          took,     \* node -> [peer -> validator tag of the message counted for it] in the running collection
          nmsg,     \* node -> number of messages counted in the running collection
          sk, gk,   \* node -> [validator -> own secret share / group public key] of the finished DKGs
          res       \* node -> [validator -> [gk, ss, ps]]: share.Share{PubKey, SecretShare, PublicShares}
vars == <<par, phase, cur, poly, dealIn, respIn, queue, shDel, seen, took, nmsg, sk, gk, res>>

Nodes == 1..par.n
Vals == 0..(par.nv - 1)

------------------------------------------------------------------------------------------------------------
(* algebra over GF(par.p), as in specs/Frost/Frost.tla *)
Zp == 0..(par.p - 1)
Mod(a) == ((a % par.p) + par.p) % par.p
RECURSIVE Pow(_, _)
Pow(a, e) == IF e = 0 THEN 1
             ELSE IF e % 2 = 0 THEN LET h == Pow(a, e \div 2) IN Mod(h * h)
             ELSE Mod(a * Pow(a, e - 1))
Inv(a) == Pow(Mod(a), par.p - 2)
RECURSIVE EvalFrom(_, _, _)
EvalFrom(coef, x, k) == IF k > Len(coef) THEN 0 ELSE Mod(coef[k] + x * EvalFrom(coef, x, k + 1))
Eval(coef, x) == EvalFrom(coef, x, 1)
Pub(x) == x
RECURSIVE Num(_, _), Den(_, _), SumPts(_, _), SumOf(_, _)
Num(X, xi) == IF X = {} THEN 1 ELSE LET x == CHOOSE y \in X : TRUE IN
                Mod((IF x = xi THEN 1 ELSE x) * Num(X \ {x}, xi))
Den(X, xi) == IF X = {} THEN 1 ELSE LET x == CHOOSE y \in X : TRUE IN
                Mod((IF x = xi THEN 1 ELSE x - xi) * Den(X \ {x}, xi))
Lambda(X, xi) == Mod(Num(X, xi) * Inv(Den(X, xi)))
SumPts(pts, X) == IF pts = {} THEN 0 ELSE LET q == CHOOSE r \in pts : TRUE IN
                    Mod(Lambda(X, q[1]) * q[2] + SumPts(pts \ {q}, X))
Interp(pts) == SumPts(pts, {q[1] : q \in pts})                     \* tbls RecoverPubkey / ThresholdAggregate
SumOf(S, f) == IF S = {} THEN 0 ELSE LET i == CHOOSE x \in S : TRUE IN Mod(f[i] + SumOf(S \ {i}, f))
Sign(s, h) == Mod(s * h)
Verify(pk, h, s) == s = Mod(pk * h)

------------------------------------------------------------------------------------------------------------
DefaultThreshold == (2 * par.n + 2) \div 3                          \* cluster.Threshold: ceil(2n/3)
LibThreshold == IF Variant = "raise" /\ DefaultThreshold > par.t THEN DefaultThreshold ELSE par.t
PolyShape(c) == /\ DOMAIN c = Vals
                /\ \A v \in Vals : c[v] \in [1..LibThreshold -> Zp]

InitWith(n, t, nv, p) ==
  /\ par = [n |-> n, t |-> t, nv |-> nv, p |-> p]
  /\ phase = [i \in 1..n |-> "idle"] /\ cur = [i \in 1..n |-> 0]
  /\ poly = [i \in 1..n |-> <<>>]
  /\ dealIn = [i \in 1..n |-> {}] /\ respIn = [i \in 1..n |-> {}]
  /\ queue = [i \in 1..n |-> <<>>] /\ shDel = [i \in 1..n |-> {}]
  /\ seen = [i \in 1..n |-> {}] /\ took = [i \in 1..n |-> <<>>] /\ nmsg = [i \in 1..n |-> 0]
  /\ sk = [i \in 1..n |-> <<>>] /\ gk = [i \in 1..n |-> <<>>] /\ res = [i \in 1..n |-> <<>>]

Running(i) == phase[i] \in {"deal", "resp", "coll", "done"}
HasDealt(i, v) == Running(i) /\ cur[i] >= v
HasResponded(i, v) == Running(i) /\ (cur[i] > v \/ (cur[i] = v /\ phase[i] # "deal"))
HasShared(i, v) == Running(i) /\ (cur[i] > v \/ (cur[i] = v /\ phase[i] \in {"coll", "done"}))
\* what a deal bundle of dealer i for validator v carries: the commitments and, encrypted for j, the share f(j)
Commit(i, v) == [k \in 1..Len(poly[i][v]) |-> Pub(poly[i][v][k])]
DealtShare(i, v, j) == Eval(poly[i][v], j)                          \* kyber: dpriv.Eval(index) = f(index + 1) = f(share index)

\* every message on the network (the executor reports which ones a stimulus made appear): <<kind, from, to, validator>>,
\* kind 1 = deal bundle, 2 = response bundle, 3 = justification bundle (never, among honest nodes), 4 = share message
Msgs == {m \in {1} \X Nodes \X Nodes \X Vals : m[2] # m[3] /\ HasDealt(m[2], m[4])}
        \cup {m \in {2} \X Nodes \X Nodes \X Vals : m[2] # m[3] /\ HasResponded(m[2], m[4])}
        \cup {m \in {4} \X Nodes \X Nodes \X Vals : m[2] # m[3] /\ HasShared(m[2], m[4])}
Returned == {i \in Nodes : phase[i] \in {"done", "failed"}}

------------------------------------------------------------------------------------------------------------
(* environment *)
Start(i, c) ==
  /\ phase[i] = "idle" /\ PolyShape(c)
  /\ poly' = [poly EXCEPT ![i] = c]
  /\ phase' = [phase EXCEPT ![i] = "keys"]
  /\ UNCHANGED <<par, cur, dealIn, respIn, queue, shDel, seen, took, nmsg, sk, gk, res>>

\* board.handleDealBundleMessage: "Drop identical re-deliveries" (bundleDedup, keyed by the bundle's signature)
DeliverDeal(i, j, v) ==
  /\ i # j /\ v \in Vals /\ HasDealt(i, v)
  /\ dealIn' = [dealIn EXCEPT ![j] = @ \cup {<<i, v>>}]
  /\ UNCHANGED <<par, phase, cur, poly, respIn, queue, shDel, seen, took, nmsg, sk, gk, res>>
DeliverResp(i, j, v) ==
  /\ i # j /\ v \in Vals /\ HasResponded(i, v)
  /\ respIn' = [respIn EXCEPT ![j] = @ \cup {<<i, v>>}]
  /\ UNCHANGED <<par, phase, cur, poly, dealIn, queue, shDel, seen, took, nmsg, sk, gk, res>>
\* board.handleValidatorPubKeyShareMessage: into the n-slot channel; a sender finds room or waits (in flight)
Room(j) == Len(queue[j]) < par.n
DeliverShare(i, j, v) ==
  /\ i # j /\ v \in Vals /\ HasShared(i, v)
  /\ IF <<i, v>> \notin shDel[j]
     THEN /\ Room(j)
          /\ queue' = [queue EXCEPT ![j] = Append(@, [src |-> i, v |-> v])]
          /\ shDel' = [shDel EXCEPT ![j] = @ \cup {<<i, v>>}]
     ELSE IF ShareMode = "dedup" THEN UNCHANGED <<queue, shDel>>
     ELSE /\ Room(j)
          /\ queue' = [queue EXCEPT ![j] = Append(@, [src |-> i, v |-> v])]
          /\ UNCHANGED shDel
  /\ UNCHANGED <<par, phase, cur, poly, dealIn, respIn, seen, took, nmsg, sk, gk, res>>

------------------------------------------------------------------------------------------------------------
(* node steps *)
\* makeNodes: readBoardChannel over the node public keys -- every node has cast its key
Begin(i) ==
  /\ phase[i] = "keys" /\ \A k \in Nodes : phase[k] # "idle"
  /\ phase' = [phase EXCEPT ![i] = "deal"] /\ cur' = [cur EXCEPT ![i] = 0]
  /\ UNCHANGED <<par, poly, dealIn, respIn, queue, shDel, seen, took, nmsg, sk, gk, res>>

\* kyber startFast: "deals.Len() == oldN" -> ProcessDeals: "len(bundle.Public) != d.c.Threshold" evicts the dealer, a
\* share that does not match the commitments is answered with a complaint: neither happens among honest nodes
Others(j) == Nodes \ {j}
DealsIn(j) == {i \in Others(j) : <<i, cur[j]>> \in dealIn[j]}
RespsIn(j) == {i \in Others(j) : <<i, cur[j]>> \in respIn[j]}
DealOK(i, v, j) == Len(Commit(i, v)) = LibThreshold /\ Eval(Commit(i, v), j) = Pub(DealtShare(i, v, j))
Respond(j) ==
  /\ phase[j] = "deal" /\ DealsIn(j) = Others(j)
  /\ phase' = [phase EXCEPT ![j] = IF \A i \in Others(j) : DealOK(i, cur[j], j) THEN "resp" ELSE "failed"]
  /\ UNCHANGED <<par, cur, poly, dealIn, respIn, queue, shDel, seen, took, nmsg, sk, gk, res>>

\* "resps.Len() == newN" -> ProcessResponses: no complaint -> computeDKGResult; RunDKG: processKey ->
\* BroadcastValidatorPubKeyShare: sends, then "b.valPubKeySharesCh <- own" (a plain send: needs room)
Finish(j) ==
  /\ phase[j] = "resp" /\ RespsIn(j) = Others(j) /\ Room(j)
  /\ LET v == cur[j] IN
     /\ sk' = [sk EXCEPT ![j] = (v :> SumOf(Nodes, [i \in Nodes |-> DealtShare(i, v, j)])) @@ @]
     /\ gk' = [gk EXCEPT ![j] = (v :> SumOf(Nodes, [i \in Nodes |-> Commit(i, v)[1]])) @@ @]
     /\ queue' = [queue EXCEPT ![j] = Append(@, [src |-> j, v |-> v])]
  /\ phase' = [phase EXCEPT ![j] = "coll"]
  /\ seen' = [seen EXCEPT ![j] = {}] /\ took' = [took EXCEPT ![j] = <<>>] /\ nmsg' = [nmsg EXCEPT ![j] = 0]
  /\ UNCHANGED <<par, cur, poly, dealIn, respIn, shDel, res>>

\* readBoardChannel: "if _, ok := seen[pid]; ok { continue }" ... "for len(msgs) < len(expected)"; then processKey:
\* publicShares[config.PeerMap[spk.PeerID].ShareIdx] = the received bytes; share.Share{PubKey, SecretShare, PublicShares}
PsKey(i) == IF Variant = "peeridx" THEN i - 1 ELSE i
Take(j) ==
  /\ phase[j] = "coll" /\ queue[j] # <<>>
  /\ LET m == Head(queue[j])
         v == cur[j]
         counts == Variant = "countmsgs" \/ m.src \notin seen[j]
         nseen == IF counts THEN seen[j] \cup {m.src} ELSE seen[j]
         ntook == IF counts THEN (m.src :> m.v) @@ took[j] ELSE took[j]
         ncnt == IF counts THEN nmsg[j] + 1 ELSE nmsg[j]
         complete == IF Variant = "countmsgs" THEN ncnt = par.n ELSE Cardinality(nseen) = par.n
     IN /\ queue' = [queue EXCEPT ![j] = Tail(@)]
        /\ IF ~complete
           THEN /\ seen' = [seen EXCEPT ![j] = nseen] /\ took' = [took EXCEPT ![j] = ntook]
                /\ nmsg' = [nmsg EXCEPT ![j] = ncnt]
                /\ UNCHANGED <<phase, cur, res>>
           ELSE /\ res' = [res EXCEPT ![j] = (v :> [gk |-> gk[j][v], ss |-> sk[j][v],
                                                   ps |-> [x \in {PsKey(i) : i \in nseen} |->
                                                             LET i == CHOOSE y \in nseen : PsKey(y) = x
                                                             IN Pub(sk[i][ntook[i]])]]) @@ @]
                /\ seen' = [seen EXCEPT ![j] = {}] /\ took' = [took EXCEPT ![j] = <<>>] /\ nmsg' = [nmsg EXCEPT ![j] = 0]
                /\ IF v + 1 < par.nv
                   THEN phase' = [phase EXCEPT ![j] = "deal"] /\ cur' = [cur EXCEPT ![j] = v + 1]
                   ELSE phase' = [phase EXCEPT ![j] = "done"] /\ UNCHANGED cur
  /\ UNCHANGED <<par, poly, dealIn, respIn, shDel, sk, gk>>

NodeStep(j) == Begin(j) \/ Respond(j) \/ Finish(j) \/ Take(j)
NodeEnabled(j) == \/ phase[j] = "keys" /\ \A k \in Nodes : phase[k] # "idle"
                  \/ phase[j] = "deal" /\ DealsIn(j) = Others(j)
                  \/ phase[j] = "resp" /\ RespsIn(j) = Others(j) /\ Room(j)
                  \/ phase[j] = "coll" /\ queue[j] # <<>>
Quiet == \A j \in Nodes : ~NodeEnabled(j)

------------------------------------------------------------------------------------------------------------
(* The property (C11), stated over the results of a completed ceremony (as in specs/Frost). *)
AllDone == \A j \in Nodes : phase[j] = "done"
SubsetsOf(k) == {S \in SUBSET Nodes : Cardinality(S) = k}
GkEq(v) == \A j, k \in Nodes : res[j][v].gk = res[k][v].gk
PsEq(v) == \A j, k \in Nodes : res[j][v].ps = res[k][v].ps
PsKeys(j, v) == DOMAIN res[j][v].ps
Own(j, v) == j \in PsKeys(j, v) /\ Pub(res[j][v].ss) = res[j][v].ps[j]
RecPk(k, v, S) == /\ S \subseteq PsKeys(k, v)
                  /\ Interp({<<i, res[k][v].ps[i]>> : i \in S}) = res[k][v].gk
AggSig(v, S, h) == Interp({<<i, Sign(res[i][v].ss, h)>> : i \in S})
SigOK(k, v, S, h) == Verify(res[k][v].gk, h, AggSig(v, S, h))
PartialsOK(k, v, S, h) == /\ S \subseteq PsKeys(k, v)
                          /\ \A i \in S : Verify(res[k][v].ps[i], h, Sign(res[i][v].ss, h))
LeadSum(v) == SumOf(Nodes, [i \in Nodes |-> IF Len(poly[i][v]) >= par.t THEN poly[i][v][par.t] ELSE 0])
Hs == {1, 2}

NoFailure == \A j \in Nodes : phase[j] # "failed"
Agreement == AllDone => \A v \in Vals : GkEq(v) /\ PsEq(v)
KeyedByShareIdx == \A j \in Nodes : \A v \in DOMAIN res[j] : PsKeys(j, v) = Nodes
OwnShareMatches == AllDone => \A j, k \in Nodes, v \in Vals :
                      j \in PsKeys(k, v) /\ Pub(res[j][v].ss) = res[k][v].ps[j]
GroupKeyIsSum == \A j \in Nodes : \A v \in DOMAIN res[j] :
                      res[j][v].gk = Pub(SumOf(Nodes, [i \in Nodes |-> poly[i][v][1]]))
AnyTRecover == AllDone => \A k \in Nodes, v \in Vals : \A S \in SUBSET Nodes :
                      Cardinality(S) >= par.t => RecPk(k, v, S)
AnyTSign == AllDone => \A v \in Vals : \A S \in SUBSET Nodes : Cardinality(S) >= par.t =>
                      \A h \in Hs : LET a == AggSig(v, S, h) IN
                         \A k \in Nodes : Verify(res[k][v].gk, h, a) /\ PartialsOK(k, v, S, h)
ThresholdIsT == \A i \in Nodes : phase[i] # "idle" => \A v \in Vals : Len(poly[i][v]) = par.t
BelowThresholdSafe == AllDone => \A v \in Vals : LeadSum(v) # 0 =>
                        \A S \in SubsetsOf(par.t - 1) : \A h \in Hs : ~SigOK(1, v, S, h)
TypeOK == /\ \A j \in Nodes : phase[j] \in {"idle", "keys", "deal", "resp", "coll", "done", "failed"}
          /\ \A j \in Nodes : cur[j] \in Vals /\ Len(queue[j]) <= par.n /\ seen[j] \subseteq Nodes
          /\ \A j \in Nodes : DOMAIN res[j] \subseteq Vals
Safety == TypeOK /\ NoFailure /\ Agreement /\ KeyedByShareIdx /\ OwnShareMatches /\ GroupKeyIsSum
          /\ AnyTRecover /\ AnyTSign /\ ThresholdIsT /\ BelowThresholdSafe
====
