---- MODULE PedersenMC ----
(* Exhaustive design check of one ceremony.
   PolyMode  "all"   every node picks among ALL polynomial vectors of the field (the algebra)
             "most"  all nodes but the last pick among all, the last among 2
             "few"   every node picks among 2 polynomial vectors (used with free delivery order)
             "one"   every node has one polynomial vector (quick tier / controls about the order of deliveries)
   OrderMode "free"  every interleaving of starts, deliveries (incl. re-deliveries) and node steps: a node may be
                     arbitrarily slow, messages wait in its board
             "eager" every interleaving of starts and deliveries; a node that can take a step takes it first (a message
                     waiting at a slow node and a message still in flight are the same thing for every other node)
             "canon" one canonical delivery order, eager nodes (spends the budget on the polynomials)
   MaxDup    bound on re-deliveries of validator public-key-share messages under ShareMode "ascoded" (re-deliveries of the
             three bundle kinds, and of share messages under "dedup", are dropped by the board: no state change, they are
             stuttering steps of every behaviour) *)
EXTENDS Pedersen
CONSTANTS MCP, MCN, MCTs, MCVs, PolyMode, OrderMode, MaxDup
VARIABLE dups
mcvars == <<vars, dups>>
MCInit == /\ \E t \in MCTs, nv \in MCVs : t <= MCN /\ InitWith(MCN, t, nv, MCP)
          /\ dups = 0
Few(i) == {[v \in Vals |-> [k \in 1..LibThreshold |-> Mod(i + 2 * v + a * k * k + (a - 1) * i * k)]] :
             a \in IF PolyMode = "one" THEN {1} ELSE {1, 2}}
Polys(i) == IF PolyMode = "all" \/ (PolyMode = "most" /\ i < par.n) THEN [Vals -> [1..LibThreshold -> Zp]] ELSE Few(i)
Idle == {i \in Nodes : phase[i] = "idle"}
Min(S) == CHOOSE m \in S : \A o \in S : m <= o
Stepper == {j \in Nodes : NodeEnabled(j)}
\* first deliveries that are possible now
PendDeal == {m \in Nodes \X Nodes \X Vals : m[1] # m[2] /\ HasDealt(m[1], m[3]) /\ <<m[1], m[3]>> \notin dealIn[m[2]]}
PendResp == {m \in Nodes \X Nodes \X Vals : m[1] # m[2] /\ HasResponded(m[1], m[3]) /\ <<m[1], m[3]>> \notin respIn[m[2]]}
PendShare == {m \in Nodes \X Nodes \X Vals : m[1] # m[2] /\ HasShared(m[1], m[3]) /\ <<m[1], m[3]>> \notin shDel[m[2]] /\ Room(m[2])}
MinTriple(S) == CHOOSE m \in S : \A o \in S : m[3] * 10000 + m[1] * 100 + m[2] <= o[3] * 10000 + o[1] * 100 + o[2]
Deliveries ==
  \/ \E m \in PendDeal : DeliverDeal(m[1], m[2], m[3]) /\ UNCHANGED dups     \* re-deliveries: stuttering (see MaxDup)
  \/ \E m \in PendResp : DeliverResp(m[1], m[2], m[3]) /\ UNCHANGED dups
  \/ \E i, j \in Nodes, v \in Vals : /\ <<i, v>> \notin shDel[j] /\ DeliverShare(i, j, v) /\ UNCHANGED dups
  \/ \E i, j \in Nodes, v \in Vals : /\ ShareMode = "ascoded" /\ <<i, v>> \in shDel[j] /\ dups < MaxDup
                                     /\ DeliverShare(i, j, v) /\ dups' = dups + 1
Starts == \E i \in Nodes : \E c \in Polys(i) : Start(i, c) /\ UNCHANGED dups
FreeNext == Starts \/ Deliveries \/ (\E j \in Nodes : NodeStep(j) /\ UNCHANGED dups)
EagerNext == IF Stepper # {} THEN NodeStep(Min(Stepper)) /\ UNCHANGED dups
             ELSE Starts \/ Deliveries
CanonNext == IF Stepper # {} THEN NodeStep(Min(Stepper)) /\ UNCHANGED dups
             ELSE IF Idle # {} THEN \E c \in Polys(Min(Idle)) : Start(Min(Idle), c) /\ UNCHANGED dups
             ELSE IF PendDeal # {} THEN LET m == MinTriple(PendDeal) IN DeliverDeal(m[1], m[2], m[3]) /\ UNCHANGED dups
             ELSE IF PendResp # {} THEN LET m == MinTriple(PendResp) IN DeliverResp(m[1], m[2], m[3]) /\ UNCHANGED dups
             ELSE IF PendShare # {} THEN LET m == MinTriple(PendShare) IN DeliverShare(m[1], m[2], m[3]) /\ UNCHANGED dups
             ELSE FALSE
\* a completed ceremony stutters: TLC's deadlock check then reports exactly the runs that get stuck before every node holds
\* its result (CHECK_DEADLOCK TRUE where no re-delivery can fill a share channel)
MCNext == (CASE OrderMode = "free" -> FreeNext [] OrderMode = "eager" -> EagerNext [] OTHER -> CanonNext)
          \/ (AllDone /\ UNCHANGED mcvars)
MCSpec == MCInit /\ [][MCNext]_mcvars
====
