---- MODULE PedersenGen ----
(* Schedule generation: behaviours of the design spec recorded in the history variable `hist`: the ceremony's parameters
   (n, t, V; p = the field of the model witness) and the ENVIRONMENT's moves -- which node starts when (with the model
   polynomials it picks: a witness only the trace spec uses, the real node draws its own), which message the network
   delivers when, first deliveries and re-deliveries.  Nodes run eagerly (a real node is never slower than the executor's
   quiescence barrier; a slow node = late deliveries to it).  Re-deliveries generated here are the ones on which the
   required behaviour and the code as written agree (any bundle at any time: dropped by bundleDedup; a share message while
   the receiver is still collecting that validator and has counted the sender, or after the receiver returned); the
   re-deliveries that tell them apart are the dedicated probes of checks/grow_pedersen.py.
   Run with -simulate (the polynomials are drawn with RandomElement). *)
EXTENDS Pedersen, Json
CONSTANTS GenP, MinN, MaxN, MaxV, MaxRe
VARIABLES hist, nre
GenInit == \E n \in MinN..MaxN, nv \in 1..MaxV : \E t \in 2..n :
             /\ InitWith(n, t, nv, GenP)
             /\ hist = <<[ev |-> "Cfg", n |-> n, t |-> t, V |-> nv, p |-> GenP]>>
             /\ nre = 0
RandPoly == [v \in Vals |-> [k \in 1..par.t |-> RandomElement(Zp)]]
AsSeq(c) == [v \in 1..par.nv |-> c[v - 1]]
Stepper == {j \in Nodes : NodeEnabled(j)}
Min(S) == CHOOSE m \in S : \A o \in S : m <= o
D(k, i, j, v) == [ev |-> "D", k |-> k, i |-> i, j |-> j, v |-> v]
EnvNext ==
  \/ \E i \in Nodes : LET c == RandPoly IN Start(i, c) /\ hist' = Append(hist, [ev |-> "Start", i |-> i, c |-> AsSeq(c)]) /\ UNCHANGED nre
  \/ \E i, j \in Nodes, v \in Vals :
       /\ DeliverDeal(i, j, v) /\ hist' = Append(hist, D(1, i, j, v))
       /\ IF <<i, v>> \in dealIn[j] THEN nre < MaxRe /\ nre' = nre + 1 ELSE UNCHANGED nre
  \/ \E i, j \in Nodes, v \in Vals :
       /\ DeliverResp(i, j, v) /\ hist' = Append(hist, D(2, i, j, v))
       /\ IF <<i, v>> \in respIn[j] THEN nre < MaxRe /\ nre' = nre + 1 ELSE UNCHANGED nre
  \/ \E i, j \in Nodes, v \in Vals :
       /\ DeliverShare(i, j, v) /\ hist' = Append(hist, D(4, i, j, v))
       /\ IF <<i, v>> \in shDel[j]
          THEN /\ nre < MaxRe /\ nre' = nre + 1
               /\ \/ phase[j] = "coll" /\ cur[j] = v /\ i \in seen[j]
                  \/ phase[j] = "done"
          ELSE UNCHANGED nre
GenNext == IF Stepper # {} THEN NodeStep(Min(Stepper)) /\ UNCHANGED <<hist, nre>> ELSE EnvNext
GenSpec == GenInit /\ [][GenNext]_<<vars, hist, nre>>
Emit == ~(AllDone /\ Quiet) \/ PrintT("@@SCHED@@" \o ToJson(hist))
====
