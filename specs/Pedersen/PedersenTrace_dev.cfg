SPECIFICATION TraceSpec
CONSTANTS Variant = "ok"
 ShareMode = "ascoded"
CONSTRAINT Mark
POSTCONDITION Report
CHECK_DEADLOCK FALSE
