SPECIFICATION MCSpec
CONSTANTS Variant = "countmsgs"
 ShareMode = "ascoded"
 MCP = 7
 MCN = 3
 MCTs = {2}
 MCVs = {1}
 PolyMode = "one"
 OrderMode = "eager"
 MaxDup = 1
INVARIANTS TypeOK NoFailure ThresholdIsT Agreement KeyedByShareIdx OwnShareMatches GroupKeyIsSum AnyTRecover AnyTSign BelowThresholdSafe
CHECK_DEADLOCK FALSE
