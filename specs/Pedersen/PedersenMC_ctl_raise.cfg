SPECIFICATION MCSpec
CONSTANTS Variant = "raise"
 ShareMode = "dedup"
 MCP = 7
 MCN = 4
 MCTs = {2}
 MCVs = {1}
 PolyMode = "few"
 OrderMode = "canon"
 MaxDup = 0
INVARIANTS TypeOK NoFailure Agreement KeyedByShareIdx OwnShareMatches GroupKeyIsSum AnyTRecover AnyTSign BelowThresholdSafe
CHECK_DEADLOCK TRUE
