SPECIFICATION GenSpec
CONSTANTS Variant = "ok"
 ShareMode = "dedup"
 GenP = 11
 MinN = 3
 MaxN = 6
 MaxV = 3
 MaxRe = 3
INVARIANTS Emit
CHECK_DEADLOCK FALSE
