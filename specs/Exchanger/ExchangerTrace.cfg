SPECIFICATION TraceSpec
CONSTANTS Variant = "ok"
CONSTRAINT Mark
POSTCONDITION Report
CHECK_DEADLOCK FALSE
