SPECIFICATION MCSpec
CONSTANTS Variant = "ok"
 MCN = 4
 MCV = 1
 MCByz = 0
 TypesId = "d"
 Sequential = TRUE
 Focus = {1}
 MaxActive = 2
 MaxDup = 0
 MaxForge = 0
 MaxHold = 0
 AllowExpire = FALSE
INVARIANTS TypeOK Exact Authentic ByzBound DbSenderBound DbGated NoBlock NoFailure Agreement
CHECK_DEADLOCK TRUE
