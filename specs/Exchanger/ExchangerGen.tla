---- MODULE ExchangerGen ----
(* Schedule generation: behaviours of the design spec recorded in the history variable `hist`: the cluster (n, V, the
   faulty peer) and the ENVIRONMENT's moves -- which node calls exchange for which sigType when (every node runs through
   the ceremony's sigTypes in order; one after the other as dkg.Run does, or without waiting for the previous result as
   TestExchanger does), which message the network delivers when (first deliveries in any order, re-deliveries), which
   connection is held / released, which message the faulty peer forges for whom, and whether the exchange timeout passes
   while calls are still waiting.  Goroutines run eagerly between two moves (the executor's quiescence barrier).
   What exchange returns is the implementation's business.  Run with -simulate. *)
EXTENDS Exchanger, Json
CONSTANTS MinN, MaxN, MaxV, MaxDup, MaxForge, MaxHold
VARIABLES hist, types, seqm, cnt, dlv, expAfter, expired, fin
gvars == <<vars, hist, types, seqm, cnt, dlv, expAfter, expired, fin>>
TypeMenu == {<<200, 102>>, <<200, 201>>, <<200, 201, 102>>, <<200, 102, 101>>, <<102, 101>>, <<201, 202, 101>>}
GenInit == /\ \E n \in MinN..MaxN, nv \in 1..MaxV : \E b \in {0} \cup 1..n : InitWith(n, nv, {101, 102, 200}, b)
           /\ types \in TypeMenu /\ (\E k \in 1..3 : seqm = (k # 3))
           /\ expAfter \in {8, 16, 1000, 1001, 1002, 1003, 1004, 1005}
           /\ cnt = [dup |-> 0, forge |-> 0, hold |-> 0] /\ dlv = {} /\ expired = FALSE /\ fin = FALSE
           /\ hist = <<[ev |-> "Cfg", n |-> par.n, V |-> par.nv, byz |-> par.byz, kind |-> "tlc"]>>
CallOK(i, k) == /\ ~Called(i, types[k])
                /\ IF k = 1 THEN TRUE ELSE IF seqm THEN Returned(i, types[k - 1]) ELSE Called(i, types[k - 1])
D(p) == [ev |-> "D", from |-> p.from, to |-> p.to, st |-> p.st]
Entries(set) == LET pks == SelectSeq([pk \in 1..(par.nv + 1) |-> pk], LAMBDA pk : pk \in DOMAIN set)
                IN [k \in DOMAIN pks |-> <<pks[k], set[pks[k]].idx, set[pks[k]].sig>>]
Waiting == {c \in Nodes \X AllSts : c[2] \in DOMAIN xt[c[1]] /\ xt[c[1]][c[2]].pc = "wait"}
\* the sigType the cluster is busy with: the first one somebody has not finished
Busy == LET open == {k \in DOMAIN types : \E i \in Nodes : ~Returned(i, types[k])} IN
        IF open = {} THEN types[Len(types)] ELSE types[Min(open)]
Other(st) == IF \E k \in DOMAIN types : types[k] # st THEN CHOOSE t \in {types[k] : k \in DOMAIN types} : t # st ELSE 101
G == UNCHANGED <<types, seqm, expAfter, fin>>
EnvNext ==
  \/ \E i \in Nodes, k \in DOMAIN types :
       /\ CallOK(i, k) /\ Call(i, types[k], HonestSet(i, types[k]))
       /\ hist' = Append(hist, [ev |-> "Call", i |-> i, st |-> types[k], var |-> 0]) /\ UNCHANGED <<cnt, dlv, expired>>
  \/ \E p \in net \ dlv : Deliver(p) /\ dlv' = dlv \cup {p} /\ hist' = Append(hist, D(p)) /\ UNCHANGED <<cnt, expired>>
  \/ \E p \in dlv : /\ cnt.dup < MaxDup /\ Deliver(p) /\ cnt' = [cnt EXCEPT !.dup = @ + 1]
                    /\ hist' = Append(hist, D(p)) /\ UNCHANGED <<dlv, expired>>
  \/ \E to \in Nodes \ {par.byz} : \E p \in ForgeMenu(to, Busy, Other(Busy)) :
       /\ par.byz # 0 /\ cnt.forge < MaxForge /\ Forge(p) /\ cnt' = [cnt EXCEPT !.forge = @ + 1]
       /\ hist' = Append(hist, [ev |-> "Forge", to |-> to, st |-> p.st, set |-> Entries(p.set)]) /\ UNCHANGED <<dlv, expired>>
  \/ \E i, k \in Nodes : /\ cnt.hold < MaxHold /\ Hold(i, k) /\ cnt' = [cnt EXCEPT !.hold = @ + 1]
                         /\ hist' = Append(hist, [ev |-> "Hold", from |-> i, to |-> k]) /\ UNCHANGED <<dlv, expired>>
  \/ \E c \in held : /\ Release(c[1], c[2]) /\ hist' = Append(hist, [ev |-> "Release", from |-> c[1], to |-> c[2]])
                     /\ UNCHANGED <<cnt, dlv, expired>>
  \/ /\ Len(hist) >= expAfter /\ held = {} /\ Waiting # {} /\ expired' = TRUE
     /\ hist' = Append(hist, [ev |-> "Expire"]) /\ UNCHANGED <<vars, cnt, dlv>>
AllDone == \A i \in Nodes, k \in DOMAIN types : Returned(i, types[k])
GenNext ==
  IF fin THEN FALSE
  ELSE IF ~Quiet THEN AutoStep /\ G /\ UNCHANGED <<hist, cnt, dlv, expired>>
  ELSE IF expired /\ Waiting # {} THEN (LET c == MinPair(Waiting) IN XExpire(c[1], c[2])) /\ G /\ UNCHANGED <<hist, cnt, dlv, expired>>
  ELSE IF expired \/ AllDone THEN fin' = TRUE /\ UNCHANGED <<vars, hist, types, seqm, cnt, dlv, expAfter, expired>>
  ELSE EnvNext /\ G
GenSpec == GenInit /\ [][GenNext]_gvars
Emit == ~fin \/ PrintT("@@SCHED@@" \o ToJson(hist))
====
