---- MODULE ExchangerMC ----
(* Exhaustive design check of one ceremony's exchanges.
   TypesId      the sigTypes every node calls exchange for, in this order ("d" <<200>>, "dd" <<200,201>>, "dr" <<200,102>>,
                "drl" <<200,102,101>>, "ddr" <<200,201,102>>)
   Sequential   TRUE: a node calls the next exchange when the previous one has returned (dkg.Run); FALSE: a node may have
                several exchanges running (TestExchanger)
   Focus        the nodes whose goroutines interleave freely, step by step (one step = one critical section / one send),
                with each other, with deliveries and with the other nodes; a goroutine of a node outside Focus runs on
                as far as it can before anything else happens (nodes only interact through messages, so for every other node
                a slow goroutine there and a late message are the same thing)
   MaxActive    bound on the stream handlers that run at the same time on a Focus node
   MaxDup       bound on re-deliveries (to Focus nodes); MaxForge on forged messages of the faulty peer MCByz (0: none); MaxHold on
                Hold moves; AllowExpire: the exchange timeout may fire at any time
   A completed ceremony stutters, so TLC's deadlock check reports exactly the runs that get stuck before every node has
   every result (CHECK_DEADLOCK TRUE where no timeout is allowed). *)
EXTENDS Exchanger
CONSTANTS MCN, MCV, MCByz, TypesId, Sequential, Focus, MaxActive, MaxDup, MaxForge, MaxHold, AllowExpire
VARIABLES dlv, cnt
mcvars == <<vars, dlv, cnt>>
Types == CASE TypesId = "d" -> <<200>> [] TypesId = "dd" -> <<200, 201>> [] TypesId = "dr" -> <<200, 102>>
           [] TypesId = "drl" -> <<200, 102, 101>> [] TypesId = "ddr" -> <<200, 201, 102>> [] OTHER -> <<101>>
Reg == {101, 102, 200}
MCInit == InitWith(MCN, MCV, Reg, MCByz) /\ dlv = {} /\ cnt = [dup |-> 0, forge |-> 0, hold |-> 0]

CallOK(i, k) == /\ ~Called(i, Types[k])
                /\ IF k = 1 THEN TRUE ELSE IF Sequential THEN Returned(i, Types[k - 1]) ELSE Called(i, Types[k - 1])
\* position of a sigType in the ceremony
Pos(st) == IF \E k \in DOMAIN Types : Types[k] = st THEN CHOOSE k \in DOMAIN Types : Types[k] = st ELSE 0
Before(p, q) == Pos(p.st) < Pos(q.st) \/ (Pos(p.st) = Pos(q.st) /\ p.from <= q.from)
\* first deliveries: free at a Focus node; at any other node in one canonical order per receiver (the order of arrival
\* at a node only matters to that node)
FirstOK(p) == \/ p.to \in Focus /\ Cardinality({h \in DOMAIN ht : ht[h].node = p.to}) < MaxActive
              \/ p.to \notin Focus /\ \A q \in net \ dlv : q.to = p.to => Before(p, q)
Env ==
  \/ \E i \in Nodes, k \in DOMAIN Types : CallOK(i, k) /\ Call(i, Types[k], HonestSet(i, Types[k])) /\ UNCHANGED <<dlv, cnt>>
  \/ \E p \in net \ dlv : FirstOK(p) /\ Deliver(p) /\ dlv' = dlv \cup {p} /\ UNCHANGED cnt
  \/ \E p \in dlv : p.to \in Focus /\ cnt.dup < MaxDup /\ Deliver(p) /\ cnt' = [cnt EXCEPT !.dup = @ + 1] /\ UNCHANGED dlv
  \/ \E to \in Focus \ {par.byz} : \E p \in ForgeMenu(to, Types[1], Types[Len(Types)]) :
        par.byz # 0 /\ cnt.forge < MaxForge /\ Forge(p) /\ cnt' = [cnt EXCEPT !.forge = @ + 1] /\ UNCHANGED dlv
  \/ \E i \in Focus, k \in Nodes : cnt.hold < MaxHold /\ Hold(i, k) /\ cnt' = [cnt EXCEPT !.hold = @ + 1] /\ UNCHANGED dlv
  \/ \E c \in held : Release(c[1], c[2]) /\ UNCHANGED <<dlv, cnt>>
  \/ AllowExpire /\ \E i \in Focus : \E st \in DOMAIN xt[i] : XExpire(i, st) /\ UNCHANGED <<dlv, cnt>>
\* a response that is ready is taken at once unless the timer may win the select
RetNow == {c \in XRunnable : xt[c[1]][c[2]].pc = "wait"}
FocusSteps == \/ \E i \in Focus : \E st \in DOMAIN xt[i] : XStep(i, st) /\ UNCHANGED <<dlv, cnt>>
              \/ \E h \in DOMAIN ht : ht[h].node \in Focus /\ HStep(h) /\ UNCHANGED <<dlv, cnt>>
HNF == {h \in DOMAIN ht : ht[h].node \notin Focus}
XNF == {c \in XRunnable : c[1] \notin Focus}
AllDone == \A i \in Nodes, k \in DOMAIN Types : Returned(i, Types[k])
Done == AllDone /\ Quiet /\ net \subseteq dlv /\ held = {}
MCNext == \/ IF ~AllowExpire /\ RetNow # {} THEN (LET c == MinPair(RetNow) IN XReturn(c[1], c[2])) /\ UNCHANGED <<dlv, cnt>>
             ELSE IF HNF # {} THEN HStepC(Min(HNF)) /\ UNCHANGED <<dlv, cnt>>
             ELSE IF XNF # {} THEN (LET c == MinPair(XNF) IN XStepC(c[1], c[2])) /\ UNCHANGED <<dlv, cnt>>
             ELSE Env \/ FocusSteps
          \/ (Done /\ UNCHANGED mcvars)
MCSpec == MCInit /\ [][MCNext]_mcvars
MCFair == MCSpec /\ WF_mcvars(MCNext)
\* every node obtains every result (no timeout allowed, every message eventually delivered: the runs end in Done)
Termination == <>[]Done
\* no timeout => nobody fails
NoFailure == AllowExpire \/ \A c \in Rets : res[c[1]][c[2]].err = ""
\* all honest nodes end up with the same partial signatures of the honest peers, per sigType and validator
Agreement == \A i, j \in Honest \cap Nodes : \A st \in DOMAIN res[i] \cap DOMAIN res[j] :
               (res[i][st].err = "" /\ res[j][st].err = "") =>
                 \A pk \in Pks : {s \in res[i][st].data[pk] : s.idx # par.byz} = {s \in res[j][st].data[pk] : s.idx # par.byz}
====
