SPECIFICATION GenSpec
CONSTANTS Variant = "ok"
 MinN = 3
 MaxN = 4
 MaxV = 2
 MaxDup = 3
 MaxForge = 3
 MaxHold = 2
INVARIANTS Emit
CHECK_DEADLOCK FALSE
