SPECIFICATION MCSpec
CONSTANTS Variant = "ok"
 MCN = 3
 MCV = 2
 MCByz = 3
 TypesId = "d"
 Sequential = TRUE
 Focus = {1}
 MaxActive = 2
 MaxDup = 0
 MaxForge = 1
 MaxHold = 0
 AllowExpire = FALSE
INVARIANTS TypeOK Exact Authentic ByzBound DbSenderBound DbGated NoBlock NoFailure Agreement
CHECK_DEADLOCK TRUE
