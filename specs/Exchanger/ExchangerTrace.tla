---- MODULE ExchangerTrace ----
(* Trace validation for the dkg exchanger (harness/exchanger).  One trace = one cluster.  The executor logs an event only
   when every goroutine of the cluster is blocked (testing/synctest), so the effects of a stimulus are complete:
     {"ev":"Reset","sid":k,"n":n,"V":nv,"byz":b,"reg":[sigTypes newExchanger was given]}
     {"ev":"Call","i":i,"st":st,"var":x, OBS}        node i entered exchange(st, {pk -> idx i, content <<i,st,pk,x>>})
     {"ev":"D","from":i,"to":k,"st":st,"found":b, OBS}   the network delivers i's message for st to k's stream handler
                                                     (first delivery or re-delivery); found = such a message was sent
     {"ev":"Forge","to":k,"st":st,"set":[[pk,idx,content]..],"admitted":b, OBS}
                                                     the faulty peer's message was handed to k's parsigex handler under
                                                     its transport identity; admitted = the handler returned nil
     {"ev":"Hold"|"Release","from":i,"to":k, OBS}    the connection i -> k stops / resumes accepting new streams
     {"ev":"Expire", OBS}                            the exchange timeout passes (virtual time)
     {"ev":"End","pending":[[i,st]..]}               the calls that have not returned
     OBS = "sent":[[from,to,st,[[pk,idx,content]..]]..]   the messages that appeared since the previous event (decoded)
           "rets":[[i,st,err,[[pk,[[idx,content]..]]..]]..]   the exchange calls that returned since the previous event:
                                                     err "" (data) | "timeout" | "ctx" | "other"
   Every logged event is bound to the design spec's environment action; the goroutine steps (Exchanger.tla: XStore, XPush,
   XSend, XRegister, XReturn, HStore, HPush) are silent and taken eagerly, in one canonical order, before the next event
   (between two events only the goroutines the stimulus started or woke run; steps on different nodes commute, a woken
   exchange goroutine only picks up its response).  At every quiescent point the spec DEMANDS that the messages that
   appeared and the calls that returned are exactly the model's, with the model's content; a returned value is first judged
   by the design spec's contract (ExactD, AuthenticD, ByzBoundD) so that the verdict names the broken rule. *)
EXTENDS Exchanger, TraceCommon
VARIABLES base, rbase, expired
tvars == <<vars, tr, l, base, rbase, expired>>
R == Trace[1]
TraceInit == TrInit /\ InitWith(R.n, R.V, SeqToSet(R.reg), R.byz) /\ base = {} /\ rbase = {} /\ expired = FALSE

Rel(name, pred) == IF pred THEN TRUE ELSE InvFail(name)
AsSet(es) == [pk \in {es[k][1] : k \in DOMAIN es} |->
                LET k == CHOOSE x \in DOMAIN es : es[x][1] = pk IN PSig(es[k][2], es[k][3])]
AsData(d) == [pk \in {d[k][1] : k \in DOMAIN d} |->
                LET k == CHOOSE x \in DOMAIN d : d[x][1] = pk IN {PSig(d[k][2][x][1], d[k][2][x][2]) : x \in DOMAIN d[k][2]}]
\* no validator listed twice, no entry listed twice
NoDup(d) == /\ Cardinality({d[k][1] : k \in DOMAIN d}) = Len(d)
            /\ \A k \in DOMAIN d : Cardinality({d[k][2][x] : x \in DOMAIN d[k][2]}) = Len(d[k][2])
AsPkts(s) == {Pkt(s[k][1], s[k][2], s[k][3], AsSet(s[k][4])) : k \in DOMAIN s}

Waiting == {c \in Nodes \X AllSts : c[2] \in DOMAIN xt[c[1]] /\ xt[c[1]][c[2]].pc = "wait"}
TQuiet == Quiet /\ (expired => Waiting = {})
TAuto == /\ ~TQuiet /\ Silent /\ UNCHANGED <<base, rbase, expired>>
         /\ IF ~Quiet THEN AutoStep ELSE LET c == MinPair(Waiting) IN XExpire(c[1], c[2])
Snap == base' = net /\ rbase' = Rets
TReset == IsEvent("Reset") /\ l = 1 /\ UNCHANGED <<vars, base, rbase, expired>>
TCall == /\ IsEvent("Call") /\ TQuiet /\ ~expired /\ Ev.i \in Nodes
         /\ Call(Ev.i, Ev.st, [pk \in Pks |-> PSig(Ev.i, Sig(Ev.i, Ev.st, pk, Ev.var))])
         /\ Snap /\ UNCHANGED expired
TD == /\ IsEvent("D") /\ TQuiet /\ ~expired
      /\ Rel("D.found", Ev.found)
      /\ LET ps == {p \in net : p.from = Ev.from /\ p.to = Ev.to /\ p.st = Ev.st} IN
         /\ Rel("D.sent", ps # {})
         /\ Deliver(CHOOSE p \in ps : TRUE)
      /\ Snap /\ UNCHANGED expired
TForge == /\ IsEvent("Forge") /\ TQuiet /\ ~expired
          /\ LET p == Pkt(par.byz, Ev.to, Ev.st, AsSet(Ev.set)) IN
             /\ Forge(p)
             /\ Rel("Forge.admitted", Ev.admitted = Admitted(p))
          /\ Snap /\ UNCHANGED expired
THold == IsEvent("Hold") /\ TQuiet /\ ~expired /\ Hold(Ev.from, Ev.to) /\ Snap /\ UNCHANGED expired
TRelease == IsEvent("Release") /\ TQuiet /\ ~expired /\ Release(Ev.from, Ev.to) /\ Snap /\ UNCHANGED expired
TExpire == IsEvent("Expire") /\ TQuiet /\ ~expired /\ held = {} /\ expired' = TRUE /\ UNCHANGED vars /\ Snap
Unreturned == {c \in Nodes \X AllSts : Called(c[1], c[2]) /\ ~Returned(c[1], c[2])}
TEnd == /\ IsEvent("End") /\ l = TLen /\ TQuiet /\ UNCHANGED <<vars, base, rbase, expired>>
        /\ Rel("End.pending", {<<Ev.pending[k][1], Ev.pending[k][2]>> : k \in DOMAIN Ev.pending} = Unreturned)
TraceNext == TReset \/ TAuto \/ TCall \/ TD \/ TForge \/ THold \/ TRelease \/ TExpire \/ TEnd
TraceSpec == TraceInit /\ [][TraceNext]_tvars

\* the observations of the last consumed event, demanded when the model has run to quiescence
Prev == Trace[l - 1]
ObsDue == l > 1 /\ Prev.ev \in {"Call", "D", "Forge", "Hold", "Release", "Expire"} /\ TQuiet
RetKeys(rs) == {<<rs[k][1], rs[k][2]>> : k \in DOMAIN rs}
Obs == ObsDue =>
  LET rs == Prev.rets  ok == {k \in DOMAIN rs : rs[k][3] = ""} IN
  /\ CheckInv("sent", AsPkts(Prev.sent) = net \ base /\ Len(Prev.sent) = Cardinality(net \ base)
                        /\ \A k \in DOMAIN Prev.sent : Len(Prev.sent[k]) = 4)
  /\ CheckInv("Exact", \A k \in ok : NoDup(rs[k][4]) /\ ExactD(rs[k][1], rs[k][2], AsData(rs[k][4])))
  /\ CheckInv("Authentic", \A k \in ok : AuthenticD(rs[k][1], rs[k][2], AsData(rs[k][4])))
  /\ CheckInv("ByzBound", \A k \in ok : ByzBoundD(rs[k][1], rs[k][2], AsData(rs[k][4])))
  /\ CheckInv("NoFailure", \A k \in DOMAIN rs : rs[k][3] \in {"", "timeout"} /\ (rs[k][3] = "timeout" => expired))
  /\ CheckInv("EarlyReturn", RetKeys(rs) \subseteq Rets \ rbase)          \* a call returned that the model still holds
  /\ CheckInv("MissingReturn", Rets \ rbase \subseteq RetKeys(rs))        \* the model's call returned, the real one hangs
  /\ CheckInv("RetValue", /\ Len(rs) = Cardinality(RetKeys(rs))
                          /\ \A k \in DOMAIN rs : res[rs[k][1]][rs[k][2]] = [err |-> rs[k][3], data |-> AsData(rs[k][4])])
Mark == /\ CheckInv("Safety", Safety)
        /\ Obs
        /\ (TQuiet => HWMark)       \* an event counts as consumed when its observations have been confirmed
====
