SPECIFICATION MCFair
CONSTANTS Variant = "ok"
 MCN = 3
 MCV = 1
 MCByz = 0
 TypesId = "dr"
 Sequential = TRUE
 Focus = {1}
 MaxActive = 2
 MaxDup = 0
 MaxForge = 0
 MaxHold = 1
 AllowExpire = FALSE
INVARIANTS TypeOK Exact Authentic ByzBound DbSenderBound DbGated NoBlock NoFailure Agreement
PROPERTIES Termination
CHECK_DEADLOCK TRUE
