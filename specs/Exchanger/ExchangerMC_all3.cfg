SPECIFICATION MCSpec
CONSTANTS Variant = "ok"
 MCN = 3
 MCV = 1
 MCByz = 0
 TypesId = "d"
 Sequential = TRUE
 Focus = {1, 2, 3}
 MaxActive = 3
 MaxDup = 0
 MaxForge = 0
 MaxHold = 0
 AllowExpire = FALSE
INVARIANTS TypeOK Exact Authentic ByzBound DbSenderBound DbGated NoBlock NoFailure Agreement
CHECK_DEADLOCK TRUE
