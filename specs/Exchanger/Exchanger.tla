---- MODULE Exchanger ----
(* dkg/exchanger.go (newExchanger, exchange, pushPsigs, resolveQueriesUnsafe, verifyPeerShareIdx, the duty gater), the
   parts of core/parsigdb/memory.go (StoreInternal, StoreExternal, store, getThresholdMatching for DutySignature) and of
   core/parsigex/parsigex.go (handle, Broadcast) it is wired to, as the key generation ceremony uses them
   (dkg.go signAndAggDepositData: one exchange per deposit amount, sigTypes 200, 201, ..; signAndAggValidatorRegistrations:
   102; signAndAggLockHash: 101 -- one after the other on every node, the nodes NOT in lock-step).

   A cluster of n nodes; node i IS share index i (peerMap: PeerIdx i-1, ShareIdx i).  nv validators (pubkeys 1..nv).
   A partial signature is [idx |-> share index, sig |-> <<signer, sigType, pubkey, variant>>] (the content stands for the
   signature bytes; an honest node j signs <<j, st, pk, 0>> under idx j).

   Per node:  db     parsigdb.MemDB.entries        <<sigType, pubkey>> -> set of partial signatures (one per share index)
              store  exchanger.sigData.store       sigType -> (pubkey -> the threshold set MemDB handed to pushPsigs)
              qs     exchanger.sigData.queries     the sigTypes with a pending exchangeQuery (expected = size of the call's set)
              resp   the buffered response channel of a query: sigType -> data
              xt     the goroutines inside exchange(): sigType -> [set, todo, out, pc, nxt]
                       pc  "store"  StoreInternal -> StoreExternal: loop over the set (Go map order), one MemDB.store
                                    critical section per validator; out collects the validators that reached threshold
                           "push"   the threshold subscriber pushPsigs (one critical section of sigData.lock:
                                    maps.Copy into store[sigType], resolveQueriesUnsafe)
                           "bcast"  the internal subscriber ParSigEx.Broadcast: one p2p.Send per peer, in peer order (nxt)
                           "reg"    the query is appended and resolveQueriesUnsafe runs (one critical section)
                           "wait"   select: response | timer | ctx
                           "done"   returned (res)
   ht: the libp2p stream handler goroutines (parsigex.handle -> StoreExternal -> pushPsigs), one per delivered message.
   net: every message ever sent by Broadcast (a message stays deliverable: the network may duplicate).

   Environment actions (what a schedule consists of):
     Call(i, st, set)     node i enters exchange(ctx, st, set)
     Deliver(p)           the network hands message p to its receiver's stream handler (any order, any number of times)
     Forge(p)             the faulty peer par.byz sends an arbitrary message p under its own transport identity
     Hold(i,k)/Release    the connection i -> k does not accept / accepts a new stream (p2p.Send blocks in NewStream)
     XExpire(i, st)       the exchange timeout of a waiting call fires

   Variant selects controls that MUST violate an invariant (ExchangerMC_ctl_*.cfg):
     "ok"         as coded
     "thr"        MemDB threshold len(peers)-1
     "nogate"     the duty gater lets every sigType through
     "noverify"   verifyPeerShareIdx accepts every share index
     "flatkey"    sigData.store keyed by pubkey only (not by sigType)
     "firstpk"    a query is resolved as soon as one validator of its sigType is complete
     "dropearly"  a message for a sigType the local node has not yet called exchange for is dropped
     "noresolve"  exchange does not resolve queries when it registers its own *)
EXTENDS Integers, FiniteSets, Sequences, TLC
CONSTANTS Variant

VARIABLES par,      \* [n, nv, reg, byz]: nodes, validators, registered sigTypes (set), faulty peer (0: none)
          db, store, qs, resp, xt, ht, net,
          forged,   \* history: the messages the faulty peer forged
          held,     \* set of <<from, to>>: connections that do not accept a new stream
          res       \* node -> (sigType -> [err, data]): what exchange returned
vars == <<par, db, store, qs, resp, xt, ht, net, forged, held, res>>

Nodes == 1..par.n
Pks == 1..par.nv
Honest == Nodes \ {par.byz}
DepositBase == 200                                                   \* sigDepositData

Get(f, k, d) == IF k \in DOMAIN f THEN f[k] ELSE d
Put(f, k, v) == (k :> v) @@ f
Without(f, k) == [x \in DOMAIN f \ {k} |-> f[x]]
Min(S) == CHOOSE m \in S : \A o \in S : m <= o

Sig(j, st, pk, var) == <<j, st, pk, var>>
PSig(idx, sig) == [idx |-> idx, sig |-> sig]
HonestSet(j, st) == [pk \in Pks |-> PSig(j, Sig(j, st, pk, 0))]
Pkt(from, to, st, set) == [from |-> from, to |-> to, st |-> st, set |-> set]

\* newExchanger: "threshold is len(peers) to wait until we get all the partial sigs from all the peers per DV"
Threshold == IF Variant = "thr" THEN par.n - 1 ELSE par.n
\* dutyGaterFunc (duty type DutySignature): a registered sigType, or any slot >= 200 when deposit data is registered
Gated(st) == \/ Variant = "nogate"
             \/ (DepositBase \in par.reg /\ st >= DepositBase)
             \/ st \in par.reg
\* verifyPeerShareIdx: "a peer may only contribute partial signatures under its own assigned share index"
VerifyIdx(from, ps) == Variant = "noverify" \/ (ps.idx > 0 /\ ps.idx = from)
\* parsigex.handle: gater, then every entry verified, before any subscriber runs
Admitted(p) == Gated(p.st) /\ DOMAIN p.set # {} /\ \A pk \in DOMAIN p.set : VerifyIdx(p.from, p.set[pk])

InitWith(n, nv, reg, byz) ==
  /\ par = [n |-> n, nv |-> nv, reg |-> reg, byz |-> byz]
  /\ db = [i \in 1..n |-> <<>>] /\ store = [i \in 1..n |-> <<>>] /\ qs = [i \in 1..n |-> {}]
  /\ resp = [i \in 1..n |-> <<>>] /\ xt = [i \in 1..n |-> <<>>] /\ res = [i \in 1..n |-> <<>>]
  /\ ht = <<>> /\ net = {} /\ forged = {} /\ held = {}

------------------------------------------------------------------------------------------------------------
(* MemDB.store + getThresholdMatching (DutySignature: "return sigs, len(sigs) == threshold") for one validator *)
StoreRes(dbi, key, ps) ==
  LET cur == Get(dbi, key, {})
  IN IF \E s \in cur : s.idx = ps.idx
     THEN [db |-> dbi, fire |-> FALSE, sigs |-> {}]        \* identical: "Ignoring duplicate"; different: "mismatching partial signed data"
     ELSE LET new == cur \cup {ps}
          IN [db |-> Put(dbi, key, new), fire |-> Cardinality(new) = Threshold, sigs |-> new]

(* pushPsigs / resolveQueriesUnsafe *)
SKey(st) == IF Variant = "flatkey" THEN 0 ELSE st
Merge(sti, st, out) == Put(sti, SKey(st), out @@ Get(sti, SKey(st), <<>>))          \* maps.Copy(store[sigType], set)
Exp(i, st) == Cardinality(DOMAIN xt[i][st].set)                                    \* expected: len(set)
Complete(data, exp) == IF Variant = "firstpk" THEN Cardinality(DOMAIN data) >= 1
                       ELSE Cardinality(DOMAIN data) = exp                         \* "len(data) != q.expected"
Ready(i, sti, q) == {st \in q : Complete(Get(sti, SKey(st), <<>>), Exp(i, st))}
\* the effect of one critical section of sigData.lock that ends with resolveQueriesUnsafe: new store sti, query set q
Locked(i, sti, q) ==
  LET R == Ready(i, sti, q) IN
  /\ store' = [store EXCEPT ![i] = sti]
  /\ resp' = [resp EXCEPT ![i] = [s \in R |-> sti[SKey(s)]] @@ @]                  \* "q.response <- ret": buffered, never blocks
  /\ qs' = [qs EXCEPT ![i] = q \ R]

Peers(i) == Nodes \ {i}
FirstPeer(i) == Min(Peers(i))
NextPeer(i, k) == IF \E j \in Peers(i) : j > k THEN Min({j \in Peers(i) : j > k}) ELSE 0

------------------------------------------------------------------------------------------------------------
(* exchange() *)
Call(i, st, set) ==
  /\ i \in Nodes /\ st \notin DOMAIN xt[i] /\ Gated(st)
  /\ DOMAIN set # {} /\ \A pk \in DOMAIN set : set[pk].idx = i
  /\ xt' = [xt EXCEPT ![i] = Put(@, st, [set |-> set, todo |-> DOMAIN set, out |-> <<>>, pc |-> "store", nxt |-> 0])]
  /\ UNCHANGED <<par, db, store, qs, resp, ht, net, forged, held, res>>

XAt(i, st, pc) == i \in Nodes /\ st \in DOMAIN xt[i] /\ xt[i][st].pc = pc

XStore(i, st, pk) ==
  /\ XAt(i, st, "store") /\ pk \in xt[i][st].todo
  /\ LET t == xt[i][st]
         r == StoreRes(db[i], <<st, pk>>, t.set[pk])
         out == IF r.fire THEN Put(t.out, pk, r.sigs) ELSE t.out
         todo == t.todo \ {pk}
         pc == IF todo # {} THEN "store" ELSE IF DOMAIN out # {} THEN "push" ELSE "bcast"
     IN /\ db' = [db EXCEPT ![i] = r.db]
        /\ xt' = [xt EXCEPT ![i][st] = [t EXCEPT !.todo = todo, !.out = out, !.pc = pc,
                                                  !.nxt = IF pc = "bcast" THEN FirstPeer(i) ELSE 0]]
  /\ UNCHANGED <<par, store, qs, resp, ht, net, forged, held, res>>

XPush(i, st) ==
  /\ XAt(i, st, "push")
  /\ Locked(i, IF Gated(st) THEN Merge(store[i], st, xt[i][st].out) ELSE store[i], qs[i])
  /\ xt' = [xt EXCEPT ![i][st].pc = "bcast", ![i][st].nxt = FirstPeer(i), ![i][st].out = <<>>]
  /\ UNCHANGED <<par, db, ht, net, forged, held, res>>

XSend(i, st) ==
  /\ XAt(i, st, "bcast")
  /\ LET t == xt[i][st]  k == t.nxt  nk == NextPeer(i, k) IN
     /\ <<i, k>> \notin held
     /\ net' = net \cup {Pkt(i, k, st, t.set)}
     /\ xt' = [xt EXCEPT ![i][st].nxt = nk, ![i][st].pc = IF nk = 0 THEN "reg" ELSE "bcast"]
  /\ UNCHANGED <<par, db, store, qs, resp, ht, forged, held, res>>

XRegister(i, st) ==
  /\ XAt(i, st, "reg")
  /\ IF Variant = "noresolve"
     THEN qs' = [qs EXCEPT ![i] = @ \cup {st}] /\ UNCHANGED <<store, resp>>
     ELSE Locked(i, store[i], qs[i] \cup {st})
  /\ xt' = [xt EXCEPT ![i][st].pc = "wait"]
  /\ UNCHANGED <<par, db, ht, net, forged, held, res>>

XReturn(i, st) ==
  /\ XAt(i, st, "wait") /\ st \in DOMAIN resp[i]
  /\ res' = [res EXCEPT ![i] = Put(@, st, [err |-> "", data |-> resp[i][st]])]
  /\ resp' = [resp EXCEPT ![i] = Without(@, st)]
  /\ xt' = [xt EXCEPT ![i][st].pc = "done"]
  /\ UNCHANGED <<par, db, store, qs, ht, net, forged, held>>

\* "timed out waiting for peer signatures"; the deferred close(cancel) makes resolveQueriesUnsafe drop the query
XExpire(i, st) ==
  /\ XAt(i, st, "wait")
  /\ res' = [res EXCEPT ![i] = Put(@, st, [err |-> "timeout", data |-> <<>>])]
  /\ qs' = [qs EXCEPT ![i] = @ \ {st}]
  /\ resp' = [resp EXCEPT ![i] = IF st \in DOMAIN @ THEN Without(@, st) ELSE @]
  /\ xt' = [xt EXCEPT ![i][st].pc = "done"]
  /\ UNCHANGED <<par, db, store, ht, net, forged, held>>

------------------------------------------------------------------------------------------------------------
(* the receive path *)
FreshH == Min((1..(Cardinality(DOMAIN ht) + 1)) \ DOMAIN ht)
Dropped(p) == Variant = "dropearly" /\ p.st \notin DOMAIN xt[p.to]
Handle(p) == IF Admitted(p) /\ ~Dropped(p)
             THEN ht' = Put(ht, FreshH, [node |-> p.to, st |-> p.st, set |-> p.set, todo |-> DOMAIN p.set, out |-> <<>>, pc |-> "store"])
             ELSE UNCHANGED ht
Deliver(p) ==
  /\ p \in net /\ Handle(p)
  /\ UNCHANGED <<par, db, store, qs, resp, xt, net, forged, held, res>>
Forge(p) ==
  /\ par.byz # 0 /\ p.from = par.byz /\ p.to \in Nodes \ {p.from}
  /\ forged' = forged \cup {p} /\ Handle(p)
  /\ UNCHANGED <<par, db, store, qs, resp, xt, net, held, res>>

HStore(h, pk) ==
  /\ h \in DOMAIN ht /\ ht[h].pc = "store" /\ pk \in ht[h].todo
  /\ LET t == ht[h]  j == t.node
         r == StoreRes(db[j], <<t.st, pk>>, t.set[pk])
         out == IF r.fire THEN Put(t.out, pk, r.sigs) ELSE t.out
         todo == t.todo \ {pk}
     IN /\ db' = [db EXCEPT ![j] = r.db]
        /\ ht' = IF todo = {} /\ DOMAIN out = {} THEN Without(ht, h)        \* "if len(output) == 0 { return firstErr }"
                 ELSE [ht EXCEPT ![h] = [t EXCEPT !.todo = todo, !.out = out, !.pc = IF todo = {} THEN "push" ELSE "store"]]
  /\ UNCHANGED <<par, store, qs, resp, xt, net, forged, held, res>>
HPush(h) ==
  /\ h \in DOMAIN ht /\ ht[h].pc = "push"
  /\ LET t == ht[h]  j == t.node IN
     Locked(j, IF Gated(t.st) THEN Merge(store[j], t.st, t.out) ELSE store[j], qs[j])
  /\ ht' = Without(ht, h)
  /\ UNCHANGED <<par, db, xt, net, forged, held, res>>

\* the faulty peer's repertoire towards node `to` while the ceremony exchanges sigType st (other: another sigType of the
\* ceremony); what parsigex.handle makes of each is Admitted
UnknownTypes == {0, 100, 103, 150, 199}
FutureType == 250
ForgeMenu(to, st, other) ==
  LET b == par.byz
      third == IF \E x \in Nodes : x # b /\ x # to THEN CHOOSE x \in Nodes : x # b /\ x # to ELSE to IN
  {Pkt(b, to, st, [pk \in {1} |-> PSig(to, Sig(b, st, 1, 1))]),              \* claims the receiver's share index
   Pkt(b, to, st, [pk \in {1} |-> PSig(third, Sig(b, st, 1, 1))]),           \* claims another peer's share index
   Pkt(b, to, st, [pk \in {1} |-> PSig(0, Sig(b, st, 1, 0))]),               \* share index 0
   Pkt(b, to, st, [pk \in Pks |-> PSig(IF pk = 1 THEN b ELSE third, Sig(b, st, pk, 0))]),   \* one entry of the set is not its own
   Pkt(b, to, st, [pk \in Pks |-> PSig(b, Sig(b, st, pk, 1))]),              \* a second, different signature (the first one wins)
   Pkt(b, to, st, [pk \in {1} |-> PSig(b, Sig(b, st, 1, 0))]),               \* its genuine entry for validator 1 only
   Pkt(b, to, st, [pk \in {par.nv} |-> PSig(b, Sig(b, st, par.nv, 0))]),     \* ... for the last validator only
   Pkt(b, to, st, [pk \in {par.nv + 1} |-> PSig(b, Sig(b, st, par.nv + 1, 0))]),   \* a validator outside the cluster
   Pkt(b, to, FutureType, HonestSet(b, FutureType)),                         \* a deposit sigType nobody will ask for
   Pkt(b, to, other, HonestSet(b, st))}                                      \* entries made for another sigType
  \cup {Pkt(b, to, u, HonestSet(b, u)) : u \in UnknownTypes}                  \* unregistered sigTypes

Hold(i, k) == /\ i \in Nodes /\ k \in Peers(i) /\ <<i, k>> \notin held /\ held' = held \cup {<<i, k>>}
              /\ UNCHANGED <<par, db, store, qs, resp, xt, ht, net, forged, res>>
Release(i, k) == /\ <<i, k>> \in held /\ held' = held \ {<<i, k>>}
                 /\ UNCHANGED <<par, db, store, qs, resp, xt, ht, net, forged, res>>

------------------------------------------------------------------------------------------------------------
(* goroutine steps that are enabled (the timer is the environment's) *)
XEnabled(i, st) == LET t == xt[i][st] IN
                   \/ t.pc \in {"store", "push", "reg"}
                   \/ t.pc = "bcast" /\ <<i, t.nxt>> \notin held
                   \/ t.pc = "wait" /\ st \in DOMAIN resp[i]
AllSts == UNION {DOMAIN xt[i] : i \in Nodes}
XRunnable == {c \in Nodes \X AllSts : c[2] \in DOMAIN xt[c[1]] /\ XEnabled(c[1], c[2])}
XStep(i, st) == \/ \E pk \in xt[i][st].todo : XStore(i, st, pk)
                \/ XPush(i, st) \/ XSend(i, st) \/ XRegister(i, st) \/ XReturn(i, st)
HStep(h) == (\E pk \in ht[h].todo : HStore(h, pk)) \/ HPush(h)
\* canonical variants (validators in ascending order): the order inside one StoreExternal call is not observable
XStepC(i, st) == \/ (XAt(i, st, "store") /\ XStore(i, st, Min(xt[i][st].todo)))
                 \/ XPush(i, st) \/ XSend(i, st) \/ XRegister(i, st) \/ XReturn(i, st)
HStepC(h) == (ht[h].pc = "store" /\ HStore(h, Min(ht[h].todo))) \/ HPush(h)
Quiet == DOMAIN ht = {} /\ XRunnable = {}
MinPair(S) == CHOOSE c \in S : \A o \in S : c[1] < o[1] \/ (c[1] = o[1] /\ c[2] <= o[2])
\* one canonical goroutine step: handlers first, then the exchange goroutines in (node, sigType) order
AutoStep == IF DOMAIN ht # {} THEN HStepC(Min(DOMAIN ht))
            ELSE LET c == MinPair(XRunnable) IN XStepC(c[1], c[2])

Next == \/ \E i \in Nodes, st \in par.reg \cup {DepositBase + 1} : Call(i, st, HonestSet(i, st))
        \/ \E i \in Nodes : \E st \in DOMAIN xt[i] : XStep(i, st) \/ XExpire(i, st)
        \/ \E p \in net : Deliver(p)
        \/ \E h \in DOMAIN ht : HStep(h)
        \/ \E i, k \in Nodes : Hold(i, k) \/ Release(i, k)
Spec == (\E n \in 2..3 : InitWith(n, 1, {101}, 0)) /\ [][Next]_vars

------------------------------------------------------------------------------------------------------------
(* The contract.  exchange: "exchanges partial signatures ... among dkg participants and returns all the partial
   signatures of the group according to public key of each DV"; newExchanger: "wait until we get all the partial sigs
   from all the peers per DV", "a peer may only contribute partial signatures under its own assigned share index". *)
Called(i, st) == st \in DOMAIN xt[i]
Returned(i, st) == st \in DOMAIN res[i]
Rets == {c \in Nodes \X UNION {DOMAIN res[i] : i \in Nodes} : Returned(c[1], c[2])}
\* judged on a returned value d of exchange(st) on node i, so that the trace spec can judge OBSERVED values too
ExactD(i, st, d) == /\ Called(i, st) /\ DOMAIN d = DOMAIN xt[i][st].set
                    /\ \A pk \in DOMAIN d : Cardinality(d[pk]) = par.n /\ {s.idx : s \in d[pk]} = Nodes
AuthenticD(i, st, d) == \A pk \in DOMAIN d : \A s \in d[pk] :
                          s.idx \in Honest \cap Nodes =>
                            /\ Called(s.idx, st) /\ pk \in DOMAIN xt[s.idx][st].set      \* that peer has submitted for THIS sigType
                            /\ xt[s.idx][st].set[pk] = s                                  \* and this is what it submitted
\* the faulty peer's entry is one it sent to this node for this sigType and validator
ByzBoundD(i, st, d) == \A pk \in DOMAIN d : \A s \in d[pk] :
                         (s.idx = par.byz /\ par.byz # 0 /\ i # par.byz) =>
                            \E p \in net \cup forged : /\ p.from = par.byz /\ p.to = i /\ p.st = st
                                                       /\ pk \in DOMAIN p.set /\ p.set[pk] = s
Exact == \A c \in Rets : res[c[1]][c[2]].err = "" => ExactD(c[1], c[2], res[c[1]][c[2]].data)
Authentic == \A c \in Rets : res[c[1]][c[2]].err = "" => AuthenticD(c[1], c[2], res[c[1]][c[2]].data)
ByzBound == \A c \in Rets : res[c[1]][c[2]].err = "" => ByzBoundD(c[1], c[2], res[c[1]][c[2]].data)
\* the database only ever holds a node's own submissions and entries received from the peer that owns the share index,
\* for a sigType the gater lets through
DbSenderBound == \A j \in Nodes : \A key \in DOMAIN db[j] : \A s \in db[j][key] :
                   \/ (s.idx = j /\ Called(j, key[1]) /\ key[2] \in DOMAIN xt[j][key[1]].set /\ xt[j][key[1]].set[key[2]] = s)
                   \/ \E p \in net \cup forged : /\ p.to = j /\ p.from = s.idx /\ p.st = key[1]
                                                 /\ key[2] \in DOMAIN p.set /\ p.set[key[2]] = s
DbGated == \A j \in Nodes : \A key \in DOMAIN db[j] :
             (DepositBase \in par.reg /\ key[1] >= DepositBase) \/ key[1] \in par.reg
\* a response is produced at most once per query and only consumed by its own call
NoBlock == \A i \in Nodes : DOMAIN resp[i] \cap qs[i] = {}
TypeOK == /\ \A i \in Nodes : /\ DOMAIN xt[i] \subseteq Nat /\ qs[i] \subseteq DOMAIN xt[i]
                              /\ DOMAIN resp[i] \subseteq DOMAIN xt[i] /\ DOMAIN res[i] \subseteq DOMAIN xt[i]
                              /\ \A st \in DOMAIN xt[i] : xt[i][st].pc \in {"store", "push", "bcast", "reg", "wait", "done"}
          /\ \A p \in net : p.from \in Nodes /\ p.to \in Nodes \ {p.from}
          /\ held \subseteq Nodes \X Nodes
Safety == TypeOK /\ Exact /\ Authentic /\ ByzBound /\ DbSenderBound /\ DbGated /\ NoBlock
====
