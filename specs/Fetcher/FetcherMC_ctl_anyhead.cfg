SPECIFICATION MCSpec
CONSTANTS
 Variant = "cache_any_head"
 StraddleOK = FALSE
 MCTypes = {"attester"}
 MCSlots = {1}
 MaxCalls = 2
 MaxReorgs = 0
 Toks = {1, 2}
 AttIdx = {2}
 WithCancel = FALSE
 MCConf <- ConfA
INVARIANTS RandaoBinding AttRootBinding SyncRootBinding AggOnlySelected SyncOnlySelected SubsExact NoResultUnresolved OnlyDefined AttesterComplete CacheSound CacheFresh NoLimbo
CHECK_DEADLOCK FALSE
