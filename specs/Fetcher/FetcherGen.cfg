SPECIFICATION GenSpec
CONSTANTS
 Variant = "coded"
 StraddleOK = TRUE
 GenLen = 30
INVARIANTS Emit
CONSTRAINT Stop
CHECK_DEADLOCK FALSE
