SPECIFICATION MCSpec
CONSTANTS
 Variant = "zero_randao"
 StraddleOK = FALSE
 MCTypes = {"proposer"}
 MCSlots = {1}
 MaxCalls = 1
 MaxReorgs = 0
 Toks = {1, 2}
 AttIdx = {2}
 WithCancel = FALSE
 MCConf <- ConfA
INVARIANTS RandaoBinding AttRootBinding SyncRootBinding AggOnlySelected SyncOnlySelected SubsExact NoResultUnresolved OnlyDefined AttesterComplete CacheSound CacheFresh NoLimbo
CHECK_DEADLOCK FALSE
