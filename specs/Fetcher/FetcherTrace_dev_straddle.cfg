SPECIFICATION TraceSpec
CONSTANTS
 Variant = "coded"
 StraddleOK = TRUE
CONSTRAINT Mark
POSTCONDITION Report
CHECK_DEADLOCK FALSE
