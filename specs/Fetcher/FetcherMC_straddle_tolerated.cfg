SPECIFICATION MCSpec
CONSTANTS
 Variant = "coded"
 StraddleOK = TRUE
 AllowStraddle = TRUE
 MCTypes = {"attester"}
 MCSlots = {1}
 MaxCalls = 2
 MaxReorgs = 1
 Toks = {1, 2}
 MCConf <- ConfA
INVARIANTS RandaoBinding AttRootBinding SyncRootBinding AggOnlySelected SyncOnlySelected SubsExact NoResultUnresolved OnlyDefined AttesterComplete CacheSound NoLimbo
CHECK_DEADLOCK FALSE
