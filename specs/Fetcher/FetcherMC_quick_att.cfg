SPECIFICATION MCSpec
CONSTANTS
 Variant = "coded"
 StraddleOK = FALSE
 AllowStraddle = FALSE
 MCTypes = {"attester"}
 MCSlots = {1, 2}
 MaxCalls = 3
 MaxReorgs = 1
 Toks = {1, 2}
 MCConf <- ConfA
INVARIANTS RandaoBinding AttRootBinding SyncRootBinding AggOnlySelected SyncOnlySelected SubsExact NoResultUnresolved OnlyDefined AttesterComplete CacheSound NoLimbo
CHECK_DEADLOCK FALSE
