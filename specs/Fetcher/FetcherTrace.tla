---- MODULE FetcherTrace ----
(* Trace validation for core/fetcher (executor: harness/fetcher, every schedule inside a testing/synctest bubble; an event is
   logged after synctest.Wait(), i.e. when every call is durably blocked in a gate or has returned).
     {"ev":"Reset","sid":..,<configuration>}
     {"ev":"Fetch","c":id,"duty":{slot,type},"defs":{pk:{vidx,cidx,clen,idxs}},"st":S,"del":[D]}
     {"ev":"FetchOnly","c":id,"duty":..,"defs":..,"addr":a,"head":k,"st":S,"del":[D]}
     {"ev":"Release","c":id,"ans":{"a":"val","tok":k,"flag":b}|{"a":"nil"}|{"a":"err","kind":e},"st":S,"del":[D]}
     {"ev":"Cancel","c":id,"how":"cancel","st":S,"del":[D]}
     {"ev":"Reorg","del":[]}        {"ev":"Noop","c":id,"del":[]}   (a Release/Cancel for a call that was not waiting)
   S = {"status":"blocked","req":R} | {"status":"done","result":"ok"|"err","ekind":kind}: where call c is now.
   D = {"c":id,"sub":i,"duty":..,"set":[per-validator records]}: what subscriber i received (in invocation order).
   The implementation's choice of the next definition is bound by the logged next request (Pick); everything else is
   compared in the CONSTRAINT so that the verdict names what differs. *)
EXTENDS Fetcher, TraceCommon
VARIABLE seen
tvars == <<vars, seen, tr, l>>
NoSeen == [c |-> 0, st |-> [status |-> "none"], del |-> <<>>, n0 |-> 0]
TraceInit == /\ Init /\ TrInit /\ seen = NoSeen
             /\ conf = [electra |-> 0, only0 |-> FALSE, builder |-> FALSE, nsubs |-> 0, suberr |-> 0, v2 |-> "unreg", gmode |-> "nil",
                        gbase |-> <<>>, gappend |-> FALSE, gprod |-> "", gdef |-> "", gpks |-> {}]
TReset == /\ IsEvent("Reset") /\ l = 1
          /\ conf' = [electra |-> Ev.electra, only0 |-> Ev.only0, builder |-> Ev.builder, nsubs |-> Ev.nsubs, suberr |-> Ev.suberr,
                      v2 |-> Ev.v2, gmode |-> Ev.gmode, gbase |-> Ev.gbase, gappend |-> Ev.gappend, gprod |-> Ev.gprod,
                      gdef |-> Ev.gdef, gpks |-> SeqToSet(Ev.gpks)]
          /\ seen' = NoSeen
          /\ UNCHANGED <<calls, cache, reorgs, delivered, xlog>>
\* a continuation agrees with the logged state of the call
Agrees(nc) == IF Ev.st.status = "blocked" THEN nc.status = "blocked" /\ nc.req = Ev.st.req
              ELSE nc.status # "blocked"
See == seen' = [c |-> Ev.c, st |-> Ev.st, del |-> Ev.del, n0 |-> Len(delivered)]
TFetch == IsEvent("Fetch") /\ StartFetchF(Ev.c, Ev.duty, Ev.defs, Agrees) /\ See
TOnly == IsEvent("FetchOnly") /\ StartOnlyF(Ev.c, Ev.duty, Ev.defs, Ev.addr, Ev.head, Agrees) /\ See
TRelease == IsEvent("Release") /\ ReleaseF(Ev.c, Ev.ans, Agrees) /\ See
TCancel == IsEvent("Cancel") /\ ReleaseF(Ev.c, ErrAns(Ev.how), Agrees) /\ See
TReorg == IsEvent("Reorg") /\ Reorg /\ seen' = [NoSeen EXCEPT !.del = Ev.del, !.n0 = Len(delivered)]
TNoop == /\ IsEvent("Noop") /\ UNCHANGED vars
         /\ seen' = [c |-> Ev.c, st |-> [status |-> "notwaiting"], del |-> Ev.del, n0 |-> Len(delivered)]
TraceNext == TReset \/ TFetch \/ TOnly \/ TRelease \/ TCancel \/ TReorg \/ TNoop
TraceSpec == TraceInit /\ [][TraceNext]_tvars

NewDel == SubSeq(delivered, seen.n0 + 1, Len(delivered))
SeenDel == [i \in DOMAIN seen.del |-> [c |-> seen.del[i].c, sub |-> seen.del[i].sub, duty |-> seen.del[i].duty,
                                        set |-> SeqToSet(seen.del[i].set)]]
Cl == calls[seen.c]
StatusOK == CASE seen.st.status = "none" -> TRUE
              [] seen.st.status = "notwaiting" -> ~Blocked(seen.c)
              [] seen.st.status = "blocked" -> seen.c \in DOMAIN calls /\ Cl.status = "blocked"
              [] seen.st.status = "done" -> seen.c \in DOMAIN calls /\ Cl.status = "done"
              [] OTHER -> FALSE
Mark == /\ CheckInv("BlocksOrReturnsPerContract", StatusOK)
        /\ CheckInv("NextDependencyPerContract", seen.st.status = "blocked" => Cl.req = seen.st.req)
        /\ CheckInv("ResultAndErrorKind", seen.st.status = "done" => (Cl.result = seen.st.result /\ Cl.ekind = seen.st.ekind))
        /\ CheckInv("SubscribersReceiveFetchedSet", SeenDel = NewDel)
        /\ CheckInv("CacheSound", CacheSound) /\ CheckInv("CacheFresh", StraddleOK \/ CacheFresh)
        /\ CheckInv("RandaoBinding", RandaoBinding) /\ CheckInv("AttRootBinding", AttRootBinding)
        /\ CheckInv("SyncRootBinding", SyncRootBinding) /\ CheckInv("AggOnlySelected", AggOnlySelected)
        /\ CheckInv("SyncOnlySelected", SyncOnlySelected) /\ CheckInv("SubsExact", SubsExact)
        /\ CheckInv("NoResultUnresolved", NoResultUnresolved) /\ CheckInv("OnlyDefined", OnlyDefined)
        /\ CheckInv("AttesterComplete", AttesterComplete)
        /\ HWMark
====
