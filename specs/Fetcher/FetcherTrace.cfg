SPECIFICATION TraceSpec
CONSTANTS
 Variant = "coded"
 StraddleOK = FALSE
CONSTRAINT Mark
POSTCONDITION Report
CHECK_DEADLOCK FALSE
