SPECIFICATION MCSpec
CONSTANTS
 Variant = "coded"
 StraddleOK = FALSE
 MCTypes = {"proposer"}
 MCSlots = {1}
 MaxCalls = 2
 MaxReorgs = 0
 Toks = {1, 2}
 AttIdx = {2}
 WithCancel = FALSE
 MCConf <- ConfB
INVARIANTS RandaoBinding AttRootBinding SyncRootBinding AggOnlySelected SyncOnlySelected SubsExact NoResultUnresolved OnlyDefined AttesterComplete CacheSound CacheFresh NoLimbo
CHECK_DEADLOCK FALSE
