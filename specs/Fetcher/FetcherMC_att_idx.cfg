SPECIFICATION MCSpec
CONSTANTS
 Variant = "coded"
 StraddleOK = FALSE
 MCTypes = {"attester"}
 MCSlots = {1, 2}
 MaxCalls = 2
 MaxReorgs = 1
 Toks = {1, 2}
 AttIdx = {1, 2}
 WithCancel = TRUE
 MCConf <- ConfB
INVARIANTS RandaoBinding AttRootBinding SyncRootBinding AggOnlySelected SyncOnlySelected SubsExact NoResultUnresolved OnlyDefined AttesterComplete CacheSound CacheFresh NoLimbo
CHECK_DEADLOCK FALSE
