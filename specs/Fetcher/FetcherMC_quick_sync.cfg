SPECIFICATION MCSpec
CONSTANTS
 Variant = "coded"
 StraddleOK = FALSE
 MCTypes = {"sync_contribution"}
 MCSlots = {1}
 MaxCalls = 1
 MaxReorgs = 0
 Toks = {1, 2}
 AttIdx = {2}
 WithCancel = TRUE
 MCConf <- ConfA
INVARIANTS RandaoBinding AttRootBinding SyncRootBinding AggOnlySelected SyncOnlySelected SubsExact NoResultUnresolved OnlyDefined AttesterComplete CacheSound CacheFresh NoLimbo
CHECK_DEADLOCK FALSE
