---- MODULE FetcherGen ----
(* Schedule generation (TLC -simulate).  Recorded are the environment's moves: the configuration, the calls of Fetch /
   FetchOnly with their arguments, the answers to whatever request is pending (the answer record is generic: it carries a
   token and a flag and is interpreted by the request it meets, because the implementation may visit the definitions in
   another order than the simulated behaviour), cancellations and reorgs. *)
EXTENDS Fetcher, Json
CONSTANTS GenLen
VARIABLE hist
gvars == <<vars, hist>>
D(v, ci, cl, ix) == [vidx |-> v, cidx |-> ci, clen |-> cl, idxs |-> ix]
Types == {"attester", "attester", "proposer", "aggregator", "sync_contribution", "randao", "builder_proposer"}
DefSets(t) ==
  CASE t = "attester" -> {[p \in {"a"} |-> D(1, 1, 64, <<>>)]}
                         \cup {[p \in {"a", "b"} |-> IF p = "a" THEN D(1, 1, 64, <<>>) ELSE D(2, ci, 64, <<>>)] : ci \in {1, 2}}
                         \cup {[p \in {"a", "b", "c"} |-> IF p = "a" THEN D(1, 1, 64, <<>>) ELSE IF p = "b" THEN D(2, 2, 64, <<>>) ELSE D(3, 1, 64, <<>>)]}
    [] t = "aggregator" -> {[p \in {"a", "b"} |-> IF p = "a" THEN D(1, 1, cl, <<>>) ELSE D(2, ci, 64, <<>>)] : ci \in {1, 2}, cl \in {16, 64}}
                           \cup {[p \in {"a", "b", "c"} |-> IF p = "a" THEN D(1, 1, 64, <<>>) ELSE IF p = "b" THEN D(2, 2, 48, <<>>) ELSE D(3, 1, 16, <<>>)]}
    [] t = "sync_contribution" -> {[p \in {"a", "b"} |-> IF p = "a" THEN D(1, 0, 0, ia) ELSE D(2, 0, 0, ib)] :
                                      ia \in {<<5, 130>>, <<130, 5, 6>>, <<300>>}, ib \in {<<>>, <<7>>, <<140, 400>>}}
    [] OTHER -> {[p \in {"a"} |-> D(1, 0, 0, <<>>)], [p \in {"a", "b"} |-> IF p = "a" THEN D(1, 0, 0, <<>>) ELSE D(2, 0, 0, <<>>)],
                 [p \in {"a", "b", "c"} |-> D(1, 0, 0, <<>>)]}
Confs == {[electra |-> e, only0 |-> o, builder |-> b, nsubs |-> n, suberr |-> se, v2 |-> v, gmode |-> gm,
           gbase |-> [a |-> "ga", b |-> "gb", c |-> "gc"], gappend |-> ap, gprod |-> pr, gdef |-> "", gpks |-> gp] :
            e \in {0, 2}, o \in BOOLEAN, b \in BOOLEAN, n \in {1, 2, 3}, se \in {0, 0, 1, 2}, v \in {"unreg", "yes", "no"},
            gm \in {"nil", "single", "multi"}, ap \in BOOLEAN, pr \in {"Lighthouse", "teku", "Other", ""}, gp \in {{"a"}, {"a", "b"}}}
NextId == Cardinality(DOMAIN calls) + 1
AnswerBag == {Val(k, f) : k \in 1..3, f \in BOOLEAN} \cup {Val(1, TRUE), Val(2, TRUE), Val(1, FALSE)}
             \cup {ErrAns("bn"), ErrAns("other"), NilAns}
GenInit == /\ Init
           /\ conf \in {RandomElement(Confs)}
           /\ hist = <<[ev |-> "Config", electra |-> conf.electra, only0 |-> conf.only0, builder |-> conf.builder, nsubs |-> conf.nsubs,
                        suberr |-> conf.suberr, v2 |-> conf.v2, gmode |-> conf.gmode, gbase |-> conf.gbase, gappend |-> conf.gappend,
                        gprod |-> conf.gprod, gpks |-> SetToSeq(conf.gpks)]>>
GenNext ==
  \/ \E t \in {RandomElement(Types)} : \E s \in {RandomElement(1..3)} : \E defs \in {RandomElement(DefSets(t))} :
        /\ NextId <= 3
        /\ StartFetch(NextId, [slot |-> s, type |-> t], defs)
        /\ hist' = Append(hist, [ev |-> "Fetch", c |-> NextId, duty |-> [slot |-> s, type |-> t], defs |-> defs])
  \/ \E s \in {RandomElement(1..3)} : \E defs \in {RandomElement(DefSets("attester"))} : \E h \in {RandomElement({1, 1, 2})} :
        /\ NextId <= 3
        /\ StartOnly(NextId, [slot |-> s, type |-> "attester"], defs, "bn1", h)
        /\ hist' = Append(hist, [ev |-> "FetchOnly", c |-> NextId, duty |-> [slot |-> s, type |-> "attester"], defs |-> defs,
                                 addr |-> "bn1", head |-> h])
  \/ \E c \in DOMAIN calls : \E w \in 1..4 : \E ans \in {RandomElement(AnswerBag)} :
        /\ Blocked(c) /\ (ans.a = "nil" => calls[c].req.r \in {"bn_att", "bn_agg", "bn_con"})
        /\ Release(c, ans)
        /\ hist' = Append(hist, [ev |-> "Release", c |-> c, ans |-> ans])
  \/ \E c \in DOMAIN calls : /\ Blocked(c) /\ RandomElement(1..4) = 1 /\ Cancel(c, "cancel")
                             /\ hist' = Append(hist, [ev |-> "Cancel", c |-> c])
  \/ (reorgs < 2 /\ RandomElement(1..3) = 1 /\ Reorg /\ hist' = Append(hist, [ev |-> "Reorg"]))
GenSpec == GenInit /\ [][GenNext]_gvars
Quiet == \A c \in DOMAIN calls : calls[c].status = "done"
Emit == ~(Len(hist) >= GenLen \/ (NextId > 3 /\ Quiet)) \/ PrintT("@@SCHED@@" \o ToJson(hist))
Stop == Len(hist) <= GenLen
====
