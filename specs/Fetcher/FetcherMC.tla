---- MODULE FetcherMC ----
(* Exhaustive design check: up to MaxCalls calls of Fetch / FetchOnly (concurrently: a call may start while another is
   blocked), every dependency answered with a value (either token, selected or not), nothing (beacon node returned no data), an
   error, or cut short by the caller's context; chain reorgs in between. *)
EXTENDS Fetcher
CONSTANTS MCTypes, MCSlots, MaxCalls, MaxReorgs, Toks, MCConf,
          WithCancel, AttIdx           \* committee indices of the second attester
MCInit == Init /\ conf = MCConf
D(v, ci, cl, ix) == [vidx |-> v, cidx |-> ci, clen |-> cl, idxs |-> ix]
DefSets(t) ==
  CASE t = "attester" -> {Empty, [p \in {"a"} |-> D(1, 1, 64, <<>>)]}
                         \cup {[p \in {"a", "b"} |-> IF p = "a" THEN D(1, 1, 64, <<>>) ELSE D(2, ci, 64, <<>>)] : ci \in AttIdx}
    [] t = "aggregator" -> {[p \in {"a", "b"} |-> IF p = "a" THEN D(1, 1, 64, <<>>) ELSE D(2, ci, cl, <<>>)] : ci \in {1, 2}, cl \in {16, 64}}
    [] t = "sync_contribution" -> {[p \in {"a", "b"} |-> IF p = "a" THEN D(1, 0, 0, <<5, 130>>) ELSE D(2, 0, 0, ix)] : ix \in {<<>>, <<7>>}}
    [] OTHER -> {[p \in {"a"} |-> D(1, 0, 0, <<>>)], [p \in {"a", "b"} |-> D(1, 0, 0, <<>>)]}
NextId == Cardinality(DOMAIN calls) + 1
Answers(req) ==
  LET flags == IF req.r = "bn_prop" \/ (req.r = "aggsigdb" /\ req.dtype \in {"prepare_aggregator", "prepare_sync_contribution"})
               THEN BOOLEAN ELSE {FALSE}
  IN {Val(k, f) : k \in Toks, f \in flags} \cup {ErrAns("bn")}
     \cup (IF req.r \in {"bn_att", "bn_agg", "bn_con"} THEN {NilAns} ELSE {})
MCNext ==
  \/ \E t \in MCTypes : \E s \in MCSlots : \E defs \in DefSets(t) : NextId <= MaxCalls /\ StartFetch(NextId, [slot |-> s, type |-> t], defs)
  \/ \E s \in MCSlots : \E defs \in DefSets("attester") : \E h \in Toks :
        "attester" \in MCTypes /\ NextId <= MaxCalls /\ StartOnly(NextId, [slot |-> s, type |-> "attester"], defs, "bn1", h)
  \/ \E c \in DOMAIN calls : Blocked(c) /\ \E ans \in Answers(calls[c].req) : Release(c, ans)
  \/ \E c \in DOMAIN calls : Blocked(c) /\ WithCancel /\ Cancel(c, "cancel")
  \/ (reorgs < MaxReorgs /\ Reorg)
MCSpec == MCInit /\ [][MCNext]_vars
Conf(nsubs, suberr, v2, only0) ==
  [electra |-> 2, only0 |-> only0, builder |-> TRUE, nsubs |-> nsubs, suberr |-> suberr, v2 |-> v2, gmode |-> "single",
   gbase |-> [p \in {"a", "b"} |-> "g"], gappend |-> TRUE, gprod |-> "Lighthouse", gdef |-> "charon", gpks |-> {"a"}]
ConfA == Conf(2, 0, "yes", TRUE)
ConfB == Conf(2, 1, "no", FALSE)
\* every call ends: it is never stuck without a pending request
NoLimbo == \A c \in DOMAIN calls : calls[c].status \in {"blocked", "done"} /\ (calls[c].status = "blocked" <=> calls[c].req # NoReq)
====
