---- MODULE Fetcher ----
(* core/fetcher/fetcher.go (+ graffiti.go): Fetch / FetchOnly / HandleChainReorg.

   A call of Fetch runs on the caller's goroutine and BLOCKS at each dependency on another component:
     aggsigdb   the registered AggSigDB await (RegisterAggSigDB): aggregated randao (proposer), beacon-committee selection of
                the prepare-aggregator duty (aggregator), sync-committee selection and sync message (sync contribution)
     attdata    the registered DutyDB await (RegisterAwaitAttData): attestation data of the committee (aggregator)
     bn_*       the beacon node: attestation data, block proposal, aggregate attestation, sync contribution
   One action per blocking point: Release(c, answer) hands the pending request of call c its answer and runs the call to its
   NEXT blocking point (or to its end).  The definitions of a set are visited in Go map order: which one is next is a
   nondeterministic choice that the next request reveals.  Cancel(c) is the caller's context ending while the call is
   blocked (every dependency returns the context's error).

   Tokens: values handed out by the environment carry a token (small integer) that is visible wherever the value flows
   (the randao in a proposal request, the attestation data root in an aggregate request, the block root in a contribution
   request, the data delivered to the subscribers).

   Variant = "coded" is the transcription; other values are defects for the control configurations. *)
EXTENDS Integers, Sequences, FiniteSets, TLC, SequencesExt

CONSTANTS Variant,
          StraddleOK   \* what FetchOnly does with data whose fetch straddled a chain reorg:
                       \* FALSE: not cached (the documented purpose of HandleChainReorg: after a reorg consensus re-fetches)
                       \* TRUE:  cached all the same (the pinned tree: the reorg only clears what is already in the cache)

VARIABLES conf,       \* [electra, only0, builder, nsubs, suberr, v2, gmode, gbase, gappend, gprod, gdef, gpks]
          calls,      \* call id -> call record
          cache,      \* attDataCache: slot -> [set, gen, by]
          reorgs,     \* number of chain reorgs so far (ghost: generation of the cache)
          delivered,  \* history: subscriber invocations [c, sub, duty, set]
          xlog        \* history: answered requests [c, req, ans, pk]
vars == <<conf, calls, cache, reorgs, delivered, xlog>>

NoReq == [r |-> "none"]
ReqAggSig(dtype, slot, pk, sub) == [r |-> "aggsigdb", dtype |-> dtype, slot |-> slot, pk |-> pk, sub |-> sub]
ReqAttData(slot, cidx) == [r |-> "attdata", slot |-> slot, cidx |-> cidx]
ReqBNAtt(slot, cidx, addr) == [r |-> "bn_att", slot |-> slot, cidx |-> cidx, addr |-> addr]
ReqBNProp(slot, randao, graffiti, maxboost) == [r |-> "bn_prop", slot |-> slot, randao |-> randao, graffiti |-> graffiti, maxboost |-> maxboost]
ReqBNAgg(slot, root, cidx) == [r |-> "bn_agg", slot |-> slot, root |-> root, cidx |-> cidx]
ReqBNCon(slot, sub, root) == [r |-> "bn_con", slot |-> slot, sub |-> sub, root |-> root]

Val(tok, flag) == [a |-> "val", tok |-> tok, flag |-> flag]
NilAns == [a |-> "nil"]
ErrAns(kind) == [a |-> "err", kind |-> kind]

Empty == <<>>
Put(f, k, v) == [x \in DOMAIN f \cup {k} |-> IF x = k THEN v ELSE f[x]]

---------------------------------------------------------------------------------------------------
(* graffiti.go *)
ProdToken(p) == CASE p = "teku" -> "TK" [] p = "Lighthouse" -> "LH" [] p = "Lodestar" -> "LS" [] p = "Prysm" -> "PY"
                  [] p = "Nimbus" -> "NB" [] p = "Grandine" -> "GD" [] OTHER -> ""
Graffiti(pk) == IF conf.gmode = "nil" \/ pk \notin conf.gpks THEN conf.gdef
                ELSE IF conf.gappend THEN conf.gbase[pk] \o "OB" \o ProdToken(conf.gprod) ELSE conf.gbase[pk]

---------------------------------------------------------------------------------------------------
Supported == {"proposer", "attester", "aggregator", "sync_contribution"}
NoopTypes == {"aggregator", "sync_contribution"}
V2 == conf.v2 = "yes"
SubcommSize == 128                       \* SYNC_COMMITTEE_SIZE / SYNC_COMMITTEE_SUBNET_COUNT of the beacon node's spec
EffIdx(slot, def) == IF slot >= conf.electra /\ conf.only0 THEN 0 ELSE def.cidx
IsAgg(def, flag) == IF Variant = "no_agg_check" THEN TRUE ELSE (def.clen < 32 \/ flag)      \* modulo = max(1, len / 16)
SubsOf(def) == {def.idxs[i] \div SubcommSize : i \in DOMAIN def.idxs}
SortedSubs(def) == SortSeq(SetToSeq(SubsOf(def)), LAMBDA a, b : a < b)

NoUnit == [u |-> "", stage |-> "", subq |-> <<>>, contribs |-> <<>>, tok |-> 0]
Units(kind, duty, defs) ==
  CASE duty.type = "attester" -> {EffIdx(duty.slot, defs[pk]) : pk \in DOMAIN defs}
    [] duty.type = "sync_contribution" -> {pk \in DOMAIN defs : SubsOf(defs[pk]) # {}}
    [] OTHER -> DOMAIN defs

Fail(cl, kind) == [cl EXCEPT !.status = "done", !.result = "err", !.ekind = kind, !.req = NoReq, !.unit = NoUnit]

StartUnit(cl, u) ==
  LET s == cl.duty.slot t == cl.duty.type IN
  CASE t = "attester" -> [cl EXCEPT !.unit = [NoUnit EXCEPT !.u = u, !.stage = "att"], !.req = ReqBNAtt(s, u, cl.addr)]
    [] t = "proposer" -> [cl EXCEPT !.unit = [NoUnit EXCEPT !.u = u, !.stage = "randao"], !.req = ReqAggSig("randao", s, u, 0)]
    [] t = "aggregator" -> [cl EXCEPT !.unit = [NoUnit EXCEPT !.u = u, !.stage = "sel"], !.req = ReqAggSig("prepare_aggregator", s, u, 0)]
    [] OTHER -> LET q == SortedSubs(cl.defs[u]) IN
                [cl EXCEPT !.unit = [NoUnit EXCEPT !.u = u, !.stage = "sel", !.subq = q],
                           !.req = ReqAggSig("prepare_sync_contribution", s, u, Head(q))]
\* the unit is finished: another definition (in Go map order: any) or the end of the loop
NextUnit(cl) == IF cl.todo = {} THEN {[cl EXCEPT !.status = "finishing", !.req = NoReq, !.unit = NoUnit]}
                ELSE {StartUnit([cl EXCEPT !.todo = @ \ {u}], u) : u \in cl.todo}

FinishPk(cl) ==
  IF cl.unit.contribs = <<>> THEN NextUnit(cl)
  ELSE NextUnit([cl EXCEPT !.resp = Put(@, cl.unit.u, [plural |-> V2, list |-> IF V2 THEN cl.unit.contribs ELSE <<cl.unit.contribs[1]>>])])
NextSub(cl) ==
  IF cl.unit.subq = <<>> THEN FinishPk(cl)
  ELSE {[cl EXCEPT !.unit.stage = "sel", !.req = ReqAggSig("prepare_sync_contribution", cl.duty.slot, cl.unit.u, Head(cl.unit.subq))]}
AddContrib(cl, sub, tok) ==
  LET c2 == [cl EXCEPT !.unit.contribs = Append(@, [sub |-> sub, tok |-> tok])] IN
  IF V2 THEN NextSub([c2 EXCEPT !.unit.subq = Tail(@)]) ELSE FinishPk(c2)

\* the pending request of cl is answered: the possible continuations
After(cl, ans) ==
  LET s == cl.duty.slot t == cl.duty.type u == cl.unit.u st == cl.unit.stage IN
  IF ans.a # "val" THEN {Fail(cl, IF ans.a = "err" THEN ans.kind ELSE "internal")}
  ELSE CASE t = "attester" -> NextUnit([cl EXCEPT !.comm = Put(@, u, ans.tok)])
    [] t = "proposer" /\ st = "randao" ->
         {[cl EXCEPT !.unit.stage = "prop", !.unit.tok = ans.tok,
                     !.req = ReqBNProp(s, IF Variant = "zero_randao" THEN 0 ELSE ans.tok, Graffiti(u), conf.builder)]}
    [] t = "proposer" /\ st = "prop" -> NextUnit([cl EXCEPT !.resp = Put(@, u, [tok |-> ans.tok, blinded |-> ans.flag])])
    [] t = "aggregator" /\ st = "sel" ->
         LET def == cl.defs[u] IN
         IF ~IsAgg(def, ans.flag) THEN NextUnit(cl)
         ELSE IF def.cidx \in DOMAIN cl.aggc THEN NextUnit([cl EXCEPT !.resp = Put(@, u, [tok |-> cl.aggc[def.cidx]])])
         ELSE {[cl EXCEPT !.unit.stage = "att", !.req = ReqAttData(s, def.cidx)]}
    [] t = "aggregator" /\ st = "att" ->
         {[cl EXCEPT !.unit.stage = "agg", !.unit.tok = ans.tok, !.req = ReqBNAgg(s, ans.tok, cl.defs[u].cidx)]}
    [] t = "aggregator" /\ st = "agg" ->
         NextUnit([cl EXCEPT !.aggc = Put(@, cl.defs[u].cidx, ans.tok), !.resp = Put(@, u, [tok |-> ans.tok])])
    [] t = "sync_contribution" /\ st = "sel" ->
         IF ~ans.flag THEN NextSub([cl EXCEPT !.unit.subq = Tail(@)])
         ELSE {[cl EXCEPT !.unit.stage = "msg", !.req = ReqAggSig("sync_message", s, u, 0)]}
    [] t = "sync_contribution" /\ st = "msg" ->
         LET sub == Head(cl.unit.subq) key == <<sub, ans.tok>> IN
         IF key \in DOMAIN cl.conc THEN AddContrib(cl, sub, cl.conc[key])
         ELSE {[cl EXCEPT !.unit.stage = "con", !.unit.tok = ans.tok, !.req = ReqBNCon(s, sub, ans.tok)]}
    [] OTHER (* sync_contribution, con *) ->
         LET sub == Head(cl.unit.subq) IN
         AddContrib([cl EXCEPT !.conc = Put(@, <<sub, cl.unit.tok>>, ans.tok)], sub, ans.tok)

(* the sets handed to the subscribers (per validator records) *)
AttRec(cl, pk) == LET def == cl.defs[pk] e == EffIdx(cl.duty.slot, def) IN
                  [pk |-> pk, root |-> cl.comm[e], idx |-> e, src |-> cl.comm[e], vidx |-> def.vidx, cidx |-> def.cidx]
RespSet(cl) ==
  CASE cl.usedcache -> cl.resp
    [] cl.duty.type = "attester" -> {AttRec(cl, pk) : pk \in DOMAIN cl.defs}
    [] cl.duty.type = "proposer" -> {[pk |-> pk, tok |-> cl.resp[pk].tok, blinded |-> cl.resp[pk].blinded] : pk \in DOMAIN cl.resp}
    [] cl.duty.type = "aggregator" -> {[pk |-> pk, tok |-> cl.resp[pk].tok] : pk \in DOMAIN cl.resp}
    [] OTHER -> {[pk |-> pk, plural |-> cl.resp[pk].plural, list |-> cl.resp[pk].list] : pk \in DOMAIN cl.resp}

\* the loop over the definitions is over: fan-out to the subscribers (Fetch) / caching (FetchOnly)
Settle(c, nc, cache0) ==
  IF nc.status # "finishing"
    THEN calls' = Put(calls, c, nc) /\ cache' = cache0 /\ UNCHANGED delivered
  ELSE IF nc.kind = "only"
    THEN LET set == RespSet(nc)
             votes == \A rec \in set : rec.root = nc.head
         IN /\ calls' = Put(calls, c, [nc EXCEPT !.status = "done", !.result = "ok"])
            /\ cache' = IF (votes \/ Variant = "cache_any_head") /\ (nc.sgen = reorgs \/ StraddleOK)
                          THEN Put(cache0, nc.duty.slot, [set |-> set, gen |-> reorgs, by |-> c]) ELSE cache0
            /\ UNCHANGED delivered
  ELSE LET set == RespSet(nc)
           noop == nc.duty.type \in NoopTypes /\ set = {} /\ ~nc.usedcache
           upto == IF conf.suberr \in 1..conf.nsubs THEN conf.suberr ELSE conf.nsubs
       IN /\ cache' = cache0
          /\ IF noop THEN /\ calls' = Put(calls, c, [nc EXCEPT !.status = "done", !.result = "ok"])
                          /\ UNCHANGED delivered
             ELSE /\ delivered' = delivered \o [i \in 1..upto |-> [c |-> c, sub |-> i, duty |-> nc.duty, set |-> set]]
                  /\ calls' = Put(calls, c, IF conf.suberr \in 1..conf.nsubs
                                             THEN [nc EXCEPT !.status = "done", !.result = "err", !.ekind = "sub"]
                                             ELSE [nc EXCEPT !.status = "done", !.result = "ok"])

NewCall(kind, duty, defs, addr, head) ==
  [kind |-> kind, duty |-> duty, defs |-> defs, addr |-> addr, head |-> head, status |-> "blocked", result |-> "", ekind |-> "",
   req |-> NoReq, todo |-> {}, unit |-> NoUnit, resp |-> Empty, comm |-> Empty, aggc |-> Empty, conc |-> Empty,
   usedcache |-> FALSE, cgen |-> 0, cby |-> 0, sgen |-> reorgs]

Init == calls = Empty /\ cache = Empty /\ reorgs = 0 /\ delivered = <<>> /\ xlog = <<>>

\* Which definition is visited next is the implementation's choice (Go map order).  The actions take a filter `ok` on the
\* continuations: the design check passes TRUE; trace validation passes "agrees with the logged next request", and when no
\* continuation agrees an arbitrary one is taken so that the CONSTRAINT can name what differs.
Pick(S, ok(_)) == IF \E x \in S : ok(x) THEN {x \in S : ok(x)} ELSE {CHOOSE x \in S : TRUE}
AnyCont(x) == TRUE

\* Fetch(ctx, duty, defSet)
StartFetchF(c, duty, defs, ok(_)) ==
  /\ c \notin DOMAIN calls
  /\ UNCHANGED <<conf, reorgs, xlog>>
  /\ LET base == NewCall("fetch", duty, defs, "", 0) IN
     IF duty.type \notin Supported
       THEN calls' = Put(calls, c, Fail(base, "internal")) /\ UNCHANGED <<cache, delivered>>
     ELSE IF duty.type = "attester" /\ duty.slot \in DOMAIN cache
       THEN Settle(c, [base EXCEPT !.status = "finishing", !.usedcache = TRUE, !.resp = cache[duty.slot].set,
                                   !.cgen = cache[duty.slot].gen, !.cby = calls[cache[duty.slot].by].sgen],
                   [s \in DOMAIN cache \ {duty.slot} |-> cache[s]])
     ELSE \E nc \in Pick(NextUnit([base EXCEPT !.todo = Units("fetch", duty, defs)]), ok) : Settle(c, nc, cache)
StartFetch(c, duty, defs) == StartFetchF(c, duty, defs, AnyCont)

\* FetchOnly(ctx, duty, defSet, bnAddr, headBlockRoot)
StartOnlyF(c, duty, defs, addr, head, ok(_)) ==
  /\ c \notin DOMAIN calls
  /\ UNCHANGED <<conf, reorgs, xlog>>
  /\ LET base == NewCall("only", duty, defs, addr, head) IN
     IF duty.type # "attester"
       THEN calls' = Put(calls, c, Fail(base, "internal")) /\ UNCHANGED <<cache, delivered>>
     ELSE LET kept == IF Variant = "no_evict" THEN cache ELSE [s \in {x \in DOMAIN cache : x >= duty.slot} |-> cache[s]] IN
          \E nc \in Pick(NextUnit([base EXCEPT !.todo = Units("only", duty, defs)]), ok) : Settle(c, nc, kept)
StartOnly(c, duty, defs, addr, head) == StartOnlyF(c, duty, defs, addr, head, AnyCont)

Blocked(c) == c \in DOMAIN calls /\ calls[c].status = "blocked"
UnitPk(cl) == IF cl.duty.type = "attester" THEN "" ELSE cl.unit.u
\* the pending dependency of c answers
ReleaseF(c, ans, ok(_)) ==
  /\ Blocked(c)
  /\ UNCHANGED <<conf, reorgs>>
  /\ xlog' = Append(xlog, [c |-> c, req |-> calls[c].req, ans |-> ans, pk |-> UnitPk(calls[c])])
  /\ \E nc \in Pick(After(calls[c], ans), ok) : Settle(c, nc, cache)
Release(c, ans) == ReleaseF(c, ans, AnyCont)
\* the caller's context ends while c is blocked ("cancel" / "deadline")
Cancel(c, how) == Release(c, ErrAns(how))
\* HandleChainReorg
Reorg == /\ reorgs' = reorgs + 1
         /\ cache' = IF Variant = "stale_cache" THEN cache ELSE Empty
         /\ UNCHANGED <<conf, calls, delivered, xlog>>

---------------------------------------------------------------------------------------------------
(* Properties *)
IsVal(x) == x.ans.a = "val"
\* a proposal is requested only with the randao that was aggregated for that slot and validator
RandaoBinding ==
  \A c \in DOMAIN calls : LET cl == calls[c] IN
    (cl.status = "blocked" /\ cl.req.r = "bn_prop") =>
       \E i \in DOMAIN xlog : /\ xlog[i].c = c /\ IsVal(xlog[i])
                              /\ xlog[i].req = ReqAggSig("randao", cl.duty.slot, cl.unit.u, 0)
                              /\ xlog[i].ans.tok = cl.req.randao
\* an aggregate is requested only for the attestation data the cluster agreed on for that slot and committee
AttRootBinding ==
  \A c \in DOMAIN calls : LET cl == calls[c] IN
    (cl.status = "blocked" /\ cl.req.r = "bn_agg") =>
       \E i \in DOMAIN xlog : /\ xlog[i].c = c /\ IsVal(xlog[i]) /\ xlog[i].req = ReqAttData(cl.duty.slot, cl.req.cidx)
                              /\ xlog[i].ans.tok = cl.req.root
\* a contribution is requested only for the block root of the validator's aggregated sync message
SyncRootBinding ==
  \A c \in DOMAIN calls : LET cl == calls[c] IN
    (cl.status = "blocked" /\ cl.req.r = "bn_con") =>
       \E i \in DOMAIN xlog : /\ xlog[i].c = c /\ IsVal(xlog[i]) /\ xlog[i].req = ReqAggSig("sync_message", cl.duty.slot, cl.unit.u, 0)
                              /\ xlog[i].ans.tok = cl.req.root
DelOf(c) == {i \in DOMAIN delivered : delivered[i].c = c}
\* an aggregation duty of validator v reaches consensus only if v's selection proof says it is an aggregator -- and then it does
AggOnlySelected ==
  \A i \in DOMAIN delivered : LET d == delivered[i] cl == calls[d.c] IN
    d.duty.type = "aggregator" =>
      /\ \A rec \in d.set : \E j \in DOMAIN xlog :
            /\ xlog[j].c = d.c /\ IsVal(xlog[j]) /\ xlog[j].req = ReqAggSig("prepare_aggregator", d.duty.slot, rec.pk, 0)
            /\ (xlog[j].ans.flag \/ cl.defs[rec.pk].clen < 32)
      /\ \A pk \in DOMAIN cl.defs : \A j \in DOMAIN xlog :
            (xlog[j].c = d.c /\ IsVal(xlog[j]) /\ xlog[j].req = ReqAggSig("prepare_aggregator", d.duty.slot, pk, 0) /\ xlog[j].ans.flag)
              => \E rec \in d.set : rec.pk = pk
SyncOnlySelected ==
  \A i \in DOMAIN delivered : LET d == delivered[i] IN
    d.duty.type = "sync_contribution" =>
      \A rec \in d.set : \A k \in DOMAIN rec.list : \E j \in DOMAIN xlog :
         /\ xlog[j].c = d.c /\ IsVal(xlog[j]) /\ xlog[j].ans.flag
         /\ xlog[j].req = ReqAggSig("prepare_sync_contribution", d.duty.slot, rec.pk, rec.list[k].sub)
\* every subscriber receives exactly the fetched set: the same set, in subscription order, each at most once, and all of them
\* unless one refuses
SubsExact ==
  \A c \in DOMAIN calls : LET ds == DelOf(c) IN
    /\ \A i, j \in ds : delivered[i].set = delivered[j].set /\ (i < j => delivered[i].sub < delivered[j].sub)
    /\ \A i \in ds : \A k \in 1..delivered[i].sub : \E j \in ds : delivered[j].sub = k
    /\ (calls[c].status = "done" /\ calls[c].result = "ok" /\ ds # {}) => Cardinality(ds) = conf.nsubs
\* no fetch result while a dependency is unresolved or failed
NoResultUnresolved ==
  \A c \in DOMAIN calls : DelOf(c) # {} =>
    /\ calls[c].status = "done"
    /\ \A j \in DOMAIN xlog : xlog[j].c = c => IsVal(xlog[j])
    /\ calls[c].result = "err" => calls[c].ekind = "sub"
\* the validators of a delivered set are validators of the definition set, each with its own definition
OnlyDefined ==
  \A i \in DOMAIN delivered : LET d == delivered[i] cl == calls[d.c] IN
    ~cl.usedcache => \A rec \in d.set : rec.pk \in DOMAIN cl.defs /\ (d.duty.type = "attester" => rec.vidx = cl.defs[rec.pk].vidx)
\* an attester set is complete
AttesterComplete ==
  \A i \in DOMAIN delivered : LET d == delivered[i] cl == calls[d.c] IN
    (d.duty.type = "attester" /\ ~cl.usedcache) => {rec.pk : rec \in d.set} = DOMAIN cl.defs
\* the early cache: only data that voted for the announced head, of the same slot, not older than the last reorg, used once
CacheSound ==
  /\ \A s \in DOMAIN cache : LET e == cache[s] IN
       /\ \A rec \in e.set : rec.root = calls[e.by].head
       /\ calls[e.by].duty.slot = s
       /\ e.gen = reorgs
  /\ \A c \in DOMAIN calls : calls[c].usedcache => calls[c].cgen = calls[c].sgen
\* ... and that was fetched entirely after the last reorg
CacheFresh ==
  /\ \A s \in DOMAIN cache : calls[cache[s].by].sgen = reorgs
  /\ \A c \in DOMAIN calls : calls[c].usedcache => calls[c].cby = calls[c].sgen
Safety == RandaoBinding /\ AttRootBinding /\ SyncRootBinding /\ AggOnlySelected /\ SyncOnlySelected /\ SubsExact
          /\ NoResultUnresolved /\ OnlyDefined /\ AttesterComplete /\ CacheSound /\ CacheFresh
====
