SPECIFICATION FairSpec
CONSTANTS
 Inst = {1, 2}
 P = 1
 S = 2
 G = 3
 Defect = "none"
 MaxT = 7
 D = 1
 Atomic = TRUE
 Hs <- H2
 Tampers <- TNone
 Crash = FALSE
PROPERTIES TakeoverPossible
CHECK_DEADLOCK FALSE
