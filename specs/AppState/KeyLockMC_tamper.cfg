SPECIFICATION MCSpec
CONSTANTS
 Inst = {1, 2}
 P = 1
 S = 2
 G = 4
 Defect = "none"
 MaxT = 4
 D = 1
 Atomic = TRUE
 Hs <- H2
 Tampers <- TAll
 Crash = FALSE
INVARIANTS Weak
CHECK_DEADLOCK FALSE
