SPECIFICATION BigSpec
CONSTANTS
 Inst = {1, 2}
 P = 2
 S = 5
 G = 9
 Defect = "none"
 MaxT = 12
 D = 3
 Atomic = TRUE
 Hs <- H3
 Tampers <- TNone
 Crash = FALSE
INVARIANTS Safety
CHECK_DEADLOCK FALSE
