---- MODULE Readyz ----
(* app/monitoringapi.go -- startReadyChecker: the state machine behind /readyz (HTTP 200 "ok" iff the returned function
   yields nil, else 500 with the reason) and the gauge app_monitoring_readyz.

   One goroutine.  It fetches genesis time and slot configuration once (a failure ENDS the goroutine: InitFail), then
   selects over: the slot ticker (period = slot duration, phase = the moment the goroutine started, NOT the slot
   boundary), the peer count ticker (1 min), the channel vapiCalls (unbuffered; app.go sends on it synchronously from
   EVERY validator API request before routing it) and ctx.Done.
     slot tick   quorumPeersConnected -> notConnectedRounds (0 / +1);  epoch rollover -> prev, curr = curr, 0;
                 NodeSyncing (a beacon node call: the goroutine is busy for its latency, nothing else is received
                 meanwhile);  decision (Decide);  gauge and readyErr are set
     minute tick NodePeerCount -> bnPeerCount (kept on error; nil until the first answer)
     vapi call   curr++
   Decision, first match wins (the order of the if-chain; the constants' doc comments in app/metrics.go name the reasons):
     NodeSyncing failed -> 2 beacon node down | syncing -> 3 | last known BN peer count = 0 -> 7 | sync distance > 320 -> 8
     | no quorum of peers connected in each of the last 6 evaluations (start: "not connected") -> 4
     | no validator API call counted in the previous epoch (start: assume connected) -> 5 | else 1 ready.

   Contract: /readyz = 200 exactly when all conditions held at the last evaluation, else the FIRST failing reason in
   that order (StatusRule, over the inputs recorded at the evaluation); the counters mean what the comments say
   (RoundsRule, VCRule); an evaluation at least every slot (NoLag); the gauge is the status (GaugeRule); serving the
   validator client is never held up by the readiness monitor (VapiPrompt).
   As coded, VapiPrompt and NoLag do NOT hold: a caller of vapiCalls waits while the goroutine is inside a beacon node
   call (Lat > 0), and for ever after InitFail.  Both are reachable only with AsCoded = TRUE / a failing Start. *)
EXTENDS Integers, Sequences, FiniteSets, TLC

CONSTANTS M,           \* period of the peer count ticker
          FarBehind,   \* bnFarBehindSlots (320)
          MinRounds,   \* minNotConnected (6)
          Defect       \* "none" or a control variant

VARIABLES now, cfg,    \* cfg: [sd, spe, np, gen]  slot duration, slots per epoch, cluster size (with this node), genesis time
          st,          \* "init" | "live" | "dead"
          status, gauge, ncr, bnpc, curr, prev, epoch, nextSlot, nextMin,
          pend,        \* ticks waiting in the tickers' channels: subset of {"slot", "min"}
          busy, busyUntil, ans,    \* inside NodeSyncing: until when, the answer it will return
          waiting,     \* senders blocked on vapiCalls
          conn, bn, pc,            \* environment: # distinct other cluster peers with a connection; the beacon node's answers
          qhist, rolls, acc, evalIn, lastEval, evals      \* history
vars == <<now, cfg, st, status, gauge, ncr, bnpc, curr, prev, epoch, nextSlot, nextMin, pend, busy, busyUntil, ans, waiting,
          conn, bn, pc, qhist, rolls, acc, evalIn, lastEval, evals>>
envv == <<conn, bn, pc>>
ghost == <<qhist, rolls, acc, evalIn, lastEval, evals>>

Thr == (2 * cfg.np + 2) \div 3                       \* cluster.Threshold
Quorum == conn >= Thr - 1                            \* "excluding self"
EpochAt(t) == ((t - cfg.gen) \div cfg.sd) \div cfg.spe
Code(s) == CASE s = "ready" -> 1 [] s = "bndown" -> 2 [] s = "syncing" -> 3 [] s = "peers" -> 4 [] s = "vc" -> 5
             [] s = "zeropeers" -> 7 [] s = "farbehind" -> 8 [] OTHER -> 0
Last(q) == q[Len(q)]
Healthy == [err |-> FALSE, syncing |-> FALSE, dist |-> 0, lat |-> 0]

\* the if-chain of the ticker case, with the control variants
Decide(a, pcount, rounds, pv) ==
  IF a.err THEN "bndown"
  ELSE IF a.syncing THEN "syncing"
  ELSE IF Defect = "farFirst" /\ a.dist > FarBehind THEN "farbehind"
  ELSE IF pcount = 0 THEN "zeropeers"
  ELSE IF (IF Defect = "farGE" THEN a.dist >= FarBehind ELSE a.dist > FarBehind) THEN "farbehind"
  ELSE IF (IF Defect = "roundsGT" THEN rounds > MinRounds ELSE rounds >= MinRounds) THEN "peers"
  ELSE IF pv = 0 THEN "vc"
  ELSE "ready"

\* the documented table over the inputs of one evaluation: in = [a, pcount, noquorum (in each of the last MinRounds), vc (calls counted in the previous epoch)]
Rule(in) ==
  IF in.a.err THEN "bndown" ELSE IF in.a.syncing THEN "syncing" ELSE IF in.pcount = 0 THEN "zeropeers"
  ELSE IF in.a.dist > FarBehind THEN "farbehind" ELSE IF in.noquorum THEN "peers" ELSE IF in.vc = 0 THEN "vc" ELSE "ready"

Init0(c, g0) ==
  /\ now = 0 /\ cfg = c /\ st = "init" /\ status = "uninit" /\ gauge = g0
  /\ ncr = MinRounds /\ bnpc = -1 /\ curr = 0 /\ prev = 1 /\ epoch = 0 /\ nextSlot = 0 /\ nextMin = 0
  /\ pend = {} /\ busy = FALSE /\ busyUntil = 0 /\ ans = Healthy /\ waiting = 0
  /\ conn = 0 /\ bn = Healthy /\ pc = [err |-> FALSE, n |-> 50]
  /\ qhist = [k \in 1..MinRounds |-> FALSE] /\ rolls = <<>> /\ acc = <<>>
  /\ evalIn = [a |-> Healthy, pcount |-> -1, noquorum |-> TRUE, vc |-> 1] /\ lastEval = 0 /\ evals = 0

\* the goroutine starts: FetchGenesisTime, FetchSlotsConfig
Start(genok, specok) ==
  /\ st = "init"
  /\ IF genok /\ specok
       THEN st' = "live" /\ epoch' = EpochAt(now) /\ nextSlot' = now + cfg.sd /\ nextMin' = now + M /\ lastEval' = now
       ELSE st' = "dead" /\ UNCHANGED <<epoch, nextSlot, nextMin, lastEval>>      \* InitFail: "return"
  /\ UNCHANGED <<now, cfg, status, gauge, ncr, bnpc, curr, prev, pend, busy, busyUntil, ans, waiting, envv, qhist, rolls, acc, evalIn, evals>>

\* the tickers (channel capacity 1: a tick that finds the channel full is dropped)
FireSlot == /\ st = "live" /\ now = nextSlot /\ pend' = pend \cup {"slot"} /\ nextSlot' = nextSlot + cfg.sd
            /\ UNCHANGED <<now, cfg, st, status, gauge, ncr, bnpc, curr, prev, epoch, nextMin, busy, busyUntil, ans, waiting, envv, ghost>>
FireMin == /\ st = "live" /\ now = nextMin /\ pend' = pend \cup {"min"} /\ nextMin' = nextMin + M
           /\ UNCHANGED <<now, cfg, st, status, gauge, ncr, bnpc, curr, prev, epoch, nextSlot, busy, busyUntil, ans, waiting, envv, ghost>>

InSelect == st = "live" /\ ~busy

\* case <-ticker.Chan(): up to the call of NodeSyncing
RecvSlot ==
  /\ InSelect /\ "slot" \in pend /\ pend' = pend \ {"slot"}
  /\ ncr' = IF Quorum /\ Defect # "noReset" THEN 0 ELSE ncr + 1
  /\ qhist' = Append(Tail(qhist), Quorum)
  /\ LET e == EpochAt(now) IN
       IF e # epoch
         THEN /\ epoch' = e /\ prev' = curr /\ curr' = (IF Defect = "noCurrReset" THEN curr ELSE 0)
              /\ rolls' = Append(rolls, Len(acc))
         ELSE UNCHANGED <<epoch, prev, curr, rolls>>
  /\ busy' = TRUE /\ busyUntil' = now + bn.lat /\ ans' = bn
  /\ UNCHANGED <<now, cfg, st, status, gauge, bnpc, nextSlot, nextMin, waiting, envv, acc, evalIn, lastEval, evals>>

\* NodeSyncing returned: the decision
SlotEnd ==
  /\ busy /\ now = busyUntil /\ busy' = FALSE
  /\ status' = Decide(ans, bnpc, ncr, IF Defect = "vcCurr" THEN curr ELSE prev)
  /\ gauge' = Code(status')
  /\ evalIn' = [a |-> ans, pcount |-> bnpc, noquorum |-> (\A k \in 1..MinRounds : ~qhist[k]),
                vc |-> IF rolls = <<>> THEN 1 ELSE Last(rolls) - (IF Len(rolls) = 1 THEN 0 ELSE rolls[Len(rolls) - 1])]
  /\ lastEval' = now /\ evals' = evals + 1
  /\ UNCHANGED <<now, cfg, st, ncr, bnpc, curr, prev, epoch, nextSlot, nextMin, pend, busyUntil, ans, waiting, envv, qhist, rolls, acc>>

\* case <-peerCountTicker.Chan()
RecvMin ==
  /\ InSelect /\ "min" \in pend /\ pend' = pend \ {"min"}
  /\ bnpc' = IF pc.err THEN bnpc ELSE pc.n
  /\ UNCHANGED <<now, cfg, st, status, gauge, ncr, curr, prev, epoch, nextSlot, nextMin, busy, busyUntil, ans, waiting, envv, ghost>>

\* a validator API request arrives: vapiCallsFunc sends on the channel (and blocks until the goroutine receives)
VapiCall == /\ waiting' = waiting + 1
            /\ UNCHANGED <<now, cfg, st, status, gauge, ncr, bnpc, curr, prev, epoch, nextSlot, nextMin, pend, busy, busyUntil, ans, envv, ghost>>
\* case <-vapiCalls
RecvVapi == /\ InSelect /\ waiting > 0 /\ waiting' = waiting - 1 /\ curr' = curr + 1 /\ acc' = Append(acc, now)
            /\ UNCHANGED <<now, cfg, st, status, gauge, ncr, bnpc, prev, epoch, nextSlot, nextMin, pend, busy, busyUntil, ans, envv,
                           qhist, rolls, evalIn, lastEval, evals>>
\* REQUIRED behaviour (not the code's): the request goes on at once whatever the monitor is doing; it is counted if the monitor lives
AcceptVapi == /\ waiting > 0 /\ ~InSelect /\ waiting' = waiting - 1 /\ acc' = Append(acc, now)
              /\ curr' = IF st = "live" THEN curr + 1 ELSE curr
              /\ UNCHANGED <<now, cfg, st, status, gauge, ncr, bnpc, prev, epoch, nextSlot, nextMin, pend, busy, busyUntil, ans, envv,
                             qhist, rolls, evalIn, lastEval, evals>>

Timers == (IF st = "live" THEN {nextSlot, nextMin} ELSE {}) \cup (IF busy THEN {busyUntil} ELSE {})
\* nothing the goroutine or a ticker can do in this instant
Quiet == /\ st # "init" /\ \A x \in Timers : x > now
         /\ InSelect => (pend = {} /\ waiting = 0)
Tick(t1) == /\ t1 > now /\ Quiet /\ \A x \in Timers : t1 <= x
            /\ now' = t1
            /\ UNCHANGED <<cfg, st, status, gauge, ncr, bnpc, curr, prev, epoch, nextSlot, nextMin, pend, busy, busyUntil, ans, waiting, envv, ghost>>

\* ---- environment
SetBN(a) == bn' = a /\ UNCHANGED <<now, cfg, st, status, gauge, ncr, bnpc, curr, prev, epoch, nextSlot, nextMin, pend, busy, busyUntil, ans, waiting, conn, pc, ghost>>
SetPC(p) == pc' = p /\ UNCHANGED <<now, cfg, st, status, gauge, ncr, bnpc, curr, prev, epoch, nextSlot, nextMin, pend, busy, busyUntil, ans, waiting, conn, bn, ghost>>
SetConn(k) == conn' = k /\ UNCHANGED <<now, cfg, st, status, gauge, ncr, bnpc, curr, prev, epoch, nextSlot, nextMin, pend, busy, busyUntil, ans, waiting, bn, pc, ghost>>

\* ---- contract
StatusRule == evals > 0 => status = Rule(evalIn)
GaugeRule == IF evals = 0 THEN status = "uninit" ELSE gauge = Code(status) /\ status # "uninit"
ReadyMeansAll == status = "ready" => /\ ~evalIn.a.err /\ ~evalIn.a.syncing /\ evalIn.pcount # 0 /\ evalIn.a.dist <= FarBehind
                                     /\ ~evalIn.noquorum /\ evalIn.vc > 0
RoundsRule == (ncr >= MinRounds) <=> (\A k \in 1..MinRounds : ~qhist[k])
VCRule == prev = IF rolls = <<>> THEN 1 ELSE Last(rolls) - (IF Len(rolls) = 1 THEN 0 ELSE rolls[Len(rolls) - 1])
NoLagB(maxlat) == st # "init" => now - lastEval <= cfg.sd + maxlat
\* a waiting caller gets through before time passes
VapiPrompt == [][now' # now => waiting = 0]_vars
TypeOK == /\ st \in {"init", "live", "dead"} /\ pend \subseteq {"slot", "min"} /\ waiting \in Nat /\ curr \in Nat /\ prev \in Nat
          /\ status \in {"uninit", "ready", "bndown", "syncing", "peers", "vc", "zeropeers", "farbehind"}
====
