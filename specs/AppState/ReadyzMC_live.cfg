SPECIFICATION FairSpec
CONSTANTS
 M = 5
 FarBehind = 1
 MinRounds = 2
 Defect = "none"
 SD = 2
 SPE = 2
 NP = 3
 Gens <- G0
 MaxT = 7
 MaxMoves = 2
 Lats = {0, 1}
 StartOK = {TRUE}
 AsCoded = TRUE
 Dists = {0}
PROPERTIES VapiServed
CHECK_DEADLOCK FALSE
