SPECIFICATION MCSpec
CONSTANTS
 M = 5
 FarBehind = 1
 MinRounds = 2
 Defect = "none"
 SD = 2
 SPE = 2
 NP = 3
 Gens <- G0
 MaxT = 6
 MaxMoves = 2
 Lats = {0}
 StartOK = {FALSE}
 AsCoded = TRUE
 Dists = {0}
INVARIANTS NoLag
CHECK_DEADLOCK FALSE
