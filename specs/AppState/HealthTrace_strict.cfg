SPECIFICATION TraceSpec
CONSTANTS
 W = 10
 WL = 120
 MemN = 96
 ScrapeMs = 30000
 MemMs = 1800000
 WarmMs = 14400000
 MinValid = 8
 Defect = "required"
 GFail <- InvFail
CONSTRAINT Mark
POSTCONDITION Report
CHECK_DEADLOCK FALSE
