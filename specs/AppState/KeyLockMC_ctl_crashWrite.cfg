SPECIFICATION FairSpec
CONSTANTS
 Inst = {1, 2}
 P = 1
 S = 2
 G = 3
 Defect = "none"
 MaxT = 7
 D = 1
 Atomic = TRUE
 Hs <- H1
 Tampers <- TNone
 Crash = TRUE
PROPERTIES TakeoverPossible
CHECK_DEADLOCK FALSE
