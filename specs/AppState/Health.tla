---- MODULE Health ----
(* app/health -- Checker.Run (checker.go) and the table of health checks (checks.go, select.go, reducers.go).

   Run: every scrapePeriod (30 s) Gather() the registry (twice if a family has more than 100 x validators series: the
   gauge app_health_metrics_high_cardinality{name} is set first), append the scrape to the short window (last 10 = 5 min)
   and the long window (last 120 = 1 h), then evaluate EVERY check and set app_health_checks{name} to 1 (failing) / 0 and
   count the failing ones in app_health_checks_failed_total.  A failed Gather changes nothing.  Every memorySamplePeriod
   (30 min) a memory snapshot (heap in use, process start time, now) goes into a ring of 96 (48 h).
   A check is a pure predicate: Func checks query the short window -- per scrape that HAS the family (with >= 1 series) a
   label selector turns the family into one number, a reducer turns the numbers into one (gaugeMax: maximum, floor 0;
   increase: last - first, 0 with < 2 samples), the check compares with its threshold; any selector / reducer error
   clears the check.  MetricsFunc checks compare the first and the last scrape of the long window; memory_leak compares
   the averages of the two halves of a full ring.  Label "regexes" are matched unanchored (MatchSet).

   Numbers: gauge / counter values and histogram sums are in 1/1000 units (v = 1000 is the value 1), counts are counts.
   A scrape is [fams: <<fam>>], fam = [name, type: "gauge" | "counter" | "histogram", m: <<series>>, bulk: # further series],
   series = [lb: <<[n, v]>>, v, hs (histogram sum), hc (sample count), b4 (cumulative count of the bucket le = 4)].

   Contract per check = its Description and threshold comment (Checks below transcribes the table); for all of them
   (design check, HealthMC): a max-type check fires with the FIRST scrape that shows the condition and clears exactly
   when the last such scrape leaves the window; an increase-type check fires iff the counter grew inside the window. *)
EXTENDS Integers, Sequences, FiniteSets, TLC

CONSTANTS W, WL,          \* maxScrapes (10), maxLongScrapes (120)
          MemN,           \* maxMemorySamples (96)
          ScrapeMs, MemMs, WarmMs,    \* 30 s, 30 min, 4 h in ms
          MinValid,       \* minValidMemorySamples (8)
          Defect

VARIABLES now, win, long, mem, verdict, nscr,
          meta,     \* [quorum, nv]  Metadata.QuorumPeers, numValidators
          hcg       \* the gauge app_health_metrics_high_cardinality: {[n, v]}
vars == <<now, win, long, mem, verdict, nscr, meta, hcg>>

\* ---- label matching (regexp.MatchString: unanchored unless the pattern anchors itself), over the vocabulary the cases use
P2 == "^(proposal|submit_blinded_proposal)$"
PA == "^(proposer|attester)$"
MatchSet(p) == CASE p = "pending" -> {"pending", "pending_queued", "pending_initialized"}
                 [] p = P2 -> {"proposal", "submit_blinded_proposal"}
                 [] p = PA -> {"proposer", "attester"}
                 [] p = "attester" -> {"attester"}
                 [] p = "proposer" -> {"proposer", "builder_proposer"}
                 [] OTHER -> {p}
Contains(s, pairs) == \A c \in pairs : \E k \in DOMAIN s.lb : s.lb[k].n = c.n /\ s.lb[k].v \in MatchSet(c.p)
L(n, p) == [n |-> n, p |-> p]

\* ---- the table (checks.go)
Checks == <<
  [name |-> "beacon_node_syncing", kind |-> "single", metric |-> "app_monitoring_beacon_node_syncing", op |-> "eq", thr |-> 1000, inc |-> {}, exc |-> {}],
  [name |-> "insufficient_connected_peers", kind |-> "countnz", metric |-> "p2p_ping_success", op |-> "ltq", thr |-> 0, inc |-> {}, exc |-> {}],
  [name |-> "pending_validators", kind |-> "countlabels", metric |-> "core_scheduler_validator_status", op |-> "gt", thr |-> 0, inc |-> {L("status", "pending")}, exc |-> {}],
  [name |-> "high_registration_failures_rate", kind |-> "increase", metric |-> "core_scheduler_submit_registration_errors_total", op |-> "gt", thr |-> 0, inc |-> {}, exc |-> {}],
  [name |-> "metrics_high_cardinality", kind |-> "sum", metric |-> "app_health_metrics_high_cardinality", op |-> "gt", thr |-> 0, inc |-> {}, exc |-> {}],
  [name |-> "high_beacon_node_latency", kind |-> "hist", metric |-> "app_eth2_latency_seconds", op |-> "gt", thr |-> 1000, inc |-> {}, exc |-> {L("endpoint", P2)}],
  [name |-> "high_beacon_node_proposal_latency", kind |-> "hist", metric |-> "app_eth2_latency_seconds", op |-> "gt", thr |-> 2000, inc |-> {L("endpoint", P2)}, exc |-> {}],
  [name |-> "high_peer_clock_offset", kind |-> "maxabs", metric |-> "app_peerinfo_clock_offset_seconds", op |-> "gt", thr |-> 200, inc |-> {}, exc |-> {}],
  [name |-> "high_peer_ping_latency", kind |-> "hist", metric |-> "p2p_ping_latency_secs", op |-> "gt", thr |-> 150, inc |-> {}, exc |-> {}],
  [name |-> "using_fallback_beacon_nodes", kind |-> "sum", metric |-> "app_eth2_using_fallback", op |-> "gt", thr |-> 0, inc |-> {}, exc |-> {}],
  [name |-> "insufficient_round_changes", kind |-> "increase", metric |-> "core_consensus_insufficient_round_changes_total", op |-> "gt", thr |-> 0, inc |-> {}, exc |-> {}],
  [name |-> "high_consensus_rounds", kind |-> "maxwhere", metric |-> "core_consensus_decided_rounds", op |-> "ge", thr |-> 2000, inc |-> {L("duty", PA)}, exc |-> {}],
  [name |-> "local_block_proposal", kind |-> "single", metric |-> "core_fetcher_proposal_blinded", op |-> "eq", thr |-> 2000, inc |-> {}, exc |-> {}],
  [name |-> "local_proposal_fee_recipient_mismatch", kind |-> "single", metric |-> "core_fetcher_proposal_local_mismatch_fee_recipient", op |-> "eq", thr |-> 2000, inc |-> {}, exc |-> {}],
  [name |-> "high_beacon_node_sse_head_delay", kind |-> "sse", metric |-> "app_beacon_node_sse_head_delay", op |-> "gt", thr |-> 0, inc |-> {}, exc |-> {}],
  [name |-> "high_parsigdb_store_latency", kind |-> "hist", metric |-> "core_parsigdb_store", op |-> "gt", thr |-> 2000, inc |-> {L("duty", "attester")}, exc |-> {}],
  [name |-> "high_parsigdb_store_latency_proposer", kind |-> "hist", metric |-> "core_parsigdb_store", op |-> "gt", thr |-> 3000, inc |-> {L("duty", "proposer")}, exc |-> {}],
  [name |-> "sync_message_head_disagreement", kind |-> "syncmsg", metric |-> "core_tracker_parsig_cohort_rank_total", op |-> "gt", thr |-> 0, inc |-> {}, exc |-> {}],
  [name |-> "high_goroutine_count", kind |-> "single", metric |-> "go_goroutines", op |-> "gt", thr |-> 1000000, inc |-> {}, exc |-> {}],
  [name |-> "memory_leak", kind |-> "mem", metric |-> "go_memstats_heap_inuse_bytes", op |-> "gt", thr |-> 0, inc |-> {}, exc |-> {}] >>
Names == {Checks[k].name : k \in DOMAIN Checks}

\* ---- families
NSer(f) == Len(f.m) + f.bulk
MinI(Ks) == CHOOSE x \in Ks : \A y \in Ks : x <= y
MaxI(Ks) == CHOOSE x \in Ks : \A y \in Ks : x >= y
HasFam(sc, name) == \E k \in DOMAIN sc.fams : sc.fams[k].name = name /\ NSer(sc.fams[k]) > 0
Fam(sc, name) == sc.fams[MinI({k \in DOMAIN sc.fams : sc.fams[k].name = name /\ NSer(sc.fams[k]) > 0})]
Abs(x) == IF x < 0 THEN 0 - x ELSE x
SumOver(f, Ks) == LET RECURSIVE S(_) S(K) == IF K = {} THEN 0 ELSE LET k == MinI(K) IN f[k] + S(K \ {k}) IN S(Ks)
Val(s, ty) == IF ty = "histogram" THEN 0 ELSE s.v

\* selector: [err, v] for one family
Sel(c, f) ==
  CASE c.kind = "single" -> IF NSer(f) # 1 \/ f.type # "gauge" THEN [err |-> TRUE, v |-> 0] ELSE [err |-> FALSE, v |-> f.m[1].v]
    [] c.kind = "countnz" -> [err |-> FALSE, v |-> 1000 * Cardinality({k \in DOMAIN f.m : Val(f.m[k], f.type) # 0}) + 1000 * (IF f.type = "histogram" THEN 0 ELSE f.bulk)]
    [] c.kind = "countlabels" -> [err |-> FALSE, v |-> SumOver([k \in DOMAIN f.m |-> Val(f.m[k], f.type)], {k \in DOMAIN f.m : Contains(f.m[k], c.inc)})]
    [] c.kind \in {"sum", "increase"} -> IF f.type = "histogram" THEN [err |-> TRUE, v |-> 0]
                                          ELSE [err |-> FALSE, v |-> SumOver([k \in DOMAIN f.m |-> f.m[k].v], DOMAIN f.m) + 1000 * f.bulk]
    [] c.kind = "maxabs" -> IF f.type # "gauge" THEN [err |-> TRUE, v |-> 0]
                            ELSE [err |-> FALSE, v |-> MaxI({0} \cup {Abs(f.m[k].v) : k \in DOMAIN f.m})]
    [] c.kind = "maxwhere" -> IF f.type # "gauge" THEN [err |-> TRUE, v |-> 0]
                              ELSE [err |-> FALSE, v |-> MaxI({0} \cup {f.m[k].v : k \in {j \in DOMAIN f.m : c.inc = {} \/ Contains(f.m[j], c.inc)}})]
    [] OTHER -> [err |-> TRUE, v |-> 0]
Cmp(c, x) == CASE c.op = "eq" -> x = c.thr [] c.op = "gt" -> x > c.thr [] c.op = "ge" -> x >= c.thr
               [] c.op = "ltq" -> x < 1000 * (meta.quorum - 1) [] OTHER -> FALSE

\* the scrapes of the window that have the family, in order
Present(c, w) == SelectSeq(w, LAMBDA sc : HasFam(sc, c.metric))
Sels(c, w) == LET p == Present(c, w) IN [k \in DOMAIN p |-> Sel(c, Fam(p[k], c.metric))]
AnyErr(ss) == \E k \in DOMAIN ss : ss[k].err
Qual(c, s) == (c.inc = {} \/ Contains(s, c.inc)) /\ (c.exc = {} \/ ~Contains(s, c.exc))
HistFires(c, w) == LET p == Present(c, w) IN
  /\ \A k \in DOMAIN p : Fam(p[k], c.metric).type = "histogram"
  /\ \E k \in DOMAIN p : LET f == Fam(p[k], c.metric) IN
       \E j \in DOMAIN f.m : Qual(c, f.m[j]) /\ f.m[j].hc > 0 /\ f.m[j].hs > c.thr * f.m[j].hc

\* ---- first / last scrape of the long window
LabOf(s, lab) == LET J == {j \in DOMAIN s.lb : s.lb[j].n = lab} IN IF J = {} THEN "" ELSE s.lb[MinI(J)].v
ByLabel(sc, metric, lab) == IF ~HasFam(sc, metric) THEN {} ELSE
  LET f == Fam(sc, metric) IN {LabOf(f.m[k], lab) : k \in DOMAIN f.m}
\* sse: per addr the LAST series with that addr counts (map assignment)
SseOf(sc, addr) == IF ~HasFam(sc, "app_beacon_node_sse_head_delay") THEN [b4 |-> 0, hc |-> 0] ELSE
  LET f == Fam(sc, "app_beacon_node_sse_head_delay")
      K == {k \in DOMAIN f.m : LabOf(f.m[k], "addr") = addr} IN
    IF K = {} THEN [b4 |-> 0, hc |-> 0] ELSE [b4 |-> f.m[MaxI(K)].b4, hc |-> f.m[MaxI(K)].hc]
\* 1 if it must fire, 0 if it must not, 2: exactly on the threshold (1 - x/y in floating point: either)
SseAddr(a, z, addr) == LET dInf == SseOf(z, addr).hc - SseOf(a, addr).hc
                           dLe4 == SseOf(z, addr).b4 - SseOf(a, addr).b4 IN
  IF dInf = 0 THEN 0 ELSE IF 25 * (dInf - dLe4) > dInf /\ dInf > 0 THEN 1 ELSE IF 25 * (dInf - dLe4) = dInf THEN 2 ELSE 0
SyncOf(sc, peer) == IF ~HasFam(sc, "core_tracker_parsig_cohort_rank_total") THEN [tot |-> 0, dis |-> 0] ELSE
  LET f == Fam(sc, "core_tracker_parsig_cohort_rank_total")
      K == {k \in DOMAIN f.m : LabOf(f.m[k], "peer_idx") = peer} IN
    [tot |-> SumOver([k \in DOMAIN f.m |-> f.m[k].v], K),
     dis |-> SumOver([k \in DOMAIN f.m |-> f.m[k].v], {k \in K : LabOf(f.m[k], "rank") # "0"})]
SyncPeer(a, z, peer) == LET dT == SyncOf(z, peer).tot - SyncOf(a, peer).tot
                            dD == SyncOf(z, peer).dis - SyncOf(a, peer).dis IN
  IF dT < 20000 THEN 0 ELSE IF 20 * dD > dT THEN 1 ELSE 0
\* Defect = "required": the REQUIRED behaviour where the code deviates from the documented rule (known findings): "> 4 %" is strict
\* also in floating point; a counter that appears inside the window has grown from 0
Required == Defect = "required"
Tri(S) == IF 1 \in S THEN {TRUE} ELSE IF 2 \in S /\ ~Required THEN {TRUE, FALSE} ELSE {FALSE}

\* ---- memory ring: snapshots [b, ok] (ok: taken at least WarmMs after the process start it reports)
Avg(seq) == LET K == {k \in DOMAIN seq : seq[k].ok} IN [n |-> Cardinality(K), s |-> SumOver([k \in DOMAIN seq |-> seq[k].b], K)]
MemFires(m) ==
  IF Len(m) < MemN THEN {FALSE} ELSE
    LET h == Len(m) \div 2
        o == Avg(SubSeq(m, 1, h))  r == Avg(SubSeq(m, h + 1, Len(m))) IN
      IF o.n < MinValid \/ r.n < MinValid THEN {FALSE}
      ELSE IF r.s * o.n * 100 > o.s * r.n * 105 THEN {TRUE}
      ELSE IF r.s * o.n * 100 = o.s * r.n * 105 THEN {TRUE, FALSE}        \* avgOlder * 1.05 in floating point
      ELSE {FALSE}

\* the possible verdicts of one check (a set: the floating point boundaries leave two)
Eval(c, w, lw, m) ==
  CASE c.kind = "hist" -> {HistFires(c, w)}
    [] c.kind = "sse" -> IF Len(lw) < 2 THEN {FALSE} ELSE
         Tri({SseAddr(lw[1], lw[Len(lw)], a) : a \in ByLabel(lw[Len(lw)], c.metric, "addr")})
    [] c.kind = "syncmsg" -> IF Len(lw) < 2 THEN {FALSE} ELSE
         Tri({SyncPeer(lw[1], lw[Len(lw)], p) : p \in ByLabel(lw[Len(lw)], c.metric, "peer_idx")})
    [] c.kind = "mem" -> MemFires(m)
    [] OTHER -> LET ss == Sels(c, w) IN
         IF AnyErr(ss) THEN {FALSE}
         ELSE IF c.kind = "increase" THEN
           IF Required /\ Len(w) >= 2 /\ Len(ss) >= 1 /\ ~HasFam(w[1], c.metric) THEN {Cmp(c, ss[Len(ss)].v)}     \* born inside the window: grown from 0
           ELSE {Cmp(c, IF Len(ss) < 2 THEN 0 ELSE ss[Len(ss)].v - ss[1].v)}
         ELSE IF Defect = "maxLast" THEN {Cmp(c, IF Len(ss) = 0 THEN 0 ELSE MaxI({0, ss[Len(ss)].v}))}
         ELSE {Cmp(c, MaxI({0} \cup {ss[k].v : k \in DOMAIN ss}))}

LastN(n, s) == IF Len(s) <= n THEN s ELSE SubSeq(s, Len(s) - n + 1, Len(s))
Rep(x, n) == [k \in 1..n |-> x]

HeapOf(sc) == IF HasFam(sc, "go_memstats_heap_inuse_bytes") THEN Fam(sc, "go_memstats_heap_inuse_bytes").m[1].v \div 1000 ELSE 0      \* bytes (TLC: 32 bit integers)
StartOf(sc) == IF HasFam(sc, "app_start_time_secs") THEN Fam(sc, "app_start_time_secs").m[1].v ELSE 0       \* absent: 0 = 1970, always warm
\* snapshots taken in (now, t1] while the registry shows sc
Snaps(sc, t1) == LET j0 == now \div MemMs  j1 == t1 \div MemMs IN
  IF HeapOf(sc) = 0 THEN <<>> ELSE [k \in 1..(j1 - j0) |-> [b |-> HeapOf(sc), ok |-> (Defect = "warmCounts" \/ ~HasFam(sc, "app_start_time_secs") \/ (j0 + k) * MemMs - StartOf(sc) >= WarmMs)]]

\* a guard with a name (trace validation overrides GFail to record which one failed)
GFail(name) == FALSE
Guard(name, p) == IF p THEN TRUE ELSE GFail(name)
HCN == "app_health_metrics_high_cardinality"
HcSum(h) == LET RECURSIVE S(_) S(H) == IF H = {} THEN 0 ELSE LET x == CHOOSE y \in H : TRUE IN x.v + S(H \ {x}) IN S(h)
\* scrape(): families with more than 100 x max(validators, 1) series are recorded in the gauge (never cleared), which is part of what the
\* second Gather returns
Over(sc) == {k \in DOMAIN sc.fams : sc.fams[k].name # HCN /\ NSer(sc.fams[k]) > 100 * (IF meta.nv > 1 THEN meta.nv ELSE 1)}
HcAfter(h, sc) == {e \in h : \A k \in Over(sc) : sc.fams[k].name # e.n} \cup {[n |-> sc.fams[k].name, v |-> 1000 * NSer(sc.fams[k])] : k \in Over(sc)}
WithHc(sc, h) == [fams |-> sc.fams \o (IF h = {} THEN <<>> ELSE
                   <<[name |-> HCN, type |-> "gauge", bulk |-> 0, m |-> <<[lb |-> <<>>, v |-> HcSum(h), hs |-> 0, hc |-> 0, b4 |-> 0]>>]>>)]

Init0(m, h0) == /\ now = 0 /\ win = <<>> /\ long = <<>> /\ mem = <<>> /\ nscr = 0 /\ meta = m /\ hcg = h0
                /\ verdict = [n \in Names |-> FALSE]

(* the registry shows scrape sc for the next n scrape periods (gerr: every Gather fails meanwhile).  v: the verdicts after the last
   of the n scrapes -- each must be one the table allows (the floating point boundaries allow two; if a memory snapshot falls
   into the same instant, memory_leak may have been evaluated before it). *)
Allowed(c, w1, l1, m1, mB) == IF c.kind = "mem" THEN MemFires(m1) \cup MemFires(mB) ELSE Eval(c, w1, l1, m1)
Hold(sc0, n, gerr, v) ==
  /\ n >= 1
  /\ LET t1 == now + n * ScrapeMs
         h1 == IF gerr THEN hcg ELSE HcAfter(hcg, sc0)
         sc == WithHc(sc0, h1)
         mem1 == IF gerr THEN mem ELSE LastN(MemN, mem \o Snaps(sc, t1))
         memB == IF gerr \/ t1 % MemMs # 0 \/ HeapOf(sc) = 0 THEN mem1 ELSE LastN(MemN, mem \o Snaps(sc, t1 - 1))
         win1 == IF gerr THEN win ELSE LastN(IF Defect = "window11" THEN W + 1 ELSE W, win \o Rep(sc, IF n > W + 1 THEN W + 1 ELSE n))
         long1 == IF gerr THEN long ELSE LastN(WL, long \o Rep(sc, IF n > WL THEN WL ELSE n)) IN
       /\ now' = t1 /\ win' = win1 /\ long' = long1 /\ mem' = mem1 /\ hcg' = h1
       /\ nscr' = IF gerr THEN nscr ELSE nscr + n
       /\ IF gerr THEN Guard("VerdictsKept", v = verdict)
          ELSE \A k \in DOMAIN Checks : Guard(Checks[k].name, v[Checks[k].name] \in Allowed(Checks[k], win1, long1, mem1, memB))
       /\ verdict' = v
  /\ UNCHANGED meta
\* how often Gather is called meanwhile: per scrape once, twice if a family is over the cardinality threshold; once per memory snapshot
Gathers(sc0, n, gerr) == n * (IF ~gerr /\ Over(sc0) # {} THEN 2 ELSE 1) + ((now + n * ScrapeMs) \div MemMs - now \div MemMs)
\* the deterministic choice among the allowed verdicts (generation)
Pick(S) == IF TRUE \in S THEN TRUE ELSE FALSE
====
