---- MODULE KeyLockMC ----
(* Exhaustive design check of KeyLock: every interleaving of New (atomic, or as coded in two system calls) / start of Run /
   refreshes / Close or kill / restarts of up to |Inst| processes, edits of cluster-lock.json, the clock, optionally the
   operator's hands on the lock file and a crash inside os.WriteFile.  All bounds are here, none in the actions:
     MaxT     the clock stops there                  D       Run is started at most D after New returned (S - P keeps Exclusion)
     Atomic   New is one step / two                  Hs      hashes cluster-lock.json may be set to
     Tampers  what the operator may do to the file   Crash   a process may die inside os.WriteFile *)
EXTENDS KeyLock
CONSTANTS MaxT, D, Atomic, Hs, Tampers, Crash
H1 == {"a"}
H2 == {"", "a", "b"}
H3 == {"", "a", "b", "c"}
TNone == {}
TAll == {"delete", "garbage", "dir", "fresh", "old"}
TamperFile(k) == CASE k = "delete" -> NoFile [] k = "garbage" -> Bad("corrupt") [] k = "dir" -> Bad("dir")
                   [] k = "fresh" -> OkFile(now, 0, "") [] OTHER -> OkFile(0, 0, "a")
StartDelayOK(t) == \A i \in Inst : inst[i].st = "held" => t - inst[i].next <= D
Proc(i) == \/ (Atomic /\ NewAtomic(i)) \/ (~Atomic /\ (NewRead(i) \/ NewWrite(i)))
           \/ StartRun(i) \/ Refresh(i) \/ Stop(i) \/ (Crash /\ CrashMidWrite(i))
Clock == now < MaxT /\ StartDelayOK(now + 1) /\ Tick
Env == \/ \E h \in Hs : h # chash /\ SetHash(h)
       \/ \E k \in Tampers : file # TamperFile(k) /\ Tamper(TamperFile(k))
MCNext == (\E i \in Inst : Proc(i)) \/ Clock \/ Env
MCSpec == Init /\ [][MCNext]_vars
\* the same with time passing in big steps (the closed form used by trace validation must keep the contract as well)
BigNext == (\E i \in Inst : (Atomic /\ NewAtomic(i)) \/ StartRun(i) \/ Stop(i))
           \/ (\E d \in 1..3 : now + d <= MaxT /\ StartDelayOK(now + d) /\ Pass(d)) \/ Env
BigSpec == Init /\ [][BigNext]_vars
Safety == TypeOK /\ Exclusion /\ NoEarlyTakeover /\ GraceRespected /\ FileOwned
\* with the operator's hands on the file only the decision itself can be relied on: a well-formed, recent file is never taken over
Weak == TypeOK /\ (Fresh => lastw[out.i] = now)

(* Liveness: processes that keep running, a clock that keeps going, an operator who keeps trying to start charon:
   whenever a holder was stopped (gracefully or not) early enough for the windows to pass before the model's clock stops,
   some instance holds the lock again. *)
Fair == /\ WF_vars(Clock) /\ \A i \in Inst : WF_vars(NewAtomic(i)) /\ WF_vars(StartRun(i)) /\ WF_vars(Refresh(i))
FairSpec == MCSpec /\ Fair
TakeoverPossible == \A i \in Inst : (inst[i].st = "stopped" /\ now + G + 1 <= MaxT) ~> (\E j \in Inst : Holds(j))
====
