SPECIFICATION MCSpec
CONSTANTS
 Inst = {1, 2, 3}
 P = 1
 S = 2
 G = 3
 Defect = "none"
 MaxT = 5
 D = 1
 Atomic = TRUE
 Hs <- H2
 Tampers <- TNone
 Crash = FALSE
INVARIANTS Safety
CHECK_DEADLOCK FALSE
