SPECIFICATION FairSpec
CONSTANTS
 M = 5
 FarBehind = 1
 MinRounds = 2
 Defect = "none"
 SD = 2
 SPE = 2
 NP = 3
 Gens <- G0
 MaxT = 6
 MaxMoves = 2
 Lats = {0}
 StartOK = {TRUE, FALSE}
 AsCoded = TRUE
 Dists = {0}
PROPERTIES VapiServed
CHECK_DEADLOCK FALSE
