SPECIFICATION MCSpec
CONSTANTS
 Inst = {1, 2}
 P = 2
 S = 4
 G = 7
 Defect = "none"
 MaxT = 10
 D = 2
 Atomic = TRUE
 Hs <- H2
 Tampers <- TNone
 Crash = FALSE
INVARIANTS Safety
CHECK_DEADLOCK FALSE
