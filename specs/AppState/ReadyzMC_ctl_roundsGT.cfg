SPECIFICATION MCSpec
CONSTANTS
 M = 5
 FarBehind = 1
 MinRounds = 2
 Defect = "roundsGT"
 SD = 2
 SPE = 2
 NP = 4
 Gens <- G0
 MaxT = 6
 MaxMoves = 2
 Lats = {0}
 StartOK = {TRUE}
 AsCoded = TRUE
 Dists = {0}
INVARIANTS StatusRule
CHECK_DEADLOCK FALSE
