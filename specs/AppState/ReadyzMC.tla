---- MODULE ReadyzMC ----
(* Exhaustive design check of Readyz: every placement of up to MaxMoves environment moves (the beacon node's sync answer
   changes among BNs, its peer count answer among PCs, connections to 0..np-1 cluster peers, validator API calls) on the
   time axis 0..MaxT, every order of what is due in one instant (both tickers, waiting callers), genesis on and off the
   tick raster.  Bounds are here, none in the actions.
     Lats     latencies of NodeSyncing           StartOK   outcomes of the two start-up fetches
     AsCoded  TRUE: a validator API request waits for the goroutine's select (the code); FALSE: it goes on at once (required) *)
EXTENDS Readyz
CONSTANTS SD, SPE, NP, Gens, MaxT, MaxMoves, Lats, StartOK, AsCoded, Dists
VARIABLES moves
mvars == <<vars, moves>>
BNs == {[err |-> e, syncing |-> s, dist |-> d, lat |-> la] : e \in BOOLEAN, s \in BOOLEAN, d \in Dists, la \in Lats}
PCs == {[err |-> TRUE, n |-> 0], [err |-> FALSE, n |-> 0], [err |-> FALSE, n |-> 3]}
G0 == {0}
G0m1 == {0, 0 - 1}
MaxLat == CHOOSE x \in Lats : \A y \in Lats : x >= y
MCInit == moves = 0 /\ \E g \in Gens : Init0([sd |-> SD, spe |-> SPE, np |-> NP, gen |-> g], 0)
Internal == \/ \E a \in StartOK, b \in StartOK : Start(a, b)
            \/ FireSlot \/ FireMin \/ RecvSlot \/ SlotEnd \/ RecvMin \/ RecvVapi \/ (~AsCoded /\ AcceptVapi)
Env == \/ \E a \in BNs : a # bn /\ SetBN(a)
       \/ \E p \in PCs : p # pc /\ SetPC(p)
       \/ \E k \in 0..(NP - 1) : k # conn /\ SetConn(k)
       \/ VapiCall
MCNext == \/ Internal /\ UNCHANGED moves
          \/ now < MaxT /\ (AsCoded \/ waiting = 0) /\ Tick(now + 1) /\ UNCHANGED moves
          \/ moves < MaxMoves /\ st # "init" /\ Env /\ moves' = moves + 1
MCSpec == MCInit /\ [][MCNext]_mvars
Safety == /\ TypeOK /\ StatusRule /\ GaugeRule /\ ReadyMeansAll /\ RoundsRule /\ VCRule /\ NoLagB(MaxLat)
NoLag == NoLagB(MaxLat)
\* Liveness: a validator API request gets through (the clock of the model stops at MaxT)
Fair == WF_mvars(Internal /\ UNCHANGED moves) /\ WF_mvars(now < MaxT /\ (AsCoded \/ waiting = 0) /\ Tick(now + 1) /\ UNCHANGED moves)
FairSpec == MCSpec /\ Fair
VapiServed == (waiting > 0 /\ now + MaxLat + 1 <= MaxT) ~> (waiting = 0)
====
