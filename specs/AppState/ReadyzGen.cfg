SPECIFICATION GenSpec
CONSTANTS
 M = 60
 FarBehind = 320
 MinRounds = 6
 Defect = "none"
 GenLen = 14
 MaxTime = 200
INVARIANTS Emit
CONSTRAINT Halt
CHECK_DEADLOCK FALSE
