---- MODULE KeyLock ----
(* app/privkeylock/privkeylock.go -- the lock file "<private key>.lock" that keeps two charon processes from running with
   the same ENR private key.

   What the code does (pinned tree), one action per system call that matters:
     New     stat key file, stat parent dir, read cluster-lock.json (only lock_hash; absent = ""), READ the lock file,
             decide (Decision below), WRITE the lock file {command, timestamp = now, cluster_lock_hash}.  Read and write are
             two system calls (no O_EXCL, no flock): NewRead / NewWrite.  NewAtomic is their composition, the assumption
             "no other process touches the file between the two calls" (the executor's calls are sequential).
     Run     ticker(updatePeriod = 1 s): WRITE the file again with timestamp = now; a failed write ends Run with the error.
     Close   stops Run and waits for it.  It does NOT delete the file ("callers are responsible for any cleanup" -- no
             caller cleans up, dkg_test asserts that the file stays): a graceful shutdown leaves what a crash leaves.
   Decision (doc comments + error texts of New):
     no file                                                    -> take it
     unreadable (EISDIR, EACCES)                                -> error "read private key lock file"
     not JSON (empty file after a crash in os.WriteFile!)       -> error "decode private key lock file"
     now - timestamp <= staleDuration (5 s)                     -> error "recently updated, another charon instance may be running"
     file's hash # "" and # own hash and age < gracePeriod (768 s) -> error "different cluster lock hash ... you must wait for <gracePeriod - age>"
     otherwise                                                  -> take it

   Contract (invariants below; they speak about the histories lastw / lasth, not about the file):
     Exclusion         two instances never hold the lock at the same time
     NoEarlyTakeover   New succeeds only if every OTHER instance's last write is older than staleDuration
     GraceRespected    New of a cluster hash h succeeds only if no other instance wrote a different, non-empty hash within gracePeriod
     TakeoverPossible  (liveness, KeyLockMC) a stopped / crashed holder is replaced by an instance that keeps trying
   Exclusion needs two assumptions that the code does not enforce; each has a control configuration that violates it:
     AtomicNew (above) and StartDelay: Run starts (first refresh P later) at most S - P after New returned -- app.Run
     starts it from the lifecycle manager, after cluster lock loading / eth1 wait; nothing bounds that.
   Time is discrete; the unit is free (MC: small numbers, trace validation: milliseconds). *)
EXTENDS Integers, Sequences, FiniteSets, TLC

CONSTANTS Inst,      \* processes
          P, S, G,   \* updatePeriod, staleDuration, gracePeriod
          Defect     \* "none" or the name of a control variant (a defect the invariants must exclude)

VARIABLES now,      \* clock
          key,      \* the private key path: "file" | "none" | "dir"
          chash,    \* lock_hash of cluster-lock.json: a hash, "" (no file), "#corrupt"
          file,     \* the lock file: [st: "none" | "ok" | "corrupt" | "dir", ts, cmd, hash]
          inst,     \* [Inst -> [st: "idle" | "read" | "held" | "run" | "stopped" | "failed", hash, next]]
                    \*   held: New returned the Service (next = when);  run: next = time of the next refresh
          out,      \* result of the last New: [i, res, wait, t]
          lastw, lasth   \* history: time and hash of every instance's last write (-1: never)
vars == <<now, key, chash, file, inst, out, lastw, lasth>>

Bad(st) == [st |-> st, ts |-> 0, cmd |-> 0, hash |-> ""]
NoFile == Bad("none")
OkFile(ts, c, h) == [st |-> "ok", ts |-> ts, cmd |-> c, hash |-> h]
NoOut == [i |-> 0, res |-> "-", wait |-> -1, t |-> -1]
Restartable == {"idle", "stopped", "failed"}
Holds(i) == inst[i].st \in {"held", "run"}

\* what New decides after reading file f at time t with own cluster hash h
Decision(f, h, t) ==
  CASE f.st = "none" -> "ok"
    [] f.st = "dir" -> "read"
    [] f.st = "corrupt" -> "decode"
    [] OTHER ->
       IF (IF Defect = "staleLT" THEN t - f.ts < S ELSE t - f.ts <= S) THEN "recent"
       ELSE IF Defect # "graceOff" /\ f.hash # "" /\ f.hash # h
               /\ (IF Defect = "graceLE" THEN t - f.ts <= G ELSE t - f.ts < G)
               /\ (Defect = "graceSkipEmpty" => h # "") THEN "grace"
       ELSE "ok"
Pre == IF key = "none" THEN "nokey" ELSE IF key = "dir" THEN "keydir" ELSE IF chash = "#corrupt" THEN "lockdecode" ELSE "go"
Result == IF Pre # "go" THEN Pre ELSE Decision(file, chash, now)
WaitOf(res) == IF res = "grace" THEN G - (now - file.ts) ELSE -1

Took(i, h) == /\ file' = OkFile(now, i, h)
              /\ inst' = [inst EXCEPT ![i] = [st |-> "held", hash |-> h, next |-> now]]
              /\ lastw' = [lastw EXCEPT ![i] = now] /\ lasth' = [lasth EXCEPT ![i] = h]

\* New as one step (assumption AtomicNew)
NewAtomic(i) ==
  /\ inst[i].st \in Restartable
  /\ out' = [i |-> i, res |-> Result, wait |-> WaitOf(Result), t |-> now]
  /\ IF Result = "ok" THEN Took(i, chash) ELSE UNCHANGED <<file, inst, lastw, lasth>>
  /\ UNCHANGED <<now, key, chash>>

\* New as coded: the read (with the decision) and the write are separate system calls
NewRead(i) ==
  /\ inst[i].st \in Restartable
  /\ IF Result = "ok"
       THEN inst' = [inst EXCEPT ![i] = [st |-> "read", hash |-> chash, next |-> now]] /\ UNCHANGED out
       ELSE out' = [i |-> i, res |-> Result, wait |-> WaitOf(Result), t |-> now] /\ UNCHANGED inst
  /\ UNCHANGED <<now, key, chash, file, lastw, lasth>>
NewWrite(i) ==
  /\ inst[i].st = "read"
  /\ IF file.st = "dir"
       THEN /\ out' = [i |-> i, res |-> "write", wait |-> -1, t |-> now]
            /\ inst' = [inst EXCEPT ![i].st = "idle"] /\ UNCHANGED <<file, lastw, lasth>>
       ELSE out' = [i |-> i, res |-> "ok", wait |-> -1, t |-> now] /\ Took(i, inst[i].hash)
  /\ UNCHANGED <<now, key, chash>>

StartRun(i) ==
  /\ inst[i].st = "held"
  /\ inst' = [inst EXCEPT ![i] = [@ EXCEPT !.st = "run", !.next = now + P]]
  /\ UNCHANGED <<now, key, chash, file, out, lastw, lasth>>

\* one firing of Run's ticker
Refresh(i) ==
  /\ inst[i].st = "run" /\ inst[i].next = now
  /\ IF Defect = "noRefresh"
       THEN inst' = [inst EXCEPT ![i].next = now + P] /\ UNCHANGED <<file, lastw, lasth>>
     ELSE IF file.st = "dir"
       THEN inst' = [inst EXCEPT ![i].st = "failed"] /\ UNCHANGED <<file, lastw, lasth>>
     ELSE /\ file' = OkFile(now, i, inst[i].hash)
          /\ inst' = [inst EXCEPT ![i].next = now + P]
          /\ lastw' = [lastw EXCEPT ![i] = now] /\ UNCHANGED lasth
  /\ UNCHANGED <<now, key, chash, out>>

\* Close (graceful) -- or the process is killed: the file stays as it is
Stop(i) ==
  /\ inst[i].st \in {"run", "failed"}
  /\ inst' = [inst EXCEPT ![i].st = "stopped"]
  /\ IF Defect = "closeDeletes" /\ file.st # "dir" THEN file' = NoFile ELSE UNCHANGED file
  /\ UNCHANGED <<now, key, chash, out, lastw, lasth>>

\* the process dies inside os.WriteFile (O_TRUNC done, nothing written yet): an empty lock file stays behind
CrashMidWrite(i) ==
  /\ inst[i].st = "run" /\ file.st # "dir"
  /\ inst' = [inst EXCEPT ![i].st = "stopped"] /\ file' = Bad("corrupt")
  /\ UNCHANGED <<now, key, chash, out, lastw, lasth>>

\* time passes by one unit (no refresh may be overdue)
Tick ==
  /\ \A i \in Inst : inst[i].st = "run" => inst[i].next > now
  /\ now' = now + 1
  /\ UNCHANGED <<key, chash, file, inst, out, lastw, lasth>>

(* time passes by d units at once, every refresh that falls due in (now, now + d] is made (closed form of Tick/Refresh;
   refreshes at the same instant are made in any order): the file ends as the last refresher wrote it.  While the path
   is a directory every write fails: the first due refresh of each running instance ends its Run. *)
Due(i, t1) == inst[i].st = "run" /\ inst[i].next <= t1
LastTick(i, t1) == inst[i].next + P * ((t1 - inst[i].next) \div P)
Pass(d) ==
  /\ d >= 1
  /\ LET t1 == now + d
         due == {i \in Inst : Due(i, t1)} IN
       /\ now' = t1
       /\ IF due = {} \/ Defect = "noRefresh" THEN UNCHANGED <<file, inst, lastw, lasth>>
          ELSE IF file.st = "dir"
            THEN /\ inst' = [i \in Inst |-> IF i \in due THEN [inst[i] EXCEPT !.st = "failed"] ELSE inst[i]]
                 /\ UNCHANGED <<file, lastw, lasth>>
          ELSE \E w \in due :
                 /\ \A j \in due : LastTick(j, t1) <= LastTick(w, t1)
                 /\ file' = OkFile(LastTick(w, t1), w, inst[w].hash)
                 /\ inst' = [i \in Inst |-> IF i \in due THEN [inst[i] EXCEPT !.next = LastTick(i, t1) + P] ELSE inst[i]]
                 /\ lastw' = [i \in Inst |-> IF i \in due THEN LastTick(i, t1) ELSE lastw[i]]
                 /\ UNCHANGED lasth
  /\ UNCHANGED <<key, chash, out>>

\* ---- the environment: the operator / other programs touch the files
Tamper(f) == /\ file' = f /\ UNCHANGED <<now, key, chash, inst, out, lastw, lasth>>
SetHash(h) == /\ chash' = h /\ UNCHANGED <<now, key, file, inst, out, lastw, lasth>>
SetKey(k) == /\ key' = k /\ UNCHANGED <<now, chash, file, inst, out, lastw, lasth>>

Init ==
  /\ now = 0 /\ key = "file" /\ chash = "" /\ file = NoFile /\ out = NoOut
  /\ inst = [i \in Inst |-> [st |-> "idle", hash |-> "", next |-> 0]]
  /\ lastw = [i \in Inst |-> -1] /\ lasth = [i \in Inst |-> ""]

\* ---- contract
Exclusion == Cardinality({i \in Inst : Holds(i)}) <= 1
Fresh == out.res = "ok" /\ out.t = now /\ inst[out.i].st = "held" /\ inst[out.i].next = now    \* New has just succeeded
NoEarlyTakeover == Fresh => \A i \in Inst \ {out.i} : lastw[i] = -1 \/ now - lastw[i] > S
GraceRespected == Fresh => \A i \in Inst \ {out.i} :
                     lastw[i] = -1 \/ lasth[i] = "" \/ lasth[i] = inst[out.i].hash \/ now - lastw[i] >= G
\* the file is what its last writer wrote (as long as nobody else touches it): what a holder relies on
FileOwned == \A i \in Inst : Holds(i) => (file.st = "ok" /\ file.ts >= lastw[i])
TypeOK == /\ now \in Nat /\ key \in {"file", "none", "dir"} /\ file.st \in {"none", "ok", "corrupt", "dir"}
          /\ \A i \in Inst : inst[i].st \in {"idle", "read", "held", "run", "stopped", "failed"}
====
