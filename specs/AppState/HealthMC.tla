---- MODULE HealthMC ----
(* Exhaustive design check of the Checker's mechanics on a small scale (windows of W = 2 / WL = 3 scrapes, a memory ring of
   4 with a snapshot every second scrape period): every sequence of up to MaxHolds holds (1 or 2 scrape periods, Gather failing
   or not) over the scrapes Domain -- a syncing gauge (absent / 0 / 1 / two series: selector error), a registration error
   counter (absent / 1 / 2), a latency histogram (average on / above the threshold), heap sizes (100 / 106) and a start time
   (long ago / just now).  `all` is the history of successful scrapes, `snaps` of all memory snapshots. *)
EXTENDS Health
CONSTANTS MaxHolds
VARIABLES all, snaps, snapsT, holds
mvars == <<vars, all, snaps, snapsT, holds>>
Ser(v) == [lb |-> <<>>, v |-> v, hs |-> 0, hc |-> 0, b4 |-> 0]
SYN == "app_monitoring_beacon_node_syncing"
REG == "core_scheduler_submit_registration_errors_total"
LAT == "p2p_ping_latency_secs"
G(name, ss) == [name |-> name, type |-> "gauge", m |-> ss, bulk |-> 0]
Syn == {<<>>, <<G(SYN, <<Ser(0)>>)>>, <<G(SYN, <<Ser(1000)>>)>>, <<G(SYN, <<Ser(1000), Ser(1000)>>)>>}
Reg == {<<>>, <<[name |-> REG, type |-> "counter", m |-> <<Ser(1000)>>, bulk |-> 0]>>, <<[name |-> REG, type |-> "counter", m |-> <<Ser(2000)>>, bulk |-> 0]>>}
Lat == {<<[name |-> LAT, type |-> "histogram", bulk |-> 0, m |-> <<[lb |-> <<>>, v |-> 0, hs |-> h, hc |-> 1, b4 |-> 0]>>]>> : h \in {150, 151}}
Heap == {<<G("go_memstats_heap_inuse_bytes", <<Ser(b)>>), G("app_start_time_secs", <<Ser(st)>>)>> : b \in {100000, 106000}, st \in {0 - 10 * ScrapeMs, 2 * ScrapeMs}}
DomSmall == {[fams |-> a \o b] : a \in Syn, b \in Reg}
DomLat == {[fams |-> a \o b] : a \in Syn \ {<<>>}, b \in Lat}
DomMem == {[fams |-> a] : a \in Heap}
Det == [n \in Names |-> FALSE]
VerdictFor(sc, n, gerr) ==
  LET t1 == now + n * ScrapeMs
      h1 == IF gerr THEN hcg ELSE HcAfter(hcg, sc)
      s1 == WithHc(sc, h1)
      mem1 == IF gerr THEN mem ELSE LastN(MemN, mem \o Snaps(s1, t1))
      win1 == IF gerr THEN win ELSE LastN(IF Defect = "window11" THEN W + 1 ELSE W, win \o Rep(s1, IF n > W + 1 THEN W + 1 ELSE n))
      long1 == IF gerr THEN long ELSE LastN(WL, long \o Rep(s1, IF n > WL THEN WL ELSE n)) IN
    IF gerr THEN verdict ELSE [c \in Names |-> LET k == CHOOSE j \in DOMAIN Checks : Checks[j].name = c IN Pick(Allowed(Checks[k], win1, long1, mem1, mem1))]
MCHold(Dom) == \E sc \in Dom, n \in {1, 2}, gerr \in BOOLEAN :
  /\ holds < MaxHolds /\ holds' = holds + 1
  /\ Hold(sc, n, gerr, VerdictFor(sc, n, gerr))
  /\ all' = IF gerr THEN all ELSE all \o Rep(WithHc(sc, hcg'), n)
  /\ snaps' = IF gerr THEN snaps ELSE snaps \o Snaps(sc, now + n * ScrapeMs)
  /\ snapsT' = IF gerr \/ HeapOf(sc) = 0 THEN snapsT ELSE
                 snapsT \o [k \in 1..((now + n * ScrapeMs) \div MemMs - now \div MemMs) |->
                              [t |-> (now \div MemMs + k) * MemMs, start |-> StartOf(sc), known |-> HasFam(sc, "app_start_time_secs")]]
MCInit == Init0([quorum |-> 3, nv |-> 1], {}) /\ all = <<>> /\ snaps = <<>> /\ snapsT = <<>> /\ holds = 0
SpecSmall == MCInit /\ [][MCHold(DomSmall)]_mvars
SpecLat == MCInit /\ [][MCHold(DomLat)]_mvars
SpecMem == MCInit /\ [][MCHold(DomMem)]_mvars

C(name) == Checks[CHOOSE j \in DOMAIN Checks : Checks[j].name = name]
Shows(c, sc) == Eval(c, <<sc>>, <<>>, <<>>) = {TRUE}
Errs(c, w) == AnyErr(Sels(c, w))
\* the windows are the last W / WL successful scrapes, the ring the last MemN snapshots
WindowIs == win = LastN(W, all) /\ long = LastN(WL, all) /\ mem = LastN(MemN, snaps)
\* a max-type check is failing exactly as long as a scrape of the window shows its condition (an unusable scrape clears it)
MaxRule == \A name \in {"beacon_node_syncing", "high_peer_ping_latency"} : LET c == C(name) IN
             nscr > 0 /\ ~Errs(c, win) => (verdict[name] <=> \E k \in DOMAIN win : Shows(c, win[k]))
ErrClears == \A name \in {"beacon_node_syncing"} : nscr > 0 /\ Errs(C(name), win) => ~verdict[name]
\* an increase-type check compares the newest with the oldest scrape of the window that has the counter
IncRule == LET c == C("high_registration_failures_rate")  p == Present(c, win) IN
             nscr > 0 => (verdict[c.name] <=> (Len(p) >= 2 /\ Fam(p[Len(p)], c.metric).m[1].v > Fam(p[1], c.metric).m[1].v))
\* REQUIRED (not the code's): a counter that is born inside the window has grown from 0
IncSeesBirth == LET c == C("high_registration_failures_rate") IN
                  (Len(win) >= 2 /\ ~HasFam(win[1], c.metric) /\ HasFam(win[Len(win)], c.metric)) => verdict[c.name]
\* memory_leak: only with a full ring and enough samples outside the warm-up in both halves
MemRule == verdict["memory_leak"] =>
             /\ Len(mem) = MemN
             /\ \A half \in {SubSeq(mem, 1, MemN \div 2), SubSeq(mem, MemN \div 2 + 1, MemN)} : Cardinality({k \in DOMAIN half : half[k].ok}) >= MinValid
\* a snapshot counts exactly if it was taken at least WarmMs after the process start the registry showed then
WarmRule == Len(snapsT) = Len(snaps) /\ \A k \in DOMAIN snaps : snaps[k].ok <=> (~snapsT[k].known \/ snapsT[k].t - snapsT[k].start >= WarmMs)
Safety == WindowIs /\ MaxRule /\ ErrClears /\ IncRule /\ MemRule /\ WarmRule
\* reachability controls: the interesting verdicts do occur in these models
NeverLeak == ~verdict["memory_leak"]
NeverSyncing == ~verdict["beacon_node_syncing"]
====
