---- MODULE HealthTrace ----
(* Trace validation for app/health.  The executor (harness/appstate, part "health") runs the real Checker.Run
   (health.NewChecker with the production periods and windows) inside a testing/synctest bubble on a scripted
   prometheus.Gatherer: what the schedule says the registry shows, plus the REAL gauge app_health_metrics_high_cardinality
   (the feedback loop of scrape()).  It reads the verdicts back from the real app_health_checks gauge vector.

     Reset  {sid, part, quorum, nv, hc0}          Metadata.QuorumPeers, numValidators, the sticky gauge as found ([{n, v}])
     Hold   {n, gerr, sc, verdicts, inc, gathers, hc}    for n scrape periods the registry showed sc (gerr: Gather failed);
                                                  afterwards: app_health_checks by name, the increments of
                                                  app_health_checks_failed_total, # Gather calls, the sticky gauge
     End *)
EXTENDS Health, TraceCommon
tvars == <<vars, tr, l>>
Named(name, p) == IF p THEN TRUE ELSE InvFail(name)
R0 == Traces[tr][1]
TraceInit == TrInit /\ Init0([quorum |-> R0.quorum, nv |-> R0.nv], SeqToSet(R0.hc0))
TReset == IsEvent("Reset") /\ l = 1 /\ UNCHANGED vars
Obs == [n \in Names |-> Ev.verdicts[n]]
THold == /\ IsEvent("Hold") /\ Ev.t = now + Ev.n * ScrapeMs
         /\ Named("Gathers", Ev.gathers = Gathers(Ev.sc, Ev.n, Ev.gerr))
         /\ Hold(Ev.sc, Ev.n, Ev.gerr, Obs)          \* a verdict the table does not allow is named by its check (GFail <- InvFail)
         /\ Named("HighCardinalityGauge", SeqToSet(Ev.hc) = hcg')
         /\ Named("FailedCounter", Ev.n = 1 /\ ~Ev.gerr => \A n \in Names : Ev.inc[n] = (IF Obs[n] THEN 1 ELSE 0))
         /\ Named("FailedCounterIdle", Ev.gerr => \A n \in Names : Ev.inc[n] = 0)
TEnd == IsEvent("End") /\ UNCHANGED vars
TraceNext == TReset \/ THold \/ TEnd
TraceSpec == TraceInit /\ [][TraceNext]_tvars
Mark == HWMark
====
