SPECIFICATION MCSpec
CONSTANTS
 M = 4
 FarBehind = 1
 MinRounds = 2
 Defect = "none"
 SD = 2
 SPE = 2
 NP = 4
 Gens <- G0
 MaxT = 9
 MaxMoves = 3
 Lats = {0}
 StartOK = {TRUE}
 AsCoded = TRUE
 Dists = {1, 2}
INVARIANTS Safety
PROPERTIES VapiPrompt
CHECK_DEADLOCK FALSE
