---- MODULE ReadyzGen ----
(* Schedule generation for Readyz: behaviours of the design spec with the production constants (one time unit = 1 s:
   M = 60, MinRounds = 6, FarBehind = 320) on small chains (slot 5..20 s, 2..4 slots per epoch, genesis on / off the tick
   raster); the ENVIRONMENT's moves are recorded in `hist` with the model time: start-up fetch results, the beacon node's
   answers (sync state incl. the boundary distances 320 / 321, latency 0 or 3 s; peer count), connections, validator
   API calls.  The clock jumps to the next timer, to one unit before it, or by one unit: moves land on, just before and
   just after evaluations, epoch boundaries and the minute tick.  Run with -simulate. *)
EXTENDS Readyz, Json
CONSTANTS GenLen, MaxTime
VARIABLES hist
Rec(e) == hist' = Append(hist, e)
Cfgs == {[sd |-> 12, spe |-> 2, np |-> 4, gen |-> 0], [sd |-> 12, spe |-> 3, np |-> 4, gen |-> 0 - 5], [sd |-> 20, spe |-> 2, np |-> 3, gen |-> 0 - 20],
         [sd |-> 7, spe |-> 3, np |-> 5, gen |-> 0 - 3], [sd |-> 5, spe |-> 4, np |-> 6, gen |-> 0 - 1], [sd |-> 10, spe |-> 2, np |-> 7, gen |-> 0]}
GBN == {[err |-> e, syncing |-> s, dist |-> d, lat |-> la] : e \in BOOLEAN, s \in BOOLEAN, d \in {0, 320, 321}, la \in {0, 0, 3}}
GPC == {[err |-> TRUE, n |-> 0], [err |-> FALSE, n |-> 0], [err |-> FALSE, n |-> 1], [err |-> FALSE, n |-> 50]}
N(k) == Cardinality({j \in DOMAIN hist : hist[j].ev = k})
MinT(Ts) == CHOOSE x \in Ts : \A y \in Ts : x <= y
Jumps == IF Timers = {} THEN {now + 1, now + 13} ELSE {now + 1, MinT(Timers), MinT(Timers) - 1}
GenNext ==
  \/ Start(TRUE, TRUE) /\ Rec([ev |-> "Start", t |-> now, genok |-> TRUE, specok |-> TRUE])      \* failing fetches: checks/grow_appstate.py flips some
  \/ (FireSlot \/ FireMin \/ RecvSlot \/ SlotEnd \/ RecvMin \/ RecvVapi) /\ UNCHANGED hist
  \/ \E t1 \in Jumps : t1 <= MaxTime /\ Tick(t1) /\ UNCHANGED hist
  \/ /\ Quiet
     /\ \/ \E a \in GBN : a # bn /\ N("SetBN") < 4 /\ SetBN(a) /\ Rec([ev |-> "SetBN", t |-> now, err |-> a.err, syncing |-> a.syncing, dist |-> a.dist, lat |-> a.lat])
        \/ \E p \in GPC : p # pc /\ N("SetPC") < 3 /\ SetPC(p) /\ Rec([ev |-> "SetPC", t |-> now, err |-> p.err, n |-> p.n])
        \/ \E k \in 0..(cfg.np - 1) : k # conn /\ N("Conn") < 5 /\ SetConn(k) /\ Rec([ev |-> "Conn", t |-> now, k |-> k])
        \/ N("Vapi") < 6 /\ VapiCall /\ Rec([ev |-> "Vapi", t |-> now])
GenInit == hist = <<>> /\ \E c \in Cfgs : Init0(c, 0)
GenSpec == GenInit /\ [][GenNext]_<<vars, hist>>
Emit == (Len(hist) < GenLen /\ now < MaxTime) \/ PrintT("@@SCHED@@" \o ToJson([cfg |-> cfg, hist |-> hist, end |-> now]))
Halt == Len(hist) <= GenLen /\ now <= MaxTime
====
