SPECIFICATION GenSpec
CONSTANTS
 Inst = {1, 2, 3}
 P = 2
 S = 10
 G = 1536
 Defect = "none"
 GenLen = 14
INVARIANTS Emit
CONSTRAINT Halt
CHECK_DEADLOCK FALSE
