SPECIFICATION MCSpec
CONSTANTS
 M = 5
 FarBehind = 1
 MinRounds = 2
 Defect = "none"
 SD = 2
 SPE = 2
 NP = 3
 Gens <- G0
 MaxT = 9
 MaxMoves = 3
 Lats = {0, 1}
 StartOK = {TRUE, FALSE}
 AsCoded = FALSE
 Dists = {0}
INVARIANTS TypeOK VCRule
PROPERTIES VapiPrompt
CHECK_DEADLOCK FALSE
