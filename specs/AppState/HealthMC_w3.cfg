SPECIFICATION SpecSmall
CONSTANTS
 W = 3
 WL = 4
 MemN = 4
 ScrapeMs = 30
 MemMs = 60
 WarmMs = 120
 MinValid = 1
 Defect = "none"
 MaxHolds = 4
INVARIANTS Safety
CHECK_DEADLOCK FALSE
