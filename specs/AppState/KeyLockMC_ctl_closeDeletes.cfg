SPECIFICATION MCSpec
CONSTANTS
 Inst = {1, 2}
 P = 1
 S = 2
 G = 4
 Defect = "closeDeletes"
 MaxT = 6
 D = 1
 Atomic = TRUE
 Hs <- H2
 Tampers <- TNone
 Crash = FALSE
INVARIANTS GraceRespected
CHECK_DEADLOCK FALSE
