SPECIFICATION MCSpec
CONSTANTS
 Inst = {1, 2, 3}
 P = 2
 S = 4
 G = 6
 Defect = "none"
 MaxT = 9
 D = 2
 Atomic = TRUE
 Hs <- H3
 Tampers <- TNone
 Crash = FALSE
INVARIANTS Safety
CHECK_DEADLOCK FALSE
