---- MODULE KeyLockGen ----
(* Schedule generation for KeyLock: behaviours of the design spec (New as one step, time in big steps), the ENVIRONMENT's
   moves recorded in `hist`: which process calls New / starts Run / is stopped, how much time passes (aimed at the
   windows: the file's age lands on S - 1, S, S + 1, G - 1, G), edits of cluster-lock.json, the operator's hands on the lock
   file.  One model time unit = 500 ms (P = 2, S = 10, G = 1536: the production constants).  Run with -simulate. *)
EXTENDS KeyLock, Json
CONSTANTS GenLen
VARIABLES hist
Rec(e) == hist' = Append(hist, e)
Age == now - file.ts
Aim == IF file.st = "ok" THEN {S - Age - 1, S - Age, S - Age + 1, G - Age - 1, G - Age, G - Age + 1} ELSE {}
Steps == {d \in {1, 2, 3, 4, 7, 11} \cup Aim : d >= 1}
GHashes == {"", "a", "b"}
Foreign == {OkFile(now - a, 0, h) : a \in {0, S, S + 1, G - 1, G, 0 - 3}, h \in {"", "a"}}
N(k) == Cardinality({j \in DOMAIN hist : hist[j].ev = k})
GenNext ==
  \/ \E i \in Inst : NewAtomic(i) /\ Rec([ev |-> "New", i |-> i])
  \/ \E i \in Inst : StartRun(i) /\ Rec([ev |-> "Run", i |-> i])
  \/ \E i \in Inst : Stop(i) /\ Rec([ev |-> "Stop", i |-> i])
  \/ \E d \in Steps : Pass(d) /\ Rec([ev |-> "Adv", d |-> d])
  \/ \E h \in GHashes \cup {"#corrupt"} : N("SetHash") < 2 /\ h # chash /\ SetHash(h) /\ Rec([ev |-> "SetHash", h |-> h])
  \/ \E k \in {"none", "dir", "file"} : N("SetKey") < 1 /\ N("New") > 0 /\ k # key /\ SetKey(k) /\ Rec([ev |-> "SetKey", k |-> k])
  \/ \E f \in {NoFile, Bad("corrupt"), Bad("dir")} \cup Foreign : N("Tamper") < 2 /\ N("New") > 0 /\ f # file /\ Tamper(f)
        /\ Rec([ev |-> "Tamper", st |-> f.st, age |-> now - f.ts, hash |-> f.hash])
GenSpec == Init /\ hist = <<>> /\ [][GenNext]_<<vars, hist>>
Emit == Len(hist) < GenLen \/ PrintT("@@SCHED@@" \o ToJson(hist))
Halt == Len(hist) <= GenLen
====
