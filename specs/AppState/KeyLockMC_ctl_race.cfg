SPECIFICATION MCSpec
CONSTANTS
 Inst = {1, 2}
 P = 1
 S = 2
 G = 4
 Defect = "none"
 MaxT = 4
 D = 1
 Atomic = FALSE
 Hs <- H1
 Tampers <- TNone
 Crash = FALSE
INVARIANTS Exclusion
CHECK_DEADLOCK FALSE
