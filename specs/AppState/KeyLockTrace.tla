---- MODULE KeyLockTrace ----
(* Trace validation for app/privkeylock.  The executor (harness/appstate, part "keylock") drives the real New / Run /
   Close inside a testing/synctest bubble (the package reads the clock with time.Now / time.Since / time.NewTicker:
   virtual, exact) on a temporary directory.  Every event carries the virtual time t (ms since the bubble's start) and,
   after the bubble is quiescent, the lock file as found on disk: file = {st, ts, cmd, hash} (ts in ms on the same scale,
   cmd = i of the command "c<i>" the writer passed to New).

     Reset   {sid, part}
     New     {i, res, wait}    New(key, cluster-lock.json, "c<i>") returned: "ok" or the class of its error (by its text);
                               wait = the "you must wait for" duration of the grace error in ms, else -1
     Run     {i}               go Run()
     RunRet  {i}               Run returned an error (logged by the goroutine, at the instant it happens)
     Stop    {i}               Close() returned
     Adv     {d}               d ms passed
     SetHash {h} / SetKey {k} / Tamper {st, age, hash}      the environment's edits (Tamper "ok": a well-formed file of
                               another writer with timestamp now - age)
     End
   Time is in milliseconds: P = 1000, S = 5000, G = 768000 are the documented constants of the package. *)
EXTENDS KeyLock, TraceCommon
VARIABLES failed, tampered
tvars == <<vars, tr, l, failed, tampered>>
Named(name, p) == IF p THEN TRUE ELSE InvFail(name)
AtT == now = Ev.t
FileOf(f) == [st |-> f.st, ts |-> f.ts, cmd |-> f.cmd, hash |-> f.hash]
Seen == file' = FileOf(Ev.file)
Known == Ev.i \in Inst
TraceInit == TrInit /\ Init /\ failed = {} /\ tampered = FALSE
Keep == UNCHANGED <<failed, tampered>>
TReset == IsEvent("Reset") /\ l = 1 /\ UNCHANGED vars /\ Keep
TNew == /\ IsEvent("New") /\ AtT /\ Known /\ NewAtomic(Ev.i) /\ Keep
        /\ Named("NewResult", out'.res = Ev.res) /\ Named("GraceWait", out'.wait = Ev.wait) /\ Named("FileAfterNew", Seen)
TRun == IsEvent("Run") /\ AtT /\ Known /\ StartRun(Ev.i) /\ Seen /\ Keep
TStop == IsEvent("Stop") /\ AtT /\ Known /\ Stop(Ev.i) /\ Named("FileAfterClose", Seen) /\ Keep
\* Run ended with an error: the refresh that is due next failed (the path is a directory)
TRunRet == /\ IsEvent("RunRet") /\ Known /\ Ev.i \notin failed
           /\ Named("RunError", inst[Ev.i].st = "run" /\ file.st = "dir" /\ Ev.t = inst[Ev.i].next)
           /\ failed' = failed \cup {Ev.i} /\ UNCHANGED <<vars, tampered>>
TAdv == /\ IsEvent("Adv") /\ Pass(Ev.d) /\ now' = Ev.t /\ UNCHANGED tampered
        /\ Named("Refreshed", Seen)
        /\ Named("RunErrors", failed = {i \in Inst : inst[i].st = "run" /\ inst'[i].st = "failed"})
        /\ failed' = {}
TF(e) == IF e.st = "ok" THEN OkFile(now - e.age, 0, e.hash) ELSE Bad(e.st)
TTamper == IsEvent("Tamper") /\ AtT /\ Tamper(TF(Ev)) /\ Seen /\ tampered' = TRUE /\ UNCHANGED failed
TSetHash == IsEvent("SetHash") /\ AtT /\ SetHash(Ev.h) /\ Seen /\ Keep
TSetKey == IsEvent("SetKey") /\ AtT /\ SetKey(Ev.k) /\ Seen /\ Keep
TEnd == IsEvent("End") /\ AtT /\ failed = {} /\ UNCHANGED vars /\ Keep
TraceNext == TReset \/ TNew \/ TRun \/ TStop \/ TRunRet \/ TAdv \/ TTamper \/ TSetHash \/ TSetKey \/ TEnd
TraceSpec == TraceInit /\ [][TraceNext]_tvars
\* the windows of the contract are judged as long as nobody but the processes touched the file
Mark == /\ CheckInv("TypeOK", TypeOK)
        /\ CheckInv("NoEarlyTakeover", tampered \/ NoEarlyTakeover)
        /\ CheckInv("GraceRespected", tampered \/ GraceRespected)
        /\ CheckInv("FileOwned", tampered \/ FileOwned)
        /\ HWMark
====
