---- MODULE ReadyzTrace ----
(* Trace validation for app.startReadyChecker.  The executor (harness/appstate, part "readyz") calls the real function
   (bound by linkname) inside a testing/synctest bubble with clockwork.NewRealClock() (= virtual time), a scripted beacon
   node (beaconmock.Mock function fields: Genesis, Spec, NodeSyncing, NodePeerCount) and in-memory libp2p hosts (mocknet)
   whose connections it makes and breaks.  Times t are ms of virtual time since the bubble's start.

     Reset   {sid, part, sd, spe, np, gen, gauge}      chain / cluster configuration (ms), the gauge's value before the start
     Start   {genok, specok}                           startReadyChecker is called; what the two start-up fetches will answer
     SetBN   {err, syncing, dist, lat} / SetPC {err, n} / Conn {k}     the environment changes (k distinct cluster peers connected)
     Vapi    {}                                        a sender does what app.go's vapiCallsFunc does (logged before)
     VapiRet {}                                        ... its send completed (logged by the sender: may come late within the instant)
     Sync    {status, gauge}                           NodeSyncing is entered (= an evaluation begins); readyErr and gauge as they are then
     PC      {}                                        NodePeerCount is entered
     Adv     {d, status, gauge}                        d ms passed, the bubble is quiescent; what the returned function and the gauge say
     End

   Strict = FALSE accepts the code's behaviour (a request waits for the goroutine's select) AND the required one; Strict = TRUE only
   the required one: no validator API request is held up, a failed start-up fetch does not end the monitor. *)
EXTENDS Readyz, TraceCommon
CONSTANTS Strict
VARIABLES nobs
tvars == <<vars, tr, l, nobs>>
Named(name, p) == IF p THEN TRUE ELSE InvFail(name)
R0 == Traces[tr][1]
TraceInit == TrInit /\ nobs = 0 /\ Init0([sd |-> R0.sd, spe |-> R0.spe, np |-> R0.np, gen |-> R0.gen], R0.gauge)
AtT == now = Ev.t
Keep == UNCHANGED nobs
TReset == IsEvent("Reset") /\ l = 1 /\ UNCHANGED vars /\ Keep
TStart == IsEvent("Start") /\ AtT /\ Start(Ev.genok, Ev.specok) /\ Keep
TSetBN == IsEvent("SetBN") /\ AtT /\ Quiet /\ SetBN([err |-> Ev.err, syncing |-> Ev.syncing, dist |-> Ev.dist, lat |-> Ev.lat]) /\ Keep
TSetPC == IsEvent("SetPC") /\ AtT /\ Quiet /\ SetPC([err |-> Ev.err, n |-> Ev.n]) /\ Keep
TConn == IsEvent("Conn") /\ AtT /\ Quiet /\ SetConn(Ev.k) /\ Keep
TVapi == IsEvent("Vapi") /\ AtT /\ Quiet /\ VapiCall /\ Keep
TVapiRet == /\ IsEvent("VapiRet") /\ AtT /\ nobs < Len(acc) /\ Named("VapiAccepted", acc[nobs + 1] = Ev.t)
            /\ nobs' = nobs + 1 /\ UNCHANGED vars
Says == Named("Status", status = Ev.status) /\ Named("Gauge", gauge = Ev.gauge)
TSync == IsEvent("Sync") /\ AtT /\ Says /\ RecvSlot /\ Keep
TPC == IsEvent("PC") /\ AtT /\ RecvMin /\ Keep
TAdv == IsEvent("Adv") /\ AtT /\ Quiet /\ Says /\ UNCHANGED vars /\ Keep
TEnd == IsEvent("End") /\ AtT /\ Quiet /\ Named("AcceptedSeen", nobs = Len(acc)) /\ UNCHANGED vars /\ Keep
MinT(Ts) == CHOOSE x \in Ts : \A y \in Ts : x <= y
\* a sender logs VapiRet in the instant its send completes: a call is taken only if the log shows it (keeps the inference linear)
Shown(t) == Cardinality({k \in l..TLen : Trace[k].ev = "VapiRet" /\ Trace[k].t = t})
CanAccept == Shown(now) > Len(acc) - nobs
TSilent == /\ Silent /\ Keep
           /\ \/ FireSlot \/ FireMin \/ SlotEnd \/ (CanAccept /\ RecvVapi) \/ (CanAccept /\ AcceptVapi)
              \/ (l <= TLen /\ now < Ev.t /\ (Strict => waiting = 0) /\ Tick(MinT(Timers \cup {Ev.t})))
TraceNext == TReset \/ TStart \/ TSetBN \/ TSetPC \/ TConn \/ TVapi \/ TVapiRet \/ TSync \/ TPC \/ TAdv \/ TEnd \/ TSilent
TraceSpec == TraceInit /\ [][TraceNext]_tvars
Mark == /\ CheckInv("TypeOK", TypeOK) /\ CheckInv("StatusRule", StatusRule) /\ CheckInv("GaugeRule", GaugeRule)
        /\ CheckInv("ReadyMeansAll", ReadyMeansAll) /\ CheckInv("RoundsRule", RoundsRule) /\ CheckInv("VCRule", VCRule)
        /\ CheckInv("MonitorAlive", Strict => st # "dead")
        /\ HWMark
====
