SPECIFICATION TraceSpec
CONSTANTS
 Inst = {1, 2, 3}
 P = 1000
 S = 5000
 G = 768000
 Defect = "none"
CONSTRAINT Mark
POSTCONDITION Report
CHECK_DEADLOCK FALSE
