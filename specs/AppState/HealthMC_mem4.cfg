SPECIFICATION SpecMem
CONSTANTS
 W = 2
 WL = 3
 MemN = 4
 ScrapeMs = 30
 MemMs = 60
 WarmMs = 120
 MinValid = 1
 Defect = "none"
 MaxHolds = 4
INVARIANTS Safety
CHECK_DEADLOCK FALSE
