SPECIFICATION MCSpec
CONSTANTS
 M = 5
 FarBehind = 1
 MinRounds = 3
 Defect = "none"
 SD = 2
 SPE = 3
 NP = 4
 Gens <- G0m1
 MaxT = 14
 MaxMoves = 4
 Lats = {0}
 StartOK = {TRUE}
 AsCoded = TRUE
 Dists = {0, 1, 2}
INVARIANTS Safety
PROPERTIES VapiPrompt
CHECK_DEADLOCK FALSE
