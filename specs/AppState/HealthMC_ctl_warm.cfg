SPECIFICATION SpecMem
CONSTANTS
 W = 2
 WL = 3
 MemN = 4
 ScrapeMs = 30
 MemMs = 60
 WarmMs = 120
 MinValid = 2
 Defect = "warmCounts"
 MaxHolds = 5
INVARIANTS WarmRule
CHECK_DEADLOCK FALSE
