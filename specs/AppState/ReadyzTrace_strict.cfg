SPECIFICATION TraceSpec
CONSTANTS
 M = 60000
 FarBehind = 320
 MinRounds = 6
 Defect = "none"
 Strict = TRUE
CONSTRAINT Mark
POSTCONDITION Report
CHECK_DEADLOCK FALSE
