SPECIFICATION MCSpec
CONSTANTS
 Inst = {1, 2}
 P = 1
 S = 2
 G = 4
 Defect = "staleLT"
 MaxT = 6
 D = 1
 Atomic = TRUE
 Hs <- H1
 Tampers <- TNone
 Crash = FALSE
INVARIANTS NoEarlyTakeover
CHECK_DEADLOCK FALSE
