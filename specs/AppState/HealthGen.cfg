SPECIFICATION GenSpec
CONSTANTS
 W = 10
 WL = 120
 MemN = 96
 ScrapeMs = 30000
 MemMs = 1800000
 WarmMs = 14400000
 MinValid = 8
 Defect = "none"
 GenLen = 5
INVARIANTS Emit
CONSTRAINT Halt
CHECK_DEADLOCK FALSE
