---- MODULE HealthGen ----
(* Case generation for Health: TLC enumerates, per check, sequences of holds over the check's boundary domain (metric absent,
   value one step below / on / above the threshold, wrong shape or type, label values that do and do not match the selector's
   patterns, counters born / growing / constant, cumulative histograms whose late fraction lands below / on / above 4 %,
   cohort counters around 5 % of 20 messages), with hold lengths that keep a scrape inside the window, at its edge (10) and
   past it (11).  The environment's moves (what the registry shows, for how long, whether Gather fails) are recorded in
   `hist`; the verdicts are the implementation's business.  Run with -simulate. *)
EXTENDS Health, Json
CONSTANTS GenLen
VARIABLES hist, focus, pc, cur
Ser(lb, v) == [lb |-> lb, v |-> v, hs |-> 0, hc |-> 0, b4 |-> 0]
HSer(lb, hs, hc, b4) == [lb |-> lb, v |-> 0, hs |-> hs, hc |-> hc, b4 |-> b4]
Fm(name, type, ss) == [name |-> name, type |-> type, m |-> ss, bulk |-> 0]
Lb(n, v) == <<[n |-> n, v |-> v]>>
Single(name, thr, step) == {<<>>, <<Fm(name, "counter", <<Ser(<<>>, thr)>>)>>, <<Fm(name, "gauge", <<Ser(Lb("a", "1"), thr), Ser(Lb("a", "2"), thr)>>)>>}
                            \cup {<<Fm(name, "gauge", <<Ser(<<>>, v)>>)>> : v \in {0, thr - step, thr - 1, thr, thr + 1, thr + step}}
Hist1(name, lab, vals, thr) == {<<>>} \cup {<<Fm(name, "histogram", <<HSer(Lb(lab, lv), thr * c + d, c, 0)>>)>> : lv \in vals, c \in {1, 2}, d \in {0 - 1, 0, 1}}
                               \cup {<<Fm(name, "histogram", <<HSer(Lb(lab, lv), 9 * thr, 0, 0)>>)>> : lv \in vals}
Dom(f) ==
  CASE f = "syncing" -> Single("app_monitoring_beacon_node_syncing", 1000, 1000)
    [] f = "blinded" -> Single("core_fetcher_proposal_blinded", 2000, 1000)
    [] f = "feerecip" -> Single("core_fetcher_proposal_local_mismatch_fee_recipient", 2000, 1000)
    [] f = "goroutines" -> Single("go_goroutines", 1000000, 1000)
    [] f = "peers" -> {<<>>} \cup {<<Fm("p2p_ping_success", "gauge", <<Ser(Lb("peer", "a"), a), Ser(Lb("peer", "b"), b), Ser(Lb("peer", "c"), c)>>)>> : a \in {0, 1000}, b \in {0, 1000}, c \in {0, 1000}}
    [] f = "pending" -> {<<>>} \cup {<<Fm("core_scheduler_validator_status", "gauge", <<Ser(<<[n |-> "pubkey", v |-> "x"], [n |-> "status", v |-> s1]>>, v1),
                                                                                         Ser(<<[n |-> "pubkey", v |-> "y"], [n |-> "status", v |-> s2]>>, 1000)>>)>> :
                                       s1 \in {"pending", "pending_queued", "active_ongoing"}, s2 \in {"active_ongoing", "pending_initialized"}, v1 \in {0, 1000}}
    [] f = "regfail" -> {<<>>} \cup {<<Fm("core_scheduler_submit_registration_errors_total", "counter", <<Ser(<<>>, v)>>)>> : v \in {0, 1000, 2000}}
    [] f = "roundchg" -> {<<>>} \cup {<<Fm("core_consensus_insufficient_round_changes_total", "counter", <<Ser(Lb("duty", "attester"), v), Ser(Lb("duty", "proposer"), w)>>)>> : v \in {0, 1000}, w \in {0, 1000, 2000}}
    [] f = "fallback" -> {<<>>} \cup {<<Fm("app_eth2_using_fallback", "gauge", <<Ser(<<>>, v)>>)>> : v \in {0, 1000}}
    [] f = "bnlat" -> Hist1("app_eth2_latency_seconds", "endpoint", {"proposal", "submit_blinded_proposal", "submit_proposal", "attestation_data"}, 1000)
    [] f = "bnproplat" -> Hist1("app_eth2_latency_seconds", "endpoint", {"proposal", "submit_blinded_proposal", "submit_proposal", "attestation_data"}, 2000)
    [] f = "pinglat" -> Hist1("p2p_ping_latency_secs", "peer", {"a"}, 150)
    [] f = "parsigatt" -> Hist1("core_parsigdb_store", "duty", {"attester", "proposer", "randao"}, 2000)
    [] f = "parsigprop" -> Hist1("core_parsigdb_store", "duty", {"attester", "proposer", "builder_proposer"}, 3000)
    [] f = "clock" -> {<<>>} \cup {<<Fm("app_peerinfo_clock_offset_seconds", "gauge", <<Ser(Lb("peer", "a"), v), Ser(Lb("peer", "b"), 0)>>)>> : v \in {0 - 201, 0 - 200, 0, 199, 200, 201}}
    [] f = "rounds" -> {<<>>} \cup {<<Fm("core_consensus_decided_rounds", "gauge", <<Ser(Lb("duty", d), v)>>)>> : d \in {"proposer", "attester", "builder_proposer", "randao"}, v \in {1000, 1999, 2000, 3000}}
    [] OTHER -> {<<>>}
Plain == {"syncing", "blinded", "feerecip", "goroutines", "peers", "pending", "regfail", "roundchg", "fallback", "bnlat", "bnproplat", "pinglat",
          "parsigatt", "parsigprop", "clock", "rounds"}
\* cumulative families: (total, not late) of one beacon node; (agreeing, disagreeing) sync messages of one peer
LastSc == IF hist = <<>> THEN [fams |-> <<>>] ELSE hist[Len(hist)].sc
SseNow == IF LastSc.fams = <<>> THEN <<0, 0>> ELSE <<LastSc.fams[1].m[1].hc, LastSc.fams[1].m[1].b4>>
SseNext == {<<Fm("app_beacon_node_sse_head_delay", "histogram", <<HSer(Lb("addr", "bn"), 4000 * (SseNow[1] + n), SseNow[1] + n, SseNow[2] + n - late)>>)>> :
              n \in {0, 25, 50}, late \in {0, 1, 2, 3}}
SyncNow == IF LastSc.fams = <<>> THEN <<0, 0>> ELSE <<LastSc.fams[1].m[1].v, LastSc.fams[1].m[2].v>>
SyncNext == {<<Fm("core_tracker_parsig_cohort_rank_total", "counter", <<Ser(<<[n |-> "peer_idx", v |-> "1"], [n |-> "rank", v |-> "0"]>>, SyncNow[1] + 1000 * (n - d)),
                                                                         Ser(<<[n |-> "peer_idx", v |-> "1"], [n |-> "rank", v |-> "1"]>>, SyncNow[2] + 1000 * d)>>)>> :
              n \in {19, 20, 40}, d \in {0, 1, 2, 3}}
Fams == IF focus = "sse" THEN SseNext ELSE IF focus = "syncmsg" THEN SyncNext ELSE Dom(focus)
Lens == IF focus \in {"sse", "syncmsg"} THEN {1, 2, 60, 119, 120} ELSE {1, 1, 2, 9, 10, 11}
\* the environment's moves do not depend on what the Checker does: the generator only keeps the history.  One hold is drawn in
\* three small steps (family, length, Gather failing or not) so that a simulation step has few successors.
GenNext ==
  \/ pc = "fam" /\ (\E fs \in Fams : cur' = [cur EXCEPT !.fs = fs]) /\ pc' = "len" /\ UNCHANGED <<hist, focus>>
  \/ pc = "len" /\ (\E n \in Lens : cur' = [cur EXCEPT !.n = n]) /\ pc' = "go" /\ UNCHANGED <<hist, focus>>
  \/ pc = "go" /\ (\E gerr \in {FALSE, FALSE, FALSE, hist # <<>>} :
                     hist' = Append(hist, [ev |-> "Hold", n |-> cur.n, gerr |-> gerr, sc |-> [fams |-> cur.fs]]))
                /\ pc' = "fam" /\ UNCHANGED <<cur, focus>>
GenInit == Init0([quorum |-> 3, nv |-> 1], {}) /\ hist = <<>> /\ focus \in Plain \cup {"sse", "syncmsg"} /\ pc = "fam" /\ cur = [fs |-> <<>>, n |-> 1]
GenSpec == GenInit /\ [][GenNext /\ UNCHANGED vars]_<<vars, hist, focus, pc, cur>>
Emit == Len(hist) < GenLen \/ PrintT("@@SCHED@@" \o ToJson(hist))
Halt == Len(hist) <= GenLen
====
