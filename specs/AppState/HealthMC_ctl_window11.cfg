SPECIFICATION SpecSmall
CONSTANTS
 W = 2
 WL = 3
 MemN = 4
 ScrapeMs = 30
 MemMs = 60
 WarmMs = 120
 MinValid = 1
 Defect = "window11"
 MaxHolds = 4
INVARIANTS WindowIs
CHECK_DEADLOCK FALSE
