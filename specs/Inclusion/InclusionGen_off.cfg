SPECIFICATION GenSpec
CONSTANTS
 CheckLag = 6
 MissedLag = 32
 Dev = {}
 Defect = "none"
 GWorld = "off"
 MaxTick = 89
 SubTicks = {0, 1, 3, 6, 10, 13, 20, 70}
 HookTicks = {14, 15, 16, 17, 18, 19}
 MaxSubs = 5
 MaxErr = 3
INVARIANTS Emit
CHECK_DEADLOCK FALSE
