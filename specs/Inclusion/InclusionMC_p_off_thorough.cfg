SPECIFICATION MCSpec
CONSTANTS
 CheckLag = 1
 MissedLag = 2
 Dev = {}
 Defect = "none"
 World = "p"
 Flag = FALSE
 Tps = 2
 Off = 1
 MaxTick = 12
 MaxSubs = 5
 MaxErr = 3
INVARIANTS Safety
VIEW View
CHECK_DEADLOCK FALSE
