SPECIFICATION MCSpec
CONSTANTS
 CheckLag = 1
 MissedLag = 2
 Dev = {"F7"}
 Defect = "none"
 World = "p"
 Flag = TRUE
 Tps = 1
 Off = 0
 MaxTick = 5
 MaxSubs = 3
 MaxErr = 1
INVARIANTS ReportsRight
VIEW View
CHECK_DEADLOCK FALSE
