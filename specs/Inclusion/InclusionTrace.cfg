SPECIFICATION TraceSpec
CONSTANTS
 CheckLag = 6
 MissedLag = 32
 Dev = {}
 Defect = "none"
 Strict = TRUE
CONSTRAINT Mark
POSTCONDITION Report
CHECK_DEADLOCK FALSE
