---- MODULE Inclusion ----
(* core/tracker/inclusion.go -- the InclusionChecker: Submitted (the hook core.WithTracking puts in front of
   Broadcaster.Broadcast), the per-second loop of Run (one check per slot, InclCheckLag slots behind the wall clock, retried
   every second while the beacon node fails), the two critical sections of a check (CheckBlock / CheckBlockAndAtts, then
   Trim with its InclMissedLag), the reports (the "included" / "never included" log records with their delays and the
   tracker callback InclusionChecked).

   One action per critical section / beacon-node call:
     Submit(d, delay)   inclusionCore.Submitted for one (duty, pubkey): ignored / error / synthetic proposal reported at
                        once / stored (a later submission under the same key REPLACES the earlier one)
     Tick               the ticker of Run fires: which slot is due, snapshot of the validator indices of the stored
                        attestations (its own critical section)
     Duties(ans)        the beacon node answers AttesterDuties[Cache](epoch of the checked slot, indices)
     Block(ans)         ... SignedBeaconBlock (feature attestation_inclusion off) / BeaconBlockAttestations (on)
     Comm(ans)          ... BeaconCommittees(state = slot of an attestation found in the block), cached per slot
     CheckOff / CheckOn the critical section CheckBlock(slot, found) / CheckBlockAndAtts(block)
     Trim               the critical section Trim(slot - InclMissedLag); then checkedSlot := slot

   The CONTRACT (doc comments of inclusion.go, core/interfaces.go InclusionChecked, tracker.go analyseDutyFailed:
   chainInclusion with a nil error is success, with an error "not included on chain") is stated over the reports
   themselves (RepOK): every stored submission is reported at most once; "included" only by the check of a block that
   contains it -- proposal: a block exists at the duty's slot; attestation: an on-chain attestation with the same data
   root has the validator's bit in the validator's committee; aggregate: the union of the on-chain attestations with that
   root covers every bit of the aggregate -- and by the FIRST such check after the submission; "missed" only when no
   checked block since the submission contained it and, for attestations / aggregates, not before the check of slot
   duty.slot + InclMissedLag; the tracker callback gets a nil error iff the report says "included"; nothing that was stored
   disappears without a report (NoLoss) and nothing old survives a Trim (Prompt).

   What the code ACTUALLY does where that differs is modelled behind the constant Dev (named deviations, all confirmed
   on the real code, see checks/grow_inclusion.py):
     F1  flag off, no block at the proposal's slot: "never included" is logged but the tracker callback gets err = nil
     F2  an error of checkAttestationInclusion / checkAggregationInclusion is logged and then treated as "included"
     F3  Electra: the per-committee bitlists rebuilt by conjugateAggregationBitsElectra are concatenated BYTEWISE in Go
         map order (each with its own length bit); committee sizes come from the LAST attestation slot of the block that has
         a committee with that index, the offset of the validator's committee from the committees of the FIRST one
     F4  Electra: the validator's position in its committee is taken from the attester duty of the epoch of the BLOCK
         (not of the attestation), fetched for a snapshot of validator indices taken before the block was fetched
     F6  slot - InclCheckLag and slot - InclMissedLag are computed in uint64: during the first InclCheckLag +
         InclMissedLag slots of a chain the Trim bound wraps around and everything stored is reported missed at once
     F7  flag on: a block without attestations is treated like a missing block (the proposal is reported missed)
   Defect (controls only): artificial variants the invariants must catch. *)
EXTENDS Integers, Sequences, FiniteSets, TLC

CONSTANTS CheckLag, MissedLag, Dev, Defect

None == -1000000
Inf == 1000000000
Range(s) == {s[i] : i \in DOMAIN s}
RECURSIVE SumSeq(_)
SumSeq(s) == IF s = <<>> THEN 0 ELSE Head(s) + SumSeq(Tail(s))
Restrict(f, S) == [x \in S |-> f[x]]

VARIABLES conf,      \* [flag, tps (ticks = seconds per slot), start (slot), off (seconds into the slot at tick 0), spe]
          tick,      \* number of ticker firings so far
          subs,      \* key -> stored submission (with ghost fields id, seen, fresh)
          comms,     \* the cache inclusionCore.beaconCommittees: slot -> sequence of committee sizes (committee index i at i+1)
          checked,   \* checkedSlot of Run
          run,       \* the loop of Run: [pc, slot, idx, nidx, duties, blk, need]
          out,       \* the reports made by the last action (callbacks are invoked inside the critical sections)
          done, nid, lost, over   \* ghost: ids reported so far, last id, ids dropped without a report, ids replaced
vars == <<conf, tick, subs, comms, checked, run, out, done, nid, lost, over>>

Key(d) == <<d.typ, d.slot, d.pk>>
NoBlk == [kind |-> "none", atts |-> <<>>]
IdleRun == [pc |-> "idle", slot |-> None, idx |-> {}, nidx |-> 0, duties |-> <<>>, blk |-> NoBlk, need |-> <<>>]

InitWith(c) == /\ conf = c /\ tick = 0 /\ subs = <<>> /\ comms = <<>> /\ checked = 0 /\ run = IdleRun /\ out = {}
               /\ done = {} /\ nid = 0 /\ lost = {} /\ over = {}

(* ------------------------------------------------------------------------------------------------------------------ *)
(* Data.  A submission d: [typ, slot, pk, valid, synth, blinded, fam, r, dindex, v, comm, pos, bits, size]:              *)
(*   typ  the duty type; valid: the signed data has the Go type Submitted expects for that duty                         *)
(*   proposer: synth (graffiti of a synthetic proposal), blinded                                                        *)
(*   attester: the single attestation of validator v: data root (slot, dindex, r), committee comm; pos = the seat of v   *)
(*             in that committee at the duty's slot (a fact of the chain: an Electra single attestation does not carry   *)
(*             it, validatorapi hands on an EMPTY bitlist; before Electra it is the one bit of its bitlist); size =      *)
(*             the committee's size; bits = {pos}                                                                       *)
(*   aggregator: the aggregate: data root, committee comm, bits \subseteq 0..size-1                                       *)
(*   fam: "el" (Electra, Fulu: committee bits, data.index = 0) or "p0" (Phase0..Deneb: data.index = committee)           *)
(* An on-chain attestation a: [fam, r, aslot, dindex, cbits (ascending committee indices), bits (set positions of the   *)
(* full aggregation bitlist), len (its length)].                                                                        *)
(* ------------------------------------------------------------------------------------------------------------------ *)
SubRid(s) == <<s.slot, s.dindex, s.r>>
AttRid(a) == <<a.aslot, a.dindex, a.r>>
SizeOf(cm, sl, c) == IF sl \in DOMAIN cm /\ c + 1 <= Len(cm[sl]) THEN cm[sl][c + 1] ELSE 0

(* the contract's reading of an on-chain attestation: the layout of the beacon chain specification *)
TrueOff(cm, a, c) == SumSeq([i \in DOMAIN a.cbits |-> IF a.cbits[i] < c THEN SizeOf(cm, a.aslot, a.cbits[i]) ELSE 0])
ElHas(cm, a, c, p) == c \in Range(a.cbits) /\ p < SizeOf(cm, a.aslot, c) /\ (TrueOff(cm, a, c) + p) \in a.bits
ContractHas(cm, blk, s, p) ==
  \E i \in DOMAIN blk.atts : LET a == blk.atts[i] IN
     AttRid(a) = SubRid(s) /\ (IF a.fam = "el" THEN ElHas(cm, a, s.comm, p) ELSE p \in a.bits)
ContractIn(cm, blk, bslot, s) ==
  CASE s.typ = "proposer" -> s.slot = bslot /\ blk.kind \in {"found", "empty", "atts"}
    [] s.typ = "attester" -> blk.kind = "atts" /\ ContractHas(cm, blk, s, s.pos)
    [] OTHER -> blk.kind = "atts" /\ s.bits # {} /\ \A p \in s.bits : ContractHas(cm, blk, s, p)

(* ---- what checkBlockAndAtts builds (F3) ---- *)
RECURSIVE Dedup(_, _)
Dedup(s, acc) == IF s = <<>> THEN acc ELSE Dedup(Tail(s), IF Head(s) \in Range(acc) THEN acc ELSE Append(acc, Head(s)))
ASlots(atts) == Dedup([i \in DOMAIN atts |-> atts[i].aslot], <<>>)
RECURSIVE Flat(_, _)
Flat(cm, ss) == IF ss = <<>> THEN <<>>
                ELSE [i \in 1..Len(cm[Head(ss)]) |-> [idx |-> i - 1, size |-> cm[Head(ss)][i]]] \o Flat(cm, Tail(ss))
CFS(cm, atts) == Flat(cm, ASlots(atts))                              \* committeesForState
SizeByIdx(cfs) == [c \in {cfs[i].idx : i \in DOMAIN cfs} |->          \* attsAggBits: later entries overwrite earlier ones
                     cfs[CHOOSE i \in DOMAIN cfs : cfs[i].idx = c /\ \A j \in DOMAIN cfs : cfs[j].idx = c => j <= i].size]
RECURSIVE UpdC(_, _, _, _, _)
UpdC(sbi, agg, a, cs, off) ==                                        \* updateAggregationBits
  IF cs = <<>> THEN agg
  ELSE LET c == Head(cs)
           n == IF c \in DOMAIN sbi THEN sbi[c] ELSE 0
       IN UpdC(sbi, IF n = 0 THEN agg ELSE [agg EXCEPT ![c] = @ \cup {p \in 0..(n - 1) : (off + p) \in a.bits}], a, Tail(cs), off + n)
RECURSIVE AggOf(_, _, _, _)
AggOf(sbi, atts, rid, agg) ==
  IF atts = <<>> THEN agg
  ELSE AggOf(sbi, Tail(atts), rid, IF AttRid(Head(atts)) = rid THEN UpdC(sbi, agg, Head(atts), Head(atts).cbits, 0) ELSE agg)
NBytes(n) == n \div 8 + 1
RECURSIVE GBits(_, _, _, _)
GBits(perm, sbi, agg, base) ==                                       \* append(aggBits, commBits...) over the map
  IF perm = <<>> THEN {}
  ELSE LET c == Head(perm) IN
         {base + p : p \in agg[c]} \cup {base + sbi[c]} \cup GBits(Tail(perm), sbi, agg, base + 8 * NBytes(sbi[c]))
GLen(perm, sbi) == IF perm = <<>> THEN 0
                   ELSE 8 * (SumSeq([i \in DOMAIN perm |-> NBytes(sbi[perm[i]])]) - 1) + (sbi[perm[Len(perm)]] % 8)
Perms(S) == {p \in [1..Cardinality(S) -> S] : Range(p) = S}

(* The verdict of checkAttestationInclusion / checkAggregationInclusion / the proposer case: "in", "out" or "err".
   perm: the order in which Go iterated the committee map of the submission's data root (F3 only). *)
HasRoot(blk, s) == \E i \in DOMAIN blk.atts : AttRid(blk.atts[i]) = SubRid(s)
P0Merged(blk, s) == UNION {blk.atts[i].bits : i \in {j \in DOMAIN blk.atts : AttRid(blk.atts[j]) = SubRid(s)}}
P0Len(blk, s) == blk.atts[CHOOSE i \in DOMAIN blk.atts : AttRid(blk.atts[i]) = SubRid(s) /\ \A j \in DOMAIN blk.atts : AttRid(blk.atts[j]) = SubRid(s) => j <= i].len
Verdict(cm, blk, bslot, duties, s, perm) ==
  LET cfs == CFS(cm, blk.atts)
      sbi == SizeByIdx(cfs)
      agg == AggOf(sbi, blk.atts, SubRid(s), [c \in DOMAIN sbi |-> {}])
      gb == GBits(perm, sbi, agg, 0)
      gl == GLen(perm, sbi)
      ds == SelectSeq(duties, LAMBDA d : d.v = s.v)
  IN CASE s.typ = "proposer" -> IF s.slot = bslot THEN "in" ELSE "out"
       [] ~HasRoot(blk, s) -> "out"
       [] s.fam = "p0" -> IF P0Len(blk, s) # s.size THEN "err" ELSE IF s.bits \subseteq P0Merged(blk, s) THEN "in" ELSE "out"
       [] s.typ = "attester" ->
            IF "F4" \in Dev /\ (s.v = None \/ ds = <<>>) THEN "err"
            ELSE LET pos == IF "F4" \in Dev THEN ds[1].pos ELSE s.pos IN
                 IF "F3" \in Dev
                   THEN LET at == SumSeq([i \in 1..s.comm |-> IF i <= Len(cfs) THEN cfs[i].size ELSE 0]) + pos IN
                        IF at < gl /\ at \in gb THEN "in" ELSE "out"
                   ELSE IF ContractHas(cm, blk, s, pos) THEN "in" ELSE "out"
       [] OTHER ->  \* aggregator, Electra: Bitlist.Contains
            IF "F3" \in Dev
              THEN IF gl # s.size THEN "err" ELSE IF s.bits \subseteq {x \in gb : x < gl} THEN "in" ELSE "out"
              ELSE IF ContractIn(cm, blk, bslot, s) THEN "in" ELSE "out"
(* only submissions whose data root is in the block depend on the map order *)
PermDomain(cm, blk) == DOMAIN SizeByIdx(CFS(cm, blk.atts))
NeedsPerm(blk, s) == "F3" \in Dev /\ s.typ # "proposer" /\ s.fam = "el" /\ HasRoot(blk, s)

(* ------------------------------------------------------------------------------------------------------------------ *)
(* Reports                                                                                                              *)
(* ------------------------------------------------------------------------------------------------------------------ *)
Rep(s, kind, trk, phase, bslot, cin, warn) ==
  [id |-> s.id, typ |-> s.typ, slot |-> s.slot, pk |-> s.pk, kind |-> kind, trk |-> trk, phase |-> phase,
   at |-> IF phase = "submit" THEN None ELSE run.slot, bslot |-> bslot, cin |-> cin, seen |-> s.seen, dup |-> s.id \in done,
   synth |-> s.synth, blinded |-> s.blinded, delay |-> s.delay, warn |-> warn]
Ids(reps) == {r.id : r \in {x \in reps : x.kind # "warnonly"}}

(* ------------------------------------------------------------------------------------------------------------------ *)
(* Submitted                                                                                                            *)
(* ------------------------------------------------------------------------------------------------------------------ *)
Supported(t) == t = "proposer" \/ (conf.flag /\ t \in {"attester", "aggregator"})
SubmitEffect(d) == CASE ~Supported(d.typ) -> "ignore"
                     [] ~d.valid -> "error"
                     [] d.typ = "proposer" /\ d.synth -> "synth"
                     [] OTHER -> "store"
Submit(d, delay) ==
  LET eff == SubmitEffect(d)
      s == d @@ [id |-> nid + 1, seen |-> FALSE, fresh |-> TRUE, delay |-> delay]
      k == Key(d)
  IN /\ nid' = nid + 1
     /\ CASE eff = "store" -> /\ subs' = [x \in DOMAIN subs \cup {k} |-> IF x = k THEN s ELSE subs[x]]
                              /\ out' = {} /\ done' = done
                              /\ over' = IF k \in DOMAIN subs THEN over \cup {subs[k].id} ELSE over
          [] eff = "synth" -> /\ out' = {Rep(s, "incl", "ok", "submit", None, TRUE, FALSE)} /\ done' = done \cup {s.id}
                              /\ UNCHANGED <<subs, over>>
          [] OTHER -> out' = {} /\ UNCHANGED <<subs, done, over>>
     /\ UNCHANGED <<conf, tick, comms, checked, run, lost>>

(* ------------------------------------------------------------------------------------------------------------------ *)
(* Run                                                                                                                  *)
(* ------------------------------------------------------------------------------------------------------------------ *)
CurSlot(k) == conf.start + (conf.off + k) \div conf.tps
Tick ==
  /\ run.pc = "idle"
  /\ tick' = tick + 1
  /\ LET s == CurSlot(tick + 1) - CheckLag           \* uint64 in the code: negative here = wrapped around there
         ks == {x \in DOMAIN subs : subs[x].typ = "attester" /\ subs[x].v # None}
         idx == {subs[k].v : k \in ks}          \* the request lists a validator once per stored attestation of it (nidx entries)
     IN run' = IF s = checked THEN run
               ELSE [IdleRun EXCEPT !.pc = IF conf.flag /\ idx # {} THEN "duties" ELSE "block", !.slot = s, !.idx = idx,
                                    !.nidx = Cardinality(ks)]
  /\ out' = {}
  /\ UNCHANGED <<conf, subs, comms, checked, done, nid, lost, over>>
(* ans: [err, ds]: ds a sequence of [v, slot, comm, pos] *)
Duties(ans) ==
  /\ run.pc = "duties"
  /\ run' = [run EXCEPT !.pc = "block", !.duties = IF ans.err THEN <<>> ELSE ans.ds]
  /\ out' = {}
  /\ UNCHANGED <<conf, tick, subs, comms, checked, done, nid, lost, over>>
(* ans: [kind, atts]; flag off: err / none (404) / nil (no data) / found; flag on: err / none / empty / atts *)
Block(ans) ==
  /\ run.pc = "block"
  /\ ans.kind \in (IF conf.flag THEN {"err", "none", "empty", "atts"} ELSE {"err", "none", "nil", "found"})
  /\ run' = CASE ans.kind = "err" -> IdleRun
              [] conf.flag /\ (ans.kind = "none" \/ (ans.kind = "empty" /\ "F7" \in Dev)) -> [run EXCEPT !.pc = "trim", !.blk = ans]
              [] conf.flag /\ ans.kind = "atts" ->
                   LET need == SelectSeq(ASlots(ans.atts), LAMBDA s : s \notin DOMAIN comms) IN
                   [run EXCEPT !.pc = IF need = <<>> THEN "check" ELSE "comms", !.blk = ans, !.need = need]
              [] OTHER -> [run EXCEPT !.pc = "check", !.blk = ans]
  /\ out' = {}
  \* ghost: a processed answer that does not reach CheckOn still counts as a checked block
  /\ subs' = IF run'.pc = "trim" THEN [k \in DOMAIN subs |-> [subs[k] EXCEPT !.seen = @ \/ ContractIn(comms, ans, run.slot, subs[k])]] ELSE subs
  /\ UNCHANGED <<conf, tick, comms, checked, done, nid, lost, over>>
(* ans: [err, sizes] *)
Comm(ans) ==
  /\ run.pc = "comms"
  /\ IF ans.err THEN run' = IdleRun /\ comms' = comms
     ELSE /\ comms' = [s \in DOMAIN comms \cup {Head(run.need)} |-> IF s = Head(run.need) THEN ans.sizes ELSE comms[s]]
          /\ run' = [run EXCEPT !.need = Tail(@), !.pc = IF Len(run.need) = 1 THEN "check" ELSE "comms"]
  /\ out' = {}
  /\ UNCHANGED <<conf, tick, subs, checked, done, nid, lost, over>>

Removed(taken) == IF Defect = "noDelete" THEN {} ELSE taken
CheckOff ==
  /\ run.pc = "check" /\ ~conf.flag
  /\ LET found == run.blk.kind = "found"
         hit == {k \in DOMAIN subs : subs[k].typ = "proposer" /\ subs[k].slot = run.slot}
         reps == {Rep(subs[k], IF found THEN "incl" ELSE "miss", IF found \/ "F1" \in Dev THEN "ok" ELSE "err", "check",
                      run.slot, found, FALSE) : k \in hit}
     IN /\ subs' = Restrict(subs, DOMAIN subs \ Removed(hit))
        /\ out' = reps /\ done' = done \cup Ids(reps)
  /\ run' = [run EXCEPT !.pc = "trim"]
  /\ UNCHANGED <<conf, tick, comms, checked, nid, lost, over>>
CheckOn ==
  /\ run.pc = "check" /\ conf.flag
  /\ LET blk == run.blk
         cin(k) == ContractIn(comms, blk, run.slot, subs[k])
         rel == {k \in DOMAIN subs : NeedsPerm(blk, subs[k])}
         rids == {SubRid(subs[k]) : k \in rel}
         P == IF rel = {} THEN {<<>>} ELSE Perms(PermDomain(comms, blk))
     IN \E pf \in [rids -> P] :
          LET v(k) == Verdict(comms, blk, run.slot, run.duties, subs[k], IF k \in rel THEN pf[SubRid(subs[k])] ELSE <<>>)
              warned == {k \in DOMAIN subs : v(k) = "err"}
              taken == {k \in DOMAIN subs : v(k) = "in" \/ (v(k) = "err" /\ "F2" \in Dev)}
              reps == {Rep(subs[k], "incl", "ok", "check", run.slot, cin(k), k \in warned) : k \in taken}
                      \cup {Rep(subs[k], "warnonly", "-", "check", run.slot, cin(k), TRUE) : k \in warned \ taken}
          IN /\ subs' = [k \in DOMAIN subs \ Removed(taken) |-> [subs[k] EXCEPT !.seen = @ \/ cin(k)]]
             /\ out' = reps /\ done' = done \cup Ids(reps)
  /\ comms' = IF run.slot >= MissedLag THEN Restrict(comms, DOMAIN comms \ {run.slot - MissedLag}) ELSE comms
  /\ run' = [run EXCEPT !.pc = "trim"]
  /\ UNCHANGED <<conf, tick, checked, nid, lost, over>>
Trim ==
  /\ run.pc = "trim"
  /\ LET raw == run.slot - MissedLag
         bound == IF "F6" \in Dev /\ (run.slot < 0 \/ raw < 0) THEN Inf ELSE IF Defect = "trimEarly" THEN raw + 1 ELSE raw
         old == {k \in DOMAIN subs : subs[k].slot <= bound}
         reps == IF Defect = "dropSilently" THEN {} ELSE {Rep(subs[k], "miss", "err", "trim", None, FALSE, FALSE) : k \in old}
     IN /\ subs' = [k \in DOMAIN subs \ old |-> [subs[k] EXCEPT !.fresh = FALSE]]
        /\ out' = reps /\ done' = done \cup Ids(reps)
        /\ lost' = IF Defect = "dropSilently" THEN lost \cup {subs[k].id : k \in old} ELSE lost
        /\ comms' = Restrict(comms, {s \in DOMAIN comms : s > bound})
  /\ checked' = run.slot
  /\ run' = IdleRun
  /\ UNCHANGED <<conf, tick, nid, over>>

(* ------------------------------------------------------------------------------------------------------------------ *)
(* The contract                                                                                                         *)
(* ------------------------------------------------------------------------------------------------------------------ *)
RepOK(r) ==
  /\ ~r.dup                                                          \* at most once
  /\ r.kind \in {"incl", "miss"}                                     \* the contract's reading of a block cannot fail
  /\ (r.trk = "ok") <=> (r.kind = "incl")                            \* the tracker is told what the log says
  /\ r.phase = "submit" => r.typ = "proposer" /\ r.synth /\ r.kind = "incl"
  /\ r.kind = "incl" /\ r.phase # "submit" => r.phase = "check" /\ r.cin /\ ~r.seen /\ r.bslot = r.at
  /\ r.kind = "miss" => /\ ~r.seen /\ ~r.cin
                        /\ r.phase = "check" => r.typ = "proposer" /\ r.at = r.slot
                        /\ r.phase = "trim" => r.at - MissedLag >= r.slot /\ r.at >= 0
ReportsRight == \A r \in out : RepOK(r)
NoLoss == lost = {}
(* after a completed check nothing that a checked block contained is still waiting, and nothing older than the Trim bound *)
Prompt == run.pc = "idle" => \A k \in DOMAIN subs : ~subs[k].seen /\ (subs[k].fresh \/ subs[k].slot > checked - MissedLag)
UniqueIds == \A k1, k2 \in DOMAIN subs : subs[k1].id = subs[k2].id => k1 = k2
LiveNotDone == \A k \in DOMAIN subs : Defect # "noDelete" => subs[k].id \notin done
TypeOK == /\ run.pc \in {"idle", "duties", "block", "comms", "check", "trim"}
          /\ tick >= 0 /\ nid >= 0
          /\ \A k \in DOMAIN subs : Key(subs[k]) = k
Safety == ReportsRight /\ NoLoss /\ Prompt /\ UniqueIds /\ LiveNotDone /\ TypeOK
(* what holds whatever the named deviations are: no second report, nothing lost, Trim not early (unless F6) *)
Structural == /\ \A r \in out : ~r.dup /\ (r.kind = "miss" /\ r.phase = "trim" /\ "F6" \notin Dev => r.at - MissedLag >= r.slot)
              /\ NoLoss /\ UniqueIds /\ LiveNotDone /\ TypeOK
====
