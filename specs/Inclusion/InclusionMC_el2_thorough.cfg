SPECIFICATION MCSpec
CONSTANTS
 CheckLag = 1
 MissedLag = 2
 Dev = {}
 Defect = "none"
 World = "el2"
 Flag = TRUE
 Tps = 1
 Off = 0
 MaxTick = 6
 MaxSubs = 5
 MaxErr = 1
INVARIANTS Safety
VIEW View
CHECK_DEADLOCK FALSE
