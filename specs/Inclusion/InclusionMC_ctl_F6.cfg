SPECIFICATION MCSpec
CONSTANTS
 CheckLag = 1
 MissedLag = 2
 Dev = {"F6"}
 Defect = "none"
 World = "early"
 Flag = FALSE
 Tps = 1
 Off = 0
 MaxTick = 4
 MaxSubs = 2
 MaxErr = 0
INVARIANTS ReportsRight
VIEW View
CHECK_DEADLOCK FALSE
