SPECIFICATION TraceSpec
CONSTANTS
 CheckLag = 6
 MissedLag = 32
 Dev = {"F3"}
 Defect = "none"
 Strict = FALSE
CONSTRAINT Mark
POSTCONDITION Report
CHECK_DEADLOCK FALSE
