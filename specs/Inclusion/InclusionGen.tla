---- MODULE InclusionGen ----
(* Schedule generation: behaviours of the design spec with the lags of the code (InclCheckLag = 6, InclMissedLag = 32); the
   ENVIRONMENT's moves are recorded in the history variable `hist`: Submitted calls (with the ticker second and, when made
   while the loop is inside a beacon-node call, which call), and what the beacon node answers at which ticker second (duties:
   failure or not; block: the answer; committees: failure or not).  What the checker does with it is the implementation's
   business.  Run with -simulate.  checks/grow_inclusion.py turns a history into a schedule for harness/inclusion: a
   submission while the loop is idle at second k is made at k*1000 + 500 ms, one made inside a call is attached to that
   call of that second.  Worlds: "off" (flag off, proposals), "on1" (one committee of two), "on2" (two committees, sizes
   <<3, 2>> at even slots and <<2, 3>> at odd ones; checks/grow_inclusion.py GEN_WORLDS must agree). *)
EXTENDS Inclusion, Json
CONSTANTS GWorld, MaxTick, SubTicks, HookTicks, MaxSubs, MaxErr
VARIABLES hist, lastq, nerr
gvars == <<vars, hist, lastq, nerr>>
S0 == 40
GConf == [flag |-> GWorld # "off", tps |-> 2, start |-> S0, off |-> (IF GWorld = "on2" THEN 1 ELSE 0), spe |-> 4]

D0 == [typ |-> "proposer", slot |-> S0, pk |-> "a", valid |-> TRUE, synth |-> FALSE, blinded |-> FALSE, fam |-> "el", r |-> 0,
       dindex |-> 0, v |-> None, comm |-> 0, pos |-> 0, bits |-> {}, size |-> 0]
Prop(sl, pk, synth, blinded) == [D0 EXCEPT !.slot = sl, !.pk = pk, !.synth = synth, !.blinded = blinded]
Att(sl, pk, r, v, comm, pos, size) ==
  [D0 EXCEPT !.typ = "attester", !.slot = sl, !.pk = pk, !.r = r, !.v = v, !.comm = comm, !.pos = pos, !.bits = {pos}, !.size = size]
Agg(sl, pk, r, comm, bits, size) == [D0 EXCEPT !.typ = "aggregator", !.slot = sl, !.pk = pk, !.r = r, !.comm = comm, !.bits = bits, !.size = size]
OnChain(r, aslot, cbits, bits, len) == [fam |-> "el", r |-> r, aslot |-> aslot, dindex |-> 0, cbits |-> cbits, bits |-> bits, len |-> len]
B(kind, atts) == [kind |-> kind, atts |-> atts]
Sizes(sl) == IF GWorld = "on2" THEN (IF sl % 2 = 0 THEN <<3, 2>> ELSE <<2, 3>>) ELSE <<2>>
(* validator 1: committee 0; validator 2: committee 0 (on1) / 1 (on2); positions change with the epoch in "on2"; the
   submissions of Data agree with this table (epoch 10 = slots 40..43, epoch 11 = slots 44..47) *)
DutyOf(ep, v) == IF GWorld = "on2" THEN [v |-> v, slot |-> ep * 4, comm |-> v - 1, pos |-> (ep + v) % 2]
                 ELSE [v |-> v, slot |-> ep * 4, comm |-> 0, pos |-> v - 1]
Data == CASE GWorld = "off" ->
               {Prop(S0 + 1, "a", FALSE, FALSE), Prop(S0 + 1, "a", FALSE, TRUE), Prop(S0 + 2, "b", FALSE, FALSE), Prop(S0 + 2, "c", TRUE, TRUE),
                [Prop(S0 + 1, "d", FALSE, FALSE) EXCEPT !.valid = FALSE], [Prop(S0 + 1, "a", FALSE, FALSE) EXCEPT !.typ = "randao"],
                Att(S0, "a", 1, 1, 0, 0, 2), Prop(S0 + 3, "a", FALSE, FALSE)}
          [] GWorld = "on1" ->
               {Att(S0, "a", 1, 1, 0, 0, 2), Att(S0, "b", 1, 2, 0, 1, 2), Att(S0, "b", 2, 2, 0, 1, 2), Agg(S0, "a", 1, 0, {0, 1}, 2),
                Agg(S0, "b", 1, 0, {1}, 2), Prop(S0 + 1, "a", FALSE, FALSE), Prop(S0 + 2, "a", FALSE, TRUE), Att(S0 + 4, "a", 1, 1, 0, 0, 2)}
          [] OTHER ->
               {Att(S0, "a", 1, 1, 0, 1, 3), Att(S0, "b", 1, 2, 1, 0, 2), Agg(S0, "a", 1, 1, {0, 1}, 2), Agg(S0, "b", 1, 0, {1}, 3),
                Prop(S0 + 1, "a", FALSE, FALSE), Att(S0 + 4, "a", 1, 1, 0, 0, 3)}
Blocks(sl) ==
  {B("err", <<>>), B("none", <<>>)} \cup
  (CASE GWorld = "off" -> {B("nil", <<>>), B("found", <<>>)}
     [] GWorld = "on1" ->
          IF sl <= S0 THEN {B("empty", <<>>)}
          ELSE {B("empty", <<>>), B("atts", <<OnChain(1, S0, <<0>>, {0}, 2)>>), B("atts", <<OnChain(1, S0, <<0>>, {1}, 2)>>),
                B("atts", <<OnChain(1, S0, <<0>>, {0}, 2), OnChain(1, S0, <<0>>, {1}, 2)>>),
                B("atts", <<OnChain(2, S0, <<0>>, {0, 1}, 2), OnChain(1, sl - 1, <<0>>, {0, 1}, 2)>>)}
     [] OTHER ->
          IF sl <= S0 THEN {B("empty", <<>>)}
          ELSE {B("atts", <<OnChain(1, S0, <<0, 1>>, {0, 4}, 5)>>), B("atts", <<OnChain(1, S0, <<0, 1>>, {1, 3}, 5)>>),
                B("atts", <<OnChain(1, S0, <<1>>, {0, 1}, 2), OnChain(1, S0, <<0>>, {0}, 3)>>),
                B("atts", <<OnChain(7, sl - 1, <<0>>, {0}, IF sl % 2 = 0 THEN 2 ELSE 3), OnChain(1, S0, <<0, 1>>, {0, 4}, 5)>>),
                B("atts", <<OnChain(1, S0, <<0, 1>>, {0, 4}, 5), OnChain(7, sl - 1, <<1>>, IF sl % 2 = 0 THEN {0} ELSE {1}, IF sl % 2 = 0 THEN 3 ELSE 2)>>)}
               \cup (IF sl > S0 + 4 THEN {B("atts", <<OnChain(1, S0 + 4, <<0, 1>>, {0, 4}, 5)>>)} ELSE {}))
RECURSIVE SeqOfSet(_)
SeqOfSet(S) == IF S = {} THEN <<>> ELSE LET m == CHOOSE x \in S : \A y \in S : x <= y IN <<m>> \o SeqOfSet(S \ {m})
DutyAnswers == {[err |-> TRUE, ds |-> <<>>],
                [err |-> FALSE, ds |-> LET vs == SeqOfSet(run.idx) IN [i \in DOMAIN vs |-> DutyOf(run.slot \div conf.spe, vs[i])]]}
CommAnswers == {[err |-> TRUE, sizes |-> <<>>], [err |-> FALSE, sizes |-> Sizes(Head(run.need))]}
Errs(b) == IF b THEN nerr + 1 ELSE nerr
Rec(e) == hist' = Append(hist, e)

GenInit == InitWith(GConf) /\ hist = <<>> /\ lastq = <<"", 0>> /\ nerr = 0
GenNext ==
  \/ /\ nid < MaxSubs
     /\ IF lastq[1] = "" THEN run.pc = "idle" /\ tick \in SubTicks ELSE tick \in HookTicks
     /\ \E d \in Data : Submit(d, 0) /\ Rec([ev |-> "Sub", tick |-> tick, q |-> lastq[1], state |-> lastq[2], d |-> d])
     /\ UNCHANGED <<lastq, nerr>>
  \/ tick < MaxTick /\ Tick /\ lastq' = <<"", 0>> /\ UNCHANGED <<hist, nerr>>
  \/ run.pc = "duties" /\ \E a \in DutyAnswers :
        Duties(a) /\ nerr' = Errs(a.err) /\ nerr' <= MaxErr /\ lastq' = <<"Dut", 0>> /\ Rec([ev |-> "Dut", tick |-> tick, err |-> a.err])
  \/ run.pc = "block" /\ \E a \in Blocks(run.slot) :
        Block(a) /\ nerr' = Errs(a.kind = "err") /\ nerr' <= MaxErr /\ lastq' = <<"Blk", 0>>
        /\ Rec([ev |-> "Blk", tick |-> tick, slot |-> run.slot, ans |-> a])
  \/ run.pc = "comms" /\ \E a \in CommAnswers :
        Comm(a) /\ nerr' = Errs(a.err) /\ nerr' <= MaxErr /\ lastq' = <<"Com", Head(run.need)>>
        /\ Rec([ev |-> "Com", tick |-> tick, state |-> Head(run.need), err |-> a.err])
  \/ (CheckOff \/ CheckOn \/ Trim) /\ lastq' = <<"", 0>> /\ UNCHANGED <<hist, nerr>>
GenSpec == GenInit /\ [][GenNext]_gvars
Emit == ~(tick = MaxTick /\ run.pc = "idle") \/ PrintT("@@SCHED@@" \o ToJson(hist))
====
