SPECIFICATION MCSpec
CONSTANTS
 CheckLag = 1
 MissedLag = 2
 Dev = {}
 Defect = "none"
 World = "p0"
 Flag = TRUE
 Tps = 2
 Off = 1
 MaxTick = 9
 MaxSubs = 5
 MaxErr = 2
INVARIANTS Safety
VIEW View
CHECK_DEADLOCK FALSE
