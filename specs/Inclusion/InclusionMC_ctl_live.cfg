SPECIFICATION FairSpec
CONSTANTS
 CheckLag = 1
 MissedLag = 2
 Dev = {}
 Defect = "none"
 World = "p"
 Flag = FALSE
 Tps = 2
 Off = 1
 MaxTick = 8
 MaxSubs = 2
 MaxErr = 1
PROPERTIES AllGone
CHECK_DEADLOCK FALSE
