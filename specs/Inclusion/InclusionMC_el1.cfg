SPECIFICATION MCSpec
CONSTANTS
 CheckLag = 1
 MissedLag = 2
 Dev = {}
 Defect = "none"
 World = "el1"
 Flag = TRUE
 Tps = 1
 Off = 0
 MaxTick = 4
 MaxSubs = 3
 MaxErr = 1
INVARIANTS Safety
VIEW View
CHECK_DEADLOCK FALSE
