---- MODULE InclusionTrace ----
(* Trace validation for core/tracker/inclusion.go.  The executor (harness/inclusion) runs tracker.NewInclusion + Run inside
   a testing/synctest bubble on a scripted beacon node; events carry the virtual time t in ms since the checker was started
   (the ticker of Run fires at t = 1000, 2000, ...):

     Reset  {sid, flag, dcache, tps, start, off, spe}          the world: feature flags, seconds per slot, start slot + seconds
     Sub    {in, typ, slot, ents: [{pk, kind, ver, ...}], wire, bcast}
                                                               InclusionChecker.Submitted(duty, set) is called (logged before);
                                                               in = TRUE: from inside the beacon-node call logged just before;
                                                               wire = TRUE: the Broadcaster edge of core.Wire + WithTracking is
                                                               invoked instead (bcast = what the stub broadcaster will return)
     Subm   {typ, slot, n, err}                                (wire) the checker's Submitted, called by the wiring, has returned
     Bcast  {typ, slot, n} / TrkB {typ, slot, n, err}          (wire) the stub broadcaster / the stub tracker's BroadcasterBroadcast is called
     SubRet {err}                                              ... has returned
     Dut    {via, epoch, idx, ans: {err, ds}}                  the Run loop asks for attester duties (logged with the scripted answer)
     Blk    {q, slot, ans: {kind, atts}}                       ... for the block / the block's attestations of a slot
     Com    {state, ans: {err, sizes}}                         ... for the committees of a slot
     Trk    {typ, slot, pk, ok}                                the tracker callback was called (err = nil?)
     Log    {msg, pk, blinded, bslot, aslot, idelay, bdelay}   a record of the production reporters
     End                                                       the executor stops the checker

   Sub, Dut, Blk, Com are bound to Submit (per entry of the set), Duties, Block, Comm with the logged arguments; what the
   loop asked for (epoch, validator indices, endpoint, slot, state) is compared with what the model's loop asks for.  Tick,
   CheckOff / CheckOn and Trim are silent; their reports (`out`) must then be observed, each as the contiguous sequence of
   records the code makes for one submission (warning, log record, tracker call), in any order of the submissions (Go map
   order) and completely, before the loop does anything else.  Unlogged choices: the order in which Go iterated the committee
   map of a data root (F3: TLC tries the permutations, the reports that follow prune them) and, when a Submitted call fails,
   which entries of its set had been stored before the invalid one.

   Strict = TRUE (cfg InclusionTrace.cfg, Dev = {}): the contract.  The deviation cfgs switch on named deviations of
   Inclusion.tla; ReportsRight is then not demanded (it is what the deviations break), Structural still is. *)
EXTENDS Inclusion, TraceCommon
CONSTANTS Strict
VARIABLES pend,    \* reports made but not yet observed
          cur,     \* the report whose records are being observed: [r, i] (i = next record), or NoCur
          sub      \* the Submitted call in progress: [typ, slot, t, ents, i, bad], or NoSub
tvars == <<vars, tr, l, pend, cur, sub>>
Cfg == Trace[1]
NoCur == [i |-> 0]
NoSub == [i |-> 0]
\* the name of a failed check is recorded only at the furthest event reached so far (other branches fail legitimately)
Named(name, p) == IF p THEN TRUE ELSE IF l >= TLCGet(1)[tr] THEN InvFail(name) ELSE FALSE
ConfOf(r) == [flag |-> r.flag, tps |-> r.tps, start |-> r.start, off |-> r.off, spe |-> r.spe]
TraceInit == TrInit /\ InitWith(ConfOf(Traces[tr][1])) /\ pend = {} /\ cur = NoCur /\ sub = NoSub

TickOf(t) == t \div 1000
AtTick == tick = TickOf(Ev.t)
Quiet == pend = {} /\ cur = NoCur /\ sub = NoSub
Obs == <<pend, cur, sub>>
FamOf(ver) == IF ver \in {"electra", "fulu"} THEN "el" ELSE "p0"

(* ---- Submitted ---- *)
DelayOf(t, d) == conf.off * 1000 + t + (conf.start - d) * conf.tps * 1000
ValidFor(typ, kind) == (typ = "proposer" /\ kind = "prop") \/ (typ = "attester" /\ kind = "att") \/ (typ = "aggregator" /\ kind = "agg")
DataOf(typ, slot, e) ==
  [typ |-> typ, slot |-> slot, pk |-> e.pk, valid |-> ValidFor(typ, e.kind), synth |-> e.synth, blinded |-> e.blinded,
   fam |-> FamOf(e.ver), r |-> e.r, dindex |-> IF FamOf(e.ver) = "p0" THEN e.comm ELSE 0, v |-> IF e.v < 0 THEN None ELSE e.v,
   comm |-> e.comm, pos |-> e.pos, bits |-> IF e.kind = "att" THEN {e.pos} ELSE SeqToSet(e.bits), size |-> e.size]
TReset == IsEvent("Reset") /\ l = 1 /\ UNCHANGED <<vars, Obs>>
TSub == /\ IsEvent("Sub") /\ Quiet /\ AtTick
        /\ (Ev.in \/ run.pc = "idle")
        /\ LET ds == [i \in DOMAIN Ev.ents |-> DataOf(Ev.typ, Ev.slot, Ev.ents[i])] IN
           sub' = [typ |-> Ev.typ, slot |-> Ev.slot, t |-> Ev.t, ds |-> ds, i |-> 1,
                   bad |-> \E i \in DOMAIN ds : SubmitEffect(ds[i]) = "error",
                   wire |-> Ev.wire, bc |-> Ev.bcast, st |-> "called"]
        /\ UNCHANGED <<vars, pend, cur>>
(* one entry of the set; when the call fails the entries that Go's map order put behind the invalid one were not stored *)
TSubStep == /\ Silent /\ sub # NoSub /\ sub.i <= Len(sub.ds) /\ cur = NoCur
            /\ \/ Submit(sub.ds[sub.i], DelayOf(sub.t, sub.slot)) /\ pend' = pend \cup out'
               \/ sub.bad /\ UNCHANGED <<vars, pend>>
            /\ sub' = [sub EXCEPT !.i = @ + 1] /\ UNCHANGED cur
TSubRet == /\ IsEvent("SubRet") /\ sub # NoSub /\ sub.i > Len(sub.ds) /\ AtTick
           /\ Named("SyntheticReported", pend = {} /\ cur = NoCur)
           /\ IF sub.wire THEN Named("BroadcastAndTracked", sub.st = "tracked") /\ Named("EdgeReturnsBroadcastError", Ev.err = (sub.bc = "err"))
                          ELSE Named("SubmitError", Ev.err = sub.bad)
           /\ sub' = NoSub /\ UNCHANGED <<vars, pend, cur>>
(* the wiring core.WithTracking puts around Broadcaster.Broadcast (wire mode): Submitted first ("Check inclusion even if we fail to
   broadcast, since peers may succeed") and whatever it returns; then the broadcaster with the same duty and set, exactly once;
   then the tracker is told the broadcaster's error; the edge returns that error *)
TSubm == /\ IsEvent("Subm") /\ sub # NoSub /\ sub.wire /\ sub.i > Len(sub.ds) /\ AtTick
         /\ Named("SyntheticReported", pend = {} /\ cur = NoCur)
         /\ Named("SubmittedOnce", sub.st = "called")
         /\ Named("SubmittedArgs", Ev.typ = sub.typ /\ Ev.slot = sub.slot /\ Ev.n = Len(sub.ds))
         /\ Named("SubmitError", Ev.err = sub.bad)
         /\ sub' = [sub EXCEPT !.st = "submitted"] /\ UNCHANGED <<vars, pend, cur>>
TBcast == /\ IsEvent("Bcast") /\ sub # NoSub /\ sub.wire /\ sub.i > Len(sub.ds) /\ AtTick
          /\ Named("SubmittedBeforeBroadcast", sub.st = "submitted")
          /\ Named("BroadcastArgs", Ev.typ = sub.typ /\ Ev.slot = sub.slot /\ Ev.n = Len(sub.ds))
          /\ sub' = [sub EXCEPT !.st = "bcast"] /\ UNCHANGED <<vars, pend, cur>>
TTrkB == /\ IsEvent("TrkB") /\ sub # NoSub /\ sub.wire /\ AtTick
         /\ Named("TrackerAfterBroadcast", sub.st = "bcast")
         /\ Named("TrackerBroadcastArgs", Ev.typ = sub.typ /\ Ev.slot = sub.slot /\ Ev.n = Len(sub.ds) /\ Ev.err = (sub.bc = "err"))
         /\ sub' = [sub EXCEPT !.st = "tracked"] /\ UNCHANGED <<vars, pend, cur>>

(* ---- the loop of Run ---- *)
AttOf(a) == [fam |-> FamOf(a.ver), r |-> a.r, aslot |-> a.aslot, dindex |-> a.dindex, cbits |-> a.cbits,
             bits |-> SeqToSet(a.bits), len |-> a.len]
TDut == /\ IsEvent("Dut") /\ Quiet /\ AtTick
        /\ run.pc = "duties"
        /\ Named("DutiesEpoch", Ev.epoch = run.slot \div conf.spe)
        /\ Named("DutiesIndices", SeqToSet(Ev.idx) = run.idx /\ Len(Ev.idx) = run.nidx)
        /\ Named("DutiesEndpoint", Ev.via = IF Cfg.dcache THEN "api" ELSE "cache")
        /\ Duties([err |-> Ev.ans.err, ds |-> Ev.ans.ds]) /\ UNCHANGED Obs
TBlk == /\ IsEvent("Blk") /\ Quiet /\ AtTick
        /\ run.pc = "block"
        /\ Named("BlockSlot", Ev.slot = run.slot)
        /\ Named("BlockEndpoint", Ev.q = IF conf.flag THEN "atts" ELSE "block")
        /\ Block([kind |-> Ev.ans.kind, atts |-> [i \in DOMAIN Ev.ans.atts |-> AttOf(Ev.ans.atts[i])]]) /\ UNCHANGED Obs
TCom == /\ IsEvent("Com") /\ Quiet /\ AtTick
        /\ run.pc = "comms"
        /\ Named("CommitteesState", Ev.state = Head(run.need))
        /\ Comm([err |-> Ev.ans.err, sizes |-> Ev.ans.sizes]) /\ UNCHANGED Obs

(* ---- the reports ---- *)
LogKind(r, what) == (CASE r.typ = "proposer" -> "blk" [] r.typ = "attester" -> "att" [] OTHER -> "agg") \o what
EvsOf(r) ==
  (IF r.warn THEN <<[e |-> "Log", msg |-> LogKind(r, "_chkerr")]>> ELSE <<>>) \o
  (CASE r.kind = "warnonly" -> <<>>
     [] r.phase = "submit" -> <<[e |-> "Trk"]>>
     [] r.kind = "incl" -> <<[e |-> "Log", msg |-> LogKind(r, "_incl")], [e |-> "Trk"]>>
     [] OTHER -> <<[e |-> "Log", msg |-> LogKind(r, "_miss")], [e |-> "Trk"]>>)
MatchLog(r, x) ==
  /\ Ev.msg = x.msg
  /\ CASE x.msg \in {"att_chkerr", "agg_chkerr"} -> TRUE
       [] x.msg = "blk_incl" -> Ev.pk = r.pk /\ Ev.bslot = r.bslot /\ Ev.blinded = r.blinded /\ Ev.bdelay = r.delay
       [] x.msg = "blk_miss" -> Ev.pk = r.pk /\ Ev.bslot = r.slot /\ Ev.blinded = r.blinded /\ Ev.bdelay = r.delay
       [] x.msg \in {"att_incl", "agg_incl"} ->
            Ev.pk = r.pk /\ Ev.bslot = r.bslot /\ Ev.aslot = r.slot /\ Ev.idelay = r.bslot - r.slot /\ Ev.bdelay = r.delay
       [] OTHER -> Ev.pk = r.pk /\ Ev.aslot = r.slot /\ Ev.bdelay = r.delay
MatchTrk(r) == Ev.typ = r.typ /\ Ev.slot = r.slot /\ Ev.pk = r.pk /\ Ev.ok = (r.trk = "ok")
Observe(e) ==
  /\ IsEvent(e) /\ AtTick
  /\ \E r \in (IF cur = NoCur THEN pend ELSE {cur.r}) :
       LET i == IF cur = NoCur THEN 1 ELSE cur.i
           xs == EvsOf(r)
       IN /\ i <= Len(xs) /\ xs[i].e = e
          /\ IF e = "Log" THEN MatchLog(r, xs[i]) ELSE MatchTrk(r)
          /\ IF i = Len(xs) THEN pend' = pend \ {r} /\ cur' = NoCur ELSE cur' = [r |-> r, i |-> i + 1] /\ pend' = pend
  /\ UNCHANGED <<vars, sub>>
TLog == Observe("Log")
TTrk == Observe("Trk")
(* a report with nothing to observe (cannot arise: every report has a record) would block the trace; drop it *)
TEnd == /\ IsEvent("End") /\ AtTick
        /\ Quiet /\ run.pc = "idle"
        /\ UNCHANGED <<vars, Obs>>

(* ---- silent steps of the loop: never while a submission from inside a beacon-node call is still to come ---- *)
HookNext == l <= TLen /\ Ev.ev = "Sub" /\ Ev.in
TSilent == /\ Silent /\ Quiet /\ ~HookNext /\ l > 1
           /\ \/ (CheckOff \/ CheckOn \/ Trim) /\ pend' = out'
              \/ l <= TLen /\ tick < TickOf(Ev.t) /\ Tick /\ pend' = pend
           /\ UNCHANGED <<cur, sub>>
\* a name recorded at an earlier position says nothing about the furthest one: forget it when the trace advances
HWReset == IF l > TLCGet(1)[tr] THEN TLCSet(2, [TLCGet(2) EXCEPT ![tr] = "-"]) ELSE TRUE
TraceNext == TReset \/ TSub \/ TSubStep \/ TSubRet \/ TSubm \/ TBcast \/ TTrkB \/ TDut \/ TBlk \/ TCom \/ TLog \/ TTrk \/ TEnd \/ TSilent
TraceSpec == TraceInit /\ [][TraceNext]_tvars
Mark == /\ CheckInv("ReportsRight", Strict => ReportsRight) /\ CheckInv("Prompt", Strict => Prompt)
        /\ CheckInv("Structural", Structural)
        /\ HWReset /\ HWMark
====
