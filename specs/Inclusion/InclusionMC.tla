---- MODULE InclusionMC ----
(* Exhaustive design check of Inclusion.tla in small worlds.  All bounds are here, none in the actions:
     World     which submissions / blocks / committee sizes / duties the environment can produce (below)
     MaxTick   the clock stops there          MaxSubs  number of Submitted calls
     MaxErr    beacon-node errors             Tps, Off the ticker against the slot raster
   The lags of the model are small (CheckLag = 1, MissedLag = 2 in the cfgs); the chain is at slot S0 = CheckLag + MissedLag
   when the checker starts so that nothing wraps around (world "early" starts at slot 1: F6).  Worlds:
     "p"     proposals only (flag off or on): plain / blinded / synthetic / invalid data / a duty type that is not tracked
     "p0"    flag on, one committee of two, Phase0 layout: two attesters, an aggregate, a proposal
     "el1"   the same with the Electra layout
     "el2"   Electra, two committees of different size, another slot's attestation in the same block (other sizes)
     "ep"    Electra, the attestation's slot is the last of its epoch; the validator has another position in the next epoch *)
EXTENDS Inclusion
CONSTANTS World, Flag, Tps, Off, MaxTick, MaxSubs, MaxErr
VARIABLES nerr
mvars == <<vars, nerr>>

S0 == IF World = "early" THEN 1 ELSE CheckLag + MissedLag
Spe == IF World = "ep" THEN S0 + 1 ELSE 100
MCConf == [flag |-> Flag, tps |-> Tps, start |-> S0, off |-> Off, spe |-> Spe]
Fam == IF World = "p0" THEN "p0" ELSE "el"

D0 == [typ |-> "proposer", slot |-> S0, pk |-> "a", valid |-> TRUE, synth |-> FALSE, blinded |-> FALSE, fam |-> "-", r |-> 0,
       dindex |-> 0, v |-> None, comm |-> 0, pos |-> 0, bits |-> {}, size |-> 0]
Prop(sl, pk, synth, blinded) == [D0 EXCEPT !.slot = sl, !.pk = pk, !.synth = synth, !.blinded = blinded]
Att(sl, pk, r, v, comm, pos, size) ==
  [D0 EXCEPT !.typ = "attester", !.slot = sl, !.pk = pk, !.fam = Fam, !.r = r, !.dindex = IF Fam = "p0" THEN comm ELSE 0,
             !.v = v, !.comm = comm, !.pos = pos, !.bits = {pos}, !.size = size]
Agg(sl, pk, r, comm, bits, size) ==
  [D0 EXCEPT !.typ = "aggregator", !.slot = sl, !.pk = pk, !.fam = Fam, !.r = r, !.dindex = IF Fam = "p0" THEN comm ELSE 0,
             !.comm = comm, !.bits = bits, !.size = size]
OnChain(r, aslot, cbits, bits, len) ==
  [fam |-> Fam, r |-> r, aslot |-> aslot, dindex |-> 0, cbits |-> cbits, bits |-> bits, len |-> len]
B(kind, atts) == [kind |-> kind, atts |-> atts]

Data == CASE World \in {"p", "early"} ->
               {Prop(S0 + 1, "a", FALSE, FALSE), Prop(S0 + 1, "a", FALSE, TRUE), Prop(S0 + 2, "b", FALSE, FALSE), Prop(S0 + 1, "c", TRUE, FALSE),
                [Prop(S0 + 1, "d", FALSE, FALSE) EXCEPT !.valid = FALSE], [Prop(S0 + 1, "a", FALSE, FALSE) EXCEPT !.typ = "randao"],
                Att(S0, "a", 1, 1, 0, 0, 2)}
          [] World \in {"p0", "el1"} ->
               {Att(S0, "a", 1, 1, 0, 0, 2), Att(S0, "b", 1, 2, 0, 1, 2), Agg(S0, "a", 1, 0, {0, 1}, 2), Prop(S0 + 1, "a", FALSE, FALSE)}
          [] World = "el2" ->
               {Att(S0, "a", 1, 1, 0, 1, 3), Att(S0, "b", 1, 2, 1, 1, 2), Agg(S0, "a", 1, 1, {0, 1}, 2)}
          [] OTHER -> {Att(S0, "a", 1, 1, 0, 1, 2), Att(S0, "b", 1, 2, 0, 0, 2)}
(* what the beacon node can answer when asked for the block of slot sl *)
Blocks(sl) ==
  {B("err", <<>>), B("none", <<>>)} \cup
  (CASE ~Flag -> {B("nil", <<>>), B("found", <<>>)}
     [] World \in {"p", "early"} -> {B("empty", <<>>), B("atts", <<OnChain(9, sl - 1, <<0>>, {0}, 2)>>)}
     [] World \in {"p0", "el1", "ep"} ->
          IF sl <= S0 THEN {B("empty", <<>>)}
          ELSE {B("empty", <<>>), B("atts", <<OnChain(1, S0, <<0>>, {0}, 2)>>), B("atts", <<OnChain(1, S0, <<0>>, {1}, 2)>>),
                B("atts", <<OnChain(1, S0, <<0>>, {0}, 2), OnChain(1, S0, <<0>>, {1}, 2)>>),
                B("atts", <<OnChain(2, S0, <<0>>, {0, 1}, 2), OnChain(1, sl - 1, <<0>>, {0, 1}, 2)>>)}
     [] OTHER ->  \* el2: sizes <<3, 2>> at S0, <<2, 3>> elsewhere
          IF sl <= S0 THEN {B("empty", <<>>)}
          ELSE {B("atts", <<OnChain(1, S0, <<0, 1>>, {1, 4}, 5)>>), B("atts", <<OnChain(1, S0, <<0, 1>>, {0, 3}, 5)>>),
                B("atts", <<OnChain(1, S0, <<1>>, {0, 1}, 2), OnChain(1, S0, <<0>>, {1}, 3)>>),
                B("atts", <<OnChain(7, S0 + 1, <<0>>, {0}, 2), OnChain(1, S0, <<0, 1>>, {1, 4}, 5)>>),
                B("atts", <<OnChain(1, S0, <<0, 1>>, {1, 4}, 5), OnChain(7, S0 + 1, <<1>>, {0}, 3)>>)})
Sizes(sl) == IF World = "el2" THEN (IF sl = S0 THEN <<3, 2>> ELSE <<2, 3>>) ELSE <<2>>
DutyOf(ep, v) == CASE World = "ep" -> [v |-> v, slot |-> IF ep = 0 THEN S0 ELSE S0 + 1, comm |-> 0, pos |-> IF ep = 0 THEN v % 2 ELSE (v + 1) % 2]
                   [] World = "el2" -> [v |-> v, slot |-> S0, comm |-> v - 1, pos |-> 1]
                   [] OTHER -> [v |-> v, slot |-> S0, comm |-> 0, pos |-> v - 1]
RECURSIVE SeqOfSet(_)
SeqOfSet(S) == IF S = {} THEN <<>> ELSE LET m == CHOOSE x \in S : \A y \in S : x <= y IN <<m>> \o SeqOfSet(S \ {m})
DutyAnswers == {[err |-> TRUE, ds |-> <<>>],
                [err |-> FALSE, ds |-> LET vs == SeqOfSet(run.idx) IN [i \in DOMAIN vs |-> DutyOf(run.slot \div conf.spe, vs[i])]]}
CommAnswers == {[err |-> TRUE, sizes |-> <<>>], [err |-> FALSE, sizes |-> Sizes(Head(run.need))]}
Errs(b) == IF b THEN nerr + 1 ELSE nerr

RunStep == \/ run.pc = "duties" /\ \E a \in DutyAnswers : Duties(a) /\ nerr' = Errs(a.err) /\ nerr' <= MaxErr
           \/ run.pc = "block" /\ \E a \in Blocks(run.slot) : Block(a) /\ nerr' = Errs(a.kind = "err") /\ nerr' <= MaxErr
           \/ run.pc = "comms" /\ \E a \in CommAnswers : Comm(a) /\ nerr' = Errs(a.err) /\ nerr' <= MaxErr
           \/ (CheckOff \/ CheckOn \/ Trim) /\ UNCHANGED nerr
MCInit == InitWith(MCConf) /\ nerr = 0
MCNext ==
  \/ \E d \in Data : nid < MaxSubs /\ Submit(d, 0) /\ UNCHANGED nerr
  \/ tick < MaxTick /\ Tick /\ UNCHANGED nerr
  \/ RunStep
MCSpec == MCInit /\ [][MCNext]_mvars

(* `out` (the reports of the last action) is what the contract is stated over, the rest of the ghost state (done, lost, over)
   feeds it; the view keeps the truth value of the invariants so that a violating state is never identified with a good one *)
View == <<conf, tick, subs, comms, checked, run, nerr, nid, done, Safety>>

(* Liveness: with a ticker that keeps firing and a beacon node that answers, the loop always returns to its idle state and
   at the end of the run nothing older than the last Trim bound is left (the model's clock stops at MaxTick; submissions
   stop one tick before) *)
LiveNext ==
  \/ \E d \in Data : nid < MaxSubs /\ tick < MaxTick - 1 /\ Submit(d, 0) /\ UNCHANGED nerr
  \/ tick < MaxTick /\ Tick /\ UNCHANGED nerr
  \/ RunStep
FairSpec == MCInit /\ [][LiveNext]_mvars /\ WF_mvars(tick < MaxTick /\ Tick /\ UNCHANGED nerr) /\ WF_mvars(RunStep)
LoopReturns == []<>(run.pc = "idle")
ClockRuns == <>(tick = MaxTick /\ run.pc = "idle")
(* every submission made early enough is reported (or replaced): with MaxErr < Tps every slot is checked *)
LastBound == (S0 + (Off + MaxTick) \div Tps) - CheckLag - MissedLag
AllReported == <>[](\A k \in DOMAIN subs : subs[k].slot > LastBound \/ subs[k].fresh)
(* NOT a property (control): "every stored submission is eventually reported" fails for the young ones when the clock stops *)
AllGone == <>(tick = MaxTick /\ subs = <<>>)
====
