SPECIFICATION TraceSpec
CONSTANTS
 CheckLag = 6
 MissedLag = 32
 Dev = {"F1", "F2", "F3", "F4", "F6", "F7"}
 Defect = "none"
 Strict = FALSE
CONSTRAINT Mark
POSTCONDITION Report
CHECK_DEADLOCK FALSE
