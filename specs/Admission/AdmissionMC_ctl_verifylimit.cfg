SPECIFICATION MCBigSpec
CONSTANTS N = 3
 V = 5
 DropVerify = "none"
 SkipPropMatch = FALSE
 SkipGater = FALSE
 UseSenderIdx = FALSE
 SwapEpochFor = "none"
 SignedGater = FALSE
 InnerProofPolicy = "reject"
 VCBatchPolicy = "none"
 AggBatchFor = "none"
 MemoVerifier = FALSE
 DomainCache = FALSE
 PeerVerifyLimit = 4
 ReplayPolicy = "admit"
INVARIANTS TypeOK OnlyValidEnter ValidEnters PeerAllOrNothing
CHECK_DEADLOCK FALSE
