---- MODULE AdmissionTrace ----
(* Trace validation for C10.  One trace per schedule; the executor (harness/c10) instantiates the schedule's cases
   with real objects and real BLS key shares, calls the REAL handler synchronously (validatorapi.Component.<endpoint> or
   parsigex's handle via the build-tag hook VerifHandle; fresh component instances per schedule, the SAME instances
   for all calls of a schedule) and logs what happened:
     {"ev":"Reset","sid":n,"N":shares,"V":validators in the lock}
     {"ev":"Submit","c":{path,kind,ver,node,sender,val,alt,ai,as}}        a single-element call, the case as received
                                                                           from the model; the calls of one schedule
                                                                           carry the same signature bytes (SameSig)
                                                                           or are a fork sequence (ForkSeq: fresh
                                                                           objects of one kind / validator / share
                                                                           placed in different fork versions)
     {"ev":"SubmitBatch","c":{...,"pat":{vs,cs,ss,bad}}}                  one call with 2..3 elements
     {"ev":"SubmitBig","c":{...,"alt":"big","ai":K,"bad":[class of entry k | ""]}}   one peer message with K entries; the
                                                                           executor delivers it to several fresh
                                                                           instances: one trace per delivery
     {"ev":"Deliver","k":entry of the submission (0: not one of them),"val":validator label of the set key,
                     "idx":ShareIdx of the delivered ParSignedData,"dt":duty type the subscriber was called with}
                                                                           one per entry a subscriber received
     {"ev":"Return","err":handler returned an error}                      after every call
   The handlers are synchronous, so everything a submission caused has happened when the call returns.
   Whether a rejection is reported with an error is not constrained (the statement is about what enters).
   Latitude (cfg): InnerProofPolicy = "either", VCBatchPolicy = "either", ReplayPolicy = "either" - the statement is
   silent there. *)
EXTENDS Admission, TraceCommon
tvars == <<vars, tr, l>>
TraceInit == Init /\ TrInit
\* membership in Cases, without building the set
IsBase(c) == /\ c.path \in {"vc", "peer"} /\ c.ver \in VersionsOf(c.kind)
             /\ c.node \in 1..N /\ c.val \in 1..V /\ c.sender = SenderOf(c.path, c.node)
IsCase(c) == /\ c.path \in {"vc", "peer"} /\ c.kind \in KindsOn(c.path) /\ IsBase(c)
             /\ A(c.alt, c.ai, c.as) \in AltsOf(c.path, c.kind, Own(c), c.val)
IsBatchCase(b) == /\ b.path \in {"vc", "peer"} /\ b.kind \in BatchKindsOn(b.path) /\ IsBase(b)
                  /\ b.alt = "batch" /\ b.pat \in PatternsOf(b.path, b.kind)
TReset == IsEvent("Reset") /\ l = 1 /\ Ev.N = N /\ Ev.V = V /\ UNCHANGED vars
TSubmit == /\ IsEvent("Submit") /\ IsCase(Ev.c) /\ (IF calls = <<>> THEN TRUE ELSE (SameSig(calls[1], Ev.c) \/ ForkSeq(calls[1], Ev.c)))
           /\ Submit(Ev.c)
TSubmitBatch == IsEvent("SubmitBatch") /\ IsBatchCase(Ev.c) /\ SubmitBatch(Ev.c)
IsBigCase(b) == /\ b.path = "peer" /\ b.kind \in Kinds /\ b.ver = DefVer(b.kind) /\ b.node \in 1..N /\ b.val = 1
                /\ b.sender = SenderOf("peer", b.node) /\ b.alt = "big" /\ b.as = "" /\ b.ai \in BigKs
                /\ b.bad \in BigPatternsOf(b.ai)
TSubmitBig == IsEvent("SubmitBig") /\ IsBigCase(Ev.c) /\ SubmitBig(Ev.c)
TDeliver == /\ IsEvent("Deliver") /\ Ev.k \in DOMAIN msg.entries /\ Deliver(Ev.k)
            /\ Ev.val = msg.entries[Ev.k].val /\ Ev.idx = msg.entries[Ev.k].idx /\ Ev.dt = msg.dt
TReturn == IsEvent("Return") /\ Return
TraceNext == TReset \/ TSubmit \/ TSubmitBatch \/ TSubmitBig \/ TDeliver \/ TReturn
TraceSpec == TraceInit /\ [][TraceNext]_tvars
Mark == /\ CheckInv("TypeOK", TypeOK) /\ CheckInv("OnlyValidEnter", OnlyValidEnter)
        /\ CheckInv("ValidEnters", ValidEnters) /\ CheckInv("PeerAllOrNothing", PeerAllOrNothing)
        /\ HWMark
====
