---- MODULE AdmissionTrace ----
(* Trace validation for C10.  One trace per abstract case; the executor (harness/c10) instantiates the case with real
   objects and real BLS key shares, calls the REAL handler synchronously (validatorapi.Component.<endpoint> or
   parsigex's handle via the build-tag hook VerifHandle) and logs what happened:
     {"ev":"Reset","sid":n,"N":shares,"V":validators in the lock}
     {"ev":"Submit","c":{path,kind,ver,node,sender,val,alt,ai,as}}        the case as received from the model
     {"ev":"Deliver","k":entry of the submission (0: not one of them),"val":validator label of the set key,
                     "idx":ShareIdx of the delivered ParSignedData,"dt":duty type the subscriber was called with}
                                                                           one per entry a subscriber received
     {"ev":"Return","err":handler returned an error}
   The handlers are synchronous, so everything a submission caused has happened when the call returns.
   Whether a rejection is reported with an error is not constrained (the statement is about what enters).
   Latitude (cfg): InnerProofPolicy = "either", VCBatchPolicy = "either" - the statement is silent there. *)
EXTENDS Admission, TraceCommon
tvars == <<vars, tr, l>>
TraceInit == Init /\ TrInit
\* membership in Cases, without building the set
IsCase(c) == /\ c.path \in {"vc", "peer"} /\ c.kind \in KindsOn(c.path) /\ c.ver \in VersionsOf(c.kind)
             /\ c.node \in 1..N /\ c.val \in 1..V /\ c.sender = (IF c.path = "vc" THEN 0 ELSE (c.node % N) + 1)
             /\ A(c.alt, c.ai, c.as) \in AltsOf(c.path, c.kind, Own(c), c.val)
TReset == IsEvent("Reset") /\ l = 1 /\ Ev.N = N /\ Ev.V = V /\ UNCHANGED vars
TSubmit == IsEvent("Submit") /\ IsCase(Ev.c) /\ Submit(Ev.c)
TDeliver == /\ IsEvent("Deliver") /\ Ev.k \in 1..2 /\ Deliver(Ev.k)
            /\ Ev.val = msg.entries[Ev.k].val /\ Ev.idx = msg.entries[Ev.k].idx /\ Ev.dt = msg.dt
TReturn == IsEvent("Return") /\ l = TLen /\ Return
TraceNext == TReset \/ TSubmit \/ TDeliver \/ TReturn
TraceSpec == TraceInit /\ [][TraceNext]_tvars
Mark == /\ CheckInv("TypeOK", TypeOK) /\ CheckInv("OnlyValidEnter", OnlyValidEnter)
        /\ CheckInv("ValidEnters", ValidEnters) /\ CheckInv("PeerAllOrNothing", PeerAllOrNothing)
        /\ HWMark
====
