---- MODULE AdmissionGen ----
(* Schedule source: TLC enumerates EVERY case of the design spec (breadth-first, no simulation needed: the behaviours
   are one environment move long) and prints it as a two-step schedule.  Only the environment's move (the abstract
   submission) is recorded; what the handler does with it is the implementation's business.  The Cfg step carries the
   model's endpoint list (the executor cross-checks it against the exported method set of validatorapi.Component)
   and the model's signing tables - domain name and epoch source per type - from which the executor signs. *)
EXTENDS Admission, Json
VARIABLE hist
GenInit == Init /\ hist = <<>>
GenNext == phase = "idle" /\ \E c \in CasesOn(Paths) : Submit(c) /\ hist' = <<[ev |-> "Cfg", N |-> N, V |-> V, endpoints |-> Endpoints,
                                                    dom |-> Dom, esrc |-> EpochSource],
                                                   [ev |-> "Submit", c |-> c]>>
GenSpec == GenInit /\ [][GenNext]_<<vars, hist>>
Emit == hist = <<>> \/ PrintT("@@SCHED@@" \o ToJson(hist))
====
