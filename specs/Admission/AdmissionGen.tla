---- MODULE AdmissionGen ----
(* Schedule source: TLC enumerates EVERY case of the design spec (breadth-first, no simulation needed: the
   environment chooses the whole schedule with its first move) and prints it as a schedule.  Only the environment's
   moves (the abstract submissions) are recorded; what the handler does with them is the implementation's business.
   Five families (one TLC run each; "big" - one peer message with 5..24 entries - with its own, larger V): "single" one single-element call, "batch" one call with 2..3 elements,
   "seq" 2..3 calls that carry the same signature, "fseq" 2..3 calls whose objects lie in different fork versions.  The Cfg step carries the model's endpoint list (the executor
   cross-checks it against the exported method set of validatorapi.Component) and the model's signing tables -
   domain name and epoch source per type - from which the executor signs. *)
EXTENDS Admission, Json
CONSTANT GenFamily
VARIABLE hist
CfgStep == [ev |-> "Cfg", N |-> N, V |-> V, endpoints |-> Endpoints, dom |-> Dom, esrc |-> EpochSource]
GenInit == Init /\ hist = <<>>
GenNext == /\ phase = "idle"
           /\ \/ GenFamily = "single" /\ \E c \in CasesOn(Paths) : Submit(c) /\ hist' = <<CfgStep, [ev |-> "Submit", c |-> c]>>
              \/ GenFamily = "batch" /\ \E b \in BatchCasesOn(Paths) : SubmitBatch(b) /\ hist' = <<CfgStep, [ev |-> "SubmitBatch", c |-> b]>>
              \/ GenFamily = "big" /\ \E b \in BigCases : SubmitBig(b) /\ hist' = <<CfgStep, [ev |-> "SubmitBig", c |-> b]>>
              \/ GenFamily = "seq" /\ \E q \in SeqsOn(Paths) :
                     Submit(q[1]) /\ hist' = <<CfgStep>> \o [i \in 1..Len(q) |-> [ev |-> "Submit", c |-> q[i]]]
              \/ GenFamily = "fseq" /\ \E q \in ForkSeqsOn(Paths) :
                     Submit(q[1]) /\ hist' = <<CfgStep>> \o [i \in 1..Len(q) |-> [ev |-> "Submit", c |-> q[i]]]
GenSpec == GenInit /\ [][GenNext]_<<vars, hist>>
Emit == hist = <<>> \/ PrintT("@@SCHED@@" \o ToJson(hist))
====
