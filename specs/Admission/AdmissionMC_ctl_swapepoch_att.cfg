SPECIFICATION MCSpec
CONSTANTS N = 3
 V = 2
 DropVerify = "none"
 SkipPropMatch = FALSE
 SkipGater = FALSE
 UseSenderIdx = FALSE
 SwapEpochFor = "attestation"
 SignedGater = FALSE
 InnerProofPolicy = "reject"
 VCBatchPolicy = "none"
 AggBatchFor = "none"
 MemoVerifier = FALSE
 DomainCache = FALSE
 PeerVerifyLimit = 0
 ReplayPolicy = "admit"
INVARIANTS OnlyValidEnter
CHECK_DEADLOCK FALSE
