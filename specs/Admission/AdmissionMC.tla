---- MODULE AdmissionMC ----
(* Exhaustive design check: every case (path x kind x data version x node x validator x alteration) is submitted to
   the handler transcription; the property-level invariants must hold in every reachable state.  The control
   configurations switch one check of the transcription off and MUST violate OnlyValidEnter. *)
EXTENDS Admission
MCSpec == Spec
\* the large peer sets on their own (V >= 5); control PeerVerifyLimit = 4 MUST violate OnlyValidEnter
MCBigSpec == BigSpec
====
