SPECIFICATION TraceSpec
CONSTANTS N = 4
 V = 24
 DropVerify = "none"
 SkipPropMatch = FALSE
 SkipGater = FALSE
 UseSenderIdx = FALSE
 SwapEpochFor = "none"
 SignedGater = FALSE
 InnerProofPolicy = "either"
 VCBatchPolicy = "either"
 AggBatchFor = "none"
 MemoVerifier = FALSE
 DomainCache = FALSE
 PeerVerifyLimit = 0
 ReplayPolicy = "either"
CONSTRAINT Mark
POSTCONDITION Report
CHECK_DEADLOCK FALSE
