SPECIFICATION MCSpec
CONSTANTS N = 3
 V = 2
 DropVerify = "none"
 SkipPropMatch = FALSE
 SkipGater = FALSE
 UseSenderIdx = FALSE
 InnerProofPolicy = "either"
 VCBatchPolicy = "either"
INVARIANTS Safety
CHECK_DEADLOCK FALSE
