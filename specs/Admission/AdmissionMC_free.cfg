SPECIFICATION MCSpec
CONSTANTS N = 3
 V = 2
 DropVerify = "none"
 SkipPropMatch = FALSE
 SkipGater = FALSE
 UseSenderIdx = FALSE
 SwapEpochFor = "none"
 SignedGater = FALSE
 InnerProofPolicy = "either"
 VCBatchPolicy = "either"
 AggBatchFor = "none"
 MemoVerifier = FALSE
 DomainCache = FALSE
 PeerVerifyLimit = 0
 ReplayPolicy = "either"
INVARIANTS TypeOK OnlyValidEnter ValidEnters PeerAllOrNothing
CHECK_DEADLOCK FALSE
