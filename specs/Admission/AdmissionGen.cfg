SPECIFICATION GenSpec
CONSTANTS N = 4
 V = 3
 DropVerify = "none"
 SkipPropMatch = FALSE
 SkipGater = FALSE
 UseSenderIdx = FALSE
 SwapEpochFor = "none"
 SignedGater = FALSE
 InnerProofPolicy = "reject"
 VCBatchPolicy = "none"
INVARIANTS Emit
CHECK_DEADLOCK FALSE
