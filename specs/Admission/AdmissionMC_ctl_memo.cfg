SPECIFICATION MCSpec
CONSTANTS N = 3
 V = 2
 DropVerify = "none"
 SkipPropMatch = FALSE
 SkipGater = FALSE
 UseSenderIdx = FALSE
 SwapEpochFor = "none"
 SignedGater = FALSE
 InnerProofPolicy = "reject"
 VCBatchPolicy = "none"
 AggBatchFor = "none"
 MemoVerifier = TRUE
 DomainCache = FALSE
 PeerVerifyLimit = 0
 ReplayPolicy = "admit"
INVARIANTS TypeOK OnlyValidEnter ValidEnters PeerAllOrNothing
CHECK_DEADLOCK FALSE
