SPECIFICATION MCSpec
CONSTANTS N = 4
 V = 3
 DropVerify = "none"
 SkipPropMatch = FALSE
 SkipGater = FALSE
 UseSenderIdx = FALSE
 SwapEpochFor = "none"
 SignedGater = FALSE
 InnerProofPolicy = "reject"
 VCBatchPolicy = "none"
 AggBatchFor = "none"
 MemoVerifier = FALSE
 DomainCache = FALSE
 PeerVerifyLimit = 0
 ReplayPolicy = "admit"
INVARIANTS TypeOK OnlyValidEnter ValidEnters PeerAllOrNothing
CHECK_DEADLOCK FALSE
