SPECIFICATION MCSpec
CONSTANTS N = 3
 V = 2
 DropVerify = "attestation"
 SkipPropMatch = FALSE
 SkipGater = FALSE
 UseSenderIdx = FALSE
 InnerProofPolicy = "reject"
 VCBatchPolicy = "none"
INVARIANTS Safety
CHECK_DEADLOCK FALSE
