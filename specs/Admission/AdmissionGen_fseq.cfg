SPECIFICATION GenSpec
CONSTANTS N = 4
 GenFamily = "fseq"
 V = 3
 DropVerify = "none"
 SkipPropMatch = FALSE
 SkipGater = FALSE
 UseSenderIdx = FALSE
 SwapEpochFor = "none"
 SignedGater = FALSE
 InnerProofPolicy = "reject"
 VCBatchPolicy = "none"
 AggBatchFor = "none"
 MemoVerifier = FALSE
 DomainCache = FALSE
 PeerVerifyLimit = 0
 ReplayPolicy = "admit"
INVARIANTS Emit
CHECK_DEADLOCK FALSE
