---- MODULE Admission ----
(* C10 - only partial signatures valid for the claimed key share enter a node.

   A case-analysis specification.  A node admits partial signatures on two paths:
     "vc"    its validator client submits to one of the intercepting endpoints of core/validatorapi/validatorapi.go
     "peer"  a peer's ParSigExMsg arrives at core/parsigex/parsigex.go handle()
   "Admitted" = the entry is handed to the subscribers (parsigdb.StoreInternal -> broadcast to peers / StoreExternal ->
   threshold -> aggregation).

   Data abstraction.  The cluster lock is Lock[v][i] = the abstract key <<v,i>> (public share i of validator v).
   A submitted entry is a record
      val    claimed validator: 1..V in the lock, V+1 known to the beacon node but not in the lock, 0 unknown
      idx    claimed share index (vc path: always the node's own; peer path: the ShareIdx field of the message)
      sk     "bls" a well-formed signature | "zero" the all-zero signature | "malformed" not a curve point/short
      by     the key share that produced the signature
      over   the content the signature was made over         cur   the content actually submitted
      sdom   the domain the signer used                       ddom  the domain of the submitted object's own type
      sfork  "cur" signer used the fork version at the content's epoch | "other"
      inner  the selection proof embedded in an aggregate / contribution verifies under the validator's group key
   Crypto abstraction (DESIGN section 3): a signature verifies under key K for an object iff it was made by K over
   that object's root with that object's domain and fork version.

   The admission rule is PER ELEMENT and HISTORY-FREE: element e of a submission / peer set may enter only if
   Valid(e) - for every element of a multi-element request independently (whatever the other elements are: a batch
   whose individual errors cancel in a sum is still a batch of invalid elements), and whatever the node verified
   before (a signature seen earlier on another object proves nothing about this object).  What the unchanged code does
   with the REST of a request that has a bad element is transcribed as coded (validator API: the whole call fails,
   nothing of it is handed on; peer: the whole set is dropped) - the statement itself only demands that the bad
   element stays out, and that nothing of a peer set with a bad entry enters.
   Beyond the single-element cases there are therefore (a) BATCH cases: 2..3 elements in one request, every
   assignment of the elements' valid signatures to the elements (permutations: element k carries the signature
   that is valid for element j; same signing root for all, so that sums cancel, or different ones), one bad element
   at each position, duplicates, two elements of one validator; and (b) SEQUENCES of 2..3 calls to the same
   component that all carry the SAME signature bytes: the valid object, the object with one signed field changed, the
   object filed under another duty type, a well-formed object of another kind - in every order, incl. exact replays;
   and (c) FORK SEQUENCES: 2..3 calls to the same component whose (fresh, individually signed) objects lie in
   DIFFERENT fork versions, in ascending and in descending order of their epochs: a valid object wholly in fork b
   ("laterFork": all its time fields in b, signed with b), an object wholly in b signed with a ("laterForkBad"), the
   plain object in a, the object in a signed with b ("wrongFork"), the fork-straddling objects.  The verdict of each
   call is what Valid / MayEnter / MustEnter say for that call ALONE - only an implementation could remember the fork
   version it resolved for an earlier call (control DomainCache);
   and (d) LARGE PEER SETS: one peer message with the partial signatures of K = 5, 8, 12, 24 different validators
   (same duty, the sender's share index): all valid (every entry must enter), ONE bad entry (signed by another share /
   by another validator's share / content changed after signing / validator not in the lock; first or last validator),
   two bad entries - nothing of a set with a bad entry may enter, however many entries the set has and wherever the
   bad one sits (control PeerVerifyLimit: only some entries of a set are verified).

   Two descriptions are related here: Valid/MayEnter is the property as stated; PeerAdmits/VCEntryOK transcribe the
   checks of the code in the order the code makes them.  The model checker shows that the transcription implies the
   property for every case (and that each control variant - one check dropped - does not); trace validation shows
   that the real handlers behave like the transcription on every case. *)
EXTENDS Integers, Sequences, FiniteSets, TLC

CONSTANTS N,                \* shares (= nodes) per validator, indices 1..N
          V,                \* validators in the cluster lock, 1..V  (V >= 2)
          DropVerify,       \* control: kind whose VC handler skips verifyPartialSig ("none" = as coded)
          SkipPropMatch,    \* control: SubmitProposal without propDataMatchesDuty
          SkipGater,        \* control: parsigex.handle without the duty gater
          SwapEpochFor,     \* control: kind whose Epoch() is taken from its OTHER time field (attestation: the slot,
                            \* aggregate: the target epoch) instead of the type's epoch source ("none" = as coded)
          SignedGater,      \* control: the duty gater computes epochs in int64 (a slot >= 2^63 turns negative)
          UseSenderIdx,     \* control: the eth2 verifier looks the share up by the sender instead of data.ShareIdx
          InnerProofPolicy, \* "reject" as coded | "either": the statement is silent about the embedded selection proof
          VCBatchPolicy,    \* "none" as coded (one bad entry fails the whole VC request) | "either" for the valid siblings
          AggBatchFor,      \* control: kind whose VC handler checks a request with ONE aggregate verification per signing root
                            \* (sum of the signatures against the sum of the claimed public shares) ("none" = as coded)
          MemoVerifier,     \* control: the peer verifier remembers (public share, signature) of verified partials and
                            \* admits a remembered pair without looking at the object it now comes with
          PeerVerifyLimit,  \* control: parsigex.handle verifies only this many entries (any of them) of a set (0 = as coded: all)
          DomainCache,      \* control: the validator API remembers, per domain type, the signing domain of the LATEST epoch
                            \* it resolved one for, and uses it for every object of that or an earlier epoch
          ReplayPolicy      \* "admit" as coded (no handler keeps a history: a re-submitted valid partial enters again) |
                            \* "either": the statement is silent about exact re-submissions

Versions7 == {"phase0", "altair", "bellatrix", "capella", "deneb", "electra", "fulu"}
Kinds == {"attestation", "proposal", "blinded", "randao", "exit", "registration", "bcselection", "aggregate",
          "aggregate_legacy", "syncmsg", "scselection", "contribution"}
VersionsOf(k) == CASE k \in {"attestation", "proposal", "aggregate"} -> Versions7
                   [] k = "blinded" -> {"bellatrix", "capella", "deneb", "electra", "fulu"}
                   [] OTHER -> {"-"}
\* core/eth2signeddata.go DomainName() per type
Dom == [attestation |-> "DOMAIN_BEACON_ATTESTER", proposal |-> "DOMAIN_BEACON_PROPOSER", blinded |-> "DOMAIN_BEACON_PROPOSER",
        randao |-> "DOMAIN_RANDAO", exit |-> "DOMAIN_VOLUNTARY_EXIT", registration |-> "DOMAIN_APPLICATION_BUILDER",
        bcselection |-> "DOMAIN_SELECTION_PROOF", aggregate |-> "DOMAIN_AGGREGATE_AND_PROOF",
        aggregate_legacy |-> "DOMAIN_AGGREGATE_AND_PROOF", syncmsg |-> "DOMAIN_SYNC_COMMITTEE",
        scselection |-> "DOMAIN_SYNC_COMMITTEE_SELECTION_PROOF", contribution |-> "DOMAIN_CONTRIBUTION_AND_PROOF"]
\* The epoch whose fork version goes into the signing domain, per type (consensus spec; core/eth2signeddata.go
\* Epoch()): "target" the attestation's target epoch, "slot" the epoch of the object's slot, "epoch" the epoch the
\* object itself carries (it has no slot), "genesis" the builder domain is pinned to the genesis fork version.
EpochSource == [attestation |-> "target", proposal |-> "slot", blinded |-> "slot", randao |-> "epoch", exit |-> "epoch",
                registration |-> "genesis", bcselection |-> "slot", aggregate |-> "slot", aggregate_legacy |-> "slot",
                syncmsg |-> "slot", scselection |-> "slot", contribution |-> "slot"]
\* types whose signing domain depends on the epoch of the object (all but the builder registration)
ForkKind(k) == EpochSource[k] # "genesis"
\* types that carry a slot AND an attestation target epoch: the two can lie on opposite sides of a fork activation
TwoTimes(k) == k \in {"attestation", "aggregate", "aggregate_legacy"}
\* core.DutyType numbers (core/types.go); the duty a handler files the entry under
DutyOf == [attestation |-> 2, proposal |-> 1, blinded |-> 1, randao |-> 7, exit |-> 4, registration |-> 6,
           bcselection |-> 8, aggregate |-> 9, aggregate_legacy |-> 9, syncmsg |-> 10, scselection |-> 11,
           contribution |-> 12]
\* the type core.ParSignedDataFromProto decodes for a claimed duty type, by its domain; "none": no eth2 signed data
DomOfDuty(dt) == CASE dt = 1 -> "DOMAIN_BEACON_PROPOSER" [] dt = 2 -> "DOMAIN_BEACON_ATTESTER"
                   [] dt = 4 -> "DOMAIN_VOLUNTARY_EXIT" [] dt = 6 -> "DOMAIN_APPLICATION_BUILDER"
                   [] dt = 7 -> "DOMAIN_RANDAO" [] dt = 8 -> "DOMAIN_SELECTION_PROOF"
                   [] dt = 9 -> "DOMAIN_AGGREGATE_AND_PROOF" [] dt = 10 -> "DOMAIN_SYNC_COMMITTEE"
                   [] dt = 11 -> "DOMAIN_SYNC_COMMITTEE_SELECTION_PROOF" [] dt = 12 -> "DOMAIN_CONTRIBUTION_AND_PROOF"
                   [] OTHER -> "none"
\* the intercepting endpoints of validatorapi.Component that take signed input
VCKinds == Kinds \ {"aggregate_legacy"}
Endpoint == [attestation |-> "SubmitAttestations", proposal |-> "SubmitProposal", blinded |-> "SubmitBlindedProposal",
             randao |-> "Proposal", exit |-> "SubmitVoluntaryExit", registration |-> "SubmitValidatorRegistrations",
             bcselection |-> "BeaconCommitteeSelections", aggregate |-> "SubmitAggregateAttestations",
             syncmsg |-> "SubmitSyncCommitteeMessages", scselection |-> "SyncCommitteeSelections",
             contribution |-> "SubmitSyncCommitteeContributions"]
Endpoints == {Endpoint[k] : k \in VCKinds}
\* the fields of each type that are covered by its signing root
FieldsOf(k) == CASE k = "attestation" -> {"slot", "index", "root", "source", "target"}
                 [] k \in {"proposal", "blinded"} -> {"slot", "proposer", "parent", "state", "body"}
                 [] k = "randao" -> {"epoch"}
                 [] k = "exit" -> {"epoch", "validator"}
                 [] k = "registration" -> {"fee", "gas", "timestamp", "pubkey"}
                 [] k = "bcselection" -> {"slot"}
                 [] k \in {"aggregate", "aggregate_legacy"} -> {"slot", "aggidx", "attroot", "proof"}
                 [] k = "syncmsg" -> {"root"}       \* the slot only selects the domain's fork
                 [] k = "scselection" -> {"slot", "subcomm"}
                 [] k = "contribution" -> {"slot", "root", "subcomm", "aggidx", "proof"}
DomSeq == <<"DOMAIN_BEACON_PROPOSER", "DOMAIN_BEACON_ATTESTER", "DOMAIN_RANDAO", "DOMAIN_VOLUNTARY_EXIT",
            "DOMAIN_APPLICATION_BUILDER", "DOMAIN_SELECTION_PROOF", "DOMAIN_AGGREGATE_AND_PROOF",
            "DOMAIN_SYNC_COMMITTEE", "DOMAIN_SYNC_COMMITTEE_SELECTION_PROOF", "DOMAIN_CONTRIBUTION_AND_PROOF">>
OtherDoms(k) == LET i == CHOOSE j \in 1..Len(DomSeq) : DomSeq[j] = Dom[k]
                IN  {DomSeq[(i % Len(DomSeq)) + 1], DomSeq[((i + 1) % Len(DomSeq)) + 1], "DOMAIN_DEPOSIT"}
\* does the submission itself name the validator?  (proposals and randao reveals are attributed to the scheduled proposer)
HasClaim(p, k) == p = "peer" \/ k \notin {"proposal", "blinded", "randao"}
ListEndpoint(k) == k \in {"attestation", "bcselection", "aggregate", "syncmsg", "scselection", "contribution"}
ClaimedDutyTypes == {0, 1, 2, 3, 4, 5, 6, 7, 8, 9, 10, 11, 12, 13, 14, 99}

(* ------------------------------------------------ the cases ------------------------------------------------ *)
A(a, i, s) == [alt |-> a, ai |-> i, as |-> s]
\* "foreignSig": a well-formed object of kind k that carries the signature the same share made over a (valid) object
\* of kind SrcKind[k] (a permutation of the validator-API kinds; the legacy aggregate takes the versioned one's)
SrcKind == [attestation |-> "syncmsg", syncmsg |-> "attestation", proposal |-> "blinded", blinded |-> "proposal",
            randao |-> "registration", exit |-> "randao", registration |-> "exit", bcselection |-> "scselection",
            scselection |-> "bcselection", aggregate |-> "contribution", contribution |-> "aggregate",
            aggregate_legacy |-> "aggregate"]
AltsOf(p, k, own, v) ==
       {A("none", 0, ""), A("zeroSig", 0, ""), A("badSig", 0, ""), A("wrongFork", 0, ""), A("foreignSig", 0, SrcKind[k])}
  \cup {A("otherShare", j, "") : j \in (1..N) \ {own}}
  \cup {A("otherVal", w, "") : w \in (1..V) \ {v}}
  \cup {A("wrongDomain", 0, d) : d \in OtherDoms(k)}
  \cup {A("field", 0, f) : f \in FieldsOf(k)}
  \cup (IF HasClaim(p, k) THEN {A("unknownLock", 0, "")} ELSE {})
  \cup (IF p = "vc" /\ HasClaim(p, k) THEN {A("unknownBN", 0, "")} ELSE {})
  \cup (IF p = "vc" /\ k \in {"proposal", "blinded"} THEN {A("payload", 0, "body"), A("payload", 0, "proposer")} ELSE {})
  \cup (IF p = "vc" /\ k \in {"aggregate", "contribution"} THEN {A("innerProof", 0, "")} ELSE {})
  \cup (IF p = "peer" \/ ListEndpoint(k) THEN {A("mixedFirst", 0, ""), A("mixedSecond", 0, "")} ELSE {})
  \* slot just before a fork activation and target epoch at it ("before"), or slot at it and target epoch before
  \* ("after"); signed with the fork version of the type's epoch source (OK) or of the other time field (Bad)
  \cup (IF TwoTimes(k) THEN {A(a, 0, side) : a \in {"straddleOK", "straddleBad"}, side \in {"before", "after"}} ELSE {})
  \* the object wholly in the NEXT fork version b (every time field of it), signed with b (valid) / with a (Bad)
  \cup (IF ForkKind(k) THEN {A("laterFork", 0, ""), A("laterForkBad", 0, "")} ELSE {})
  \cup (IF p = "peer" THEN {A("idx0", 0, ""), A("idxN1", 0, ""), A("future", 0, ""), A("futureEdge", 0, "")}
                           \* an out-of-range claimed index CONGRUENT to the signing share's own index modulo 2^8 / 2^16 / 2^32
                           \* (the wire field is an int32: j in -2..4 selects own - 2*256, own - 256, own + 256, own + 2*256,
                           \* own + 65536, own - 65536, own + 2^24); every narrowing of the index maps it onto a real share
                           \cup {A("idxWrap", j, "") : j \in 1..7}
                           \* the wire-supplied duty slot is 2^63, 2^63 + the current slot, 2^64 - 1
                           \cup {A("hugeSlot", 0, x) : x \in {"2p63", "2p63now", "max"}}
                           \cup {A("idxOther", j, "") : j \in (1..N) \ {own}}
                           \cup {A("dutyType", d, "") : d \in ClaimedDutyTypes \ {DutyOf[k]}}
                      ELSE {})
KindsOn(p) == IF p = "vc" THEN VCKinds ELSE Kinds
\* vc: `node` is the node under test, sender unused (0).  peer: `sender` is the peer whose key share signs, the
\* receiving node is the next one.
SenderOf(p, node) == IF p = "vc" THEN 0 ELSE (node % N) + 1
Case(p, k, ver, node, val, a) == [path |-> p, kind |-> k, ver |-> ver, node |-> node, sender |-> SenderOf(p, node),
                                  val |-> val, alt |-> a.alt, ai |-> a.ai, as |-> a.as]
CasesOf(p, k) ==
  UNION {{Case(p, k, t[1], t[2], t[3], a) : a \in AltsOf(p, k, IF p = "vc" THEN t[2] ELSE (t[2] % N) + 1, t[3])} :
         t \in VersionsOf(k) \X (1..N) \X (1..V)}
\* (an operator with a parameter, so that TLC does not evaluate the whole set eagerly at start-up of every run)
CasesOn(paths) == UNION {CasesOf(pk[1], pk[2]) : pk \in {pk \in paths \X Kinds : pk[2] \in KindsOn(pk[1])}}
Paths == {"vc", "peer"}

(* --- batches: n = 2..3 elements in ONE request.  A pattern says, per element k: vs[k] the validator (offset from the
   case's `val`), cs[k] the content (elements with equal cs have the same signing root - where the kind's signing
   root does not name the validator), ss[k] whose valid signature the element carries (j: the signature that is
   valid for element j, i.e. made by element j's validator's share over element j's content; ss[k] = k: its own;
   0: the class bad[k]) --- *)
Cid == <<"c1", "c2", "c3">>
\* kinds whose signing root does not name the validator ... / ... and is nothing but the slot (epoch, subcommittee)
Shareable(k) == k \in {"attestation", "syncmsg", "bcselection", "scselection", "randao"}
MustShare(k) == k \in {"bcselection", "scselection", "randao"}
BadClasses == {"otherShare", "otherVal", "zeroSig", "field"}
BatchKindsOn(p) == IF p = "vc" THEN {k \in VCKinds : ListEndpoint(k)} \cup {"registration"} ELSE Kinds
DefVer(k) == IF VersionsOf(k) = {"-"} THEN "-" ELSE "deneb"
FewVersionsOf(k) == IF VersionsOf(k) = {"-"} THEN {"-"} ELSE {"deneb", "electra"}
Pat(vs, cs, ss, bad) == [vs |-> vs, cs |-> cs, ss |-> ss, bad |-> bad]
Iota(n) == [k \in 1..n |-> k]
Const(n, x) == [k \in 1..n |-> x]
Offs(n) == [k \in 1..n |-> k - 1]
ContentOpts(k, n) == (IF Shareable(k) THEN {Const(n, 1)} ELSE {}) \cup (IF MustShare(k) THEN {} ELSE {Iota(n)})
NatContent(k, n) == IF Shareable(k) THEN Const(n, 1) ELSE Iota(n)
PatternsOf(p, k) ==
  LET \* distinct validators: every assignment of the elements' valid signatures to the elements
      maps == UNION {{Pat(Offs(n), cs, ss, Const(n, "")) : cs \in ContentOpts(k, n), ss \in [1..n -> 1..n]} : n \in 2..3}
      \* one bad element among good ones, at each position
      oneBad == UNION {{Pat(Offs(n), NatContent(k, n), [j \in 1..n |-> IF j = q THEN 0 ELSE j],
                            [j \in 1..n |-> IF j = q THEN b ELSE ""]) : q \in 1..n, b \in BadClasses} : n \in 2..3}
      \* (validator API only: a peer set has one entry per validator) two elements of ONE validator: exact
      \* duplicate; other content, own / swapped / copied signatures; around an element of another validator
      c2 == IF Shareable(k) THEN 1 ELSE 3
      sameVal == {Pat(<<0, 0>>, <<1, 1>>, <<1, 2>>, <<"", "">>)}
                 \cup {Pat(<<0, 0>>, <<1, 2>>, ss, <<"", "">>) : ss \in [1..2 -> 1..2]}
                 \cup {Pat(<<0, 1, 0>>, <<1, c2, 1>>, <<1, 2, 3>>, <<"", "", "">>),
                       Pat(<<0, 1, 0>>, <<1, c2, 2>>, <<1, 2, 3>>, <<"", "", "">>),
                       Pat(<<0, 1, 0>>, <<1, c2, 2>>, <<3, 2, 1>>, <<"", "", "">>)}
  IN
  IF k \in BatchKindsOn(p)
  THEN {q \in maps \cup oneBad \cup (IF p = "vc" THEN sameVal ELSE {}) : \A j \in DOMAIN q.vs : q.vs[j] < V}
  ELSE {}
BatchCasesOf(p, k) ==
  UNION {{Case(p, k, t[1], t[2], t[3], A("batch", 0, "")) @@ [pat |-> q] : q \in PatternsOf(p, k)} :
         t \in FewVersionsOf(k) \X (1..N) \X (1..V)}
BatchCasesOn(paths) == UNION {BatchCasesOf(pk[1], pk[2]) : pk \in {pk \in paths \X Kinds : pk[2] \in BatchKindsOn(pk[1])}}

(* --- sequences: the calls of one schedule all carry the SAME signature bytes - the signature share `own` of validator
   `val` made over the original object of kind OKind (version OVer) --- *)
SeqAlt(c) == c.alt \in {"none", "field", "dutyType", "foreignSig"}
OKind(c) == IF c.alt = "foreignSig" THEN c.as ELSE c.kind
OVer(c) == IF c.alt = "foreignSig" THEN DefVer(c.as) ELSE c.ver
SameSig(c1, c) == /\ SeqAlt(c1) /\ SeqAlt(c) /\ c.path = c1.path /\ c.node = c1.node /\ c.sender = c1.sender
                  /\ c.val = c1.val /\ OKind(c) = OKind(c1) /\ OVer(c) = OVer(c1)
\* the calls the model checker and the generator follow a first call with (the trace specification accepts every
\* SameSig call): the object itself, one field changed, filed under one other duty type, another kind's object
SeqAltsOf(p, k) == {A("none", 0, "")} \cup {A("field", 0, f) : f \in FieldsOf(k)}
                   \cup (IF p = "peer" /\ DutyOf[SrcKind[k]] # DutyOf[k] THEN {A("dutyType", DutyOf[SrcKind[k]], "")} ELSE {})
SeqCase(c) == SeqAlt(c) /\ (c.alt = "dutyType" => c.ai = DutyOf[SrcKind[c.kind]])
FollowSet(c1) ==
  LET k1 == OKind(c1)  v1 == OVer(c1)  p == c1.path
  IN  {Case(p, k1, v1, c1.node, c1.val, a) : a \in SeqAltsOf(p, k1)}
      \cup (IF v1 = DefVer(k1)
            THEN {Case(p, k2, DefVer(k2), c1.node, c1.val, A("foreignSig", 0, k1)) : k2 \in {k \in KindsOn(p) : SrcKind[k] = k1}}
            ELSE {})
SeqsOf(p, k) ==
  UNION {LET S == FollowSet(Case(p, k, t[1], t[2], t[3], A("none", 0, "")))
             none == Case(p, k, t[1], t[2], t[3], A("none", 0, ""))
         IN  {<<x, y>> : x \in S, y \in S}
             \cup {q \in {<<x, y, z>> : x \in S, y \in S, z \in S} :
                     \/ q[1] = none /\ q[2] = none          \* valid, replay, anything
                     \/ q[2] = none /\ q[3] = q[1]          \* altered, valid, the same altered one
                     \/ q[1] = none /\ q[3] = none          \* valid, altered, valid
                     \/ q[1] = none /\ q[3] = q[2]} :       \* valid, altered, altered again
         t \in FewVersionsOf(k) \X (1..N) \X (1..V)}
SeqsOn(paths) == UNION {SeqsOf(pk[1], pk[2]) : pk \in {pk \in paths \X Kinds : pk[2] \in KindsOn(pk[1])}}

(* --- fork sequences: the calls of one schedule go to the same component instances and submit FRESH objects (each
   with its own valid-or-altered signature) of one kind, validator and share that lie in different fork versions.
   Pairs: every ordered pair of two different members of ForkSeqAltsOf; triples: the four plain members only,
   alternating between the fork versions (a b a / b a b), no member twice. --- *)
CoreForkAlts == {A("none", 0, ""), A("wrongFork", 0, ""), A("laterFork", 0, ""), A("laterForkBad", 0, "")}
ForkSeqAltsOf(k) == CoreForkAlts
                    \cup (IF TwoTimes(k) THEN {A(a, 0, side) : a \in {"straddleOK", "straddleBad"}, side \in {"before", "after"}} ELSE {})
InB(c) == c.alt \in {"laterFork", "laterForkBad"}
ForkAlt(c) == ForkKind(c.kind) /\ A(c.alt, c.ai, c.as) \in ForkSeqAltsOf(c.kind)
\* what the trace specification accepts as calls of one fork sequence
ForkSeq(c1, c) == /\ ForkAlt(c1) /\ ForkAlt(c) /\ c.path = c1.path /\ c.node = c1.node /\ c.sender = c1.sender
                  /\ c.val = c1.val /\ c.kind = c1.kind /\ c.ver = c1.ver
\* the calls the model checker and the generator follow the calls cs (1..2 of them) with
ForkFollow(cs) ==
  LET c1 == cs[1]
      S == {Case(c1.path, c1.kind, c1.ver, c1.node, c1.val, a) : a \in ForkSeqAltsOf(c1.kind)}
      core(c) == A(c.alt, c.ai, c.as) \in CoreForkAlts
  IN  IF ~(ForkAlt(c1) /\ c1.ver \in FewVersionsOf(c1.kind)) THEN {}
      ELSE IF Len(cs) = 1 THEN S \ {c1}
      ELSE IF core(c1) /\ core(cs[2]) /\ InB(c1) # InB(cs[2])
           THEN {c \in S : core(c) /\ c # c1 /\ c # cs[2] /\ InB(c) # InB(cs[2])}
           ELSE {}
ForkSeqsOf(p, k) ==
  IF ~ForkKind(k) THEN {}
  ELSE UNION {LET first == {Case(p, k, t[1], t[2], t[3], a) : a \in ForkSeqAltsOf(k)}
                  pairs == UNION {{<<x, y>> : y \in ForkFollow(<<x>>)} : x \in first}
              IN  pairs \cup UNION {{Append(q, z) : z \in ForkFollow(q)} : q \in pairs} :
              t \in FewVersionsOf(k) \X (1..N) \X (1..V)}
ForkSeqsOn(paths) == UNION {ForkSeqsOf(pk[1], pk[2]) : pk \in {pk \in paths \X Kinds : pk[2] \in KindsOn(pk[1])}}

(* --- large peer sets: ONE peer message with the entries of validators 1..K (K = the case's `ai`), all signed with the
   sender's share; bad[k] = "" a valid entry, otherwise the class of the one alteration of entry k --- *)
BigKs == {K \in {5, 8, 12, 24} : K <= V}
BigBadSeq == <<"otherShare", "otherVal", "field", "unknownLock">>
BigBadClasses == {BigBadSeq[i] : i \in 1..4}
NextBad(b) == LET i == CHOOSE j \in 1..4 : BigBadSeq[j] = b IN BigBadSeq[(i % 4) + 1]
BigPatternsOf(K) ==
  LET good == [k \in 1..K |-> ""]
  IN  {good} \cup {[good EXCEPT ![q] = b] : q \in {1, K}, b \in BigBadClasses}
             \cup {[good EXCEPT ![1] = b, ![K] = NextBad(b)] : b \in BigBadClasses}
BigCasesOf(k) ==
  UNION {{Case("peer", k, DefVer(k), t[1], 1, A("big", t[2], "")) @@ [bad |-> q] : q \in BigPatternsOf(t[2])} :
         t \in (1..N) \X BigKs}
BigCases == UNION {BigCasesOf(k) : k \in Kinds}

\* As coded: go-eth2-client's VersionedSignedProposal.Slot() answers "unsupported version" for phase0 and altair
\* blocks, so both handlers refuse them whatever the signature.  The statement is silent about such objects.
Supported(k, ver) == ~(k = "proposal" /\ ver \in {"phase0", "altair"})
Own(c) == IF c.path = "vc" THEN c.node ELSE c.sender
\* the original content of the schedule's object of kind k
O(k) == "orig:" \o k
Base(v, own, k) == [val |-> v, idx |-> own, sk |-> "bls", by |-> <<v, own>>, over |-> O(k), cur |-> O(k),
                    sdom |-> Dom[k], ddom |-> Dom[k], inner |-> TRUE,
                    \* fork versions: "a" is active at the object's slot in the plain cases, "b" is the next one
                    esrc |-> EpochSource[k], slotFork |-> "a", tgtFork |-> "a", sfork |-> "a"]
\* the fork version the object's own signing domain is built from
OwnFork(e) == IF e.esrc = "target" THEN e.tgtFork ELSE e.slotFork
OtherFork(f) == IF f = "a" THEN "b" ELSE "a"
Straddle(e, side) == IF side = "before" THEN [e EXCEPT !.slotFork = "a", !.tgtFork = "b"]
                     ELSE [e EXCEPT !.slotFork = "b", !.tgtFork = "a"]
Alter(e, c) ==
  CASE c.alt = "otherShare" -> [e EXCEPT !.by = <<e.val, c.ai>>]
    [] c.alt = "otherVal" -> [e EXCEPT !.by = <<c.ai, e.idx>>]
    [] c.alt = "wrongDomain" -> [e EXCEPT !.sdom = c.as]
    [] c.alt = "wrongFork" -> [e EXCEPT !.sfork = "b"]
    [] c.alt = "laterFork" -> [e EXCEPT !.slotFork = "b", !.tgtFork = "b", !.sfork = "b"]
    [] c.alt = "laterForkBad" -> [e EXCEPT !.slotFork = "b", !.tgtFork = "b", !.sfork = "a"]
    [] c.alt = "straddleOK" -> LET x == Straddle(e, c.as) IN [x EXCEPT !.sfork = OwnFork(x)]
    [] c.alt = "straddleBad" -> LET x == Straddle(e, c.as) IN [x EXCEPT !.sfork = OtherFork(OwnFork(x))]
    [] c.alt = "field" -> [e EXCEPT !.cur = c.as]
    [] c.alt = "foreignSig" -> [e EXCEPT !.over = O(c.as), !.sdom = Dom[c.as]]
    [] c.alt = "zeroSig" -> [e EXCEPT !.sk = "zero"]
    [] c.alt = "badSig" -> [e EXCEPT !.sk = "malformed"]
    [] c.alt = "unknownLock" -> [e EXCEPT !.val = V + 1, !.by = <<V + 1, e.idx>>]
    [] c.alt = "unknownBN" -> [e EXCEPT !.val = 0]
    [] c.alt = "innerProof" -> [e EXCEPT !.inner = FALSE]
    [] c.alt = "idx0" -> [e EXCEPT !.idx = 0]
    [] c.alt = "idxN1" -> [e EXCEPT !.idx = N + 1]
    [] c.alt = "idxWrap" -> [e EXCEPT !.idx = N + 1 + c.ai]      \* some index outside 1..N: the abstraction keeps no more
    [] c.alt = "idxOther" -> [e EXCEPT !.idx = c.ai]
    [] c.alt = "dutyType" -> [e EXCEPT !.ddom = DomOfDuty(c.ai)]
    [] OTHER -> e
\* second entry of the two-entry cases: another validator, signed with a foreign share
Bad2(c) == LET v2 == (c.val % V) + 1  o == Own(c)
           IN [Base(v2, o, c.kind) EXCEPT !.by = <<v2, (o % N) + 1>>]
Msg(c) == [path |-> c.path, kind |-> c.kind, node |-> IF c.path = "vc" THEN c.node ELSE (c.sender % N) + 1,
           sender |-> c.sender, alt |-> c.alt,
           entries |-> CASE c.alt = "mixedFirst" -> <<Bad2(c), Base(c.val, Own(c), c.kind)>>
                         [] c.alt = "mixedSecond" -> <<Base(c.val, Own(c), c.kind), Bad2(c)>>
                         [] OTHER -> <<Alter(Base(c.val, Own(c), c.kind), c)>>,
           dt |-> IF c.alt = "dutyType" THEN c.ai ELSE DutyOf[c.kind],
           window |-> CASE c.alt = "future" -> "beyond" [] c.alt = "futureEdge" -> "edge"
                        [] c.alt = "hugeSlot" -> "huge" [] OTHER -> "in",
           payload |-> c.alt # "payload",
           supported |-> Supported(c.kind, c.ver)]
NoMsg == [path |-> "-", kind |-> "-", node |-> 0, sender |-> 0, alt |-> "-", entries |-> <<>>, dt |-> 0,
          window |-> "in", payload |-> TRUE, supported |-> TRUE]
\* the elements of a batch
BVal(b, k) == ((b.val - 1 + b.pat.vs[k]) % V) + 1
BEntry(b, k) ==
  LET q == b.pat  own == Own(b)  v == BVal(b, k)
      e == [Base(v, own, b.kind) EXCEPT !.cur = Cid[q.cs[k]], !.over = Cid[q.cs[k]]]
  IN  IF q.ss[k] # 0 THEN [e EXCEPT !.over = Cid[q.cs[q.ss[k]]], !.by = <<BVal(b, q.ss[k]), own>>]
      ELSE CASE q.bad[k] = "otherShare" -> [e EXCEPT !.by = <<v, (own % N) + 1>>]
             [] q.bad[k] = "otherVal" -> [e EXCEPT !.by = <<(v % V) + 1, own>>]
             [] q.bad[k] = "zeroSig" -> [e EXCEPT !.sk = "zero"]
             [] q.bad[k] = "field" -> [e EXCEPT !.cur = "changed"]
MsgB(b) == [path |-> b.path, kind |-> b.kind, node |-> IF b.path = "vc" THEN b.node ELSE (b.sender % N) + 1,
            sender |-> b.sender, alt |-> "batch", entries |-> [k \in DOMAIN b.pat.vs |-> BEntry(b, k)],
            dt |-> DutyOf[b.kind], window |-> "in", payload |-> TRUE, supported |-> Supported(b.kind, b.ver)]
\* the entries of a large peer set
BigEntry(b, k) ==
  LET own == Own(b)  e == Base(k, own, b.kind)
  IN  CASE b.bad[k] = "" -> e
        [] b.bad[k] = "otherShare" -> [e EXCEPT !.by = <<k, (own % N) + 1>>]
        [] b.bad[k] = "otherVal" -> [e EXCEPT !.by = <<(k % b.ai) + 1, own>>]
        [] b.bad[k] = "field" -> [e EXCEPT !.cur = "changed"]
        [] b.bad[k] = "unknownLock" -> [e EXCEPT !.val = V + 1, !.by = <<V + 1, own>>]
MsgBig(b) == [path |-> "peer", kind |-> b.kind, node |-> (b.sender % N) + 1, sender |-> b.sender, alt |-> "big",
              entries |-> [k \in 1..b.ai |-> BigEntry(b, k)], dt |-> DutyOf[b.kind], window |-> "in", payload |-> TRUE,
              supported |-> Supported(b.kind, b.ver)]

(* ------------------------------------------ the property, as stated ---------------------------------------- *)
Valid(e) == /\ e.sk = "bls" /\ e.val \in 1..V /\ e.idx \in 1..N
            /\ e.by = <<e.val, e.idx>> /\ e.over = e.cur /\ e.sdom = e.ddom /\ e.sfork = OwnFork(e)
DutyTypeValid(dt) == dt \in 1..13
\* per element, and without any reference to what was submitted or verified before
MayEnter(m, k) ==
  /\ Valid(m.entries[k])
  /\ m.path = "vc" => m.entries[k].idx = m.node
  /\ m.path = "peer" => /\ DutyTypeValid(m.dt) /\ m.window \notin {"beyond", "huge"}
                        /\ \A j \in DOMAIN m.entries : Valid(m.entries[j])     \* nothing of a message with a bad entry
  /\ (m.path = "vc" /\ m.kind \in {"proposal", "blinded"}) => m.payload
\* sanity of the whole arrangement: an unaltered submission does enter (except where the endpoint ignores its input);
\* a batch of valid elements of different validators enters entirely
DistinctVals(m) == \A j, k \in DOMAIN m.entries : j # k => m.entries[j].val # m.entries[k].val
MustEnter(m) == /\ \/ m.alt \in {"none", "futureEdge", "straddleOK", "laterFork"}
                   \/ m.alt \in {"batch", "big"} /\ DistinctVals(m) /\ \A k \in DOMAIN m.entries : Valid(m.entries[k])
                /\ ~(m.path = "vc" /\ m.kind = "registration") /\ m.supported

(* ------------------------------------------------ the machine ---------------------------------------------- *)
VARIABLES msg, phase, delivered,
          calls,       \* the cases submitted so far in this schedule
          seen,        \* MemoVerifier only: the (public share, signature) pairs the peer verifier has accepted
          admitted,    \* ReplayPolicy = "either" only: the entries admitted by earlier calls
          dcache       \* DomainCache only: <<domain type, fork version>> of the latest epoch a domain was resolved for
vars == <<msg, phase, delivered, calls, seen, admitted, dcache>>

(* ------------------------------------------ the handlers, as coded ----------------------------------------- *)
Lock == [v \in 1..V |-> [i \in 1..N |-> <<v, i>>]]
\* core.VerifyEth2SignedData -> signing.Verify: data root from the object's DomainName/Epoch/MessageRoot, the zero
\* signature is refused, then tbls.Verify
CodeFork(m, e) == IF DomainCache /\ m.path = "vc" /\ <<e.ddom, "b">> \in dcache THEN "b"
                  ELSE IF SwapEpochFor = m.kind THEN (IF e.esrc = "target" THEN e.slotFork ELSE e.tgtFork)
                  ELSE OwnFork(e)                                               \* data.Epoch(ctx, eth2Cl)
\* what a domain-remembering validator API would have added to its memo during the current call (every entry of the
\* request is taken to reach the domain lookup; b is the later of the two fork versions)
ResolvedNow == IF msg.path = "vc"
               THEN {<<msg.entries[k].ddom, "b">> : k \in {j \in DOMAIN msg.entries : OwnFork(msg.entries[j]) = "b"}}
               ELSE {}
VerifyEth2(key, e, m) == /\ e.ddom # "none"                   \* "invalid eth2 signed data"
                         /\ e.sk # "zero"                     \* "no signature found"
                         /\ e.sk = "bls" /\ e.by = key /\ e.over = e.cur /\ e.sdom = e.ddom /\ e.sfork = CodeFork(m, e)
\* the signature bytes (BLS signing is deterministic): who signed what under which domain
SigId(e) == <<e.sk, e.by, e.over, e.sdom, e.sfork>>
\* parsigex.handle: gater, ParSignedDataSetFromProto, verifyFunc for every entry, then the subscribers
\* core/gater.go: duty.Slot / slotsPerEpoch <= currentEpoch + allowedFutureEpochs in uint64
PeerGate(m) == SkipGater \/ (DutyTypeValid(m.dt) /\ (m.window \in {"in", "edge"} \/ (SignedGater /\ m.window = "huge")))
PeerDecodes(m) == /\ m.dt \in (1..12) \ {5}                   \* DutyBuilderProposer deprecated, InfoSync/others unsupported
                  /\ \A k \in DOMAIN m.entries : m.entries[k].sk # "malformed"
PeerKeyIdx(m, e) == IF UseSenderIdx THEN m.sender ELSE e.idx
PeerVerify(m, e) == /\ e.val \in DOMAIN Lock                  \* "unknown pubkey, not part of cluster lock"
                    /\ LET i == PeerKeyIdx(m, e)
                       IN  i \in DOMAIN Lock[e.val]           \* "invalid shareIdx"
                           /\ \/ VerifyEth2(Lock[e.val][i], e, m)
                              \/ MemoVerifier /\ e.ddom # "none" /\ <<Lock[e.val][i], SigId(e)>> \in seen
PeerAdmits(m) == /\ PeerGate(m) /\ PeerDecodes(m)
                 /\ IF PeerVerifyLimit = 0 THEN \A k \in DOMAIN m.entries : PeerVerify(m, m.entries[k])
                    ELSE \E S \in SUBSET DOMAIN m.entries :
                           /\ Cardinality(S) = IF Len(m.entries) < PeerVerifyLimit THEN Len(m.entries) ELSE PeerVerifyLimit
                           /\ \A k \in S : PeerVerify(m, m.entries[k])
\* what a remembering verifier would have added to its memo during the current call
VerifiedNow == IF msg.path = "peer" /\ PeerGate(msg) /\ PeerDecodes(msg)
               THEN {<<Lock[msg.entries[k].val][PeerKeyIdx(msg, msg.entries[k])], SigId(msg.entries[k])>> :
                       k \in {j \in DOMAIN msg.entries : PeerVerify(msg, msg.entries[j])}}
               ELSE {}
\* validatorapi: resolve the validator, (aggregates/contributions) inner selection proof, (proposals)
\* propDataMatchesDuty, verifyPartialSig with the node's own share of that validator - for EVERY element on its own
VCPre(m, e) ==
  /\ HasClaim("vc", m.kind) => e.val \in 1..(V + 1)           \* "validator not found" / pubKeyByAttFunc error
  /\ m.kind \in {"aggregate", "contribution"} => e.inner
  /\ m.kind \in {"proposal", "blinded"} => (SkipPropMatch \/ m.payload)
\* control variant: the elements of a request with the same signing root are checked with one aggregate verification;
\* it passes iff every signature is over that root and the signing shares are, as a bag, the claimed shares
AggVerify(m, k) ==
  LET G == {j \in DOMAIN m.entries : m.entries[j].cur = m.entries[k].cur}
      claimed(j) == Lock[m.entries[j].val][m.node]
  IN  /\ \A j \in G : LET e == m.entries[j]
                      IN  /\ e.val \in DOMAIN Lock /\ e.ddom # "none" /\ e.sk = "bls"
                          /\ e.over = e.cur /\ e.sdom = e.ddom /\ e.sfork = CodeFork(m, e)
      /\ \A j \in G : /\ Cardinality({i \in G : m.entries[i].by = claimed(j)}) = Cardinality({i \in G : claimed(i) = claimed(j)})
                      /\ \E i \in G : claimed(i) = m.entries[j].by
VCVerify(m, k) ==
  LET e == m.entries[k]
  IN  \/ DropVerify = m.kind
      \/ IF AggBatchFor = m.kind THEN AggVerify(m, k)
         ELSE /\ e.val \in DOMAIN Lock                        \* getVerifyShareFunc: "unknown public key"
              /\ VerifyEth2(Lock[e.val][m.node], e, m)
VCEntryOK(m, k) == VCPre(m, m.entries[k]) /\ VCVerify(m, k)
Checks(m) == IF m.path = "peer" THEN PeerAdmits(m)
             ELSE m.kind # "registration" /\ \A k \in DOMAIN m.entries : VCEntryOK(m, k)
AsCoded(m) == m.supported /\ Checks(m)
\* latitude where the statement is silent
Loose(m, k) == /\ VCPre(m, IF InnerProofPolicy = "either" THEN [m.entries[k] EXCEPT !.inner = TRUE] ELSE m.entries[k])
               /\ VCVerify(m, k)
\* the validator API collects a request's elements in sets keyed by validator: of two elements of one validator (and
\* slot) only one is handed on
Superseded(m, k) == m.path = "vc" /\ \E j \in DOMAIN m.entries : j # k /\ m.entries[j].val = m.entries[k].val
Replayed(m, k) == ReplayPolicy = "either" /\ m.entries[k] \in admitted
Choices(m, k) ==
  IF AsCoded(m) THEN (IF Superseded(m, k) \/ Replayed(m, k) THEN BOOLEAN ELSE {TRUE})
  ELSE IF ~m.supported THEN (IF Checks(m) THEN BOOLEAN ELSE {FALSE})
  ELSE IF /\ m.path = "vc" /\ m.kind # "registration" /\ Loose(m, k)
          /\ (VCBatchPolicy = "either" \/ \A j \in DOMAIN m.entries : Loose(m, j))
       THEN BOOLEAN
       ELSE {FALSE}

Init == msg = NoMsg /\ phase = "idle" /\ delivered = {} /\ calls = <<>> /\ seen = {} /\ admitted = {} /\ dcache = {}
\* a call: the handlers keep nothing from one call to the next (`seen`, `admitted` and `dcache` are empty as coded)
Start(c, m) == /\ phase \in {"idle", "done"} /\ msg' = m /\ phase' = "recv" /\ delivered' = {}
               /\ calls' = Append(calls, c)
               /\ seen' = IF MemoVerifier THEN seen \cup VerifiedNow ELSE seen
               /\ admitted' = IF ReplayPolicy = "either" THEN admitted \cup {msg.entries[k] : k \in delivered} ELSE admitted
               /\ dcache' = IF DomainCache THEN dcache \cup ResolvedNow ELSE dcache
Submit(c) == Start(c, Msg(c))
SubmitBatch(b) == calls = <<>> /\ Start(b, MsgB(b))
SubmitBig(b) == calls = <<>> /\ Start(b, MsgBig(b))
Deliver(k) == /\ phase = "recv" /\ k \in DOMAIN msg.entries /\ k \notin delivered
              /\ TRUE \in Choices(msg, k)
              /\ delivered' = delivered \cup {k} /\ UNCHANGED <<msg, phase, calls, seen, admitted, dcache>>
Return == /\ phase = "recv"
          /\ \A k \in DOMAIN msg.entries : (k \in delivered) \in Choices(msg, k)
          /\ phase' = "done" /\ UNCHANGED <<msg, delivered, calls, seen, admitted, dcache>>
\* one single-element call, one batch, up to 3 calls that carry the same signature, or up to 3 calls of a fork sequence
Next == \/ phase = "idle" /\ \E c \in CasesOn(Paths) : Submit(c)
        \/ phase = "idle" /\ \E b \in BatchCasesOn(Paths) : SubmitBatch(b)
        \/ phase = "idle" /\ \E b \in BigCases : SubmitBig(b)
        \/ phase = "done" /\ Len(calls) \in 1..2 /\ SeqCase(calls[1])
                          /\ \E c \in FollowSet(calls[1]) : Submit(c)
        \/ phase = "done" /\ Len(calls) \in 1..2 /\ msg.alt # "batch"
                          /\ \E c \in ForkFollow(calls) : Submit(c)
        \/ (\E k \in DOMAIN msg.entries : Deliver(k)) \/ Return
Spec == Init /\ [][Next]_vars
\* the large peer sets alone (their own exhaustive configuration, V >= 5)
BigNext == \/ phase = "idle" /\ \E b \in BigCases : SubmitBig(b)
           \/ (\E k \in DOMAIN msg.entries : Deliver(k)) \/ Return
BigSpec == Init /\ [][BigNext]_vars

TypeOK == phase \in {"idle", "recv", "done"} /\ delivered \subseteq DOMAIN msg.entries
OnlyValidEnter == \A k \in delivered : MayEnter(msg, k)
ValidEnters == (phase = "done" /\ MustEnter(msg)) => \A k \in DOMAIN msg.entries : k \in delivered \/ Replayed(msg, k)
PeerAllOrNothing == (phase = "done" /\ msg.path = "peer") => delivered \in {{}, DOMAIN msg.entries}
Safety == TypeOK /\ OnlyValidEnter /\ ValidEnters /\ PeerAllOrNothing
====
