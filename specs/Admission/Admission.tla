---- MODULE Admission ----
(* C10 - only partial signatures valid for the claimed key share enter a node.

   A case-analysis specification.  A node admits partial signatures on two paths:
     "vc"    its validator client submits to one of the intercepting endpoints of core/validatorapi/validatorapi.go
     "peer"  a peer's ParSigExMsg arrives at core/parsigex/parsigex.go handle()
   "Admitted" = the entry is handed to the subscribers (parsigdb.StoreInternal -> broadcast to peers / StoreExternal ->
   threshold -> aggregation).

   Data abstraction.  The cluster lock is Lock[v][i] = the abstract key <<v,i>> (public share i of validator v).
   A submitted entry is a record
      val    claimed validator: 1..V in the lock, V+1 known to the beacon node but not in the lock, 0 unknown
      idx    claimed share index (vc path: always the node's own; peer path: the ShareIdx field of the message)
      sk     "bls" a well-formed signature | "zero" the all-zero signature | "malformed" not a curve point/short
      by     the key share that produced the signature
      over   the content the signature was made over         cur   the content actually submitted
      sdom   the domain the signer used                       ddom  the domain of the submitted object's own type
      sfork  "cur" signer used the fork version at the content's epoch | "other"
      inner  the selection proof embedded in an aggregate / contribution verifies under the validator's group key
   Crypto abstraction (DESIGN section 3): a signature verifies under key K for an object iff it was made by K over
   that object's root with that object's domain and fork version.

   Two descriptions are related here: Valid/MayEnter is the property as stated; PeerAdmits/VCEntryOK transcribe the
   checks of the code in the order the code makes them.  The model checker shows that the transcription implies the
   property for every case (and that each control variant - one check dropped - does not); trace validation shows
   that the real handlers behave like the transcription on every case. *)
EXTENDS Integers, Sequences, FiniteSets, TLC

CONSTANTS N,                \* shares (= nodes) per validator, indices 1..N
          V,                \* validators in the cluster lock, 1..V  (V >= 2)
          DropVerify,       \* control: kind whose VC handler skips verifyPartialSig ("none" = as coded)
          SkipPropMatch,    \* control: SubmitProposal without propDataMatchesDuty
          SkipGater,        \* control: parsigex.handle without the duty gater
          SwapEpochFor,     \* control: kind whose Epoch() is taken from its OTHER time field (attestation: the slot,
                            \* aggregate: the target epoch) instead of the type's epoch source ("none" = as coded)
          SignedGater,      \* control: the duty gater computes epochs in int64 (a slot >= 2^63 turns negative)
          UseSenderIdx,     \* control: the eth2 verifier looks the share up by the sender instead of data.ShareIdx
          InnerProofPolicy, \* "reject" as coded | "either": the statement is silent about the embedded selection proof
          VCBatchPolicy     \* "none" as coded (one bad entry fails the whole VC request) | "either" for the valid siblings

Versions7 == {"phase0", "altair", "bellatrix", "capella", "deneb", "electra", "fulu"}
Kinds == {"attestation", "proposal", "blinded", "randao", "exit", "registration", "bcselection", "aggregate",
          "aggregate_legacy", "syncmsg", "scselection", "contribution"}
VersionsOf(k) == CASE k \in {"attestation", "proposal", "aggregate"} -> Versions7
                   [] k = "blinded" -> {"bellatrix", "capella", "deneb", "electra", "fulu"}
                   [] OTHER -> {"-"}
\* core/eth2signeddata.go DomainName() per type
Dom == [attestation |-> "DOMAIN_BEACON_ATTESTER", proposal |-> "DOMAIN_BEACON_PROPOSER", blinded |-> "DOMAIN_BEACON_PROPOSER",
        randao |-> "DOMAIN_RANDAO", exit |-> "DOMAIN_VOLUNTARY_EXIT", registration |-> "DOMAIN_APPLICATION_BUILDER",
        bcselection |-> "DOMAIN_SELECTION_PROOF", aggregate |-> "DOMAIN_AGGREGATE_AND_PROOF",
        aggregate_legacy |-> "DOMAIN_AGGREGATE_AND_PROOF", syncmsg |-> "DOMAIN_SYNC_COMMITTEE",
        scselection |-> "DOMAIN_SYNC_COMMITTEE_SELECTION_PROOF", contribution |-> "DOMAIN_CONTRIBUTION_AND_PROOF"]
\* The epoch whose fork version goes into the signing domain, per type (consensus spec; core/eth2signeddata.go
\* Epoch()): "target" the attestation's target epoch, "slot" the epoch of the object's slot, "epoch" the epoch the
\* object itself carries (it has no slot), "genesis" the builder domain is pinned to the genesis fork version.
EpochSource == [attestation |-> "target", proposal |-> "slot", blinded |-> "slot", randao |-> "epoch", exit |-> "epoch",
                registration |-> "genesis", bcselection |-> "slot", aggregate |-> "slot", aggregate_legacy |-> "slot",
                syncmsg |-> "slot", scselection |-> "slot", contribution |-> "slot"]
\* types that carry a slot AND an attestation target epoch: the two can lie on opposite sides of a fork activation
TwoTimes(k) == k \in {"attestation", "aggregate", "aggregate_legacy"}
\* core.DutyType numbers (core/types.go); the duty a handler files the entry under
DutyOf == [attestation |-> 2, proposal |-> 1, blinded |-> 1, randao |-> 7, exit |-> 4, registration |-> 6,
           bcselection |-> 8, aggregate |-> 9, aggregate_legacy |-> 9, syncmsg |-> 10, scselection |-> 11,
           contribution |-> 12]
\* the type core.ParSignedDataFromProto decodes for a claimed duty type, by its domain; "none": no eth2 signed data
DomOfDuty(dt) == CASE dt = 1 -> "DOMAIN_BEACON_PROPOSER" [] dt = 2 -> "DOMAIN_BEACON_ATTESTER"
                   [] dt = 4 -> "DOMAIN_VOLUNTARY_EXIT" [] dt = 6 -> "DOMAIN_APPLICATION_BUILDER"
                   [] dt = 7 -> "DOMAIN_RANDAO" [] dt = 8 -> "DOMAIN_SELECTION_PROOF"
                   [] dt = 9 -> "DOMAIN_AGGREGATE_AND_PROOF" [] dt = 10 -> "DOMAIN_SYNC_COMMITTEE"
                   [] dt = 11 -> "DOMAIN_SYNC_COMMITTEE_SELECTION_PROOF" [] dt = 12 -> "DOMAIN_CONTRIBUTION_AND_PROOF"
                   [] OTHER -> "none"
\* the intercepting endpoints of validatorapi.Component that take signed input
VCKinds == Kinds \ {"aggregate_legacy"}
Endpoint == [attestation |-> "SubmitAttestations", proposal |-> "SubmitProposal", blinded |-> "SubmitBlindedProposal",
             randao |-> "Proposal", exit |-> "SubmitVoluntaryExit", registration |-> "SubmitValidatorRegistrations",
             bcselection |-> "BeaconCommitteeSelections", aggregate |-> "SubmitAggregateAttestations",
             syncmsg |-> "SubmitSyncCommitteeMessages", scselection |-> "SyncCommitteeSelections",
             contribution |-> "SubmitSyncCommitteeContributions"]
Endpoints == {Endpoint[k] : k \in VCKinds}
\* the fields of each type that are covered by its signing root
FieldsOf(k) == CASE k = "attestation" -> {"slot", "index", "root", "source", "target"}
                 [] k \in {"proposal", "blinded"} -> {"slot", "proposer", "parent", "state", "body"}
                 [] k = "randao" -> {"epoch"}
                 [] k = "exit" -> {"epoch", "validator"}
                 [] k = "registration" -> {"fee", "gas", "timestamp", "pubkey"}
                 [] k = "bcselection" -> {"slot"}
                 [] k \in {"aggregate", "aggregate_legacy"} -> {"slot", "aggidx", "attroot", "proof"}
                 [] k = "syncmsg" -> {"root"}       \* the slot only selects the domain's fork
                 [] k = "scselection" -> {"slot", "subcomm"}
                 [] k = "contribution" -> {"slot", "root", "subcomm", "aggidx", "proof"}
DomSeq == <<"DOMAIN_BEACON_PROPOSER", "DOMAIN_BEACON_ATTESTER", "DOMAIN_RANDAO", "DOMAIN_VOLUNTARY_EXIT",
            "DOMAIN_APPLICATION_BUILDER", "DOMAIN_SELECTION_PROOF", "DOMAIN_AGGREGATE_AND_PROOF",
            "DOMAIN_SYNC_COMMITTEE", "DOMAIN_SYNC_COMMITTEE_SELECTION_PROOF", "DOMAIN_CONTRIBUTION_AND_PROOF">>
OtherDoms(k) == LET i == CHOOSE j \in 1..Len(DomSeq) : DomSeq[j] = Dom[k]
                IN  {DomSeq[(i % Len(DomSeq)) + 1], DomSeq[((i + 1) % Len(DomSeq)) + 1], "DOMAIN_DEPOSIT"}
\* does the submission itself name the validator?  (proposals and randao reveals are attributed to the scheduled proposer)
HasClaim(p, k) == p = "peer" \/ k \notin {"proposal", "blinded", "randao"}
ListEndpoint(k) == k \in {"attestation", "bcselection", "aggregate", "syncmsg", "scselection", "contribution"}
ClaimedDutyTypes == {0, 1, 2, 3, 4, 5, 6, 7, 8, 9, 10, 11, 12, 13, 14, 99}

(* ------------------------------------------------ the cases ------------------------------------------------ *)
A(a, i, s) == [alt |-> a, ai |-> i, as |-> s]
AltsOf(p, k, own, v) ==
       {A("none", 0, ""), A("zeroSig", 0, ""), A("badSig", 0, ""), A("wrongFork", 0, "")}
  \cup {A("otherShare", j, "") : j \in (1..N) \ {own}}
  \cup {A("otherVal", w, "") : w \in (1..V) \ {v}}
  \cup {A("wrongDomain", 0, d) : d \in OtherDoms(k)}
  \cup {A("field", 0, f) : f \in FieldsOf(k)}
  \cup (IF HasClaim(p, k) THEN {A("unknownLock", 0, "")} ELSE {})
  \cup (IF p = "vc" /\ HasClaim(p, k) THEN {A("unknownBN", 0, "")} ELSE {})
  \cup (IF p = "vc" /\ k \in {"proposal", "blinded"} THEN {A("payload", 0, "body"), A("payload", 0, "proposer")} ELSE {})
  \cup (IF p = "vc" /\ k \in {"aggregate", "contribution"} THEN {A("innerProof", 0, "")} ELSE {})
  \cup (IF p = "peer" \/ ListEndpoint(k) THEN {A("mixedFirst", 0, ""), A("mixedSecond", 0, "")} ELSE {})
  \* slot just before a fork activation and target epoch at it ("before"), or slot at it and target epoch before
  \* ("after"); signed with the fork version of the type's epoch source (OK) or of the other time field (Bad)
  \cup (IF TwoTimes(k) THEN {A(a, 0, side) : a \in {"straddleOK", "straddleBad"}, side \in {"before", "after"}} ELSE {})
  \cup (IF p = "peer" THEN {A("idx0", 0, ""), A("idxN1", 0, ""), A("future", 0, ""), A("futureEdge", 0, "")}
                           \* the wire-supplied duty slot is 2^63, 2^63 + the current slot, 2^64 - 1
                           \cup {A("hugeSlot", 0, x) : x \in {"2p63", "2p63now", "max"}}
                           \cup {A("idxOther", j, "") : j \in (1..N) \ {own}}
                           \cup {A("dutyType", d, "") : d \in ClaimedDutyTypes \ {DutyOf[k]}}
                      ELSE {})
KindsOn(p) == IF p = "vc" THEN VCKinds ELSE Kinds
\* vc: `node` is the node under test, sender unused (0).  peer: `sender` is the peer whose key share signs, the
\* receiving node is the next one.
CasesOf(p, k) ==
  UNION {{[path |-> p, kind |-> k, ver |-> t[1], node |-> t[2], sender |-> IF p = "vc" THEN 0 ELSE (t[2] % N) + 1,
           val |-> t[3], alt |-> a.alt, ai |-> a.ai, as |-> a.as] :
              a \in AltsOf(p, k, IF p = "vc" THEN t[2] ELSE (t[2] % N) + 1, t[3])} :
         t \in VersionsOf(k) \X (1..N) \X (1..V)}
\* (an operator with a parameter, so that TLC does not evaluate the whole set eagerly at start-up of every run)
CasesOn(paths) == UNION {CasesOf(pk[1], pk[2]) : pk \in {pk \in paths \X Kinds : pk[2] \in KindsOn(pk[1])}}
Paths == {"vc", "peer"}

\* As coded: go-eth2-client's VersionedSignedProposal.Slot() answers "unsupported version" for phase0 and altair
\* blocks, so both handlers refuse them whatever the signature.  The statement is silent about such objects.
Supported(k, ver) == ~(k = "proposal" /\ ver \in {"phase0", "altair"})
Own(c) == IF c.path = "vc" THEN c.node ELSE c.sender
Base(v, own, k) == [val |-> v, idx |-> own, sk |-> "bls", by |-> <<v, own>>, over |-> "orig", cur |-> "orig",
                    sdom |-> Dom[k], ddom |-> Dom[k], inner |-> TRUE,
                    \* fork versions: "a" is active at the object's slot in the plain cases, "b" is the next one
                    esrc |-> EpochSource[k], slotFork |-> "a", tgtFork |-> "a", sfork |-> "a"]
\* the fork version the object's own signing domain is built from
OwnFork(e) == IF e.esrc = "target" THEN e.tgtFork ELSE e.slotFork
OtherFork(f) == IF f = "a" THEN "b" ELSE "a"
Straddle(e, side) == IF side = "before" THEN [e EXCEPT !.slotFork = "a", !.tgtFork = "b"]
                     ELSE [e EXCEPT !.slotFork = "b", !.tgtFork = "a"]
Alter(e, c) ==
  CASE c.alt = "otherShare" -> [e EXCEPT !.by = <<e.val, c.ai>>]
    [] c.alt = "otherVal" -> [e EXCEPT !.by = <<c.ai, e.idx>>]
    [] c.alt = "wrongDomain" -> [e EXCEPT !.sdom = c.as]
    [] c.alt = "wrongFork" -> [e EXCEPT !.sfork = "b"]
    [] c.alt = "straddleOK" -> LET x == Straddle(e, c.as) IN [x EXCEPT !.sfork = OwnFork(x)]
    [] c.alt = "straddleBad" -> LET x == Straddle(e, c.as) IN [x EXCEPT !.sfork = OtherFork(OwnFork(x))]
    [] c.alt = "field" -> [e EXCEPT !.cur = c.as]
    [] c.alt = "zeroSig" -> [e EXCEPT !.sk = "zero"]
    [] c.alt = "badSig" -> [e EXCEPT !.sk = "malformed"]
    [] c.alt = "unknownLock" -> [e EXCEPT !.val = V + 1, !.by = <<V + 1, e.idx>>]
    [] c.alt = "unknownBN" -> [e EXCEPT !.val = 0]
    [] c.alt = "innerProof" -> [e EXCEPT !.inner = FALSE]
    [] c.alt = "idx0" -> [e EXCEPT !.idx = 0]
    [] c.alt = "idxN1" -> [e EXCEPT !.idx = N + 1]
    [] c.alt = "idxOther" -> [e EXCEPT !.idx = c.ai]
    [] c.alt = "dutyType" -> [e EXCEPT !.ddom = DomOfDuty(c.ai)]
    [] OTHER -> e
\* second entry of the two-entry cases: another validator, signed with a foreign share
Bad2(c) == LET v2 == (c.val % V) + 1  o == Own(c)
           IN [Base(v2, o, c.kind) EXCEPT !.by = <<v2, (o % N) + 1>>]
Msg(c) == [path |-> c.path, kind |-> c.kind, node |-> IF c.path = "vc" THEN c.node ELSE (c.sender % N) + 1,
           sender |-> c.sender, alt |-> c.alt,
           entries |-> CASE c.alt = "mixedFirst" -> <<Bad2(c), Base(c.val, Own(c), c.kind)>>
                         [] c.alt = "mixedSecond" -> <<Base(c.val, Own(c), c.kind), Bad2(c)>>
                         [] OTHER -> <<Alter(Base(c.val, Own(c), c.kind), c)>>,
           dt |-> IF c.alt = "dutyType" THEN c.ai ELSE DutyOf[c.kind],
           window |-> CASE c.alt = "future" -> "beyond" [] c.alt = "futureEdge" -> "edge"
                        [] c.alt = "hugeSlot" -> "huge" [] OTHER -> "in",
           payload |-> c.alt # "payload",
           supported |-> Supported(c.kind, c.ver)]
NoMsg == [path |-> "-", kind |-> "-", node |-> 0, sender |-> 0, alt |-> "-", entries |-> <<>>, dt |-> 0,
          window |-> "in", payload |-> TRUE, supported |-> TRUE]

(* ------------------------------------------ the property, as stated ---------------------------------------- *)
Valid(e) == /\ e.sk = "bls" /\ e.val \in 1..V /\ e.idx \in 1..N
            /\ e.by = <<e.val, e.idx>> /\ e.over = e.cur /\ e.sdom = e.ddom /\ e.sfork = OwnFork(e)
DutyTypeValid(dt) == dt \in 1..13
MayEnter(m, k) ==
  /\ Valid(m.entries[k])
  /\ m.path = "vc" => m.entries[k].idx = m.node
  /\ m.path = "peer" => /\ DutyTypeValid(m.dt) /\ m.window \notin {"beyond", "huge"}
                        /\ \A j \in DOMAIN m.entries : Valid(m.entries[j])     \* nothing of a message with a bad entry
  /\ (m.path = "vc" /\ m.kind \in {"proposal", "blinded"}) => m.payload
\* sanity of the whole arrangement: an unaltered submission does enter (except where the endpoint ignores its input)
MustEnter(m) == m.alt \in {"none", "futureEdge", "straddleOK"} /\ ~(m.path = "vc" /\ m.kind = "registration") /\ m.supported

(* ------------------------------------------ the handlers, as coded ----------------------------------------- *)
Lock == [v \in 1..V |-> [i \in 1..N |-> <<v, i>>]]
\* core.VerifyEth2SignedData -> signing.Verify: data root from the object's DomainName/Epoch/MessageRoot, the zero
\* signature is refused, then tbls.Verify
CodeFork(m, e) == IF SwapEpochFor = m.kind THEN (IF e.esrc = "target" THEN e.slotFork ELSE e.tgtFork)
                  ELSE OwnFork(e)                                               \* data.Epoch(ctx, eth2Cl)
VerifyEth2(key, e, m) == /\ e.ddom # "none"                   \* "invalid eth2 signed data"
                         /\ e.sk # "zero"                     \* "no signature found"
                         /\ e.sk = "bls" /\ e.by = key /\ e.over = e.cur /\ e.sdom = e.ddom /\ e.sfork = CodeFork(m, e)
\* parsigex.handle: gater, ParSignedDataSetFromProto, verifyFunc for every entry, then the subscribers
\* core/gater.go: duty.Slot / slotsPerEpoch <= currentEpoch + allowedFutureEpochs in uint64
PeerGate(m) == SkipGater \/ (DutyTypeValid(m.dt) /\ (m.window \in {"in", "edge"} \/ (SignedGater /\ m.window = "huge")))
PeerDecodes(m) == /\ m.dt \in (1..12) \ {5}                   \* DutyBuilderProposer deprecated, InfoSync/others unsupported
                  /\ \A k \in DOMAIN m.entries : m.entries[k].sk # "malformed"
PeerVerify(m, e) == /\ e.val \in DOMAIN Lock                  \* "unknown pubkey, not part of cluster lock"
                    /\ LET i == IF UseSenderIdx THEN m.sender ELSE e.idx
                       IN  i \in DOMAIN Lock[e.val]           \* "invalid shareIdx"
                           /\ VerifyEth2(Lock[e.val][i], e, m)
PeerAdmits(m) == PeerGate(m) /\ PeerDecodes(m) /\ \A k \in DOMAIN m.entries : PeerVerify(m, m.entries[k])
\* validatorapi: resolve the validator, (aggregates/contributions) inner selection proof, (proposals)
\* propDataMatchesDuty, verifyPartialSig with the node's own share of that validator
VCEntryOK(m, e) ==
  /\ HasClaim("vc", m.kind) => e.val \in 1..(V + 1)           \* "validator not found" / pubKeyByAttFunc error
  /\ m.kind \in {"aggregate", "contribution"} => e.inner
  /\ m.kind \in {"proposal", "blinded"} => (SkipPropMatch \/ m.payload)
  /\ \/ DropVerify = m.kind
     \/ /\ e.val \in DOMAIN Lock                              \* getVerifyShareFunc: "unknown public key"
        /\ VerifyEth2(Lock[e.val][m.node], e, m)
Checks(m) == IF m.path = "peer" THEN PeerAdmits(m)
             ELSE m.kind # "registration" /\ \A k \in DOMAIN m.entries : VCEntryOK(m, m.entries[k])
AsCoded(m) == m.supported /\ Checks(m)
\* latitude where the statement is silent
Loose(m, e) == VCEntryOK(m, IF InnerProofPolicy = "either" THEN [e EXCEPT !.inner = TRUE] ELSE e)
Choices(m, k) ==
  IF AsCoded(m) THEN {TRUE}
  ELSE IF ~m.supported THEN (IF Checks(m) THEN BOOLEAN ELSE {FALSE})
  ELSE IF /\ m.path = "vc" /\ m.kind # "registration" /\ Loose(m, m.entries[k])
          /\ (VCBatchPolicy = "either" \/ \A j \in DOMAIN m.entries : Loose(m, m.entries[j]))
       THEN BOOLEAN
       ELSE {FALSE}

(* ------------------------------------------------ the machine ---------------------------------------------- *)
VARIABLES msg, phase, delivered
vars == <<msg, phase, delivered>>
Init == msg = NoMsg /\ phase = "idle" /\ delivered = {}
Submit(c) == /\ phase = "idle" /\ msg' = Msg(c) /\ phase' = "recv" /\ delivered' = {}
Deliver(k) == /\ phase = "recv" /\ k \in DOMAIN msg.entries /\ k \notin delivered
              /\ TRUE \in Choices(msg, k)
              /\ delivered' = delivered \cup {k} /\ UNCHANGED <<msg, phase>>
Return == /\ phase = "recv"
          /\ \A k \in DOMAIN msg.entries : (k \in delivered) \in Choices(msg, k)
          /\ phase' = "done" /\ UNCHANGED <<msg, delivered>>
Next == (phase = "idle" /\ \E c \in CasesOn(Paths) : Submit(c)) \/ (\E k \in 1..2 : Deliver(k)) \/ Return
Spec == Init /\ [][Next]_vars

TypeOK == phase \in {"idle", "recv", "done"} /\ delivered \subseteq DOMAIN msg.entries
OnlyValidEnter == \A k \in delivered : MayEnter(msg, k)
ValidEnters == (phase = "done" /\ MustEnter(msg)) => delivered = DOMAIN msg.entries
PeerAllOrNothing == (phase = "done" /\ msg.path = "peer") => delivered \in {{}, DOMAIN msg.entries}
Safety == TypeOK /\ OnlyValidEnter /\ ValidEnters /\ PeerAllOrNothing
====
