SPECIFICATION MCSpec
CONSTANTS
 Lo <- MCLo
 Hi <- MCHi
 WaitUnset = 2
 Margin = 2
 TickPeriod = 2
 RouterPeriod = 3
 RouteTTL = 4
 Peers = {1, 2}
 MaxTime = 6
 MaxAtt = 2
 RelayKnown = TRUE
 Exps <- E35
 Defect = "none"
INVARIANTS Safety
CHECK_DEADLOCK FALSE
