SPECIFICATION Spec
CONSTANTS
 Procs = {1, 2, 3}
 Fail = {2}
 InitBuf <- BufSFSS
 InitFailing = TRUE
 BufLen = 4
 Fixed = TRUE
INVARIANTS NoPanic NoLostResult WarnOnce Bounded
CHECK_DEADLOCK FALSE
