SPECIFICATION TraceSpec
CONSTANTS
 Calls = {1, 2, 3, 4, 5, 6, 7, 8, 9, 10}
 Hosts = {1, 2, 3, 4}
 Hyst = 3
 RetryDelay = 100000
 Defect = "none"
CONSTRAINT Mark
ACTION_CONSTRAINT ActOK
POSTCONDITION Report
CHECK_DEADLOCK FALSE
