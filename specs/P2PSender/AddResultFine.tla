---- MODULE AddResultFine ----
(* Sender.addResult (p2p/sender.go) at its REAL granularity, for ONE peer and several goroutines that report a result at
   the same time -- the normal situation: SendAsync is called per duty and per consensus message, each call has its own
   goroutine.  P2PSender.tla treats addResult as one step; this module checks what that abstraction hides.  Atomic are:
   sync.Map.Load / Store, each method of errorBuffer (add, len, get, trim: one mutex section each), atomic.Bool Load /
   Store.  One action per such operation (pc of a goroutine):

     load     val, ok := s.states.Load(peerID); !ok: a FRESH peerState (not yet in the map)
     add      state.buffer.add(err)
     len1     state.buffer.len() > senderBuffer ?            -> trim | br
     trim     state.buffer.trim(senderBuffer)
     br       success && state.failing.Load()  -> full ;  failure -> flen ;  else -> store
     full     full := state.buffer.len() == senderBuffer
     get0     oldestFailure := state.buffer.get(0) != nil
     loop     i < state.buffer.len() ?                       -> geti | fin
     geti     state.buffer.get(i)        PANICS (index out of range) when the buffer shrank since `loop`
     fin      full && oldestFailure && othersSuccess: failing.Store(false), "P2P sending recovered"
     flen     state.buffer.len() == 1 || !state.failing.Load() ?   -> warn | store
     warn     log.Warn(...); state.failing.Store(true)
     store    s.states.Store(peerID, state)

   Fixed = TRUE models the proposed repair (pending_fixes/GROW-P2PSENDER-addresult-race.diff): states.LoadOrStore and one
   mutex per peerState held from `add` to the end. *)
EXTENDS Integers, Sequences, FiniteSets, TLC
CONSTANTS Procs,        \* goroutines
          Fail,         \* the set of goroutines that report a failure (the others report success)
          InitBuf,      \* the peer's buffer before (TRUE = failure); <<>> with InitFailing = FALSE: the peer is not in the map yet
          InitFailing,
          BufLen,       \* senderBuffer = 4
          Fixed
BufSFSS == <<FALSE, TRUE, FALSE, FALSE>>
BufF == <<TRUE>>
BufEmpty == <<>>
VARIABLES obj,      \* peerState objects: 0 = the one in the map at the start (if any), p = the fresh one goroutine p made
          stored,   \* which object the map holds (None: no entry)
          pc, st,   \* per goroutine: program counter, the object it works on
          i, full, oldest, others,     \* per goroutine: locals
          warns, infos, lock
vars == <<obj, stored, pc, st, i, full, oldest, others, warns, infos, lock>>
None == -1
Objs == Procs \cup {0}
Init == /\ obj = [o \in Objs |-> [buf |-> IF o = 0 THEN InitBuf ELSE <<>>, failing |-> IF o = 0 THEN InitFailing ELSE FALSE, n |-> 0]]
        /\ stored = IF InitBuf = <<>> THEN None ELSE 0
        /\ pc = [p \in Procs |-> "load"] /\ st = [p \in Procs |-> None]
        /\ i = [p \in Procs |-> 0] /\ full = [p \in Procs |-> FALSE] /\ oldest = [p \in Procs |-> FALSE] /\ others = [p \in Procs |-> TRUE]
        /\ warns = 0 /\ infos = 0 /\ lock = None
Go(p, to) == pc' = [pc EXCEPT ![p] = to]
B(p) == obj[st[p]].buf
Free(p) == ~Fixed \/ lock \in {None, p}
Load(p) == /\ pc[p] = "load"
           /\ IF stored # None THEN st' = [st EXCEPT ![p] = stored] /\ UNCHANGED stored
              ELSE st' = [st EXCEPT ![p] = p] /\ stored' = IF Fixed THEN p ELSE stored      \* LoadOrStore
           /\ Go(p, "add") /\ UNCHANGED <<obj, i, full, oldest, others, warns, infos, lock>>
Add(p) == /\ pc[p] = "add" /\ Free(p)
          /\ obj' = [obj EXCEPT ![st[p]].buf = Append(@, p \in Fail), ![st[p]].n = @ + 1]
          /\ lock' = IF Fixed THEN p ELSE lock
          /\ Go(p, "len1") /\ UNCHANGED <<stored, st, i, full, oldest, others, warns, infos>>
Len1(p) == /\ pc[p] = "len1" /\ Go(p, IF Len(B(p)) > BufLen THEN "trim" ELSE "br")
           /\ UNCHANGED <<obj, stored, st, i, full, oldest, others, warns, infos, lock>>
Trim(p) == /\ pc[p] = "trim"
           /\ obj' = [obj EXCEPT ![st[p]].buf = SubSeq(@, Len(@) - BufLen + 1, Len(@))]
           /\ Go(p, "br") /\ UNCHANGED <<stored, st, i, full, oldest, others, warns, infos, lock>>
Br(p) == /\ pc[p] = "br"
         /\ Go(p, IF p \notin Fail /\ obj[st[p]].failing THEN "full" ELSE IF p \in Fail THEN "flen" ELSE "store")
         /\ UNCHANGED <<obj, stored, st, i, full, oldest, others, warns, infos, lock>>
Full(p) == /\ pc[p] = "full" /\ full' = [full EXCEPT ![p] = Len(B(p)) = BufLen] /\ Go(p, "get0")
           /\ UNCHANGED <<obj, stored, st, i, oldest, others, warns, infos, lock>>
Get0(p) == /\ pc[p] = "get0" /\ oldest' = [oldest EXCEPT ![p] = B(p)[1]] /\ i' = [i EXCEPT ![p] = 1] /\ Go(p, "loop")
           /\ UNCHANGED <<obj, stored, st, full, others, warns, infos, lock>>
Loop(p) == /\ pc[p] = "loop" /\ Go(p, IF i[p] < Len(B(p)) THEN "geti" ELSE "fin")
           /\ UNCHANGED <<obj, stored, st, i, full, oldest, others, warns, infos, lock>>
\* buffer.get(i): 0-based index i, i.e. element i + 1
GetI(p) == /\ pc[p] = "geti"
           /\ IF i[p] + 1 > Len(B(p)) THEN Go(p, "PANIC") /\ UNCHANGED <<others, i>>
              ELSE IF B(p)[i[p] + 1] THEN others' = [others EXCEPT ![p] = FALSE] /\ Go(p, "fin") /\ UNCHANGED i
              ELSE i' = [i EXCEPT ![p] = @ + 1] /\ Go(p, "loop") /\ UNCHANGED others
           /\ UNCHANGED <<obj, stored, st, full, oldest, warns, infos, lock>>
Fin(p) == /\ pc[p] = "fin"
          /\ IF full[p] /\ oldest[p] /\ others[p]
               THEN obj' = [obj EXCEPT ![st[p]].failing = FALSE] /\ infos' = infos + 1
               ELSE UNCHANGED <<obj, infos>>
          /\ Go(p, "store") /\ UNCHANGED <<stored, st, i, full, oldest, others, warns, lock>>
FLen(p) == /\ pc[p] = "flen" /\ Go(p, IF Len(B(p)) = 1 \/ ~obj[st[p]].failing THEN "warn" ELSE "store")
           /\ UNCHANGED <<obj, stored, st, i, full, oldest, others, warns, infos, lock>>
Warn(p) == /\ pc[p] = "warn" /\ warns' = warns + 1 /\ obj' = [obj EXCEPT ![st[p]].failing = TRUE] /\ Go(p, "store")
           /\ UNCHANGED <<stored, st, i, full, oldest, others, infos, lock>>
Store(p) == /\ pc[p] = "store" /\ stored' = (IF Fixed THEN stored ELSE st[p]) /\ lock' = (IF Fixed THEN None ELSE lock)
            /\ Go(p, "done") /\ UNCHANGED <<obj, st, i, full, oldest, others, warns, infos>>
Next == \E p \in Procs : Load(p) \/ Add(p) \/ Len1(p) \/ Trim(p) \/ Br(p) \/ Full(p) \/ Get0(p) \/ Loop(p) \/ GetI(p) \/ Fin(p)
                         \/ FLen(p) \/ Warn(p) \/ Store(p)
Spec == Init /\ [][Next]_vars

(* What P2PSender.tla assumes of addResult *)
AllDone == \A p \in Procs : pc[p] = "done"
\* no goroutine dies with "index out of range" (an unrecovered panic in a goroutine of SendAsync ends the process)
NoPanic == \A p \in Procs : pc[p] # "PANIC"
\* every result is in the state the map holds at the end
NoLostResult == AllDone => obj[stored].n = Cardinality(Procs)
\* a state change is logged once: all goroutines report failures to a peer that was fine -> one warning
WarnOnce == (AllDone /\ Fail = Procs /\ ~InitFailing) => warns = 1
\* the buffer never exceeds its size once everybody is done
Bounded == AllDone => Len(obj[stored].buf) <= BufLen
====
