SPECIFICATION Spec
CONSTANTS
 Procs = {1, 2, 3}
 Fail = {1}
 InitBuf <- BufF
 InitFailing = TRUE
 BufLen = 4
 Fixed = TRUE
INVARIANTS NoPanic NoLostResult WarnOnce Bounded
CHECK_DEADLOCK FALSE
