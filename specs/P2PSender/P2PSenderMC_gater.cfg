SPECIFICATION MCSpec
CONSTANTS
 Calls = {1, 2}
 Hosts = {1, 2, 4}
 Hyst = 3
 RetryDelay = 1
 Defect = "none"
 MCCalls = {1, 2}
 Serial = FALSE
 Kinds <- KPsr
 Froms <- F14
 Tos <- T2
 Shapes <- ShFull
 DelimSets <- DNone
 Ctxs <- CxLive
 NonZero <- BF
 NSOut <- NSNone
 WErrs <- ENone
 CWRes <- CWOk
 CRRes <- CROk
 SRErrs <- ENone
 HRes <- HResp
 SWErrs <- ENone
 MaxTime = 0
 Sto = 2
 Rto = 1
 Gated <- G12
 Relay0 <- R04
 RelayIds <- RIds
 LinkOps <- L12_24
INVARIANTS Safety
PROPERTIES PeerIndependence GaterContract
CHECK_DEADLOCK FALSE
