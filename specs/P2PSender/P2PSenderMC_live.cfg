SPECIFICATION FairSpec
CONSTANTS
 Calls = {1, 2}
 Hosts = {1, 2, 3}
 Hyst = 3
 RetryDelay = 0
 Defect = "none"
 MCCalls = {1, 2}
 Serial = FALSE
 Kinds <- KSr
 Froms <- F1
 Tos <- T2
 Shapes <- ShFull
 DelimSets <- DNone
 Ctxs <- CxLive
 NonZero <- BF
 NSOut <- NSRelay
 WErrs <- ENone
 CWRes <- CWOk
 CRRes <- CRNoTO
 SRErrs <- ERelay
 HRes <- HRF
 SWErrs <- ENone
 MaxTime = 0
 Sto = 0
 Rto = 0
 Gated <- GNone
 Relay0 <- R0None
 RelayIds <- RIdsNone
 LinkOps <- LNone
PROPERTIES CallsEnd SessionsEnd
CHECK_DEADLOCK FALSE
