SPECIFICATION Spec
CONSTANTS
 Procs = {1, 2, 3}
 Fail = {1, 2, 3}
 InitBuf <- BufEmpty
 InitFailing = FALSE
 BufLen = 4
 Fixed = TRUE
INVARIANTS NoPanic NoLostResult WarnOnce Bounded
CHECK_DEADLOCK FALSE
