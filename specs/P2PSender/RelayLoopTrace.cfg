SPECIFICATION TraceSpec
CONSTANTS
 Lo <- TLo
 Hi <- THi
 WaitUnset = 10000000
 Margin = 120000000
 TickPeriod = 500000
 RouterPeriod = 108000000
 RouteTTL = 120000000
 Peers = {3, 4}
 Defect = "none"
CONSTRAINT Mark
POSTCONDITION Report
CHECK_DEADLOCK FALSE
