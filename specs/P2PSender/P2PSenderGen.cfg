SPECIFICATION GenSpec
CONSTANTS
 Calls = {1, 2, 3, 4, 5, 6}
 Hosts = {1, 2, 3, 4}
 Hyst = 3
 RetryDelay = 10
 Defect = "none"
 MaxTime = 200
 GenLen = 18
 Sto = 30
 Rto = 20
INVARIANTS Emit
CONSTRAINT Stop
CHECK_DEADLOCK FALSE
