---- MODULE RelayLoopTrace ----
(* Trace validation for p2p.NewRelayReserver / NewRelayRouter (+ app/expbackoff, libp2p's circuit-v2 client) against a
   scripted relay, inside a testing/synctest bubble; t in microseconds.

     Reset   {sid, known, dial}        known: the relay's MutablePeer is set from the start; dial: the peers with a larger ID
     Start / RStart                    the reserver / the router hook is started
     Resv    {n, res, exp}             the relay got the n-th RESERVE and answers res ("ok" until exp, "refused", "reset", ...)
     RWarn                             the reserver logged "Reserve relay circuit" (circuit.Reserve failed; back-off follows)
     ROk                               ... logged "Relay circuit reserved"
     RNoConn / RRefresh                ... "No relay connection, reconnecting" / "Refreshing relay circuit reservation"
     RelaySet, Disc, Link {up}, Stop   stimuli: the MutablePeer is set, the connection / link to the relay is cut, ctx ends
     Exit / RExit                      the hooks returned
     Route   {p, has}                  a look into the peer store: relay address for peer p?
     End     {gor}

   The back-off delay is not logged: it is taken from the time of the next attempt's first evidence (prophecy); BackoffBetween
   judges it.  Silent: Top, WaitEnd, BackoffEnd, HoldStop, RouterRefresh, Tick. *)
EXTENDS RelayLoop, TraceCommon
VARIABLES reply, pend
tvars == <<vars, tr, l, reply, pend>>
\* expbackoff.DefaultConfig: 1 s, x1.6, jitter 0.2, max 120 s (no jitter at 0 retries); one microsecond of slack
TLo == <<1000000, 1279999, 2047999, 3276799, 5242879, 8388607, 13421771, 21474835, 34359737, 54975580, 87960929, 95999999>>
THi == <<1000000, 1920001, 3072001, 4915201, 7864321, 12582913, 20132661, 32212256, 51539609, 82463374, 131941397, 144000001>>
NoReply == [res |-> "-", exp |-> None]
TraceInit == TrInit /\ InitWith(Traces[tr][1].known, SeqToSet(Traces[tr][1].dial)) /\ reply = NoReply /\ pend = FALSE
AtT == now = Ev.t
Named(name, p) == IF p THEN TRUE ELSE InvFail(name)
X == UNCHANGED <<reply, pend>>
Evidence == {"Resv", "RWarn", "ROk"}
Proph == LET K == {j \in l + 1..TLen : Trace[j].ev \in Evidence} IN IF K = {} THEN now + Idx(Hi, k) ELSE Trace[Min(K)].t

TReset == IsEvent("Reset") /\ l = 1 /\ UNCHANGED vars /\ X
TStart == IsEvent("Start") /\ AtT /\ Start /\ X
TRStart == IsEvent("RStart") /\ AtT /\ RouterStart /\ X
TResv == /\ IsEvent("Resv") /\ AtT /\ UNCHANGED vars /\ UNCHANGED pend
         /\ pc = "reserving" /\ reply = NoReply
         /\ Named("ReserveAfterStop", stopAt = None \/ Last(att).t <= stopAt)
         /\ reply' = [res |-> Ev.res, exp |-> Ev.exp]
TROk == /\ IsEvent("ROk") /\ AtT /\ UNCHANGED pend
        /\ Named("ReservedWithoutGrant", reply.res = "ok")
        /\ ReserveRet("ok", reply.exp, None) /\ reply' = NoReply
TRWarn == /\ IsEvent("RWarn") /\ AtT /\ UNCHANGED pend
          /\ Named("FailedDespiteGrant", reply.res # "ok")
          /\ Named("WarnLevel", Ev.level = "warn")
          /\ Named("BackoffRange", stopped \/ pc # "reserving" \/ (Proph >= now + Idx(Lo, k) /\ Proph <= now + Idx(Hi, k)))
          /\ ReserveRet("fail", None, Proph) /\ reply' = NoReply
TRNoConn == IsEvent("RNoConn") /\ AtT /\ HoldNoConn /\ pend' = TRUE /\ UNCHANGED reply
TRRefresh == /\ IsEvent("RRefresh") /\ AtT /\ UNCHANGED reply
             /\ IF pend THEN pend' = FALSE /\ UNCHANGED vars ELSE HoldRefresh /\ UNCHANGED pend
TStop == IsEvent("Stop") /\ AtT /\ Stop /\ X
TExit == IsEvent("Exit") /\ AtT /\ X /\ Named("ExitTooEarly", pc \in {"exited", "gone"}) /\ Exit
TRExit == IsEvent("RExit") /\ AtT /\ X /\ RouterStop
TRelaySet == IsEvent("RelaySet") /\ AtT /\ X /\ RelaySetOn
TDisc == IsEvent("Disc") /\ AtT /\ X /\ (Disconnect \/ (~connected /\ UNCHANGED vars))
TLink == IsEvent("Link") /\ AtT /\ X /\ SetLink(Ev.up)
TRoute == IsEvent("Route") /\ AtT /\ X /\ UNCHANGED vars /\ Named("RelayRoute", Ev.has = HasRoute(Ev.p))
TEnd == /\ IsEvent("End") /\ AtT /\ UNCHANGED vars /\ X
        /\ Named("HooksReturned", pc \in {"gone", "idle"} /\ rpc \in {"gone", "idle"})
        /\ Named("NoGoroutineLeft", Ev.gor = 0)
TSilent == /\ Silent /\ X
           /\ \/ Top \/ WaitEnd \/ BackoffEnd \/ HoldStop \/ RouterRefresh
              \/ (l <= TLen /\ Tick(IF NextTimer < Ev.t THEN NextTimer ELSE Ev.t))
TraceNext == TReset \/ TStart \/ TRStart \/ TResv \/ TROk \/ TRWarn \/ TRNoConn \/ TRRefresh \/ TStop \/ TExit \/ TRExit \/ TRelaySet
             \/ TDisc \/ TLink \/ TRoute \/ TEnd \/ TSilent
TraceSpec == TraceInit /\ [][TraceNext]_tvars
Mark == /\ CheckInv("BackoffGrows", BackoffGrows) /\ CheckInv("BackoffBetween", BackoffBetween) /\ CheckInv("RefreshInTime", RefreshInTime)
        /\ CheckInv("ReconnectPrompt", ReconnectPrompt) /\ CheckInv("NoAttemptAfterStop", NoAttemptAfterStop)
        /\ CheckInv("StopsPrompt", StopsPrompt) /\ CheckInv("RoutesOnlyDialed", RoutesOnlyDialed) /\ CheckInv("RoutesKept", RoutesKept)
        /\ HWMark
====
