---- MODULE P2PSenderMC ----
(* Exhaustive design check.  Host 1 is the client (its Sender), hosts 2 and 3 serve (2: protocols A and B, request type
   without message fields, read limit; 3: protocol A only, request type with a message field), host 4 -- where present --
   is outside the cluster (a stranger, or the current identity of the relay).  Everything the environment may do is
   enumerated from small menus (all bounds are here, none in the actions):
     MCCalls  which calls are made           Serial   TRUE: a call starts when all earlier ones are over (long histories
     Kinds, Froms, Tos, Shapes, DelimSets,            of results for the hysteresis), FALSE: any interleaving
     Ctxs, NonZero    arguments of a call    NSOut    outcomes of NewStream besides the natural one
     WErrs, CWRes, CRRes, SRErrs, HRes, SWErrs        outcomes of write / CloseWrite / read / server read / handler / server write
     MaxTime  the clock stops there          Gated, Relay0, RelayIds, LinkOps     gater configurations and link events *)
EXTENDS P2PSender
CONSTANTS MCCalls, Serial, Kinds, Froms, Tos, Shapes, DelimSets, Ctxs, NonZero, NSOut, WErrs, CWRes, CRRes, SRErrs, HRes, SWErrs,
          MaxTime, Sto, Rto, Gated, Relay0, RelayIds, LinkOps

SrvOf(p) == CASE p = 2 -> [on |-> TRUE, protos |-> {"A", "B"}, rto |-> Rto, reqtype |-> "duty", limit |-> 8]
              [] p = 3 -> [on |-> TRUE, protos |-> {"A"}, rto |-> Rto, reqtype |-> "psx", limit |-> 0]
              [] OTHER -> [on |-> FALSE, protos |-> {}, rto |-> Rto, reqtype |-> "-", limit |-> 0]
MCConf == [srv |-> [p \in Hosts |-> SrvOf(p)], cluster |-> {1, 2, 3}, gated |-> Gated, relay0 |-> Relay0]
AllLinks == {{a, b} : a, b \in Hosts} \ {{a} : a \in Hosts}
MCInit == InitWith(MCConf, AllLinks, Relay0)

\* menus (cfg files substitute these)
KAll == {"sr", "psr", "async", "send"}
KSender == {"sr", "async"}
KSr == {"sr"}
KSrAsync == {"sr", "async"}
KPsr == {"psr"}
F1 == {1}
F14 == {1, 4}
F4 == {4}
T2 == {2}
T23 == {2, 3}
T3 == {3}
ShFull == {"full"}
ShAll == {"full", "empty", "big"}
ShFE == {"full", "empty"}
DNone == {<<>>}
DB == {<<>>, <<"B">>}
DBC == {<<"B">>, <<"C", "B">>, <<"B", "C">>}
DBC0 == {<<>>, <<"B">>, <<"C", "B">>, <<"B", "C">>, <<"C">>}
CxLive == {"live"}
CxBoth == {"live", "canceled"}
BF == {FALSE}
BB == BOOLEAN
NSNone == {}
NSAll == {"relay", "dial", "other"}
NSRelay == {"relay"}
NSOther == {"other"}
NSDialOther == {"dial", "other"}
NSRelayOther == {"relay", "other"}
ENone == {}
ERelay == {"relay"}
ERelayOther == {"relay", "other"}
CWOk == {"ok"}
CWAll == {"ok", "canceled", "relay", "other"}
CROk == {"ok"}
CRAll == {"ok", "timeout", "relay", "other"}
CROkRelay == {"ok", "relay"}
CRNoTO == {"ok", "relay", "other"}
CRTO == {"ok", "timeout", "relay"}
SRAll == {"relay", "timeout", "other"}
SRTimeout == {"timeout"}
HResp == {"resp"}
HAll == HResults
HMain == {"resp", "nil", "false", "respfalse", "err", "resperr"}
HMain3 == {"resp", "false", "resperr"}
HRF == {"resp", "false"}
GNone == {}
G2 == {2}
G12 == {1, 2}
R0None == <<None>>
R04 == <<4>>
RIds == {None, 4}
RIdsNone == {}
LNone == {}
L12 == {{1, 2}}
L12_24 == {{1, 2}, {2, 4}}

RqOf(c, sh) == [shape |-> sh, slot |-> c]
Args(c) == {x \in {[kind |-> k, from |-> f, peer |-> p, rq |-> RqOf(c, sh), base |-> "A", delims |-> d, sto |-> Sto, nonzero |-> nz, ctx |-> cx] :
                       k \in Kinds, f \in Froms, p \in Tos, sh \in Shapes, d \in DelimSets, nz \in NonZero, cx \in Ctxs} : x.from # x.peer}
EarlierOver(c) == \A d \in MCCalls : d < c => /\ s[d].pc = "done"
                                              /\ \A a \in 1..Len(ses[d]) : ses[d][a].pc \in {"none", "closed"}
RespV(c, a) == 10 * c + a           \* what the handler answers on stream (c, a): unique
Vals == {0} \cup {RespV(c, a) : c \in MCCalls, a \in 1..2}
Natural(c) == LET f == s[c].from  p == s[c].peer IN
                IF s[c].cx = "canceled" THEN {"ctx", "ok"}
                ELSE IF ~CanConnect(f, p) THEN (IF ~Connected(f, p) /\ ~Linked(f, p) THEN {"nolink"} ELSE {"gated"})
                ELSE IF Common(c) = {} THEN {"unsupp"} ELSE {"ok"}
Env ==
  \/ \E c \in MCCalls :
       \/ (Serial => EarlierOver(c)) /\ \E x \in Args(c) : Call(c, x)
       \/ \E w \in Natural(c) : \E pr \in (IF w = "ok" THEN Common(c) ELSE {"-"}) : NSRet(c, IF w = "ok" THEN "ok" ELSE "other", w, pr)
       \/ \E r \in NSOut : NSRet(c, r, "inj", "-")
       \/ \E e \in WErrs : WErr(c, e)
       \/ \E r \in CWRes : CloseW(c, r)
       \/ \E r \in CRRes : \E v \in Vals : (r # "ok" => v = 0) /\ CRead(c, r, v)
       \/ (s[c].ctx = "live" /\ "canceled" \in Ctxs /\ s[c].pc \in {"start", "sleep"} /\ CtxCancel(c))
       \/ \E a \in 1..2 : \/ SAcc(c, a)
                          \/ \E k \in SRErrs : SReadErr(c, a, k)
                          \/ \E r \in HRes : HEnd(c, a, r, RespV(c, a))
                          \/ \E e \in SWErrs : SWErr(c, a, e)
  \/ \E l \in LinkOps : \E a, b \in l : a < b /\ (LinkDown(a, b) \/ LinkUp(a, b))
  \/ \E id \in RelayIds : RelaySet(1, id)
Internal(c) == \/ ARet(c) \/ Bug(c) \/ NS(c) \/ SetDL(c) \/ CWrite(c) \/ SendDone(c) \/ RTT(c) \/ CClose(c) \/ Decide(c) \/ Wake(c)
               \/ AddResult(c) \/ Ret(c)
               \/ \E a \in 1..2 : SDL(c, a) \/ SInvalid(c, a) \/ HStart(c, a) \/ SWrite(c, a) \/ SSkip(c, a) \/ SClose(c, a)
MCNext == Env \/ (\E c \in MCCalls : Internal(c)) \/ (now < MaxTime /\ Tick(now + 1))
MCSpec == MCInit /\ [][MCNext]_vars

(* Liveness (fault-free tree): with goroutines that keep running, an environment that keeps answering (every NewStream
   returns, every read ends -- with data or an error, if only the deadline's --, every handler returns) every call
   returns, every goroutine of SendAsync ends and every session closes its stream.  Checked without a clock
   (RetryDelay = Sto = Rto = 0: every timer is due at once). *)
EnvProgress(c) == \/ \E w \in Natural(c) : \E pr \in (IF w = "ok" THEN Common(c) ELSE {"-"}) : NSRet(c, IF w = "ok" THEN "ok" ELSE "other", w, pr)
                  \/ \E r \in CRRes : \E v \in Vals : (r # "ok" => v = 0) /\ CRead(c, r, v)
                  \/ \E r \in CWRes : CloseW(c, r)
SesProgress(c, a) == \/ SAcc(c, a) \/ \E k \in SRErrs : SReadErr(c, a, k) \/ \E r \in HRes : HEnd(c, a, r, RespV(c, a))
Fair == \A c \in Calls : WF_vars(Internal(c)) /\ WF_vars(EnvProgress(c)) /\ \A a \in 1..2 : WF_vars(SesProgress(c, a))
FairSpec == MCInit /\ [][MCNext]_vars /\ Fair
CallsEnd == \A c \in Calls : (s[c].pc # "idle") ~> (s[c].pc = "done" /\ s[c].retd)
SessionsEnd == \A c \in Calls : \A a \in 1..2 : (HasSes(c, a) /\ ses[c][a].pc # "none") ~> (HasSes(c, a) /\ ses[c][a].pc = "closed")
\* NOT a property (control): a response for every request -- the handler may say no, the link may drop it
AlwaysAnswered == \A c \in Calls : (s[c].pc # "idle" /\ s[c].kind = "sr") ~> (s[c].pc = "done" /\ s[c].ares = "ok")
====
