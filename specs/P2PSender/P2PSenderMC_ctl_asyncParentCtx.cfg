SPECIFICATION MCSpec
CONSTANTS
 Calls = {1}
 Hosts = {1, 2, 3}
 Hyst = 3
 RetryDelay = 1
 Defect = "asyncParentCtx"
 MCCalls = {1}
 Serial = FALSE
 Kinds <- KAll
 Froms <- F1
 Tos <- T2
 Shapes <- ShFull
 DelimSets <- DNone
 Ctxs <- CxBoth
 NonZero <- BB
 NSOut <- NSRelayOther
 WErrs <- ERelay
 CWRes <- CWAll
 CRRes <- CRAll
 SRErrs <- SRAll
 HRes <- HMain3
 SWErrs <- ENone
 MaxTime = 3
 Sto = 2
 Rto = 1
 Gated <- GNone
 Relay0 <- R0None
 RelayIds <- RIdsNone
 LinkOps <- LNone
INVARIANTS AsyncDetached
CHECK_DEADLOCK FALSE
