---- MODULE P2PSender ----
(* p2p/sender.go (Sender: SendReceive / SendAsync, the package functions SendReceive / Send, withRelayRetry, addResult and
   the per-peer hysteresis), p2p/receive.go (RegisterHandler: what happens to one inbound stream) and p2p/gater.go
   (ConnGater) as they work together over libp2p streams.

   A CALL is one invocation of Sender.SendReceive ("sr"), Sender.SendAsync ("async"), p2p.SendReceive ("psr") or p2p.Send
   ("send") on host `from` towards host `peer`.  A call makes one ATTEMPT, and a second one 100 ms later iff the first
   failed with a relay error (withRelayRetry; only the two Sender methods retry).  An attempt that gets a stream has a
   server SESSION: the goroutine libp2p starts with the function RegisterHandler registered.  One action per call the
   code makes on the host / the stream and per decision it takes (pc values):

     call     idle -Call-> start -Bug-> ares                    isZeroProto(resp) fails: no stream at all
              start -NS-> ns -NSRet(res, why, proto)-> open | ares     host.NewStream(protocols in the order of the options)
              open -SetDL-> dl                                  s.SetDeadline(now + sendTimeout)
              dl -CWrite-> wrote | -WErr-> closing              writer.WriteMsg(req)
              wrote -CloseW(res)-> reading | closing   (sr,psr) s.CloseWrite(); "close called for canceled stream" is benign
              wrote -SendDone-> closing             (send,async) Send returns after the write
              reading -CRead(res,v)-> rtt | closing             reader.ReadMsg(resp)
              rtt -RTT-> closing                                o.rttCallback(time.Since(t0))
              closing -CClose-> ares                            defer s.Close()
              ares -Decide-> sleep | add | ret                  withRelayRetry / which of the four functions it is
              sleep -Wake-> start                               time.Sleep(100 ms)
              add -AddResult-> ret | done                       Sender.addResult: hysteresis, the two log lines
              ret -Ret-> done
     session  none -SAcc-> acc -SDL-> rd                        s.SetReadDeadline(now + receiveTimeout), ctx with that timeout
              rd -HStart-> inh | -SInvalid-> closing | -SReadErr-> closing      ReadMsg, protonil.Check, handlerFunc
              inh -HEnd(res,v)-> hret                           ENVIRONMENT: what the handler returns
              hret -SWrite-> closing | -SWErr-> closing | -SSkip-> closing
              closing -SClose-> closed                          defer s.Close()

   The ENVIRONMENT is libp2p and the two application ends: the outcome of NewStream (which protocol was negotiated, a
   dial error, a reset relay circuit, no link, the connection gater), of writes and reads (delivered, reset, timed out),
   when a request or response arrives, what the handler returns and when, cancellation of the caller's context, links
   going down, the identity behind a relay's MutablePeer.  Time: `now` advances (Tick) only when no goroutine can take
   a step (Quiet), never beyond the next timer.

   The documented contract is stated as invariants at the end ("Contract"); `Defect` switches on plausible defects for
   the control configurations. *)
EXTENDS Integers, Sequences, FiniteSets, TLC

CONSTANTS Calls,        \* call identifiers
          Hosts,        \* host identifiers (1..n)
          Hyst,         \* senderHysteresis = 3: consecutive successes that end the failing state
          RetryDelay,   \* the pause of withRelayRetry (100 ms)
          Defect        \* "none" | a named defect (control configurations)

None == -1
Inf == 2000000000
BufLen == Hyst + 1      \* senderBuffer
Min(S) == CHOOSE x \in S : \A y \in S : x <= y
Last(q) == q[Len(q)]
Reverse(q) == [i \in 1..Len(q) |-> q[Len(q) + 1 - i]]
TailN(q, n) == IF Len(q) > n THEN SubSeq(q, Len(q) - n + 1, Len(q)) ELSE q

VARIABLES now,     \* clock
          conf,    \* never changes: [srv: per host [on, protos, rto, reqtype, limit], cluster, gated, relay0]
          s,       \* per call: record, see IdleCall
          att,     \* per call: its attempts [nsAt, res, why, open, sent, closed, endAt, proto]
          ses,     \* per call: the server session of each attempt, see NoSes
          h,       \* per <<sending host, peer>>: the Sender's peerState [failing, buf] (buf: TRUE = failure), failAt: when it began to fail
          hist,    \* per <<host, peer>>: every result handed to addResult, in order [fail, dial]      (history)
          logs,    \* per <<host, peer>>: the log lines of addResult [kind, at = Len(hist) then]            (history)
          up,      \* set of unordered host pairs {a, b} that are linked
          conn,    \* set of unordered host pairs with an established connection
          relay    \* the relays' MutablePeers: sequence of host id | None
vars == <<now, conf, s, att, ses, h, hist, logs, up, conn, relay>>

NoRq == [shape |-> "-", slot |-> 0]
IdleCall == [pc |-> "idle", kind |-> "-", from |-> None, peer |-> None, rq |-> NoRq, base |-> "-", delims |-> <<>>, protos |-> <<>>, sto |-> 0, nonzero |-> FALSE,
             ctx |-> "live", cx |-> "live", a |-> 0, ares |-> "-", openAt |-> None, dl |-> None, wbuf |-> <<>>, rv |-> None,
             wake |-> None, retd |-> FALSE, retAt |-> None]
NoSes == [pc |-> "none", accAt |-> None, rdl |-> None, ctxdl |-> None, inv |-> 0, hrq |-> NoRq, hfrom |-> None, hres |-> "-", hv |-> 0,
          wrote |-> <<>>, sres |-> "-", slog |-> FALSE]
NewAtt == [nsAt |-> now, res |-> "-", why |-> "-", open |-> FALSE, sent |-> FALSE, closed |-> FALSE, endAt |-> None, proto |-> "-"]
Pairs == Hosts \X Hosts
InitWith(cf, links, rl) ==
  /\ now = 0 /\ conf = cf /\ s = [c \in Calls |-> IdleCall] /\ att = [c \in Calls |-> <<>>] /\ ses = [c \in Calls |-> <<>>]
  /\ h = [k \in Pairs |-> [failing |-> FALSE, buf |-> <<>>, failAt |-> None]] /\ hist = [k \in Pairs |-> <<>>] /\ logs = [k \in Pairs |-> <<>>]
  /\ up = links /\ conn = {} /\ relay = rl

SenderKinds == {"sr", "async"}       \* methods of Sender: retry + addResult
ReadKinds == {"sr", "psr"}           \* request / response
RelayErr == {"relay"}                \* IsRelayError: network.ErrReset, network.ErrResourceScopeClosed
ErrClasses == {"relay", "dial", "other"}      \* "dial": a swarm.DialError
Upd(c, r) == s' = [s EXCEPT ![c] = r]
A(c) == s[c].a
Srv(p) == conf.srv[p]
Key(c) == <<s[c].from, s[c].peer>>

(* what a handler may return: (response, ok, error) *)
HResults == {"resp", "nil", "empty", "false", "respfalse", "err", "resperr"}
Sends(res) == \/ res \in {"resp", "nil", "empty"}
              \/ (Defect = "respOnFalse" /\ res = "respfalse") \/ (Defect = "respOnErr" /\ res = "resperr")
MustSend(res) == res \in {"resp", "nil", "empty"}          \* the contract
RespVal(res, v) == IF res \in {"resp", "respfalse", "resperr"} THEN v ELSE 0     \* nil and the zero message: zero bytes
(* protonil.Check: a message field that is nil; the reader's size limit *)
Valid(p, rq) == ~(Srv(p).reqtype = "psx" /\ rq.shape = "empty")
TooBig(p, rq) == Srv(p).limit > 0 /\ rq.shape = "big"
(* sendRecvOpts.protocols: WithDelimitedProtocol adds to the front *)
ProtoOrder(base, delims) == IF Defect = "appendProto" THEN <<base>> \o delims ELSE Reverse(delims) \o <<base>>

---------------------------------------------------------------------------------------------------
(* ConnGater.InterceptSecured as coded: open, or a cluster peer, or the CURRENT peer of one of the relays *)
GAdmit(g, id) == \/ g \notin conf.gated
                 \/ id \in conf.cluster
                 \/ \E r \in DOMAIN relay : (IF Defect = "staleRelay" THEN conf.relay0[r] ELSE relay[r]) = id
AdmitBoth(a, b) == GAdmit(a, b) /\ GAdmit(b, a)
Connected(a, b) == {a, b} \in conn
Linked(a, b) == {a, b} \in up

---------------------------------------------------------------------------------------------------
\* ENVIRONMENT: a call; x = [kind, from, peer, rq, base, delims, sto, nonzero, ctx]
Call(c, x) ==
  /\ s[c].pc = "idle"
  /\ Upd(c, [IdleCall EXCEPT !.pc = "start", !.kind = x.kind, !.from = x.from, !.peer = x.peer, !.rq = x.rq, !.base = x.base, !.delims = x.delims,
                             !.protos = ProtoOrder(x.base, x.delims), !.sto = x.sto, !.nonzero = x.nonzero, !.ctx = x.ctx])
  /\ UNCHANGED <<now, conf, att, ses, h, hist, logs, up, conn, relay>>
\* SendAsync returns nil at once
ARet(c) == /\ s[c].kind = "async" /\ ~s[c].retd /\ Upd(c, [s[c] EXCEPT !.retd = TRUE, !.retAt = now])
           /\ UNCHANGED <<now, conf, att, ses, h, hist, logs, up, conn, relay>>
\* ENVIRONMENT: the caller's context ends
CtxCancel(c) == /\ s[c].pc \notin {"idle", "done"} /\ s[c].ctx = "live" /\ Upd(c, [s[c] EXCEPT !.ctx = "canceled"])
                /\ UNCHANGED <<now, conf, att, ses, h, hist, logs, up, conn, relay>>
\* "bug: response proto must be zero value"
Bug(c) == /\ s[c].pc = "start" /\ s[c].kind \in ReadKinds /\ s[c].nonzero
          /\ Upd(c, [s[c] EXCEPT !.pc = "ares", !.ares = "other"])
          /\ UNCHANGED <<now, conf, att, ses, h, hist, logs, up, conn, relay>>
\* p2pNode.NewStream(network.WithAllowLimitedConn(ctx), peerID, o.protocols...); SendAsync detaches from the caller's context
CtxSeen(c) == IF s[c].kind = "async" /\ Defect # "asyncParentCtx" THEN "live" ELSE s[c].ctx
NS(c) ==
  /\ s[c].pc = "start" /\ ~(s[c].kind \in ReadKinds /\ s[c].nonzero)
  /\ Upd(c, [s[c] EXCEPT !.pc = "ns", !.a = @ + 1, !.cx = CtxSeen(c), !.wbuf = <<>>, !.rv = None, !.dl = None, !.openAt = None])
  /\ att' = [att EXCEPT ![c] = Append(@, NewAtt)]
  /\ ses' = [ses EXCEPT ![c] = Append(@, NoSes)]
  /\ UNCHANGED <<now, conf, h, hist, logs, up, conn, relay>>
\* ENVIRONMENT: what NewStream returns.  "ok" needs a connection (an existing one, or a new one over a link that both
\* gaters admit) and a protocol both ends know.  WHICH of the common protocols runs is libp2p's business: the first offered
\* one that the peer is KNOWN to support (identify, earlier negotiations), else the first offered one it accepts -- a peer
\* that registered several protocols under one wildcard name is not known to support any of them before the first stream
CanConnect(a, b) == Connected(a, b) \/ (Linked(a, b) /\ AdmitBoth(a, b))
Common(c) == {s[c].protos[i] : i \in 1..Len(s[c].protos)} \cap (IF Srv(s[c].peer).on THEN Srv(s[c].peer).protos ELSE {})
NSRet(c, res, why, pr) ==
  /\ s[c].pc = "ns"
  /\ LET f == s[c].from  p == s[c].peer IN
     /\ why \in {"ok", "inj", "nolink", "gated", "unsupp", "ctx"}
     /\ (res = "ok") = (why = "ok")
     /\ why = "ok" => CanConnect(f, p) /\ pr \in Common(c)
     /\ why # "ok" => pr = "-"
     /\ why = "nolink" => ~Connected(f, p) /\ ~Linked(f, p)
     /\ why = "gated" => ~Connected(f, p) /\ ~AdmitBoth(f, p)
     /\ why = "unsupp" => Common(c) = {} /\ CanConnect(f, p)
     /\ why = "ctx" => s[c].cx = "canceled"
     /\ res \in {"ok"} \cup ErrClasses
     /\ why \in {"nolink", "gated", "unsupp", "ctx"} => res = "other"
     /\ \/ conn' = (IF CanConnect(f, p) /\ why \in {"ok", "unsupp"} THEN conn \cup {{f, p}} ELSE conn)
        \/ (why = "ctx" /\ CanConnect(f, p) /\ conn' = conn \cup {{f, p}})      \* the dial may have succeeded before the context was looked at
     /\ att' = [att EXCEPT ![c][A(c)] = [@ EXCEPT !.res = res, !.why = why, !.open = (res = "ok"), !.proto = pr,
                                                 !.endAt = IF res = "ok" THEN None ELSE now]]
     /\ Upd(c, IF res = "ok" THEN [s[c] EXCEPT !.pc = "open", !.openAt = now] ELSE [s[c] EXCEPT !.pc = "ares", !.ares = res])
  /\ UNCHANGED <<now, conf, ses, h, hist, logs, up, relay>>
\* s.SetDeadline(time.Now().Add(o.sendTimeout))
SetDL(c) == /\ s[c].pc = "open"
            /\ Upd(c, [s[c] EXCEPT !.pc = "dl", !.dl = now + (IF Defect = "dlRecv" THEN Srv(s[c].peer).rto ELSE s[c].sto)])
            /\ UNCHANGED <<now, conf, att, ses, h, hist, logs, up, conn, relay>>
\* writer.WriteMsg(req)
CWrite(c) == /\ s[c].pc = "dl" /\ Upd(c, [s[c] EXCEPT !.pc = "wrote", !.wbuf = <<s[c].rq>>])
             /\ att' = [att EXCEPT ![c][A(c)].sent = TRUE]
             /\ UNCHANGED <<now, conf, ses, h, hist, logs, up, conn, relay>>
WErr(c, cls) == /\ s[c].pc = "dl" /\ cls \in ErrClasses \ {"dial"}
                /\ Upd(c, [s[c] EXCEPT !.pc = "closing", !.ares = cls])
                /\ UNCHANGED <<now, conf, att, ses, h, hist, logs, up, conn, relay>>
\* s.CloseWrite(): the request is on its way (also when the peer has reset OUR direction: "canceled", benign)
CloseW(c, res) ==
  /\ s[c].pc = "wrote" /\ s[c].kind \in ReadKinds /\ res \in {"ok", "canceled", "relay", "other"}
  /\ Upd(c, IF res \in {"ok", "canceled"} THEN [s[c] EXCEPT !.pc = "reading"] ELSE [s[c] EXCEPT !.pc = "closing", !.ares = res])
  /\ UNCHANGED <<now, conf, att, ses, h, hist, logs, up, conn, relay>>
SendDone(c) == /\ s[c].pc = "wrote" /\ s[c].kind \notin ReadKinds
               /\ Upd(c, [s[c] EXCEPT !.pc = "closing", !.ares = "ok"])
               /\ UNCHANGED <<now, conf, att, ses, h, hist, logs, up, conn, relay>>
\* ENVIRONMENT + reader.ReadMsg(resp): a response arrives -- the one the session of THIS stream wrote -- or the read fails;
\* a time-out not before the deadline
OtherStreams(c) == {<<d, k>> \in Calls \X (1..2) : k <= Len(ses[d]) /\ s[d].peer = s[c].peer /\ <<d, k>> # <<c, A(c)>>}
CRead(c, res, v) ==
  /\ s[c].pc = "reading" /\ res \in {"ok", "timeout", "relay", "other"}
  /\ res = "ok" => \/ (ses[c][A(c)].wrote = <<v>> /\ ses[c][A(c)].pc \in {"closing", "closed"})
                   \/ (Defect = "crossTalk" /\ \E x \in OtherStreams(c) : ses[x[1]][x[2]].wrote = <<v>>)
  /\ res = "timeout" => now >= s[c].dl
  /\ Upd(c, IF res = "ok" THEN [s[c] EXCEPT !.pc = "rtt", !.rv = v, !.ares = "ok"]
            ELSE [s[c] EXCEPT !.pc = "closing", !.ares = IF res = "timeout" THEN "other" ELSE res])
  /\ UNCHANGED <<now, conf, att, ses, h, hist, logs, up, conn, relay>>
RTT(c) == /\ s[c].pc = "rtt" /\ Upd(c, [s[c] EXCEPT !.pc = "closing"])
          /\ UNCHANGED <<now, conf, att, ses, h, hist, logs, up, conn, relay>>
\* defer s.Close()
CClose(c) ==
  /\ s[c].pc = "closing"
  /\ att' = [att EXCEPT ![c][A(c)] = [@ EXCEPT !.closed = ~(Defect = "noCloseOnErr" /\ s[c].ares # "ok"), !.endAt = now, !.res = s[c].ares]]
  /\ Upd(c, [s[c] EXCEPT !.pc = "ares"])
  /\ UNCHANGED <<now, conf, ses, h, hist, logs, up, conn, relay>>
\* withRelayRetry (the Sender's methods only) and what comes after the last attempt
Retries(c) == /\ s[c].kind \in SenderKinds /\ A(c) <= 1
              /\ IF Defect = "retryAll" THEN s[c].ares # "ok" ELSE s[c].ares \in RelayErr
Decide(c) ==
  /\ s[c].pc = "ares"
  /\ Upd(c, IF Retries(c) /\ Defect # "noRetry"
              THEN [s[c] EXCEPT !.pc = IF Defect = "noSleep" THEN "start" ELSE "sleep", !.wake = now + RetryDelay]
              ELSE [s[c] EXCEPT !.pc = IF s[c].kind \in SenderKinds THEN "add" ELSE "ret"])
  /\ UNCHANGED <<now, conf, att, ses, h, hist, logs, up, conn, relay>>
Wake(c) == /\ s[c].pc = "sleep" /\ now >= s[c].wake /\ Upd(c, [s[c] EXCEPT !.pc = "start"])
           /\ UNCHANGED <<now, conf, att, ses, h, hist, logs, up, conn, relay>>

(* Sender.addResult as ONE step (see AddResultFine.tla for its real granularity): the result goes into the peer's buffer
   of the last senderBuffer results; success while failing: back to ok iff the buffer is full, its oldest entry is a
   failure and all others are successes; failure while ok (or as the very first result): failing, and a warning unless
   it is a dial error. *)
HKey(c) == IF Defect = "sharedState" THEN <<s[c].from, Min(Hosts)>> ELSE Key(c)
AddOutcome(st, fail, dial) ==
  LET b == TailN(Append(st.buf, fail), IF Defect = "trim3" THEN BufLen - 1 ELSE BufLen)
      recovered == /\ ~fail /\ st.failing /\ Len(b) = BufLen /\ b[1]
                   /\ \A i \in (IF Defect = "recover2" THEN 3 ELSE 2)..Len(b) : ~b[i]
      newfail == fail /\ (Len(b) = 1 \/ ~st.failing \/ Defect = "noSuppress")
  IN [st |-> [failing |-> IF recovered THEN FALSE ELSE IF newfail THEN TRUE ELSE st.failing, buf |-> b,
              failAt |-> IF newfail /\ ~st.failing THEN now ELSE st.failAt],
      log |-> IF recovered THEN "recovered" ELSE IF newfail /\ (~dial \/ Defect = "warnDial") THEN "sendfail" ELSE "-"]
AddResult(c) ==
  /\ s[c].pc = "add"
  /\ LET k == HKey(c)  o == AddOutcome(h[k], s[c].ares # "ok", s[c].ares = "dial") IN
       /\ h' = [h EXCEPT ![k] = o.st]
       /\ hist' = [hist EXCEPT ![Key(c)] = Append(@, [fail |-> s[c].ares # "ok", dial |-> s[c].ares = "dial"])]
       /\ logs' = IF o.log = "-" THEN logs ELSE [logs EXCEPT ![Key(c)] = Append(@, [kind |-> o.log, at |-> Len(hist[Key(c)]) + 1])]
  /\ Upd(c, [s[c] EXCEPT !.pc = IF s[c].kind = "async" THEN "done" ELSE "ret"])
  /\ UNCHANGED <<now, conf, att, ses, up, conn, relay>>
AddLog(c) == AddOutcome(h[HKey(c)], s[c].ares # "ok", s[c].ares = "dial").log
Ret(c) == /\ s[c].pc = "ret" /\ Upd(c, [s[c] EXCEPT !.pc = "done", !.retd = TRUE, !.retAt = now])
          /\ UNCHANGED <<now, conf, att, ses, h, hist, logs, up, conn, relay>>

---------------------------------------------------------------------------------------------------
(* the session of attempt a of call c: the stream handler RegisterHandler installed *)
SUpd(c, a, r) == ses' = [ses EXCEPT ![c][a] = r]
HasSes(c, a) == a \in 1..Len(ses[c])
P(c) == s[c].peer
\* libp2p hands the stream to the handler (with the first bytes, or as soon as the protocol is negotiated)
SAcc(c, a) == /\ HasSes(c, a) /\ ses[c][a].pc = "none" /\ att[c][a].open
              /\ SUpd(c, a, [ses[c][a] EXCEPT !.pc = "acc", !.accAt = now])
              /\ UNCHANGED <<now, conf, s, att, h, hist, logs, up, conn, relay>>
\* s.SetReadDeadline(now + receiveTimeout); ctx, cancel := context.WithTimeout(Background, receiveTimeout)
SDL(c, a) == /\ HasSes(c, a) /\ ses[c][a].pc = "acc"
             /\ SUpd(c, a, [ses[c][a] EXCEPT !.pc = "rd", !.rdl = now + Srv(P(c)).rto, !.ctxdl = now + Srv(P(c)).rto])
             /\ UNCHANGED <<now, conf, s, att, h, hist, logs, up, conn, relay>>
\* what the client put on this stream may have arrived
Arrived(c, a) == att[c][a].sent
\* ReadMsg fails: relay error (silent), time-out (not before the read deadline), anything else (EOF, size limit, ...)
SReadErr(c, a, kind) ==
  /\ HasSes(c, a) /\ ses[c][a].pc = "rd" /\ kind \in {"relay", "timeout", "other"}
  /\ kind = "timeout" => now >= ses[c][a].rdl
  /\ SUpd(c, a, [ses[c][a] EXCEPT !.pc = "closing", !.sres = kind])
  /\ UNCHANGED <<now, conf, s, att, h, hist, logs, up, conn, relay>>
\* protonil.Check(req) fails: "LibP2P received invalid proto"
SInvalid(c, a) ==
  /\ HasSes(c, a) /\ ses[c][a].pc = "rd" /\ Arrived(c, a) /\ ~Valid(P(c), s[c].rq) /\ ~TooBig(P(c), s[c].rq) /\ Defect # "noProtonil"
  /\ SUpd(c, a, [ses[c][a] EXCEPT !.pc = "closing", !.sres = "invalid"])
  /\ UNCHANGED <<now, conf, s, att, h, hist, logs, up, conn, relay>>
\* handlerFunc(ctx, s.Conn().RemotePeer(), req)
HStart(c, a) ==
  /\ HasSes(c, a) /\ ses[c][a].pc \in (IF Defect = "twice" THEN {"rd", "hret"} ELSE {"rd"}) /\ Arrived(c, a)
  /\ (Valid(P(c), s[c].rq) \/ Defect = "noProtonil") /\ ~TooBig(P(c), s[c].rq)
  /\ SUpd(c, a, [ses[c][a] EXCEPT !.pc = "inh", !.inv = @ + 1, !.hrq = s[c].rq, !.hfrom = s[c].from])
  /\ UNCHANGED <<now, conf, s, att, h, hist, logs, up, conn, relay>>
\* ENVIRONMENT: the handler returns
HEnd(c, a, res, v) ==
  /\ HasSes(c, a) /\ ses[c][a].pc = "inh" /\ res \in HResults
  /\ SUpd(c, a, [ses[c][a] EXCEPT !.pc = "hret", !.hres = res, !.hv = v])
  /\ UNCHANGED <<now, conf, s, att, h, hist, logs, up, conn, relay>>
\* writeFunc(s).WriteMsg(resp) iff the handler returned (resp, true, nil)
SWrite(c, a) ==
  /\ HasSes(c, a) /\ ses[c][a].pc = "hret" /\ Sends(ses[c][a].hres)
  /\ SUpd(c, a, [ses[c][a] EXCEPT !.pc = "closing", !.wrote = <<RespVal(ses[c][a].hres, ses[c][a].hv)>>, !.sres = "wrote"])
  /\ UNCHANGED <<now, conf, s, att, h, hist, logs, up, conn, relay>>
SWErr(c, a, cls) ==
  /\ HasSes(c, a) /\ ses[c][a].pc = "hret" /\ Sends(ses[c][a].hres) /\ cls \in {"relay", "other"}
  /\ SUpd(c, a, [ses[c][a] EXCEPT !.pc = "closing", !.sres = IF cls = "relay" THEN "wrelay" ELSE "werr"])
  /\ UNCHANGED <<now, conf, s, att, h, hist, logs, up, conn, relay>>
SSkip(c, a) ==
  /\ HasSes(c, a) /\ ses[c][a].pc = "hret" /\ ~Sends(ses[c][a].hres)
  /\ SUpd(c, a, [ses[c][a] EXCEPT !.pc = "closing", !.sres = IF ses[c][a].hres \in {"err", "resperr"} THEN "herr" ELSE "noresp"])
  /\ UNCHANGED <<now, conf, s, att, h, hist, logs, up, conn, relay>>
SClose(c, a) ==
  /\ HasSes(c, a) /\ ses[c][a].pc = "closing"
  /\ SUpd(c, a, [ses[c][a] EXCEPT !.pc = "closed"])
  /\ UNCHANGED <<now, conf, s, att, h, hist, logs, up, conn, relay>>

---------------------------------------------------------------------------------------------------
\* ENVIRONMENT: a link goes down (its connection with it) / comes up; a relay restarts under another identity
LinkDown(a, b) == /\ Linked(a, b) /\ up' = up \ {{a, b}} /\ conn' = conn \ {{a, b}}
                  /\ UNCHANGED <<now, conf, s, att, ses, h, hist, logs, relay>>
LinkUp(a, b) == /\ a # b /\ ~Linked(a, b) /\ up' = up \cup {{a, b}}
                /\ UNCHANGED <<now, conf, s, att, ses, h, hist, logs, conn, relay>>
RelaySet(r, id) == /\ r \in DOMAIN relay /\ relay' = [relay EXCEPT ![r] = id]
                   /\ UNCHANGED <<now, conf, s, att, ses, h, hist, logs, up, conn>>
\* the five methods of the gater: only InterceptSecured filters
GateRes(g, fn, id) == fn # "secured" \/ GAdmit(g, id)

---------------------------------------------------------------------------------------------------
(* time *)
CallQuiet(c) == CASE s[c].pc \in {"idle", "done", "ns"} -> TRUE
                  [] s[c].pc \in {"dl", "reading"} -> now < s[c].dl          \* a write / read may block, until the deadline
                  [] s[c].pc = "sleep" -> now < s[c].wake
                  [] OTHER -> FALSE
SesQuiet(c, a) == CASE ses[c][a].pc \in {"none", "inh", "closed"} -> TRUE
                    [] ses[c][a].pc = "rd" -> now < ses[c][a].rdl
                    [] OTHER -> FALSE
Quiet == \A c \in Calls : /\ CallQuiet(c) /\ (s[c].kind = "async" => s[c].retd)
                          /\ \A a \in 1..Len(ses[c]) : SesQuiet(c, a)
Timers == {s[c].wake : c \in {x \in Calls : s[x].pc = "sleep"}} \cup {s[c].dl : c \in {x \in Calls : s[x].pc \in {"dl", "reading"}}}
          \cup {ses[x[1]][x[2]].rdl : x \in {y \in Calls \X (1..2) : y[2] <= Len(ses[y[1]]) /\ ses[y[1]][y[2]].pc = "rd"}}
NextTimer == IF Timers = {} THEN Inf ELSE Min(Timers)
Tick(to) == /\ Quiet /\ to > now /\ to <= NextTimer /\ now' = to
            /\ UNCHANGED <<conf, s, att, ses, h, hist, logs, up, conn, relay>>

---------------------------------------------------------------------------------------------------
(* Contract.

   Sender: "provides an API for sending libp2p messages, both synchronous and asynchronous.  It also provides log
   filtering for async sending, mitigating error storms when peers are down."  addResult "adds the result of sending a
   p2p message to the internal state and possibly logs a status change"; the test in sender_internal_test.go spells the
   state machine out: not failing at the start, a single failure changes the state to failing, senderHysteresis
   successes in a row change it back.  "Only log non-dial errors."  Stated here over the HISTORY of results, without the
   buffer: *)
LastFail(q) == LET F == {i \in 1..Len(q) : q[i].fail} IN IF F = {} THEN 0 ELSE CHOOSE i \in F : \A j \in F : j <= i
CFailing(q) == LastFail(q) > 0 /\ Len(q) - LastFail(q) < Hyst
Prefix(q, n) == SubSeq(q, 1, n)
CLogAt(q, i) == IF q[i].fail THEN (IF ~CFailing(Prefix(q, i - 1)) /\ ~q[i].dial THEN "sendfail" ELSE "-")
                ELSE IF CFailing(Prefix(q, i - 1)) /\ ~CFailing(Prefix(q, i)) THEN "recovered" ELSE "-"
CLogs(q) == LET I == {i \in 1..Len(q) : CLogAt(q, i) # "-"}
                f[n \in 0..Len(q)] == IF n = 0 THEN <<>> ELSE IF n \in I THEN Append(f[n - 1], [kind |-> CLogAt(q, n), at |-> n]) ELSE f[n - 1]
            IN f[Len(q)]
\* the state is failing exactly after a failure that fewer than Hyst successes followed; a warning exactly when a
\* (non-dial) failure changes the state, "recovered" exactly when the state changes back -- per peer, whatever happens
\* to other peers
HysteresisExact == \A k \in Pairs : h[k].failing = CFailing(hist[k]) /\ logs[k] = CLogs(hist[k])
\* every Sender call is accounted exactly once, with its last attempt's result; the package functions are not
Accounted == \A k \in Pairs : Len(hist[k]) = Cardinality({c \in Calls : Key(c) = k /\ s[c].kind \in SenderKinds /\ s[c].pc \in {"ret", "done"}})

(* SendReceive "sends and receives a libp2p request and response message pair synchronously and then closes the stream.
   The provided response proto will be populated if err is nil."  RegisterHandler: "The handlerFunc is called with the
   unmarshalled request and returns either a response or false or an error.  The marshalled response is sent back if
   present.  The stream is always closed before returning." *)
Done(c) == s[c].pc = "done"
Made == {c \in Calls : s[c].pc # "idle"}
\* nil error: the response the handler produced for THIS call's request on THIS attempt's stream
ResponseMatch == \A c \in Made : (s[c].kind \in ReadKinds /\ s[c].pc \in {"rtt", "closing", "ares", "add", "ret", "done"} /\ s[c].ares = "ok") =>
                    LET x == ses[c][A(c)] IN x.inv = 1 /\ x.hrq = s[c].rq /\ MustSend(x.hres) /\ s[c].rv = RespVal(x.hres, x.hv)
\* the handler is invoked at most once per stream, with the request the client wrote, on behalf of the host that sent it,
\* only for a request that passes protonil.Check
HandlerOnce == \A c \in Made : \A a \in 1..Len(ses[c]) :
                  /\ ses[c][a].inv <= 1
                  /\ ses[c][a].inv = 1 => ses[c][a].hrq = s[c].rq /\ ses[c][a].hfrom = s[c].from /\ Valid(P(c), s[c].rq)
\* a response is written only if the handler returned one (ok, no error)
ResponseOnlyIfPresent == \A c \in Made : \A a \in 1..Len(ses[c]) : ses[c][a].wrote # <<>> => MustSend(ses[c][a].hres)
\* withRelayRetry "retries it once if the error is a relay error": at most two attempts, the second one iff the first
\* failed with a relay error, RetryDelay later; the package functions never retry
RetryOnce == \A c \in Made : /\ Len(att[c]) <= 2
                             /\ Len(att[c]) = 2 => /\ s[c].kind \in SenderKinds /\ att[c][1].res \in RelayErr
                                                   /\ att[c][2].nsAt = att[c][1].endAt + RetryDelay
                             /\ (s[c].pc \in {"add", "ret", "done"} /\ s[c].kind \in SenderKinds /\ Len(att[c]) = 1) => att[c][1].res \notin RelayErr
\* every stream a call opened is closed when the call returns (and when the goroutine of SendAsync ends)
ClientCloses == \A c \in Made : s[c].pc \in {"ares", "sleep", "add", "ret", "done"} => \A a \in 1..Len(att[c]) : att[c][a].open => att[c][a].closed
\* the deadline of the stream is sendTimeout after it was opened, the read deadline and the handler's context
\* receiveTimeout after the stream was accepted
Deadlines == /\ \A c \in Made : s[c].dl # None => s[c].dl = s[c].openAt + s[c].sto
             /\ \A c \in Made : \A a \in 1..Len(ses[c]) : ses[c][a].rdl # None =>
                    ses[c][a].rdl = ses[c][a].accAt + Srv(P(c)).rto /\ ses[c][a].ctxdl = ses[c][a].accAt + Srv(P(c)).rto
(* ConnGater "limits access to the cluster peers and relays": a connection exists only between hosts that admitted each
   other when it was made -- admitted = the gater is open, or the other end is a cluster peer or what one of the relays'
   MutablePeers holds at that moment *)
CAdmit(g, id) == g \notin conf.gated \/ id \in conf.cluster \/ \E r \in DOMAIN relay : relay[r] = id
GaterStep == \A pr \in conn' \ conn : \A a, b \in pr : a # b => CAdmit(a, b)
GaterContract == [][GaterStep]_vars
\* "WithDelimitedProtocol returns an option that adds a length delimited read/writer for the provide protocol" -- "Add to
\* front", "Protocols ordered by higher priority first": the protocols are offered last-added first, the base protocol last;
\* the stream runs one that was offered and that the peer registered
ProtoPreference == \A c \in Made : /\ s[c].protos = Reverse(s[c].delims) \o <<s[c].base>>
                                    /\ \A a \in 1..Len(att[c]) : att[c][a].open => att[c][a].proto \in Common(c)
\* SendAsync: "Clone the context since parent context may be closed soon": the send does not see the caller's context end
AsyncDetached == \A c \in Made : s[c].kind = "async" => s[c].cx = "live"
\* one peer's results never touch another peer's state
PeerIndepStep == \A k \in Pairs : (h'[k] # h[k] \/ logs'[k] # logs[k]) => Len(hist'[k]) = Len(hist[k]) + 1
PeerIndependence == [][PeerIndepStep]_vars
TypeOK == /\ now \in Nat
          /\ \A c \in Calls : Len(att[c]) = s[c].a /\ Len(ses[c]) = s[c].a
          /\ \A k \in Pairs : Len(h[k].buf) <= BufLen
Safety == /\ HysteresisExact /\ Accounted /\ ResponseMatch /\ HandlerOnce /\ ResponseOnlyIfPresent /\ RetryOnce /\ ClientCloses
          /\ Deadlines /\ ProtoPreference /\ AsyncDetached /\ TypeOK
====
