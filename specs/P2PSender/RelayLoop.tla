---- MODULE RelayLoop ----
(* p2p/relay.go: NewRelayReserver ("continuously reserves a relay circuit until the context is closed") with the
   exponential back-off of app/expbackoff (NewWithReset: "The backoff function will exponentially sleep longer each time it
   is called.  Calling the reset function will reset the backoff sleep duration to Config.BaseDelay.  The backoff function
   returns immediately after the context is cancelled."), and NewRelayRouter ("routes peers via relays in libp2p by
   continuously adding peer relay addresses to libp2p peer store.  Only relay routes for peers that THIS node should dial
   are added").

   One action per loop iteration step of the reserver (pc):
     idle -Start-> top
     top  -Top->   exited (ctx.Err() != nil) | wait (relay.Peer() not ok: time.Sleep(10 s)) | reserving (circuit.Reserve)
     wait -WaitEnd-> top
     reserving -ReserveRet(res, exp)-> backoff | top (back-off returns at once: context ended) | holding
     backoff -BackoffEnd-> top                             timer or context; retries++
     holding -HoldRefresh | HoldNoConn-> top, -HoldStop-> exited        refresh = expiration - 2 min; ticker 500 ms: no
                                                                        connection to the relay left; ctx.Done
     exited -Exit-> gone
   The ENVIRONMENT: what the relay answers (ok with an expiration / anything that makes circuit.Reserve fail), the
   MutablePeer of the relay being set, the connection to the relay going away, links, the context ending.  The router has
   one action, RouterRefresh (at its start and every RouterPeriod), and ends with the context.

   The back-off delay of iteration k (k consecutive failures before) lies in [Lo[k+1], Hi[k+1]] (tables: the last entry
   repeats); Reserve itself takes no time unless the environment makes it (ReserveRet may come any time after Top). *)
EXTENDS Integers, Sequences, FiniteSets, TLC
CONSTANTS Lo, Hi,          \* bounds of the back-off delay per number of retries so far (sequences)
          WaitUnset,       \* 10 s: pause while the relay's MutablePeer is empty
          Margin,          \* 2 min: the reservation is refreshed that long before it expires
          TickPeriod,      \* 500 ms: how often the connection to the relay is looked at
          RouterPeriod,    \* routedAddrTTL * 9 / 10
          RouteTTL,        \* routedAddrTTL
          Peers,           \* the other cluster peers
          Defect
None == -1
Inf == 2000000000
Min(S) == CHOOSE x \in S : \A y \in S : x <= y
Last(q) == q[Len(q)]
Idx(q, i) == q[IF i + 1 > Len(q) THEN Len(q) ELSE i + 1]
VARIABLES now,
          pc, k, wake, exp, holdAt, discAt,     \* reserver: program counter, retries, timer, expiration, start of the hold, when the connection went
          relaySet, linked, connected, stopped, stopAt,
          att,         \* history: attempts [t, endAt, res, exp, fails] (fails: consecutive failures before this attempt)
          rpc, rnext, routes, dial,      \* router: program counter, next refresh, per peer: until when its relay address is valid, whom to dial
          exitAt
vars == <<now, pc, k, wake, exp, holdAt, discAt, relaySet, linked, connected, stopped, stopAt, att, rpc, rnext, routes, dial, exitAt>>
InitWith(rs, d) == /\ now = 0 /\ pc = "idle" /\ k = 0 /\ wake = None /\ exp = None /\ holdAt = None /\ discAt = None
                   /\ relaySet = rs /\ linked = TRUE /\ connected = FALSE /\ stopped = FALSE /\ stopAt = None /\ att = <<>>
                   /\ rpc = "idle" /\ rnext = None /\ routes = [p \in Peers |-> None] /\ dial = d /\ exitAt = None
RV == <<rpc, rnext, routes, dial>>
\* ---- reserver
Start == /\ pc = "idle" /\ pc' = "top"
         /\ UNCHANGED <<now, k, wake, exp, holdAt, discAt, relaySet, linked, connected, stopped, stopAt, att, exitAt>> /\ UNCHANGED RV
Top == /\ pc = "top"
       /\ IF stopped /\ Defect # "ignoreStop" THEN pc' = "exited" /\ UNCHANGED <<wake, att>>
          ELSE IF ~relaySet THEN pc' = "wait" /\ wake' = now + WaitUnset /\ UNCHANGED att
          ELSE pc' = "reserving" /\ att' = Append(att, [t |-> now, endAt |-> None, res |-> "-", exp |-> None, fails |-> k]) /\ UNCHANGED wake
       /\ UNCHANGED <<now, k, exp, holdAt, discAt, relaySet, linked, connected, stopped, stopAt, exitAt>> /\ UNCHANGED RV
WaitEnd == /\ pc = "wait" /\ now >= wake /\ pc' = "top"
           /\ UNCHANGED <<now, k, wake, exp, holdAt, discAt, relaySet, linked, connected, stopped, stopAt, att, exitAt>> /\ UNCHANGED RV
\* circuit.Reserve returns: ok needs a link (the connection is made if there was none) and an expiration in the future
ReserveRet(res, e, w) ==
  /\ pc = "reserving" /\ res \in {"ok", "fail"}
  /\ res = "ok" => linked /\ e > now
  /\ att' = [att EXCEPT ![Len(att)] = [@ EXCEPT !.endAt = now, !.res = res, !.exp = IF res = "ok" THEN e ELSE None]]
  /\ IF res = "ok"
       THEN /\ pc' = "holding" /\ k' = (IF Defect = "noReset" THEN k ELSE 0) /\ exp' = e /\ holdAt' = now /\ connected' = TRUE /\ discAt' = None
            /\ UNCHANGED wake
       ELSE /\ IF stopped THEN pc' = "top" /\ UNCHANGED wake            \* backoff(): `if ctx.Err() != nil { return }`
               ELSE pc' = "backoff" /\ w >= now + Idx(Lo, k) /\ w <= now + Idx(Hi, k) /\ wake' = (IF Defect = "noBackoff" THEN now ELSE w)
            /\ UNCHANGED <<k, exp, holdAt, connected, discAt>>
  /\ UNCHANGED <<now, relaySet, linked, stopped, stopAt, exitAt>> /\ UNCHANGED RV
BackoffEnd == /\ pc = "backoff" /\ (now >= wake \/ stopped) /\ pc' = "top" /\ k' = (IF Defect = "noGrow" THEN k ELSE k + 1)
              /\ UNCHANGED <<now, wake, exp, holdAt, discAt, relaySet, linked, connected, stopped, stopAt, att, exitAt>> /\ UNCHANGED RV
RefreshAt == exp - (IF Defect = "lateRefresh" THEN 0 ELSE Margin)
OnTick(t) == t > holdAt /\ (t - holdAt) % TickPeriod = 0
FirstTickAfter(t) == holdAt + (((t - holdAt) \div TickPeriod) + 1) * TickPeriod
HoldRefresh == /\ pc = "holding" /\ now >= RefreshAt /\ pc' = "top"
               /\ UNCHANGED <<now, k, wake, exp, holdAt, discAt, relaySet, linked, connected, stopped, stopAt, att, exitAt>> /\ UNCHANGED RV
HoldNoConn == /\ pc = "holding" /\ ~connected /\ OnTick(now) /\ pc' = "top"
              /\ UNCHANGED <<now, k, wake, exp, holdAt, discAt, relaySet, linked, connected, stopped, stopAt, att, exitAt>> /\ UNCHANGED RV
HoldStop == /\ pc = "holding" /\ stopped /\ pc' = "exited"
            /\ UNCHANGED <<now, k, wake, exp, holdAt, discAt, relaySet, linked, connected, stopped, stopAt, att, exitAt>> /\ UNCHANGED RV
Exit == /\ pc = "exited" /\ pc' = "gone" /\ exitAt' = now
        /\ UNCHANGED <<now, k, wake, exp, holdAt, discAt, relaySet, linked, connected, stopped, stopAt, att>> /\ UNCHANGED RV
\* ---- environment
Stop == /\ ~stopped /\ stopped' = TRUE /\ stopAt' = now
        /\ UNCHANGED <<now, pc, k, wake, exp, holdAt, discAt, relaySet, linked, connected, att, exitAt>> /\ UNCHANGED RV
RelaySetOn == /\ ~relaySet /\ relaySet' = TRUE
              /\ UNCHANGED <<now, pc, k, wake, exp, holdAt, discAt, linked, connected, stopped, stopAt, att, exitAt>> /\ UNCHANGED RV
Disconnect == /\ connected /\ connected' = FALSE /\ discAt' = now
              /\ UNCHANGED <<now, pc, k, wake, exp, holdAt, relaySet, linked, stopped, stopAt, att, exitAt>> /\ UNCHANGED RV
SetLink(up) == /\ linked' = up /\ (IF ~up /\ connected THEN connected' = FALSE /\ discAt' = now ELSE UNCHANGED <<connected, discAt>>)
               /\ UNCHANGED <<now, pc, k, wake, exp, holdAt, relaySet, stopped, stopAt, att, exitAt>> /\ UNCHANGED RV
\* ---- router
RouterStart == /\ rpc = "idle" /\ rpc' = "run" /\ rnext' = now
               /\ UNCHANGED <<now, pc, k, wake, exp, holdAt, discAt, relaySet, linked, connected, stopped, stopAt, att, routes, dial, exitAt>>
RouterRefresh == /\ rpc = "run" /\ now >= rnext /\ ~stopped
                 /\ routes' = [p \in Peers |-> IF relaySet /\ (p \in dial \/ Defect = "routeAll") THEN now + RouteTTL ELSE routes[p]]
                 /\ rnext' = rnext + (IF Defect = "slowRouter" THEN RouteTTL + RouterPeriod ELSE RouterPeriod)
                 /\ UNCHANGED <<now, pc, k, wake, exp, holdAt, discAt, relaySet, linked, connected, stopped, stopAt, att, rpc, dial, exitAt>>
RouterStop == /\ rpc = "run" /\ stopped /\ rpc' = "gone"
              /\ UNCHANGED <<now, pc, k, wake, exp, holdAt, discAt, relaySet, linked, connected, stopped, stopAt, att, rnext, routes, dial, exitAt>>
HasRoute(p) == routes[p] # None /\ now <= routes[p]
\* ---- time
Quiet == /\ pc \in {"idle", "reserving", "gone", "wait", "backoff", "holding"}
         /\ (pc \in {"wait", "backoff"} => now < wake) /\ (pc = "backoff" => ~stopped)
         /\ (pc = "holding" => now < RefreshAt /\ ~stopped /\ (~connected => now < FirstTickAfter(discAt)))
         /\ (rpc = "run" => ~stopped /\ now < rnext)
Timers == (IF pc \in {"wait", "backoff"} THEN {wake} ELSE {}) \cup (IF pc = "holding" THEN {RefreshAt} ELSE {})
          \cup (IF pc = "holding" /\ ~connected THEN {FirstTickAfter(discAt)} ELSE {}) \cup (IF rpc = "run" THEN {rnext} ELSE {})
NextTimer == IF Timers = {} THEN Inf ELSE Min(Timers)
Tick(to) == /\ Quiet /\ to > now /\ to <= NextTimer /\ now' = to
            /\ UNCHANGED <<pc, k, wake, exp, holdAt, discAt, relaySet, linked, connected, stopped, stopAt, att, exitAt>> /\ UNCHANGED RV

---------------------------------------------------------------------------------------------------
(* Contract *)
\* after a failed attempt the next one follows after the back-off of that many consecutive failures; a success resets it
BackoffGrows == \A i \in 1..Len(att) : att[i].fails = (IF i = 1 THEN 0 ELSE IF att[i - 1].res = "ok" THEN 0 ELSE att[i - 1].fails + 1)
BackoffBetween == \A i \in 1..(Len(att) - 1) : (att[i].res = "fail" /\ (stopAt = None \/ att[i + 1].t < stopAt)) =>
                     LET g == att[i + 1].t - att[i].endAt IN g >= Idx(Lo, att[i].fails) /\ g <= Idx(Hi, att[i].fails)
\* a reservation is renewed Margin before it expires (or earlier: connection lost)
RefreshInTime == /\ \A i \in 1..(Len(att) - 1) : att[i].res = "ok" => att[i + 1].t <= att[i].exp - Margin
                 /\ (pc = "holding" /\ ~stopped) => now <= exp - Margin
\* a lost connection to the relay is noticed within one period of the ticker
ReconnectPrompt == (pc = "holding" /\ ~connected /\ ~stopped) => now <= discAt + TickPeriod
\* nothing is reserved once the context has ended
NoAttemptAfterStop == \A i \in 1..Len(att) : stopAt # None => att[i].t <= stopAt
\* the hook does not sleep on once the context has ended (the 10 s pause for an unknown relay and a Reserve under way excepted)
StopsPrompt == (stopped /\ pc \in {"backoff", "holding"}) => now = stopAt \/ now = Last(att).endAt
\* relay routes exist only for the peers this node dials (the smaller peer ID dials), and once there they do not lapse while
\* the router runs
RoutesOnlyDialed == \A p \in Peers : routes[p] # None => p \in dial
RoutesKept == (rpc = "run" /\ ~stopped) => \A p \in Peers : routes[p] # None => now <= routes[p]
Safety == BackoffGrows /\ BackoffBetween /\ RefreshInTime /\ ReconnectPrompt /\ NoAttemptAfterStop /\ StopsPrompt /\ RoutesOnlyDialed /\ RoutesKept
====
