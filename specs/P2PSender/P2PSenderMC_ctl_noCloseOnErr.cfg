SPECIFICATION MCSpec
CONSTANTS
 Calls = {1, 2}
 Hosts = {1, 2, 3}
 Hyst = 3
 RetryDelay = 1
 Defect = "noCloseOnErr"
 MCCalls = {1, 2}
 Serial = FALSE
 Kinds <- KSrAsync
 Froms <- F1
 Tos <- T2
 Shapes <- ShFull
 DelimSets <- DNone
 Ctxs <- CxLive
 NonZero <- BF
 NSOut <- NSRelay
 WErrs <- ENone
 CWRes <- CWOk
 CRRes <- CRAll
 SRErrs <- ERelay
 HRes <- HMain3
 SWErrs <- ENone
 MaxTime = 0
 Sto = 2
 Rto = 1
 Gated <- GNone
 Relay0 <- R0None
 RelayIds <- RIdsNone
 LinkOps <- LNone
INVARIANTS ClientCloses
CHECK_DEADLOCK FALSE
