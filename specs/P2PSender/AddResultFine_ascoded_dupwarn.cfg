SPECIFICATION Spec
CONSTANTS
 Procs = {1, 2}
 Fail = {1, 2}
 InitBuf <- BufEmpty
 InitFailing = FALSE
 BufLen = 4
 Fixed = FALSE
INVARIANTS WarnOnce
CHECK_DEADLOCK FALSE
