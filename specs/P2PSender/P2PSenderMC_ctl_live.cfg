SPECIFICATION FairSpec
CONSTANTS
 Calls = {1}
 Hosts = {1, 2, 3}
 Hyst = 3
 RetryDelay = 0
 Defect = "none"
 MCCalls = {1}
 Serial = FALSE
 Kinds <- KAll
 Froms <- F1
 Tos <- T23
 Shapes <- ShFE
 DelimSets <- DNone
 Ctxs <- CxLive
 NonZero <- BF
 NSOut <- NSRelayOther
 WErrs <- ERelay
 CWRes <- CWAll
 CRRes <- CRAll
 SRErrs <- SRAll
 HRes <- HMain3
 SWErrs <- ENone
 MaxTime = 0
 Sto = 0
 Rto = 0
 Gated <- GNone
 Relay0 <- R0None
 RelayIds <- RIdsNone
 LinkOps <- LNone
PROPERTIES AlwaysAnswered
CHECK_DEADLOCK FALSE
