SPECIFICATION FairSpec
CONSTANTS
 Lo <- MCLo
 Hi <- MCHi
 WaitUnset = 2
 Margin = 2
 TickPeriod = 2
 RouterPeriod = 3
 RouteTTL = 4
 Peers = {1, 2}
 MaxTime = 5
 MaxAtt = 2
 RelayKnown = TRUE
 Exps <- E35
 Defect = "none"
PROPERTIES HooksReturn
CHECK_DEADLOCK FALSE
