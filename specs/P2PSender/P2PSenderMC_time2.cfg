SPECIFICATION MCSpec
CONSTANTS
 Calls = {1, 2}
 Hosts = {1, 2, 3}
 Hyst = 3
 RetryDelay = 1
 Defect = "none"
 MCCalls = {1, 2}
 Serial = FALSE
 Kinds <- KSr
 Froms <- F1
 Tos <- T2
 Shapes <- ShFull
 DelimSets <- DNone
 Ctxs <- CxLive
 NonZero <- BF
 NSOut <- NSRelay
 WErrs <- ENone
 CWRes <- CWOk
 CRRes <- CRTO
 SRErrs <- SRTimeout
 HRes <- HResp
 SWErrs <- ENone
 MaxTime = 2
 Sto = 2
 Rto = 1
 Gated <- GNone
 Relay0 <- R0None
 RelayIds <- RIdsNone
 LinkOps <- LNone
INVARIANTS Safety
PROPERTIES PeerIndependence GaterContract
CHECK_DEADLOCK FALSE
