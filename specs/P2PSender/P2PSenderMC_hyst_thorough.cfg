SPECIFICATION MCSpec
CONSTANTS
 Calls = {1, 2, 3, 4, 5, 6, 7}
 Hosts = {1, 2, 3}
 Hyst = 3
 RetryDelay = 1
 Defect = "none"
 MCCalls = {1, 2, 3, 4, 5, 6, 7}
 Serial = TRUE
 Kinds <- KSr
 Froms <- F1
 Tos <- T23
 Shapes <- ShFull
 DelimSets <- DNone
 Ctxs <- CxLive
 NonZero <- BF
 NSOut <- NSDialOther
 WErrs <- ENone
 CWRes <- CWOk
 CRRes <- CROk
 SRErrs <- ENone
 HRes <- HResp
 SWErrs <- ENone
 MaxTime = 0
 Sto = 2
 Rto = 1
 Gated <- GNone
 Relay0 <- R0None
 RelayIds <- RIdsNone
 LinkOps <- LNone
INVARIANTS Safety
PROPERTIES PeerIndependence GaterContract
CHECK_DEADLOCK FALSE
