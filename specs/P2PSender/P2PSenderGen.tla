---- MODULE P2PSenderGen ----
(* Schedule generation: behaviours of the design spec; the ENVIRONMENT's moves are recorded in the history variable `gh`
   with the model time at which they happen: calls with their arguments, what NewStream / the writes / CloseWrite return,
   when the request reaches the handler or how the handler's read fails, what the handler returns and when, how the
   client's read ends and when, cancellations, links going down and coming up, a relay changing its identity.  What the
   Sender, SendReceive / Send and the stream handler do in between is the implementation's business.  Stimuli (Call,
   CtxCancel, Link, RelaySet) happen at quiescent moments only: the executor applies a stimulus at a point in time, the
   order of goroutines inside one instant is not its to choose.  Run with -simulate.  checks/grow_p2psender.py turns a
   history into the per-attempt scripts of the executor's network (one model time unit = 10 ms: RetryDelay = 10 is the
   100 ms pause; send time-out 300 ms, receive time-out 200 ms), so that the coincidences of the model -- a response in the
   instant of the deadline, a handler that returns when its context ends, a link that falls while a response travels -- are
   reproduced on the real code. *)
EXTENDS P2PSender, Json
CONSTANTS MaxTime, GenLen, Sto, Rto
VARIABLES gh, plan      \* plan (drawn at the start): which hosts are gated, the relay, how often the peers fail first
GSrv(p) == CASE p = 2 -> [on |-> TRUE, protos |-> {"A", "B"}, rto |-> Rto, reqtype |-> "duty", limit |-> 8]
             [] p = 3 -> [on |-> TRUE, protos |-> {"A"}, rto |-> Rto, reqtype |-> "psx", limit |-> 0]
             [] OTHER -> [on |-> FALSE, protos |-> {}, rto |-> Rto, reqtype |-> "-", limit |-> 0]
GConf(pl) == [srv |-> [p \in Hosts |-> GSrv(p)], cluster |-> {1, 2, 3}, gated |-> pl.gated, relay0 |-> pl.relay0]
AllLinks == {{a, b} : a, b \in Hosts} \ {{a} : a \in Hosts}
Plans == [gated : {{}, {2}, {2, 3}}, relay0 : {<<None>>, <<4>>}, fails : 0..3, serial : BOOLEAN]
GenInit == /\ plan \in Plans /\ InitWith(GConf(plan), AllLinks, plan.relay0) /\ gh = <<>>
Rec(e) == gh' = Append(gh, e)
\* arguments of call c, drawn at random (RandomElement: one successor per kind of move, so that the simulation does not
\* drown in the choice of arguments); Pick(w) draws from a weighted menu <<<<weight, value>>, ...>>.  TLC evaluates a LET
\* definition anew at every use, so a drawn value is bound with \E x \in {draw} (the set is evaluated once)
Pick(w) == LET tot == LET f[i \in 0..Len(w)] == IF i = 0 THEN 0 ELSE f[i - 1] + w[i][1] IN f[Len(w)]
               k == RandomElement(1..tot)
               g[i \in 1..Len(w)] == IF i = 1 THEN w[1][1] ELSE g[i - 1] + w[i][1]
           IN w[Min({i \in 1..Len(w) : k <= g[i]})][2]
GArg(c) == IF plan.serial
             THEN [kind |-> Pick(<<<<3, "sr">>, <<2, "async">>>>), from |-> 1, peer |-> 2, rq |-> [shape |-> "full", slot |-> c], base |-> "A",
                   delims |-> <<>>, sto |-> Sto, nonzero |-> FALSE, ctx |-> "live"]
             ELSE [kind |-> Pick(<<<<4, "sr">>, <<3, "async">>, <<1, "psr">>, <<1, "send">>>>),
                   from |-> Pick(<<<<5, 1>>, <<1, 4>>>>), peer |-> Pick(<<<<3, 2>>, <<2, 3>>>>),
                   rq |-> [shape |-> Pick(<<<<5, "full">>, <<1, "empty">>, <<1, "big">>>>), slot |-> c], base |-> "A",
                   delims |-> Pick(<<<<3, <<>> >>, <<2, <<"B">> >>, <<1, <<"C", "B">> >>, <<1, <<"B", "C">> >>>>), sto |-> Sto,
                   nonzero |-> Pick(<<<<9, FALSE>>, <<1, TRUE>>>>), ctx |-> Pick(<<<<9, "live">>, <<1, "canceled">>>>)]
Over(c) == s[c].pc \in {"idle", "done"} /\ \A a \in 1..Len(ses[c]) : ses[c][a].pc \in {"none", "closed"}
RespV(c, a) == 1000 + 10 * c + a
Natural(c) == LET f == s[c].from  p == s[c].peer IN
                IF s[c].cx = "canceled" THEN {"ctx", "ok"} \cap (IF CanConnect(f, p) /\ Common(c) # {} THEN {"ctx", "ok"} ELSE {"ctx"})
                ELSE IF ~CanConnect(f, p) THEN (IF ~Connected(f, p) /\ ~Linked(f, p) THEN {"nolink"} ELSE {"gated"})
                ELSE IF Common(c) = {} THEN {"unsupp"} ELSE {"ok"}
NDone == Cardinality({c \in Calls : s[c].pc # "idle"})
Internal == \E c \in Calls :
              \/ ARet(c) \/ Bug(c) \/ NS(c) \/ SetDL(c) \/ CWrite(c) \/ SendDone(c) \/ RTT(c) \/ CClose(c) \/ Decide(c) \/ Wake(c)
              \/ AddResult(c) \/ Ret(c)
              \/ \E a \in 1..2 : SDL(c, a) \/ SWrite(c, a) \/ SSkip(c, a) \/ SClose(c, a) \/ SAcc(c, a)
E(name, c, x) == [ev |-> name, t |-> now, c |-> c, a |-> s[c].a, x |-> x]
GenNext ==
  \/ \E c \in Calls :
        /\ s[c].pc = "idle" /\ Quiet /\ (\A d \in Calls : d < c => s[d].pc # "idle") /\ (plan.serial => \A d \in Calls : Over(d))
        /\ \E x \in {GArg(c)} : Call(c, x) /\ Rec([ev |-> "Call", t |-> now, c |-> c, a |-> 0, x |-> x])
  \/ \E c \in Calls : \E w \in Natural(c) : \E pr \in (IF w = "ok" THEN Common(c) ELSE {"-"}) :
        /\ ~(plan.serial /\ NDone <= plan.fails)
        /\ NSRet(c, IF w = "ok" THEN "ok" ELSE "other", w, pr) /\ UNCHANGED gh
  \/ \E c \in Calls : s[c].pc = "ns" /\ RandomElement(1..4) = 1 /\
        \E r \in {IF plan.serial /\ NDone > plan.fails THEN "relay" ELSE Pick(<<<<2, "relay">>, <<1, "dial">>, <<1, "other">>>>)} :
        NSRet(c, r, "inj", "-") /\ Rec(E("NSRet", c, r))
  \/ \E c \in Calls : s[c].pc = "dl" /\ ~plan.serial /\ RandomElement(1..8) = 1 /\
        \E e \in {Pick(<<<<1, "relay">>, <<1, "other">>>>)} : WErr(c, e) /\ Rec(E("WErr", c, e))
  \/ \E c \in Calls : s[c].pc = "wrote" /\
        \E r \in {IF plan.serial THEN "ok" ELSE Pick(<<<<9, "ok">>, <<1, "canceled">>, <<1, "relay">>, <<1, "other">>>>)} : CloseW(c, r) /\ Rec(E("CloseW", c, r))
  \/ \E c \in Calls : s[c].pc = "reading" /\
        \E r \in {IF ses[c][A(c)].wrote # <<>> THEN Pick(<<<<8, "ok">>, <<1, "relay">>, <<1, "other">>>>)
                   ELSE IF now >= s[c].dl THEN "timeout"
                   ELSE IF ses[c][A(c)].pc = "closed" THEN Pick(<<<<3, "other">>, <<1, "relay">>>>) ELSE "relay"} :
        \E v \in {IF r = "ok" THEN ses[c][A(c)].wrote[1] ELSE 0} :
        /\ (r = "relay" /\ ses[c][A(c)].wrote = <<>> /\ ses[c][A(c)].pc # "closed") => (~plan.serial /\ RandomElement(1..10) = 1)
        /\ CRead(c, r, v) /\ Rec(E("CRead", c, r))
  \/ \E c \in Calls : \E a \in 1..2 : HasSes(c, a) /\ ses[c][a].pc = "rd" /\ ~plan.serial /\
        \E k \in {IF now >= ses[c][a].rdl THEN "timeout" ELSE Pick(<<<<1, "relay">>, <<1, "other">>>>)} :
        /\ (k # "timeout" => Arrived(c, a) /\ RandomElement(1..8) = 1)
        /\ SReadErr(c, a, k) /\ Rec([ev |-> "SReadErr", t |-> now, c |-> c, a |-> a, x |-> k])
  \/ \E c \in Calls : \E a \in 1..2 : HStart(c, a) /\ Rec([ev |-> "HStart", t |-> now, c |-> c, a |-> a, x |-> "-"])
  \/ \E c \in Calls : \E a \in 1..2 : SInvalid(c, a) /\ Rec([ev |-> "HStart", t |-> now, c |-> c, a |-> a, x |-> "invalid"])
  \/ \E c \in Calls : \E a \in 1..2 : HasSes(c, a) /\ ses[c][a].pc = "inh" /\
        \E r \in {IF plan.serial THEN "resp" ELSE Pick(<<<<8, "resp">>, <<1, "nil">>, <<1, "empty">>, <<2, "false">>, <<1, "respfalse">>, <<2, "err">>, <<1, "resperr">>>>)} :
        /\ HEnd(c, a, r, RespV(c, a))
        /\ Rec([ev |-> "HEnd", t |-> now, c |-> c, a |-> a, x |-> r, hon |-> (r = "err" /\ now = ses[c][a].ctxdl)])
  \/ \E c \in Calls : \E a \in 1..2 : \E e \in {"relay", "other"} : ~plan.serial /\ RandomElement(1..8) = 1 /\ SWErr(c, a, e) /\ Rec([ev |-> "SWErr", t |-> now, c |-> c, a |-> a, x |-> e])
  \/ \E c \in Calls : Quiet /\ ~plan.serial /\ s[c].pc \in {"sleep", "reading"} /\ RandomElement(1..6) = 1 /\ CtxCancel(c) /\ Rec(E("CtxCancel", c, "-"))
  \/ \E a \in {1} : \E b \in {2, 3} : Quiet /\ ~plan.serial /\ RandomElement(1..6) = 1 /\ (LinkDown(a, b) \/ LinkUp(a, b)) /\ Rec([ev |-> "Link", t |-> now, c |-> 0, a |-> a, x |-> b, up |-> ~Linked(a, b)])
  \/ \E id \in {3, 4} : Quiet /\ ~plan.serial /\ relay[1] # id /\ RandomElement(1..6) = 1 /\ RelaySet(1, id) /\ Rec([ev |-> "RelaySet", t |-> now, c |-> 0, a |-> 1, x |-> id])
  \/ Internal /\ UNCHANGED gh
  \/ \E k \in {1, 2, 5, 10} : now + k <= MaxTime /\ Tick(IF now + k > NextTimer THEN NextTimer ELSE now + k) /\ UNCHANGED gh
GenSpec == GenInit /\ [][GenNext /\ UNCHANGED plan]_<<vars, gh, plan>>
Emit == Len(gh) < GenLen \/ PrintT("@@SCHED@@" \o ToJson([plan |-> [gated |-> plan.gated, relay0 |-> plan.relay0], h |-> gh]))
Stop == Len(gh) <= GenLen
====
