---- MODULE RelayLoopMC ----
(* Exhaustive design check of the reserver / router loops with small numbers: back-off table <<1, 2..3, 3..4>> (the last
   entry repeats), pause for an unknown relay 2, margin 2, ticker period 2, router period 3 < route TTL 4, expirations
   now + 3 .. now + 5.  Everything the environment may do, at any time: replies of the relay, the relay becoming known,
   the connection or the link going away, the context ending. *)
EXTENDS RelayLoop
CONSTANTS MaxTime, MaxAtt, RelayKnown, Exps
MCLo == <<1, 2, 3>>
MCHi == <<1, 3, 4>>
D1 == {1}
D12 == {1, 2}
E35 == {3, 5}
E4 == {4}
MCInit == InitWith(RelayKnown, {1})
Env == \/ Stop \/ RelaySetOn \/ Disconnect \/ SetLink(FALSE) \/ SetLink(TRUE)
       \/ (Len(att) <= MaxAtt /\ \E e \in Exps : ReserveRet("ok", now + e, None))
       \/ \E w \in (now + Idx(Lo, k))..(now + Idx(Hi, k)) : ReserveRet("fail", None, w)
Internal == Start \/ RouterStart \/ (Len(att) < MaxAtt /\ Top) \/ (Len(att) >= MaxAtt /\ pc = "top" /\ stopped /\ Top) \/ WaitEnd \/ BackoffEnd
            \/ HoldRefresh \/ HoldNoConn \/ HoldStop \/ Exit \/ RouterRefresh \/ RouterStop
MCNext == Env \/ Internal \/ (now < MaxTime /\ Tick(now + 1))
MCSpec == MCInit /\ [][MCNext]_vars
\* liveness: once the context has ended both hooks return (the relay keeps answering)
Fair == WF_vars(Internal) /\ WF_vars(\E w \in (now + Idx(Lo, k))..(now + Idx(Hi, k)) : ReserveRet("fail", None, w)) /\ WF_vars(now < MaxTime /\ Tick(now + 1))
FairSpec == MCInit /\ [][MCNext]_vars /\ Fair
HooksReturn == stopped ~> (pc \in {"gone", "idle"} /\ rpc \in {"gone", "idle"})
====
