SPECIFICATION Spec
CONSTANTS
 Procs = {1, 2}
 Fail = {2}
 InitBuf <- BufSFSS
 InitFailing = TRUE
 BufLen = 4
 Fixed = FALSE
INVARIANTS NoPanic
CHECK_DEADLOCK FALSE
