SPECIFICATION MCSpec
CONSTANTS
 Calls = {1}
 Hosts = {1, 2, 3}
 Hyst = 3
 RetryDelay = 1
 Defect = "respOnErr"
 MCCalls = {1}
 Serial = FALSE
 Kinds <- KAll
 Froms <- F1
 Tos <- T23
 Shapes <- ShAll
 DelimSets <- DBC0
 Ctxs <- CxLive
 NonZero <- BF
 NSOut <- NSAll
 WErrs <- ERelayOther
 CWRes <- CWAll
 CRRes <- CRAll
 SRErrs <- SRAll
 HRes <- HAll
 SWErrs <- ERelayOther
 MaxTime = 0
 Sto = 2
 Rto = 1
 Gated <- GNone
 Relay0 <- R0None
 RelayIds <- RIdsNone
 LinkOps <- LNone
INVARIANTS ResponseMatch
CHECK_DEADLOCK FALSE
