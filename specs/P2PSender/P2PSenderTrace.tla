---- MODULE P2PSenderTrace ----
(* Trace validation for p2p/sender.go + p2p/receive.go + p2p/gater.go.  The executor (harness/p2psender) runs every
   schedule inside a testing/synctest bubble over go-libp2p mocknet hosts whose streams it wraps: virtual time, exact,
   advances only when every goroutine is durably blocked -- the design spec's Tick / Quiet.  Events carry the virtual time
   t in microseconds; they are written under one mutex by the goroutine that acts (outputs before they take effect, inputs
   after they were received), so the log is a linearisation:

     Reset   {sid, hosts, srv: [{on, protos, rto, reqtype, limit}], cluster, gated, relays}
     Call    {c, kind, from, peer, rq: {shape, slot}, base, delims, sto, nonzero, ctx}       a call is made (logged before)
     ARet    {c, err}                                         SendAsync returned
     NS      {c, a, protos, lim, cx, ctxdl}                   the code calls host.NewStream: offered protocols in order,
                                                              whether limited (relayed) connections are allowed, the context
     NSRet   {c, a, res, why, proto}                          ... returns: the stream's protocol, or the class of the error
     DL      {c, a, side, which, d}                           SetDeadline / SetReadDeadline on the stream
     CW {c, a, rq} / CWErr {c, a, res}                        the request was written completely / the write failed
     CCW     {c, a, res}                                      CloseWrite returns
     CRd     {c, a, res, v}                                   a complete response was read (its value) / the read failed
     RTT     {c, d}                                           the RTT callback
     CClose  {c, a}                                           the client closes the stream
     Log     {c, p, kind, level}                              a line of Sender.addResult: "sendfail" (warn) / "recovered" (info)
     Ret     {c, err, rv}                                     the call returns: class of the error, value in the response proto
     SAcc    {c, a, p, proto, from}                           libp2p starts the stream handler
     SRdErr  {c, a, res}                                      the handler's read failed
     SLog    {c, a, p, kind}                                  a line of the stream handler (found by its goroutine)
     HStart  {c, a, p, rq, from, dl, cx} / HEnd {c, a, res, v}     the registered HandlerFunc is entered / returns
     SW {c, a, v} / SWErr {c, a, res}                         the response was written completely / the write failed
     SClose  {c, a} / SExit {c, a, p}                         the handler closes the stream / the stream handler returned
     CtxCancel {c}, Link {a, b, up}, RelaySet {r, id}         stimuli
     Gate    {g, fn, id, res}                                 a method of host g's ConnGater was asked about host id
     End     {streams, gor}                                   the schedule is drained: application streams still open on any
                                                              host, goroutines still inside package p2p

   Silent steps: Bug, SendDone, Decide, Wake, SSkip, AddResult when it logs nothing, Tick. *)
EXTENDS P2PSender, TraceCommon
VARIABLES exited      \* sessions whose stream handler has returned
tvars == <<vars, tr, l, exited>>
Cfg == Trace[1]
AllLinks == {{a, b} : a, b \in Hosts} \ {{a} : a \in Hosts}
SrvOff == [on |-> FALSE, protos |-> {}, rto |-> 0, reqtype |-> "-", limit |-> 0]
ConfOf(r) == [srv |-> [p \in Hosts |-> IF p <= Len(r.srv) /\ r.srv[p].on
                                         THEN [on |-> TRUE, protos |-> SeqToSet(r.srv[p].protos), rto |-> r.srv[p].rto,
                                               reqtype |-> r.srv[p].reqtype, limit |-> r.srv[p].limit]
                                         ELSE SrvOff],
              cluster |-> SeqToSet(r.cluster), gated |-> SeqToSet(r.gated), relay0 |-> r.relays]
TraceInit == TrInit /\ InitWith(ConfOf(Traces[tr][1]), AllLinks, Traces[tr][1].relays) /\ exited = {}

AtT == now = Ev.t
Known == Ev.c \in Calls
Cur == Known /\ Ev.a = A(Ev.c)                   \* an event of the call's current attempt
SesEv == Known /\ Ev.a \in 1..Len(ses[Ev.c])
Named(name, p) == IF p THEN TRUE ELSE InvFail(name)
NormRq(rq) == IF rq.shape = "empty" THEN [shape |-> "empty", slot |-> 0] ELSE [shape |-> rq.shape, slot |-> rq.slot]
X == UNCHANGED exited

TReset == IsEvent("Reset") /\ l = 1 /\ UNCHANGED vars /\ X
TReg == IsEvent("Reg") /\ UNCHANGED vars /\ X
TCall == /\ IsEvent("Call") /\ AtT /\ Known /\ X
         /\ Call(Ev.c, [kind |-> Ev.kind, from |-> Ev.from, peer |-> Ev.peer, rq |-> NormRq(Ev.rq), base |-> Ev.base,
                        delims |-> Ev.delims, sto |-> Ev.sto, nonzero |-> Ev.nonzero, ctx |-> Ev.ctx])
TARet == IsEvent("ARet") /\ AtT /\ Known /\ X /\ ARet(Ev.c) /\ Named("AsyncReturnsNil", Ev.err = "ok")
TCtxCancel == IsEvent("CtxCancel") /\ AtT /\ Known /\ X /\ (CtxCancel(Ev.c) \/ ((s[Ev.c].pc = "done" \/ s[Ev.c].ctx = "canceled") /\ UNCHANGED vars))
TNS == /\ IsEvent("NS") /\ AtT /\ Known /\ X
       /\ Named("UnexpectedNewStream", s[Ev.c].pc \notin {"done", "ret", "add", "open", "dl", "wrote", "reading", "rtt", "closing", "ns"})
       /\ NS(Ev.c)
       /\ Named("AttemptNumber", Ev.a = s'[Ev.c].a)
       /\ Named("ProtocolOrder", Ev.protos = s[Ev.c].protos)
       /\ Named("AllowLimitedConn", Ev.lim)
       /\ Named("ContextHanded", Ev.cx = s'[Ev.c].cx /\ (s[Ev.c].kind = "async" => ~Ev.ctxdl))
       /\ Named("StreamTarget", Ev.from = s[Ev.c].from /\ Ev.to = s[Ev.c].peer)
TNSRet == /\ IsEvent("NSRet") /\ AtT /\ Cur /\ X
          /\ Named("Negotiated", Ev.res = "ok" => Ev.proto \in Common(Ev.c))
          /\ NSRet(Ev.c, Ev.res, Ev.why, Ev.proto)
TDL == /\ IsEvent("DL") /\ AtT /\ X
       /\ IF Ev.side = "c"
            THEN Cur /\ SetDL(Ev.c) /\ Named("SendDeadline", Ev.which = "rw" /\ Ev.d = s[Ev.c].openAt + s[Ev.c].sto)
            ELSE SesEv /\ SDL(Ev.c, Ev.a) /\ Named("ReadDeadline", Ev.which = "r" /\ Ev.d = ses[Ev.c][Ev.a].accAt + Srv(P(Ev.c)).rto)
TCW == IsEvent("CW") /\ AtT /\ Cur /\ X /\ CWrite(Ev.c) /\ Named("RequestIntegrity", Ev.rq = s[Ev.c].rq)
TCWErr == IsEvent("CWErr") /\ AtT /\ Cur /\ X /\ WErr(Ev.c, Ev.res)
TCCW == IsEvent("CCW") /\ AtT /\ Cur /\ X /\ Ev.side = "c" /\ CloseW(Ev.c, Ev.res)
TCRd == IsEvent("CRd") /\ AtT /\ Cur /\ X /\ CRead(Ev.c, Ev.res, Ev.v)
TRTT == IsEvent("RTT") /\ AtT /\ Known /\ X /\ RTT(Ev.c) /\ Named("RTTValue", Ev.d = now - s[Ev.c].openAt)
TCClose == /\ IsEvent("CClose") /\ AtT /\ Cur /\ X
           /\ Named("ClosedTwice", ~Ev.again)
           /\ Named("UnexpectedClose", s[Ev.c].pc \notin {"open", "dl", "reading", "rtt"})
           /\ CClose(Ev.c)
\* Sender.addResult is not atomic (AddResultFine.tla): of two failures reported for one peer in the same instant both may
\* find the peer "not failing" and both log the change.  Tolerated in the instant of the change only.
DupWarn(c, kind) == /\ kind = "sendfail" /\ AddLog(c) = "-" /\ s[c].ares \notin {"ok", "dial"}
                    /\ h[HKey(c)].failing /\ h[HKey(c)].failAt = now
TLog == /\ IsEvent("Log") /\ AtT /\ Known /\ X
        /\ Named("UnexpectedLogLine", s[Ev.c].pc \notin {"ret", "done"} /\ Ev.kind \in {"sendfail", "recovered"})
        /\ Named("LogLine", s[Ev.c].pc = "add" => AddLog(Ev.c) = Ev.kind \/ DupWarn(Ev.c, Ev.kind))
        /\ AddResult(Ev.c)
        /\ Named("LogPeer", Ev.p = s[Ev.c].peer)
        /\ Named("LogLevel", Ev.level = IF Ev.kind = "sendfail" THEN "warn" ELSE "info")
TRet == /\ IsEvent("Ret") /\ AtT /\ Known /\ X
        /\ Named("MissingLogLine", s[Ev.c].pc = "add" => AddLog(Ev.c) = "-")
        /\ Ret(Ev.c)
        /\ Named("ReturnedError", Ev.err = s[Ev.c].ares)
        /\ Named("ReturnedResponse", (s[Ev.c].kind \in ReadKinds /\ Ev.err = "ok") => Ev.rv = s[Ev.c].rv)
TSAcc == /\ IsEvent("SAcc") /\ AtT /\ SesEv /\ X /\ SAcc(Ev.c, Ev.a)
         /\ Named("SessionEnds", Ev.p = s[Ev.c].peer /\ Ev.from = s[Ev.c].from /\ Ev.proto = att[Ev.c][Ev.a].proto)
TSRdErr == IsEvent("SRdErr") /\ AtT /\ SesEv /\ X /\ SReadErr(Ev.c, Ev.a, Ev.res)
\* the handler's log lines: "invalid" and the size limit are the only evidence of how the read ended, the others repeat
\* what is known (at most once per session)
TSLog == /\ IsEvent("SLog") /\ AtT /\ SesEv /\ X
         /\ LET x == ses[Ev.c][Ev.a] IN
            CASE Ev.kind = "invalid" -> SInvalid(Ev.c, Ev.a)
              [] Ev.kind = "readfail" /\ x.pc = "rd" -> Arrived(Ev.c, Ev.a) /\ TooBig(P(Ev.c), s[Ev.c].rq) /\ SReadErr(Ev.c, Ev.a, "other")
              [] OTHER -> /\ x.pc = "closing" /\ ~x.slog
                          /\ Named("HandlerLogLine", x.sres = (CASE Ev.kind = "timeout" -> "timeout" [] Ev.kind = "readfail" -> "other"
                                                                 [] Ev.kind = "herr" -> "herr" [] Ev.kind = "writefail" -> "werr" [] OTHER -> "?"))
                          /\ SUpd(Ev.c, Ev.a, [x EXCEPT !.slog = TRUE])
                          /\ UNCHANGED <<now, conf, s, att, h, hist, logs, up, conn, relay>>
THStart == /\ IsEvent("HStart") /\ AtT /\ SesEv /\ X
           /\ Named("HandlerTwice", ses[Ev.c][Ev.a].inv = 0)
           /\ Named("HandlerOnInvalid", Valid(P(Ev.c), s[Ev.c].rq))
           /\ HStart(Ev.c, Ev.a)
           /\ Named("HandlerRequest", Ev.rq = s[Ev.c].rq /\ Ev.from = s[Ev.c].from /\ Ev.p = s[Ev.c].peer)
           /\ Named("HandlerContext", Ev.dl = ses[Ev.c][Ev.a].ctxdl /\ (Ev.cx = "live" \/ now >= ses[Ev.c][Ev.a].ctxdl))
THEnd == IsEvent("HEnd") /\ AtT /\ SesEv /\ X /\ HEnd(Ev.c, Ev.a, Ev.res, Ev.v)
TSW == /\ IsEvent("SW") /\ AtT /\ SesEv /\ X
       /\ Named("ResponseNotPresent", ses[Ev.c][Ev.a].pc = "hret" => MustSend(ses[Ev.c][Ev.a].hres))
       /\ SWrite(Ev.c, Ev.a)
       /\ Named("ResponseWritten", <<Ev.v>> = ses'[Ev.c][Ev.a].wrote)
TSWErr == IsEvent("SWErr") /\ AtT /\ SesEv /\ X /\ SWErr(Ev.c, Ev.a, Ev.res)
TSClose == /\ IsEvent("SClose") /\ AtT /\ SesEv /\ X
           /\ Named("ClosedTwice", ~Ev.again)
           /\ Named("ResponseMissing", ses[Ev.c][Ev.a].pc = "hret" => ~MustSend(ses[Ev.c][Ev.a].hres))
           /\ SClose(Ev.c, Ev.a)
\* "The stream is always closed before returning."
TSExit == /\ IsEvent("SExit") /\ AtT /\ SesEv /\ UNCHANGED vars
          /\ Named("ClosedBeforeReturning", ses[Ev.c][Ev.a].pc = "closed")
          /\ exited' = exited \cup {<<Ev.c, Ev.a>>}
TLink == IsEvent("Link") /\ AtT /\ X /\ IF Ev.up THEN LinkUp(Ev.a, Ev.b) \/ (Linked(Ev.a, Ev.b) /\ UNCHANGED vars)
                                             ELSE LinkDown(Ev.a, Ev.b) \/ (~Linked(Ev.a, Ev.b) /\ UNCHANGED vars)
TRelaySet == IsEvent("RelaySet") /\ AtT /\ X /\ RelaySet(Ev.r, Ev.id)
TGate == IsEvent("Gate") /\ AtT /\ X /\ UNCHANGED vars /\ Named("GaterAdmits", Ev.res = GateRes(Ev.g, Ev.fn, Ev.id))
\* the end of the schedule: every call has returned, every goroutine has ended, every stream is closed
Sessions == {x \in Calls \X (1..2) : x[2] <= Len(ses[x[1]]) /\ ses[x[1]][x[2]].pc # "none"}
TEnd == /\ IsEvent("End") /\ AtT /\ Quiet /\ UNCHANGED vars /\ X
        /\ Named("AllReturned", \A c \in Made : Done(c) /\ s[c].retd)
        /\ Named("SessionsClosed", \A x \in Sessions : ses[x[1]][x[2]].pc = "closed")
        /\ Named("HandlersReturned", exited = Sessions)
        /\ Named("NoStreamLeft", Ev.streams = 0)
        /\ Named("NoGoroutineLeft", Ev.gor = 0)

TSilent == /\ Silent /\ X
           /\ \/ \E c \in Calls : \/ Bug(c) \/ SendDone(c) \/ Decide(c) \/ Wake(c)
                                  \/ (s[c].pc = "add" /\ AddLog(c) = "-" /\ AddResult(c))
                                  \/ \E a \in 1..2 : SSkip(c, a)
              \/ /\ l <= TLen /\ Ev.t > now
                 /\ Named("MissingLogLine", \A c \in Calls : s[c].pc = "add" => AddLog(c) = "-")    \* nothing more happens in this instant
                 /\ Tick(IF NextTimer < Ev.t THEN NextTimer ELSE Ev.t)
TraceNext == TReset \/ TReg \/ TCall \/ TARet \/ TCtxCancel \/ TNS \/ TNSRet \/ TDL \/ TCW \/ TCWErr \/ TCCW \/ TCRd \/ TRTT \/ TCClose
             \/ TLog \/ TRet \/ TSAcc \/ TSRdErr \/ TSLog \/ THStart \/ THEnd \/ TSW \/ TSWErr \/ TSClose \/ TSExit \/ TLink \/ TRelaySet
             \/ TGate \/ TEnd \/ TSilent
TraceSpec == TraceInit /\ [][TraceNext]_tvars
Mark == /\ CheckInv("HysteresisExact", HysteresisExact) /\ CheckInv("Accounted", Accounted) /\ CheckInv("ResponseMatch", ResponseMatch)
        /\ CheckInv("HandlerOnce", HandlerOnce) /\ CheckInv("ResponseOnlyIfPresent", ResponseOnlyIfPresent)
        /\ CheckInv("RetryOnce", RetryOnce) /\ CheckInv("ClientCloses", ClientCloses) /\ CheckInv("Deadlines", Deadlines)
        /\ CheckInv("ProtoPreference", ProtoPreference) /\ CheckInv("AsyncDetached", AsyncDetached) /\ CheckInv("TypeOK", TypeOK)
ActOK == /\ CheckInv("PeerIndependence", PeerIndepStep) /\ CheckInv("GaterContract", GaterStep) /\ HWMarkA
====
