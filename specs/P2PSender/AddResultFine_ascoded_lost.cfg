SPECIFICATION Spec
CONSTANTS
 Procs = {1, 2}
 Fail = {1}
 InitBuf <- BufEmpty
 InitFailing = FALSE
 BufLen = 4
 Fixed = FALSE
INVARIANTS NoLostResult
CHECK_DEADLOCK FALSE
