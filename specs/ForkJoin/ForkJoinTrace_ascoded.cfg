SPECIFICATION TraceSpec
CONSTANTS FailFastOn = "anyerr"
 FlattenPrefer = "real"
 SkipCancelled = TRUE
 CancelDrains = "no"
 ExtraWorkers = 0
CONSTRAINT Mark
POSTCONDITION Report
CHECK_DEADLOCK FALSE
