SPECIFICATION MCSpec
CONSTANTS FailFastOn = "anyerr"
 FlattenPrefer = "real"
 SkipCancelled = TRUE
 CancelDrains = "no"
 ExtraWorkers = 0
 WorkersMC = {2}
 BufsMC = {1}
 MaxN = 3
 KindsMC = {"ok", "err", "ctx"}
 FailFastMC = {TRUE, FALSE}
 WaitMC = {TRUE, FALSE}
 MaxPanics = 0
 RootMC = {}
 Reduce = TRUE
INVARIANTS Safety
VIEW View
CHECK_DEADLOCK FALSE
