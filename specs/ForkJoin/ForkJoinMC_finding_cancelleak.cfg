SPECIFICATION MCSpec
CONSTANTS FailFastOn = "anyerr"
 FlattenPrefer = "real"
 SkipCancelled = TRUE
 CancelDrains = "no"
 ExtraWorkers = 0
 WorkersMC = {2}
 BufsMC = {1}
 MaxN = 2
 KindsMC = {"ok", "err", "cerr", "ctx", "okc"}
 FailFastMC = {TRUE}
 WaitMC = {FALSE}
 MaxPanics = 0
 RootMC = {}
 Reduce = TRUE
INVARIANTS NoLeakAfterCancel
VIEW View
CHECK_DEADLOCK FALSE
