SPECIFICATION MCSpec
CONSTANTS FailFastOn = "anyerr"
 FlattenPrefer = "real"
 SkipCancelled = TRUE
 CancelDrains = "yes"
 ExtraWorkers = 0
 WorkersMC = {1, 2}
 BufsMC = {0, 1}
 MaxN = 2
 KindsMC = {"ok", "err", "cerr", "ctx", "okc"}
 FailFastMC = {TRUE, FALSE}
 WaitMC = {TRUE, FALSE}
 MaxPanics = 0
 RootMC = {}
 Reduce = TRUE
INVARIANTS SafetyRepaired
VIEW View
CHECK_DEADLOCK FALSE
