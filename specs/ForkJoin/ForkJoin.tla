---- MODULE ForkJoin ----
(* app/forkjoin/forkjoin.go: "do work concurrently (fork) and then wait for the results (join)".
   New(rootCtx, work, opts) starts `workers` goroutines ranging over a buffered `input` channel and hands back three
   closures: fork, join, cancel.  The module is a transcription, one action per critical section / channel operation /
   loop iteration:

     fork(i)        wg.Add(1); select { input <- i | <-rootCtx.Done() }; (deferred) wg.Done() when not added     ForkCall,
                    a send on the closed channel panics                                                          ForkReturn
     worker loop    for in := range input                                                                        WTake, WExit
                       if workCtx.Err() != nil { enqueue(in, zero, workCtx.Err()); continue }                    WCheck
                       out, err := work(workCtx, in)                                                             (environment)
                       if failFast && err != nil { cancelWorkers() }; enqueue(in, out, err)                      WFinish
     enqueue        go func(){ select { results <- Result | <-dropOutput }; wg.Done() }                          Recv, Drop
     join()         close(input) (panics the second time); go func(){ wg.Wait(); close(results); close(done) }   Join, JClose
     cancel()       close(dropOutput) (panics the second time); cancelWorkers(); if waitOnCancel { <-done }      Cancel, CancelWake
     Flatten        range over the results: outputs in arrival order, first non-Canceled error, else first error  FlattenOf

   ONE forker thread (Fork and Join are sequential, a Fork can be blocked while the rest goes on); cancel and the cancel
   of the root context may come from anywhere.  Inputs are numbered 1..N in the order of the Fork calls; what the work
   function does for input i is the environment's script cf.script[i]:
       "ok"    blocks until released, returns (i, nil)            "err"  blocks until released, returns (i, e_i)
       "cerr"  blocks until released, returns (i, context.Canceled) although nobody cancelled its context
       "ctx"   blocks until its context is done, returns (i, ctx.Err())
       "okc"   released -> (i, nil), context done first -> (i, ctx.Err())
   Error values: "nil", "e1".."eN" (the work function's own errors), "ctx" (errors.Is Canceled), "dl" (DeadlineExceeded:
   the root context's deadline passed).  A skipped input yields (zero = 0, workCtx.Err()).

   Workers are interchangeable: the state keeps how many are idle / have exited and which inputs are taken / running.

   Switches (as coded first):
     FailFastOn    "anyerr" | "realerr" (context.Canceled does not trigger) | "never"
     FlattenPrefer "real" | "ctx" (a Canceled error wins over a real one) | "first" (first error of any kind)
     SkipCancelled TRUE | FALSE (the work function is called although the work context is cancelled)
     CancelDrains  "no" | "yes"  (repaired variant, pending_fixes/GROW-forkjoin-cancel-leak.diff: cancel() also closes
                                  the input channel and starts the closer when Join has not been called)
                   | "either" (trace validation: the documentation -- "defer cancel() // Release any remaining
                                  resources" -- does not say which; both are accepted, the as-coded leak is reported
                                  as an observation)
     ExtraWorkers  0 | k         (k more worker goroutines than configured) *)
EXTENDS Integers, Sequences, FiniteSets, TLC
CONSTANTS FailFastOn, FlattenPrefer, SkipCancelled, CancelDrains, ExtraWorkers

Kinds == {"ok", "err", "cerr", "ctx", "okc"}
Gated == {"ok", "err", "cerr", "okc"}
CtxKinds == {"ctx", "okc"}

VARIABLES cf,        \* [workers, buf, failfast, wait, script]: the options and the environment's script
          nfork,     \* number of Fork calls so far (= id of the last forked input)
          fk,        \* forker: [st |-> "idle" | "blocked" | "ret", pan |-> BOOLEAN]
          inq,       \* the input channel's buffer
          closed,    \* input closed (Join was called)
          idle, exited, taken, running,   \* workers: counts of idle / exited ones, inputs taken (before the ctx check) / in work()
          rel,       \* gates the environment has opened
          wctx, root,\* workCtx.Err() / rootCtx.Err(): "none" | "ctx" | "dl"
          pend,      \* results held by enqueue goroutines
          rcv,       \* the consumer's last receive: [k |-> "no" | "none" | "eof" | "res", r |-> the result]
          got, lost, \* results delivered to the consumer (in order) / dropped
          dropOut,   \* dropOutput closed (cancel was called)
          joinSt,    \* "no" | "waiting" (closer goroutine in wg.Wait) | "closed" (results and done closed)
          jret,      \* outcome of the last Join call: "" | "ok" | "panic"
          cn,        \* canceller: [st |-> "no" | "blocked" | "ret" | "done", pan |-> BOOLEAN]
          fl,        \* Flatten running on the results channel: "no" | "running" | "ret" | "done"
          fstart,    \* Len(got) when Flatten started
          hst        \* history for the invariants: [started, late, notadded, errs, trig, panics] and joined (Join was called)

conf == <<cf>>
chan == <<nfork, fk, inq, closed>>
work == <<idle, exited, taken, running, rel, wctx, root>>
outp == <<pend, rcv, got, lost, dropOut, joinSt, jret, cn, fl, fstart>>
vars == <<conf, chan, work, outp, hst>>

N == Len(cf.script)
Inputs == 1..N
Res(i, o, e) == [in |-> i, out |-> o, err |-> e]
ErrName(i) == "e" \o ToString(i)
NoRes == Res(0, 0, "nil")
Rcv(k, r) == [k |-> k, r |-> r]
Range(s) == {s[i] : i \in DOMAIN s}

InitWith(c) ==
  /\ cf = c /\ nfork = 0 /\ fk = [st |-> "idle", pan |-> FALSE] /\ inq = <<>> /\ closed = FALSE
  /\ idle = c.workers + ExtraWorkers /\ exited = 0 /\ taken = {} /\ running = {} /\ rel = {}
  /\ wctx = "none" /\ root = "none"
  /\ pend = {} /\ rcv = Rcv("no", NoRes) /\ got = <<>> /\ lost = {} /\ dropOut = FALSE /\ joinSt = "no" /\ jret = ""
  /\ cn = [st |-> "no", pan |-> FALSE] /\ fl = "no" /\ fstart = 0
  /\ hst = [started |-> {}, late |-> {}, notadded |-> {}, errs |-> <<>>, trig |-> "", panics |-> <<>>, joined |-> FALSE]

Panicked(op) == hst' = [hst EXCEPT !.panics = Append(@, op)]
FkRet(p) == [st |-> "ret", pan |-> p]

----
\* ------------------------------------------------------------------------------------------------ fork
\* fork(i): wg.Add(1), then the select.  The send proceeds when the buffer has room (or, unbuffered, when a worker takes
\* it: WTake); with the root context done the select may also take that branch (input not enqueued, no result ever);
\* on the closed channel the send branch panics (the deferred wg.Done runs).
ForkCall(i) ==
  /\ fk.st = "idle" /\ i = nfork + 1 /\ i <= N
  /\ nfork' = i
  /\ UNCHANGED <<conf, closed, work, outp>>
  /\ \/ closed /\ fk' = FkRet(TRUE) /\ UNCHANGED inq
        /\ hst' = [hst EXCEPT !.panics = Append(@, "fork"), !.notadded = @ \cup {i}]
     \/ root # "none" /\ fk' = FkRet(FALSE) /\ UNCHANGED inq /\ hst' = [hst EXCEPT !.notadded = @ \cup {i}]
     \/ ~closed /\ Len(inq) < cf.buf /\ inq' = Append(inq, i) /\ fk' = FkRet(FALSE) /\ UNCHANGED hst
     \/ ~closed /\ Len(inq) >= cf.buf /\ (root = "none" \/ (cf.buf = 0 /\ idle > 0))
          /\ fk' = [st |-> "blocked", pan |-> FALSE] /\ UNCHANGED <<inq, hst>>
ForkReturn == fk.st = "ret" /\ fk' = [st |-> "idle", pan |-> FALSE] /\ UNCHANGED <<conf, nfork, inq, closed, work, outp, hst>>

\* the root context is cancelled / its deadline passes: the work context is its child; a blocked fork gives up
RootCancel(kind) ==
  /\ root = "none" /\ root' = kind
  /\ wctx' = IF wctx = "none" THEN kind ELSE wctx
  /\ IF fk.st = "blocked" THEN fk' = FkRet(FALSE) /\ hst' = [hst EXCEPT !.notadded = @ \cup {nfork}]
                          ELSE UNCHANGED <<fk, hst>>
  /\ UNCHANGED <<conf, nfork, inq, closed, idle, exited, taken, running, rel, outp>>
\* with root done and a blocked (unbuffered, worker present) sender nobody is left blocked for long: covered by WTake

\* ------------------------------------------------------------------------------------------------ workers
\* `for in := range input`: receive the head of the buffer; a blocked sender's value moves into the buffer (or, with an
\* empty buffer, is handed over directly) and the sender wakes up
WTake ==
  /\ idle > 0 /\ (inq # <<>> \/ fk.st = "blocked")
  /\ LET item == IF inq # <<>> THEN Head(inq) ELSE nfork IN
     /\ taken' = taken \cup {item} /\ idle' = idle - 1
     /\ inq' = IF inq = <<>> THEN inq ELSE IF fk.st = "blocked" THEN Append(Tail(inq), nfork) ELSE Tail(inq)
     /\ fk' = IF fk.st = "blocked" THEN FkRet(FALSE) ELSE fk
  /\ UNCHANGED <<conf, nfork, closed, exited, running, rel, wctx, root, outp, hst>>
\* the range loop ends on the closed and drained channel
WExit ==
  /\ idle > 0 /\ inq = <<>> /\ fk.st # "blocked"
  /\ closed
  /\ idle' = idle - 1 /\ exited' = exited + 1
  /\ UNCHANGED <<conf, chan, taken, running, rel, wctx, root, outp, hst>>
\* `if workCtx.Err() != nil { enqueue(in, zero, workCtx.Err()); continue }` else call work(workCtx, in)
WCheck(i) ==
  /\ i \in taken /\ taken' = taken \ {i}
  /\ IF wctx # "none" /\ SkipCancelled
       THEN /\ pend' = pend \cup {Res(i, 0, wctx)} /\ idle' = idle + 1
            /\ UNCHANGED <<running, hst>>
       ELSE /\ running' = running \cup {i}
            /\ hst' = [hst EXCEPT !.started = @ \cup {i}, !.late = IF wctx # "none" THEN @ \cup {i} ELSE @]
            /\ UNCHANGED <<pend, idle>>
  /\ UNCHANGED <<conf, chan, exited, rel, wctx, root, rcv, got, lost, dropOut, joinSt, jret, cn, fl, fstart>>

\* what the scripted work function may return for input i right now
GateErr(i) == CASE cf.script[i] = "err" -> ErrName(i) [] cf.script[i] = "cerr" -> "ctx" [] OTHER -> "nil"
MayReturn(i) == (IF cf.script[i] \in Gated /\ i \in rel THEN {GateErr(i)} ELSE {})
                \cup (IF cf.script[i] \in CtxKinds /\ wctx # "none" THEN {wctx} ELSE {})
Trigger(e) == /\ cf.failfast
              /\ CASE FailFastOn = "anyerr" -> e # "nil" [] FailFastOn = "realerr" -> e \notin {"nil", "ctx"} [] OTHER -> FALSE
\* work returns (i, e): `if failFast && err != nil { cancelWorkers() }; enqueue(in, out, err)`, next loop iteration
WFinish(i, e) ==
  /\ i \in running /\ e \in MayReturn(i)
  /\ running' = running \ {i} /\ idle' = idle + 1
  /\ pend' = pend \cup {Res(i, i, e)}
  /\ wctx' = IF Trigger(e) /\ wctx = "none" THEN "ctx" ELSE wctx
  /\ hst' = [hst EXCEPT !.errs = IF e = "nil" THEN @ ELSE Append(@, e),
                        !.trig = IF Trigger(e) /\ wctx = "none" THEN e ELSE @]
  /\ UNCHANGED <<conf, chan, exited, taken, rel, root, rcv, got, lost, dropOut, joinSt, jret, cn, fl, fstart>>
\* the environment opens the gate of input i (before or while its work function runs)
Release(i) == /\ i \in Inputs /\ i \notin rel /\ cf.script[i] \in Gated /\ rel' = rel \cup {i}
              /\ UNCHANGED <<conf, chan, idle, exited, taken, running, wctx, root, outp, hst>>

\* ------------------------------------------------------------------------------------------------ results
WgZero == fk.st # "blocked" /\ inq = <<>> /\ taken = {} /\ running = {} /\ pend = {}
\* the consumer (holding the channel join returned) receives once without blocking
Recv ==
  /\ hst.joined /\ fl = "no"
  /\ \/ \E r \in pend : rcv' = Rcv("res", r) /\ got' = Append(got, r) /\ pend' = pend \ {r}
     \/ pend = {} /\ joinSt = "closed" /\ rcv' = Rcv("eof", NoRes) /\ UNCHANGED <<got, pend>>
     \/ pend = {} /\ joinSt # "closed" /\ rcv' = Rcv("none", NoRes) /\ UNCHANGED <<got, pend>>
  /\ UNCHANGED <<conf, chan, work, lost, dropOut, joinSt, jret, cn, fl, fstart, hst>>
\* an enqueue goroutine takes the dropOutput branch
Drop(r) == /\ dropOut /\ r \in pend /\ pend' = pend \ {r} /\ lost' = lost \cup {r}
           /\ UNCHANGED <<conf, chan, work, rcv, got, dropOut, joinSt, jret, cn, fl, fstart, hst>>
\* Flatten (a goroutine of the consumer) ranges over the channel: always ready to receive
FlattenStart == /\ hst.joined /\ fl = "no" /\ fl' = "running" /\ fstart' = Len(got)
                /\ UNCHANGED <<conf, chan, work, pend, rcv, got, lost, dropOut, joinSt, jret, cn, hst>>
FlattenRecv(r) == /\ fl = "running" /\ r \in pend /\ got' = Append(got, r) /\ pend' = pend \ {r}
                  /\ UNCHANGED <<conf, chan, work, rcv, lost, dropOut, joinSt, jret, cn, fl, fstart, hst>>
FlattenEof == /\ fl = "running" /\ joinSt = "closed" /\ pend = {} /\ fl' = "ret"
              /\ UNCHANGED <<conf, chan, work, pend, rcv, got, lost, dropOut, joinSt, jret, cn, fstart, hst>>
FlattenReturn == /\ fl = "ret" /\ fl' = "done"
                 /\ UNCHANGED <<conf, chan, work, pend, rcv, got, lost, dropOut, joinSt, jret, cn, fstart, hst>>

\* Flatten's value for a sequence of results
IsCtx(e) == e = "ctx"
FirstErr(s, P(_)) == LET idx == {k \in DOMAIN s : s[k].err # "nil" /\ P(s[k].err)} IN
                     IF idx = {} THEN "nil" ELSE s[CHOOSE k \in idx : \A m \in idx : k <= m].err
FlattenErr(s) == LET re == FirstErr(s, LAMBDA e : ~IsCtx(e))
                     ce == FirstErr(s, IsCtx)
                     fe == FirstErr(s, LAMBDA e : TRUE) IN
                 CASE FlattenPrefer = "real" -> IF re # "nil" THEN re ELSE ce
                   [] FlattenPrefer = "ctx" -> IF ce # "nil" THEN ce ELSE re
                   [] OTHER -> fe
FlattenOf(s) == [outs |-> [k \in DOMAIN s |-> s[k].out], err |-> FlattenErr(s)]
FlatInput == SubSeq(got, fstart + 1, Len(got))

\* ------------------------------------------------------------------------------------------------ join, cancel
Join ==
  /\ fk.st = "idle"
  /\ IF hst.joined THEN jret' = "panic" /\ Panicked("join") /\ UNCHANGED <<closed, joinSt>>
                    ELSE /\ jret' = "ok" /\ closed' = TRUE /\ joinSt' = (IF joinSt = "no" THEN "waiting" ELSE joinSt)
                         /\ hst' = [hst EXCEPT !.joined = TRUE]
  /\ UNCHANGED <<conf, nfork, fk, inq, work, pend, rcv, got, lost, dropOut, cn, fl, fstart>>
JClose == /\ joinSt = "waiting" /\ WgZero /\ joinSt' = "closed"
          /\ UNCHANGED <<conf, chan, work, pend, rcv, got, lost, dropOut, jret, cn, fl, fstart, hst>>
Cancel ==
  /\ cn.st \in {"no", "done"}
  /\ IF dropOut THEN cn' = [st |-> "ret", pan |-> TRUE] /\ Panicked("cancel") /\ UNCHANGED <<dropOut, wctx, closed, joinSt, fk>>
     ELSE /\ dropOut' = TRUE /\ wctx' = (IF wctx = "none" THEN "ctx" ELSE wctx)
          /\ \/ /\ CancelDrains \in {"yes", "either"}   \* repaired: cancel() also closes the input and starts the closer
                /\ closed' = TRUE /\ joinSt' = (IF joinSt = "no" THEN "waiting" ELSE joinSt)
                /\ IF fk.st = "blocked"      \* a fork blocked in another goroutine: send on the closed channel
                     THEN fk' = FkRet(TRUE) /\ hst' = [hst EXCEPT !.panics = Append(@, "fork"), !.notadded = @ \cup {nfork}]
                     ELSE UNCHANGED <<fk, hst>>
             \/ /\ CancelDrains \in {"no", "either"}    \* as coded
                /\ UNCHANGED <<closed, joinSt, fk, hst>>
          /\ cn' = [st |-> IF cf.wait /\ joinSt' # "closed" THEN "blocked" ELSE "ret", pan |-> FALSE]
  /\ UNCHANGED <<conf, nfork, inq, idle, exited, taken, running, rel, root, pend, rcv, got, lost, jret, fl, fstart>>
CancelWake == /\ cn.st = "blocked" /\ joinSt = "closed" /\ cn' = [cn EXCEPT !.st = "ret"]
              /\ UNCHANGED <<conf, chan, work, pend, rcv, got, lost, dropOut, joinSt, jret, fl, fstart, hst>>
CancelReturn == /\ cn.st = "ret" /\ cn' = [st |-> "done", pan |-> FALSE]
                /\ UNCHANGED <<conf, chan, work, pend, rcv, got, lost, dropOut, joinSt, jret, fl, fstart, hst>>

\* ------------------------------------------------------------------------------------------------ grouping
\* what the component does on its own
Internal == \/ WTake \/ WExit \/ (\E i \in taken : WCheck(i)) \/ (\E r \in pend : Drop(r) \/ FlattenRecv(r))
            \/ JClose \/ CancelWake \/ FlattenEof
\* work functions returning because their context is done
CtxReturn == \E i \in running : cf.script[i] \in CtxKinds /\ wctx # "none" /\ WFinish(i, wctx)
GateReturn == \E i \in running : cf.script[i] \in Gated /\ i \in rel /\ WFinish(i, GateErr(i))
\* the callers getting control back
Returns == ForkReturn \/ CancelReturn \/ FlattenReturn
\* the environment's moves
EnvMove == \/ ForkCall(nfork + 1) \/ Join \/ Cancel \/ (\E k \in {"ctx", "dl"} : RootCancel(k))
           \/ (\E i \in Inputs : Release(i)) \/ Recv \/ FlattenStart
Next == Internal \/ CtxReturn \/ GateReturn \/ Returns \/ EnvMove

\* goroutines of the component that are alive: workers, enqueue goroutines, Join's closer
G == (cf.workers + ExtraWorkers - exited) + Cardinality(pend) + (IF joinSt = "waiting" THEN 1 ELSE 0)
\* nothing moves without the environment
Quiet == ~ENABLED (Internal \/ CtxReturn \/ GateReturn \/ Returns)

----
\* ------------------------------------------------------------------------------------------------ the contract
Added == (1..nfork) \ (hst.notadded \cup (IF fk.st = "blocked" THEN {nfork} ELSE {}))
Panics(op) == Cardinality({k \in DOMAIN hst.panics : hst.panics[k] = op})
ResultsOf(i) == {r \in pend \cup Range(got) \cup lost : r.in = i}
InHand(i) == i \in Range(inq) \cup taken \cup running

TypeOK ==
  /\ nfork \in 0..N /\ fk.st \in {"idle", "blocked", "ret"} /\ Range(inq) \subseteq Inputs
  /\ idle \in 0..(cf.workers + ExtraWorkers) /\ exited \in 0..(cf.workers + ExtraWorkers)
  /\ idle + exited + Cardinality(taken) + Cardinality(running) = cf.workers + ExtraWorkers
  /\ wctx \in {"none", "ctx", "dl"} /\ root \in {"none", "ctx", "dl"} /\ (root # "none" => wctx # "none")
  /\ joinSt \in {"no", "waiting", "closed"} /\ (joinSt # "no" <=> closed) /\ (hst.joined => closed)
  /\ (CancelDrains = "no" => (closed <=> hst.joined))
  /\ Len(inq) <= cf.buf

\* "every forked input yields exactly one Result carrying that input": an input that was enqueued is in exactly one place
\* -- still in the works, or it has exactly one result; an input that was not enqueued (root context done, panic) has none
ExactlyOnce ==
  /\ \A i \in Added : IF InHand(i) THEN ResultsOf(i) = {} ELSE Cardinality(ResultsOf(i)) = 1
  /\ \A i \in Inputs \ Added : ResultsOf(i) = {} /\ ~InHand(i)
  /\ Cardinality(Range(got)) = Len(got) /\ Range(got) \cap lost = {} /\ pend \cap (Range(got) \cup lost) = {}
\* a result carries its input's own output and error: executed -> (i, what work returned); skipped -> (zero, ctx error)
ResultShape ==
  \A r \in pend \cup Range(got) \cup lost :
     \/ r.in \in hst.started /\ r.out = r.in
     \/ r.in \notin hst.started /\ r.out = 0 /\ r.err \in {"ctx", "dl"}
\* nothing is lost unless cancel() was called; the channel is closed only when everything was delivered or dropped
NoLossWithoutCancel == ~dropOut => lost = {}
ClosedMeansComplete == joinSt = "closed" => WgZero /\ \A i \in Added : Cardinality(ResultsOf(i) \cap (Range(got) \cup lost)) = 1
\* "no further inputs are executed" once the work context is cancelled
NoWorkAfterCancel == hst.late = {}
\* fail fast: the first error a work function returns cancels the work context (without fail-fast nothing but cancel() /
\* the root context does)
FailFastCancels == cf.failfast /\ hst.errs # <<>> => wctx # "none" /\ (hst.trig # "" => hst.trig = hst.errs[1])
NoFailFastNoCancel == ~cf.failfast /\ ~dropOut /\ root = "none" => wctx = "none"
AllProcessedWithoutFailFast == ~cf.failfast /\ ~dropOut /\ root = "none" => \A r \in pend \cup Range(got) : r.in \in hst.started
\* at most `workers` work functions at a time
WorkerBound == Cardinality(running) <= cf.workers
\* Fork only blocks on a full buffer
ForkBlocksOnlyWhenFull == fk.st = "blocked" => Len(inq) = cf.buf /\ ~closed
\* Fork after Join panics (or, root context done, gives up); Join twice panics
PanicRule == /\ Panics("fork") > 0 => closed
             /\ Panics("join") > 0 => hst.joined
             /\ Panics("cancel") > 0 => dropOut
             /\ \A i \in 1..nfork : (i \in hst.notadded) => root # "none" \/ closed
\* Flatten: every output in arrival order; the error is a real one whenever some result carries a real one ("the first
\* real error ... not a context error"), a context error only when nothing else went wrong
Flat == FlattenOf(FlatInput)
FlattenRule ==
  fl \in {"ret", "done"} =>
     /\ Len(Flat.outs) = Len(FlatInput)
     /\ (Flat.err = "nil") <=> (\A r \in Range(FlatInput) : r.err = "nil")
     /\ (\E r \in Range(FlatInput) : r.err \notin {"nil", "ctx"}) =>
           /\ Flat.err \notin {"nil", "ctx"}
           /\ \E k \in DOMAIN FlatInput : FlatInput[k].err = Flat.err /\ \A m \in 1..(k - 1) : FlatInput[m].err \in {"nil", "ctx"}
\* with fail-fast, nothing dropped and a real error first: Flatten reports a work function's own error
FlattenFailFast ==
  fl \in {"ret", "done"} /\ fstart = 0 /\ cf.failfast /\ ~dropOut /\ hst.trig \notin {"", "ctx"} => Flat.err \notin {"nil", "ctx", "dl"}
\* cancel() with WaitOnCancel returns only after the results channel was closed
WaitOnCancelWaits == cf.wait /\ cn.st \in {"ret", "done"} => joinSt = "closed"
\* after Join + close nothing of the component is left behind
NoLeakAfterClose == joinSt = "closed" /\ Quiet => G = 0
\* NOT a property of the code as written (control / finding): cancel() alone releases the component's goroutines
NoLeakAfterCancel == dropOut /\ Quiet /\ fk.st = "idle" /\ running = {} => G = 0

Safety == /\ TypeOK /\ ExactlyOnce /\ ResultShape /\ NoLossWithoutCancel /\ ClosedMeansComplete /\ NoWorkAfterCancel
          /\ FailFastCancels /\ NoFailFastNoCancel /\ AllProcessedWithoutFailFast /\ WorkerBound /\ ForkBlocksOnlyWhenFull
          /\ PanicRule /\ FlattenRule /\ FlattenFailFast /\ WaitOnCancelWaits /\ NoLeakAfterClose
====
