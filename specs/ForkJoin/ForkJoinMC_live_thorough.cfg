SPECIFICATION LiveSpec
CONSTANTS FailFastOn = "anyerr"
 FlattenPrefer = "real"
 SkipCancelled = TRUE
 CancelDrains = "no"
 ExtraWorkers = 0
 WorkersMC = {1, 2}
 BufsMC = {0, 1}
 MaxN = 2
 KindsMC = {"ok", "err", "ctx"}
 FailFastMC = {TRUE, FALSE}
 WaitMC = {TRUE, FALSE}
 MaxPanics = 0
 RootMC = {}
 Reduce = FALSE
PROPERTIES JoinLeadsToClose ClosedLeadsToNoGoroutine WaitingCancelReturns
CHECK_DEADLOCK FALSE
