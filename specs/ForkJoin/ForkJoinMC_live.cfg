SPECIFICATION LiveSpec
CONSTANTS FailFastOn = "anyerr"
 FlattenPrefer = "real"
 SkipCancelled = TRUE
 CancelDrains = "no"
 ExtraWorkers = 0
 WorkersMC = {2}
 BufsMC = {1}
 MaxN = 2
 KindsMC = {"ok", "err", "ctx"}
 FailFastMC = {TRUE}
 WaitMC = {TRUE}
 MaxPanics = 0
 RootMC = {}
 Reduce = FALSE
PROPERTIES JoinLeadsToClose ClosedLeadsToNoGoroutine WaitingCancelReturns
CHECK_DEADLOCK FALSE
