---- MODULE ForkJoinGen ----
(* Schedule generation: behaviours of the design spec under TLC -simulate.  The history variable records ONLY the
   environment's moves (the options and the script, Fork, Join, Cancel, RootCancel, Release, Recv, Flatten); the
   environment moves when the component is quiescent (the executor lets the bubble settle after every move), what the
   component does in between is the implementation's business.  A behaviour is printed when the environment says End. *)
EXTENDS ForkJoin, Json
CONSTANTS WorkersG, BufsG, MaxNG, KindsG, GenMin, GenMax
VARIABLES hist, fin
gvars == <<vars, hist, fin>>
Scripts == UNION {[1..n -> KindsG] : n \in 0..MaxNG}
Cfgs == {[workers |-> w, buf |-> b, failfast |-> ff, wait |-> wt, script |-> s] :
           w \in WorkersG, b \in BufsG, ff \in BOOLEAN, wt \in BOOLEAN, s \in Scripts}
GenInit == /\ \E c \in Cfgs : InitWith(c) /\ hist = <<[ev |-> "Cfg", workers |-> c.workers, buf |-> c.buf,
                                                      failfast |-> c.failfast, wait |-> c.wait, script |-> c.script]>>
           /\ fin = FALSE
Rec(e) == hist' = Append(hist, e) /\ UNCHANGED fin
Busy == Internal \/ CtxReturn \/ GateReturn \/ Returns
GenNext ==
  /\ ~fin
  /\ IF ENABLED Busy THEN Busy /\ UNCHANGED <<hist, fin>>
     ELSE \/ ForkCall(nfork + 1) /\ Rec([ev |-> "Fork", i |-> nfork + 1])
          \/ Join /\ Rec([ev |-> "Join"])
          \/ Len(hist) >= 3 /\ Cancel /\ Rec([ev |-> "Cancel"])
          \/ \E k \in {"ctx", "dl"} : nfork >= 1 /\ Len(hist) >= 4 /\ RootCancel(k) /\ Rec([ev |-> "RootCancel", kind |-> k])
          \/ \E i \in 1..(IF nfork < N THEN nfork + 1 ELSE N) : Release(i) /\ Rec([ev |-> "Release", i |-> i])
          \/ Recv /\ rcv'.k # "none" /\ Rec([ev |-> "Recv"])
          \/ Recv /\ rcv'.k = "none" /\ hist[Len(hist)].ev # "Recv" /\ Rec([ev |-> "Recv"])
          \/ FlattenStart /\ Rec([ev |-> "Flatten"])
          \/ Len(hist) >= GenMin /\ fin' = TRUE /\ hist' = Append(hist, [ev |-> "End"]) /\ UNCHANGED vars
GenSpec == GenInit /\ [][GenNext]_gvars
Emit == ~fin \/ PrintT("@@SCHED@@" \o ToJson(hist))
Stop == Len(hist) <= GenMax
====
