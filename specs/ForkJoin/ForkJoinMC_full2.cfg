SPECIFICATION MCSpec
CONSTANTS FailFastOn = "anyerr"
 FlattenPrefer = "real"
 SkipCancelled = TRUE
 CancelDrains = "no"
 ExtraWorkers = 0
 WorkersMC = {1, 2}
 BufsMC = {0, 1}
 MaxN = 2
 KindsMC = {"ok", "err", "cerr", "ctx", "okc"}
 FailFastMC = {TRUE, FALSE}
 WaitMC = {TRUE, FALSE}
 MaxPanics = 1
 RootMC = {"ctx", "dl"}
 Reduce = TRUE
INVARIANTS Safety
VIEW View
CHECK_DEADLOCK FALSE
