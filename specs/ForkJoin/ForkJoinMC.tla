---- MODULE ForkJoinMC ----
(* Exhaustive design check: every option combination (workers, input buffer, fail-fast, wait-on-cancel) x every script of
   0..MaxN inputs over KindsMC, every interleaving of the forker, the workers, the enqueue goroutines, Join's closer, the
   consumer (single receives or Flatten), cancel(), the root context, and the environment's gate releases. *)
EXTENDS ForkJoin
CONSTANTS WorkersMC, BufsMC, MaxN, KindsMC, FailFastMC, WaitMC, MaxPanics, RootMC, Reduce
Scripts == UNION {[1..n -> KindsMC] : n \in 0..MaxN}
Cfgs == {[workers |-> w, buf |-> b, failfast |-> ff, wait |-> wt, script |-> s] :
           w \in WorkersMC, b \in BufsMC, ff \in FailFastMC, wt \in WaitMC, s \in Scripts}
MCInit == \E c \in Cfgs : InitWith(c)
\* bounds live here, not in the actions: the number of provoked panics, whether the root context plays
\* Partial-order reduction (safety only): steps that are independent of every other step, stay enabled and are invisible to
\* the invariants are taken first -- a caller getting control back, an idle worker leaving its loop on the closed channel,
\* the closer closing the channels once the wait group is zero, Flatten seeing the closed channel.  Gates are opened only
\* for running work functions (opening one earlier is the same behaviour as opening it right after the call).
Eager == Returns \/ WExit \/ JClose \/ CancelWake \/ FlattenEof
MCNext == /\ IF Reduce /\ ENABLED Eager THEN Eager ELSE Next
          /\ (Reduce => rel' \subseteq rel \cup running)
          /\ Len(hst'.panics) <= MaxPanics
          /\ (root' # "none" => root' \in RootMC)
          /\ rel' \subseteq 1..nfork'                 \* gates are opened for inputs that were forked
\* the consumer's / Join's last outcome is not read by any action or invariant
View == <<conf, chan, work, pend, got, lost, dropOut, joinSt, cn, fl, fstart, hst>>
MCSpec == MCInit /\ [][MCNext]_vars

\* ---- liveness: the consumer keeps receiving (or cancel() is called), the gates are opened eventually, cancel() is called
\* eventually (`defer cancel()`): then after Join the results channel is closed, every goroutine of the component exits
\* and a waiting cancel() returns
CancelOnce == ~dropOut /\ Cancel
Fair == /\ WF_vars(Internal) /\ WF_vars(CtxReturn) /\ WF_vars(GateReturn) /\ WF_vars(Returns)
        /\ WF_vars(\E i \in Inputs : Release(i)) /\ WF_vars(CancelOnce) /\ WF_vars(Recv /\ pend # {})
LiveSpec == MCInit /\ [][MCNext]_vars /\ Fair       \* run with Reduce = FALSE
JoinLeadsToClose == (joinSt = "waiting") ~> (joinSt = "closed")
ClosedLeadsToNoGoroutine == (joinSt = "closed") ~> (G = 0)
WaitingCancelReturns == (cn.st = "blocked" /\ joinSt # "no") ~> (cn.st \in {"ret", "done"})
\* everything but the statement about cancel() without Join (repaired variant: CancelDrains)
SafetyRepaired == Safety /\ NoLeakAfterCancel
====
