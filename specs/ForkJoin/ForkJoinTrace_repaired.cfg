SPECIFICATION TraceSpec
CONSTANTS FailFastOn = "anyerr"
 FlattenPrefer = "real"
 SkipCancelled = TRUE
 CancelDrains = "yes"
 ExtraWorkers = 0
CONSTRAINT Mark
POSTCONDITION Report
CHECK_DEADLOCK FALSE
