SPECIFICATION GenSpec
CONSTANTS FailFastOn = "anyerr"
 FlattenPrefer = "real"
 SkipCancelled = TRUE
 CancelDrains = "no"
 ExtraWorkers = 0
 WorkersG = {1, 2, 3}
 BufsG = {0, 1, 2}
 MaxNG = 4
 KindsG = {"ok", "err", "cerr", "ctx", "okc"}
 GenMin = 3
 GenMax = 16
INVARIANTS Emit
CONSTRAINT Stop
CHECK_DEADLOCK FALSE
