---- MODULE ForkJoinTrace ----
(* Trace validation for app/forkjoin (harness/forkjoin).  One trace = one forkjoin.New inside a testing/synctest bubble.
   The executor issues one environment move at a time and lets the bubble settle (synctest.Wait: every goroutine durably
   blocked) before the next; moves are logged BEFORE they are made, what comes back is logged by the goroutine it comes
   back to, so the log is a linearisation of happens-before:
     {"ev":"Reset","sid":..,"workers":w,"buf":b,"failfast":bool,"wait":bool,"script":[kind per input]}
     {"ev":"Fork","i":i}            fork(i) is called in a forker goroutine      {"ev":"ForkRet","i":i,"panic":bool}  it returned
     {"ev":"Join"}                  join() is called                             {"ev":"JoinRet","panic":bool}
     {"ev":"Cancel"}                cancel() is called in its own goroutine      {"ev":"CancelRet","panic":bool}
     {"ev":"RootCancel","kind":"ctx"|"dl"}   the root context is cancelled / its deadline passes (virtual time)
     {"ev":"Release","i":i}         the gate of input i is opened
     {"ev":"WorkStart","i":i}       the scripted work function was entered      {"ev":"WorkEnd","i":i,"out":o,"err":e}  it returns (o, e)
     {"ev":"Recv"}                  one non-blocking receive on the results      {"ev":"RecvRet","k":"res"|"none"|"eof","in":..,"out":..,"err":..}
     {"ev":"Flatten"}               results.Flatten() is started in a goroutine  {"ev":"FlattenRet","outs":[..],"err":e}
     {"ev":"Flat","outs":[..],"err":e}   Flatten applied to a replay channel holding exactly the results received so far
     {"ev":"Q","g":n,"fb":bool,"cb":bool,"fr":bool}   the bubble is quiescent: goroutines of the component alive
                                    (those created by package app/forkjoin in the runtime stack dump), fork / cancel blocked, Flatten running
     {"ev":"End"}                   ({"ev":"Leak"|"Hang"|"Panic"} match nothing)
   Not logged, inferred by TLC: the workers' receives from the input channel and their context checks, the enqueue
   goroutines' choice between delivering and dropping, whether a fork with the root context done enqueued its input,
   which pending result a receive got (checked at RecvRet), the closer. *)
EXTENDS ForkJoin, TraceCommon
VARIABLE seen      \* inputs whose WorkStart was logged
tvars == <<vars, seen, tr, l>>
R == Trace[1]
TraceInit == /\ TrInit /\ seen = {}
             /\ IF TLen >= 1 /\ Trace[1].ev = "Reset"
                  THEN InitWith([workers |-> R.workers, buf |-> R.buf, failfast |-> R.failfast, wait |-> R.wait, script |-> R.script])
                  ELSE InitWith([workers |-> 1, buf |-> 0, failfast |-> TRUE, wait |-> FALSE, script |-> <<>>])
Same == UNCHANGED seen
TReset == IsEvent("Reset") /\ l = 1 /\ UNCHANGED vars /\ Same

TFork == IsEvent("Fork") /\ ForkCall(Ev.i) /\ Same
TForkRet == /\ IsEvent("ForkRet") /\ fk.st = "ret" /\ Ev.i = nfork
            /\ CheckInv("ForkPanicsIffClosed", Ev.panic = fk.pan) /\ ForkReturn /\ Same
TJoin == IsEvent("Join") /\ jret = "" /\ Join /\ Same
TJoinRet == /\ IsEvent("JoinRet") /\ jret # "" /\ CheckInv("JoinPanicsIffSecond", Ev.panic = (jret = "panic"))
            /\ jret' = "" /\ UNCHANGED <<conf, chan, work, pend, rcv, got, lost, dropOut, joinSt, cn, fl, fstart, hst>> /\ Same
TCancel == IsEvent("Cancel") /\ Cancel /\ Same
TCancelRet == /\ IsEvent("CancelRet")
              /\ CASE cn.st = "ret" -> CheckInv("CancelPanicsIffSecond", Ev.panic = cn.pan) /\ CancelReturn
                   [] cn.st = "blocked" -> InvFail("WaitOnCancelWaits")
                   [] OTHER -> FALSE
              /\ Same
TRoot == IsEvent("RootCancel") /\ RootCancel(Ev.kind) /\ Same
TRelease == IsEvent("Release") /\ Release(Ev.i) /\ Same

TWorkStart == /\ IsEvent("WorkStart")
              /\ CASE Ev.i \in running /\ Ev.i \notin seen -> seen' = seen \cup {Ev.i} /\ UNCHANGED vars
                   [] Ev.i \in taken \/ Ev.i \in Range(inq) \/ (fk.st = "blocked" /\ Ev.i = nfork) -> FALSE   \* not yet: silent steps first
                   [] Cardinality(running) >= cf.workers /\ Ev.i \notin running -> InvFail("WorkerBound")
                   [] OTHER -> InvFail("WorkStartedUnexpectedly")
TWorkEnd == /\ IsEvent("WorkEnd") /\ Ev.i \in running /\ Ev.i \in seen
            /\ CheckInv("WorkReturn", Ev.out = Ev.i /\ Ev.err \in MayReturn(Ev.i))
            /\ WFinish(Ev.i, Ev.err) /\ Same

TRecv == IsEvent("Recv") /\ rcv.k = "no" /\ Recv /\ Same
TRecvRet == /\ IsEvent("RecvRet") /\ rcv.k # "no"
            /\ IF Ev.k = "res" /\ rcv.k = "res"
                 THEN Ev.in = rcv.r.in /\ CheckInv("ResultCarriesItsInput", Ev.out = rcv.r.out /\ Ev.err = rcv.r.err)
                 ELSE CheckInv("ReceiveOutcome", Ev.k = rcv.k)
            /\ rcv' = Rcv("no", NoRes)
            /\ UNCHANGED <<conf, chan, work, pend, got, lost, dropOut, joinSt, jret, cn, fl, fstart, hst>> /\ Same
TFlatten == IsEvent("Flatten") /\ FlattenStart /\ Same
TFlattenRet == /\ IsEvent("FlattenRet")
               /\ CASE fl = "ret" -> /\ CheckInv("FlattenOutputs", Ev.outs = Flat.outs)
                                     /\ CheckInv("FlattenError", Ev.err = Flat.err) /\ FlattenReturn
                    [] fl = "running" /\ joinSt # "closed" -> InvFail("FlattenReturnedBeforeClose")
                    [] OTHER -> FALSE
               /\ Same
TFlat == /\ IsEvent("Flat")
         /\ CheckInv("FlattenOutputs", Ev.outs = FlattenOf(got).outs) /\ CheckInv("FlattenError", Ev.err = FlattenOf(got).err)
         /\ UNCHANGED vars /\ Same
\* the bubble is quiescent: nothing of the component can move, everything that happened was logged
TQ == /\ IsEvent("Q") /\ Quiet /\ running \subseteq seen /\ jret = "" /\ rcv.k = "no"
      /\ CheckInv("Goroutines", Ev.g = G)
      /\ CheckInv("ForkBlocked", Ev.fb = (fk.st = "blocked"))
      /\ CheckInv("CancelBlocked", Ev.cb = (cn.st = "blocked"))
      /\ CheckInv("FlattenRunning", Ev.fr = (fl = "running"))
      /\ UNCHANGED vars /\ Same
TEnd == IsEvent("End") /\ UNCHANGED vars /\ Same

\* silent steps; the independent ones (see ForkJoinMC) first
EagerSilent == WExit \/ JClose \/ CancelWake \/ FlattenEof
OtherSilent == WTake \/ (\E i \in taken : WCheck(i)) \/ (\E r \in pend : Drop(r) \/ FlattenRecv(r))
Events == \/ TReset \/ TFork \/ TForkRet \/ TJoin \/ TJoinRet \/ TCancel \/ TCancelRet \/ TRoot \/ TRelease \/ TWorkStart
          \/ TWorkEnd \/ TRecv \/ TRecvRet \/ TFlatten \/ TFlattenRet \/ TFlat \/ TQ \/ TEnd
TraceNext == IF ENABLED EagerSilent THEN EagerSilent /\ Silent /\ Same
             ELSE Events \/ (OtherSilent /\ Silent /\ Same)
TraceSpec == TraceInit /\ [][TraceNext]_tvars
Mark == /\ CheckInv("TypeOK", TypeOK) /\ CheckInv("ExactlyOnce", ExactlyOnce) /\ CheckInv("ResultShape", ResultShape)
        /\ CheckInv("NoLossWithoutCancel", NoLossWithoutCancel) /\ CheckInv("ClosedMeansComplete", ClosedMeansComplete)
        /\ CheckInv("NoWorkAfterCancel", NoWorkAfterCancel) /\ CheckInv("FailFastCancels", FailFastCancels)
        /\ CheckInv("NoFailFastNoCancel", NoFailFastNoCancel)
        /\ CheckInv("AllProcessedWithoutFailFast", AllProcessedWithoutFailFast) /\ CheckInv("WorkerBound", WorkerBound)
        /\ CheckInv("ForkBlocksOnlyWhenFull", ForkBlocksOnlyWhenFull) /\ CheckInv("PanicRule", PanicRule)
        /\ CheckInv("FlattenRule", FlattenRule) /\ CheckInv("FlattenFailFast", FlattenFailFast)
        /\ CheckInv("WaitOnCancelWaits", WaitOnCancelWaits)
        /\ HWMark
====
