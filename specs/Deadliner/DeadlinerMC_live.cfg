SPECIFICATION FairSpec
CONSTANTS K = 2
 ExpireAtEqual = "yes"
 MaxTime = 3
 MaxAdds = 3
PROPERTIES Live
CHECK_DEADLOCK FALSE
