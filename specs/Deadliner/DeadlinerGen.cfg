SPECIFICATION GenSpec
CONSTANTS K = 2
 ExpireAtEqual = "yes"
 MaxTime = 5
 GenLen = 14
INVARIANTS Emit
CONSTRAINT Stop
CHECK_DEADLOCK FALSE
