SPECIFICATION MCSpec
CONSTANTS K = 2
 ExpireAtEqual = "yes"
 MaxTime = 3
 MaxAdds = 4
INVARIANTS Safety NoDropIfRoom
PROPERTIES ReAddNoEffect DropOnlyWhenFull
CHECK_DEADLOCK FALSE
