SPECIFICATION TraceSpec
CONSTANTS K = 10
 ExpireAtEqual = "either"
CONSTRAINT Mark
ACTION_CONSTRAINT ActOK
POSTCONDITION Report
CHECK_DEADLOCK FALSE
