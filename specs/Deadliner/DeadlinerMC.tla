---- MODULE DeadlinerMC ----
(* Exhaustive design check: all interleavings of Add (with repeats), clock ticks, timer fires and reads
   over a small duty universe that contains equal deadlines, a deadline at 0 and an exempt duty. *)
EXTENDS Deadliner
CONSTANTS MaxTime, MaxAdds
MCDuties == {[id |-> "a", dl |-> 1], [id |-> "b", dl |-> 2], [id |-> "c", dl |-> 2],
             [id |-> "e", dl |-> 3], [id |-> "x", dl |-> -1]}
MCNext == \/ \E d \in MCDuties : Len(status) < MaxAdds /\ Add(d)
          \/ TimerFire
          \/ (now < MaxTime /\ Advance(1))
          \/ Read
MCSpec == Init /\ [][MCNext]_vars
\* liveness: with a consumer that keeps reading and a goroutine that keeps running, every scheduled duty is
\* reported (or, DropOnFull, dropped) -- checked under fairness, no state constraint
FairSpec == MCSpec /\ WF_vars(TimerFire) /\ WF_vars(Read) /\ WF_vars(now < MaxTime /\ Advance(1))
Live == \A d \in MCDuties : [](d \in pending => <>(d \notin pending))
\* when the consumer always reads before the next fire can find the channel full, nothing is dropped:
\* expressed as: a drop needs K unread items (DropOnlyWhenFull), so with K >= number of duties no drop
NoDropIfRoom == (K >= Cardinality(MCDuties)) => dropped = <<>>
\* exactly once for a consumer that keeps reading: everything scheduled and due is, after the goroutine ran,
\* reported once or dropped
View == <<now, pending, curr, out, reported, dropped, status>>
====
