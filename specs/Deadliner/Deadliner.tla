---- MODULE Deadliner ----
(* core/deadline.go: deadliner.run / Add / C().  One action per arm of run's select, because the arms race.
   A duty is the record [id, dl]; dl = -1 marks a duty type that never expires (DutyExit,
   DutyBuilderRegistration): in the code the deadline is a pure function of the duty as well.

   ExpireAtEqual selects what Add answers for a duty registered exactly AT its deadline (the property only
   speaks about registrations before and after it):
     "no"      "deadline.Before(now)"   still scheduled (the pinned tree; lets a reported duty be re-registered at
                                        that instant and reported twice -- the defect repaired by the fix: commit)
     "yes"     "!deadline.After(now)"   refused (the repaired tree; what the design check uses)
     "either"  both allowed (what trace validation uses: the spec must not demand more than the property) *)
EXTENDS Integers, Sequences, FiniteSets, TLC
CONSTANTS K,             \* capacity of the output channel (outputBuffer = 10 in the code)
          ExpireAtEqual
Inf == 1000000
NoDuty == [id |-> "none", dl |-> Inf]

VARIABLES now,        \* clock
          pending,    \* `duties` map of run()
          curr,       \* currDuty (NoDuty when the map is empty: timer armed for year 9999)
          out,        \* deadlineChan contents
          reported,   \* history: <<duty, time>> pushed to deadlineChan
          dropped,    \* history: duties dropped because deadlineChan was full (named deviation DropOnFull)
          status      \* history: <<duty, status, time, wasPending>> returned by Add
vars == <<now, pending, curr, out, reported, dropped, status>>

IsExempt(d) == d.dl < 0
Init == /\ now = 0 /\ pending = {} /\ curr = NoDuty /\ out = <<>>
        /\ reported = <<>> /\ dropped = <<>> /\ status = <<>>

\* getCurrDuty: a duty with the earliest deadline; ties are broken by Go map order => nondeterministic
Earliest(P) == {d \in P : \A e \in P : d.dl <= e.dl}
SetCurr(P) == IF P = {} THEN curr' = NoDuty ELSE \E d \in Earliest(P) : curr' = d

ExpiredAnswers(d) == IF d.dl < now THEN {TRUE}
                     ELSE IF d.dl > now THEN {FALSE}
                     ELSE CASE ExpireAtEqual = "yes" -> {TRUE} [] ExpireAtEqual = "no" -> {FALSE} [] OTHER -> {TRUE, FALSE}

\* case input := <-d.inputChan  (status reply, insert, re-arm when earlier than the armed deadline)
Add(d) ==
  /\ UNCHANGED <<now, out, reported, dropped>>
  /\ IF IsExempt(d)
       THEN status' = Append(status, <<d, "Exempt", now, FALSE>>) /\ UNCHANGED <<pending, curr>>
     ELSE \E expired \in ExpiredAnswers(d) :
       IF expired
       THEN status' = Append(status, <<d, "Expired", now, d \in pending>>) /\ UNCHANGED <<pending, curr>>
       ELSE /\ status' = Append(status, <<d, "Scheduled", now, d \in pending>>)
            /\ pending' = pending \cup {d}
            /\ IF d.dl < curr.dl THEN SetCurr(pending') ELSE UNCHANGED curr

\* case <-currTimer.Chan(): enabled once the armed deadline has been reached; the goroutine may be scheduled
\* any time later.
TimerDue == curr # NoDuty /\ now >= curr.dl
TimerFire ==
  /\ TimerDue
  /\ IF Len(out) < K
       THEN out' = Append(out, curr) /\ reported' = Append(reported, <<curr, now>>) /\ UNCHANGED dropped
       ELSE dropped' = Append(dropped, <<curr, now>>) /\ UNCHANGED <<out, reported>>     \* DropOnFull
  /\ pending' = pending \ {curr}
  /\ SetCurr(pending')
  /\ UNCHANGED <<now, status>>

Advance(by) == /\ by > 0 /\ now' = now + by
               /\ UNCHANGED <<pending, curr, out, reported, dropped, status>>
\* the consumer takes one duty from C()
Read == /\ out # <<>> /\ out' = Tail(out)
        /\ UNCHANGED <<now, pending, curr, reported, dropped, status>>

---------------------------------------------------------------------------------------------------
(* Properties (C16). *)
RepDuties == {reported[i][1] : i \in DOMAIN reported}
Count(d) == Cardinality({i \in DOMAIN reported : reported[i][1] = d})
\* never early
NeverEarly == \A i \in DOMAIN reported : reported[i][2] >= reported[i][1].dl
\* exactly once (safety half): never twice
AtMostOnce == \A d \in RepDuties : Count(d) <= 1
\* duty types that never expire are never reported
ExemptNever == \A d \in RepDuties : ~IsExempt(d)
\* a duty refused as expired and not pending at that time is never reported afterwards
LateRefused == \A i \in DOMAIN status :
                 (status[i][2] = "Expired" /\ ~status[i][4]) =>
                    \A k \in DOMAIN reported : reported[k][1] = status[i][1] => reported[k][2] <= status[i][3]
\* a registration strictly after the deadline is always refused
LateAlwaysRefused == \A i \in DOMAIN status :
                 (~IsExempt(status[i][1]) /\ status[i][3] > status[i][1].dl) => status[i][2] = "Expired"
\* a registration strictly before the deadline is always accepted
EarlyAccepted == \A i \in DOMAIN status :
                 (~IsExempt(status[i][1]) /\ status[i][3] < status[i][1].dl) => status[i][2] = "Scheduled"
\* reports come in deadline order
Ordered == \A i, j \in DOMAIN reported : i < j => reported[i][1].dl <= reported[j][1].dl
\* the armed duty is an earliest pending one
CurrIsMin == /\ (curr = NoDuty) = (pending = {})
             /\ curr # NoDuty => curr \in pending /\ \A e \in pending : curr.dl <= e.dl
\* only scheduled duties are pending / reported / dropped
OnlyScheduled == \A d \in pending \cup RepDuties :
                    \E i \in DOMAIN status : status[i][1] = d /\ status[i][2] = "Scheduled"
\* a drop only happens in a step where the consumer had left K items unread
DropOnlyWhenFull == [][dropped' # dropped => Len(out) = K]_vars
TypeOK == /\ now \in Nat /\ Len(out) <= K
Safety == NeverEarly /\ AtMostOnce /\ ExemptNever /\ LateRefused /\ LateAlwaysRefused /\ EarlyAccepted
          /\ Ordered /\ CurrIsMin /\ OnlyScheduled /\ TypeOK
\* registering a pending duty again has no further effect
ReAddNoEffect == [][(Len(status') = Len(status) + 1 /\ status'[Len(status')][4])
                       => (pending' = pending /\ curr' = curr /\ out' = out /\ reported' = reported)]_vars
====
