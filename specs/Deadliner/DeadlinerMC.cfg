SPECIFICATION MCSpec
CONSTANTS K = 2
 ExpireAtEqual = "yes"
 MaxTime = 4
 MaxAdds = 5
INVARIANTS Safety NoDropIfRoom
PROPERTIES ReAddNoEffect DropOnlyWhenFull
CHECK_DEADLOCK FALSE
