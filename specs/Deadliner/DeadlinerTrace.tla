---- MODULE DeadlinerTrace ----
(* Trace validation for core/deadline.go.  Events are written by the executor (harness/c16) after it has
   observed the complete effect of each stimulus (sentinel Add + fake-clock waiter accounting make the
   run goroutine quiescent, see DESIGN.md section 4):
     {"ev":"Reset"}                                  fresh deadliner, clock 0
     {"ev":"Add","d":{"id":..,"dl":..},"res":"Scheduled"|"Expired"|"Exempt"}
     {"ev":"Advance","by":n}
     {"ev":"Read","got":{"id":..,"dl":..}}  /  {"ev":"Read","got":{"id":"none","dl":1000000}} (C() empty)
   TimerFire is not logged: it is a silent step.  Because the driver waits for quiescence after every
   stimulus, a due timer has always fired before the next event is produced, so the trace spec gives
   TimerFire priority over consuming an event (urgency). *)
EXTENDS Deadliner, TraceCommon
tvars == <<vars, tr, l>>
TraceInit == Init /\ TrInit
TReset == IsEvent("Reset") /\ UNCHANGED vars
\* "race": the registration was handed in while the run goroutine was busy and the clock moved on (the Advance event
\* before it): elapsed timer and input were ready together, so the due fires happen before OR after it (no urgency)
IsRace == "race" \in DOMAIN Ev /\ Ev.race
TAdd == /\ IsEvent("Add") /\ (~TimerDue \/ IsRace)
        /\ Add(Ev.d)
        /\ status'[Len(status')][2] = Ev.res
TAdvance == IsEvent("Advance") /\ ~TimerDue /\ Advance(Ev.by)
TRead == /\ IsEvent("Read") /\ ~TimerDue
         /\ IF Ev.got.id = "none"
              THEN out = <<>> /\ UNCHANGED vars
              ELSE out # <<>> /\ Head(out) = Ev.got /\ Read
\* The output channel is FIFO and the trace shows what the consumer received, so the i-th push must be the i-th
\* successful Read of this trace (when the trace has that many): this prunes the tie-breaking choices of
\* getCurrDuty (Go map order) as soon as they matter.  A choice that is never observed is made canonically.
Reads == SelectSeq(Trace, LAMBDA e : e.ev = "Read" /\ e.got.id # "none")
NPush == Len(reported)
TFire == /\ TimerFire /\ Silent
         /\ (Len(reported') > NPush /\ Len(reported') <= Len(Reads)) => curr = Reads[Len(reported')].got
         /\ (Len(reported') >= Len(Reads) /\ curr' # NoDuty) => curr' = CHOOSE d \in Earliest(pending') : TRUE
TraceNext == TReset \/ TAdd \/ TAdvance \/ TRead \/ TFire
TraceSpec == TraceInit /\ [][TraceNext]_tvars
Mark == /\ CheckInv("NeverEarly", NeverEarly) /\ CheckInv("AtMostOnce", AtMostOnce)
        /\ CheckInv("ExemptNever", ExemptNever) /\ CheckInv("LateRefused", LateRefused)
        /\ CheckInv("LateAlwaysRefused", LateAlwaysRefused) /\ CheckInv("EarlyAccepted", EarlyAccepted)
        /\ CheckInv("Ordered", Ordered) /\ CheckInv("CurrIsMin", CurrIsMin)
        /\ CheckInv("OnlyScheduled", OnlyScheduled) /\ CheckInv("TypeOK", TypeOK)
\* the action properties of the design spec, as an action constraint (a violating step is pruned and recorded)
ActOK == /\ CheckInv("ReAddNoEffect",
                     (Len(status') = Len(status) + 1 /\ status'[Len(status')][4])
                        => (pending' = pending /\ curr' = curr /\ out' = out /\ reported' = reported))
         /\ CheckInv("DropOnlyWhenFull", dropped' # dropped => Len(out) = K)
         /\ HWMarkA
====
