---- MODULE DeadlinerGen ----
(* Schedule generation: behaviours of the design spec are recorded in the history variable `hist` (only the
   environment's moves -- Add, Advance, Read; the goroutine's TimerFire is the implementation's business)
   and printed as JSON when they reach GenLen steps.  Run with -simulate. *)
EXTENDS Deadliner, Json
CONSTANTS MaxTime, GenLen
VARIABLE hist
GenDuties == {[id |-> "a", dl |-> 1], [id |-> "b", dl |-> 2], [id |-> "c", dl |-> 2], [id |-> "d", dl |-> 2],
              [id |-> "e", dl |-> 3], [id |-> "f", dl |-> 0], [id |-> "x", dl |-> -1]}
GenInit == Init /\ hist = <<>>
GenNext ==
  \/ \E d \in GenDuties : Add(d) /\ hist' = Append(hist, [ev |-> "Add", d |-> d])
  \/ TimerFire /\ UNCHANGED hist
  \/ \E by \in 1..2 : now + by <= MaxTime /\ Advance(by) /\ hist' = Append(hist, [ev |-> "Advance", by |-> by])
  \/ Read /\ hist' = Append(hist, [ev |-> "Read"])
  \/ (out = <<>> /\ UNCHANGED vars /\ hist' = Append(hist, [ev |-> "Read"]))     \* a read that finds C() empty
GenSpec == GenInit /\ [][GenNext]_<<vars, hist>>
Emit == Len(hist) < GenLen \/ PrintT("@@SCHED@@" \o ToJson(hist))
Stop == Len(hist) <= GenLen
====
