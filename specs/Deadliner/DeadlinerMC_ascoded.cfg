SPECIFICATION MCSpec
CONSTANTS K = 2
 ExpireAtEqual = "no"
 MaxTime = 4
 MaxAdds = 5
INVARIANTS Safety
CHECK_DEADLOCK FALSE
