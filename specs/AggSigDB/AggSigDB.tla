---- MODULE AggSigDB ----
(* core/aggsigdb: memory.go (impl = "v1": actor loop Run / execCommand / processBlockedQueries / execQuery) and
   memory_v2.go (impl = "v2": RWMutex + notification channel).  `impl` is a variable that never changes, so that
   one TLC run covers both implementations and every recorded trace selects its own.  `impl` selects only the
   GRANULARITY; the required behaviour is one.

   A key is [d |-> duty, p |-> validator]; an entry is [k |-> key, v |-> value].
   One action per critical section / actor-loop iteration:
     AwaitCall(r,k)  a reader goroutine calls Await (nothing has happened inside the store yet)
     Query(r)        v1: Run receives the query, execQuery answers it or appends it to blockedQueries
                     v2: query() under the read lock finds the value or the reader goes to sleep on the channel
     StoreCall(w,S)  writer goroutine w calls Store(duty,set); several writers may be inside Store concurrently
     Acquire(w)      v2: w gets the write lock (held until StoreReturn; v1 has no lock, its actor loop serves one
                     write command at a time, commands of concurrent writers interleave)
     StoreEntry(w,e) one entry of the set, in Go map order (=> nondeterministic): v1 = one writeCommand through
                     execCommand + processBlockedQueries; v2 = one iteration of the loop inside the lock.
                     New key: stored.  Equal value: no-op.  Different value: "mismatching data", the call stops,
                     EARLIER ENTRIES STAY STORED.
     StoreReturn(w)  the call is over inside the store: v2 wakes the sleepers (see the switches), releases the lock
     StoreAck(w)     the caller has the result (separate step: the order in which callers SEE their results is not
                     the order in which the calls finished inside the store)
     TakeToken(r)    v2 as coded only: ONE sleeper receives the token of the capacity-1 channel
     Cancel(r)       the reader's context is cancelled
     ReturnVal(r) / ReturnErr(r)    Await returns the value it got / the context error
     Expire(d)       the deadliner reports duty d: all its keys are deleted

   Switches for memory_v2.go (control configurations; the required behaviour is TRUE/TRUE):
     WakeAll = FALSE       as coded on the pinned tree: `notify` has capacity 1, one Store wakes ONE arbitrary sleeper
     NotifyOnFail = FALSE  as coded on the pinned tree: a Store that fails on a later entry returns before it
                           notifies although earlier entries were stored
     NarrowLock = TRUE     a "narrowed" write lock (seeded defect C17-B): v2 looks the key up in one critical section
                           (CheckEntry) and inserts in a later one (InsertEntry), nothing held in between, so two
                           concurrent writers can both find a fresh key absent and both insert *)
EXTENDS Integers, Sequences, FiniteSets, TLC
CONSTANTS WakeAll, NotifyOnFail, NarrowLock
Nil == "nil"
Err == "err"
VARIABLES impl,     \* "v1" | "v2"
          data,     \* stored key -> value                              (db.data)
          rd,       \* reader -> [st, k, got, cx]
          notify,   \* v2 as coded: number of tokens in the notify channel (0/1)
          wr,       \* writer -> the Store call it is in
          last,     \* history: writer -> result of its last completed Store call
          written,  \* history: every <<key, value>> ever put into data
          acked     \* history: every <<key, value>> entry a Store call processed without error (stored or equal)
vars == <<impl, data, rd, notify, wr, last, written, acked>>

NoWr == [on |-> FALSE, locked |-> FALSE, fin |-> FALSE, todo |-> {}, err |-> FALSE, pend |-> {}]
Live(r) == r \in DOMAIN rd /\ rd[r].st \in {"called", "wait", "retry", "done"}
Stored(k) == k \in DOMAIN data
WrOn(w) == w \in DOMAIN wr /\ wr[w].on
AnyWr == \E w \in DOMAIN wr : wr[w].on
Locked == \E w \in DOMAIN wr : wr[w].on /\ wr[w].locked
\* v2: readers (RLock) and the expiry (Lock) wait while a writer holds the write lock; v1: the actor loop serves one
\* message at a time, queries may be served between two write commands of one Store call
LockFree == impl = "v1" \/ ~Locked
\* may writer w execute inside the store now?
Inside(w) == WrOn(w) /\ ~wr[w].fin /\ (impl = "v1" \/ NarrowLock \/ wr[w].locked)

Init == /\ impl \in {"v1", "v2"} /\ data = <<>> /\ rd = <<>> /\ notify = 0 /\ wr = <<>>
        /\ last = <<>> /\ written = {} /\ acked = {}

AwaitCall(r, k) ==
  /\ r \notin DOMAIN rd
  /\ rd' = rd @@ (r :> [st |-> "called", k |-> k, got |-> Nil, cx |-> FALSE])
  /\ UNCHANGED <<impl, data, notify, wr, last, written, acked>>

Query(r) ==
  /\ r \in DOMAIN rd /\ rd[r].st \in {"called", "retry"} /\ LockFree
  /\ IF Stored(rd[r].k)
       THEN rd' = [rd EXCEPT ![r].st = "done", ![r].got = data[rd[r].k]]
       ELSE rd' = [rd EXCEPT ![r].st = "wait"]
  /\ UNCHANGED <<impl, data, notify, wr, last, written, acked>>

SetWr(w, rec) == wr' = [x \in DOMAIN wr \cup {w} |-> IF x = w THEN rec ELSE wr[x]]
StoreCall(w, S) ==
  /\ ~WrOn(w) /\ S # {}
  /\ SetWr(w, [NoWr EXCEPT !.on = TRUE, !.todo = S])
  /\ UNCHANGED <<impl, data, rd, notify, last, written, acked>>

Acquire(w) ==
  /\ impl = "v2" /\ ~NarrowLock /\ WrOn(w) /\ ~wr[w].fin /\ ~wr[w].locked /\ ~Locked
  /\ wr' = [wr EXCEPT ![w].locked = TRUE]
  /\ UNCHANGED <<impl, data, rd, notify, last, written, acked>>

\* v1 processBlockedQueries (runs after EVERY write command): each blocked query whose key is stored is answered
AnswerBlocked(d) == [r \in DOMAIN rd |-> IF rd[r].st = "wait" /\ rd[r].k \in DOMAIN d
                                           THEN [rd[r] EXCEPT !.st = "done", !.got = d[rd[r].k]] ELSE rd[r]]
WakeSleepers == [r \in DOMAIN rd |-> IF rd[r].st = "wait" THEN [rd[r] EXCEPT !.st = "retry"] ELSE rd[r]]
StoreEntry(w, e) ==
  /\ Inside(w) /\ ~(NarrowLock /\ impl = "v2") /\ ~wr[w].err /\ e \in wr[w].todo
  /\ IF Stored(e.k)
       THEN /\ UNCHANGED <<data, written>>
            /\ IF data[e.k] = e.v THEN wr' = [wr EXCEPT ![w].todo = @ \ {e}] /\ acked' = acked \cup {<<e.k, e.v>>}
                                  ELSE wr' = [wr EXCEPT ![w].todo = {}, ![w].err = TRUE] /\ UNCHANGED acked
       ELSE /\ data' = data @@ (e.k :> e.v)
            /\ written' = written \cup {<<e.k, e.v>>}
            /\ acked' = acked \cup {<<e.k, e.v>>}
            /\ wr' = [wr EXCEPT ![w].todo = @ \ {e}]
  /\ rd' = IF impl = "v1" THEN AnswerBlocked(data') ELSE rd
  /\ UNCHANGED <<impl, notify, last>>

\* NarrowLock (control only): lookup and insert of an entry are two critical sections
CheckEntry(w, e) ==
  /\ NarrowLock /\ impl = "v2" /\ Inside(w) /\ ~wr[w].err /\ wr[w].pend = {} /\ e \in wr[w].todo
  /\ IF Stored(e.k)
       THEN IF data[e.k] = e.v THEN wr' = [wr EXCEPT ![w].todo = @ \ {e}] /\ acked' = acked \cup {<<e.k, e.v>>}
                               ELSE wr' = [wr EXCEPT ![w].todo = {}, ![w].err = TRUE] /\ UNCHANGED acked
       ELSE wr' = [wr EXCEPT ![w].pend = {e}] /\ UNCHANGED acked
  /\ UNCHANGED <<impl, data, rd, notify, last, written>>
InsertEntry(w) ==
  /\ NarrowLock /\ impl = "v2" /\ Inside(w) /\ wr[w].pend # {}
  /\ LET e == CHOOSE x \in wr[w].pend : TRUE IN
       /\ data' = [k \in DOMAIN data \cup {e.k} |-> IF k = e.k THEN e.v ELSE data[k]]      \* overwrites
       /\ written' = written \cup {<<e.k, e.v>>} /\ acked' = acked \cup {<<e.k, e.v>>}
       /\ wr' = [wr EXCEPT ![w].todo = @ \ {e}, ![w].pend = {}]
  /\ rd' = WakeSleepers
  /\ UNCHANGED <<impl, notify, last>>

StoreReturn(w) ==
  /\ Inside(w) /\ wr[w].pend = {} /\ (wr[w].todo = {} \/ wr[w].err)
  /\ wr' = [wr EXCEPT ![w].fin = TRUE, ![w].locked = FALSE]
  /\ IF impl = "v2" /\ ~NarrowLock /\ (~wr[w].err \/ NotifyOnFail)
       THEN IF WakeAll
              THEN rd' = WakeSleepers /\ UNCHANGED notify
              ELSE notify' = 1 /\ UNCHANGED rd        \* non-blocking send on a channel of capacity 1
       ELSE UNCHANGED <<rd, notify>>
  /\ UNCHANGED <<impl, data, last, written, acked>>

StoreAck(w) ==
  /\ WrOn(w) /\ wr[w].fin
  /\ wr' = [wr EXCEPT ![w] = NoWr]
  /\ last' = [x \in DOMAIN last \cup {w} |-> IF x = w THEN (IF wr[w].err THEN "mismatch" ELSE "ok") ELSE last[x]]
  /\ UNCHANGED <<impl, data, rd, notify, written, acked>>

TakeToken(r) ==
  /\ impl = "v2" /\ ~WakeAll /\ notify = 1 /\ r \in DOMAIN rd /\ rd[r].st = "wait"
  /\ notify' = 0 /\ rd' = [rd EXCEPT ![r].st = "retry"]
  /\ UNCHANGED <<impl, data, wr, last, written, acked>>

Cancel(r) == /\ Live(r) /\ ~rd[r].cx /\ rd' = [rd EXCEPT ![r].cx = TRUE]
             /\ UNCHANGED <<impl, data, notify, wr, last, written, acked>>
ReturnVal(r) == /\ r \in DOMAIN rd /\ rd[r].st = "done" /\ rd' = [rd EXCEPT ![r].st = "ret"]
                /\ UNCHANGED <<impl, data, notify, wr, last, written, acked>>
\* a cancelled Await may return the context error from wherever it is (the selects race)
ReturnErr(r) == /\ Live(r) /\ rd[r].cx /\ rd' = [rd EXCEPT ![r].st = "ret", ![r].got = Err]
                /\ UNCHANGED <<impl, data, notify, wr, last, written, acked>>

Expire(d) ==
  /\ LockFree
  /\ data' = [k \in {x \in DOMAIN data : x.d # d} |-> data[k]]
  /\ UNCHANGED <<impl, rd, notify, wr, last, written, acked>>

---------------------------------------------------------------------------------------------------
(* Properties (C17). *)
\* a value handed to a reader was stored under the reader's key
ReadsStored == \A r \in DOMAIN rd : (rd[r].got # Nil /\ rd[r].got # Err) => <<rd[r].k, rd[r].got>> \in written
\* ... and a reader that holds a value while the key is stored holds THAT value unless the key expired meanwhile
\* (ValueStable + ReadsStored; stated directly for the common case without expiry in MC configs with MaxExpire = 0)
ReadsCurrent == \A r \in DOMAIN rd : (rd[r].st = "done" /\ Stored(rd[r].k)) => rd[r].got = data[rd[r].k]
\* the context error is only ever returned to a cancelled reader; no value appears from nowhere
CancelSound == \A r \in DOMAIN rd : /\ rd[r].got = Err => (rd[r].cx /\ rd[r].st = "ret")
                                    /\ rd[r].st \in {"done", "ret"} => rd[r].got # Nil
\* no lost wake-up: while no writer holds the write lock no reader sleeps on a stored key without a wake-up on its way
\* (as coded, a wake-up on its way is a token in the channel; once another reader took it, it is gone)
NoLostWakeup == LockFree => \A r \in DOMAIN rd : ~(rd[r].st = "wait" /\ Stored(rd[r].k) /\ notify = 0)
TypeOK == /\ notify \in {0, 1} /\ (WakeAll => notify = 0)
          /\ Cardinality({w \in DOMAIN wr : wr[w].on /\ wr[w].locked}) <= 1
          /\ \A r \in DOMAIN rd : rd[r].st \in {"called", "wait", "retry", "done", "ret"}
Safety == ReadsStored /\ CancelSound /\ NoLostWakeup /\ TypeOK
\* a mismatching (or any) store never changes what is stored under an existing key; only expiry removes
ValueStable == [][\A k \in DOMAIN data : k \in DOMAIN data' => data'[k] = data[k]]_vars
\* a failing Store call changes nothing but the keys it stored before the mismatch; a mismatch step changes nothing
MismatchNoChange == [][(\E w \in DOMAIN wr : wr'[w].err /\ ~wr[w].err) => data' = data]_vars
\* what a Store call acknowledged is what is stored (until it expires): with ValueStable this is "of two concurrent
\* conflicting stores of a fresh key exactly one succeeds".  Only meaningful without expiry (MC configs: MaxExpire = 0).
AckedStored == \A a \in acked : Stored(a[1]) /\ data[a[1]] = a[2]
====
