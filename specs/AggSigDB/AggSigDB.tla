---- MODULE AggSigDB ----
(* core/aggsigdb: memory.go (impl = "v1": actor loop Run / execCommand / processBlockedQueries / execQuery) and
   memory_v2.go (impl = "v2": RWMutex + notification channel).  `impl` is a variable that never changes, so that
   one TLC run covers both implementations and every recorded trace selects its own.  `impl` selects only the
   GRANULARITY; the required behaviour is one.

   A key is [d |-> duty, p |-> validator]; an entry is [k |-> key, v |-> value].
   One action per critical section / actor-loop iteration:
     AwaitCall(r,k)  a reader goroutine calls Await (nothing has happened inside the store yet)
     Query(r)        v1: Run receives the query, execQuery answers it or appends it to blockedQueries
                     v2: query() under the read lock finds the value or the reader goes to sleep on the channel
     StoreCall(S)    Store(duty,set) is called             (v2: takes the write lock until StoreReturn)
     StoreEntry(e)   one entry of the set, in Go map order (=> nondeterministic): v1 = one writeCommand through
                     execCommand + processBlockedQueries; v2 = one iteration of the loop inside the lock.
                     New key: stored.  Equal value: no-op.  Different value: "mismatching data", the call stops,
                     EARLIER ENTRIES STAY STORED.
     StoreReturn     v2: wake the sleepers (see the switches), release the lock
     TakeToken(r)    v2 as coded only: ONE sleeper receives the token of the capacity-1 channel
     Cancel(r)       the reader's context is cancelled
     ReturnVal(r) / ReturnErr(r)    Await returns the value it got / the context error
     Expire(d)       the deadliner reports duty d: all its keys are deleted

   Switches for memory_v2.go (control configurations; the required behaviour is TRUE/TRUE):
     WakeAll = FALSE       as coded on the pinned tree: `notify` has capacity 1, one Store wakes ONE arbitrary sleeper
     NotifyOnFail = FALSE  as coded on the pinned tree: a Store that fails on a later entry returns before it
                           notifies although earlier entries were stored *)
EXTENDS Integers, Sequences, FiniteSets, TLC
CONSTANTS WakeAll, NotifyOnFail
Nil == "nil"
Err == "err"
VARIABLES impl,     \* "v1" | "v2"
          data,     \* stored key -> value                              (db.data)
          rd,       \* reader -> [st, k, got, cx]
          notify,   \* v2 as coded: number of tokens in the notify channel (0/1)
          wr,       \* the Store call in progress
          last,     \* history: result of the last completed Store call
          written   \* history: every <<key, value>> ever put into data
vars == <<impl, data, rd, notify, wr, last, written>>

NoWr == [on |-> FALSE, todo |-> {}, err |-> FALSE]
Live(r) == r \in DOMAIN rd /\ rd[r].st \in {"called", "wait", "retry", "done"}
Stored(k) == k \in DOMAIN data
\* v2: the write lock is held from StoreCall to StoreReturn; v1: the actor loop serves one message at a time,
\* queries may be served between two write commands of one Store call
LockFree == impl = "v1" \/ ~wr.on

Init == /\ impl \in {"v1", "v2"} /\ data = <<>> /\ rd = <<>> /\ notify = 0 /\ wr = NoWr
        /\ last = Nil /\ written = {}

AwaitCall(r, k) ==
  /\ r \notin DOMAIN rd
  /\ rd' = rd @@ (r :> [st |-> "called", k |-> k, got |-> Nil, cx |-> FALSE])
  /\ UNCHANGED <<impl, data, notify, wr, last, written>>

Query(r) ==
  /\ r \in DOMAIN rd /\ rd[r].st \in {"called", "retry"} /\ LockFree
  /\ IF Stored(rd[r].k)
       THEN rd' = [rd EXCEPT ![r].st = "done", ![r].got = data[rd[r].k]]
       ELSE rd' = [rd EXCEPT ![r].st = "wait"]
  /\ UNCHANGED <<impl, data, notify, wr, last, written>>

StoreCall(S) ==
  /\ ~wr.on /\ S # {}
  /\ wr' = [on |-> TRUE, todo |-> S, err |-> FALSE]
  /\ UNCHANGED <<impl, data, rd, notify, last, written>>

\* v1 processBlockedQueries (runs after EVERY write command): each blocked query whose key is stored is answered
AnswerBlocked(d) == [r \in DOMAIN rd |-> IF rd[r].st = "wait" /\ rd[r].k \in DOMAIN d
                                           THEN [rd[r] EXCEPT !.st = "done", !.got = d[rd[r].k]] ELSE rd[r]]
StoreEntry(e) ==
  /\ wr.on /\ ~wr.err /\ e \in wr.todo
  /\ IF Stored(e.k)
       THEN /\ UNCHANGED <<data, written>>
            /\ IF data[e.k] = e.v THEN wr' = [wr EXCEPT !.todo = @ \ {e}]
                                  ELSE wr' = [wr EXCEPT !.todo = {}, !.err = TRUE]
       ELSE /\ data' = data @@ (e.k :> e.v)
            /\ written' = written \cup {<<e.k, e.v>>}
            /\ wr' = [wr EXCEPT !.todo = @ \ {e}]
  /\ rd' = IF impl = "v1" THEN AnswerBlocked(data') ELSE rd
  /\ UNCHANGED <<impl, notify, last>>

StoreReturn ==
  /\ wr.on /\ (wr.todo = {} \/ wr.err)
  /\ wr' = NoWr
  /\ last' = IF wr.err THEN "mismatch" ELSE "ok"
  /\ IF impl = "v2" /\ (~wr.err \/ NotifyOnFail)
       THEN IF WakeAll
              THEN /\ rd' = [r \in DOMAIN rd |-> IF rd[r].st = "wait" THEN [rd[r] EXCEPT !.st = "retry"] ELSE rd[r]]
                   /\ UNCHANGED notify
              ELSE notify' = 1 /\ UNCHANGED rd        \* non-blocking send on a channel of capacity 1
       ELSE UNCHANGED <<rd, notify>>
  /\ UNCHANGED <<impl, data, written>>

TakeToken(r) ==
  /\ impl = "v2" /\ ~WakeAll /\ notify = 1 /\ r \in DOMAIN rd /\ rd[r].st = "wait"
  /\ notify' = 0 /\ rd' = [rd EXCEPT ![r].st = "retry"]
  /\ UNCHANGED <<impl, data, wr, last, written>>

Cancel(r) == /\ Live(r) /\ ~rd[r].cx /\ rd' = [rd EXCEPT ![r].cx = TRUE]
             /\ UNCHANGED <<impl, data, notify, wr, last, written>>
ReturnVal(r) == /\ r \in DOMAIN rd /\ rd[r].st = "done" /\ rd' = [rd EXCEPT ![r].st = "ret"]
                /\ UNCHANGED <<impl, data, notify, wr, last, written>>
\* a cancelled Await may return the context error from wherever it is (the selects race)
ReturnErr(r) == /\ Live(r) /\ rd[r].cx /\ rd' = [rd EXCEPT ![r].st = "ret", ![r].got = Err]
                /\ UNCHANGED <<impl, data, notify, wr, last, written>>

Expire(d) ==
  /\ LockFree
  /\ data' = [k \in {x \in DOMAIN data : x.d # d} |-> data[k]]
  /\ UNCHANGED <<impl, rd, notify, wr, last, written>>

---------------------------------------------------------------------------------------------------
(* Properties (C17). *)
\* a value handed to a reader was stored under the reader's key
ReadsStored == \A r \in DOMAIN rd : (rd[r].got # Nil /\ rd[r].got # Err) => <<rd[r].k, rd[r].got>> \in written
\* ... and a reader that holds a value while the key is stored holds THAT value unless the key expired meanwhile
\* (ValueStable + ReadsStored; stated directly for the common case without expiry in MC configs with MaxExpire = 0)
ReadsCurrent == \A r \in DOMAIN rd : (rd[r].st = "done" /\ Stored(rd[r].k)) => rd[r].got = data[rd[r].k]
\* the context error is only ever returned to a cancelled reader; no value appears from nowhere
CancelSound == \A r \in DOMAIN rd : /\ rd[r].got = Err => (rd[r].cx /\ rd[r].st = "ret")
                                    /\ rd[r].st \in {"done", "ret"} => rd[r].got # Nil
\* no lost wake-up: outside a Store call no reader sleeps on a stored key without a wake-up on its way
\* (as coded, a wake-up on its way is a token in the channel; once another reader took it, it is gone)
NoLostWakeup == ~wr.on => \A r \in DOMAIN rd : ~(rd[r].st = "wait" /\ Stored(rd[r].k) /\ notify = 0)
TypeOK == /\ notify \in {0, 1} /\ wr.on \in BOOLEAN /\ (WakeAll => notify = 0)
          /\ \A r \in DOMAIN rd : rd[r].st \in {"called", "wait", "retry", "done", "ret"}
Safety == ReadsStored /\ CancelSound /\ NoLostWakeup /\ TypeOK
\* a mismatching (or any) store never changes what is stored under an existing key; only expiry removes
ValueStable == [][\A k \in DOMAIN data : k \in DOMAIN data' => data'[k] = data[k]]_vars
\* a failing Store call changes nothing but the keys it stored before the mismatch; a mismatch step changes nothing
MismatchNoChange == [][(wr'.err /\ ~wr.err) => data' = data]_vars
====
