SPECIFICATION MCSpec
CONSTANTS WakeAll = TRUE
 NotifyOnFail = TRUE
 NarrowLock = FALSE
 MaxWriters = 3
 MaxReaders = 1
 MaxStores = 3
 MaxCancel = 0
 MaxExpire = 1
 Duties = {d1}
 Pks = {p1, p2}
 Vals = {a, b}
SYMMETRY Sym
VIEW View
INVARIANTS Safety NoExpiryReadsCurrent
PROPERTIES ValueStable MismatchNoChange
CHECK_DEADLOCK FALSE
