---- MODULE AggSigDBGen ----
(* Schedule generation: behaviours of the design spec; only the ENVIRONMENT's moves (reader calls, Store calls,
   cancellations, expiries) are recorded in `hist`; what the store and the reader goroutines do in between is the
   implementation's business.  The driver calls Store synchronously, so no environment move happens while a
   Store call is in progress (concurrent writers are scheduled by checks/c17.py's own generator).  Run with -simulate (RandomElement keeps the 126 possible Store sets from
   crowding out the other moves: TLC's simulator picks uniformly among successor states). *)
EXTENDS AggSigDB, Json
CONSTANTS GenLen, MaxReaders, Duties, Pks, Vals
VARIABLE hist
GKeys == {[d |-> d, p |-> p] : d \in Duties, p \in Pks}
RId(n) == "r" \o ToString(n)
StoreSets == UNION {{ {[k |-> [d |-> d, p |-> p], v |-> f[p]] : p \in P} : f \in [P -> Vals]} :
                      d \in Duties, P \in (SUBSET Pks) \ {{}}}
\* a state-dependent wrapper: TLC would evaluate RandomElement of a constant set only once
Dyn(S) == IF Len(hist) >= 0 THEN S ELSE {}
GenInit == Init /\ impl = "v1" /\ hist = <<>>
GenNext ==
  \/ \E k \in {RandomElement(Dyn(GKeys))} : /\ ~AnyWr /\ Cardinality(DOMAIN rd) < MaxReaders
                      /\ AwaitCall(RId(Cardinality(DOMAIN rd) + 1), k)
                      /\ hist' = Append(hist, [ev |-> "Await", r |-> RId(Cardinality(DOMAIN rd) + 1), k |-> k])
  \/ \E r \in DOMAIN rd : (Query(r) \/ ReturnVal(r) \/ ReturnErr(r)) /\ UNCHANGED hist
  \/ \E r \in DOMAIN rd : ~AnyWr /\ Cancel(r) /\ hist' = Append(hist, [ev |-> "Cancel", r |-> r])
  \/ \E S \in {RandomElement(Dyn(StoreSets))} : ~AnyWr /\ StoreCall("w0", S) /\ hist' = Append(hist, [ev |-> "Store", set |-> S])
  \/ \E w \in DOMAIN wr : (Acquire(w) \/ (\E e \in wr[w].todo : StoreEntry(w, e)) \/ StoreReturn(w) \/ StoreAck(w))
                          /\ UNCHANGED hist
  \/ \E d \in {k.d : k \in DOMAIN data} : ~AnyWr /\ Expire(d) /\ hist' = Append(hist, [ev |-> "Expire", d |-> d])
GenSpec == GenInit /\ [][GenNext]_<<vars, hist>>
Emit == Len(hist) < GenLen \/ PrintT("@@SCHED@@" \o ToJson(hist))
Stop == Len(hist) <= GenLen
====
