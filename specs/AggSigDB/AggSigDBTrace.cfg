SPECIFICATION TraceSpec
CONSTANTS WakeAll = TRUE
 NotifyOnFail = TRUE
CONSTRAINT Mark
ACTION_CONSTRAINT ActOK
POSTCONDITION Report
CHECK_DEADLOCK FALSE
