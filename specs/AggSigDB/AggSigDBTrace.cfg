SPECIFICATION TraceSpec
CONSTANTS WakeAll = TRUE
 NotifyOnFail = TRUE
 NarrowLock = FALSE
CONSTRAINT Mark
ACTION_CONSTRAINT ActOK
POSTCONDITION Report
CHECK_DEADLOCK FALSE
