SPECIFICATION MCSpec
CONSTANTS WakeAll = TRUE
 NotifyOnFail = TRUE
 NarrowLock = FALSE
 MaxWriters = 2
 MaxReaders = 2
 MaxStores = 4
 MaxCancel = 0
 MaxExpire = 0
 Duties = {d1}
 Pks = {p1, p2}
 Vals = {a, b}
SYMMETRY Sym
VIEW View
INVARIANTS Safety NoExpiryReadsCurrent
PROPERTIES ValueStable MismatchNoChange
CHECK_DEADLOCK FALSE
