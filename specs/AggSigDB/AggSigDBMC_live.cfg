SPECIFICATION FairSpec
CONSTANTS WakeAll = TRUE
 NotifyOnFail = TRUE
 NarrowLock = FALSE
 MaxWriters = 1
 MaxReaders = 2
 MaxStores = 2
 MaxCancel = 0
 MaxExpire = 1
 Duties = {d1}
 Pks = {p1, p2}
 Vals = {a, b}
PROPERTIES Liveness
CHECK_DEADLOCK FALSE
