SPECIFICATION MCSpec
CONSTANTS WakeAll = FALSE
 NotifyOnFail = TRUE
 NarrowLock = FALSE
 MaxWriters = 1
 MaxReaders = 2
 MaxStores = 2
 MaxCancel = 0
 MaxExpire = 0
 Duties = {d1}
 Pks = {p1, p2}
 Vals = {a, b}
VIEW View
INVARIANTS Safety
CHECK_DEADLOCK FALSE
