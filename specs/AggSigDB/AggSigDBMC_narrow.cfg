SPECIFICATION MCSpec
CONSTANTS WakeAll = TRUE
 NotifyOnFail = TRUE
 NarrowLock = TRUE
 MaxWriters = 2
 MaxReaders = 1
 MaxStores = 2
 MaxCancel = 0
 MaxExpire = 0
 Duties = {d1}
 Pks = {p1, p2}
 Vals = {a, b}
VIEW View
INVARIANTS Safety NoExpiryReadsCurrent
PROPERTIES ValueStable MismatchNoChange
CHECK_DEADLOCK FALSE
