---- MODULE AggSigDBTrace ----
(* Trace validation for core/aggsigdb (both implementations; the Reset event says which).  Events, written by the
   executor harness/c17:
     {"ev":"Reset","sid":n,"impl":"v1"|"v2"}     fresh store, Run started
     {"ev":"AwaitCall","r":id,"k":{"d":..,"p":..}}   logged BEFORE the reader goroutine is started
     {"ev":"AwaitReturn","r":id,"got":<value id>|"err"}   Await returned a value / the context error
     {"ev":"StoreCall","w":id,"set":[{"k":{..},"v":id},..]}   logged before writer w calls Store (one duty per call)
     {"ev":"StoreRet","w":id,"res":"ok"|"mismatch"}     logged when the driver has seen w's Store return
                     Sequential schedule steps use writer "w0".  In a CONCURRENT block the driver starts writers
                     w1, w2(, w3) one after the other while the earlier ones are held inside the store (the
                     scripted deadliner's Add is a gate), then opens the gate: the trace has several StoreCall
                     events before the matching StoreRet events (call/ret bracketing) and TLC infers the
                     linearisation (silent Acquire / StoreEntry / StoreReturn steps of the writers in any order
                     the design spec allows).  The order of StoreRet events is the order in which the driver SAW
                     the calls return (StoreAck), not the order in which they finished inside the store.
     {"ev":"Cancel","r":id}                             logged before the reader's context is cancelled
     {"ev":"Expire","d":duty}                           the deadliner stub reports the duty (and Run has served it)
     {"ev":"Hang",..}                                   something did not return within the generous wait: NO step
   Silent steps: Query (a reader goroutine got to the store) and StoreEntry (Go map order of the set).

   The requirement "returns as soon as it has been stored" (NoLostWakeup) is the URGENCY rule `Quiet`: the driver
   only issues its next stimulus when every reader that must return has returned -- a reader must return when its
   context was cancelled or when its key is KNOWN to be stored.  `known` is what the driver can conclude from what
   it has seen, by a rule the driver and this spec share: the keys of a Store call that returned nil, the key of a
   value some reader returned (unless that duty was ever expired), minus the keys of expired duties.  After a
   FAILED Store call the driver cannot know which entries preceded the mismatch; it probes each such key with an
   additional reader ("q.." ids: an ordinary AwaitCall, cancelled after a short while if it does not return), so
   the key usually becomes known; if the probe is cancelled TLC keeps both possibilities (bounded: one bit per such
   key).  A lost wake-up therefore shows as a Hang event (or a missing AwaitReturn before the next stimulus).

   Bounded silent branching (sound reductions, the accepted traces are exactly those of the design spec):
   * Query(r) is only taken when r's key is stored: a reader that is still "called" can do everything a reader
     that already sleeps can do (every sleeper is woken by a store, then queries again), so the sleeping branch
     adds no behaviours.
   * ... and only at the last moment it can matter: immediately before r's own AwaitReturn event or immediately
     before an Expire event of r's duty.  A stored value never changes until it expires (ValueStable) and no other
     step looks at whether r is "called" or "done", so every earlier Query can be moved there.  Without this, m
     readers woken by one Store give 2^m interleavings of their silent Query steps.
   * StoreEntry order is canonical when one writer is active and none of its remaining entries conflicts (then
     the result is order-independent). *)
EXTENDS AggSigDB, TraceCommon, FiniteSets
VARIABLES known, expd, cset      \* cset: writer -> the set of its current Store call
tvars == <<vars, known, expd, cset, tr, l>>
TraceInit == TrInit /\ Init /\ impl = Traces[tr][1].impl /\ known = {} /\ expd = {} /\ cset = <<>>
MustRet(r) == Live(r) /\ (rd[r].cx \/ rd[r].k \in known)
Quiet == \A r \in DOMAIN rd : ~MustRet(r)
UK == UNCHANGED <<known, expd, cset>>
TReset == IsEvent("Reset") /\ UNCHANGED vars /\ UK
TAwaitCall == IsEvent("AwaitCall") /\ Quiet /\ ~AnyWr /\ AwaitCall(Ev.r, Ev.k) /\ UK
TQuery == \E r \in DOMAIN rd :
            /\ Query(r) /\ Stored(rd[r].k) /\ Silent /\ UK
            /\ l <= TLen
            /\ \/ Ev.ev = "AwaitReturn" /\ Ev.r = r
               \/ Ev.ev = "Expire" /\ Ev.d = rd[r].k.d
TAwaitReturn ==
  /\ IsEvent("AwaitReturn")
  /\ IF Ev.got = Err
       THEN ReturnErr(Ev.r) /\ UK
       ELSE /\ ReturnVal(Ev.r) /\ rd[Ev.r].got = Ev.got
            /\ known' = IF rd[Ev.r].k.d \in expd THEN known ELSE known \cup {rd[Ev.r].k}
            /\ UNCHANGED <<expd, cset>>
TStoreCall == /\ IsEvent("StoreCall") /\ Quiet /\ StoreCall(Ev.w, SeqToSet(Ev.set))
              /\ cset' = [x \in DOMAIN cset \cup {Ev.w} |-> IF x = Ev.w THEN SeqToSet(Ev.set) ELSE cset[x]]
              /\ UNCHANGED <<known, expd>>
Conflict(e) == Stored(e.k) /\ data[e.k] # e.v
NActive == Cardinality({w \in DOMAIN wr : wr[w].on /\ ~wr[w].fin})
TStoreStep == \E w \in DOMAIN wr :
                /\ Silent /\ UK
                /\ \/ Acquire(w)
                   \/ StoreReturn(w)
                   \/ \E e \in wr[w].todo :
                        /\ StoreEntry(w, e)
                        /\ NActive > 1 \/ (\E c \in wr[w].todo : Conflict(c)) \/ e = CHOOSE x \in wr[w].todo : TRUE
TStoreRet == /\ IsEvent("StoreRet") /\ StoreAck(Ev.w) /\ last'[Ev.w] = Ev.res
             /\ known' = IF Ev.res = "ok" THEN known \cup {e.k : e \in cset[Ev.w]} ELSE known
             /\ UNCHANGED <<expd, cset>>
\* the cancelled reader itself may be one that was about to return (a context cancelled before / while Await runs for a stored
\* key: the call then returns the value or the context error); every OTHER reader that must return has returned before
TCancel == IsEvent("Cancel") /\ (\A r \in DOMAIN rd \ {Ev.r} : ~MustRet(r)) /\ ~AnyWr /\ Cancel(Ev.r) /\ UK
TExpire == /\ IsEvent("Expire") /\ Quiet /\ ~AnyWr /\ Expire(Ev.d)
           /\ known' = {k \in known : k.d # Ev.d} /\ expd' = expd \cup {Ev.d} /\ UNCHANGED cset
TraceNext == TReset \/ TAwaitCall \/ TQuery \/ TAwaitReturn \/ TStoreCall \/ TStoreStep \/ TStoreRet
             \/ TCancel \/ TExpire
TraceSpec == TraceInit /\ [][TraceNext]_tvars
Mark == /\ CheckInv("ReadsStored", ReadsStored) /\ CheckInv("CancelSound", CancelSound)
        /\ CheckInv("NoLostWakeup", NoLostWakeup) /\ CheckInv("TypeOK", TypeOK)
ActOK == /\ CheckInv("ValueStable", \A k \in DOMAIN data : k \in DOMAIN data' => data'[k] = data[k])
         /\ CheckInv("MismatchNoChange", (\E w \in DOMAIN wr : wr'[w].err /\ ~wr[w].err) => data' = data)
         /\ HWMarkA
====
