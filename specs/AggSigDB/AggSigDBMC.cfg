SPECIFICATION MCSpec
CONSTANTS WakeAll = TRUE
 NotifyOnFail = TRUE
 NarrowLock = FALSE
 MaxWriters = 1
 MaxReaders = 3
 MaxStores = 2
 MaxCancel = 1
 MaxExpire = 1
 Duties = {d1, d2}
 Pks = {p1, p2}
 Vals = {a, b}
SYMMETRY Sym
VIEW View
INVARIANTS Safety NoExpiryReadsCurrent
PROPERTIES ValueStable MismatchNoChange
CHECK_DEADLOCK FALSE
