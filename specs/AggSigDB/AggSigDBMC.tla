---- MODULE AggSigDBMC ----
(* Exhaustive design check: every interleaving of reader calls over overlapping keys, Store calls of one- and
   two-entry sets (incl. equal and conflicting re-stores, in both map orders) by up to MaxWriters CONCURRENT writers,
   cancellations, expiries and the internal steps of BOTH implementations.  Readers are allocated in canonical order (r1, r2, ...): they are
   interchangeable. *)
EXTENDS AggSigDB
CONSTANTS MaxReaders, MaxStores, MaxWriters, MaxCancel, MaxExpire, Duties, Pks, Vals
VARIABLES nst, ncx, nex          \* bounds only: Store calls, cancellations, expiries so far
mcvars == <<vars, nst, ncx, nex>>
MCKeys == {[d |-> d, p |-> p] : d \in Duties, p \in Pks}
RId(n) == "r" \o ToString(n)
WId(n) == "w" \o ToString(n)
MCWriters == {WId(n) : n \in 1..MaxWriters}
\* the sets a Store call may carry: for one duty, a value for each validator of a non-empty subset
StoreSets == UNION {{ {[k |-> [d |-> d, p |-> p], v |-> f[p]] : p \in P} : f \in [P -> Vals]} :
                      d \in Duties, P \in (SUBSET Pks) \ {{}}}
MCInit == Init /\ nst = 0 /\ ncx = 0 /\ nex = 0
MCNext ==
  \/ \E k \in MCKeys : Cardinality(DOMAIN rd) < MaxReaders /\ AwaitCall(RId(Cardinality(DOMAIN rd) + 1), k)
                       /\ UNCHANGED <<nst, ncx, nex>>
  \/ \E r \in DOMAIN rd : (Query(r) \/ TakeToken(r) \/ ReturnVal(r) \/ ReturnErr(r)) /\ UNCHANGED <<nst, ncx, nex>>
  \/ \E r \in DOMAIN rd : ncx < MaxCancel /\ Cancel(r) /\ ncx' = ncx + 1 /\ UNCHANGED <<nst, nex>>
  \/ \E S \in StoreSets, w \in MCWriters : nst < MaxStores /\ StoreCall(w, S) /\ nst' = nst + 1 /\ UNCHANGED <<ncx, nex>>
  \/ \E w \in DOMAIN wr : /\ \/ Acquire(w) \/ (\E e \in wr[w].todo : StoreEntry(w, e) \/ CheckEntry(w, e))
                             \/ InsertEntry(w) \/ StoreReturn(w) \/ StoreAck(w)
                          /\ UNCHANGED <<nst, ncx, nex>>
  \/ \E d \in Duties : nex < MaxExpire /\ Expire(d) /\ nex' = nex + 1 /\ UNCHANGED <<nst, ncx>>
MCSpec == MCInit /\ [][MCNext]_mcvars
Sym == Permutations(Duties) \cup Permutations(Pks) \cup Permutations(Vals)
View == <<impl, data, rd, notify, wr, written, acked, nst, ncx, nex>>      \* `last` is observed by no invariant
NoExpiryReadsCurrent == (MaxExpire = 0) => (ReadsCurrent /\ AckedStored)
\* liveness under fairness of the store's and the readers' own steps: a reader whose key is stored gets its value
\* (or the key expires first)
UC == UNCHANGED <<nst, ncx, nex>>
FairW(w) == /\ WF_mcvars(StoreReturn(w) /\ UC) /\ WF_mcvars(Acquire(w) /\ UC)
            /\ WF_mcvars(w \in DOMAIN wr /\ (\E e \in wr[w].todo : StoreEntry(w, e)) /\ UC)
FairR(r) == WF_mcvars(Query(r) /\ UC) /\ WF_mcvars(TakeToken(r) /\ UC)
FairSpec == MCSpec /\ (\A i \in 1..MaxWriters : FairW(WId(i))) /\ (\A j \in 1..MaxReaders : FairR(RId(j)))
Live1(r) == (r \in DOMAIN rd /\ rd[r].st \in {"called", "wait", "retry"} /\ Stored(rd[r].k))
               ~> (r \in DOMAIN rd /\ (rd[r].st \in {"done", "ret"} \/ ~Stored(rd[r].k)))
Liveness == \A n \in 1..MaxReaders : Live1(RId(n))
====
