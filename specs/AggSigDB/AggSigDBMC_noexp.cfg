SPECIFICATION MCSpec
CONSTANTS WakeAll = TRUE
 NotifyOnFail = TRUE
 NarrowLock = FALSE
 MaxWriters = 1
 MaxReaders = 2
 MaxStores = 3
 MaxCancel = 1
 MaxExpire = 0
 Duties = {d1}
 Pks = {p1, p2}
 Vals = {a, b}
SYMMETRY Sym
VIEW View
INVARIANTS Safety NoExpiryReadsCurrent
PROPERTIES ValueStable MismatchNoChange
CHECK_DEADLOCK FALSE
