SPECIFICATION GenSpec
CONSTANTS WakeAll = TRUE
 NotifyOnFail = TRUE
 NarrowLock = FALSE
 GenLen = 12
 MaxReaders = 6
 Duties = {"d1", "d2"}
 Pks = {"p1", "p2", "p3"}
 Vals = {"a", "b", "c"}
INVARIANTS Emit
CONSTRAINT Stop
CHECK_DEADLOCK FALSE
