---- MODULE ClusterArtifactsGen ----
(* Case enumeration: behaviours of the design spec, recorded in the history variable `hist` (the environment's moves
   only), explored EXHAUSTIVELY (breadth first, not simulated): one behaviour
        Cfg, Create, Load, Verify, <one of: Tamper(leaf, kind, sel) | rewrite | Keystores(i) | Deposits(i) | Combine(S)>
   per case, printed when the last move was made.  checks/c12.py merges the behaviours of one configuration into one
   schedule (they share the prefix), fills in the sizes/network/amounts/addresses the enumeration leaves open, and
   - quick tier - samples among them.
   Fort configurations: every version x {lock, definition}; created clusters: n in 3..MaxN with every threshold. *)
EXTENDS ClusterArtifactsMC, Json
VARIABLE hist
SetSeq(S) == SetToSeq(S)
GenInit == \/ \E ver \in FortVers, art \in {"lock", "def"} :
                /\ InitWith(FortCfg(ver, art))
                /\ hist = <<[ev |-> "Cfg", src |-> "fort", art |-> art, ver |-> VerNames[ver + 1], n |-> 0, t |-> 0, flaw |-> "none", msig |-> 0]>>
           \/ \E ver \in FortVers, art \in {"lock", "def"}, f \in Flaws :
                /\ FlawApplies(f, ver, art) /\ InitWith(FlawedCfg(ver, art, f))
                /\ hist = <<[ev |-> "Cfg", src |-> "fort", art |-> art, ver |-> VerNames[ver + 1], n |-> 0, t |-> 0, flaw |-> f, msig |-> 0]>>
           \/ \E art \in {"lock", "def"}, k \in {2, 3} :
                /\ Latest \in FortVers /\ InitWith(MultiSigCfg(art, k))
                /\ hist = <<[ev |-> "Cfg", src |-> "fort", art |-> art, ver |-> VerNames[Latest + 1], n |-> 0, t |-> 0,
                             flaw |-> "none", msig |-> k]>>
           \/ \E n \in 3..MaxN : \E t \in {0} \cup 2..n :
                /\ InitWith(CreateCfg(n, t, <<>>, FALSE))
                /\ hist = <<[ev |-> "Cfg", src |-> "create", art |-> "lock", ver |-> VerNames[Latest + 1], n |-> n, t |-> t, flaw |-> "none", msig |-> 0]>>
Fresh == phase = "verified" /\ cur.state = "pristine" /\ obs.kind = "none"
SibOf(r) == IF r.sib \in {"", "self"} THEN "" ELSE FullPath([r EXCEPT !.p = r.sib], cfg.art)
Sels(r) == IF r.sib = "self" THEN {"first", "last"} ELSE {"first"}
OverOf(kind) == SetSeq({FullPath(r, cfg.art) : r \in {x \in Rows : x.ty = (IF kind = "hexcase" THEN "hex" ELSE "addr")}})
Size(S) == Cardinality(S)
\* node subsets worth recombining: exactly the threshold, one less, all nodes
CombineSets == {S \in SUBSET (1..cfg.n) : Size(S) \in {ExpThreshold(cfg) - 1, ExpThreshold(cfg), cfg.n}}
\* multisig configurations: the cases are the alterations of the (multi-)signature leaves
GenRows == IF HashOnly THEN {r \in Rows : r.p \in MultiSigLeaves} ELSE Rows
GenNext ==
  \/ Create /\ hist' = Append(hist, [ev |-> "Create"])
  \/ Load(CanonView(cfg)) /\ hist' = Append(hist, [ev |-> "Load", node |-> 0])
  \/ Verify /\ hist' = Append(hist, [ev |-> "Verify"])
  \/ VerifyFlawed /\ verdict = "none" /\ hist' = Append(hist, [ev |-> "Verify"])
  \/ /\ Fresh
     /\ \/ \E r \in GenRows : \E kind \in (KindsOf(r) \ {"ver"}) \cup (IF HashOnly THEN PosKinds ELSE {}) : \E sel \in Sels(r) :
             /\ Tamper(FullPath(r, cfg.art), kind, TRUE)
             /\ hist' = Append(hist, [ev |-> "Tamper", leaf |-> FullPath(r, cfg.art), ty |-> r.ty, kind |-> kind,
                                      sel |-> sel, sib |-> SibOf(r), to |-> ""])
        \/ \E r \in GenRows : \E to \in VerSiblings(V) :
             /\ "ver" \in KindsOf(r) /\ Tamper(FullPath(r, cfg.art), "ver", TRUE)
             /\ hist' = Append(hist, [ev |-> "Tamper", leaf |-> FullPath(r, cfg.art), ty |-> r.ty, kind |-> "ver",
                                      sel |-> "first", sib |-> "", to |-> VerNames[to + 1]])
        \/ \E kind \in Rewrites :
             /\ Rewrite(kind)
             /\ hist' = Append(hist, [ev |-> "Tamper", leaf |-> "*", ty |-> "", kind |-> kind, sel |-> "", sib |-> "",
                                      to |-> "", over |-> IF kind \in {"hexcase", "addrcase"} THEN OverOf(kind) ELSE <<>>])
        \/ \E i \in 1..cfg.n : Keystores(i) /\ hist' = Append(hist, [ev |-> "Keystores", node |-> i - 1])
        \/ \E i \in 1..cfg.n : Deposits(i, CanonFiles(cfg)) /\ hist' = Append(hist, [ev |-> "Deposits", node |-> i - 1])
        \/ \E S \in CombineSets : Combine(S) /\ hist' = Append(hist, [ev |-> "Combine", nodes |-> SetSeq({i - 1 : i \in S})])
GenSpec == GenInit /\ [][GenNext]_<<vars, hist>>
Emit == IF cfg.flaw = "none" THEN Fresh \/ phase # "verified" \/ PrintT("@@SCHED@@" \o ToJson(hist))
        ELSE verdict # "detected" \/ PrintT("@@SCHED@@" \o ToJson(hist))
====
