SPECIFICATION MCSpec
CONSTANTS Dropped = {}
 WriteOrder = "node"
 MaxN = 6
 FortVers = {0, 1, 2, 3, 4, 5, 6, 7, 8, 9, 10, 11}
 Thresholds = "all"
INVARIANTS Safety CanonAccepted
CHECK_DEADLOCK FALSE
