SPECIFICATION MCSpec
CONSTANTS Dropped = {}
 WriteOrder = "node"
 MaxN = 6
 Thresholds = "all"
INVARIANTS Safety CanonAccepted
CHECK_DEADLOCK FALSE
