---- MODULE ClusterArtifacts ----
(* C12 - cluster artifacts are mutually consistent and tamper-evident.

   Life-cycle of the artifacts of one cluster:
       Create(cfg) -> Load(view) -> Verify -> { Keystores(i) | Deposits(i) | Combine(S) | Tamper(leaf,kind) -> LoadT -> VerifyT
                                              | Tamper(leaf,kind) -> CombineT }*
   An artifact (cluster-lock.json / cluster-definition.json) is an abstract tree of LEAF FIELDS.  The tables DefRows and
   LockRows list, per format version v1.0 .. v1.11 (indices 0..11), every leaf of the JSON file with its DECLARED
   protection.  They are transcribed from
     * the struct tags  config_hash:"N"|"-"  definition_hash:"N"|"-"  lock_hash:"N"|"-"  of cluster.Definition,
       Operator, Creator, ValidatorAddresses (definition.go, operator.go), Lock (lock.go), DistValidator
       (distvalidator.go), DepositData (deposit.go), BuilderRegistration, Registration (registration.go): a tag sequence
       is the tag of the containing field followed by the tag of the field inside it; a leaf is covered by a hash iff
       no tag on the way is "-";
     * the per-version JSON formatter structs (definitionJSONv1x0or1 ... definitionJSONv1x10to11, lockJSONv1x0or1 ...
       lockJSONv1x8, distValidatorJSONv1x1 ... v1x8, operatorJSONv1x1 / v1x2orLater): which leaf exists in which
       version and how it is encoded ([]byte = base64, ethHex = 0x-hex, string, number, ",string" number);
     * the doc comments of the signature fields (what each signature signs, who signs) and the version notes
       (SignatureAggregate not populated by v1.0/v1.1 `create cluster`; operator nonce "always 0"; no EIP712
       signatures before v1.3; creator since v1.4; node signatures and builder registrations since v1.7).
   NOT from the hashing functions in cluster/ssz.go - those are what the check examines.

   Abstract crypto (DESIGN.md section 3): hashes are injective on the values in play, a stored hash that was altered
   equals no recomputed hash, a signature verifies iff signature, signed content and signer key are the original
   ones.  `Detects` below is the resulting detection argument for ONE altered leaf; it is a sufficient condition
   (what the declarations promise), never more. *)
EXTENDS Integers, Sequences, FiniteSets, TLC

CONSTANTS Dropped,      \* control: leaf names removed from the declared hash coverage ({} = as declared)
          WriteOrder    \* "node": keystore of node i holds share i (required) | "reversed": control

VerNames == <<"v1.0.0", "v1.1.0", "v1.2.0", "v1.3.0", "v1.4.0", "v1.5.0", "v1.6.0", "v1.7.0", "v1.8.0", "v1.9.0",
              "v1.10.0", "v1.11.0">>
Vers == 0..11
Latest == 11
VerIdx(name) == CHOOSE i \in Vers : VerNames[i + 1] = name

-----------------------------------------------------------------------------------------------------------------
(* The protection tables.  p: JSON path (arrays as []), ty: encoding, c / d / k: config_hash / definition_hash /
   lock_hash tag sequences (<<>>: the Go struct has no such field - JSON only), lo..hi: versions in which the leaf is
   part of the file, sib: leaf to swap with ("self": the next element of the same array), fx: the loader accepts one
   value only. *)
D(p, ty, c, d, lo, hi, sib) ==
    [p |-> p, ty |-> ty, c |-> c, d |-> d, k |-> <<>>, lo |-> lo, hi |-> hi, sib |-> sib, part |-> "def", fx |-> FALSE]
L(p, ty, k, lo, hi, sib) ==
    [p |-> p, ty |-> ty, c |-> <<>>, d |-> <<>>, k |-> k, lo |-> lo, hi |-> hi, sib |-> sib, part |-> "lock", fx |-> FALSE]

DefRows == {
  D("uuid",                                "str",    <<"0">>,       <<"0">>,       0, 11, ""),
  D("name",                                "str",    <<"1">>,       <<"1">>,       0, 11, ""),
  D("version",                             "ver",    <<"2">>,       <<"2">>,       0, 11, ""),
  D("timestamp",                           "str",    <<"3">>,       <<"3">>,       0, 11, ""),
  D("num_validators",                      "num",    <<"4">>,       <<"4">>,       0, 11, ""),
  D("threshold",                           "num",    <<"5">>,       <<"5">>,       0, 11, ""),
  D("dkg_algorithm",                       "str",    <<"6">>,       <<"6">>,       0, 11, ""),
  D("fork_version",                        "hexstr", <<"7">>,       <<"7">>,       0, 1,  ""),
  D("fork_version",                        "hex",    <<"7">>,       <<"7">>,       2, 11, ""),
  D("operators[].address",                 "addr",   <<"8", "0">>,  <<"8", "0">>,  0, 11, "self"),
  D("operators[].enr",                     "str",    <<"8", "-">>,  <<"8", "1">>,  0, 11, "self"),
  D("operators[].config_signature",        "b64",    <<"8", "-">>,  <<"8", "2">>,  0, 1,  "self"),
  D("operators[].config_signature",        "hex",    <<"8", "-">>,  <<"8", "2">>,  2, 11, "self"),
  D("operators[].enr_signature",           "b64",    <<"8", "-">>,  <<"8", "3">>,  0, 1,  "self"),
  D("operators[].enr_signature",           "hex",    <<"8", "-">>,  <<"8", "3">>,  2, 11, "self"),
  D("creator.address",                     "addr",   <<"9", "0">>,  <<"9", "0">>,  4, 11, ""),
  D("creator.config_signature",            "hex",    <<"9", "-">>,  <<"9", "1">>,  4, 11, ""),
  D("fee_recipient_address",               "addr",   <<"10", "0">>, <<"10", "0">>, 0, 4,  "withdrawal_address"),
  D("withdrawal_address",                  "addr",   <<"10", "1">>, <<"10", "1">>, 0, 4,  "fee_recipient_address"),
  D("validators[].fee_recipient_address",  "addr",   <<"10", "0">>, <<"10", "0">>, 5, 11, "self"),
  D("validators[].withdrawal_address",     "addr",   <<"10", "1">>, <<"10", "1">>, 5, 11, "self"),
  D("deposit_amounts[]",                   "numstr", <<"11">>,      <<"11">>,      8, 11, "self"),   \* eth2p0.Gwei: quoted
  D("consensus_protocol",                  "str",    <<"12">>,      <<"12">>,      9, 11, ""),
  D("target_gas_limit",                    "num",    <<"13">>,      <<"13">>,      10, 11, ""),
  D("compounding",                         "bool",   <<"14">>,      <<"14">>,      10, 11, ""),
  D("config_hash",                         "b64",    <<"-">>,       <<"15">>,      0, 1,  "definition_hash"),
  D("config_hash",                         "hex",    <<"-">>,       <<"15">>,      2, 11, "definition_hash"),
  D("definition_hash",                     "b64",    <<"-">>,       <<"-">>,       0, 1,  "config_hash"),
  D("definition_hash",                     "hex",    <<"-">>,       <<"-">>,       2, 11, "config_hash"),
  \* operatorJSONv1x1.Nonce ("Always 0"; operatorsFromV1x1 rejects anything else) - not a field of cluster.Operator
  [D("operators[].nonce", "num", <<>>, <<>>, 0, 1, "") EXCEPT !.fx = TRUE] }

DV == "distributed_validators[]."
LockRows == {
  L(DV \o "distributed_public_key",                    "hex",    <<"1", "0">>,           0, 11, "self"),
  L(DV \o "public_shares[]",                           "b64",    <<"1", "1">>,           0, 1,  "self"),
  L(DV \o "public_shares[]",                           "hex",    <<"1", "1">>,           2, 11, "self"),
  L(DV \o "deposit_data.pubkey",                       "hex",    <<"1", "2", "0">>,      6, 7,  "self"),
  L(DV \o "deposit_data.withdrawal_credentials",       "hex",    <<"1", "2", "1">>,      6, 7,  "self"),
  L(DV \o "deposit_data.amount",                       "numstr", <<"1", "2", "2">>,      6, 7,  ""),
  L(DV \o "deposit_data.signature",                    "hex",    <<"1", "2", "3">>,      6, 7,  "self"),
  L(DV \o "partial_deposit_data[].pubkey",             "hex",    <<"1", "2", "0">>,      8, 11, "self"),
  L(DV \o "partial_deposit_data[].withdrawal_credentials", "hex", <<"1", "2", "1">>,     8, 11, "self"),
  L(DV \o "partial_deposit_data[].amount",             "numstr", <<"1", "2", "2">>,      8, 11, "self"),
  L(DV \o "partial_deposit_data[].signature",          "hex",    <<"1", "2", "3">>,      8, 11, "self"),
  L(DV \o "builder_registration.message.fee_recipient", "hex",   <<"1", "3", "0", "0">>, 7, 11, "self"),
  L(DV \o "builder_registration.message.gas_limit",    "num",    <<"1", "3", "0", "1">>, 7, 11, ""),
  L(DV \o "builder_registration.message.timestamp",    "num",    <<"1", "3", "0", "2">>, 7, 11, ""),
  L(DV \o "builder_registration.message.pubkey",       "hex",    <<"1", "3", "0", "3">>, 7, 11, "self"),
  L(DV \o "builder_registration.signature",            "hex",    <<"1", "3", "1">>,      7, 11, "self"),
  L("lock_hash",                                       "b64",    <<"-">>,                0, 1,  ""),
  L("lock_hash",                                       "hex",    <<"-">>,                2, 11, ""),
  L("signature_aggregate",                             "b64",    <<"-">>,                0, 1,  ""),
  L("signature_aggregate",                             "hex",    <<"-">>,                2, 11, ""),
  L("node_signatures[]",                               "hex",    <<"-">>,                7, 11, "self") }

InVer(r, v) == r.lo <= v /\ v <= r.hi
Present(v, art) == {r \in DefRows : InVer(r, v)} \cup (IF art = "lock" THEN {r \in LockRows : InVer(r, v)} ELSE {})
FullPath(r, art) == IF art = "lock" /\ r.part = "def" THEN "cluster_definition." \o r.p ELSE r.p
LeafPaths(v, art) == {FullPath(r, art) : r \in Present(v, art)}

\* representative alterations per encoding; rewrites touch no value
BytesTy == {"hex", "b64", "hexstr", "addr"}
KindsOf(r) ==
  \* (a bit of the first / middle / LAST byte as well as of a seeded one: encodings have structure at their ends - a
  \* recovery id, a length, a checksum)
  (CASE r.ty \in BytesTy -> {"flip", "zero", "trunc", "ext0", "ext1", "empty", "flip_first", "flip_mid", "flip_last"}
     [] r.ty = "str"     -> {"flip", "trunc", "ext", "empty"}
     [] r.ty = "ver"     -> {"flip", "ver"}
     [] r.ty \in {"num", "numstr"} -> {"incr", "zero"}
     [] r.ty = "bool"    -> {"neg"})
  \cup (IF r.ty = "addr" THEN {"addr"} ELSE {})
  \cup (IF r.sib # "" THEN {"swap"} ELSE {})
Rewrites == {"reencode", "keyorder", "indent", "hexcase", "addrcase"}
\* Safe multisig signatures (v1.11 only: "concatenated 65-byte signatures", ssz List[Bytes65,32]): the EIP712 signature
\* leaves may hold several signatures; every byte of them is definition-hashed.  Alterations at given positions:
\* first / middle / last byte, and a byte inside the 1st, 2nd, 3rd 65-byte segment.
MultiSigLeaves == {"operators[].config_signature", "operators[].enr_signature", "creator.config_signature"}
PosKinds == {"flip_first", "flip_mid", "flip_last", "flip_seg1", "flip_seg2", "flip_seg3"}
\* the JSON token a leaf of an encoding is written as
JsonKind(ty) == CASE ty = "num" -> "number" [] ty = "bool" -> "bool" [] OTHER -> "string"
\* versions sharing one JSON layout of the definition: candidates for the "ver" alteration
VerSiblings(v) == CASE v \in {0, 1} -> {0, 1} \ {v} [] v \in {2, 3} -> {2, 3} \ {v} [] v \in {5, 6, 7} -> {5, 6, 7} \ {v}
                    [] v \in {10, 11} -> {10, 11} \ {v} [] OTHER -> {}

-----------------------------------------------------------------------------------------------------------------
VARIABLES cfg,      \* the requested configuration
          phase,    \* "new" | "created" | "loaded" | "verified"   (of the pristine artifact)
          lk,       \* what was loaded: the view of the lock / definition
          cur,      \* the file under examination: pristine, or an altered copy of the pristine one
          verdict,  \* outcome of the last load+verification: "none" | "intact" | "detected"
          obs       \* last observation of the other artifacts (keystores, deposit files, recombination)
vars == <<cfg, phase, lk, cur, verdict, obs>>

NoView == [none |-> TRUE]
Pristine == [state |-> "pristine", leaf |-> "", kind |-> "", changed |-> FALSE]
NoObs == [kind |-> "none"]

V == cfg.ver
Rows == Present(V, cfg.art)
RowOf(full) == CHOOSE r \in Rows : FullPath(r, cfg.art) = full
HasRow(full) == \E r \in Rows : FullPath(r, cfg.art) = full

\* ---- the detection argument for the altered leaf of `cur` ----
Alt(p) == cur.changed /\ cur.leaf = p
Cov(tags) == tags # <<>> /\ \A i \in DOMAIN tags : tags[i] # "-"
CfgCov(r) == r.part = "def" /\ Cov(r.c) /\ r.p \notin Dropped
DefCov(r) == r.part = "def" /\ Cov(r.d) /\ r.p \notin Dropped
LockCov(r) == IF r.part = "def" THEN DefCov(r) ELSE Cov(r.k) /\ r.p \notin Dropped
\* recomputed hash differs from the stored one: the stored one was altered, or something it covers was
ConfigHashBad == Alt("config_hash") \/ \E r \in Rows : CfgCov(r) /\ Alt(r.p)
DefHashBad == Alt("definition_hash") \/ \E r \in Rows : DefCov(r) /\ Alt(r.p)
LockHashChanged == \E r \in Rows : LockCov(r) /\ Alt(r.p)
LockHashBad == cfg.art = "lock" /\ (Alt("lock_hash") \/ LockHashChanged)
HashesFail == ConfigHashBad \/ DefHashBad \/ LockHashBad
\* the loader accepts one value only
LoadFail == \E r \in Rows : r.fx /\ Alt(r.p)
\* signatures (doc comments of the signature fields)
AggRemoved == V <= 1 /\ Alt("signature_aggregate") /\ cur.kind = "empty"   \* v1.0/v1.1: may be absent (lock.go)
AggSigFail == cfg.art = "lock" /\ ~AggRemoved /\ (Alt("signature_aggregate") \/ LockHashChanged)
NodeSigFail == cfg.art = "lock" /\ V >= 7 /\ (Alt("node_signatures[]") \/ Alt("lock_hash") \/ Alt("operators[].enr"))
RegSigFail == cfg.art = "lock" /\ V >= 7 /\ (Alt(DV \o "builder_registration.signature")
                                             \/ Alt(DV \o "builder_registration.message.gas_limit")
                                             \/ Alt(DV \o "builder_registration.message.timestamp"))
OpSigFail == \/ V <= 2 /\ (Alt("operators[].config_signature") \/ Alt("operators[].enr_signature")) /\ cur.kind # "empty"
             \/ V >= 3 /\ cfg.signed /\ (Alt("operators[].config_signature") \/ Alt("operators[].enr_signature"))
             \/ V >= 4 /\ cfg.signed /\ Alt("creator.config_signature")
SigsFail == AggSigFail \/ NodeSigFail \/ RegSigFail \/ OpSigFail
\* multisig artifacts (cfg.msig > 0 signatures per leaf) need an execution client for VerifySignatures (ERC-1271), which
\* is not available: for them the observable is loading + VerifyHashes only
HashOnly == cfg.msig > 0
Detects == LoadFail \/ HashesFail \/ (~HashOnly /\ SigsFail)

IsRewrite == cur.kind \in Rewrites
\* an address spelled in another letter case is the same address since v1.3 (hashed and compared as 20 bytes); the
\* legacy formats hash the address text, so the statement is silent there
LegacyAddrCase == cur.kind = "addrcase" /\ V <= 2
Expected == IF ~cur.changed THEN (IF LegacyAddrCase THEN "either" ELSE "intact")
            ELSE IF Detects THEN "detected" ELSE "either"
\* the documented exceptions of tamper evidence (everything else must be detected)
\* ... and, where only the hashes can be looked at, the two leaves that are signatures over the lock hash (lock_hash:"-")
Excepted == AggRemoved \/ (HashOnly /\ cur.leaf \in {"signature_aggregate", "node_signatures[]"})

-----------------------------------------------------------------------------------------------------------------
\* ---- consistency of what `create cluster` / the format writer produced with what was asked for ----
ForkOf == [mainnet |-> "0x00000000", goerli |-> "0x00001020", gnosis |-> "0x00000064", chiado |-> "0x0000006f",
           sepolia |-> "0x90000069", hoodi |-> "0x10000910"]
Gwei(eth) == ToString(eth) \o "000000000"
SeqSet(s) == {s[i] : i \in DOMAIN s}
Distinct(s) == Cardinality(SeqSet(s)) = Len(s)
ExpThreshold(c) == IF c.t = 0 THEN (2 * c.n + 2) \div 3 ELSE c.t       \* ceil(2n/3)
ExpAmounts(c) == IF c.amounts = <<>> THEN (IF c.comp THEN {1, 8, 32, 256} ELSE {1, 32}) ELSE SeqSet(c.amounts)
ExpAmountStrs(c) == {Gwei(a) : a \in ExpAmounts(c)}
ExpWC(c, i) == (IF c.comp THEN "0x02" ELSE "0x01") \o "0000000000000000000000" \o c.wd[i]

DefViewOK(c, w) ==
  /\ w.version = VerNames[c.ver + 1] /\ w.nops = c.n /\ w.threshold = ExpThreshold(c) /\ w.nv = c.v
  /\ w.fork = ForkOf[c.net] /\ Distinct(w.enrs) /\ Len(w.enrs) = c.n
  /\ c.src = "create" =>
       /\ c.ver = Latest /\ w.unsigned
       /\ w.fee = [i \in 1..c.v |-> "0x" \o c.fee[i]] /\ w.wd = [i \in 1..c.v |-> "0x" \o c.wd[i]]
       /\ w.amounts = [i \in DOMAIN c.amounts |-> Gwei(c.amounts[i])]
       /\ w.comp = c.comp /\ w.gas = c.gas
  /\ c.src = "fort" => w.unsigned = ~c.signed
LockViewOK(c, w) ==
  /\ DefViewOK(c, w)
  /\ Len(w.pubkeys) = c.v /\ Distinct(w.pubkeys) /\ Len(w.pubshares) = c.v
  /\ \A i \in 1..c.v : Len(w.pubshares[i]) = c.n /\ Distinct(w.pubshares[i])
  /\ w.aggsig /\ w.nodesigs = (IF c.ver >= 7 THEN c.n ELSE 0)
  /\ c.ver >= 7 => /\ Len(w.regs) = c.v
                   /\ \A i \in 1..c.v : w.regs[i].present /\ w.regs[i].sig_ok /\ w.regs[i].pubkey = w.pubkeys[i]
  /\ c.src = "create" =>
       /\ \A i \in 1..c.v : w.regs[i].fee = "0x" \o c.fee[i] /\ w.regs[i].gas = c.gas
       /\ \A i \in 1..c.v :
            /\ {w.deps[i][j].amount : j \in DOMAIN w.deps[i]} = ExpAmountStrs(c)
            /\ Len(w.deps[i]) = Cardinality(ExpAmountStrs(c))
            /\ \A j \in DOMAIN w.deps[i] : w.deps[i][j].pubkey = w.pubkeys[i] /\ w.deps[i][j].wc = ExpWC(c, i)
ViewOK(c, w) == IF c.art = "def" THEN DefViewOK(c, w) ELSE LockViewOK(c, w)

-----------------------------------------------------------------------------------------------------------------
InitWith(c) == cfg = c /\ phase = "new" /\ lk = NoView /\ cur = Pristine /\ verdict = "none" /\ obs = NoObs

Create == phase = "new" /\ phase' = "created" /\ UNCHANGED <<cfg, lk, cur, verdict, obs>>

\* the written file is read back: every node directory holds the same file, and it says what was asked for
Load(w) == /\ phase = "created" /\ ViewOK(cfg, w)
           /\ lk' = w /\ phase' = "loaded" /\ cur' = Pristine /\ verdict' = "none" /\ UNCHANGED <<cfg, obs>>

\* the pristine artifact passes full hash and signature verification
Verify == /\ phase = "loaded" /\ cur.state = "pristine" /\ cfg.flaw = "none"
          /\ phase' = "verified" /\ verdict' = "intact" /\ UNCHANGED <<cfg, lk, cur, obs>>
\* an artifact written by a dishonest or broken creator - internally consistent hashes, but (Flaws) a public share
\* off the validator's polynomial, the public shares spread over TWO polynomials with the same constant term that agree
\* in t-2 of the share indices ("twopoly": every share lies on a polynomial of the right degree through the validator's
\* key together with SOME others, but not all of them on one - some threshold subsets do not recombine to the key),
\* signatures by the wrong key, an aggregate signature lacking a share - is refused
Flaws == {"extrashare", "firstshare", "twopoly", "aggsig", "opsig", "enrsig", "creatorsig"}
FlawApplies(f, v, art) == CASE f \in {"extrashare", "firstshare", "twopoly", "aggsig"} -> art = "lock"
                            [] f \in {"opsig", "enrsig"} -> v >= 3
                            [] f = "creatorsig" -> v >= 4
                            [] OTHER -> FALSE
VerifyFlawed == /\ phase = "loaded" /\ cur.state = "pristine" /\ cfg.flaw # "none"
                /\ verdict' = "detected" /\ UNCHANGED <<cfg, phase, lk, cur, obs>>

Idle == phase = "verified" /\ cur.state \in {"pristine", "done"}
\* the other artifacts are looked at next to the pristine lock (an altered copy is discarded)
Back == cur' = Pristine /\ verdict' = "intact" /\ UNCHANGED <<cfg, phase, lk>>

\* node i's keystore directory (i in 1..n): the public keys of the stored shares, one per validator
ShareIdx(i) == IF WriteOrder = "node" THEN i ELSE cfg.n + 1 - i
Keystores(i) == /\ Idle /\ cfg.src = "create" /\ i \in 1..cfg.n
                /\ obs' = [kind |-> "keystores", node |-> i, pubs |-> [x \in 1..cfg.v |-> lk.pubshares[x][ShareIdx(i)]]]
                /\ Back

\* recombining the shares held by the node set S
Combine(S) == /\ Idle /\ cfg.src = "create" /\ S \subseteq 1..cfg.n
              /\ obs' = [kind |-> "combine", nodes |-> S, ok |-> Cardinality(S) >= lk.threshold,
                         pubs |-> IF Cardinality(S) >= lk.threshold THEN lk.pubkeys ELSE <<>>]
              /\ Back

\* node i's deposit-data files: one file per distinct amount, one valid entry per validator, equal to the lock's
DepositFilesOK(files) ==
  /\ {f.amount : f \in SeqSet(files)} = ExpAmountStrs(cfg) /\ Len(files) = Cardinality(ExpAmountStrs(cfg))
  /\ \A f \in SeqSet(files) :
       /\ Len(f.entries) = cfg.v /\ {e.pubkey : e \in SeqSet(f.entries)} = SeqSet(lk.pubkeys)
       /\ \A e \in SeqSet(f.entries) :
            /\ e.amount = f.amount /\ e.sig_ok /\ e.fork = lk.fork /\ e.net = cfg.net
            /\ \E x \in 1..cfg.v : \E j \in DOMAIN lk.deps[x] :
                 /\ lk.pubkeys[x] = e.pubkey /\ lk.deps[x][j].amount = e.amount
                 /\ lk.deps[x][j].wc = e.wc /\ lk.deps[x][j].sig = e.sig
Deposits(i, files) == /\ Idle /\ cfg.src = "create" /\ i \in 1..cfg.n /\ DepositFilesOK(files)
                      /\ obs' = [kind |-> "deposits", node |-> i]
                      /\ Back

\* one leaf of a copy of the pristine file is altered (changed: the new VALUE differs), or the file is rewritten
Tamper(full, kind, changed) ==
  /\ Idle /\ HasRow(full)
  /\ kind \in KindsOf(RowOf(full)) \cup (IF HashOnly /\ RowOf(full).p \in MultiSigLeaves THEN PosKinds ELSE {})
  /\ cur' = [state |-> "altered", leaf |-> RowOf(full).p, kind |-> kind, changed |-> changed]
  /\ verdict' = "none" /\ obs' = NoObs /\ UNCHANGED <<cfg, phase, lk>>
Rewrite(kind) ==
  /\ Idle /\ kind \in Rewrites
  /\ cur' = [state |-> "altered", leaf |-> "*", kind |-> kind, changed |-> FALSE]
  /\ verdict' = "none" /\ obs' = NoObs /\ UNCHANGED <<cfg, phase, lk>>

\* loading the altered file: may only fail if the alteration need not stay undetected; an unaltered value keeps all
\* hashes (heq: the three hashes, recomputed and as stored, equal the pristine ones)
LoadT(ok, heq) ==
  /\ cur.state = "altered"
  /\ Expected = "intact" => ok /\ heq
  /\ cur' = [cur EXCEPT !.state = IF ok THEN "loaded" ELSE "done"]
  /\ verdict' = IF ok THEN "none" ELSE "detected"
  /\ UNCHANGED <<cfg, phase, lk, obs>>
\* verifying it (VerifyHashes and VerifySignatures): res = "detected" iff one of them fails
VerifyT(res) ==
  /\ cur.state = "loaded" /\ res \in {"intact", "detected"}
  /\ Expected # "either" => res = Expected
  /\ cur' = [cur EXCEPT !.state = "done"] /\ verdict' = res
  /\ UNCHANGED <<cfg, phase, lk, obs>>

\* the altered lock file sits in ONE node directory of a created cluster (the others hold the pristine file) and the
\* node directories are handed to `combine` (cmd/combine loadManifest loads and verifies the lock of EVERY directory
\* before any share is used): recombination goes through (ok) or is refused.  This is the same verification reached
\* through another door, so the same expectation applies.
CombineT(ok) ==
  /\ cur.state = "altered" /\ cfg.src = "create" /\ cfg.art = "lock"
  /\ Expected # "either" => (ok <=> Expected = "intact")
  /\ cur' = [cur EXCEPT !.state = "done"] /\ verdict' = IF ok THEN "intact" ELSE "detected"
  /\ UNCHANGED <<cfg, phase, lk, obs>>

-----------------------------------------------------------------------------------------------------------------
\* ---- properties ----
Finished == cur.state = "done"
\* every value-changing alteration of a leaf is noticed by loading + verification, except the documented ones
TamperEvident == (Finished /\ cur.changed /\ ~Excepted) => verdict = "detected"
\* rewrites and no-op alterations keep the file valid (legacy address spelling aside)
ValuePreserved == (Finished /\ ~cur.changed /\ ~LegacyAddrCase) => verdict = "intact"
\* each key share stored for a node corresponds to that node's public share in the lock
ShareConsistency == obs.kind = "keystores" => obs.pubs = [x \in 1..cfg.v |-> lk.pubshares[x][obs.node]]
\* any threshold of shares recombines to the lock's validator keys; fewer do not
CombineRule == obs.kind = "combine" =>
                 /\ obs.ok = (Cardinality(obs.nodes) >= lk.threshold)
                 /\ obs.ok => obs.pubs = lk.pubkeys
TypeOK == /\ phase \in {"new", "created", "loaded", "verified"}
          /\ verdict \in {"none", "intact", "detected"}
          /\ cur.state \in {"pristine", "altered", "loaded", "done"}
\* a flawed artifact is never accepted (and so never used)
FlawRejected == cfg.flaw # "none" => phase # "verified"
Safety == TamperEvident /\ ValuePreserved /\ ShareConsistency /\ CombineRule /\ FlawRejected /\ TypeOK
====
