SPECIFICATION MCSpec
CONSTANTS Dropped = {"deposit_amounts[]"}
 WriteOrder = "node"
 MaxN = 3
 FortVers = {11}
 Thresholds = "default"
INVARIANTS TamperEvident
CHECK_DEADLOCK FALSE
