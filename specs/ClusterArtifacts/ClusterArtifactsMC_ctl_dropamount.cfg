SPECIFICATION MCSpec
CONSTANTS Dropped = {"deposit_amounts[]"}
 WriteOrder = "node"
 MaxN = 3
 Thresholds = "default"
INVARIANTS TamperEvident
CHECK_DEADLOCK FALSE
