SPECIFICATION TraceSpec
CONSTANTS Dropped = {}
 WriteOrder = "node"
 RegFeePadding = TRUE
CONSTRAINT Mark
POSTCONDITION Report
CHECK_DEADLOCK FALSE
