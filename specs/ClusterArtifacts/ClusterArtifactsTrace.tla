---- MODULE ClusterArtifactsTrace ----
(* Trace validation for the cluster artifacts.  Events are written by the executor (harness/c12); every verdict in them
   is what the real code answered, every other field is a fact about the input:
     {"ev":"Reset","sid":k,"src":"create"|"fort","art":"lock"|"def","ver":"v1.x.0","n","t","v","net","amounts":[ETH],
      "comp","gas","fee":[40 hex digits],"wd":[..],"seed","flaw":"none"|<a flaw the writer built in>,
      "msig":0|k (k concatenated signatures in every EIP712 signature leaf; then only the hashes are looked at)}
     {"ev":"Create","ok":b}                   `charon create cluster` ran / the NewForT artifact was written
     {"ev":"Load","node":i,"ok":b,"same":b,"view":{...}}   file of node i unmarshalled; same: all node directories
                                              hold the identical file; view: what the loaded object says
     {"ev":"Verify","hashes":"ok"|"fail","sigs":"ok"|"fail"}   VerifyHashes / VerifySignatures(nil) of the loaded file
     {"ev":"Leaves","paths":[...]}            the leaf paths of the JSON file (arrays as [])
     {"ev":"Keystores","node":i,"ok":b,"pubs":[...]}       public keys of the shares in node i's validator_keys
     {"ev":"Deposits","node":i,"ok":b,"files":[{"file","entries":[{pubkey,wc,amount,sig,fork,net,sig_ok}]}]}
     {"ev":"Combine","nodes":[...],"ok":b,"pubs":[...]}    combine.Combine over these node directories
     {"ev":"Tamper","leaf","ty","kind","sel","inst","jk","applied":b,"changed":b}   a copy of the pristine file altered
                                              (jk: JSON token kind of the leaf found in the file)
     {"ev":"LoadT","ok":b,"heq":b}            the altered file unmarshalled; heq: all hashes as in the pristine file
     {"ev":"End"}
   Node indices are 0-based in events, 1-based in the spec. *)
EXTENDS ClusterArtifacts, TraceCommon
\* Named deviation C12-regfee-padding (ClusterArtifactsTrace_regfeepad.cfg): the lock hash takes the registration's
\* fee recipient as a zero-padded 32-byte chunk without checking its length, so appending zero bytes (or cutting
\* trailing ones) changes the value but not the hash, and nothing else looks at the field.
CONSTANT RegFeePadding
tvars == <<vars, tr, l>>
R == Trace[1]
CfgOf(r) == [src |-> r.src, art |-> r.art, ver |-> VerIdx(r.ver), n |-> r.n, t |-> r.t, v |-> r.v, net |-> r.net,
             amounts |-> r.amounts, comp |-> r.comp, gas |-> r.gas, fee |-> r.fee, wd |-> r.wd,
             signed |-> r.src = "fort" /\ VerIdx(r.ver) >= 3, flaw |-> r.flaw, msig |-> r.msig]
TraceInit == TrInit /\ InitWith(CfgOf(R))
TReset == IsEvent("Reset") /\ l = 1 /\ UNCHANGED vars
TCreate == IsEvent("Create") /\ Ev.ok /\ Create
TLoad == IsEvent("Load") /\ Ev.ok /\ Ev.same /\ Load(Ev.view)
TVerify == /\ IsEvent("Verify") /\ cur.state = "pristine"
           /\ Ev.hashes = "ok" /\ (HashOnly \/ Ev.sigs = "ok") /\ Verify
\* a flawed artifact: at least one of the two verifications refuses it
TVerifyFlawed == /\ IsEvent("Verify") /\ ~(Ev.hashes = "ok" /\ Ev.sigs = "ok") /\ VerifyFlawed
TLeaves == /\ IsEvent("Leaves") /\ phase \in {"loaded", "verified"}
           /\ SeqToSet(Ev.paths) = LeafPaths(V, cfg.art) /\ UNCHANGED vars
TKeystores == /\ IsEvent("Keystores") /\ Ev.ok /\ Keystores(Ev.node + 1)
              /\ obs'.pubs = Ev.pubs
NodeSet(s) == {s[i] + 1 : i \in DOMAIN s}
TCombine == /\ IsEvent("Combine") /\ Cardinality(NodeSet(Ev.nodes)) = Len(Ev.nodes) /\ Combine(NodeSet(Ev.nodes))
            /\ obs'.ok = Ev.ok /\ (Ev.ok => obs'.pubs = Ev.pubs)
FileOf(f) == [amount |-> IF Len(f.entries) > 0 THEN f.entries[1].amount ELSE "", entries |-> f.entries]
TDeposits == /\ IsEvent("Deposits") /\ Ev.ok
             /\ Deposits(Ev.node + 1, [i \in DOMAIN Ev.files |-> FileOf(Ev.files[i])])
\* the named deviation: zero padding of the registration's fee recipient
FeeLeaf == DV \o "builder_registration.message.fee_recipient"
Padded == RegFeePadding /\ cur.leaf = FeeLeaf /\ cur.kind \in {"ext0", "trunc"}
TTamper == /\ IsEvent("Tamper")
           /\ IF Ev.leaf = "*" THEN Ev.applied /\ Rewrite(Ev.kind)
              ELSE /\ Tamper(Ev.leaf, Ev.kind, Ev.changed)
                   /\ Ev.ty = RowOf(Ev.leaf).ty /\ (Ev.changed => Ev.applied)
                   /\ Ev.jk \in {JsonKind(Ev.ty), "absent"}     \* the file encodes the leaf as the table says
TLoadT == IsEvent("LoadT") /\ (LoadT(Ev.ok, Ev.heq) \/ (Padded /\ Ev.ok /\ cur.state = "altered"
                                                          /\ cur' = [cur EXCEPT !.state = "loaded"]
                                                          /\ verdict' = "none" /\ UNCHANGED <<cfg, phase, lk, obs>>))
Observed == IF Ev.hashes = "ok" /\ (HashOnly \/ Ev.sigs = "ok") THEN "intact" ELSE "detected"
TVerifyT == /\ IsEvent("Verify") /\ cur.state = "loaded"
            /\ \/ VerifyT(Observed)
               \/ /\ Padded /\ cur' = [cur EXCEPT !.state = "done"] /\ verdict' = Observed
                  /\ UNCHANGED <<cfg, phase, lk, obs>>
\* {"ev":"CombineT","node":j,"ok":b}: combine.Combine over all node directories, node j's lock being the altered file
TCombineT == IsEvent("CombineT") /\ Ev.node \in 0..(cfg.n - 1) /\ CombineT(Ev.ok)
TEnd == /\ IsEvent("End") /\ l = TLen /\ cur.state \in {"pristine", "done"}
        /\ (cfg.flaw # "none" => verdict = "detected") /\ UNCHANGED vars
TraceNext == TReset \/ TCreate \/ TLoad \/ TVerify \/ TVerifyFlawed \/ TLeaves \/ TKeystores \/ TCombine \/ TCombineT \/ TDeposits
             \/ TTamper \/ TLoadT \/ TVerifyT \/ TEnd
TraceSpec == TraceInit /\ [][TraceNext]_tvars
Mark == /\ CheckInv("TamperEvident", TamperEvident \/ Padded) /\ CheckInv("ValuePreserved", ValuePreserved)
        /\ CheckInv("ShareConsistency", ShareConsistency) /\ CheckInv("CombineRule", CombineRule)
        /\ CheckInv("FlawRejected", FlawRejected) /\ CheckInv("TypeOK", TypeOK)
        /\ HWMark
====
