SPECIFICATION MCSpec
CONSTANTS Dropped = {}
 WriteOrder = "reversed"
 MaxN = 3
 FortVers = {}
 Thresholds = "default"
INVARIANTS ShareConsistency
CHECK_DEADLOCK FALSE
