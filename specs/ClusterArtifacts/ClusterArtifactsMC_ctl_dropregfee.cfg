SPECIFICATION MCSpec
CONSTANTS Dropped = {"distributed_validators[].builder_registration.message.fee_recipient"}
 WriteOrder = "node"
 MaxN = 3
 FortVers = {11}
 Thresholds = "default"
INVARIANTS TamperEvident
CHECK_DEADLOCK FALSE
