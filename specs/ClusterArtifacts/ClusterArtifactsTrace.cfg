SPECIFICATION TraceSpec
CONSTANTS Dropped = {}
 WriteOrder = "node"
 RegFeePadding = FALSE
CONSTRAINT Mark
POSTCONDITION Report
CHECK_DEADLOCK FALSE
