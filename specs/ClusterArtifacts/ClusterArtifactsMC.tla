---- MODULE ClusterArtifactsMC ----
(* Exhaustive design check: every format version x artifact kind x every leaf of the protection tables x every
   representative alteration (value-changing or not) x every outcome the life-cycle allows, plus created clusters
   (node counts, thresholds, deposit-amount sets) with every keystore, every deposit-file set and every node subset
   for recombination.  TamperEvident then says: the DECLARED protection (tags, signature fields, version notes)
   leaves no leaf of any version unprotected except the documented ones. *)
EXTENDS ClusterArtifacts, SequencesExt
CONSTANTS MaxN,        \* created clusters: 3..MaxN nodes
          Thresholds,  \* "default" | "all"
          FortVers     \* format versions explored (all of them except in the small control configurations)
Addr(i) == "00000000000000000000000000000000000000a" \o ToString(i)
FortCfg(ver, art) == [src |-> "fort", art |-> art, ver |-> ver, n |-> 3, t |-> 2, v |-> 2, net |-> "goerli",
                      amounts |-> <<>>, comp |-> FALSE, gas |-> 30000000, fee |-> <<Addr(1), Addr(2)>>,
                      wd |-> <<Addr(3), Addr(4)>>, signed |-> ver >= 3, flaw |-> "none", msig |-> 0]
MultiSigCfg(art, k) == [FortCfg(Latest, art) EXCEPT !.msig = k]
FlawedCfg(ver, art, f) == [FortCfg(ver, art) EXCEPT !.flaw = f]
CreateCfg(n, t, am, comp) ==
                     [src |-> "create", art |-> "lock", ver |-> Latest, n |-> n, t |-> t, v |-> 2, net |-> "hoodi",
                      amounts |-> am, comp |-> comp, gas |-> 36000000, fee |-> <<Addr(1), Addr(2)>>,
                      wd |-> <<Addr(3), Addr(4)>>, signed |-> FALSE, flaw |-> "none", msig |-> 0]
\* the artifacts an honest writer produces for a configuration, over abstract keys
AmountSeq(c) == SetToSeq(ExpAmountStrs(c))
Key(i) == "K" \o ToString(i)
DSig(i, a) == "S" \o ToString(i) \o "_" \o a
CanonView(c) ==
  [version |-> VerNames[c.ver + 1], nops |-> c.n, threshold |-> ExpThreshold(c), nv |-> c.v, fork |-> ForkOf[c.net],
   enrs |-> [i \in 1..c.n |-> "enr" \o ToString(i)], unsigned |-> ~c.signed,
   fee |-> [i \in 1..c.v |-> "0x" \o c.fee[i]], wd |-> [i \in 1..c.v |-> "0x" \o c.wd[i]],
   amounts |-> [i \in DOMAIN c.amounts |-> Gwei(c.amounts[i])], comp |-> c.comp, gas |-> c.gas,
   pubkeys |-> [i \in 1..c.v |-> Key(i)],
   pubshares |-> [i \in 1..c.v |-> [j \in 1..c.n |-> "P" \o ToString(i) \o "_" \o ToString(j)]],
   aggsig |-> TRUE, nodesigs |-> IF c.ver >= 7 THEN c.n ELSE 0,
   regs |-> [i \in 1..c.v |-> [present |-> TRUE, sig_ok |-> TRUE, pubkey |-> Key(i), fee |-> "0x" \o c.fee[i], gas |-> c.gas]],
   deps |-> [i \in 1..c.v |-> [j \in DOMAIN AmountSeq(c) |->
              [pubkey |-> Key(i), wc |-> ExpWC(c, i), amount |-> AmountSeq(c)[j], sig |-> DSig(i, AmountSeq(c)[j])]]]]
CanonFiles(c) == [j \in DOMAIN AmountSeq(c) |->
                   [amount |-> AmountSeq(c)[j],
                    entries |-> [i \in 1..c.v |-> [pubkey |-> Key(i), wc |-> ExpWC(c, i), amount |-> AmountSeq(c)[j],
                                                   sig |-> DSig(i, AmountSeq(c)[j]), sig_ok |-> TRUE,
                                                   fork |-> ForkOf[c.net], net |-> c.net]]]]
ThresholdsOf(n) == IF Thresholds = "all" THEN {0} \cup 2..n ELSE {0}
MCInit == \/ \E ver \in FortVers, art \in {"lock", "def"} : InitWith(FortCfg(ver, art))
          \/ \E ver \in FortVers, art \in {"lock", "def"}, f \in Flaws : FlawApplies(f, ver, art) /\ InitWith(FlawedCfg(ver, art, f))
          \/ \E art \in {"lock", "def"}, k \in {2, 3} : Latest \in FortVers /\ InitWith(MultiSigCfg(art, k))
          \/ \E n \in 3..MaxN : \E t \in ThresholdsOf(n) :
               \E am \in {<<>>, <<1, 31>>, <<16, 16, 8>>} : \E comp \in BOOLEAN : InitWith(CreateCfg(n, t, am, comp))
\* bound of the exploration only: the next case starts from the pristine file again (the design spec allows starting
\* it right after a finished one, which multiplies transitions, not states)
Discard == cur.state = "done" /\ cur' = Pristine /\ verdict' = "intact" /\ UNCHANGED <<cfg, phase, lk, obs>>
MCNext == \/ Create \/ Load(CanonView(cfg)) \/ Verify \/ VerifyFlawed
          \/ \E i \in 1..cfg.n : Keystores(i) \/ Deposits(i, CanonFiles(cfg))
          \/ \E S \in SUBSET (1..cfg.n) : Combine(S)
          \/ cur.state = "pristine" /\ \E r \in Rows : \E kind \in KindsOf(r) \cup PosKinds : \E ch \in BOOLEAN :
                                         Tamper(FullPath(r, cfg.art), kind, ch)
          \/ cur.state = "pristine" /\ \E kind \in Rewrites : Rewrite(kind)
          \/ Discard
          \/ \E ok \in BOOLEAN, heq \in BOOLEAN : LoadT(ok, heq)
          \/ \E res \in {"intact", "detected"} : VerifyT(res)
          \/ \E ok \in BOOLEAN : CombineT(ok)
MCSpec == MCInit /\ [][MCNext]_vars
\* the honest artifacts satisfy the consistency predicates (guards against unsatisfiable ones): loading never blocks
CanonAccepted == /\ ViewOK(cfg, CanonView(cfg))
                 /\ (cfg.src = "create" /\ phase \in {"loaded", "verified"}) => DepositFilesOK(CanonFiles(cfg))
\* controls that MUST be violated: the life-cycle reaches recombination / a finished tamper case
NeverCombined == obs.kind # "combine"
NeverFinished == ~Finished
NeverFlawRefused == ~(cfg.flaw # "none" /\ verdict = "detected")
====
