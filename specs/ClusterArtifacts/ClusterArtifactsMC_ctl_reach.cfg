SPECIFICATION MCSpec
CONSTANTS Dropped = {}
 WriteOrder = "node"
 MaxN = 3
 FortVers = {}
 Thresholds = "default"
INVARIANTS NeverCombined
CHECK_DEADLOCK FALSE
