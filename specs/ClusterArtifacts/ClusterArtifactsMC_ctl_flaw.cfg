SPECIFICATION MCSpec
CONSTANTS Dropped = {}
 WriteOrder = "node"
 MaxN = 3
 FortVers = {11}
 Thresholds = "default"
INVARIANTS NeverFlawRefused
CHECK_DEADLOCK FALSE
