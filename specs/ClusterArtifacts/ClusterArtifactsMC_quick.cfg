SPECIFICATION MCSpec
CONSTANTS Dropped = {}
 WriteOrder = "node"
 MaxN = 4
 Thresholds = "default"
INVARIANTS Safety CanonAccepted
CHECK_DEADLOCK FALSE
