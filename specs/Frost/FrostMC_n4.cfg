SPECIFICATION MCSpec
CONSTANTS Variant = "ok"
 MCP = 7
 MCN = 4
 MCTs = {2, 3, 4}
 MCVs = {1, 2}
 PolyMode = "few"
 MaxRedel = 0
 MaxFault = 0
 FaultNodes = {1, 2, 3}
 OrderMode = "canon"
INVARIANTS TypeOK CountsDistinct NoFailure ThresholdIsT Agreement KeyedByShareIdx OwnShareMatches GroupKeyIsSum AnyTRecover AnyTSign BelowThresholdSafe
PROPERTIES RedeliveryNoEffect BarrierComplete
CHECK_DEADLOCK TRUE
