---- MODULE FrostMC ----
(* Exhaustive design check of one ceremony.
   PolyMode  "all"   every node picks among ALL polynomials of the field (the algebra, for every secret and mask)
             "most"  all nodes but the last pick among all polynomials, the last among 2 (quick tier)
             "few"   every node picks among 2 polynomials (used with free delivery order)
             "one"   every node has one polynomial (used with free order + re-deliveries: the question there is which
                     messages a node holds when it passes a barrier, not the algebra)
   MaxRedel  bound on the number of re-deliveries (free order only)
   MaxFault  bound on the number of failing sends (free order only), FaultNodes the nodes they may hit (the nodes are
             interchangeable up to the polynomial they pick): each is followed by BOTH continuations -- the node
             gives up (StartAbort / Ret1Abort / Ret2Abort), the node tries again and carries on (Start / Ret1)
   OrderMode "free"  every interleaving of the deliveries and of the nodes' progress
             "canon" one canonical interleaving (the results do not depend on the order: that is what the "free"
                     configurations check; "canon" spends the budget on the polynomials instead): all round-1
                     deliveries, then the nodes pass the barrier in turn, ...
             "eager" another canonical interleaving: a node passes the barrier the moment it may *)
EXTENDS Frost
CONSTANTS MCP, MCN, MCTs, MCVs, PolyMode, OrderMode, MaxRedel, MaxFault, FaultNodes
MCInit == \E t \in MCTs, nv \in MCVs : t <= MCN /\ InitWith(MCN, t, nv, MCP)
Few(i) == {[v \in Vals |-> [k \in 1..LibThreshold |-> Mod(i + 2 * v + a * k * k + (a - 1) * i * k)]] : a \in {1, 2}}
One(i) == {[v \in Vals |-> [k \in 1..LibThreshold |-> Mod(i + 2 * v + k * k)]]}
Polys(i) == IF PolyMode = "one" THEN One(i) ELSE IF PolyMode = "all" \/ (PolyMode = "most" /\ i < par.n) THEN [Vals -> [1..LibThreshold -> Zp]] ELSE Few(i)
Pend1C == {m \in Nodes \X Nodes : m[1] # m[2] /\ phase[m[1]] # "idle" /\ m[1] \notin got1c[m[2]]}
Pend1P == {m \in Nodes \X Nodes : m[1] # m[2] /\ phase[m[1]] # "idle" /\ m[1] \notin got1p[m[2]]}
Pend2 == {m \in Nodes \X Nodes : m[1] # m[2] /\ phase[m[1]] \in {"r2", "done"} /\ m[1] \notin got2[m[2]]}
CanRet1 == {j \in Nodes : phase[j] = "r1" /\ Barrier1(j)}
MinPair(S) == CHOOSE m \in S : \A o \in S : m[1] * 100 + m[2] <= o[1] * 100 + o[2]
Min(S) == CHOOSE m \in S : \A o \in S : m <= o
Idle == {i \in Nodes : phase[i] = "idle"}
RECURSIVE SumCard(_)
SumCard(S) == IF S = {} THEN 0 ELSE LET i == CHOOSE x \in S : TRUE IN Cardinality(flt[i]) + SumCard(S \ {i})
NFault == SumCard(Nodes)
FreeNext == \/ \E i \in Nodes : \E c \in Polys(i) : Start(i, c)
            \/ \E i, j \in Nodes : Deliver1C(i, j) \/ Deliver1P(i, j) \/ Deliver2(i, j)
            \/ \E j \in Nodes : Ret1(j) \/ Ret2(j)
            \/ (redel < MaxRedel /\ \E i, j \in Nodes : \E k \in Kinds : Redeliver(i, j, k))
            \/ (NFault < MaxFault /\ \E i \in FaultNodes \cap Nodes : \E r \in {1, 2} : Fault(i, r))
            \/ \E i \in Nodes : \E c \in Polys(i) : StartAbort(i, c)
            \/ \E j \in Nodes : Ret1Abort(j) \/ Ret2Abort(j)
EagerNext == IF Idle # {} THEN \E c \in Polys(Min(Idle)) : Start(Min(Idle), c)
             ELSE IF CanRet1 # {} THEN Ret1(Min(CanRet1))
             ELSE IF Pend1C \cup Pend1P # {}
               THEN LET m == MinPair(Pend1C \cup Pend1P) IN
                    IF m \in Pend1C THEN Deliver1C(m[1], m[2]) ELSE Deliver1P(m[1], m[2])
             ELSE IF Pend2 # {} THEN Deliver2(MinPair(Pend2)[1], MinPair(Pend2)[2])
             ELSE \E j \in Nodes : Ret2(j)
CanonNext == IF Idle # {} THEN \E c \in Polys(Min(Idle)) : Start(Min(Idle), c)
             ELSE IF Pend1C # {} THEN Deliver1C(MinPair(Pend1C)[1], MinPair(Pend1C)[2])
             ELSE IF Pend1P # {} THEN Deliver1P(MinPair(Pend1P)[1], MinPair(Pend1P)[2])
             ELSE IF CanRet1 # {} THEN Ret1(Min(CanRet1))
             ELSE IF Pend2 # {} THEN Deliver2(MinPair(Pend2)[1], MinPair(Pend2)[2])
             ELSE \E j \in Nodes : Ret2(j)
\* a completed ceremony stutters, so that TLC's deadlock check reports exactly the runs that get stuck before
\* every node holds its result (CHECK_DEADLOCK TRUE in the cfgs): every honest run can be completed (once a node has
\* given up after a failed send the others may wait for ever: that ceremony has aborted)
MCNext == (CASE OrderMode = "free" -> FreeNext [] OrderMode = "eager" -> EagerNext [] OTHER -> CanonNext) \/ ((AllDone \/ SomeAborted) /\ UNCHANGED vars)
MCSpec == MCInit /\ [][MCNext]_vars
====
