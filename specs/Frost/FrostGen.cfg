SPECIFICATION GenSpec
CONSTANTS Variant = "ok"
 GenP = 11
 MinN = 3
 MaxN = 5
 MaxV = 3
 MaxRedel = 0
 MaxFault = 0
INVARIANTS Emit
CHECK_DEADLOCK FALSE
