---- MODULE Frost ----
(* dkg/frost.go (runFrostParallel: newFrostParticipants, round1, transport Round1, round2 / getRound2Inputs,
   transport Round2, makeShares), the kryptology FROST participant it drives (pkg/dkg/frost: Round1 = Feldman
   split + commitments, Round2 = Feldman verification of every received share + summation), and the transport
   contract dkg/frostp2p.go implements (Round1 returns when the node holds the round-1 cast of EVERY node, its own
   included, and the round-1 share message of every OTHER node; Round2 returns when it holds every round-2 cast;
   frostP2P COUNTS the messages in its receive channels -- "len(castsRecvs) == len(f.peers)" -- and builds the
   response as a map, so "one cast from EVERY peer" rests on the callbacks accepting each peer's cast once;
   messages are per (source, target) BATCHES holding the entries of all validators, keyed by msgKey
   [ValIdx, SourceID, TargetID]).

   One ceremony: n nodes (a node IS its share index 1..n = cluster.NodeIdx.ShareIdx = peer index + 1), threshold t,
   nv validators (ValIdx 0..nv-1, run in parallel over shared transport rounds).

   Algebra: everything lives in the exponent over GF(p): the public image of a scalar x (g^x) is represented by x
   itself, so Pub(x) = x, a commitment to coefficient a is a, Sign(sk, h) = sk * h for a message hash h # 0 and
   Verify(pk, h, s) <=> s = pk * h; threshold operations interpolate at 0 over the presented (index, value) points.
   Linear relations between keys, shares and signatures are exactly those of the real group; what does not carry
   over are coincidences of the small field, which is why the executor's oracle is the RELATION (equal / verifies),
   never a number.  Not modelled: the Schnorr proof of knowledge (Wi, Ci) in the round-1 cast and the "commitment
   is not the identity" test of Round2 (an honest node's proof verifies; a zero coefficient has probability 2^-255
   in the real field and is an ordinary polynomial here).

   Actions (one per step of the code that other nodes can observe):
     Start(i, c)      node i: round1() picks the polynomials c[v] (degree t-1, coefficient 1 = secret contribution),
                      transport Round1 is entered: cast broadcast, own cast self-delivered, one share batch per peer
     Deliver1C(i, j)  the round-1 cast batch of i reaches j          } any order; the round-2 cast of a fast node may
     Deliver1P(i, j)  the round-1 share batch of i for j reaches j   } reach a node that is still in round 1
     Deliver2(i, j)   the round-2 cast batch of i reaches j          } (separate receive channels in frostP2P)
     Redeliver(i,j,k) a batch j has already received reaches it AGAIN (k = "c1" | "c2" | "p1"): the reliable
                      broadcast and p2p layers may re-deliver; newBcastCallback / newP2PCallback keep one seen-set
                      per message kind, so the copy is dropped and NOTHING changes
     Ret1(j)          BARRIER: j holds all round-1 inputs; transport Round1 returns, round2() verifies every share
                      against its sender's commitments, sums, and transport Round2 is entered (cast, self-delivery)
     Ret2(j)          j holds all round-2 casts; transport Round2 returns, makeShares builds the result
     Fault(i, r)      ENVIRONMENT: one send of node i's round-r send step (the reliable broadcast of its cast, or -- r = 1 --
                      a direct share send) will FAIL with a transient error (stream reset / resource scope closed as
                      p2p.IsRelayError classifies them, or any other error).  As coded the send step returns the error and
                      the node ABORTS (StartAbort / Ret1Abort: runFrostParallel returns the error); an implementation that
                      tries again continues with Start / Ret1 exactly as if nothing had failed -- whatever it re-sends
                      reaches a peer as a Redeliver (no effect) -- and may still abort later (Ret1Abort / Ret2Abort).
                      The property is silent on WHICH of the two happens ("either the ceremony aborts, or ..."); it is not
                      silent on the result: the nodes that finish agree (FinAgreement, FinShareMatches, FinReconstructs)
                      and a node enters round 2 only with the round-1 cast of ALL n participants (UsedAllCasts).

   Variant selects controls that MUST violate an invariant (FrostMC_ctl_*.cfg):
     "ok"         as coded
     "pskey0"     makeShares keys the public shares by SourceID - 1 (share index = node index, not node index + 1)
     "valperm"    makeShares hands validator v the public shares of validator v + 1 (results permuted)
     "tminus1"    the FROST library is given threshold t - 1
     "nobarrier"  transport Round1 returns one cast (and the matching share batch) early
     "lastid"     newBcastCallback keeps, per peer, only the id of the LAST accepted cast (one map for both rounds):
                  once a peer's round-2 cast was accepted a re-delivered round-1 cast of it is accepted again
     "mixvals"    getRound2Inputs ignores ValIdx: every validator's round 2 sees the inputs of the LAST validator
     "retrydup"   frostP2P.Round1 runs its whole send step a second time after a failed send: the self-delivery of the
                  node's own cast ("f.round1CastsRecv <- casts") is repeated and bypasses the callback's seen-set, so
                  the own cast is counted twice and the node proceeds with one participant's cast MISSING *)
EXTENDS Integers, FiniteSets, Sequences, TLC
CONSTANTS Variant

VARIABLES par,      \* [n, t, nv, p]: nodes, threshold, validators, field modulus (fixed by Init)
          phase,    \* node -> "idle" | "r1" (inside transport Round1) | "r2" (inside transport Round2) | "done" | "failed" | "aborted"
          poly,     \* node -> [ValIdx -> coefficient sequence] (the node's private polynomials)
          c1,       \* node -> round-1 cast batch    [ValIdx -> commitments]
          p1,       \* node -> round-1 share batches [target -> [ValIdx -> [id, val]]]
          c2,       \* node -> round-2 cast batch    [ValIdx -> [vk, vks]]
          got1c, got1p, got2,   \* node -> sources whose batch has been received (= the callbacks' seen-sets
                                \* dedupRound1Casts / dedupRound1P2P / dedupRound2Casts, plus the node itself)
          cnt1, cnt2,           \* node -> number of cast messages in its round1CastsRecv / round2CastsRecv channel
          last,                 \* node -> [peer -> round of the last cast accepted from it] (only "lastid" reads it)
          redel,                \* number of re-deliveries so far (history; bounded in MC configs)
          flt,                  \* node -> rounds (1, 2) whose send step is hit by a failing send (environment)
          used1,                \* node -> sources of the round-1 casts it took into round 2 (history, set by Ret1)
          sk, vk,   \* node -> [ValIdx -> own secret share / verification (group) key] after round 2
          res       \* node -> [ValIdx -> [gk, ss, ps]]: share.Share{PubKey, SecretShare, PublicShares}
vars == <<par, phase, poly, c1, p1, c2, got1c, got1p, got2, cnt1, cnt2, last, redel, flt, used1, sk, vk, res>>

Nodes == 1..par.n
Vals == 0..(par.nv - 1)

------------------------------------------------------------------------------------------------------------
(* algebra over GF(par.p) *)
Zp == 0..(par.p - 1)
Mod(a) == ((a % par.p) + par.p) % par.p
RECURSIVE Pow(_, _)
Pow(a, e) == IF e = 0 THEN 1
             ELSE IF e % 2 = 0 THEN LET h == Pow(a, e \div 2) IN Mod(h * h)
             ELSE Mod(a * Pow(a, e - 1))
Inv(a) == Pow(Mod(a), par.p - 2)                                   \* Fermat
RECURSIVE EvalFrom(_, _, _)
EvalFrom(coef, x, k) == IF k > Len(coef) THEN 0 ELSE Mod(coef[k] + x * EvalFrom(coef, x, k + 1))   \* Horner
Eval(coef, x) == EvalFrom(coef, x, 1)                              \* coef[1] = f(0)
Pub(x) == x                                                        \* g^x, in the exponent
RECURSIVE Num(_, _), Den(_, _), SumPts(_, _), SumOf(_, _)
Num(X, xi) == IF X = {} THEN 1 ELSE LET x == CHOOSE y \in X : TRUE IN
                Mod((IF x = xi THEN 1 ELSE x) * Num(X \ {x}, xi))
Den(X, xi) == IF X = {} THEN 1 ELSE LET x == CHOOSE y \in X : TRUE IN
                Mod((IF x = xi THEN 1 ELSE x - xi) * Den(X \ {x}, xi))
Lambda(X, xi) == Mod(Num(X, xi) * Inv(Den(X, xi)))                 \* prod_{x # xi} x / (x - xi)
SumPts(pts, X) == IF pts = {} THEN 0 ELSE LET q == CHOOSE r \in pts : TRUE IN
                    Mod(Lambda(X, q[1]) * q[2] + SumPts(pts \ {q}, X))
\* tbls RecoverPubkey / ThresholdAggregate: Lagrange interpolation at 0 over the MAP KEYS of the argument
Interp(pts) == SumPts(pts, {q[1] : q \in pts})
SumOf(S, f) == IF S = {} THEN 0 ELSE LET i == CHOOSE x \in S : TRUE IN Mod(f[i] + SumOf(S \ {i}, f))
Sign(s, h) == Mod(s * h)
Verify(pk, h, s) == s = Mod(pk * h)
\* sharing.FeldmanVerifier.Verify: sum_k commitment_k * id^(k-1) = g^val -- with the id the SHARE carries
FeldmanOK(cm, sh) == Eval(cm, sh.id) = Pub(sh.val)

------------------------------------------------------------------------------------------------------------
LibThreshold == IF Variant = "tminus1" THEN par.t - 1 ELSE par.t   \* frost.NewDkgParticipant(shareIdx, threshold, ...)
PolyShape(c) == /\ DOMAIN c = Vals
                /\ \A v \in Vals : c[v] \in [1..LibThreshold -> Zp]

InitWith(n, t, nv, p) ==
  /\ par = [n |-> n, t |-> t, nv |-> nv, p |-> p]
  /\ phase = [i \in 1..n |-> "idle"]
  /\ poly = [i \in 1..n |-> <<>>] /\ c1 = [i \in 1..n |-> <<>>] /\ p1 = [i \in 1..n |-> <<>>]
  /\ c2 = [i \in 1..n |-> <<>>]
  /\ got1c = [i \in 1..n |-> {}] /\ got1p = [i \in 1..n |-> {}] /\ got2 = [i \in 1..n |-> {}]
  /\ cnt1 = [i \in 1..n |-> 0] /\ cnt2 = [i \in 1..n |-> 0]
  /\ last = [j \in 1..n |-> [i \in 1..n |-> 0]] /\ redel = 0
  /\ flt = [i \in 1..n |-> {}] /\ used1 = [i \in 1..n |-> {}]
  /\ sk = [i \in 1..n |-> <<>>] /\ vk = [i \in 1..n |-> <<>>] /\ res = [i \in 1..n |-> <<>>]

\* ENVIRONMENT: one send of i's round-r send step fails (the node has not reached that step yet)
Fault(i, r) ==
  /\ r \in {1, 2} /\ r \notin flt[i]
  /\ phase[i] \in (IF r = 1 THEN {"idle"} ELSE {"idle", "r1"})
  /\ flt' = [flt EXCEPT ![i] = @ \cup {r}]
  /\ UNCHANGED <<par, phase, poly, c1, p1, c2, got1c, got1p, got2, cnt1, cnt2, last, redel, used1, sk, vk, res>>

\* round1(): kryptology Round1 per validator -- feldman.Split gives share id x the value f(x); the share for
\* participant id is shares[id-1]; the cast carries the commitments; then frostP2P.Round1 sends everything.
\* ab: a send of the step failed and the node gives up (whatever it had sent before may still reach its peers).
SelfCasts(i) == IF Variant = "retrydup" /\ 1 \in flt[i] THEN 2 ELSE 1
StartBody(i, c, ab) ==
  /\ phase[i] = "idle" /\ PolyShape(c)
  /\ poly' = [poly EXCEPT ![i] = c]
  /\ c1' = [c1 EXCEPT ![i] = [v \in Vals |-> [k \in 1..Len(c[v]) |-> Pub(c[v][k])]]]
  /\ p1' = [p1 EXCEPT ![i] = [j \in Nodes \ {i} |-> [v \in Vals |-> [id |-> j, val |-> Eval(c[v], j)]]]]
  /\ IF ab THEN phase' = [phase EXCEPT ![i] = "aborted"] /\ UNCHANGED <<got1c, cnt1>>
     ELSE /\ got1c' = [got1c EXCEPT ![i] = @ \cup {i}]             \* "f.round1CastsRecv <- casts // Send to self"
          /\ cnt1' = [cnt1 EXCEPT ![i] = @ + SelfCasts(i)]
          /\ phase' = [phase EXCEPT ![i] = "r1"]
  /\ UNCHANGED <<par, c2, got1p, got2, cnt2, last, redel, flt, used1, sk, vk, res>>
Start(i, c) == StartBody(i, c, FALSE)
StartAbort(i, c) == 1 \in flt[i] /\ StartBody(i, c, TRUE)

\* first delivery of a batch: the callback has not seen this peer's message of this kind, records it, pushes it
Deliver1C(i, j) == /\ i # j /\ phase[i] # "idle" /\ i \notin got1c[j]
                   /\ got1c' = [got1c EXCEPT ![j] = @ \cup {i}]
                   /\ cnt1' = [cnt1 EXCEPT ![j] = @ + 1] /\ last' = [last EXCEPT ![j][i] = 1]
                   /\ UNCHANGED <<par, phase, poly, c1, p1, c2, got1p, got2, cnt2, redel, flt, used1, sk, vk, res>>
Deliver1P(i, j) == /\ i # j /\ phase[i] # "idle" /\ i \notin got1p[j]
                   /\ got1p' = [got1p EXCEPT ![j] = @ \cup {i}]
                   /\ UNCHANGED <<par, phase, poly, c1, p1, c2, got1c, got2, cnt1, cnt2, last, redel, flt, used1, sk, vk, res>>
\* (the round-2 cast of a node that aborted INSIDE its round-2 send step may have reached some of its peers)
Deliver2(i, j) == /\ i # j /\ i \notin got2[j]
                  /\ phase[i] \in {"r2", "done"} \/ (phase[i] = "aborted" /\ DOMAIN c2[i] # {})
                  /\ got2' = [got2 EXCEPT ![j] = @ \cup {i}]
                  /\ cnt2' = [cnt2 EXCEPT ![j] = @ + 1] /\ last' = [last EXCEPT ![j][i] = 2]
                  /\ UNCHANGED <<par, phase, poly, c1, p1, c2, got1c, got1p, cnt1, redel, flt, used1, sk, vk, res>>
\* a batch j already received is delivered to it again (same message id, same validly signed content)
Kinds == {"c1", "c2", "p1"}
Redeliver(i, j, k) ==
  /\ i # j /\ k \in Kinds
  /\ i \in (CASE k = "c1" -> got1c[j] [] k = "c2" -> got2[j] [] OTHER -> got1p[j])
  /\ redel' = redel + 1
  /\ LET r == IF k = "c1" THEN 1 ELSE 2
         accepted == Variant = "lastid" /\ k # "p1" /\ last[j][i] # r
     IN IF accepted
        THEN /\ last' = [last EXCEPT ![j][i] = r]
             /\ IF k = "c1" THEN cnt1' = [cnt1 EXCEPT ![j] = @ + 1] /\ UNCHANGED cnt2
                ELSE cnt2' = [cnt2 EXCEPT ![j] = @ + 1] /\ UNCHANGED cnt1
        ELSE UNCHANGED <<last, cnt1, cnt2>>                         \* "Ignoring duplicate round ... message"
  /\ UNCHANGED <<par, phase, poly, c1, p1, c2, got1c, got1p, got2, flt, used1, sk, vk, res>>

\* frostP2P.Round1: "len(castsRecvs) == len(f.peers) && len(p2pRecvs) == len(f.peers)-1" -- message COUNTS
Barrier1(j) == IF Variant = "nobarrier"
               THEN cnt1[j] >= par.n - 1 /\ got1p[j] = got1c[j] \ {j}
               ELSE cnt1[j] = par.n /\ Cardinality(got1p[j]) = par.n - 1
\* getRound2Inputs: the round-2 inputs of validator v are the entries whose ValIdx is v, by SourceID
InVal(v) == IF Variant = "mixvals" THEN par.nv - 1 ELSE v
\* ab: the broadcast of the round-2 cast failed and the node gives up (the cast may have reached some peers)
Ret1Body(j, ab) ==
  /\ phase[j] = "r1" /\ Barrier1(j)
  /\ used1' = [used1 EXCEPT ![j] = got1c[j]]
  /\ LET from == got1c[j] \ {j}              \* makeRound1Response is a map; kryptology Round2: "for id := range bcast"
         ok == /\ from \subseteq got1p[j]
               /\ \A i \in from : \A v \in Vals : FeldmanOK(c1[i][InVal(v)], p1[i][j][InVal(v)])
         nsk == [v \in Vals |-> Mod(Eval(poly[j][v], j) + SumOf(from, [i \in from |-> p1[i][j][InVal(v)].val]))]
         nvk == [v \in Vals |-> Mod(c1[j][v][1] + SumOf(from, [i \in from |-> c1[i][InVal(v)][1]]))]
     IN IF ok
        THEN /\ sk' = [sk EXCEPT ![j] = nsk] /\ vk' = [vk EXCEPT ![j] = nvk]
             /\ c2' = [c2 EXCEPT ![j] = [v \in Vals |-> [vk |-> nvk[v], vks |-> Pub(nsk[v])]]]
             /\ IF ab THEN phase' = [phase EXCEPT ![j] = "aborted"] /\ UNCHANGED <<got2, cnt2>>
                ELSE /\ got2' = [got2 EXCEPT ![j] = @ \cup {j}]    \* "f.round2CastsRecv <- casts // Send to self"
                     /\ cnt2' = [cnt2 EXCEPT ![j] = @ + 1]
                     /\ phase' = [phase EXCEPT ![j] = "r2"]
        ELSE /\ phase' = [phase EXCEPT ![j] = "failed"]            \* "feldman verify fails for participant ..."
             /\ UNCHANGED <<sk, vk, c2, got2, cnt2>>
  /\ UNCHANGED <<par, poly, c1, p1, got1c, got1p, cnt1, last, redel, flt, res>>
Ret1(j) == Ret1Body(j, FALSE)
\* a node whose send failed gives up: inside its round-2 send step, or -- it had tried round 1 again -- while it waits
GiveUp(j, ph) == /\ phase[j] = ph /\ flt[j] # {}
                 /\ phase' = [phase EXCEPT ![j] = "aborted"]
                 /\ UNCHANGED <<par, poly, c1, p1, c2, got1c, got1p, got2, cnt1, cnt2, last, redel, flt, used1, sk, vk, res>>
Ret1Abort(j) == (2 \in flt[j] /\ Ret1Body(j, TRUE)) \/ (1 \in flt[j] /\ GiveUp(j, "r1"))
Ret2Abort(j) == GiveUp(j, "r2")

\* frostP2P.Round2: "for len(castsRecvs) != len(f.peers)" (a count again); then makeShares: PublicShares[SourceID] =
\* VkShare of the round-2 cast keyed [ValIdx, SourceID]; PubKey = the node's OWN VerificationKey; ordered by ValIdx.
PsKey(i) == IF Variant = "pskey0" THEN i - 1 ELSE i
PsVal(v) == IF Variant = "valperm" THEN (v + 1) % par.nv ELSE v
Ret2(j) ==
  /\ phase[j] = "r2" /\ cnt2[j] = par.n
  /\ res' = [res EXCEPT ![j] = [v \in Vals |->
               [gk |-> vk[j][v], ss |-> sk[j][v],
                ps |-> [x \in {PsKey(i) : i \in got2[j]} |-> c2[CHOOSE i \in got2[j] : PsKey(i) = x][PsVal(v)].vks]]]]
  /\ phase' = [phase EXCEPT ![j] = "done"]
  /\ UNCHANGED <<par, poly, c1, p1, c2, got1c, got1p, got2, cnt1, cnt2, last, redel, flt, used1, sk, vk>>

------------------------------------------------------------------------------------------------------------
(* The property (C11), stated over the results of a completed ceremony. *)
AllDone == \A j \in Nodes : phase[j] = "done"
SubsetsOf(k) == {S \in SUBSET Nodes : Cardinality(S) = k}
\* relations, as the executor computes them with real tbls calls (k = the node whose view is used)
GkEq(v) == \A j, k \in Nodes : res[j][v].gk = res[k][v].gk
PsEq(v) == \A j, k \in Nodes : res[j][v].ps = res[k][v].ps
PsKeys(j, v) == DOMAIN res[j][v].ps
Own(j, v) == j \in PsKeys(j, v) /\ Pub(res[j][v].ss) = res[j][v].ps[j]        \* SecretToPublicKey(secret) = pubshare_j
RecPk(k, v, S) == /\ S \subseteq PsKeys(k, v)
                  /\ Interp({<<i, res[k][v].ps[i]>> : i \in S}) = res[k][v].gk  \* RecoverPubkey
AggSig(v, S, h) == Interp({<<i, Sign(res[i][v].ss, h)>> : i \in S})             \* ThresholdAggregate of partials
SigOK(k, v, S, h) == Verify(res[k][v].gk, h, AggSig(v, S, h))
PartialsOK(k, v, S, h) == /\ S \subseteq PsKeys(k, v)
                          /\ \A i \in S : Verify(res[k][v].ps[i], h, Sign(res[i][v].ss, h))
\* the coefficient of x^(t-1) of the joint polynomial: when it is not 0 the joint polynomial has degree exactly t-1
LeadSum(v) == SumOf(Nodes, [i \in Nodes |-> IF Len(poly[i][v]) >= par.t THEN poly[i][v][par.t] ELSE 0])
Hs == {1, 2}               \* message hashes: signatures are linear in h, every h # 0 behaves like h = 1

NoFailure == \A j \in Nodes : phase[j] # "failed"
Agreement == AllDone => \A v \in Vals : GkEq(v) /\ PsEq(v)
KeyedByShareIdx == AllDone => \A j \in Nodes, v \in Vals : PsKeys(j, v) = Nodes
OwnShareMatches == AllDone => \A j, k \in Nodes, v \in Vals :
                      j \in PsKeys(k, v) /\ Pub(res[j][v].ss) = res[k][v].ps[j]
GroupKeyIsSum == AllDone => \A j \in Nodes, v \in Vals :
                      res[j][v].gk = Pub(SumOf(Nodes, [i \in Nodes |-> poly[i][v][1]]))
AnyTRecover == AllDone => \A k \in Nodes, v \in Vals : \A S \in SUBSET Nodes :
                      Cardinality(S) >= par.t => RecPk(k, v, S)
AnyTSign == AllDone => \A v \in Vals : \A S \in SUBSET Nodes : Cardinality(S) >= par.t =>
                      \A h \in Hs : LET a == AggSig(v, S, h) IN
                         \A k \in Nodes : Verify(res[k][v].gk, h, a) /\ PartialsOK(k, v, S, h)
ThresholdIsT == \A i \in Nodes : phase[i] # "idle" => \A v \in Vals : Len(c1[i][v]) = par.t
\* fewer than t shares do not make the key (for a joint polynomial of degree exactly t-1: t-1 points and the value at
\* 0 would be t roots of a non-zero polynomial of degree t-1)
BelowThresholdSafe == AllDone => \A v \in Vals : LeadSum(v) # 0 =>
                        \A S \in SubsetsOf(par.t - 1) : \A h \in Hs : ~SigOK(1, v, S, h)
TypeOK == /\ \A j \in Nodes : phase[j] \in {"idle", "r1", "r2", "done", "failed", "aborted"}
          /\ \A j \in Nodes : got1c[j] \subseteq Nodes /\ got1p[j] \subseteq Nodes \ {j} /\ got2[j] \subseteq Nodes
          /\ \A j \in Nodes : flt[j] \subseteq {1, 2} /\ used1[j] \subseteq Nodes
          /\ \A j \in Nodes : phase[j] = "aborted" => flt[j] # {}         \* only a node whose send failed gives up
\* every message in a receive channel is from a different peer: what makes counting messages sound
CountsDistinct == \A j \in Nodes : cnt1[j] = Cardinality(got1c[j]) /\ cnt2[j] = Cardinality(got2[j])
\* a re-delivered message never changes a node's state
RedeliveryNoEffect == [][redel' # redel =>
                           UNCHANGED <<par, phase, poly, c1, p1, c2, got1c, got1p, got2, cnt1, cnt2, flt, used1, sk, vk, res>>]_vars
\* a node leaves round 1 only with one round-1 cast from EVERY peer (and every peer's share batch), round 2 likewise
\* (a node that gives up after a failed send leaves with whatever it has: it produces no result)
LeavesComplete(j) == /\ (phase[j] = "r1" /\ phase'[j] \notin {"r1", "aborted"}) => (got1c[j] = Nodes /\ got1p[j] = Nodes \ {j})
                     /\ (phase[j] = "r2" /\ phase'[j] \notin {"r2", "aborted"}) => got2[j] = Nodes
BarrierComplete == [][\A j \in Nodes : LeavesComplete(j)]_vars
\* With failing sends (Fault): whatever the node whose send failed does -- give up or try again --, the nodes that
\* FINISH hold one consistent threshold key, and nobody got into round 2 without the round-1 cast of every participant.
Fin == {j \in Nodes : phase[j] = "done"}
SomeAborted == \E j \in Nodes : phase[j] = "aborted"
UsedAllCasts == \A j \in Nodes : phase[j] \in {"r2", "done"} => used1[j] = Nodes
FinAgreement == \A j, k \in Fin : \A v \in Vals : res[j][v].gk = res[k][v].gk /\ res[j][v].ps = res[k][v].ps
FinShareMatches == \A j, k \in Fin : \A v \in Vals : j \in PsKeys(k, v) /\ Pub(res[j][v].ss) = res[k][v].ps[j]
FinReconstructs == \A k \in Fin : \A v \in Vals : \A S \in SUBSET Nodes : Cardinality(S) >= par.t =>
                      /\ RecPk(k, v, S)                                       \* a finished node holds ALL public shares
                      /\ S \subseteq Fin => \A h \in Hs : Verify(res[k][v].gk, h, AggSig(v, S, h))
Safety == TypeOK /\ CountsDistinct /\ NoFailure /\ Agreement /\ KeyedByShareIdx /\ OwnShareMatches /\ GroupKeyIsSum
          /\ AnyTRecover /\ AnyTSign /\ ThresholdIsT /\ BelowThresholdSafe
====
